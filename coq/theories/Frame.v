(* Frame.v — model of the section framing of pybufrkit:
     bufr.SectionConfigurer (definitions/*.json as DATA, get_configuration,
     configure_section, info_configuration, ignore_value_expectation),
     encoder.Encoder.process / process_section / process_unexpanded_descriptors,
     decoder.Decoder.process / process_section / process_unexpanded_descriptors,
     decoder.generate_bufr_message (the info_only branch without filter).

   The content of the data section (template data) is ABSTRACT here:
     - the encoder receives the already encoded data bits ([PData bits]) and
       appends them;
     - the decoder calls [decode_data props reader], a Section variable that
       returns the bits the template decoder consumed and the remaining reader.
   Everything else is as coded, Python-isms included (bin values are written
   with their own length, not the declared one; nbits = 0 means "to the end of
   the section"; the descriptor count is derived from the section length;
   [edition.value or DEFAULT]; the eager [section_configs[DEFAULT]]).

   Expected-value check: modelled AFTER the repair fixes/C12_expected_value_error.diff
   (PyBufrKitError instead of assert, defect D10). *)
From PBK Require Import Base Bits.

Inductive ptype := TUint | TBytes | TBin | TBool | TDescs | TData.

(* every parameter name of the bundled definitions/*.json *)
Inductive pname :=
  | Nstart_signature | Nlength | Nedition | Noriginating_centre
  | Nupdate_sequence_number | Nis_section2_presents | Nflag_bits | Ndata_category
  | Ndata_local_subcategory | Nmaster_table_version | Nlocal_table_version
  | Nyear | Nmonth | Nday | Nhour | Nminute | Nsecond | Nsection_length
  | Nmaster_table_number | Noriginating_subcentre | Ndata_i18n_subcategory
  | Nreserved_bits | Nlocal_bits | Nn_subsets | Nis_observation | Nis_compressed
  | Nunexpanded_descriptors | Ntemplate_data | Nstop_signature.

Scheme Equality for pname.     (* pname_beq, pname_eq_dec *)

(* the ASCII spelling (the data tie with the JSON files and the key of '%name' queries) *)
Definition name_str (n : pname) : list byte :=
  match n with
  | Nstart_signature => [115;116;97;114;116;95;115;105;103;110;97;116;117;114;101]  (* start_signature *)
  | Nlength => [108;101;110;103;116;104]  (* length *)
  | Nedition => [101;100;105;116;105;111;110]  (* edition *)
  | Noriginating_centre => [111;114;105;103;105;110;97;116;105;110;103;95;99;101;110;116;114;101]  (* originating_centre *)
  | Nupdate_sequence_number => [117;112;100;97;116;101;95;115;101;113;117;101;110;99;101;95;110;117;109;98;101;114]  (* update_sequence_number *)
  | Nis_section2_presents => [105;115;95;115;101;99;116;105;111;110;50;95;112;114;101;115;101;110;116;115]  (* is_section2_presents *)
  | Nflag_bits => [102;108;97;103;95;98;105;116;115]  (* flag_bits *)
  | Ndata_category => [100;97;116;97;95;99;97;116;101;103;111;114;121]  (* data_category *)
  | Ndata_local_subcategory => [100;97;116;97;95;108;111;99;97;108;95;115;117;98;99;97;116;101;103;111;114;121]  (* data_local_subcategory *)
  | Nmaster_table_version => [109;97;115;116;101;114;95;116;97;98;108;101;95;118;101;114;115;105;111;110]  (* master_table_version *)
  | Nlocal_table_version => [108;111;99;97;108;95;116;97;98;108;101;95;118;101;114;115;105;111;110]  (* local_table_version *)
  | Nyear => [121;101;97;114]  (* year *)
  | Nmonth => [109;111;110;116;104]  (* month *)
  | Nday => [100;97;121]  (* day *)
  | Nhour => [104;111;117;114]  (* hour *)
  | Nminute => [109;105;110;117;116;101]  (* minute *)
  | Nsecond => [115;101;99;111;110;100]  (* second *)
  | Nsection_length => [115;101;99;116;105;111;110;95;108;101;110;103;116;104]  (* section_length *)
  | Nmaster_table_number => [109;97;115;116;101;114;95;116;97;98;108;101;95;110;117;109;98;101;114]  (* master_table_number *)
  | Noriginating_subcentre => [111;114;105;103;105;110;97;116;105;110;103;95;115;117;98;99;101;110;116;114;101]  (* originating_subcentre *)
  | Ndata_i18n_subcategory => [100;97;116;97;95;105;49;56;110;95;115;117;98;99;97;116;101;103;111;114;121]  (* data_i18n_subcategory *)
  | Nreserved_bits => [114;101;115;101;114;118;101;100;95;98;105;116;115]  (* reserved_bits *)
  | Nlocal_bits => [108;111;99;97;108;95;98;105;116;115]  (* local_bits *)
  | Nn_subsets => [110;95;115;117;98;115;101;116;115]  (* n_subsets *)
  | Nis_observation => [105;115;95;111;98;115;101;114;118;97;116;105;111;110]  (* is_observation *)
  | Nis_compressed => [105;115;95;99;111;109;112;114;101;115;115;101;100]  (* is_compressed *)
  | Nunexpanded_descriptors => [117;110;101;120;112;97;110;100;101;100;95;100;101;115;99;114;105;112;116;111;114;115]  (* unexpanded_descriptors *)
  | Ntemplate_data => [116;101;109;112;108;97;116;101;95;100;97;116;97]  (* template_data *)
  | Nstop_signature => [115;116;111;112;95;115;105;103;110;97;116;117;114;101]  (* stop_signature *)
  end%N.

Definition all_names : list pname :=
  [Nstart_signature; Nlength; Nedition; Noriginating_centre; Nupdate_sequence_number;
   Nis_section2_presents; Nflag_bits; Ndata_category; Ndata_local_subcategory;
   Nmaster_table_version; Nlocal_table_version; Nyear; Nmonth; Nday; Nhour; Nminute;
   Nsecond; Nsection_length; Nmaster_table_number; Noriginating_subcentre;
   Ndata_i18n_subcategory; Nreserved_bits; Nlocal_bits; Nn_subsets; Nis_observation;
   Nis_compressed; Nunexpanded_descriptors; Ntemplate_data; Nstop_signature].

(* one entry of "parameters" in a definition file *)
Record param := mkP {
  p_name : pname;
  p_nbits : Z;
  p_type : ptype;
  p_expected : option (list byte);    (* SectionParameter encodes the str to bytes *)
  p_prop : bool                        (* as_property *)
}.

(* one definition file *)
Record sconfig := mkS {
  s_index : N;
  s_edition : option Z;     (* from the file name sectionI-E.json; None for sectionI.json *)
  s_default : bool;
  s_optional : bool;
  s_end : bool;             (* end_of_message *)
  s_params : list param
}.

(* ---- definitions/*.json, transcribed literally (compared with the files on
        every run of the correspondence check: driver command "layouts") ------ *)
(* section0.json *)
Definition section0 : sconfig := mkS 0 (None) true false false [
  mkP Nstart_signature 32 TBytes (Some [66;85;70;82]%N) false;
  mkP Nlength 24 TUint None true;
  mkP Nedition 8 TUint None true].
(* section1-1.json *)
Definition section1_1 : sconfig := mkS 1 (Some 1%Z) false false false [
  mkP Noriginating_centre 16 TUint None false;
  mkP Nupdate_sequence_number 8 TUint None false;
  mkP Nis_section2_presents 1 TBool None false;
  mkP Nflag_bits 7 TBin None false;
  mkP Ndata_category 8 TUint None true;
  mkP Ndata_local_subcategory 8 TUint None false;
  mkP Nmaster_table_version 8 TUint None true;
  mkP Nlocal_table_version 8 TUint None true;
  mkP Nyear 8 TUint None true;
  mkP Nmonth 8 TUint None true;
  mkP Nday 8 TUint None true;
  mkP Nhour 8 TUint None true;
  mkP Nminute 8 TUint None true;
  mkP Nsecond 8 TUint None true].
(* section1-2.json *)
Definition section1_2 : sconfig := mkS 1 (Some 2%Z) false false false [
  mkP Nsection_length 24 TUint None false;
  mkP Nmaster_table_number 8 TUint None true;
  mkP Noriginating_centre 16 TUint None true;
  mkP Nupdate_sequence_number 8 TUint None false;
  mkP Nis_section2_presents 1 TBool None true;
  mkP Nflag_bits 7 TBin None false;
  mkP Ndata_category 8 TUint None true;
  mkP Ndata_local_subcategory 8 TUint None false;
  mkP Nmaster_table_version 8 TUint None true;
  mkP Nlocal_table_version 8 TUint None true;
  mkP Nyear 8 TUint None true;
  mkP Nmonth 8 TUint None true;
  mkP Nday 8 TUint None true;
  mkP Nhour 8 TUint None true;
  mkP Nminute 8 TUint None true;
  mkP Nsecond 8 TUint None true].
(* section1-3.json *)
Definition section1_3 : sconfig := mkS 1 (Some 3%Z) false false false [
  mkP Nsection_length 24 TUint None false;
  mkP Nmaster_table_number 8 TUint None true;
  mkP Noriginating_subcentre 8 TUint None true;
  mkP Noriginating_centre 8 TUint None true;
  mkP Nupdate_sequence_number 8 TUint None false;
  mkP Nis_section2_presents 1 TBool None true;
  mkP Nflag_bits 7 TBin None false;
  mkP Ndata_category 8 TUint None true;
  mkP Ndata_local_subcategory 8 TUint None false;
  mkP Nmaster_table_version 8 TUint None true;
  mkP Nlocal_table_version 8 TUint None true;
  mkP Nyear 8 TUint None true;
  mkP Nmonth 8 TUint None true;
  mkP Nday 8 TUint None true;
  mkP Nhour 8 TUint None true;
  mkP Nminute 8 TUint None true;
  mkP Nsecond 8 TUint None true].
(* section1-4.json *)
Definition section1_4 : sconfig := mkS 1 (Some 4%Z) true false false [
  mkP Nsection_length 24 TUint None false;
  mkP Nmaster_table_number 8 TUint None true;
  mkP Noriginating_centre 16 TUint None true;
  mkP Noriginating_subcentre 16 TUint None true;
  mkP Nupdate_sequence_number 8 TUint None false;
  mkP Nis_section2_presents 1 TBool None true;
  mkP Nflag_bits 7 TBin None false;
  mkP Ndata_category 8 TUint None true;
  mkP Ndata_i18n_subcategory 8 TUint None false;
  mkP Ndata_local_subcategory 8 TUint None false;
  mkP Nmaster_table_version 8 TUint None true;
  mkP Nlocal_table_version 8 TUint None true;
  mkP Nyear 16 TUint None true;
  mkP Nmonth 8 TUint None true;
  mkP Nday 8 TUint None true;
  mkP Nhour 8 TUint None true;
  mkP Nminute 8 TUint None true;
  mkP Nsecond 8 TUint None true].
(* section2.json *)
Definition section2 : sconfig := mkS 2 (None) true true false [
  mkP Nsection_length 24 TUint None false;
  mkP Nreserved_bits 8 TBin None false;
  mkP Nlocal_bits 0 TBin None false].
(* section3.json *)
Definition section3 : sconfig := mkS 3 (None) true false false [
  mkP Nsection_length 24 TUint None false;
  mkP Nreserved_bits 8 TBin None false;
  mkP Nn_subsets 16 TUint None true;
  mkP Nis_observation 1 TBool None true;
  mkP Nis_compressed 1 TBool None true;
  mkP Nflag_bits 6 TBin None false;
  mkP Nunexpanded_descriptors 0 TDescs None true].
(* section4.json *)
Definition section4 : sconfig := mkS 4 (None) true false false [
  mkP Nsection_length 24 TUint None false;
  mkP Nreserved_bits 8 TBin None false;
  mkP Ntemplate_data 0 TData None true].
(* section5.json *)
Definition section5 : sconfig := mkS 5 (None) true false true [
  mkP Nstop_signature 32 TBytes (Some [55;55;55;55]%N) false].

Definition definitions : list sconfig :=
  [section0; section1_1; section1_2; section1_3; section1_4; section2; section3; section4; section5].

(* ---- values ------------------------------------------------------------ *)
Inductive pvalue :=
  | PUint (z : Z)               (* int (the decoder only produces non-negative ones) *)
  | PBytes (l : list byte)
  | PBin (b : bits)             (* a '0'/'1' string *)
  | PBool (b : bool)
  | PDescs (ids : list Z)       (* unexpanded descriptor ids *)
  | PData (b : bits).           (* template data: the bits of the data part *)

(* attributes set on the message object by as_property (newest first) and,
   with the same shape, the name -> value pairs of a section *)
Fixpoint prop_get (n : pname) (ps : list (pname * pvalue)) : option pvalue :=
  match ps with
  | [] => None
  | (k, v) :: r => if pname_beq k n then Some v else prop_get n r
  end.

Fixpoint set_value (n : pname) (v : pvalue) (ps : list (pname * pvalue)) : list (pname * pvalue) :=
  match ps with
  | [] => []
  | (k, x) :: r => if pname_beq k n then (k, v) :: r else (k, x) :: set_value n v r
  end.

Definition has_param (n : pname) (ps : list param) : bool :=
  existsb (fun p => pname_beq (p_name p) n) ps.

Fixpoint find_param (n : pname) (ps : list param) : option param :=
  match ps with
  | [] => None
  | p :: r => if pname_beq (p_name p) n then Some p else find_param n r
  end.

(* BufrSection.get_parameter_offset: sum of the DECLARED widths before the name *)
Fixpoint param_offset (n : pname) (ps : list param) : option Z :=
  match ps with
  | [] => None
  | p :: r => if pname_beq (p_name p) n then Some 0%Z
              else match param_offset n r with Some o => Some (p_nbits p + o)%Z | None => None end
  end.

(* ---- SectionConfigurer --------------------------------------------------- *)
(* the key under which __init__ files a definition: DEFAULT_SECTION_EDITION = 0
   when the file name carries no edition *)
Definition edition_key (c : sconfig) : Z := match s_edition c with None => 0%Z | Some e => e end.

(* self.configurations[index].get(key): the file with that key, or for key 0
   also a file flagged "default" *)
Definition config_for (defs : list sconfig) (index : N) (key : Z) : option sconfig :=
  find (fun c => (s_index c =? index)%N &&
                 ((edition_key c =? key)%Z || (s_default c && (key =? 0)%Z))) defs.

(* bufr_message.edition is not None -> edition.value or DEFAULT, else DEFAULT *)
Definition section_edition (props : list (pname * pvalue)) : Z :=
  match prop_get Nedition props with
  | Some (PUint e) => e          (* "e or 0" is e *)
  | _ => 0%Z
  end.

(* get_configuration: self.configurations[index] (KeyError), then
   section_configs.get(edition, section_configs[DEFAULT]) — the default is
   evaluated eagerly (KeyError when there is none) *)
Definition get_configuration (defs : list sconfig) (props : list (pname * pvalue)) (index : N)
  : result sconfig :=
  if negb (existsb (fun c => (s_index c =? index)%N) defs) then Err EKey else
  match config_for defs index 0%Z with
  | None => Err EKey
  | Some dflt =>
      match config_for defs index (section_edition props) with
      | Some c => Ok c
      | None => Ok dflt
      end
  end.

Definition is_data (p : param) : bool := match p_type p with TData => true | _ => false end.

Fixpoint take_until_data (ps : list param) : list param :=
  match ps with
  | [] => []
  | p :: r => if is_data p then [] else p :: take_until_data r
  end.

(* SectionConfigurer.info_configuration *)
Definition info_configuration (c : sconfig) : sconfig :=
  if existsb is_data (s_params c) then
    mkS (s_index c) (s_edition c) (s_default c) (s_optional c) true (take_until_data (s_params c))
  else c.

(* SectionConfigurer.ignore_value_expectation *)
Definition ignore_value_expectation (c : sconfig) : sconfig :=
  mkS (s_index c) (s_edition c) (s_default c) (s_optional c) (s_end c)
      (map (fun p => mkP (p_name p) (p_nbits p) (p_type p) None (p_prop p)) (s_params c)).

Definition transform (info_only ignore_exp : bool) (c : sconfig) : sconfig :=
  let c1 := if info_only then info_configuration c else c in
  if ignore_exp then ignore_value_expectation c1 else c1.

(* configure_section: the assert on bytes widths, then the presence test
   "not optional or getattr(message, 'is_section<i>_presents').value" *)
Definition bytes_width_bad (p : param) : bool :=
  match p_type p with TBytes => negb (p_nbits p mod 8 =? 0)%Z | _ => false end.

Definition section_present (c : sconfig) (props : list (pname * pvalue)) : result bool :=
  if negb (s_optional c) then Ok true else
  if (s_index c =? 2)%N then
    match prop_get Nis_section2_presents props with
    | Some (PBool b) => Ok b
    | Some (PUint z) => Ok (negb (z =? 0)%Z)
    | Some _ => Err EType          (* other truthiness: outside the typed values *)
    | None => Err EAttr            (* the attribute was never set *)
    end
  else Err EAttr.                  (* no attribute is_section<i>_presents exists for i <> 2 *)

Definition configure_section (defs : list sconfig) (props : list (pname * pvalue)) (index : N)
    (info_only ignore_exp : bool) : result (option sconfig) :=
  let* c0 := get_configuration defs props index in
  let c := transform info_only ignore_exp c0 in
  if existsb bytes_width_bad (s_params c) then Err EAssert else
  let* present := section_present c props in
  Ok (if present then Some c else None).

(* ---- sections and messages ---------------------------------------------- *)
Record section := mkSec {
  sec_index : N;
  sec_params : list param;                  (* the configured SectionParameter objects *)
  sec_nbits : nat;                          (* what process_section returned *)
  sec_values : list (pname * pvalue)        (* their values, in parameter order *)
}.

Record message := mkMsg {
  m_sections : list section;
  m_props : list (pname * pvalue);          (* newest first *)
  m_bytes : list byte                       (* serialized_bytes *)
}.

(* ---- encoder --------------------------------------------------------------- *)
Definition desc_F (id : Z) : Z := (id / 100000)%Z.
Definition desc_X (id : Z) : Z := ((id / 1000) mod 100)%Z.
Definition desc_Y (id : Z) : Z := (id mod 1000)%Z.

Fixpoint write_descs (ids : list Z) (o : writer) : result writer :=
  match ids with
  | [] => Ok o
  | id :: r =>
      let* o1 := write_uint (desc_F id) 2 o in
      let* o2 := write_uint (desc_X id) 6 o1 in
      let* o3 := write_uint (desc_Y id) 8 o2 in
      write_descs r o3
  end.

(* BitWriter.write(value, type, nbits): bytes -> nbits // 8; bool and bin ignore
   the declared width; values of another Python type are outside the model *)
Definition write_param (p : param) (v : pvalue) (o : writer) : result writer :=
  match p_type p, v with
  | TUint, PUint z => write_uint z (p_nbits p) o
  | TBytes, PBytes l => write_bytes l (p_nbits p / 8) o
  | TBin, PBin b => write_bin b o
  | TBool, PBool b => write_bool b o
  | TDescs, PDescs ids => write_descs ids o
  | TData, PData b => Ok (o ++ b)
  | _, _ => Err EType
  end.

Definition add_prop (p : param) (v : pvalue) (props : list (pname * pvalue)) :=
  if p_prop p then (p_name p, v) :: props else props.

Fixpoint write_params (ps : list param) (vs : list pvalue) (props : list (pname * pvalue))
    (o : writer) : result (writer * list (pname * pvalue)) :=
  match ps, vs with
  | [], _ => Ok (o, props)
  | p :: ps', v :: vs' =>
      let* o1 := write_param p v o in
      write_params ps' vs' (add_prop p v props) o1
  | _ :: _, [] => Err EAssert      (* excluded by the length assert of the caller *)
  end.

(* the padding arithmetic of Encoder.process_section, literally *)
Definition pad_bits (edition : Z) (nbits_write : Z) : Z :=
  let nbytes_write := (nbits_write / 8)%Z in
  let nbits_residue := (nbits_write mod 8)%Z in
  if (edition <=? 3)%Z then
    if negb (nbytes_write mod 2 =? 0)%Z then (8 - nbits_residue)%Z
    else if (nbits_residue =? 0)%Z then 0%Z else (2 * 8 - nbits_residue)%Z
  else if (nbits_residue =? 0)%Z then 0%Z else (8 - nbits_residue)%Z.

Definition edition_of (props : list (pname * pvalue)) : result Z :=
  match prop_get Nedition props with
  | Some (PUint e) => Ok e
  | Some _ => Err EType
  | None => Err EAttr              (* bufr_message.edition is None *)
  end.

(* Encoder.process_section.  [ign] = ignore_declared_length.  Returns the
   writer, the message attributes, the section's (updated) values *)
Definition encode_section (ign : bool) (c : sconfig) (vs : list pvalue)
    (props : list (pname * pvalue)) (o : writer)
  : result (writer * list (pname * pvalue) * section) :=
  let ps := s_params c in
  let start := length o in
  let* (o1, props1) := write_params ps vs props o in
  let vals := combine (map p_name ps) vs in
  let* edition := edition_of props1 in
  let nbits_write := Z.of_nat (length o1 - start) in
  let pad := pad_bits edition nbits_write in
  let* o2 := if (pad =? 0)%Z then Ok o1 else write_bin (zeros (Z.to_nat pad)) o1 in
  match find_param Nsection_length ps with
  | None => Ok (o2, props1, mkSec (s_index c) ps (length o2 - start) vals)
  | Some pl =>
      let nbits_write2 := Z.of_nat (length o2 - start) in
      match prop_get Nsection_length vals with
      | Some (PUint sl) =>
          if (sl =? 0)%Z || ign then
            let newlen := (nbits_write2 / 8)%Z in
            match param_offset Nsection_length ps with
            | None => Err ELib
            | Some off =>
                let* o3 := set_uint newlen (p_nbits pl) (start + Z.to_nat off) o2 in
                Ok (o3, add_prop pl (PUint newlen) props1,
                    mkSec (s_index c) ps (length o3 - start) (set_value Nsection_length (PUint newlen) vals))
            end
          else
            let nbits_unwrite := (sl * 8 - nbits_write2)%Z in
            if (0 <? nbits_unwrite)%Z then
              let* o3 := skip nbits_unwrite o2 in
              Ok (o3, props1, mkSec (s_index c) ps (length o3 - start) vals)
            else if (nbits_unwrite <? 0)%Z then Err ELib
            else Ok (o2, props1, mkSec (s_index c) ps (length o2 - start) vals)
      | _ => Err EType
      end
  end.

(* the section loop of Encoder.process: json_data[section_index - index_offset]
   is evaluated before the section is configured; an absent optional section
   does not consume an item *)
Fixpoint encode_sections (ign : bool) (defs : list sconfig) (idxs : list N)
    (json : list (list pvalue)) (props : list (pname * pvalue)) (secs : list section) (o : writer)
  : result (writer * list (pname * pvalue) * list section) :=
  match idxs with
  | [] => match json with [] => Err EIndex | _ => Err EKey end
  | i :: idxs' =>
      match json with
      | [] => Err EIndex
      | vs :: json' =>
          let* oc := configure_section defs props i false false in
          match oc with
          | None => encode_sections ign defs idxs' json props secs o
          | Some c =>
              if negb (length (s_params c) =? length vs)%nat then Err EAssert else
              let* (o1, props1, sec) := encode_section ign c vs props o in
              if s_end c then Ok (o1, props1, secs ++ [sec])
              else encode_sections ign defs idxs' json' props1 (secs ++ [sec]) o1
          end
      end
  end.

(* bit position at which a section starts = sum of the extents before it *)
Fixpoint sections_nbits (secs : list section) : nat :=
  match secs with [] => O | s :: r => (sec_nbits s + sections_nbits r)%nat end.

(* bufr_message.length.parent: the (last) section that set the attribute *)
Fixpoint find_owner (n : pname) (before : nat)
    (secs : list section) (acc : option (nat * section)) : option (nat * section) :=
  match secs with
  | [] => acc
  | s :: r =>
      let acc' := match find_param n (sec_params s) with
                  | Some p => if p_prop p then Some (before, s) else acc
                  | None => acc end in
      find_owner n (before + sec_nbits s)%nat r acc'
  end.

Fixpoint replace_section (k : N) (s' : section) (secs : list section) : list section :=
  match secs with
  | [] => []
  | s :: r => if (sec_index s =? k)%N then s' :: r else s :: replace_section k s' r
  end.

Definition section_indices : list N := [0; 1; 2; 3; 4; 5; 6]%N.

(* Encoder.process (without wire()) *)
Definition encode_message_with (defs : list sconfig) (ign : bool) (json : list (list pvalue))
  : result message :=
  let* (o, props, secs) := encode_sections ign defs section_indices json [] [] [] in
  let nbytes_write := (Z.of_nat (length o) / 8)%Z in
  match prop_get Nlength props with
  | None => Err EAttr
  | Some (PUint len) =>
      if (len =? 0)%Z || ign then
        match find_owner Nlength O secs None with
        | None => Err EAttr
        | Some (start, s) =>
            match param_offset Nlength (sec_params s), find_param Nlength (sec_params s) with
            | Some off, Some pl =>
                let* o' := set_uint nbytes_write (p_nbits pl) (start + Z.to_nat off) o in
                let s' := mkSec (sec_index s) (sec_params s) (sec_nbits s)
                                (set_value Nlength (PUint nbytes_write) (sec_values s)) in
                Ok (mkMsg (replace_section (sec_index s) s' secs)
                          ((Nlength, PUint nbytes_write) :: props) (to_bytes o'))
            | _, _ => Err ELib
            end
        end
      else if negb (len =? nbytes_write)%Z then Err ELib
      else Ok (mkMsg secs props (to_bytes o))
  | Some _ => Err EType
  end.

Definition encode_message := encode_message_with definitions.

(* ---- decoder ---------------------------------------------------------------- *)
Fixpoint starts_with (sig s : list byte) : bool :=
  match sig, s with
  | [], _ => true
  | _ :: _, [] => false
  | a :: sig', b :: s' => (a =? b)%N && starts_with sig' s'
  end.

(* bytes.find(sig): index of the first occurrence *)
Fixpoint find_sig (sig s : list byte) : option nat :=
  if starts_with sig s then Some O else
  match s with
  | [] => None
  | _ :: s' => match find_sig sig s' with Some i => Some (S i) | None => None end
  end.

Definition sig_BUFR : list byte := [66; 85; 70; 82]%N.
Definition sig_7777 : list byte := [55; 55; 55; 55]%N.

Definition bytes_eqb (a b : list byte) : bool :=
  (length a =? length b)%nat && starts_with a b.

Section Decoder.
(* the template decoder, abstract: given the message attributes decoded so far
   it consumes some bits of the reader and returns them with the rest *)
Variable decode_data : list (pname * pvalue) -> reader -> result (bits * reader).

(* BitReader.read(type, nbits) *)
Definition read_typed (t : ptype) (nbits : Z) (r : reader) : result (pvalue * reader) :=
  match t with
  | TBytes => let* (l, r') := read_bytes (nbits / 8) r in Ok (PBytes l, r')
  | TBool => let* (b, r') := read_bool r in Ok (PBool b, r')
  | TUint => let* (v, r') := read_uint nbits r in Ok (PUint (Z.of_N v), r')
  | TBin => let* (b, r') := read_bin nbits r in Ok (PBin b, r')
  | TDescs | TData => Err EAttr       (* no such reader method; never reached *)
  end.

Definition read_desc1 (st : result (list Z * reader)) : result (list Z * reader) :=
  let* (acc, r) := st in
  let* (f, r1) := read_uint 2 r in
  let* (x, r2) := read_uint 6 r1 in
  let* (y, r3) := read_uint 8 r2 in
  Ok ((Z.of_N f * 100000 + Z.of_N x * 1000 + Z.of_N y)%Z :: acc, r3).

(* range(n) for n <= 0 is empty *)
Definition read_descs (n : Z) (r : reader) : result (list Z * reader) :=
  let* (acc, r') := N.iter (Z.to_N n) read_desc1 (Ok ([], r)) in
  Ok (rev acc, r').

(* section.section_length.value while the section is being read:
   KeyError when the section has no such parameter, TypeError (None * 8)
   when it has not been read yet *)
Definition declared_length (all : list param) (env : list (pname * pvalue)) : result Z :=
  if has_param Nsection_length all then
    match prop_get Nsection_length env with
    | Some (PUint z) => Ok z
    | _ => Err EType
    end
  else Err EKey.

(* the repaired expected-value check (D10): PyBufrKitError when different *)
Definition check_expected (p : param) (v : pvalue) : result unit :=
  match p_expected p with
  | None => Ok tt
  | Some e =>
      match v with
      | PBytes l => if bytes_eqb l e then Ok tt else Err ELib
      | _ => Err ELib            (* a non-bytes value never equals a bytes object *)
      end
  end.

(* the parameter loop of Decoder.process_section.  [start_len] is the number of
   unread bits when the section started, so position - BITPOS_START =
   start_len - length r.  [env] are this section's values so far, in parameter order. *)
Fixpoint decode_params (all ps : list param) (start_len : nat)
    (env props : list (pname * pvalue)) (r : reader)
  : result (list (pname * pvalue) * list (pname * pvalue) * reader) :=
  match ps with
  | [] => Ok (env, props, r)
  | p :: ps' =>
      let nbits_read := Z.of_nat (start_len - length r) in
      let* (v, r1) :=
        match p_type p with
        | TDescs =>
            let* sl := declared_length all env in
            let* (ids, r') := read_descs ((sl - nbits_read / 8) / 2) r in Ok (PDescs ids, r')
        | TData =>
            let* (b, r') := decode_data props r in Ok (PData b, r')
        | t =>
            if (p_nbits p =? 0)%Z then
              let* sl := declared_length all env in
              read_typed t (sl * 8 - nbits_read) r
            else read_typed t (p_nbits p) r
        end in
      let props1 := add_prop p v props in
      let* _ := check_expected p v in
      decode_params all ps' start_len (env ++ [(p_name p, v)]) props1 r1
  end.

(* Decoder.process_section *)
Definition decode_section (c : sconfig) (props : list (pname * pvalue)) (r : reader)
  : result (section * list (pname * pvalue) * reader) :=
  let start_len := length r in
  let* (env, props1, r1) := decode_params (s_params c) (s_params c) start_len [] props r in
  let* r2 :=
    if has_param Nsection_length (s_params c) then
      let* sl := declared_length (s_params c) env in
      let nbits_unread := (sl * 8 - Z.of_nat (start_len - length r1))%Z in
      if (0 <? nbits_unread)%Z then let* (_, r') := read_bin nbits_unread r1 in Ok r'
      else if (nbits_unread <? 0)%Z then Err ELib
      else Ok r1
    else Ok r1 in
  Ok (mkSec (s_index c) (s_params c) (start_len - length r2) env, props1, r2).

Fixpoint decode_sections (defs : list sconfig) (info_only ignore_exp : bool) (idxs : list N)
    (props : list (pname * pvalue)) (secs : list section) (r : reader)
  : result (list section * list (pname * pvalue) * reader) :=
  match idxs with
  | [] => Err EKey
  | i :: idxs' =>
      let* oc := configure_section defs props i info_only ignore_exp in
      match oc with
      | None => decode_sections defs info_only ignore_exp idxs' props secs r
      | Some c =>
          let* (sec, props1, r1) := decode_section c props r in
          if s_end c then Ok (secs ++ [sec], props1, r1)
          else decode_sections defs info_only ignore_exp idxs' props1 (secs ++ [sec]) r1
      end
  end.

(* Decoder.process (without wire()); [sig] = start_signature (None: no search) *)
Definition decode_message_with (defs : list sconfig) (sig : option (list byte))
    (info_only ignore_exp : bool) (s : list byte) : result message :=
  let* idx := match sig with
              | None => Ok O
              | Some g => match find_sig g s with Some i => Ok i | None => Err ELib end
              end in
  let s1 := skipn idx s in
  let r := bits_of_bytes s1 in
  let* (secs, props, r') := decode_sections defs info_only ignore_exp section_indices [] [] r in
  let nbits_decoded := (length r - length r')%nat in
  Ok (mkMsg secs props (firstn (nbits_decoded / 8) s1)).

Definition decode_message := decode_message_with definitions.

(* generate_bufr_message(decoder, s, info_only=True) without filter and without
   continue_on_error: the messages yielded and the error that ended the scan.
   Fuel: a declared total length of 0 makes the real loop spin for ever. *)
Fixpoint scan_info (fuel : nat) (s : list byte) : list message * option err :=
  match fuel with
  | O => ([], Some EFuel)
  | S f =>
      match s with
      | [] => ([], None)                       (* idx_start < len(s) fails *)
      | _ =>
        match find_sig sig_BUFR s with
        | None => ([], None)
        | Some i =>
            let s1 := skipn i s in
            match decode_message None true false s1 with
            | Err e => ([], Some e)
            | Ok m =>
                match prop_get Nlength (m_props m) with
                | Some (PUint len) =>
                    (* s[idx_start : idx_start + length.value] *)
                    let b := firstn (Z.to_nat len) s1 in
                    let m' := mkMsg (m_sections m) (m_props m) b in
                    let (ms, e) := scan_info f (skipn (length b) s1) in
                    (m' :: ms, e)
                | Some _ => ([], Some EType)
                | None => ([], Some EAttr)
                end
            end
        end
      end
  end.

End Decoder.
