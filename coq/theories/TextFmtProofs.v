(* TextFmtProofs.v — message level of the text round trip (C09): given that the
   subsets parser reads back the lines of each template-data block, the whole
   text  key / sections / 'name = value' lines / template lines  is read back to
   the flat JSON.  Generic in the template-data renderer and the line classifier;
   instantiated for the flat text in TextFmtFlat.v and the nested text in
   TextFmtNested.v. *)
From PBK Require Import Base Descr Walk Wire Nested TextFmt TextFmtSpec TextFmtStrings.
From PBK Require Script ScriptProofs.
From Coq Require Import ZifyBool ZifyNat ZifyN.

Lemma nolb_app a b : nolb (a ++ b) = nolb a && nolb b.
Proof. apply forallb_app. Qed.

Lemma nolb_dec n : nolb (dec n) = true.
Proof.
  unfold nolb. pose proof (dec_digits n) as D. rewrite forallb_forall in *. intros c Hc.
  apply negb_true_iff, ScriptProofs.digit_not_linebreak, D, Hc.
Qed.

Lemma nolb_repeat c n : Script.is_linebreak c = false -> nolb (repeat c n) = true.
Proof. intros H. unfold nolb. apply forallb_forall. intros x Hx. apply repeat_spec in Hx as ->. rewrite H. reflexivity. Qed.

Lemma nolb_section_header i : nolb (section_header i) = true.
Proof. unfold section_header. rewrite !nolb_app, nolb_dec. reflexivity. Qed.

Lemma nolb_subset_header i n : nolb (subset_header i n) = true.
Proof. unfold subset_header. rewrite !nolb_app, !nolb_dec. reflexivity. Qed.

Lemma section_header_prefix i : prefixb TEXT_SECTION_HEADER (section_header i) = true.
Proof. reflexivity. Qed.

Lemma subset_header_prefix i n :
  prefixb TEXT_SECTION_HEADER (subset_header i n) = false /\ prefixb TEXT_SUBSET_HEADER (subset_header i n) = true.
Proof. split; reflexivity. Qed.

Lemma last_Forall {A} (P : A -> Prop) l d : l <> [] -> Forall P l -> P (last l d).
Proof.
  induction l as [|x l IH]; [contradiction|]. intros _ H. inversion H as [|? ? Hx Hl]; subst.
  destruct l as [|y l]; [exact Hx|]. change (P (last (y :: l) d)). apply IH; [discriminate|exact Hl].
Qed.

Section Generic.
Context (repr : pyv -> str) (leval : str -> result pyv).
Context {TD : Type} (td_lines : TD -> list str) (tdv : TD -> list (list value)) (classify : str -> laction).

(* the template-data block is read back by the subsets loop, which stops at the next
   section header *)
Definition td_parses (td : TD) : Prop :=
  forallb nolb (td_lines td) = true /\
  (exists h t, td_lines td = h :: t /\ prefixb TEXT_SECTION_HEADER h = false /\ prefixb TEXT_SUBSET_HEADER h = true) /\
  forall h rest, classify h = ABreak ->
    subsets_loop classify [] (td_lines td ++ h :: rest) = Ok (h :: rest, map (map PyV) (tdv td)).

Definition param_ok (p : param TD) : Prop :=
  match p with
  | PVal name v => pval_line_ok name (repr v) = true /\ leval (repr v) = Ok v
  | PTemplate td => td_parses td
  end.

Definition message_ok (m : message TD) : Prop :=
  nolb (m_key m) = true /\ sections_shape (m_sections m) = true /\
  Forall (fun s => Forall param_ok (s_params s)) (m_sections m).

Hypothesis Hbreak : forall i, classify (section_header i) = ABreak.

Definition plines (p : param TD) : list str :=
  match p with PVal name v => [name ++ S_EQ ++ repr v] | PTemplate td => td_lines td end.
Definition slines (s : section TD) : list str := section_header (s_index s) :: flat_map plines (s_params s).

Lemma param_lines_simpl p : param_ok p -> param_lines repr td_lines p = plines p.
Proof.
  destruct p as [name v|td]; [reflexivity|]. intros (Hnl & (h & t & E & _) & _). cbn [param_lines plines].
  apply split_join_nl; [rewrite E; discriminate|].
  rewrite forallb_forall in *. intros l Hl. apply nolb_no_nl, Hnl, Hl.
Qed.

Lemma section_lines_simpl s : Forall param_ok (s_params s) -> section_lines repr td_lines s = slines s.
Proof.
  intros H. unfold section_lines, slines. f_equal. induction H as [|p ps Hp _ IH]; [reflexivity|].
  cbn [flat_map]. rewrite IH, param_lines_simpl by exact Hp. reflexivity.
Qed.

Lemma pval_line_facts name r : pval_line_ok name r = true ->
  nolb (name ++ S_EQ ++ r) = true /\ split_str S_EQ (name ++ S_EQ ++ r) = [name; r] /\
  prefixb TEXT_SECTION_HEADER (name ++ S_EQ ++ r) = false /\ prefixb TEXT_SUBSET_HEADER (name ++ S_EQ ++ r) = false.
Proof.
  unfold pval_line_ok. rewrite !andb_true_iff, !negb_true_iff. intros [[[[[N1 N2] O1] O2] P1] P2].
  split; [rewrite !nolb_app, N1, N2; reflexivity|]. split; [|split; assumption].
  apply split_two; [discriminate|exact O1|exact O2].
Qed.

Local Notation f := (subsets_loop classify []).

Lemma section_loop_params : forall ps fuel data rest,
  params_shape ps = true -> Forall param_ok ps ->
  (has_template ps = true -> exists h t, rest = h :: t /\ classify h = ABreak) ->
  (rest = [] \/ exists h t, rest = h :: t /\ prefixb TEXT_SECTION_HEADER h = true) ->
  (length (flat_map plines ps) + length rest < fuel)%nat ->
  section_loop leval f fuel data (flat_map plines ps ++ rest) = Ok (rest, data ++ map (item_of tdv) ps).
Proof.
  induction ps as [|p ps IH]; intros fuel data rest Hshape Hok Htd Hrest Hfuel.
  - cbn [flat_map app map]. rewrite app_nil_r. destruct fuel as [|k]; [lia|]. cbn [section_loop].
    destruct Hrest as [->|(h & t & -> & Hh)]; [reflexivity|]. rewrite Hh. reflexivity.
  - inversion Hok as [|? ? Hp Hps]; subst. destruct p as [name v|td].
    + destruct Hp as [Hline Hle]. destruct (pval_line_facts _ _ Hline) as (_ & Hsplit & P1 & P2).
      cbn [flat_map plines app length] in *. destruct fuel as [|k]; [lia|]. cbn [section_loop].
      rewrite P1, P2, Hsplit, Hle.
      rewrite IH; [rewrite <- app_assoc; reflexivity|exact Hshape|exact Hps|exact Htd|exact Hrest|lia].
    + cbn [params_shape] in Hshape. destruct ps as [|p2 ps2]; [|discriminate].
      destruct Hp as (Hnl & (h0 & t0 & E0 & Q1 & Q2) & Hparse).
      destruct (Htd eq_refl) as (h & t & -> & Hb).
      cbn [flat_map plines map] in *. rewrite app_nil_r in *.
      destruct fuel as [|k]; [lia|]. rewrite E0. cbn [app section_loop]. rewrite Q1, Q2.
      change (h0 :: t0 ++ h :: t) with ((h0 :: t0) ++ h :: t). rewrite <- E0. rewrite (Hparse h t Hb). cbn [bind].
      destruct k as [|k]; [cbn [length] in Hfuel; lia|]. cbn [section_loop].
      destruct Hrest as [Hr|(h' & t' & Hr & Hh)]; [discriminate|]. injection Hr as <- <-. rewrite Hh. reflexivity.
Qed.

Definition sec_ok (s : section TD) : Prop := Forall param_ok (s_params s).

Lemma slines_hd s r : exists t, flat_map slines (s :: r) = section_header (s_index s) :: t.
Proof. cbn [flat_map slines app]. eexists. reflexivity. Qed.

Lemma text_loop_sections : forall secs fuel out,
  sections_shape secs = true -> Forall sec_ok secs ->
  (length (flat_map slines secs) < fuel)%nat ->
  text_loop leval f fuel out (flat_map slines secs) =
  Ok (out ++ map (fun s => map (item_of tdv) (s_params s)) secs).
Proof.
  induction secs as [|s r IH]; intros fuel out Hshape Hok Hfuel.
  - cbn [flat_map map]. rewrite app_nil_r. destruct fuel; [lia|]. reflexivity.
  - inversion Hok as [|? ? Hs Hr]; subst.
    cbn [sections_shape] in Hshape. apply andb_true_iff in Hshape as [Hsh Hshr]. apply andb_true_iff in Hsh as [Hps Hlast].
    destruct fuel as [|k]; [lia|].
    cbn [flat_map slines app] in *. cbn [text_loop]. unfold section_text_to_flat_json. cbn [tl].
    rewrite section_loop_params; [| exact Hps | exact Hs | | | cbn [length]; rewrite app_length; lia].
    + cbn [bind app map]. rewrite IH; [rewrite <- app_assoc; reflexivity|exact Hshr|exact Hr|].
      cbn [length] in Hfuel. rewrite app_length in Hfuel. lia.
    + intros Ht. rewrite Ht in Hlast. cbn [negb orb] in Hlast. destruct r as [|s2 r2]; [discriminate|].
      destruct (slines_hd s2 r2) as [t E]. rewrite E. do 2 eexists. split; [reflexivity|apply Hbreak].
    + destruct r as [|s2 r2]; [left; reflexivity|right].
      destruct (slines_hd s2 r2) as [t E]. rewrite E. do 2 eexists. split; [reflexivity|apply section_header_prefix].
Qed.

Lemma plines_nolb p : param_ok p -> forallb nolb (plines p) = true.
Proof.
  destruct p as [name v|td]; cbn [param_ok plines].
  - intros [H _]. destruct (pval_line_facts _ _ H) as (N0 & _). cbn [forallb]. rewrite N0. reflexivity.
  - intros (H & _). exact H.
Qed.

Lemma slines_nolb s : sec_ok s -> forallb nolb (slines s) = true.
Proof.
  intros H. unfold slines. cbn [forallb]. rewrite nolb_section_header. cbn [andb].
  induction H as [|p ps Hp _ IH]; [reflexivity|]. cbn [flat_map]. rewrite forallb_app, IH, plines_nolb by exact Hp. reflexivity.
Qed.

Lemma all_nolb secs : Forall sec_ok secs -> forallb nolb (flat_map slines secs) = true.
Proof.
  intros H. induction H as [|s r Hs _ IH]; [reflexivity|]. cbn [flat_map]. rewrite forallb_app, IH, slines_nolb by exact Hs. reflexivity.
Qed.

Lemma section_header_nonempty i : section_header i <> [].
Proof. unfold section_header. discriminate. Qed.

(* the lines of a section without template data are all non-empty *)
Lemma slines_nonempty s : has_template (s_params s) = false -> Forall (fun l => l <> []) (slines s).
Proof.
  intros H. unfold slines. constructor; [apply section_header_nonempty|].
  induction (s_params s) as [|p ps IH]; [constructor|].
  cbn [has_template existsb] in H. apply orb_false_iff in H as [Hp H]. destruct p as [name v|td]; [|discriminate].
  cbn [flat_map plines app]. constructor; [|apply IH; exact H].
  intros E. apply (f_equal (@length N)) in E. rewrite !app_length in E. cbn in E. lia.
Qed.

Lemma last_line_nonempty secs : sections_shape secs = true -> last (flat_map slines secs) [0%N] <> [].
Proof.
  induction secs as [|s r IH]; intros Hshape; [discriminate|].
  cbn [sections_shape] in Hshape. apply andb_true_iff in Hshape as [Hsh Hshr]. apply andb_true_iff in Hsh as [_ Hlast].
  cbn [flat_map]. destruct r as [|s2 r2].
  - cbn [flat_map]. rewrite app_nil_r. rewrite orb_false_r in Hlast. apply negb_true_iff in Hlast.
    apply (last_Forall (fun l => l <> [])); [unfold slines; discriminate|apply slines_nonempty; exact Hlast].
  - rewrite last_app_ne; [apply IH; exact Hshr|]. destruct (slines_hd s2 r2) as [t E]. rewrite E. discriminate.
Qed.

Theorem message_roundtrip m : message_ok m ->
  text_to_flat_json leval f (render_message repr td_lines m) = Ok (flat_json_of tdv m).
Proof.
  intros (Hkey & Hshape & Hok). unfold text_to_flat_json, render_message, message_lines, flat_json_of.
  assert (E : flat_map (section_lines repr td_lines) (m_sections m) = flat_map slines (m_sections m)).
  { clear Hshape. induction Hok as [|s r Hs _ IH]; [reflexivity|]. cbn [flat_map]. rewrite IH, section_lines_simpl by exact Hs. reflexivity. }
  rewrite E. rewrite splitlines_join_tl; [|exact Hkey|apply all_nolb; exact Hok|].
  - rewrite text_loop_sections; [reflexivity|exact Hshape|exact Hok|lia].
  - destruct (m_sections m) as [|s r] eqn:Es; [cbn; discriminate|]. apply last_line_nonempty. exact Hshape.
Qed.

End Generic.
