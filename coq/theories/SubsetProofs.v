(* SubsetProofs.v — theorems about Subset.v (C10). *)
From PBK Require Import Base Subset.
From Coq Require Import ZifyBool ZifyNat ZifyN Sorted.
Local Open Scope Z_scope.

Section Proofs.
  Context {V S : Type}.
  Notation param := (param V S).
  Notation oval := (oval V S).

  Lemma mem_z_true i I : mem_z i I = true <-> In i I.
  Proof.
    unfold mem_z. rewrite existsb_exists. split.
    - intros [x [Hx E]]. apply Z.eqb_eq in E. subst. exact Hx.
    - intros H. exists i. split; [exact H|apply Z.eqb_refl].
  Qed.
  (* ---- max / min ----------------------------------------------------------- *)
  Lemma zmax_list_spec l : forall x,
    In (zmax_list x l) (x :: l) /\ (forall y, In y (x :: l) -> y <= zmax_list x l).
  Proof.
    induction l as [|a l IH]; intros x; cbn [zmax_list].
    - split; [left; reflexivity|]. intros y [<-|[]]. lia.
    - destruct (IH (Z.max x a)) as [H1 H2]. split.
      + destruct H1 as [H1|H1].
        * rewrite <- H1. destruct (Z.max_spec x a) as [[_ ->]|[_ ->]]; [right; left|left]; reflexivity.
        * right. right. exact H1.
      + intros y [<-|[<-|Hy]].
        * specialize (H2 (Z.max x a) (or_introl eq_refl)). lia.
        * specialize (H2 (Z.max x a) (or_introl eq_refl)). lia.
        * apply H2. right. exact Hy.
  Qed.
  Lemma zmin_list_spec l : forall x,
    In (zmin_list x l) (x :: l) /\ (forall y, In y (x :: l) -> zmin_list x l <= y).
  Proof.
    induction l as [|a l IH]; intros x; cbn [zmin_list].
    - split; [left; reflexivity|]. intros y [<-|[]]. lia.
    - destruct (IH (Z.min x a)) as [H1 H2]. split.
      + destruct H1 as [H1|H1].
        * rewrite <- H1. destruct (Z.min_spec x a) as [[_ ->]|[_ ->]]; [left|right; left]; reflexivity.
        * right. right. exact H1.
      + intros y [<-|[<-|Hy]].
        * specialize (H2 (Z.min x a) (or_introl eq_refl)). lia.
        * specialize (H2 (Z.min x a) (or_introl eq_refl)). lia.
        * apply H2. right. exact Hy.
  Qed.

  (* ---- the guards ------------------------------------------------------------ *)
  Definition in_range (n : Z) (I : list Z) : Prop := forall i, In i I -> 0 <= i < n.

  Lemma subset_with_ok count n (secs : list (list param)) I :
    I <> [] -> in_range n I ->
    subset_with count n secs I = Ok (map (map (sub_param count I)) secs).
  Proof.
    intros Hne Hr. destruct I as [|x r]; [contradiction|]. unfold subset_with.
    destruct (zmax_list_spec r x) as [M1 _]. destruct (zmin_list_spec r x) as [m1 _].
    apply Hr in M1. apply Hr in m1.
    destruct (Z.geb_spec (zmax_list x r) n); [lia|].
    destruct (Z.ltb_spec (zmin_list x r) 0); [lia|]. reflexivity.
  Qed.

  (* an index outside 0..n-1 is refused with the library error ... *)
  Theorem subset_bounds count n (secs : list (list param)) I :
    (exists i, In i I /\ (i < 0 \/ n <= i)) -> subset_with count n secs I = Err ELib.
  Proof.
    intros [i [Hi Hout]]. destruct I as [|x r]; [destruct Hi|]. unfold subset_with.
    destruct (zmax_list_spec r x) as [_ M2]. destruct (zmin_list_spec r x) as [_ m2].
    specialize (M2 i Hi). specialize (m2 i Hi).
    destruct (Z.geb_spec (zmax_list x r) n); [reflexivity|].
    destruct (Z.ltb_spec (zmin_list x r) 0); [reflexivity|]. lia.
  Qed.

  (* ... and nothing else is: the only other failure is the empty collection *)
  Theorem subset_refusal_inv count n (secs : list (list param)) I e :
    subset_with count n secs I = Err e ->
    (I = [] /\ e = EValue) \/ (e = ELib /\ exists i, In i I /\ (i < 0 \/ n <= i)).
  Proof.
    destruct I as [|x r]; unfold subset_with.
    - intros H. injection H as <-. left. auto.
    - destruct (zmax_list_spec r x) as [M1 _]. destruct (zmin_list_spec r x) as [m1 _].
      destruct (Z.geb_spec (zmax_list x r) n) as [G|G].
      + intros H. injection H as <-. right. split; [reflexivity|].
        exists (zmax_list x r). split; [exact M1|lia].
      + destruct (Z.ltb_spec (zmin_list x r) 0) as [L|L]; [|discriminate].
        intros H. injection H as <-. right. split; [reflexivity|].
        exists (zmin_list x r). split; [exact m1|lia].
  Qed.

  Theorem subset_ok_iff count n (secs : list (list param)) I :
    (exists out, subset_with count n secs I = Ok out) <-> (I <> [] /\ in_range n I).
  Proof.
    split.
    - intros [out H]. split.
      + intros ->. discriminate.
      + intros i Hi. destruct (Z_lt_ge_dec i 0) as [L|L]; [|destruct (Z_lt_ge_dec i n) as [U|U]; [lia|]].
        * rewrite subset_bounds in H; [discriminate|]. exists i. auto.
        * rewrite subset_bounds in H; [discriminate|]. exists i. split; [exact Hi|lia].
    - intros [H1 H2]. eexists. apply subset_with_ok; assumption.
  Qed.

  (* ---- the selected indices -------------------------------------------------- *)
  Lemma sel_idx_range I k : forall i j, In j (sel_idx i I k) -> i <= j < i + Z.of_nat k /\ In j I.
  Proof.
    induction k as [|k IH]; intros i j H; cbn [sel_idx] in H; [destruct H|].
    destruct (mem_z i I) eqn:E.
    - destruct H as [<-|H]; [split; [lia|apply mem_z_true; exact E]|].
      apply IH in H. split; [lia|tauto].
    - apply IH in H. split; [lia|tauto].
  Qed.

  Lemma sel_idx_complete I k : forall i j,
    i <= j < i + Z.of_nat k -> In j I -> In j (sel_idx i I k).
  Proof.
    induction k as [|k IH]; intros i j Hr Hj; [lia|]. cbn [sel_idx].
    destruct (Z.eq_dec i j) as [<-|Hne].
    - apply mem_z_true in Hj. rewrite Hj. left. reflexivity.
    - assert (Hin : In j (sel_idx (i + 1) I k)) by (apply IH; [lia|exact Hj]).
      destruct (mem_z i I); [right|]; exact Hin.
  Qed.

  Lemma sel_idx_sorted I k : forall i, StronglySorted Z.lt (sel_idx i I k).
  Proof.
    induction k as [|k IH]; intros i; cbn [sel_idx]; [constructor|].
    destruct (mem_z i I); [|apply IH]. constructor; [apply IH|].
    apply Forall_forall. intros j Hj. apply sel_idx_range in Hj. lia.
  Qed.

  Lemma sel_idx_nodup I k : forall i, NoDup (sel_idx i I k).
  Proof.
    induction k as [|k IH]; intros i; cbn [sel_idx]; [constructor|].
    destruct (mem_z i I); [|apply IH]. constructor; [|apply IH].
    intros Hj. apply sel_idx_range in Hj. lia.
  Qed.

  Lemma sel_idx_in n I j : in_range (Z.of_nat n) I -> (In j (sel_idx 0 I n) <-> In j I).
  Proof.
    intros Hr. split.
    - intros H. apply sel_idx_range in H. tauto.
    - intros H. apply sel_idx_complete; [|exact H]. specialize (Hr j H). lia.
  Qed.

  (* the kept data are the subsets at the selected indices, in increasing order *)
  Lemma select_sel (subs : list S) I : forall i,
    map Some (select_from i I subs) =
    map (fun j => nth_error subs (Z.to_nat (j - i))) (sel_idx i I (length subs)).
  Proof.
    induction subs as [|s r IH]; intros i; cbn [select_from sel_idx length map]; [reflexivity|].
    assert (Hrest : map Some (select_from (i + 1) I r) =
                    map (fun j => nth_error (s :: r) (Z.to_nat (j - i))) (sel_idx (i + 1) I (length r))).
    { rewrite IH. apply map_ext_in. intros j Hj. apply sel_idx_range in Hj.
      replace (Z.to_nat (j - i)) with (Datatypes.S (Z.to_nat (j - (i + 1)))) by lia. reflexivity. }
    destruct (mem_z i I); cbn [map].
    - rewrite Z.sub_diag. cbn [Z.to_nat nth_error]. f_equal. exact Hrest.
    - exact Hrest.
  Qed.

  Lemma select_length (subs : list S) I i :
    length (select_from i I subs) = length (sel_idx i I (length subs)).
  Proof.
    rewrite <- (map_length Some), select_sel, map_length. reflexivity.
  Qed.

  (* ---- the count ------------------------------------------------------------- *)
  (* len(set(I)) is the number of selected subsets *)
  Lemma count_fixed_sel n I :
    in_range (Z.of_nat n) I -> count_fixed I = Z.of_nat (length (sel_idx 0 I n)).
  Proof.
    intros Hr. unfold count_fixed. f_equal. apply Nat.le_antisymm.
    - apply NoDup_incl_length; [apply NoDup_nodup|].
      intros j Hj. apply nodup_In in Hj. apply sel_idx_in; assumption.
    - apply NoDup_incl_length; [apply sel_idx_nodup|].
      intros j Hj. apply nodup_In. apply sel_idx_in in Hj; assumption.
  Qed.

  (* ---- shape of the result --------------------------------------------------- *)
  Lemma Forall2_map_self {A B} (R : A -> B -> Prop) (f : A -> B) l :
    (forall x, In x l -> R x (f x)) -> Forall2 R l (map f l).
  Proof.
    induction l as [|a l IH]; intros H; cbn [map]; constructor.
    - apply H. left. reflexivity.
    - apply IH. intros x Hx. apply H. right. exact Hx.
  Qed.

  (* what the property says about one parameter of the result *)
  Definition param_spec (sel : list Z) (p : param) (o : oval) : Prop :=
    match p with
    | PData _ subs =>
        exists d, o = OData d /\ map Some d = map (fun j => nth_error subs (Z.to_nat j)) sel
    | PPlain name v =>
        if N.eqb name name_n_subsets then o = OCount (Z.of_nat (length sel)) else o = OVal v
    end.

  Theorem subset_selects : forall n (secs : list (list param)) I out,
    msg_ok n secs = true ->
    subset n secs I = Ok out ->
    let sel := sel_idx 0 I (Z.to_nat n) in
    StronglySorted Z.lt sel /\ NoDup sel /\ (forall i, In i sel <-> In i I) /\
    Forall2 (Forall2 (param_spec sel)) secs out.
  Proof.
    intros n secs I out Hok H sel.
    assert (Hex : exists o, subset_with count_fixed n secs I = Ok o) by (eexists; exact H).
    apply subset_ok_iff in Hex as [Hne Hr].
    assert (Hn : 0 <= n).
    { destruct I as [|x r]; [contradiction|]. specialize (Hr x (or_introl eq_refl)). lia. }
    assert (Hr' : in_range (Z.of_nat (Z.to_nat n)) I) by (rewrite Z2Nat.id by exact Hn; exact Hr).
    unfold subset in H. rewrite subset_with_ok in H by assumption. injection H as <-.
    split; [apply sel_idx_sorted|]. split; [apply sel_idx_nodup|].
    split; [intros i; apply sel_idx_in; exact Hr'|].
    apply Forall2_map_self. intros sec Hsec. apply Forall2_map_self. intros p Hp.
    unfold msg_ok in Hok. rewrite forallb_forall in Hok. specialize (Hok sec Hsec).
    rewrite forallb_forall in Hok. specialize (Hok p Hp).
    destruct p as [name v|name subs]; cbn [param_spec sub_param].
    - destruct (N.eqb name name_n_subsets); [|reflexivity].
      f_equal. apply count_fixed_sel. exact Hr'.
    - cbn [data_ok] in Hok. apply Z.eqb_eq in Hok.
      eexists. split; [reflexivity|]. rewrite select_sel.
      replace (length subs) with (Z.to_nat n) by lia.
      apply map_ext. intros j. rewrite Z.sub_0_r. reflexivity.
  Qed.

  (* the subset count of the result is the number of distinct selected indices,
     and it is the number of subsets actually present in the data *)
  Theorem subset_count : forall n (secs : list (list param)) I out,
    msg_ok n secs = true -> subset n secs I = Ok out ->
    forall osec k, In osec out -> In (OCount k) osec ->
      k = Z.of_nat (length (nodup Z.eq_dec I)) /\
      (forall osec' d, In osec' out -> In (OData d) osec' -> k = Z.of_nat (length d)).
  Proof.
    intros n secs I out Hok H osec k Hosec Hk.
    assert (Hex : exists o, subset_with count_fixed n secs I = Ok o) by (eexists; exact H).
    apply subset_ok_iff in Hex as [Hne Hr].
    unfold subset in H. rewrite subset_with_ok in H by assumption. injection H as <-.
    apply in_map_iff in Hosec as [sec [<- Hsec]]. apply in_map_iff in Hk as [p [Hp Hpin]].
    assert (Ek : k = count_fixed I).
    { destruct p as [nm v0|nm sb]; cbn [sub_param] in Hp.
      - destruct (N.eqb nm name_n_subsets); [injection Hp as <-; reflexivity|discriminate].
      - discriminate. }
    split; [exact Ek|].
    intros osec' d Hosec' Hd.
    apply in_map_iff in Hosec' as [sec' [<- Hsec']]. apply in_map_iff in Hd as [p' [Hp' Hpin']].
    destruct p' as [nm v0|nm subs]; cbn [sub_param] in Hp'.
    { destruct (N.eqb nm name_n_subsets); discriminate. }
    injection Hp' as <-. rewrite Ek, select_length.
    unfold msg_ok in Hok. rewrite forallb_forall in Hok. specialize (Hok sec' Hsec').
    rewrite forallb_forall in Hok. specialize (Hok _ Hpin'). cbn [data_ok] in Hok. apply Z.eqb_eq in Hok.
    assert (Hn : n = Z.of_nat (length subs)) by lia.
    apply count_fixed_sel. rewrite <- Hn. exact Hr.
  Qed.

  (* selecting every index gives back the same data *)
  Lemma select_all (subs : list S) I : forall i,
    (forall j, i <= j < i + Z.of_nat (length subs) -> In j I) -> select_from i I subs = subs.
  Proof.
    induction subs as [|s r IH]; intros i H; cbn [select_from]; [reflexivity|].
    assert (Hi : mem_z i I = true) by (apply mem_z_true, H; cbn [length]; lia).
    rewrite Hi. f_equal. apply IH. intros j Hj. apply H. cbn [length]. lia.
  Qed.

  Theorem subset_idempotent_full : forall n (secs : list (list param)) I out,
    msg_ok n secs = true -> subset n secs I = Ok out ->
    (forall j, 0 <= j < n -> In j I) ->
    out = map (map (fun p => match p with
                             | PData _ subs => OData subs
                             | PPlain name v => if N.eqb name name_n_subsets then OCount n else OVal v
                             end)) secs.
  Proof.
    intros n secs I out Hok H Hall.
    assert (Hex : exists o, subset_with count_fixed n secs I = Ok o) by (eexists; exact H).
    apply subset_ok_iff in Hex as [Hne Hr].
    assert (Hn : 0 <= n).
    { destruct I as [|x r]; [contradiction|]. specialize (Hr x (or_introl eq_refl)). lia. }
    unfold subset in H. rewrite subset_with_ok in H by assumption. injection H as <-.
    apply map_ext_in. intros sec Hsec. apply map_ext_in. intros p Hp.
    unfold msg_ok in Hok. rewrite forallb_forall in Hok. specialize (Hok sec Hsec).
    rewrite forallb_forall in Hok. specialize (Hok p Hp).
    destruct p as [name v|name subs]; cbn [sub_param].
    - destruct (N.eqb name name_n_subsets); [|reflexivity]. f_equal.
      assert (Hr' : in_range (Z.of_nat (Z.to_nat n)) I) by (rewrite Z2Nat.id by exact Hn; exact Hr).
      rewrite (count_fixed_sel _ _ Hr').
      assert (L : forall k i, (forall j, i <= j < i + Z.of_nat k -> In j I) ->
                              length (sel_idx i I k) = k).
      { induction k as [|k IHk]; intros i Hj; cbn [sel_idx]; [reflexivity|].
        assert (Hi : mem_z i I = true) by (apply mem_z_true, Hj; lia).
        rewrite Hi. cbn [length]. f_equal. apply IHk. intros j Hjr. apply Hj. lia. }
      rewrite L; [lia|]. intros j Hj. apply Hall. lia.
    - cbn [data_ok] in Hok. apply Z.eqb_eq in Hok. f_equal. apply select_all.
      intros j Hj. apply Hall. lia.
  Qed.
End Proofs.

(* ---- the code before the repair (D3): len(subset_indices) counts repeats ------ *)
(* message: n_subsets = 2, one section [n_subsets; template data with two subsets];
   indices [1; 1]: the count field says 2, the data hold one subset *)
Theorem subset_count_orig_refuted :
  exists (n : Z) (secs : list (list (param Z Z))) (I : list Z) out k d,
    msg_ok n secs = true /\ subset_orig n secs I = Ok out /\
    out = [[OCount k; OData d]] /\ k <> Z.of_nat (length d) /\
    k <> Z.of_nat (length (nodup Z.eq_dec I)).
Proof.
  exists 2, [[PPlain name_n_subsets 2; PData 5%N [10; 11]]], [1; 1], [[OCount 2; OData [11]]], 2, [11].
  vm_compute. repeat split; discriminate.
Qed.

(* ---- companion examples ------------------------------------------------------ *)
Definition ex_msg : list (list (param Z Z)) :=
  [[PPlain 2%N 4]; [PPlain name_n_subsets 4; PPlain 3%N 1]; [PPlain 4%N 77; PData 5%N [10; 11; 12; 13]]].
Example ex_msg_ok : msg_ok 4 ex_msg = true.
Proof. reflexivity. Qed.
Example ex_subset :
  subset 4 ex_msg [3; 1; 3; 0] =
    Ok [[OVal 4]; [OCount 3; OVal 1]; [OVal 77; OData [10; 11; 13]]].
Proof. vm_compute. reflexivity. Qed.
Example ex_subset_full :
  subset 4 ex_msg [3; 1; 2; 0] =
    Ok [[OVal 4]; [OCount 4; OVal 1]; [OVal 77; OData [10; 11; 12; 13]]] /\
  (forall j, 0 <= j < 4 -> In j [3; 1; 2; 0]).
Proof. split; [vm_compute; reflexivity|]. intros j H. cbn. lia. Qed.
Example ex_subset_refused :
  subset 4 ex_msg [0; 4] = Err ELib /\ subset 4 ex_msg [-1] = Err ELib /\
  subset 4 ex_msg [] = Err EValue.
Proof. vm_compute. repeat split. Qed.
