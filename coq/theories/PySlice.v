(* PySlice.v — Python slicing of a list: l[a:b:c] with None bounds (CPython's
   PySlice_AdjustIndices), and l[k] for an integer k. *)
From PBK Require Import Base.

Definition clampZ (lo hi x : Z) : Z := Z.max lo (Z.min hi x).

(* start, stop adjusted for length n and step c <> 0 *)
Definition slice_bounds (n : Z) (a b : option Z) (c : Z) : Z * Z :=
  let lower := if (c <? 0)%Z then (-1)%Z else 0%Z in
  let upper := if (c <? 0)%Z then (n - 1)%Z else n in
  let adj x := if (x <? 0)%Z then Z.max lower (x + n) else Z.min upper x in
  (match a with None => if (c <? 0)%Z then upper else lower | Some x => adj x end,
   match b with None => if (c <? 0)%Z then lower else upper | Some x => adj x end).

(* the indices start, start+c, ... strictly before stop *)
Fixpoint slice_indices (fuel : nat) (i stop c : Z) : list Z :=
  match fuel with
  | O => []
  | S k => if (if (0 <? c)%Z then (i <? stop)%Z else (stop <? i)%Z)
           then i :: slice_indices k (i + c)%Z stop c else []
  end.

Definition py_slice {A} (l : list A) (a b c : option Z) : result (list A) :=
  let step := match c with None => 1%Z | Some x => x end in
  if (step =? 0)%Z then Err EValue else
  let n := Z.of_nat (length l) in
  let '(start, stop) := slice_bounds n a b step in
  Ok (flat_map (fun i => match nth_error l (Z.to_nat i) with Some x => [x] | None => [] end)
               (slice_indices (S (length l)) start stop step)).

(* range(n)[slice] *)
Definition py_range_slice (n : nat) (a b c : option Z) : result (list nat) := py_slice (seq 0 n) a b c.
