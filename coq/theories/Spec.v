(* Spec.v — the canonical FM-94 layout of an uncompressed data section, made
   explicit: walking a template over a value list yields the LIST OF FIELDS
   (width, raw integer or octets) in template order; the canonical bit stream is
   the concatenation of the fields, MSB first (Bits.write_fields), a missing
   value being the all-ones pattern of the field width and strings being space
   padded / truncated to the field width. *)
From PBK Require Import Base Bits Descr Walk Coder Float53 Decode Encode.

Record sstate := mkS {
  s_fields : list field;         (* the fields laid out so far *)
  s_vals : list (list value);
  s_idx : nat;
  s_cur : nat
}.

Definition s_cur_vals (s : sstate) : list value := nth (s_cur s) (s_vals s) [].
Definition s_next (s : sstate) : result (value * sstate) :=
  match nth_error (s_cur_vals s) (s_idx s) with
  | None => Err EIndex
  | Some v => Ok (v, mkS (s_fields s) (s_vals s) (S (s_idx s)) (s_cur s))
  end.
Definition s_emit (f : field) (s : sstate) : result sstate :=
  if field_ok f then Ok (mkS (s_fields s ++ [f]) (s_vals s) (s_idx s) (s_cur s))
  else Err EValue.       (* a value that does not fit its field is refused *)

(* unsigned field of width nbits holding raw *)
Definition s_uint (raw nbits : Z) (s : sstate) : result sstate :=
  if (nbits <=? 0)%Z then Err EValue else s_emit (FUint nbits raw) s.

Definition spec_numeric (nbits scale refval : Z) (s : sstate) : result sstate :=
  let* (v, s1) := s_next s in
  let* raw := (match v with VNone => missing_for nbits | _ => scaled_int v scale refval end) in
  s_uint raw nbits s1.

Definition spec_string (nbytes : Z) (s : sstate) : result sstate :=
  let* (v, s1) := s_next s in
  let* b := (match v with
             | VNone => Ok (repeat 255%N (Z.to_nat nbytes))
             | VBytes b => Ok b
             | _ => Err EType
             end) in
  if (nbytes <? 0)%Z then Err EValue
  else Ok (mkS (s_fields s1 ++ [FBytes nbytes b]) (s_vals s1) (s_idx s1) (s_cur s1)).

Definition spec_codeflag (nbits dnbits : Z) (s : sstate) : result sstate :=
  let* (v, s1) := s_next s in
  let* raw := (match v with
               | VNone => missing_for nbits
               | VInt z => Ok z
               | VDyad m ex => Ok (trunc (m, ex))
               | _ => Err EType
               end) in
  s_uint raw nbits s1.

(* sign-magnitude: a sign bit then the magnitude *)
Definition spec_new_refval (nbits : Z) (s : sstate) : result (Z * sstate) :=
  let* (v, s1) := s_next s in
  match v with
  | VNone => Err EAssert
  | VInt z =>
      let s2 := mkS (s_fields s1 ++ [FBool (z <? 0)%Z]) (s_vals s1) (s_idx s1) (s_cur s1) in
      let* s3 := s_uint (Z.abs z) (nbits - 1) s2 in Ok (z, s3)
  | _ => Err EType
  end.

Definition spec_constant (z : Z) (s : sstate) : result sstate :=
  let* (v, s1) := s_next s in
  if value_eq_int v z then Ok s1 else Err EAssert.

Definition spec_factor (s : sstate) : result N :=
  match s_idx s with
  | O => match rev (s_cur_vals s) with [] => Err EIndex | v :: _ => factor_of_value v end
  | S k => match nth_error (s_cur_vals s) k with None => Err EIndex | Some v => factor_of_value v end
  end.

Definition spec_bitmap (n : Z) (s : sstate) : result (list bool) :=
  let i := s_idx s in
  let k := Z.to_nat n in
  if (i <? k)%nat then Err EOther
  else Ok (map value_is_zero (firstn k (skipn (i - k) (s_cur_vals s)))).

Definition spec_prims : prims sstate :=
  mkPrims sstate spec_numeric spec_string spec_codeflag spec_new_refval spec_constant spec_factor spec_bitmap.

Definition spec_switch (i : nat) (s : sstate) : sstate := mkS (s_fields s) (s_vals s) 0 i.

(* the field list of a whole uncompressed data section: all subsets in order *)
Definition layout (T : descs) (vals : list (list value)) : result (list subset_out * list field) :=
  let* (outs, s) := run_subsets spec_prims T spec_switch 0 (length vals) (mkS [] vals 0 0) [] in
  Ok (outs, s_fields s).

Definition canonical_bits (T : descs) (vals : list (list value)) : result bits :=
  let* (_, fs) := layout T vals in write_fields fs [].
