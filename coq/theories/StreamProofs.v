(* StreamProofs.v — theorems about Stream.v (C11, and the stream-level half of C12). *)
From PBK Require Import Base Stream.
From Coq Require Import ZifyBool ZifyNat ZifyN.

(* ---------------------------------------------------------------------- *)
(* list facts                                                              *)
(* ---------------------------------------------------------------------- *)

Lemma skipn_length_app {A} (p r : list A) : skipn (length p) (p ++ r) = r.
Proof. induction p as [|x p IH]; cbn; auto. Qed.

Lemma firstn_length_app {A} (p r : list A) : firstn (length p) (p ++ r) = p.
Proof. induction p as [|x p IH]; cbn; [destruct r; reflexivity | now rewrite IH]. Qed.

Lemma firstn_le_app {A} n (p r : list A) : n <= length p -> firstn n (p ++ r) = firstn n p.
Proof.
  revert p; induction n as [|n IH]; intros p H; [reflexivity|].
  destruct p as [|x p]; cbn in *; [lia|]. now rewrite IH by lia.
Qed.

Lemma skipn_skipn' {A} a b (l : list A) : skipn a (skipn b l) = skipn (a + b) l.
Proof.
  revert l; induction b as [|b IH]; intros l; [now rewrite Nat.add_0_r|].
  rewrite Nat.add_succ_r. destruct l as [|x l]; cbn [skipn]; [now destruct a|apply IH].
Qed.

(* ---------------------------------------------------------------------- *)
(* bytes.find                                                              *)
(* ---------------------------------------------------------------------- *)

Lemma prefixb_app p s : prefixb p (p ++ s) = true.
Proof. induction p as [|a p IH]; cbn; [reflexivity|]. now rewrite N.eqb_refl, IH. Qed.

Lemma prefixb_spec p s : prefixb p s = true <-> exists t, s = p ++ t.
Proof.
  split.
  - revert s; induction p as [|a p IH]; intros s H; cbn in *; [now exists s|].
    destruct s as [|b s]; [discriminate|].
    apply andb_prop in H as [Hab Hp]. apply N.eqb_eq in Hab; subst b.
    destruct (IH _ Hp) as [t ->]. now exists t.
  - intros [t ->]. apply prefixb_app.
Qed.

Lemma find_from_eq sub s i :
  find_from sub s i =
  if prefixb sub s then Some i
  else match s with [] => None | _ :: t => find_from sub t (S i) end.
Proof. destruct s; reflexivity. Qed.

Lemma occurs_cons sub x s : occurs sub s -> occurs sub (x :: s).
Proof. intros (a & b & ->). now exists (x :: a), b. Qed.

Lemma find_from_none sub s i : ~ occurs sub s -> find_from sub s i = None.
Proof.
  revert i; induction s as [|x s IH]; intros i H; rewrite find_from_eq.
  - destruct (prefixb sub []) eqn:E; [|reflexivity].
    apply prefixb_spec in E as [t E]. exfalso; apply H. now exists [], t.
  - destruct (prefixb sub (x :: s)) eqn:E.
    + apply prefixb_spec in E as [t E]. exfalso; apply H. now exists [], t.
    + apply IH. intros Ho; apply H. now apply occurs_cons.
Qed.

(* the naive search is correct: the position returned is a match, it is not
   before the start offset, and no earlier position from the offset matches *)
Lemma find_from_some sub s i j :
  find_from sub s i = Some j ->
  i <= j /\ j - i <= length s /\ prefixb sub (skipn (j - i) s) = true /\
  forall k, k < j - i -> prefixb sub (skipn k s) = false.
Proof.
  revert i; induction s as [|x s IH]; intros i H; rewrite find_from_eq in H.
  - destruct (prefixb sub []) eqn:E; [|discriminate]. injection H as <-.
    rewrite Nat.sub_diag. repeat split; [lia|cbn; lia|exact E|intros; lia].
  - destruct (prefixb sub (x :: s)) eqn:E.
    + injection H as <-. rewrite Nat.sub_diag. repeat split; [lia|cbn; lia|exact E|intros; lia].
    + apply IH in H as (Hle & Hlen & Hm & Hno).
      replace (j - i) with (S (j - S i)) by lia. repeat split; [lia|cbn; lia|exact Hm|].
      intros [|k] Hk; [exact E|]. cbn. apply Hno. lia.
Qed.

Lemma find_app_pre sub pre r :
  find sub (pre ++ r) (length pre) = find_from sub r (length pre).
Proof.
  unfold find. rewrite skipn_length_app.
  destruct (Nat.ltb_spec (length (pre ++ r)) (length pre)) as [H|H]; [|reflexivity].
  rewrite app_length in H. lia.
Qed.

Theorem find_spec sub s start j :
  find sub s start = Some j ->
  start <= j <= length s /\ prefixb sub (skipn j s) = true /\
  forall k, start <= k < j -> prefixb sub (skipn k s) = false.
Proof.
  unfold find. destruct (Nat.ltb_spec (length s) start) as [H|H]; [discriminate|].
  intros F. apply find_from_some in F as (Hle & Hlen & Hm & Hno).
  rewrite skipn_length in Hlen.
  rewrite skipn_skipn' in Hm. replace (j - start + start) with j in Hm by lia.
  repeat split; [lia|lia|exact Hm|].
  intros k Hk. specialize (Hno (k - start) ltac:(lia)).
  rewrite skipn_skipn' in Hno. now replace (k - start + start) with k in Hno by lia.
Qed.

(* ---------------------------------------------------------------------- *)
(* the signature at a separator/message boundary                           *)
(* ---------------------------------------------------------------------- *)

Lemma starts_sig_length m : starts_sig m -> 4 <= length m.
Proof. intros [b ->]. cbn. lia. Qed.

Lemma nosig_nil : nosig [].
Proof.
  intros (a & b & H). symmetry in H. apply app_eq_nil in H as [_ H]. discriminate.
Qed.

Lemma nosig_tail x s : nosig (x :: s) -> nosig s.
Proof. intros H Ho. apply H. now apply occurs_cons. Qed.

(* A separator that does not contain 'BUFR', directly followed by 'BUFR...':
   no match can begin inside the separator — neither wholly inside it (it does
   not contain the signature) nor straddling the boundary (a straddling match
   would need 'B' = 'U', 'B' = 'F' or 'B' = 'R': the signature has no border). *)
Lemma no_straddle x sep m rest :
  nosig (x :: sep) -> starts_sig m -> prefixb sig ((x :: sep) ++ m ++ rest) = false.
Proof.
  intros Hn [b ->].
  destruct (prefixb sig ((x :: sep) ++ (sig ++ b) ++ rest)) eqn:E; [|reflexivity].
  exfalso. apply prefixb_spec in E as [t E].
  destruct sep as [|y [|z [|w sep]]]; cbn in E.
  - injection E as E1 E2 _. subst. discriminate.
  - injection E as E1 E2 E3 _. subst. discriminate.
  - injection E as E1 E2 E3 E4 _. subst. discriminate.
  - injection E as E1 E2 E3 E4 _. subst. apply Hn. now exists [], sep.
Qed.

Lemma find_from_boundary sep m rest k :
  nosig sep -> starts_sig m -> find_from sig (sep ++ m ++ rest) k = Some (k + length sep).
Proof.
  revert k; induction sep as [|x sep IH]; intros k Hn Hm; rewrite find_from_eq.
  - destruct Hm as [b ->]. cbn [app length]. rewrite <- app_assoc, prefixb_app.
    now rewrite Nat.add_0_r.
  - rewrite no_straddle by assumption. cbn [app length].
    rewrite IH by (eauto using nosig_tail). f_equal; lia.
Qed.

Theorem find_boundary sep m rest :
  nosig sep -> starts_sig m -> find sig (sep ++ m ++ rest) 0 = Some (length sep).
Proof.
  intros Hn Hm. change 0 with (length (@nil byte)).
  change (sep ++ m ++ rest) with ([] ++ sep ++ m ++ rest).
  rewrite find_app_pre. now rewrite find_from_boundary.
Qed.

Lemma find_boundary_pre pre sep m rest :
  nosig sep -> starts_sig m ->
  find sig (pre ++ sep ++ m ++ rest) (length pre) = Some (length pre + length sep).
Proof. intros Hn Hm. rewrite find_app_pre. now apply find_from_boundary. Qed.

Lemma find_nosig_pre pre sep :
  nosig sep -> find sig (pre ++ sep) (length pre) = None.
Proof. intros Hn. rewrite find_app_pre. now apply find_from_none. Qed.

(* bytes without a 'B' in front of a signature-free string: still signature-free *)
Lemma nosig_app_noB t sp : ~ In 66%N t -> nosig sp -> nosig (t ++ sp).
Proof.
  induction t as [|x t IH]; intros Ht Hs; [exact Hs|].
  intros (a & b & E). destruct a as [|y a]; cbn in E.
  - injection E as -> _. apply Ht. now left.
  - injection E as _ E. apply IH; [intros Hin; apply Ht; now right|exact Hs|].
    now exists a, b.
Qed.

(* ---------------------------------------------------------------------- *)
(* the scanner over a stream of items                                      *)
(* ---------------------------------------------------------------------- *)

(* what one loop iteration does with a chunk m that starts at a signature,
   whatever follows it *)
Inductive beh := BDeliver | BSkip | BRaise (e : err).

Definition item := ((list byte * list byte) * beh)%type.

Fixpoint expected (l : list item) : outcome :=
  match l with
  | [] => ([], None)
  | ((m, _), BDeliver) :: l' => cons_piece m (expected l')
  | (_, BSkip) :: l' => expected l'
  | (_, BRaise e) :: _ => ([], Some (gen_exc e))
  end.

Section Proofs.
  Variable process process_info : list byte -> result msginfo.
  Variable filt : msginfo -> result bool.
  Variable hook : msginfo -> result unit.

  Notation step' := (step process process_info filt hook).
  Notation scan' := (scan process process_info filt hook).
  Notation generate' := (generate process process_info filt hook).
  Notation full_ok' := (full_ok process hook).
  Notation info_ok' := (info_ok process_info).
  Notation filt_ok' := (filt_ok process process_info filt hook).
  Notation full_fails' := (full_fails process).
  Notation info_fails' := (info_fails process_info).

  Variables io coe fl : bool.

  Definition behaves (m sp : list byte) (b : beh) : Prop :=
    match b with
    | BDeliver => forall t, step' io coe fl (m ++ t) = Yield m (length m)
    | BSkip => exists a, 0 < a /\ a <= length m /\
                 (forall t, step' io coe fl (m ++ t) = Skip a) /\ nosig (skipn a m ++ sp)
    | BRaise e => forall t, step' io coe fl (m ++ t) = Raise e
    end.

  Definition item_ok (x : item) : Prop :=
    starts_sig (fst (fst x)) /\ nosig (snd (fst x)) /\ behaves (fst (fst x)) (snd (fst x)) (snd x).

  Lemma scan_S fuel s idx :
    scan' io coe fl (S fuel) s idx =
    if idx <? length s then
      match find sig s idx with
      | None => ([], None)
      | Some i =>
        match step' io coe fl (skipn i s) with
        | Yield p adv => cons_piece p (scan' io coe fl fuel s (i + adv))
        | Skip adv => scan' io coe fl fuel s (i + adv)
        | Raise e => ([], Some (gen_exc e))
        end
      end
    else ([], None).
  Proof. reflexivity. Qed.

  Lemma scan_items : forall (l : list item) pre sep0 fuel,
    Forall item_ok l -> nosig sep0 ->
    length (sep0 ++ assemble (map fst l)) < fuel ->
    scan' io coe fl fuel (pre ++ sep0 ++ assemble (map fst l)) (length pre) = expected l.
  Proof.
    induction l as [|[[m sp] b] l IH]; intros pre sep0 fuel Hall Hsep Hfuel.
    - destruct fuel as [|f]; [lia|]. rewrite scan_S. cbn [map assemble expected].
      rewrite app_nil_r. rewrite find_nosig_pre by assumption.
      now destruct (length pre <? length (pre ++ sep0)).
    - inversion Hall as [|x l' Hx Hl]; subst x l'. destruct Hx as (Hm & Hsp & Hb).
      cbn [fst snd] in Hm, Hsp, Hb.
      destruct fuel as [|f]; [lia|]. rewrite scan_S.
      cbn [map assemble fst] in *.
      pose proof (starts_sig_length _ Hm) as Hlen.
      destruct (Nat.ltb_spec (length pre) (length (pre ++ sep0 ++ m ++ sp ++ assemble (map fst l))))
        as [_|Hbad]; [|rewrite !app_length in Hbad; lia].
      rewrite find_boundary_pre by assumption.
      replace (pre ++ sep0 ++ m ++ sp ++ assemble (map fst l))
        with ((pre ++ sep0) ++ m ++ sp ++ assemble (map fst l)) by now rewrite <- app_assoc.
      rewrite <- app_length, skipn_length_app.
      rewrite !app_length in Hfuel.
      destruct b as [| |e]; cbn [behaves] in Hb.
      + (* delivered: resume right after m *)
        rewrite Hb. cbn [expected]. f_equal.
        replace ((pre ++ sep0) ++ m ++ sp ++ assemble (map fst l))
          with (((pre ++ sep0) ++ m) ++ sp ++ assemble (map fst l)) by now rewrite <- !app_assoc.
        rewrite <- app_length. apply IH; [assumption|assumption|rewrite app_length; lia].
      + (* skipped: resume a bytes into m; the rest of m joins the separator *)
        destruct Hb as (a & Ha0 & Ham & Hstep & Htail).
        rewrite Hstep. cbn [expected].
        replace ((pre ++ sep0) ++ m ++ sp ++ assemble (map fst l))
          with (((pre ++ sep0) ++ firstn a m) ++ (skipn a m ++ sp) ++ assemble (map fst l)).
        2:{ rewrite <- !app_assoc. f_equal. f_equal. rewrite (app_assoc (firstn a m)).
            now rewrite firstn_skipn. }
        replace (length (pre ++ sep0) + a) with (length ((pre ++ sep0) ++ firstn a m))
          by (rewrite (app_length _ (firstn a m)), firstn_length_le; lia).
        apply IH; [assumption|assumption|].
        rewrite !app_length, skipn_length. lia.
      + now rewrite Hb.
  Qed.

  Theorem generate_items (l : list item) sep0 :
    Forall item_ok l -> nosig sep0 ->
    generate' io coe fl (sep0 ++ assemble (map fst l)) = expected l.
  Proof.
    intros Hall Hsep. unfold generate.
    apply (scan_items l [] sep0); [assumption|assumption|lia].
  Qed.
End Proofs.

(* ---------------------------------------------------------------------- *)
(* expected outcomes of tagged streams                                     *)
(* ---------------------------------------------------------------------- *)

Definition tag (p : list byte -> bool) (x : list byte * list byte) : item :=
  (x, if p (fst x) then BDeliver else BSkip).

Lemma map_fst_tag p l : map fst (map (tag p) l) = l.
Proof. induction l as [|x l IH]; cbn; [reflexivity|now rewrite IH]. Qed.

Lemma expected_tag p l : expected (map (tag p) l) = (filter p (map fst l), None).
Proof.
  induction l as [|[m sp] l IH]; [reflexivity|].
  cbn [map tag fst filter expected]. destruct (p m); cbn [expected]; rewrite IH; reflexivity.
Qed.

Lemma expected_tag_raise p l x e l2 :
  expected (map (tag p) l ++ (x, BRaise e) :: l2) = (filter p (map fst l), Some (gen_exc e)).
Proof.
  induction l as [|[m sp] l IH]; [destruct x; reflexivity|].
  cbn [map tag fst filter expected app]. destruct (p m); cbn [expected]; rewrite IH; reflexivity.
Qed.

Lemma filter_true {A} (l : list A) : filter (fun _ => true) l = l.
Proof. induction l as [|x l IH]; cbn; [reflexivity|now rewrite IH]. Qed.

(* ---------------------------------------------------------------------- *)
(* C11 / C12 theorems                                                      *)
(* ---------------------------------------------------------------------- *)

Section Theorems.
  Variable process process_info : list byte -> result msginfo.
  Variable filt : msginfo -> result bool.
  Variable hook : msginfo -> result unit.

  Notation step' := (step process process_info filt hook).
  Notation scan' := (scan process process_info filt hook).
  Notation generate' := (generate process process_info filt hook).
  Notation full_ok' := (full_ok process hook).
  Notation info_ok' := (info_ok process_info).
  Notation filt_ok' := (filt_ok process process_info filt hook).
  Notation full_fails' := (full_fails process).
  Notation info_fails' := (info_fails process_info).
  Notation behaves' := (behaves process process_info filt hook).
  Notation item_ok' := (item_ok process process_info filt hook).
  Notation valid_msg' := (valid_msg process process_info hook).
  Notation fails' := (fails process process_info).

  Lemma behaves_deliver io coe m sp :
    valid_msg' io m -> behaves' io coe false m sp BDeliver.
  Proof.
    intros H t. unfold step, attempt, decode_step, piece_of.
    destruct io; cbn in H; destruct H as (mi & Hp & Hrest).
    - rewrite Hp. rewrite Hrest, firstn_length_app. reflexivity.
    - destruct Hrest as [Hc Hh]. rewrite Hp, Hh, Hc, firstn_length_app. reflexivity.
  Qed.

  Lemma behaves_filter io coe m sp b :
    starts_sig m -> nosig sp -> filt_ok' io m b ->
    behaves' io coe true m sp (if b then BDeliver else BSkip).
  Proof.
    intros Hm Hsp (mi & Hp & Hf & Hrest).
    pose proof (starts_sig_length _ Hm) as Hlen.
    destruct io.
    - (* metadata-only: the same decode decides and delivers *)
      destruct b.
      + intros t. unfold step, attempt, decode_step, piece_of.
        rewrite Hp, Hf. cbn [andb negb]. rewrite Hrest, firstn_length_app. reflexivity.
      + exists (length m). repeat split; [lia|lia| |].
        * intros t. unfold step, attempt, decode_step, piece_of.
          rewrite Hp, Hf. cbn [andb negb]. rewrite Hrest, firstn_length_app. reflexivity.
        * rewrite skipn_all. exact Hsp.
    - destruct b.
      + destruct Hrest as (mi' & Hp' & Hc & Hh).
        intros t. unfold step, attempt, decode_step, piece_of.
        rewrite Hp, Hf. cbn [andb negb]. rewrite Hp', Hh, Hc, firstn_length_app. reflexivity.
      + destruct Hrest as (Hc & HB).
        assert (Hc0 : 0 < mi_consumed mi).
        { destruct (mi_consumed mi) eqn:E; [|lia]. exfalso. apply HB.
          destruct Hm as [bd ->]. cbn. now left. }
        exists (mi_consumed mi). repeat split; [assumption|assumption| |].
        * intros t. unfold step, attempt, decode_step, piece_of.
          rewrite Hp, Hf. cbn [andb negb].
          rewrite firstn_le_app by assumption. now rewrite firstn_length_le.
        * now apply nosig_app_noB.
  Qed.

  Lemma behaves_skip_damaged m sp e :
    is_lib_err e = true -> full_fails' m e -> info_ok' m ->
    starts_sig m -> nosig sp ->
    behaves' false true false m sp BSkip.
  Proof.
    intros He Hf (mi & Hp & Hd) Hm Hsp.
    pose proof (starts_sig_length _ Hm) as Hlen.
    exists (length m). repeat split; [lia|lia| |].
    - intros t. unfold step, attempt, decode_step, recover. rewrite Hf, He, Hp, Hd. reflexivity.
    - rewrite skipn_all. exact Hsp.
  Qed.

  Lemma behaves_raise io coe m sp e :
    fails' io m e -> (coe = false \/ is_lib_err e = false) ->
    behaves' io coe false m sp (BRaise e).
  Proof.
    intros Hf Hc t. unfold step, attempt, decode_step, recover.
    destruct io; cbn in Hf; rewrite Hf;
      (destruct Hc as [-> | ->]; [now destruct (is_lib_err e)|reflexivity]).
  Qed.

  (* ---- C11 ---- *)

  Theorem scan_exact io coe sep0 l :
    nosig sep0 -> stream_ok (valid_msg' io) l ->
    generate' io coe false (sep0 ++ assemble l) = (map fst l, None).
  Proof.
    intros Hsep Hl.
    rewrite <- (map_fst_tag (fun _ => true) l) at 1.
    rewrite generate_items; [rewrite expected_tag; now rewrite filter_true| |assumption].
    apply Forall_map. eapply Forall_impl; [|exact Hl].
    intros [m sp] (Hm & Hsp & Hv). repeat split; [exact Hm|exact Hsp|].
    cbn [tag fst snd]. now apply behaves_deliver.
  Qed.

  Theorem scan_filter io coe (p : list byte -> bool) sep0 l :
    nosig sep0 -> stream_ok (fun m => filt_ok' io m (p m)) l ->
    generate' io coe true (sep0 ++ assemble l) = (filter p (map fst l), None).
  Proof.
    intros Hsep Hl.
    rewrite <- (map_fst_tag p l) at 1.
    rewrite generate_items; [apply expected_tag| |assumption].
    apply Forall_map. eapply Forall_impl; [|exact Hl].
    intros [m sp] (Hm & Hsp & Hv). repeat split; [exact Hm|exact Hsp|].
    cbn [tag fst snd] in *. now apply behaves_filter.
  Qed.

  Corollary scan_filter_is_filter_of_scan io coe (p : list byte -> bool) sep0 l :
    nosig sep0 -> stream_ok (valid_msg' io) l -> stream_ok (fun m => filt_ok' io m (p m)) l ->
    fst (generate' io coe true (sep0 ++ assemble l)) =
    filter p (fst (generate' io coe false (sep0 ++ assemble l))).
  Proof. intros Hs H1 H2. rewrite (scan_filter io coe p), scan_exact by assumption. reflexivity. Qed.

  (* the pieces written out one after the other are the messages one after the
     other; without separators that is the input itself *)
  Corollary concat_pieces io coe sep0 l :
    nosig sep0 -> stream_ok (valid_msg' io) l ->
    concat (fst (generate' io coe false (sep0 ++ assemble l))) = concat (map fst l).
  Proof. intros Hs Hl. now rewrite scan_exact. Qed.

  Lemma assemble_no_sep (ms : list (list byte)) :
    assemble (map (fun m => (m, [])) ms) = concat ms.
  Proof. induction ms as [|m ms IH]; cbn; [reflexivity|now rewrite IH]. Qed.

  Corollary concat_pieces_identity io coe (ms : list (list byte)) :
    Forall (fun m => starts_sig m /\ valid_msg' io m) ms ->
    concat (fst (generate' io coe false (concat ms))) = concat ms.
  Proof.
    intros H. rewrite <- (assemble_no_sep ms).
    change (assemble (map (fun m => (m, [])) ms)) with ([] ++ assemble (map (fun m => (m, [])) ms)).
    rewrite scan_exact; [|apply nosig_nil|].
    - cbn [fst app]. rewrite map_map. cbn [fst]. now rewrite map_id, assemble_no_sep.
    - apply Forall_map. eapply Forall_impl; [|exact H].
      intros m [Hm Hv]. repeat split; [exact Hm|apply nosig_nil|exact Hv].
  Qed.

  (* a start signature (and a stop signature) inside the body of a message is
     never a scan position: one message comes out, with its exact bytes *)
  Corollary signature_inside_body_not_scanned io coe sep0 b1 b2 b3 sep1 :
    let m := sig ++ b1 ++ sig ++ b2 ++ [55; 55; 55; 55]%N ++ b3 in
    nosig sep0 -> nosig sep1 -> valid_msg' io m ->
    generate' io coe false (sep0 ++ m ++ sep1) = ([m], None).
  Proof.
    intros m Hs0 Hs1 Hv.
    replace (sep0 ++ m ++ sep1) with (sep0 ++ assemble [(m, sep1)])
      by (cbn; now rewrite app_nil_r).
    rewrite scan_exact; [reflexivity|assumption|].
    constructor; [|constructor]. repeat split; [|assumption|assumption].
    now exists (b1 ++ sig ++ b2 ++ [55; 55; 55; 55]%N ++ b3).
  Qed.

  (* ---- C12, stream level ---- *)

  (* continue_on_error: a damaged message (library error from the full decode,
     metadata-only decode still fine with the intact declared length) is skipped
     exactly; every other message is delivered unchanged and in order.
     [good] says which messages of the stream are undamaged. *)
  Theorem scan_continue_skips (good : list byte -> bool) sep0 l :
    nosig sep0 ->
    stream_ok (fun m => if good m then full_ok' m
                        else (exists e, is_lib_err e = true /\ full_fails' m e) /\ info_ok' m) l ->
    generate' false true false (sep0 ++ assemble l) = (filter good (map fst l), None).
  Proof.
    intros Hsep Hl.
    rewrite <- (map_fst_tag good l) at 1.
    rewrite generate_items; [apply expected_tag| |assumption].
    apply Forall_map. eapply Forall_impl; [|exact Hl].
    intros [m sp] (Hm & Hsp & Hv). repeat split; [exact Hm|exact Hsp|].
    cbn [tag fst snd] in *. destruct (good m).
    - now apply (behaves_deliver false).
    - destruct Hv as [(e & He & Hf) Hi]. now apply (behaves_skip_damaged m sp e).
  Qed.

  Lemma scan_raises io coe sep0 l m rest e :
    nosig sep0 -> stream_ok (valid_msg' io) l ->
    starts_sig m -> fails' io m e -> (coe = false \/ is_lib_err e = false) ->
    generate' io coe false (sep0 ++ assemble l ++ m ++ rest) = (map fst l, Some (gen_exc e)).
  Proof.
    intros Hsep Hl Hm Hf Hc.
    pose (x := ((m ++ rest, @nil byte), BRaise e) : item).
    replace (assemble l ++ m ++ rest)
      with (assemble (map fst (map (tag (fun _ => true)) l ++ [x]))).
    2:{ rewrite map_app, map_fst_tag. cbn [map fst x].
        clear. induction l as [|[m' sp'] l IH]; cbn [assemble app].
        - now rewrite !app_nil_r.
        - rewrite <- !app_assoc. now rewrite IH. }
    rewrite generate_items; [unfold x; rewrite expected_tag_raise; now rewrite filter_true| |assumption].
    apply Forall_app; split.
    - apply Forall_map. eapply Forall_impl; [|exact Hl].
      intros [m' sp'] (Hm' & Hsp' & Hv). repeat split; [exact Hm'|exact Hsp'|].
      cbn [tag fst snd]. now apply behaves_deliver.
    - constructor; [|constructor]. repeat split; cbn [x fst snd].
      + destruct Hm as [b ->]. exists (b ++ rest). now rewrite app_assoc.
      + apply nosig_nil.
      + intros t. rewrite <- app_assoc.
        apply (behaves_raise io coe m [] e Hf Hc).
  Qed.

  (* without continue_on_error the messages before the damaged one are delivered
     and then the error surfaces — whatever follows the damaged message *)
  Theorem scan_stops_at_error io sep0 l m rest e :
    nosig sep0 -> stream_ok (valid_msg' io) l -> starts_sig m -> fails' io m e ->
    generate' io false false (sep0 ++ assemble l ++ m ++ rest) = (map fst l, Some (gen_exc e)).
  Proof. intros. apply scan_raises; auto. Qed.

  Lemma gen_exc_lib e : is_lib_err e = true -> gen_exc e = e.
  Proof. now destruct e. Qed.

  (* ... as the library's own error type when it is one *)
  Corollary scan_stops_at_library_error io sep0 l m rest e :
    nosig sep0 -> stream_ok (valid_msg' io) l -> starts_sig m -> fails' io m e ->
    is_lib_err e = true ->
    generate' io false false (sep0 ++ assemble l ++ m ++ rest) = (map fst l, Some e).
  Proof. intros. rewrite scan_stops_at_error with (e := e) by assumption. now rewrite gen_exc_lib. Qed.

  (* an exception that is not a PyBufrKitError (e.g. AssertionError, D10) is not
     caught, continue_on_error or not *)
  Theorem non_library_error_escapes io coe sep0 l m rest e :
    nosig sep0 -> stream_ok (valid_msg' io) l -> starts_sig m -> fails' io m e ->
    is_lib_err e = false ->
    generate' io coe false (sep0 ++ assemble l ++ m ++ rest) = (map fst l, Some (gen_exc e)).
  Proof. intros. apply scan_raises; auto. Qed.
End Theorems.

(* ---------------------------------------------------------------------- *)
(* fuel; the declared-length-0 loop; further recovery paths                *)
(* ---------------------------------------------------------------------- *)

Section More.
  Variable process process_info : list byte -> result msginfo.
  Variable filt : msginfo -> result bool.
  Variable hook : msginfo -> result unit.

  Notation step' := (step process process_info filt hook).
  Notation scan' := (scan process process_info filt hook).
  Notation generate' := (generate process process_info filt hook).
  Notation full_ok' := (full_ok process hook).
  Notation info_ok' := (info_ok process_info).
  Notation full_fails' := (full_fails process).
  Notation info_fails' := (info_fails process_info).
  Notation behaves' := (behaves process process_info filt hook).

  (* fuel is a model artefact: a run that did not exhaust it is unchanged by more *)
  Theorem scan_fuel_mono io coe fl : forall f s idx f',
    snd (scan' io coe fl f s idx) <> Some EFuel -> f <= f' ->
    scan' io coe fl f' s idx = scan' io coe fl f s idx.
  Proof.
    induction f as [|f IH]; intros s idx f' H Hle; [cbn in H; congruence|].
    destruct f' as [|f']; [lia|].
    rewrite !scan_S in *.
    destruct (idx <? length s); [|reflexivity].
    destruct (find sig s idx) as [i|]; [|reflexivity].
    destruct (step' io coe fl (skipn i s)) as [p adv|adv|e]; [| |reflexivity].
    - cbn [cons_piece snd] in H. unfold cons_piece. rewrite IH by (assumption || lia). reflexivity.
    - apply IH; [assumption|lia].
  Qed.

  (* Outside the given properties, recorded only: metadata-only mode, a message
     whose declared total length is 0.  serialized_bytes is the empty slice, the
     position does not move, the same (empty) message is yielded again and again:
     the Python generator never finishes; the model yields [fuel] empty pieces and
     runs out of fuel, for every fuel. *)
  Theorem zero_declared_length_no_progress coe s i mi :
    i < length s -> find sig s i = Some i ->
    process_info (skipn i s) = Ok mi -> mi_declared mi = 0 ->
    forall fuel, scan' true coe false fuel s i = (repeat (@nil byte) fuel, Some EFuel).
  Proof.
    intros Hi Hf Hp Hd fuel. induction fuel as [|f IH]; [reflexivity|].
    rewrite scan_S. destruct (Nat.ltb_spec i (length s)) as [_|]; [|lia].
    rewrite Hf. unfold step, attempt, decode_step, piece_of. rewrite Hp, Hd.
    cbn [firstn length]. rewrite Nat.add_0_r, IH. reflexivity.
  Qed.

  (* the same in full mode on the recovery path: full decode fails with a library
     error, the metadata-only decode declares length 0: idx_start += 0 *)
  Theorem zero_declared_length_no_progress_recover s i e mi :
    i < length s -> find sig s i = Some i ->
    process (skipn i s) = Err e -> is_lib_err e = true ->
    process_info (skipn i s) = Ok mi -> mi_declared mi = 0 ->
    forall fuel, scan' false true false fuel s i = ([], Some EFuel).
  Proof.
    intros Hi Hf Hp He Hpi Hd fuel. induction fuel as [|f IH]; [reflexivity|].
    rewrite scan_S. destruct (Nat.ltb_spec i (length s)) as [_|]; [|lia].
    rewrite Hf. unfold step, attempt, decode_step, recover. rewrite Hp, He, Hpi, Hd.
    now rewrite Nat.add_0_r.
  Qed.

  (* the other two recovery paths advance by ONE byte; the scanner then searches
     the rest of the damaged message, so the others are delivered exactly only if
     that rest (with the following separator) holds no signature *)
  Lemma behaves_skip_one (io : bool) m sp e :
    starts_sig m -> is_lib_err e = true ->
    (if io then info_fails' m e
     else full_fails' m e /\ exists e', is_lib_err e' = true /\ info_fails' m e') ->
    nosig (skipn 1 m ++ sp) ->
    behaves' io true false m sp BSkip.
  Proof.
    intros Hm He Hf Hn. pose proof (starts_sig_length _ Hm) as Hlen.
    exists 1. repeat split; [lia|lia| |exact Hn].
    intros t. unfold step, attempt, decode_step, recover. destruct io.
    - now rewrite Hf, He.
    - destruct Hf as (Hf & e' & He' & Hi). now rewrite Hf, He, Hi, He'.
  Qed.

  Theorem scan_continue_skips_by_one (io : bool) (good : list byte -> bool) sep0 l :
    nosig sep0 ->
    Forall (fun x => starts_sig (fst x) /\ nosig (snd x) /\
              if good (fst x) then valid_msg process process_info hook io (fst x)
              else (exists e, is_lib_err e = true /\
                     if io then info_fails' (fst x) e
                     else full_fails' (fst x) e /\
                          exists e', is_lib_err e' = true /\ info_fails' (fst x) e') /\
                   nosig (skipn 1 (fst x) ++ snd x)) l ->
    generate' io true false (sep0 ++ assemble l) = (filter good (map fst l), None).
  Proof.
    intros Hsep Hl.
    rewrite <- (map_fst_tag good l) at 1.
    rewrite generate_items; [apply expected_tag| |assumption].
    apply Forall_map. eapply Forall_impl; [|exact Hl].
    intros [m sp] (Hm & Hsp & Hv). repeat split; [exact Hm|exact Hsp|].
    cbn [tag fst snd] in *. destruct (good m).
    - now apply behaves_deliver.
    - destruct Hv as [(e & He & Hf) Hn]. now apply (behaves_skip_one io m sp e).
  Qed.
End More.

(* ---------------------------------------------------------------------- *)
(* non-vacuity: a toy decoder satisfying the hypotheses                    *)
(* ---------------------------------------------------------------------- *)

Lemma nosig_dec s : find_from sig s 0 = None -> nosig s.
Proof.
  intros H (a & b & ->). revert H. generalize 0.
  induction a as [|x a IH]; intros k; rewrite find_from_eq.
  - cbn [app]. now rewrite prefixb_app.
  - destruct (prefixb sig ((x :: a) ++ sig ++ b)); [discriminate|]. apply IH.
Qed.

Module Toy.
  (* toy message: 'BUFR' n k body... '7' with n = total length, k = a category *)
  Definition info (s : list byte) : result msginfo :=
    if prefixb sig s then
      match skipn 4 s with
      | n :: k :: _ =>
        if N.to_nat n - 1 <=? length s then Ok (MsgInfo (N.to_nat n - 1) (N.to_nat n) [k])
        else Err EBitRead
      | _ => Err EBitRead
      end
    else Err ELib.

  Definition full (s : list byte) : result msginfo :=
    match info s with
    | Err e => Err e
    | Ok mi =>
      if mi_declared mi <=? length s then
        if N.eqb (nth 5 s 0%N) 99%N then Err EAssert                 (* a non-library exception *)
        else if N.eqb (nth (mi_declared mi - 1) s 0%N) 55%N
             then Ok (MsgInfo (mi_declared mi) (mi_declared mi) (mi_meta mi))
             else Err ELib                                         (* damaged stop byte *)
      else Err EBitRead
    end.

  Definition filt (mi : msginfo) : result bool :=
    match mi_meta mi with [k] => Ok (N.eqb k 1%N) | _ => Err EAttr end.
  Definition hook (_ : msginfo) : result unit := Ok tt.

  Definition gen := generate full info filt hook.

  (* body contains 'BUFR' and '77' *)
  Definition m1 : list byte := sig ++ [14; 1]%N ++ sig ++ [55; 55; 9]%N ++ [55]%N.
  Definition m2 : list byte := sig ++ [8; 2; 0; 55]%N.
  Definition bad : list byte := sig ++ [8; 1; 0; 0]%N.       (* stop byte damaged, length intact *)
  Definition boom : list byte := sig ++ [8; 99; 0; 55]%N.    (* raises AssertionError *)
  Definition zero : list byte := sig ++ [0; 1; 0; 55]%N.     (* declares total length 0 *)
  Definition s0 : list byte := [1; 13; 13; 10; 66; 66; 85]%N.    (* header-like, ends with 'BBU' *)
  Definition sA : list byte := [120; 120; 66; 85; 70]%N.          (* 'xxBUF' *)
  Definition sB : list byte := [66]%N.                            (* 'B' *)
  Definition pcat (m : list byte) : bool := N.eqb (nth 5 m 0%N) 1%N.

  Ltac nosig_tac := apply nosig_dec; vm_compute; reflexivity.
  Ltac sig_tac := eexists; unfold m1, m2, bad, boom, zero; reflexivity.

  Lemma full_ok_m1 : full_ok full hook m1.
  Proof. eexists; split; [intros t; reflexivity|split; reflexivity]. Qed.
  Lemma full_ok_m2 : full_ok full hook m2.
  Proof. eexists; split; [intros t; reflexivity|split; reflexivity]. Qed.
  Lemma info_ok_m1 : info_ok info m1.
  Proof. eexists; split; [intros t; reflexivity|reflexivity]. Qed.
  Lemma info_ok_m2 : info_ok info m2.
  Proof. eexists; split; [intros t; reflexivity|reflexivity]. Qed.
  Lemma info_ok_bad : info_ok info bad.
  Proof. eexists; split; [intros t; reflexivity|reflexivity]. Qed.
  Lemma full_fails_bad : full_fails full bad ELib.
  Proof. intros t; reflexivity. Qed.
  Lemma full_fails_boom : full_fails full boom EAssert.
  Proof. intros t; reflexivity. Qed.

  Definition l12 := [(m1, sA); (m2, sB)].

  Lemma valid_l12 io : stream_ok (valid_msg full info hook io) l12.
  Proof.
    repeat constructor; cbn [fst snd]; try sig_tac; try nosig_tac;
      destruct io; cbn [valid_msg];
      auto using full_ok_m1, full_ok_m2, info_ok_m1, info_ok_m2.
  Qed.

  (* hypotheses of scan_exact hold of a concrete stream (separators ending in
     partial signatures, a body containing the signature), and the model
     computes what the theorem says *)
  Example scan_exact_nonvacuous io coe :
    nosig s0 /\ stream_ok (valid_msg full info hook io) l12 /\
    gen io coe false (s0 ++ assemble l12) = ([m1; m2], None).
  Proof.
    split; [nosig_tac|split; [apply valid_l12|]].
    apply (scan_exact full info filt hook io coe s0 l12); [nosig_tac|apply valid_l12].
  Qed.
  Example scan_exact_computed :
    gen false false false (s0 ++ assemble l12) = ([m1; m2], None) /\
    gen true false false (s0 ++ assemble l12) = ([m1; m2], None).
  Proof. split; vm_compute; reflexivity. Qed.

  Lemma filt_l12 io : stream_ok (fun m => filt_ok full info filt hook io m (pcat m)) l12.
  Proof.
    repeat constructor; cbn [fst snd]; try sig_tac; try nosig_tac; destruct io.
    - eexists; split; [intros t; reflexivity|split; reflexivity].
    - eexists; split; [intros t; reflexivity|split; [reflexivity|apply full_ok_m1]].
    - eexists; split; [intros t; reflexivity|split; reflexivity].
    - eexists; split; [intros t; reflexivity|split; [reflexivity|]].
      cbn. split; [lia|]. intros [H|[]]. discriminate.
  Qed.

  Example scan_filter_nonvacuous io coe :
    stream_ok (fun m => filt_ok full info filt hook io m (pcat m)) l12 /\
    gen io coe true (s0 ++ assemble l12) = ([m1], None).
  Proof.
    split; [apply filt_l12|].
    apply (scan_filter full info filt hook io coe pcat s0 l12); [nosig_tac|apply filt_l12].
  Qed.

  Definition good (m : list byte) : bool := N.eqb (nth 7 m 0%N) 55%N || (8 <? length m).
  Definition l1b2 := [(m1, sA); (bad, sB); (m2, [])].

  Example scan_continue_skips_nonvacuous :
    stream_ok (fun m => if good m then full_ok full hook m
                        else (exists e, is_lib_err e = true /\ full_fails full m e) /\ info_ok info m) l1b2 /\
    gen false true false (s0 ++ assemble l1b2) = ([m1; m2], None).
  Proof.
    assert (H : stream_ok (fun m => if good m then full_ok full hook m
                        else (exists e, is_lib_err e = true /\ full_fails full m e) /\ info_ok info m) l1b2).
    { repeat constructor; cbn [fst snd]; try sig_tac; try nosig_tac.
      - apply full_ok_m1.
      - exists ELib. split; [reflexivity|apply full_fails_bad].
      - apply info_ok_bad.
      - apply full_ok_m2. }
    split; [exact H|].
    apply (scan_continue_skips full info filt hook good s0 l1b2); [nosig_tac|exact H].
  Qed.

  Example scan_stops_at_error_nonvacuous :
    gen false false false (s0 ++ assemble l12 ++ bad ++ m2) = ([m1; m2], Some ELib).
  Proof.
    apply (scan_stops_at_error full info filt hook false s0 l12 bad m2 ELib);
      [nosig_tac|apply (valid_l12 false)|sig_tac|apply full_fails_bad].
  Qed.

  (* AssertionError is not caught although continue_on_error is set (D10) *)
  Example non_library_error_escapes_nonvacuous :
    gen false true false (s0 ++ assemble l12 ++ boom ++ m2) = ([m1; m2], Some EAssert).
  Proof.
    apply (non_library_error_escapes full info filt hook false true s0 l12 boom m2 EAssert);
      [nosig_tac|apply (valid_l12 false)|sig_tac|apply full_fails_boom|reflexivity].
  Qed.
  (* ... whereas the library error of [bad] at the same place is skipped *)
  Example library_error_skipped_computed :
    gen false true false (s0 ++ assemble l12 ++ bad ++ m2) = ([m1; m2; m2], None).
  Proof. vm_compute; reflexivity. Qed.

  (* hypothesis negation (declared length 0): recorded, not a property claim.
     The generator yields the empty message forever; every fuel is exhausted. *)
  Example zero_declared_length_refuted :
    forall fuel, scan full info filt hook true false false fuel (m2 ++ zero ++ m2) 8
                 = (repeat [] fuel, Some EFuel).
  Proof.
    apply (zero_declared_length_no_progress full info filt hook false (m2 ++ zero ++ m2) 8
             (MsgInfo 0 0 [1%N])); try reflexivity. cbn; lia.
  Qed.
  Example zero_declared_length_generate :
    gen true false false (m2 ++ zero ++ m2) = (m2 :: repeat [] 24, Some EFuel).
  Proof. vm_compute; reflexivity. Qed.
End Toy.

Lemma zero_declared_length_refuted_exists :
  exists s, forall fuel,
    snd (scan Toy.full Toy.info Toy.filt Toy.hook true false false fuel s 8) = Some EFuel.
Proof.
  exists (Toy.m2 ++ Toy.zero ++ Toy.m2). intros fuel.
  now rewrite Toy.zero_declared_length_refuted.
Qed.

