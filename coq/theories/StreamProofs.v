(* StreamProofs.v — theorems about Stream.v (C11, and the stream-level half of C12). *)
From PBK Require Import Base Stream.
From Coq Require Import ZifyBool ZifyNat ZifyN.

(* ---------------------------------------------------------------------- *)
(* list facts                                                              *)
(* ---------------------------------------------------------------------- *)

Lemma skipn_length_app {A} (p r : list A) : skipn (length p) (p ++ r) = r.
Proof. induction p as [|x p IH]; cbn; auto. Qed.

Lemma firstn_length_app {A} (p r : list A) : firstn (length p) (p ++ r) = p.
Proof. induction p as [|x p IH]; cbn; [destruct r; reflexivity | now rewrite IH]. Qed.

Lemma firstn_le_app {A} n (p r : list A) : n <= length p -> firstn n (p ++ r) = firstn n p.
Proof.
  revert p; induction n as [|n IH]; intros p H; [reflexivity|].
  destruct p as [|x p]; cbn in *; [lia|]. now rewrite IH by lia.
Qed.

Lemma skipn_skipn' {A} a b (l : list A) : skipn a (skipn b l) = skipn (a + b) l.
Proof.
  revert l; induction b as [|b IH]; intros l; [now rewrite Nat.add_0_r|].
  rewrite Nat.add_succ_r. destruct l as [|x l]; cbn [skipn]; [now destruct a|apply IH].
Qed.

(* ---------------------------------------------------------------------- *)
(* bytes.find                                                              *)
(* ---------------------------------------------------------------------- *)

Lemma prefixb_app p s : prefixb p (p ++ s) = true.
Proof. induction p as [|a p IH]; cbn; [reflexivity|]. now rewrite N.eqb_refl, IH. Qed.

Lemma prefixb_spec p s : prefixb p s = true <-> exists t, s = p ++ t.
Proof.
  split.
  - revert s; induction p as [|a p IH]; intros s H; cbn in *; [now exists s|].
    destruct s as [|b s]; [discriminate|].
    apply andb_prop in H as [Hab Hp]. apply N.eqb_eq in Hab; subst b.
    destruct (IH _ Hp) as [t ->]. now exists t.
  - intros [t ->]. apply prefixb_app.
Qed.

Lemma find_from_eq sub s i :
  find_from sub s i =
  if prefixb sub s then Some i
  else match s with [] => None | _ :: t => find_from sub t (S i) end.
Proof. destruct s; reflexivity. Qed.

Lemma occurs_cons sub x s : occurs sub s -> occurs sub (x :: s).
Proof. intros (a & b & ->). now exists (x :: a), b. Qed.

Lemma find_from_none sub s i : ~ occurs sub s -> find_from sub s i = None.
Proof.
  revert i; induction s as [|x s IH]; intros i H; rewrite find_from_eq.
  - destruct (prefixb sub []) eqn:E; [|reflexivity].
    apply prefixb_spec in E as [t E]. exfalso; apply H. now exists [], t.
  - destruct (prefixb sub (x :: s)) eqn:E.
    + apply prefixb_spec in E as [t E]. exfalso; apply H. now exists [], t.
    + apply IH. intros Ho; apply H. now apply occurs_cons.
Qed.

(* the naive search is correct: the position returned is a match, it is not
   before the start offset, and no earlier position from the offset matches *)
Lemma find_from_some sub s i j :
  find_from sub s i = Some j ->
  i <= j /\ j - i <= length s /\ prefixb sub (skipn (j - i) s) = true /\
  forall k, k < j - i -> prefixb sub (skipn k s) = false.
Proof.
  revert i; induction s as [|x s IH]; intros i H; rewrite find_from_eq in H.
  - destruct (prefixb sub []) eqn:E; [|discriminate]. injection H as <-.
    rewrite Nat.sub_diag. repeat split; [lia|cbn; lia|exact E|intros; lia].
  - destruct (prefixb sub (x :: s)) eqn:E.
    + injection H as <-. rewrite Nat.sub_diag. repeat split; [lia|cbn; lia|exact E|intros; lia].
    + apply IH in H as (Hle & Hlen & Hm & Hno).
      replace (j - i) with (S (j - S i)) by lia. repeat split; [lia|cbn; lia|exact Hm|].
      intros [|k] Hk; [exact E|]. cbn. apply Hno. lia.
Qed.

Lemma find_app_pre sub pre r :
  find sub (pre ++ r) (length pre) = find_from sub r (length pre).
Proof.
  unfold find. rewrite skipn_length_app.
  destruct (Nat.ltb_spec (length (pre ++ r)) (length pre)) as [H|H]; [|reflexivity].
  rewrite app_length in H. lia.
Qed.

Theorem find_spec sub s start j :
  find sub s start = Some j ->
  start <= j <= length s /\ prefixb sub (skipn j s) = true /\
  forall k, start <= k < j -> prefixb sub (skipn k s) = false.
Proof.
  unfold find. destruct (Nat.ltb_spec (length s) start) as [H|H]; [discriminate|].
  intros F. apply find_from_some in F as (Hle & Hlen & Hm & Hno).
  rewrite skipn_length in Hlen.
  rewrite skipn_skipn' in Hm. replace (j - start + start) with j in Hm by lia.
  repeat split; [lia|lia|exact Hm|].
  intros k Hk. specialize (Hno (k - start) ltac:(lia)).
  rewrite skipn_skipn' in Hno. now replace (k - start + start) with k in Hno by lia.
Qed.

(* ---------------------------------------------------------------------- *)
(* the signature at a separator/message boundary                           *)
(* ---------------------------------------------------------------------- *)

Lemma starts_sig_length m : starts_sig m -> 4 <= length m.
Proof. intros [b ->]. cbn. lia. Qed.

Lemma nosig_nil : nosig [].
Proof.
  intros (a & b & H). symmetry in H. apply app_eq_nil in H as [_ H]. discriminate.
Qed.

Lemma nosig_tail x s : nosig (x :: s) -> nosig s.
Proof. intros H Ho. apply H. now apply occurs_cons. Qed.

(* A separator that does not contain 'BUFR', directly followed by 'BUFR...':
   no match can begin inside the separator — neither wholly inside it (it does
   not contain the signature) nor straddling the boundary (a straddling match
   would need 'B' = 'U', 'B' = 'F' or 'B' = 'R': the signature has no border). *)
Lemma no_straddle x sep m rest :
  nosig (x :: sep) -> starts_sig m -> prefixb sig ((x :: sep) ++ m ++ rest) = false.
Proof.
  intros Hn [b ->].
  destruct (prefixb sig ((x :: sep) ++ (sig ++ b) ++ rest)) eqn:E; [|reflexivity].
  exfalso. apply prefixb_spec in E as [t E].
  destruct sep as [|y [|z [|w sep]]]; cbn in E.
  - injection E as E1 E2 _. subst. discriminate.
  - injection E as E1 E2 E3 _. subst. discriminate.
  - injection E as E1 E2 E3 E4 _. subst. discriminate.
  - injection E as E1 E2 E3 E4 _. subst. apply Hn. now exists [], sep.
Qed.

Lemma find_from_boundary sep m rest k :
  nosig sep -> starts_sig m -> find_from sig (sep ++ m ++ rest) k = Some (k + length sep).
Proof.
  revert k; induction sep as [|x sep IH]; intros k Hn Hm; rewrite find_from_eq.
  - destruct Hm as [b ->]. cbn [app length]. rewrite <- app_assoc, prefixb_app.
    now rewrite Nat.add_0_r.
  - rewrite no_straddle by assumption. cbn [app length].
    rewrite IH by (eauto using nosig_tail). f_equal; lia.
Qed.

Theorem find_boundary sep m rest :
  nosig sep -> starts_sig m -> find sig (sep ++ m ++ rest) 0 = Some (length sep).
Proof.
  intros Hn Hm. change 0 with (length (@nil byte)).
  change (sep ++ m ++ rest) with ([] ++ sep ++ m ++ rest).
  rewrite find_app_pre. now rewrite find_from_boundary.
Qed.

Lemma find_boundary_pre pre sep m rest :
  nosig sep -> starts_sig m ->
  find sig (pre ++ sep ++ m ++ rest) (length pre) = Some (length pre + length sep).
Proof. intros Hn Hm. rewrite find_app_pre. now apply find_from_boundary. Qed.

Lemma find_nosig_pre pre sep :
  nosig sep -> find sig (pre ++ sep) (length pre) = None.
Proof. intros Hn. rewrite find_app_pre. now apply find_from_none. Qed.

(* bytes without a 'B' in front of a signature-free string: still signature-free *)
Lemma nosig_app_noB t sp : ~ In 66%N t -> nosig sp -> nosig (t ++ sp).
Proof.
  induction t as [|x t IH]; intros Ht Hs; [exact Hs|].
  intros (a & b & E). destruct a as [|y a]; cbn in E.
  - injection E as -> _. apply Ht. now left.
  - injection E as _ E. apply IH; [intros Hin; apply Ht; now right|exact Hs|].
    now exists a, b.
Qed.
