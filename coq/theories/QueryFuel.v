(* QueryFuel.v — C16: fuel monotonicity of the query model, for EVERY path (descendant
   steps included): once the fuelled filters return anything but EFuel, more fuel returns
   the same (Ok results and errors alike). *)
From PBK Require Import Base Descr Walk Wire PySlice PathParser Query.
From Coq Require Import ZifyBool ZifyNat ZifyN.

(* [r'] refines [r]: equal unless [r] ran out of fuel *)
Definition le_res {A} (r r' : result A) : Prop := r = Err EFuel \/ r = r'.

Lemma le_res_refl {A} (r : result A) : le_res r r.
Proof. right. reflexivity. Qed.

Lemma le_res_trans {A} (a b c : result A) : le_res a b -> le_res b c -> le_res a c.
Proof. intros [-> | ->] H; [left; reflexivity|exact H]. Qed.

Lemma le_res_eq {A} (r r' : result A) : le_res r r' -> r <> Err EFuel -> r' = r.
Proof. intros [H|H] Hn; [contradiction|symmetry; exact H]. Qed.

Lemma bind_mono {A B} (r r' : result A) (f f' : A -> result B) :
  le_res r r' -> (forall a, le_res (f a) (f' a)) -> le_res (bind r f) (bind r' f').
Proof.
  intros [-> | ->] Hf; [left; reflexivity|]. destruct r' as [a|e]; cbn [bind]; [apply Hf|apply le_res_refl].
Qed.

Lemma fold_mono {A B} (step step' : result A -> B -> result A) l :
  (forall acc acc' x, le_res acc acc' -> le_res (step acc x) (step' acc' x)) ->
  forall acc acc', le_res acc acc' -> le_res (fold_left step l acc) (fold_left step' l acc').
Proof.
  intros H. induction l as [|x l IH]; intros acc acc' Ha; cbn [fold_left]; [exact Ha|]. apply IH, H, Ha.
Qed.

Lemma concat_mono {A} (g g' : A -> result (list qres)) ns :
  (forall x, le_res (g x) (g' x)) -> le_res (concat_res (map g ns)) (concat_res (map g' ns)).
Proof.
  intros H. unfold concat_res. generalize (le_res_refl (@Ok (list qres) [])).
  generalize (@Ok (list qres) []) at 1 3. generalize (@Ok (list qres) []).
  induction ns as [|x ns IH]; intros acc' acc Ha; cbn [map fold_left]; [exact Ha|].
  apply IH. apply bind_mono; [exact Ha|]. intros a. apply bind_mono; [apply H|]. intros y. apply le_res_refl.
Qed.

Section F.
Context (attrs : list attr) (labels : list (list char)).
Local Notation fsub := (filter_sub attrs labels).
Local Notation fdesc := (filter_desc attrs labels).
Local Notation fkind := (filter_kind attrs labels).
Local Notation ffe := (filter_for_entities attrs labels).
Local Notation nm := (node_matches attrs labels).

Definition RF := qn -> list comp -> result (list qres).
Definition mono2 (F F' : RF) : Prop := forall n cs, le_res (F n cs) (F' n cs).

(* the body of filter_kind (S k), the recursive calls abstracted *)
Definition kind_body (FS FD : RF) (child : bool) (n : qn) (cs : list comp) : result (list qres) :=
  match cs with
  | [] => Err EIndex
  | c :: rest =>
      let proceed (ns : list qn) : result (list qres) :=
        match rest with
        | [] => Ok (map RNode ns)
        | _ => concat_res (map (fun x => FS x rest) ns)
        end in
      let descend (ns : list qn) : result (list qres) :=
        concat_res (map (fun x =>
          let m := nm x c in
          if (m =? 2)%N then FD x cs
          else if (m =? 1)%N then proceed [x]
          else Ok []) ns) in
      let continue_with (ns : list qn) : result (list qres) :=
        match ns with
        | [] => Ok []
        | _ => if (c_sep c =? SEP_DESCEND)%N then descend ns else proceed ns
        end in
      if child then
        if negb (has_members n) then Err EQuery else
        match n with
        | QRep _ _ nmem _ ms =>
            let mem := members_of n in
            match mem with
            | [] => Ok []
            | _ =>
              let* first := ffe (firstn nmem mem) c in
              let idxs := map fst first in
              match idxs with
              | [] => Ok []
              | _ =>
                let per_rep (ch : list qn) : result (list qres) :=
                  let sub := flat_map (fun i => match nth_error ch i with Some x => [x] | None => [] end) idxs in
                  if (c_sep c =? SEP_DESCEND)%N then descend sub else proceed sub in
                let* env := fold_left (fun acc ch =>
                              let* a := acc in let* r := per_rep ch in
                              Ok (match r with [] => a | _ => a ++ [RList r] end))
                            (chunk (S (length mem)) nmem mem) (Ok []) in
                Ok (match env with [] => [] | _ => [RList env] end)
              end
            end
        | _ =>
            let* sel := ffe (members_of n) c in
            continue_with (map snd sel)
        end
      else
        if negb (has_attributes attrs n || has_factor n) then Err EQuery else
        let* f := (match n with
                   | QRep true _ _ fi _ => let* s := ffe [QV fi] c in Ok (map snd s)
                   | _ => Ok []
                   end) in
        let* a := (match n with
                   | QV i => if has_attributes attrs n
                             then let* s := ffe (map QV (Query.attrs_of attrs i)) c in Ok (map snd s)
                             else Ok []
                   | _ => Ok []
                   end) in
        continue_with (f ++ a)
  end.

Lemma fkind_eq k child n cs : fkind (S k) child n cs = kind_body (fsub k) (fdesc k) child n cs.
Proof. reflexivity. Qed.

Lemma fsub_eq k n cs : fsub (S k) n cs =
  match cs with
  | [] => Err EIndex
  | c :: _ => if (c_sep c =? SEP_CHILD)%N then fkind k true n cs
              else if (c_sep c =? SEP_ATTRIB)%N then fkind k false n cs else fdesc k n cs
  end.
Proof. reflexivity. Qed.

Lemma fdesc_eq k n cs : fdesc (S k) n cs =
  if negb (has_members n || has_attributes attrs n || has_factor n) then Err EQuery else
  match cs with
  | [] => Err EIndex
  | c :: rest =>
      let* a := (if has_members n then fkind k true n cs else Ok []) in
      let* b := (if has_attributes attrs n || has_factor n then fkind k false n cs else Ok []) in
      Ok (a ++ b)
  end.
Proof. reflexivity. Qed.

Lemma kind_body_mono FS FS' FD FD' : mono2 FS FS' -> mono2 FD FD' ->
  forall child n cs, le_res (kind_body FS FD child n cs) (kind_body FS' FD' child n cs).
Proof.
  intros HS HD child n cs. unfold kind_body. destruct cs as [|c rest]; [apply le_res_refl|]. cbv zeta.
  assert (Hproceed : forall ns,
    le_res (match rest with [] => Ok (map RNode ns) | _ => concat_res (map (fun x => FS x rest) ns) end)
           (match rest with [] => Ok (map RNode ns) | _ => concat_res (map (fun x => FS' x rest) ns) end)).
  { intros ns. destruct rest; [apply le_res_refl|]. apply concat_mono. intros x. apply HS. }
  assert (Hdescend : forall ns,
    le_res (concat_res (map (fun x => if (nm x c =? 2)%N then FD x (c :: rest)
                                      else if (nm x c =? 1)%N
                                           then match rest with [] => Ok (map RNode [x]) | _ => concat_res (map (fun x => FS x rest) [x]) end
                                           else Ok []) ns))
           (concat_res (map (fun x => if (nm x c =? 2)%N then FD' x (c :: rest)
                                      else if (nm x c =? 1)%N
                                           then match rest with [] => Ok (map RNode [x]) | _ => concat_res (map (fun x => FS' x rest) [x]) end
                                           else Ok []) ns))).
  { intros ns. apply concat_mono. intros x. destruct (nm x c =? 2)%N; [apply HD|].
    destruct (nm x c =? 1)%N; [apply Hproceed|apply le_res_refl]. }
  destruct child.
  - destruct (negb (has_members n)); [apply le_res_refl|].
    destruct n as [i|id|id ms|dl id nmem f ms|ms].
    1,2,3,5: (apply bind_mono; [apply le_res_refl|]; intros sel; destruct (map snd sel); [apply le_res_refl|];
              destruct (c_sep c =? SEP_DESCEND)%N; [apply Hdescend|apply Hproceed]).
    destruct (members_of _) as [|m0 mem]; [apply le_res_refl|].
    apply bind_mono; [apply le_res_refl|]. intros first. destruct (map fst first) as [|i0 idxs]; [apply le_res_refl|].
    apply bind_mono; [|intros env; apply le_res_refl].
    apply fold_mono; [|apply le_res_refl]. intros acc acc' ch Ha.
    apply bind_mono; [exact Ha|]. intros a. apply bind_mono; [|intros r; apply le_res_refl].
    destruct (c_sep c =? SEP_DESCEND)%N; [apply Hdescend|apply Hproceed].
  - destruct (negb (has_attributes attrs n || has_factor n)); [apply le_res_refl|].
    apply bind_mono; [apply le_res_refl|]. intros f. apply bind_mono; [apply le_res_refl|]. intros a.
    destruct (f ++ a); [apply le_res_refl|].
    destruct (c_sep c =? SEP_DESCEND)%N; [apply Hdescend|apply Hproceed].
Qed.

(* one more unit of fuel *)
Lemma filter_fuel_step : forall k,
  mono2 (fsub k) (fsub (S k)) /\ mono2 (fdesc k) (fdesc (S k)) /\
  (forall child, mono2 (fkind k child) (fkind (S k) child)).
Proof.
  induction k as [|k (IHs & IHd & IHk)].
  - repeat split; intros; intros ? ?; left; reflexivity.
  - assert (Hk : forall child, mono2 (fkind (S k) child) (fkind (S (S k)) child)).
    { intros child n cs. rewrite !fkind_eq. apply kind_body_mono; assumption. }
    repeat split.
    + intros n cs. rewrite !fsub_eq. destruct cs as [|c rest]; [apply le_res_refl|].
      destruct (c_sep c =? SEP_CHILD)%N; [apply IHk|]. destruct (c_sep c =? SEP_ATTRIB)%N; [apply IHk|apply IHd].
    + intros n cs. rewrite !fdesc_eq. destruct (negb _); [apply le_res_refl|].
      destruct cs as [|c rest]; [apply le_res_refl|].
      apply bind_mono; [destruct (has_members n); [apply IHk|apply le_res_refl]|]. intros a.
      apply bind_mono; [destruct (has_attributes attrs n || has_factor n); [apply IHk|apply le_res_refl]|].
      intros b. apply le_res_refl.
    + exact Hk.
Qed.

Lemma filter_sub_fuel_le k k' n cs : (k <= k')%nat -> le_res (fsub k n cs) (fsub k' n cs).
Proof.
  induction 1 as [|k' _ IH]; [apply le_res_refl|].
  eapply le_res_trans; [exact IH|]. apply (proj1 (filter_fuel_step k')).
Qed.

(* more fuel never changes a result (Ok or error) other than EFuel *)
Theorem filter_sub_fuel_mono k k' n cs :
  (k <= k')%nat -> fsub k n cs <> Err EFuel -> fsub k' n cs = fsub k n cs.
Proof. intros H. apply le_res_eq. apply filter_sub_fuel_le. exact H. Qed.

Lemma values_of_fuel_step : forall k r, le_res (values_of k r) (values_of (S k) r).
Proof.
  induction k as [|k IH]; intros r; [left; reflexivity|].
  destruct r as [n|l]; [apply le_res_refl|].
  change (values_of (S k) (RList l)) with
    (let* vs := fold_left (fun acc x => let* a := acc in let* v := values_of k x in Ok (a ++ [v])) l (Ok []) in Ok (VList vs)).
  change (values_of (S (S k)) (RList l)) with
    (let* vs := fold_left (fun acc x => let* a := acc in let* v := values_of (S k) x in Ok (a ++ [v])) l (Ok []) in Ok (VList vs)).
  apply bind_mono; [|intros vs; apply le_res_refl].
  apply fold_mono; [|apply le_res_refl]. intros acc acc' x Ha.
  apply bind_mono; [exact Ha|]. intros a. apply bind_mono; [apply IH|]. intros v. apply le_res_refl.
Qed.

Lemma values_of_fuel_le k k' r : (k <= k')%nat -> le_res (values_of k r) (values_of k' r).
Proof.
  induction 1 as [|k' _ IH]; [apply le_res_refl|]. eapply le_res_trans; [exact IH|apply values_of_fuel_step].
Qed.

Theorem process_one_subset_fuel_mono k k' nodes p :
  (k <= k')%nat -> process_one_subset attrs labels k nodes p <> Err EFuel ->
  process_one_subset attrs labels k' nodes p = process_one_subset attrs labels k nodes p.
Proof.
  intros H. apply le_res_eq. unfold process_one_subset.
  apply bind_mono; [apply filter_sub_fuel_le; exact H|]. intros rs.
  apply fold_mono; [|apply le_res_refl]. intros acc acc' x Ha.
  apply bind_mono; [exact Ha|]. intros a. apply bind_mono; [apply values_of_fuel_le; exact H|].
  intros v. apply le_res_refl.
Qed.

End F.
