(* FramePrefixEnc.v — truncation of ENCODED messages (C12): no proper prefix of
   a message produced by the encoder decodes; the failure is a library error;
   metadata-only decoding tolerates exactly the loss of section 5. *)
From PBK Require Import Base Bits BitsProofs Frame FrameProofs FrameRoundtrip FrameExamples MdQuery MdQueryProofs FramePrefix.
From Coq Require Import ZifyBool ZifyNat ZifyN.

Lemma sections_nbits_app a b : sections_nbits (a ++ b) = (sections_nbits a + sections_nbits b)%nat.
Proof. induction a as [|s a IH]; cbn [app sections_nbits]; lia. Qed.

Lemma sec_matches_nbits a b : Forall2 sec_matches a b -> sections_nbits b = sections_nbits a.
Proof.
  induction 1 as [|x y a b Hm _ IH]; [reflexivity|]. cbn [sections_nbits].
  destruct Hm as (_ & _ & Hn & _). lia.
Qed.

Lemma definitions_index5 c : In c definitions -> s_index c = 5%N -> c = section5.
Proof.
  unfold definitions. cbn [In]. intros H He.
  repeat (destruct H as [<-|H]; [try discriminate; try reflexivity|]). contradiction.
Qed.

Lemma get_configuration_5 props : get_configuration definitions props 5 = Ok section5.
Proof.
  destruct (get_configuration definitions props 5) as [c|e] eqn:E.
  - destruct (get_configuration_in _ _ _ _ E) as [Hin Hidx]. f_equal. apply definitions_index5; assumption.
  - exfalso. unfold get_configuration in E.
    change (negb (existsb (fun c => (s_index c =? 5)%N) definitions)) with false in E. cbv iota in E.
    change (config_for definitions 5 0) with (Some section5) in E. cbv iota in E.
    destruct (config_for definitions 5 (section_edition props)); discriminate.
Qed.

Lemma configure_5 props info ign :
  configure_section definitions props 5 info ign = Ok (Some (transform info ign section5)).
Proof.
  unfold configure_section. rewrite get_configuration_5. cbn [bind]. destruct info, ign; reflexivity.
Qed.

(* section 5 (any transformation of it) is 32 bits and ends the message *)
Lemma decode_section5 dd info ign props r sec props' r' :
  decode_section dd (transform info ign section5) props r = Ok (sec, props', r') ->
  sec_nbits sec = 32%nat /\ s_end (transform info ign section5) = true.
Proof.
  intros H. split; [|destruct info, ign; reflexivity].
  assert (Hp : exists ex, s_params (transform info ign section5) = [mkP Nstop_signature 32 TBytes ex false])
    by (destruct info, ign; eexists; reflexivity).
  destruct Hp as (ex & Hp). unfold decode_section in H. rewrite Hp in H.
  cbn [decode_params p_type p_nbits] in H. change (32 =? 0)%Z with false in H. cbv iota in H.
  apply bind_ok in H as ([[env props1] r1] & H1 & H).
  apply bind_ok in H1 as ([v ra] & Hv & H1). apply bind_ok in H1 as (u & _ & H1). injection H1 as <- <- <-.
  change (has_param Nsection_length [mkP Nstop_signature 32 TBytes ex false]) with false in H. cbn [bind] in H.
  injection H as <- <- <-. cbn [sec_nbits].
  unfold read_typed in Hv. apply bind_ok in Hv as ([l rb] & Hb & Hv). injection Hv as <- <-.
  unfold read_bytes in Hb. change (32 / 8 <? 0)%Z with false in Hb. cbv iota in Hb.
  apply bind_ok in Hb as ([b rc] & Ht & Hb). injection Hb as <- <-.
  apply take_bits_ok in Ht as [-> Lb]. rewrite app_length, Lb. change (Z.to_nat (32 / 8)) with 4%nat. lia.
Qed.

Section InfoNbits.
Variable decode_data : list (pname * pvalue) -> reader -> result (bits * reader).
Hypothesis decode_data_prefix : forall p r b r', decode_data p r = Ok (b, r') -> r = b ++ r'.
Hypothesis decode_data_suffix : forall p r b r' s,
  decode_data p r = Ok (b, r') -> decode_data p (r ++ s) = Ok (b, r' ++ s).

(* whenever the full decode succeeds, the metadata-only decode succeeds and has
   consumed everything but the 32 bits of section 5 *)
Lemma info_from_full_nbits : forall sig ign s m,
  decode_message decode_data sig false ign s = Ok m ->
  exists mi, decode_message decode_data sig true ign s = Ok mi /\
    sections_nbits (m_sections m) = (sections_nbits (m_sections mi) + 32)%nat.
Proof.
  intros sig ign s m. unfold decode_message, decode_message_with. intros H.
  apply bind_ok in H as (idx & Hidx & H). rewrite Hidx. cbn [bind].
  apply bind_ok in H as ([[secs props] r'] & Hs & H). apply ok_inj in H. subst m. unfold m_sections.
  change section_indices with ([0;1;2;3]%N ++ [4;5;6]%N) in Hs |- *.
  rewrite decode_sections_split in Hs |- *.
  assert (Hn4 : Forall (fun i => i <> 4%N) [0;1;2;3]%N) by (repeat constructor; discriminate).
  rewrite (run_info_same decode_data ign _ Hn4).
  destruct (run decode_data false ign [0;1;2;3]%N [] [] (bits_of_bytes (skipn idx s)))
    as [[[[ended secs1] props1] r1]|e] eqn:Erun; [|discriminate].
  assert (H0123 : Forall (fun i => i <> 4%N /\ i <> 5%N) [0;1;2;3]%N) by (repeat constructor; discriminate).
  destruct (run_indices decode_data decode_data_prefix decode_data_suffix false ign _ H0123 _ _ _ _ _ _ _ Erun)
    as (-> & new0 & E0 & _). cbn [app] in E0. subst secs1.
  cbn [bind] in Hs |- *. cbv iota in Hs |- *.
  rewrite decode_sections_cons in Hs |- *. rewrite configure_4 in Hs |- *. cbn [bind] in Hs |- *.
  rewrite transform_full4 in Hs. rewrite transform_info4.
  apply bind_ok in Hs as ([[sec4 props2] r2] & H4 & Hs).
  destruct (section4_info_from_full decode_data decode_data_prefix decode_data_suffix _ _ _ _ _ H4)
    as (sec4i & H4i & _ & _ & Hn4').
  rewrite H4i. cbn [bind]. change (s_end info4) with true. change (s_end section4) with false in Hs. cbv iota in Hs |- *.
  rewrite decode_sections_cons, configure_5 in Hs. cbn [bind] in Hs.
  apply bind_ok in Hs as ([[sec5 props3] r3] & H5 & Hs).
  destruct (decode_section5 _ _ _ _ _ _ _ _ H5) as [Hn5 He5]. rewrite He5 in Hs. injection Hs as <- <- <-.
  eexists. split; [reflexivity|]. cbn [m_sections].
  rewrite !sections_nbits_app. cbn [sections_nbits]. lia.
Qed.

End InfoNbits.

Section EncodedTruncation.
Variable decode_data : list (pname * pvalue) -> reader -> result (bits * reader).
Hypothesis decode_data_prefix : forall p r b r', decode_data p r = Ok (b, r') -> r = b ++ r'.
Hypothesis decode_data_suffix : forall p r b r' s,
  decode_data p r = Ok (b, r') -> decode_data p (r ++ s) = Ok (b, r' ++ s).
Hypothesis decode_data_cuts : forall p, cuts (decode_data p).

Lemma message_bytes_le_nbits : forall sig info ign s m,
  decode_message decode_data sig info ign s = Ok m ->
  (8 * length (m_bytes m) <= sections_nbits (m_sections m))%nat.
Proof.
  intros sig info ign s m H.
  destruct (decode_span decode_data decode_data_prefix decode_data_suffix _ _ _ _ _ H) as (_ & b & a & _ & Hn & _).
  lia.
Qed.

(* the decode of the encoder's output, with what message_cut needs to know *)
Lemma encoded_decodes : forall ign json m,
  encode_message ign json = Ok m ->
  Forall sec_fits (m_sections m) -> Forall desc_fill_ok (m_sections m) ->
  data_ok decode_data [] (m_sections m) ->
  exists m', decode_message decode_data (Some sig_BUFR) false false (m_bytes m) = Ok m' /\
    m_bytes m' = m_bytes m /\
    sections_nbits (m_sections m') = (8 * length (m_bytes m))%nat /\
    sig_index (Some sig_BUFR) (m_bytes m) = 0%nat /\ (12 <= length (m_bytes m))%nat.
Proof.
  intros ign json m Henc Hfits Hdfs Hdat.
  destruct (frame_roundtrip decode_data ign json m [] Henc Hfits Hdfs Hdat) as (m' & Hdec & Hb & Hsm & _).
  rewrite app_nil_r in Hdec. exists m'. split; [exact Hdec|]. split; [exact Hb|].
  destruct (total_length_exact _ _ _ Henc) as (len & rest & sec0 & others & _ & _ & _ & _ & _ & H8).
  split; [rewrite (sec_matches_nbits _ _ Hsm); lia|].
  destruct (decode_span decode_data decode_data_prefix decode_data_suffix _ _ _ _ _ Hdec)
    as (_ & before & after & Hs & _ & Hfind).
  split.
  - unfold sig_index. rewrite Hfind. apply (f_equal (@length byte)) in Hs. rewrite !app_length, Hb in Hs. lia.
  - destruct (encode_message_shape _ _ _ Henc) as (l & ed & e0 & l5 & s0 & mid & s5 & Hsh). cbv zeta in Hsh.
    destruct Hsh as (_ & _ & _ & _ & _ & _ & _ & Hn). lia.
Qed.

(* C12, message level: NO PROPER PREFIX of an encoded message decodes, and the
   failure is a library error — every truncation point k < |message|, every
   edition, section 2 present or not, lengths recomputed or honoured *)
Theorem encoded_prefix_fails : forall ign json m k,
  encode_message ign json = Ok m ->
  Forall sec_fits (m_sections m) -> Forall desc_fill_ok (m_sections m) ->
  data_ok decode_data [] (m_sections m) ->
  (k < length (m_bytes m))%nat ->
  lib_fail (decode_message decode_data (Some sig_BUFR) false false (firstn k (m_bytes m))).
Proof.
  intros ign json m k Henc Hfits Hdfs Hdat Hk.
  destruct (encoded_decodes _ _ _ Henc Hfits Hdfs Hdat) as (m' & Hdec & Hb & Hn & Hsi & _).
  pose proof (message_cut decode_data decode_data_cuts _ _ _ _ _ Hdec k) as C.
  assert (Hh : holds_message (Some sig_BUFR) (m_bytes m) m' k = false).
  { unfold holds_message. rewrite Hsi, Hn. apply andb_false_iff. right. apply Nat.leb_gt. lia. }
  rewrite Hh in C. exact C.
Qed.

(* metadata-only decoding reads up to the declared end of section 4 and never
   looks at section 5: it succeeds — with one and the same result — on exactly
   the prefixes that keep all but (part of) the last four octets, and fails
   with a library error on every shorter one *)
Theorem encoded_info_prefix : forall ign json m,
  encode_message ign json = Ok m ->
  Forall sec_fits (m_sections m) -> Forall desc_fill_ok (m_sections m) ->
  data_ok decode_data [] (m_sections m) ->
  exists mi,
    decode_message decode_data (Some sig_BUFR) true false (m_bytes m) = Ok mi /\
    sections_nbits (m_sections mi) = (8 * (length (m_bytes m) - 4))%nat /\
    forall k,
      ((length (m_bytes m) - 4 <= k)%nat ->
         decode_message decode_data (Some sig_BUFR) true false (firstn k (m_bytes m)) = Ok mi) /\
      ((k < length (m_bytes m) - 4)%nat ->
         lib_fail (decode_message decode_data (Some sig_BUFR) true false (firstn k (m_bytes m)))).
Proof.
  intros ign json m Henc Hfits Hdfs Hdat.
  destruct (encoded_decodes _ _ _ Henc Hfits Hdfs Hdat) as (m' & Hdec & Hb & Hn & Hsi & H12).
  destruct (info_from_full_nbits decode_data decode_data_prefix decode_data_suffix _ _ _ _ Hdec) as (mi & Hi & Hni).
  exists mi. split; [exact Hi|]. split; [lia|].
  intros k. pose proof (message_cut decode_data decode_data_cuts _ _ _ _ _ Hi k) as C.
  unfold holds_message in C. rewrite Hsi in C. cbn [sig_len] in C. change (length sig_BUFR) with 4%nat in C.
  split.
  - intros Hk. destruct (Nat.leb_spec (0 + 4) k); [|lia].
    destruct (Nat.leb_spec (8 * 0 + sections_nbits (m_sections mi)) (8 * k)); [|lia]. exact C.
  - intros Hk. destruct (Nat.leb_spec (8 * 0 + sections_nbits (m_sections mi)) (8 * k)); [lia|].
    rewrite andb_false_r in C. exact C.
Qed.

End EncodedTruncation.

(* ------------------------------------------------------------------------ *)
(* executable forms of the hypotheses                                        *)
(* ------------------------------------------------------------------------ *)
Definition sec_fitsb (s : section) : bool := fits_layout [] (sec_params s) (map snd (sec_values s)).

Lemma sec_fitsb_sound l : forallb sec_fitsb l = true -> Forall sec_fits l.
Proof. intros H. apply Forall_forall. intros s Hs. rewrite forallb_forall in H. exact (H s Hs). Qed.

Lemma desc_fill_okb_all l : forallb desc_fill_okb l = true -> Forall desc_fill_ok l.
Proof.
  intros H. apply Forall_forall. intros s Hs. rewrite forallb_forall in H.
  apply desc_fill_okb_sound, H, Hs.
Qed.

(* the template decoder, run on exactly the data bits the encoder was given
   (with the attributes of the sections before), consumes all of them *)
Definition data_ok_secb (dd : list (pname * pvalue) -> reader -> result (bits * reader))
    (props : list (pname * pvalue)) (s : section) : bool :=
  match rev (sec_params s), rev (map snd (sec_values s)) with
  | t :: rfx, PData b :: rvfx =>
      match p_type t with
      | TData => match dd (add_props (rev rfx) (rev rvfx) props) b with
                 | Ok (_, []) => true
                 | _ => false
                 end
      | _ => true
      end
  | _, _ => true
  end.

Fixpoint data_okb (dd : list (pname * pvalue) -> reader -> result (bits * reader))
    (props : list (pname * pvalue)) (new : list section) : bool :=
  match new with
  | [] => true
  | s :: r => data_ok_secb dd props s &&
              data_okb dd (add_props (sec_params s) (map snd (sec_values s)) props) r
  end.

Section BoolForms.
Variable decode_data : list (pname * pvalue) -> reader -> result (bits * reader).
Hypothesis decode_data_prefix : forall p r b r', decode_data p r = Ok (b, r') -> r = b ++ r'.
Hypothesis decode_data_suffix : forall p r b r' s,
  decode_data p r = Ok (b, r') -> decode_data p (r ++ s) = Ok (b, r' ++ s).

Lemma data_ok_secb_sound props s : data_ok_secb decode_data props s = true -> data_ok_sec decode_data props s.
Proof.
  unfold data_ok_secb, data_ok_sec. intros H fx t vfx b Hp Ht Hv rest.
  rewrite Hp, Hv, !rev_app_distr in H. cbn [rev app] in H. rewrite Ht, !rev_involutive in H.
  destruct (decode_data (add_props fx vfx props) b) as [[b' r']|e] eqn:E; [|discriminate].
  destruct r'; [|discriminate].
  pose proof (decode_data_prefix _ _ _ _ E) as Eb. rewrite app_nil_r in Eb. subst b'.
  apply (decode_data_suffix _ _ _ _ rest) in E. exact E.
Qed.

Lemma data_okb_sound : forall new props, data_okb decode_data props new = true -> data_ok decode_data props new.
Proof.
  induction new as [|s new IH]; intros props H; [exact I|].
  cbn [data_okb] in H. apply andb_true_iff in H as [H1 H2]. split; [apply data_ok_secb_sound, H1|apply IH, H2].
Qed.
End BoolForms.

(* ------------------------------------------------------------------------ *)
(* the template-decoder stub of the correspondence runs                      *)
(* ------------------------------------------------------------------------ *)
Lemma stub_dd_cuts : forall p, cuts (stub_dd p).
Proof.
  intros p. unfold stub_dd. destruct (existsb _ _); [apply cuts_err|apply cuts_take_bits].
Qed.

Theorem message_cut_stub : forall sig info ign s m,
  decode_message stub_dd sig info ign s = Ok m ->
  forall k,
    if holds_message sig s m k
    then decode_message stub_dd sig info ign (firstn k s) = Ok m
    else lib_fail (decode_message stub_dd sig info ign (firstn k s)).
Proof. exact (message_cut stub_dd stub_dd_cuts). Qed.

Theorem encoded_prefix_fails_stub : forall ign json m k,
  encode_message ign json = Ok m ->
  forallb sec_fitsb (m_sections m) = true -> forallb desc_fill_okb (m_sections m) = true ->
  data_okb stub_dd [] (m_sections m) = true ->
  (k < length (m_bytes m))%nat ->
  lib_fail (decode_message stub_dd (Some sig_BUFR) false false (firstn k (m_bytes m))).
Proof.
  intros ign json m k Henc Hf Hd Hdat Hk.
  apply (encoded_prefix_fails stub_dd stub_dd_prefix stub_dd_suffix stub_dd_cuts ign json m k Henc);
    [apply sec_fitsb_sound, Hf|apply desc_fill_okb_all, Hd|
     apply (data_okb_sound stub_dd stub_dd_prefix stub_dd_suffix), Hdat|exact Hk].
Qed.

Theorem encoded_info_prefix_stub : forall ign json m,
  encode_message ign json = Ok m ->
  forallb sec_fitsb (m_sections m) = true -> forallb desc_fill_okb (m_sections m) = true ->
  data_okb stub_dd [] (m_sections m) = true ->
  exists mi,
    decode_message stub_dd (Some sig_BUFR) true false (m_bytes m) = Ok mi /\
    sections_nbits (m_sections mi) = (8 * (length (m_bytes m) - 4))%nat /\
    forall k,
      ((length (m_bytes m) - 4 <= k)%nat ->
         decode_message stub_dd (Some sig_BUFR) true false (firstn k (m_bytes m)) = Ok mi) /\
      ((k < length (m_bytes m) - 4)%nat ->
         lib_fail (decode_message stub_dd (Some sig_BUFR) true false (firstn k (m_bytes m)))).
Proof.
  intros ign json m Henc Hf Hd Hdat.
  apply (encoded_info_prefix stub_dd stub_dd_prefix stub_dd_suffix stub_dd_cuts ign json m Henc);
    [apply sec_fitsb_sound, Hf|apply desc_fill_okb_all, Hd|
     apply (data_okb_sound stub_dd stub_dd_prefix stub_dd_suffix), Hdat].
Qed.

(* ------------------------------------------------------------------------ *)
(* non-vacuity: concrete messages (edition 3 with section 2; edition 4        *)
(* without; edition 2), every truncation point computed                       *)
(* ------------------------------------------------------------------------ *)
Definition lib_failb {A} (x : result A) : bool :=
  match x with Err e => is_lib_err e | Ok _ => false end.

Lemma lib_failb_iff {A} (x : result A) : lib_failb x = true <-> lib_fail x.
Proof.
  unfold lib_failb, lib_fail. destruct x as [a|e]; split.
  - discriminate.
  - intros (e & E & _). discriminate.
  - intros H. exists e. auto.
  - intros (e' & E & H). injection E as ->. exact H.
Qed.

(* edition 4, no section 2, two subsets of two 031031: 4 data bits *)
Definition ex4_json : list (list pvalue) :=
  [[PBytes sig_BUFR; PUint 0; PUint 4];
   [PUint 0; PUint 0; PUint 7; PUint 0; PUint 0; PBool false; PBin (zeros 7); PUint 2; PUint 0; PUint 0;
    PUint 33; PUint 0; PUint 2024; PUint 5; PUint 17; PUint 12; PUint 30; PUint 0];
   [PUint 0; PBin (zeros 8); PUint 2; PBool true; PBool false; PBin (zeros 6); PDescs [31031; 31031]];
   [PUint 0; PBin (zeros 8); PData [true; false; true; true]];
   [PBytes sig_7777]]%Z.

(* edition 2, section 2 present *)
Definition ex2_json : list (list pvalue) :=
  [[PBytes sig_BUFR; PUint 0; PUint 2];
   [PUint 0; PUint 0; PUint 98; PUint 0; PBool true; PBin (zeros 7); PUint 2; PUint 0;
    PUint 33; PUint 0; PUint 24; PUint 5; PUint 17; PUint 12; PUint 30; PUint 0];
   [PUint 0; PBin (zeros 8); PBin [true; true; false]];
   [PUint 0; PBin (zeros 8); PUint 1; PBool true; PBool false; PBin (zeros 6); PDescs [31031]];
   [PUint 0; PBin (zeros 8); PData [true]];
   [PBytes sig_7777]]%Z.

Definition ex_hyps (json : list (list pvalue)) : bool :=
  match encode_message true json with
  | Ok m => forallb sec_fitsb (m_sections m) && forallb desc_fill_okb (m_sections m) &&
            data_okb stub_dd [] (m_sections m)
  | Err _ => false
  end.

Definition ex_all_prefixes_fail (json : list (list pvalue)) : bool :=
  match encode_message true json with
  | Ok m => forallb (fun k => lib_failb (decode_message stub_dd (Some sig_BUFR) false false (firstn k (m_bytes m))))
                    (seq 0 (length (m_bytes m))) &&
            is_ok (decode_message stub_dd (Some sig_BUFR) false false (m_bytes m))
  | Err _ => false
  end.

Definition ex_info_prefixes (json : list (list pvalue)) : bool :=
  match encode_message true json with
  | Ok m =>
      let L := length (m_bytes m) in
      forallb (fun k => lib_failb (decode_message stub_dd (Some sig_BUFR) true false (firstn k (m_bytes m))))
              (seq 0 (L - 4)) &&
      forallb (fun k => is_ok (decode_message stub_dd (Some sig_BUFR) true false (firstn k (m_bytes m))))
              (seq (L - 4) 5)
  | Err _ => false
  end.

Example truncation_nonvacuous :
  ex_hyps (ex_json 0 0 0 0) = true /\ ex_hyps ex4_json = true /\ ex_hyps ex2_json = true /\
  ex_all_prefixes_fail (ex_json 0 0 0 0) = true /\ ex_all_prefixes_fail ex4_json = true /\
  ex_all_prefixes_fail ex2_json = true /\
  ex_info_prefixes (ex_json 0 0 0 0) = true /\ ex_info_prefixes ex4_json = true /\
  ex_info_prefixes ex2_json = true.
Proof. repeat split; vm_compute; reflexivity. Qed.
