(* SpecProofs.v — the encoder writes exactly the canonical layout (C02). *)
From PBK Require Import Base Bits BitsProofs Descr Walk Coder WalkSim CoderSim Float53 Decode Encode Spec.
From Coq Require Import ZifyBool ZifyNat ZifyN.

Lemma write_fields_app fs : forall gs o,
  write_fields (fs ++ gs) o = let* o1 := write_fields fs o in write_fields gs o1.
Proof.
  induction fs as [|f fs IH]; intros gs o; cbn [app write_fields bind]; [reflexivity|].
  destruct (write_field f o); cbn [bind]; [apply IH|reflexivity].
Qed.

(* encoder state vs. layout state: same input position; the encoder's bits are
   the concatenation of the fields laid out *)
Definition Renc (e : estate) (s : sstate) : Prop :=
  e_vals e = s_vals s /\ e_idx e = s_idx s /\ e_cur e = s_cur s /\
  write_fields (s_fields s) [] = Ok (e_w e).

Lemma Renc_next e s v e1 :
  Renc e s -> next_value e = Ok (v, e1) -> exists s1, s_next s = Ok (v, s1) /\ Renc e1 s1.
Proof.
  intros (Hv & Hi & Hc & Hw) E. unfold next_value, s_next, e_cur_vals, s_cur_vals in *.
  rewrite <- Hv, <- Hi, <- Hc.
  destruct (nth_error _ _) as [x|]; [|discriminate]. injection E as <- <-.
  eexists; split; [reflexivity|]. repeat split; cbn; congruence.
Qed.

Lemma Renc_uint raw nbits e s w :
  Renc e s -> write_uint raw nbits (e_w e) = Ok w ->
  exists s1, s_uint raw nbits s = Ok s1 /\ Renc (with_w e w) s1.
Proof.
  intros (Hv & Hi & Hc & Hw) E. unfold s_uint, s_emit.
  pose proof (write_uint_exact _ _ _ _ E) as (Hw' & Hr & Hn).
  destruct (Z.leb_spec nbits 0); [lia|].
  assert (Hok : field_ok (FUint nbits raw) = true) by (cbn [field_ok]; lia).
  rewrite Hok. eexists; split; [reflexivity|]. repeat split; cbn; try assumption.
  rewrite write_fields_app, Hw. cbn [bind write_fields write_field]. rewrite E. reflexivity.
Qed.

Theorem enc_walk_layout :
  forall ms, simf (Rio Renc) (walk_list (io_handlers enc_prims) io_add_link ms)
                              (walk_list (io_handlers spec_prims) io_add_link ms).
Proof.
  apply io_walk_sim; cbn [enc_prims spec_prims p_numeric p_string p_codeflag p_constant p_new_refval p_factor p_bitmap].
  - (* numeric *)
    intros nbits scale refval e s e' HR E. unfold enc_numeric, spec_numeric in *.
    destruct (next_value e) as [[v e1]|] eqn:En; cbn [bind] in E; [|discriminate].
    destruct (Renc_next _ _ _ _ HR En) as (s1 & Es & HR1). rewrite Es. cbn [bind].
    destruct (match v with VNone => missing_for nbits | _ => scaled_int v scale refval end) as [raw|];
      cbn [bind] in E |- *; [|discriminate].
    destruct (write_uint raw nbits (e_w e1)) as [w|] eqn:Ew; cbn [bind] in E; [|discriminate].
    injection E as <-. exact (Renc_uint _ _ _ _ _ HR1 Ew).
  - (* string *)
    intros nbytes e s e' HR E. unfold enc_string, spec_string in *.
    destruct (next_value e) as [[v e1]|] eqn:En; cbn [bind] in E; [|discriminate].
    destruct (Renc_next _ _ _ _ HR En) as (s1 & Es & HR1). rewrite Es. cbn [bind].
    destruct (match v with VNone => Ok (repeat 255%N (Z.to_nat nbytes)) | VBytes b => Ok b | _ => Err EType end) as [b|];
      cbn [bind] in E |- *; [|discriminate].
    destruct (write_bytes b nbytes (e_w e1)) as [w|] eqn:Ew; cbn [bind] in E; [|discriminate].
    injection E as <-. unfold write_bytes in Ew.
    destruct (nbytes <? 0)%Z eqn:Hn; [discriminate|]. injection Ew as <-.
    destruct HR1 as (Hv & Hi & Hc & Hw).
    eexists; split; [reflexivity|]. repeat split; cbn; try assumption.
    rewrite write_fields_app, Hw. cbn [bind write_fields write_field]. unfold write_bytes.
    rewrite Hn. reflexivity.
  - (* codeflag *)
    intros nbits dn e s e' HR E. unfold enc_codeflag, spec_codeflag in *.
    destruct (next_value e) as [[v e1]|] eqn:En; cbn [bind] in E; [|discriminate].
    destruct (Renc_next _ _ _ _ HR En) as (s1 & Es & HR1). rewrite Es. cbn [bind].
    destruct (match v with VNone => missing_for nbits | VInt z => Ok z | VDyad m ex => Ok (trunc (m, ex)) | _ => Err EType end) as [raw|];
      cbn [bind] in E |- *; [|discriminate].
    destruct (write_uint raw nbits (e_w e1)) as [w|] eqn:Ew; cbn [bind] in E; [|discriminate].
    injection E as <-. exact (Renc_uint _ _ _ _ _ HR1 Ew).
  - (* constant *)
    intros z e s e' HR E. unfold enc_constant, spec_constant in *.
    destruct (next_value e) as [[v e1]|] eqn:En; cbn [bind] in E; [|discriminate].
    destruct (Renc_next _ _ _ _ HR En) as (s1 & Es & HR1). rewrite Es. cbn [bind].
    destruct (value_eq_int v z); [|discriminate]. injection E as <-. eauto.
  - (* new reference value *)
    intros nbits e s z e' HR E. unfold enc_new_refval, spec_new_refval in *.
    destruct (next_value e) as [[v e1]|] eqn:En; cbn [bind] in E; [|discriminate].
    destruct (Renc_next _ _ _ _ HR En) as (s1 & Es & HR1). rewrite Es. cbn [bind].
    destruct v as [x| | | |]; try discriminate.
    destruct (write_int x nbits (e_w e1)) as [w|] eqn:Ew; cbn [bind] in E; [|discriminate].
    injection E as <- <-. unfold write_int, write_bool in Ew. cbn [bind] in Ew.
    destruct HR1 as (Hv & Hi & Hc & Hw).
    assert (HR2 : Renc (with_w e1 (e_w e1 ++ [(x <? 0)%Z]))
                       (mkS (s_fields s1 ++ [FBool (x <? 0)%Z]) (s_vals s1) (s_idx s1) (s_cur s1))).
    { repeat split; cbn; try assumption. rewrite write_fields_app, Hw. reflexivity. }
    destruct (Renc_uint _ _ _ _ _ HR2 Ew) as (s3 & E3 & HR3).
    rewrite E3. cbn [bind]. eexists; split; [reflexivity|exact HR3].
  - (* factor *)
    intros e s n (Hv & Hi & Hc & Hw). unfold enc_factor, spec_factor, e_cur_vals, s_cur_vals.
    rewrite Hv, Hi, Hc. auto.
  - (* bitmap *)
    intros a e s bm (Hv & Hi & Hc & Hw). unfold enc_bitmap, spec_bitmap, e_cur_vals, s_cur_vals.
    rewrite Hv, Hi, Hc. auto.
Qed.

(* C02 (uncompressed): whenever the encoder accepts the values, the data bits it
   writes are exactly the concatenation of the fields of the canonical layout,
   subset after subset, and it records the same descriptors and links. *)
Theorem encode_canonical_uncompressed T vals outs w :
  encode_uncompressed T vals = Ok (outs, w) ->
  exists fs, layout T vals = Ok (outs, fs) /\ write_fields fs [] = Ok w.
Proof.
  unfold encode_uncompressed, layout. intros E.
  destruct (run_subsets enc_prims T enc_switch 0 (length vals) _ []) as [[o e]|] eqn:E1; cbn [bind] in E; [|discriminate].
  injection E as <- <-.
  assert (HR : Renc (mkE [] vals 0 0) (mkS [] vals 0 0)) by (repeat split).
  destruct (run_subsets_sim enc_prims spec_prims Renc Renc enc_switch spec_switch enc_walk_layout
              (fun i c1 c2 H => match H with conj a (conj _ (conj _ d)) => conj a (conj eq_refl (conj eq_refl d)) end)
              (fun _ _ H => H) T (length vals) 0 _ _ [] _ _ HR E1) as (s & E2 & (Hv & Hi & Hc & Hw)).
  rewrite E2. cbn [bind]. eauto.
Qed.

Corollary encode_is_canonical_bits T vals outs w :
  encode_uncompressed T vals = Ok (outs, w) -> canonical_bits T vals = Ok w.
Proof.
  intros E. destruct (encode_canonical_uncompressed _ _ _ _ E) as (fs & El & Ew).
  unfold canonical_bits. rewrite El. cbn [bind]. exact Ew.
Qed.

(* every field of the layout is within range: nothing was wrapped or clipped *)
Lemma s_emit_ok f s s' : s_emit f s = Ok s' -> field_ok f = true.
Proof. unfold s_emit. destruct (field_ok f); [reflexivity|discriminate]. Qed.

(* ---- what a field of the layout looks like ------------------------------------ *)
(* a missing numeric / code value is laid out as the all-ones pattern of the field width *)
Lemma layout_missing_all_ones nbits scale refval s s1 :
  (0 < nbits <= 64)%Z -> s_next s = Ok (VNone, s1) ->
  spec_numeric nbits scale refval s =
  Ok (mkS (s_fields s1 ++ [FUint nbits (2 ^ nbits - 1)]) (s_vals s1) (s_idx s1) (s_cur s1)).
Proof.
  intros Hn E. unfold spec_numeric. rewrite E. cbn [bind]. unfold missing_for.
  destruct (Z.ltb_spec 64 nbits); [lia|]. destruct (Z.ltb_spec nbits (-65)); [lia|].
  destruct (Z.ltb_spec nbits 0); [lia|]. cbn [bind]. unfold s_uint, s_emit.
  destruct (Z.leb_spec nbits 0); [lia|].
  assert (Hok : field_ok (FUint nbits (2 ^ nbits - 1)) = true).
  { cbn [field_ok]. assert (0 < 2 ^ nbits)%Z by (apply Z.pow_pos_nonneg; lia). lia. }
  rewrite Hok. reflexivity.
Qed.

(* fields are written most significant bit first; the all-ones field is all ones *)
Lemma uint_field_bits w v o : field_ok (FUint w v) = true ->
  write_field (FUint w v) o = Ok (o ++ to_bits (Z.to_nat w) (Z.to_N v)).
Proof.
  cbn [field_ok write_field]. intros H. unfold write_uint.
  destruct (Z.leb_spec w 0); [lia|]. destruct (Z.ltb_spec v 0); [lia|].
  destruct (Z.leb_spec (2 ^ w) v); [lia|]. reflexivity.
Qed.

Lemma missing_field_bits w o : (0 < w)%Z ->
  write_field (FUint w (2 ^ w - 1)) o = Ok (o ++ ones (Z.to_nat w)).
Proof.
  intros Hw. rewrite uint_field_bits.
  - f_equal. f_equal. rewrite <- to_bits_ones. f_equal.
    rewrite Z2N.inj_sub by lia. rewrite Z2N.inj_pow by lia. f_equal. f_equal. lia.
  - cbn [field_ok]. assert (0 < 2 ^ w)%Z by (apply Z.pow_pos_nonneg; lia). lia.
Qed.

(* strings are space padded / truncated to the field width *)
Lemma bytes_field_bits n b o : (0 <= n)%Z ->
  write_field (FBytes n b) o = Ok (o ++ bits_of_bytes (firstn (Z.to_nat n) b ++ repeat 32%N (Z.to_nat n - length b))).
Proof.
  intros Hn. cbn [write_field]. unfold write_bytes, pad_bytes.
  destruct (Z.ltb_spec n 0); [lia|]. reflexivity.
Qed.
