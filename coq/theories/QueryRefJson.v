(* QueryRefJson.v — C16: evaluating a path over the NESTED JSON RENDERING of a wired tree
   (QueryRef.jeval over Nested.render_nodes) equals evaluating it over the tree
   (QueryRef.ref_gen), provided replication nodes hold whole repetitions (NestedProofs.wf_nodes,
   proved of every wired tree: wire_wf) and the rendering unfolds attributes at least as
   deep as the path is long. *)
From PBK Require Import Base Descr Walk Wire Nested NestedProofs PySlice PathParser Query QueryProofs QuerySpec
                        QueryRef QueryRefProofs QueryRefValues.
From Coq Require Import ZifyBool ZifyNat ZifyN.

(* ---- lists ------------------------------------------------------------------------------- *)
Lemma enumerate_map {A B} (f : A -> B) l : forall i,
  enumerate i (map f l) = map (fun p => (fst p, f (snd p))) (enumerate i l).
Proof. induction l as [|x l IH]; intros i; cbn [map enumerate]; [reflexivity|]. rewrite IH. reflexivity. Qed.

Lemma filter_map_comm {A B} (F : A -> B) P l : filter P (map F l) = map F (filter (fun x => P (F x)) l).
Proof.
  induction l as [|x l IH]; cbn [map filter]; [reflexivity|]. rewrite IH. destruct (P (F x)); reflexivity.
Qed.

Lemma enumerate_In {A} (l : list A) : forall i p, In p (enumerate i l) -> In (snd p) l.
Proof.
  induction l as [|x l IH]; intros i p; cbn [enumerate In]; [tauto|].
  intros [<-|H]; [left; reflexivity|right; eapply IH; exact H].
Qed.

Lemma py_slice_map {A B} (F : A -> B) l a b c :
  py_slice (map F l) a b c = (let* s := py_slice l a b c in Ok (map F s)).
Proof.
  unfold py_slice. rewrite map_length.
  destruct (_ =? 0)%Z; [reflexivity|]. destruct (slice_bounds _ a b _) as [start stop]. cbn [bind]. f_equal.
  generalize (slice_indices (S (length l)) start stop (match c with None => 1%Z | Some x => x end)) as idx.
  induction idx as [|i idx IH]; cbn [flat_map map]; [reflexivity|].
  rewrite map_app, IH, nth_error_map. destruct (nth_error l (Z.to_nat i)); reflexivity.
Qed.

Lemma pick_map {A B} (f : A -> B) pos l : pick pos (map f l) = map f (pick pos l).
Proof.
  unfold pick. induction pos as [|i pos IH]; cbn [flat_map map]; [reflexivity|].
  rewrite map_app, IH, nth_error_map. destruct (nth_error l i); reflexivity.
Qed.

Lemma pick_incl {A} pos (l : list A) : incl (pick pos l) l.
Proof.
  unfold pick. intros x Hx. apply in_flat_map in Hx as (i & _ & Hx).
  destruct (nth_error l i) as [y|] eqn:E; [|destruct Hx]. destruct Hx as [<-|[]]. eapply nth_error_In; exact E.
Qed.

Lemma chunk_map {A B} (f : A -> B) fuel n : forall l, chunk fuel n (map f l) = map (map f) (chunk fuel n l).
Proof.
  induction fuel as [|k IH]; intros l; cbn [chunk]; [reflexivity|].
  destruct l as [|x l]; [reflexivity|]. cbn [map]. rewrite <- map_cons, firstn_map, skipn_map, IH. reflexivity.
Qed.

Lemma chunks_map {A B} (f : A -> B) n k : forall l, chunks n k (map f l) = map (map f) (chunks n k l).
Proof.
  induction k as [|k IH]; intros l; cbn [chunks map]; [reflexivity|]. rewrite firstn_map, skipn_map, IH. reflexivity.
Qed.

Lemma chunk_chunks {A} n : forall k fuel (l : list A), (0 < n)%nat -> length l = (n * k)%nat -> (k < fuel)%nat ->
  chunk fuel n l = chunks n k l.
Proof.
  induction k as [|k IH]; intros fuel l Hn Hl Hf.
  - destruct l as [|x l]; [|cbn in Hl; lia]. destruct fuel; reflexivity.
  - destruct fuel as [|fuel]; [lia|]. cbn [chunk chunks].
    destruct l as [|x l]; [cbn in Hl; lia|]. f_equal. apply IH; [exact Hn| |lia].
    rewrite skipn_length. lia.
Qed.

Lemma firstn_incl {A} n (l : list A) : incl (firstn n l) l.
Proof. intros x Hx. rewrite <- (firstn_skipn n l). apply in_or_app. left. exact Hx. Qed.
Lemma skipn_incl {A} n (l : list A) : incl (skipn n l) l.
Proof. intros x Hx. rewrite <- (firstn_skipn n l). apply in_or_app. right. exact Hx. Qed.

Lemma chunks_incl {A} n : forall k (l rep : list A), In rep (chunks n k l) -> incl rep l.
Proof.
  induction k as [|k IH]; intros l rep; cbn [chunks In]; [tauto|]. intros [<-|H].
  - apply firstn_incl.
  - intros x Hx. apply (skipn_incl n l). eapply IH; [exact H|exact Hx].
Qed.

Lemma Forall2_map_same {W A B} (S : A -> B -> Prop) (f : W -> A) (g : W -> B) l :
  (forall w, In w l -> S (f w) (g w)) -> Forall2 S (map f l) (map g l).
Proof.
  induction l as [|w l IH]; intros H; cbn [map]; constructor; [apply H; left; reflexivity|].
  apply IH. intros w' Hw. apply H. right. exact Hw.
Qed.

Lemma collect_map {A B C} (u : A -> B) (f : B -> result (list C)) l :
  collect f (map u l) = collect (fun x => f (u x)) l.
Proof. induction l as [|x l IH]; cbn [map collect]; [reflexivity|]. rewrite IH. reflexivity. Qed.

Lemma collect_Forall2 {A B C} (S : A -> B -> Prop) (f : A -> result (list C)) (g : B -> result (list C)) la lb :
  Forall2 S la lb -> (forall a b, S a b -> f a = g b) -> collect f la = collect g lb.
Proof.
  intros H Hfg. induction H as [|a b la lb Hab _ IH]; cbn [collect]; [reflexivity|].
  rewrite (Hfg a b Hab), IH. reflexivity.
Qed.

(* ---- selection commutes with a relabelling-free map ------------------------------------------ *)
Lemma cut_map {A B} (f : A -> B) s (ms : list (nat * A)) :
  cut s (map (fun p => (fst p, f (snd p))) ms) =
  (let* r := cut s ms in Ok (map (fun p => (fst p, f (snd p))) r)).
Proof.
  destruct s as [k|a b st]; cbn [cut].
  - cbn [bind]. rewrite nth_error_map. destruct (nth_error ms (Z.to_nat k)); reflexivity.
  - rewrite py_slice_map. destruct (py_slice ms a b st) as [sel|e]; cbn [bind]; [|reflexivity]. f_equal.
    rewrite filter_map_comm. f_equal. apply filter_ext. intros x. cbn [fst].
    induction sel as [|y sel IH]; cbn [map existsb]; [reflexivity|]. rewrite IH. reflexivity.
Qed.

Lemma select_map {W A} (f : W -> A) (lab : A -> list char) c ws :
  select lab c (map f ws) =
  (let* sel := select (fun w => lab (f w)) c ws in Ok (map (fun p => (fst p, f (snd p))) sel)).
Proof.
  unfold select, labelled. rewrite enumerate_map, filter_map_comm. cbn [snd]. apply cut_map.
Qed.

Lemma select_ext_label {A} (lab1 lab2 : A -> list char) c l :
  (forall x, lab1 x = lab2 x) -> select lab1 c l = select lab2 c l.
Proof. intros H. unfold select, labelled. f_equal. apply filter_ext. intros p. rewrite H. reflexivity. Qed.

Lemma select_incl {A} (lab : A -> list char) c l sel : select lab c l = Ok sel ->
  forall p, In p sel -> In (snd p) l.
Proof.
  unfold select. intros E p Hp.
  assert (Hin : In p (labelled lab c l)).
  { destruct (c_slice c) as [k|a b st]; cbn [cut] in E.
    - injection E as <-. destruct (nth_error _ (Z.to_nat k)) as [x|] eqn:Ex; [|destruct Hp].
      destruct Hp as [<-|[]]. eapply nth_error_In; exact Ex.
    - destruct (py_slice _ a b st) as [s|e]; cbn [bind] in E; [|discriminate]. injection E as <-.
      apply filter_In in Hp as [Hp _]. exact Hp. }
  unfold labelled in Hin. apply filter_In in Hin as [Hin _]. eapply enumerate_In; exact Hin.
Qed.

(* ---- the rendering of a query node -------------------------------------------------------------- *)
Section J.
Context (attrs : list attr) (ia : N -> bool) (vals : list value) (labels : list (list char)).
Local Notation rn := (render_node attrs ia vals).
Local Notation rns := (render_nodes attrs ia vals).
Local Notation rv := (render_value attrs ia).
Local Notation lab := (label_of labels).
Local Notation jlab := (jlabel labels).

Lemma rns_map k ms : rns k ms = map (rn k) (wnodes_list ms).
Proof. induction ms as [|n ms IH]; cbn [render_nodes wnodes_list map]; [reflexivity|]. rewrite IH. reflexivity. Qed.

Lemma wlength_list ms : wlength ms = length (wnodes_list ms).
Proof. induction ms as [|n ms IH]; cbn [wlength wnodes_list length]; [reflexivity|]. rewrite IH. reflexivity. Qed.

Lemma wf_nodes_list ms : wf_nodes vals ms -> forall w, In w (wnodes_list ms) -> wf_node vals w.
Proof.
  induction ms as [|n ms IH]; cbn [wf_nodes wnodes_list In]; [tauto|]. intros [Hn Hms] w [<-|Hw]; [exact Hn|apply IH; assumption].
Qed.

Lemma rv_idx k b i : exists flag ats, rv k b i = JV i flag ats.
Proof. destruct k; cbn [render_value]; eexists; eexists; reflexivity. Qed.

Lemma jlab_rv k b i : jlab (JVal (rv k b i)) = lab (QV i).
Proof. destruct (rv_idx k b i) as (flag & ats & ->). reflexivity. Qed.

Lemma jlab_rn k w : jlab (rn k w) = lab (qn_of w).
Proof. destruct w; cbn [render_node qn_of]; try reflexivity. apply jlab_rv. Qed.

(* [j] renders [q] with attributes unfolded [k] levels deep *)
Inductive sim (k : nat) : qn -> jn -> Prop :=
  | sim_node w : wf_node vals w -> sim k (qn_of w) (rn k w)
  | sim_val b i : sim k (QV i) (JVal (rv k b i))
  | sim_root ms : wf_nodes vals ms -> sim k (QRoot ms) (JSeqN 0 (rns k ms)).
Definition simge (m : nat) (q : qn) (j : jn) : Prop := exists k, (m <= k)%nat /\ sim k q j.

Lemma simge_node m k w : (m <= k)%nat -> wf_node vals w -> simge m (qn_of w) (rn k w).
Proof. intros Hk Hw. exists k. split; [exact Hk|constructor; exact Hw]. Qed.

Lemma simge_val m k b i : (m <= k)%nat -> simge m (QV i) (JVal (rv k b i)).
Proof. intros Hk. exists k. split; [exact Hk|constructor]. Qed.

Section StepG.
Context {R : Type} (wrap : list R -> R) (Rel : qn -> jn -> Prop).
Context (c : comp) (contJ : list jn -> result (list R)) (contV : list qn -> result (list R)).
Context (Hcont : forall qs js, Forall2 Rel qs js -> contJ js = contV qs).

(* selecting among a list of sub-nodes and continuing *)
Lemma step_list_g {W} (f : W -> qn) (g : W -> jn) (ws : list W) :
  (forall w, jlab (g w) = lab (f w)) -> (forall w, In w ws -> Rel (f w) (g w)) ->
  (let* sel := select jlab c (map g ws) in contJ (map snd sel)) =
  (let* sel := select lab c (map f ws) in contV (map snd sel)).
Proof.
  intros Hl Hs. rewrite !select_map. rewrite (select_ext_label (fun w => jlab (g w)) (fun w => lab (f w)) c ws Hl).
  destruct (select (fun w => lab (f w)) c ws) as [sel|e] eqn:Es; cbn [bind]; [|reflexivity].
  rewrite !map_map. cbn [snd]. rewrite <- (map_map snd f), <- (map_map snd g).
  apply Hcont. apply Forall2_map_same. intros w Hw. apply Hs.
  apply in_map_iff in Hw as (p & <- & Hp). eapply select_incl; [exact Es|exact Hp].
Qed.

Lemma match_cons {A X} (l : list A) (d K : X) : l <> [] -> match l with [] => d | _ :: _ => K end = K.
Proof. destruct l; [congruence|reflexivity]. Qed.

Lemma rep_match {X} (reps : list (list jn)) (K : list jn -> result (list X)) hd tl :
  reps = hd :: tl -> hd <> [] ->
  match reps with [] | [] :: _ => Ok [] | rep0 :: _ => K rep0 end = K hd.
Proof. intros -> H. destruct hd; [congruence|reflexivity]. Qed.

(* a child step on a replication node *)
Lemma step_rep_g k nmem nrep (ws : list wnode) :
  length ws = (nmem * nrep)%nat -> (forall w, In w ws -> Rel (qn_of w) (rn k w)) ->
  match chunks nmem nrep (map (rn k) ws) with
  | [] | [] :: _ => Ok []
  | rep0 :: _ =>
      let* sel := select jlab c rep0 in
      match sel with
      | [] => Ok []
      | _ => let* env := collect (fun rep => let* r := contJ (pick (map fst sel) rep) in Ok (envelope wrap r))
                                 (chunks nmem nrep (map (rn k) ws)) in
             Ok (envelope wrap env)
      end
  end =
  match map qn_of ws with
  | [] => Ok []
  | _ => let* sel := select lab c (firstn nmem (map qn_of ws)) in
         match sel with
         | [] => Ok []
         | _ => let* env := collect (fun rep => let* r := contV (pick (map fst sel) rep) in Ok (envelope wrap r))
                                    (chunk (S (length (map qn_of ws))) nmem (map qn_of ws)) in
                Ok (envelope wrap env)
         end
  end.
Proof.
  intros Hlen Hwf. destruct ws as [|w0 ws'] eqn:Ews.
  - cbn [map]. destruct nrep as [|r]; cbn [chunks]; [reflexivity|]. rewrite firstn_nil. reflexivity.
  - rewrite <- Ews in *. assert (Hne : ws <> []) by (rewrite Ews; discriminate).
    assert (Hn : (0 < nmem)%nat) by (destruct nmem; [rewrite Ews in Hlen; cbn in Hlen; lia|lia]).
    assert (Hr : exists r, nrep = S r).
    { destruct nrep as [|r]; [rewrite Ews in Hlen; cbn in Hlen; lia|]. exists r. reflexivity. }
    destruct Hr as (r & Hr).
    erewrite (rep_match (chunks nmem nrep (map (rn k) ws)) _ (firstn nmem (map (rn k) ws))).
    2:{ rewrite Hr at 1. cbn [chunks]. reflexivity. }
    2:{ rewrite Ews. destruct nmem; [lia|]. discriminate. }
    rewrite (match_cons (map qn_of ws)) by (rewrite Ews; discriminate).
    rewrite !firstn_map, !select_map.
    rewrite (select_ext_label (fun w => jlab (rn k w)) (fun w => lab (qn_of w)) c _ (jlab_rn k)).
    destruct (select (fun w => lab (qn_of w)) c (firstn nmem ws)) as [sel|e] eqn:Es; cbn [bind]; [|reflexivity].
    destruct sel as [|s0 sel]; [reflexivity|]. set (sel' := s0 :: sel) in *.
    assert (Hfst : forall (B : Type) (h : wnode -> B), map fst (map (fun p : nat * wnode => (fst p, h (snd p))) sel') = map fst sel').
    { intros B h. rewrite map_map. reflexivity. }
    rewrite (match_cons (map (fun p : nat * wnode => (fst p, rn k (snd p))) sel')) by discriminate.
    rewrite (match_cons (map (fun p : nat * wnode => (fst p, qn_of (snd p))) sel')) by discriminate.
    rewrite !Hfst, map_length, chunk_map, chunks_map, !collect_map.
    rewrite (chunk_chunks nmem nrep (S (length ws)) ws Hn Hlen) by (rewrite Hlen; nia).
    erewrite collect_ext; [reflexivity|]. intros rep Hrep. cbv beta.
    rewrite !pick_map. rewrite (Hcont (map qn_of (pick (map fst sel') rep)) (map (rn k) (pick (map fst sel') rep))); [reflexivity|].
    apply Forall2_map_same. intros w Hw. apply Hwf.
    eapply chunks_incl; [exact Hrep|]. eapply pick_incl; exact Hw.
Qed.

End StepG.

Section Step.
Context (c : comp) (m : nat) (contJ : list jn -> result (list vres)) (contV : list qn -> result (list vres)).
Context (Hcont : forall qs js, Forall2 (simge m) qs js -> contJ js = contV qs).

(* selecting among a list of sub-nodes and continuing *)
Lemma step_list {W} (f : W -> qn) (g : W -> jn) (ws : list W) :
  (forall w, jlab (g w) = lab (f w)) -> (forall w, In w ws -> simge m (f w) (g w)) ->
  (let* sel := select jlab c (map g ws) in contJ (map snd sel)) =
  (let* sel := select lab c (map f ws) in contV (map snd sel)).
Proof. apply (step_list_g (simge m) c contJ contV Hcont). Qed.

(* one step from a node and from its rendering *)
Lemma jstep_sim q j : simple_comp c = true -> simge (S m) q j ->
  jstep labels VList c j contJ = ref_step attrs labels VList c q contV.
Proof.
  intros Hsc (k & Hk & Hs). assert (Hk' : (m <= k)%nat) by lia.
  assert (Hsep : (c_sep c =? SEP_CHILD)%N = false -> (c_sep c =? SEP_ATTRIB)%N = true).
  { intros H. unfold simple_comp in Hsc. rewrite H in Hsc. exact Hsc. }
  assert (Hval : forall b i, jstep labels VList c (JVal (rv k b i)) contJ = ref_step attrs labels VList c (QV i) contV).
  { intros b i. destruct k as [|k0]; [lia|]. cbn [render_value]. unfold jstep, ref_step.
    destruct (c_sep c =? SEP_CHILD)%N; [reflexivity|]. destruct (c_sep c =? SEP_ATTRIB)%N; [|discriminate (Hsep eq_refl)].
    change (Nested.attrs_of attrs i) with (Query.attrs_of attrs i).
    destruct (Query.attrs_of attrs i) as [|a ats]; [reflexivity|].
    assert (Hm : forall (l : list jv) (X : Type) (d : X) (K : list jv -> X), l <> [] ->
                 match l with [] => d | a0 :: ats0 => K (a0 :: ats0) end = K l).
    { intros l X d K Hl. destruct l; [congruence|reflexivity]. }
    etransitivity; [apply (Hm (map (rv k0 true) (a :: ats)) _ _
                              (fun l => let* sel := select jlab c (map JVal l) in contJ (map snd sel))); discriminate|].
    cbv beta. rewrite map_map. apply (step_list QV (fun x => JVal (rv k0 true x))).
    - intros w. apply jlab_rv.
    - intros w _. apply simge_val. lia. }
  assert (Hseq : forall ms, wf_nodes vals ms ->
            (let* sel := select jlab c (rns k ms) in contJ (map snd sel)) =
            (let* sel := select lab c (map qn_of (wnodes_list ms)) in contV (map snd sel))).
  { intros ms Hms. rewrite rns_map. apply (step_list qn_of (rn k)).
    - intros w. apply jlab_rn.
    - intros w Hw. apply simge_node; [exact Hk'|]. eapply wf_nodes_list; [exact Hms|exact Hw]. }
  destruct Hs as [w Hw|b i|ms Hms].
  - destruct w as [id|id ms|id nmem nrep ms|id nmem f ms|i]; cbn [qn_of render_node].
    + unfold jstep, ref_step. destruct (c_sep c =? SEP_CHILD)%N; [reflexivity|].
      destruct (c_sep c =? SEP_ATTRIB)%N; [reflexivity|discriminate (Hsep eq_refl)].
    + unfold jstep, ref_step. destruct (c_sep c =? SEP_CHILD)%N; [apply Hseq; exact Hw|].
      destruct (c_sep c =? SEP_ATTRIB)%N; [reflexivity|discriminate (Hsep eq_refl)].
    + cbn [wf_node] in Hw. destruct Hw as [Hlen Hms].
      unfold jstep, ref_step. destruct (c_sep c =? SEP_CHILD)%N.
      * cbn [members_of]. cbv zeta. rewrite rns_map.
        apply (step_rep_g VList (simge m) c contJ contV Hcont); [rewrite <- wlength_list; exact Hlen|].
        intros w Hw. apply simge_node; [exact Hk'|]. eapply wf_nodes_list; [exact Hms|exact Hw].
      * destruct (c_sep c =? SEP_ATTRIB)%N; [reflexivity|discriminate (Hsep eq_refl)].
    + cbn [wf_node] in Hw. destruct Hw as [Hlen Hms].
      unfold jstep, ref_step. destruct (c_sep c =? SEP_CHILD)%N.
      * cbn [members_of]. cbv zeta. rewrite rns_map.
        apply (step_rep_g VList (simge m) c contJ contV Hcont); [rewrite <- wlength_list; exact Hlen|].
        intros w Hw. apply simge_node; [exact Hk'|]. eapply wf_nodes_list; [exact Hms|exact Hw].
      * destruct (c_sep c =? SEP_ATTRIB)%N; [|discriminate (Hsep eq_refl)].
        apply (step_list QV (fun x => JVal (rv k false x)) [f]).
        -- intros w. apply jlab_rv.
        -- intros w _. apply simge_val. exact Hk'.
    + apply Hval.
  - apply Hval.
  - unfold jstep, ref_step. destruct (c_sep c =? SEP_CHILD)%N; [apply Hseq; exact Hms|].
    destruct (c_sep c =? SEP_ATTRIB)%N; [reflexivity|discriminate (Hsep eq_refl)].
Qed.

End Step.

(* the end of a path *)
Lemma jvalue_sim q j : simge 0 q j -> jvalue j = leaf_value q.
Proof.
  intros (k & _ & Hs). destruct Hs as [w Hw|b i|ms Hms]; [|destruct (rv_idx k b i) as (fl & ats & ->); reflexivity|reflexivity].
  destruct w; cbn [qn_of render_node]; try reflexivity.
  destruct (rv_idx k false idx) as (fl & ats & ->). reflexivity.
Qed.

Lemma simge_le m m' q j : (m' <= m)%nat -> simge m q j -> simge m' q j.
Proof. intros H (k & Hk & Hs). exists k. split; [lia|exact Hs]. Qed.

Theorem jeval_sim : forall cs q j, simple_path cs = true -> simge (length cs) q j ->
  jeval labels cs j = ref_gen attrs labels leaf_value VList cs q.
Proof.
  induction cs as [|c rest IH]; intros q j Hsp Hs; [reflexivity|].
  cbn [simple_path forallb] in Hsp. apply andb_prop in Hsp as [Hc Hrest].
  unfold jeval. cbn [jgen ref_gen length] in *. fold (jeval labels).
  apply (jstep_sim c (length rest)); [|exact Hc|exact Hs].
  intros qs js H. destruct rest as [|c2 rest2].
  - symmetry. eapply collect_Forall2; [exact H|]. intros a b Hab. symmetry. apply jvalue_sim. exact Hab.
  - symmetry. eapply collect_Forall2; [exact H|]. intros a b Hab. symmetry. apply IH; [exact Hrest|exact Hab].
Qed.

(* EVALUATION OVER THE NESTED RENDERING = EVALUATION OVER THE TREE *)
Theorem eval_json_tree k nodes cs : wf_nodes vals nodes -> simple_path cs = true -> (length cs <= k)%nat ->
  eval_json labels (rns k nodes) cs = eval_ref attrs labels nodes cs.
Proof.
  intros Hwf Hsp Hk. unfold eval_json, eval_ref. apply jeval_sim; [exact Hsp|].
  exists k. split; [exact Hk|constructor; exact Hwf].
Qed.

End J.

(* ---- C16: the query equals the evaluation of the path over the nested rendering ------------------ *)
Theorem query_eq_reference attrs ia vals labels fuel k nodes p :
  wf_nodes vals nodes -> simple_path (p_comps p) = true ->
  (2 * length (p_comps p) + 1 <= fuel)%nat -> (length (p_comps p) <= k)%nat ->
  process_one_subset attrs labels fuel nodes p =
  eval_json labels (render_nodes attrs ia vals k nodes) (p_comps p).
Proof.
  intros Hwf Hsp Hf Hk.
  rewrite (process_one_subset_ref_nodes attrs labels fuel nodes p Hsp Hf).
  rewrite <- eval_ref_fusion. symmetry. apply eval_json_tree; assumption.
Qed.

(* ... in particular for every tree produced by wiring *)
Theorem query_eq_reference_wired ndesc vals links T nodes s ia labels fuel k p :
  wire ndesc vals links T = Ok (nodes, s) -> simple_path (p_comps p) = true ->
  (2 * length (p_comps p) + 1 <= fuel)%nat -> (length (p_comps p) <= k)%nat ->
  process_one_subset (x_attrs s) labels fuel nodes p =
  eval_json labels (render_nodes (x_attrs s) ia vals k nodes) (p_comps p).
Proof.
  intros E. apply query_eq_reference.
  unfold wire in E. destruct (proj2 (wire_wf ndesc vals links) T _ _ _ _ E) as (new & -> & _ & W). exact W.
Qed.
