(* RoundTripC.v — the compressed decoder inverts the compressed encoder (C03/C05),
   for the full template walk: the producer/consumer simulation of CoderPS.v
   instantiated with the compressed primitive families (EncodeCG.gc_prims writes,
   DecodeC.decc_prims reads), its hypotheses discharged from the column
   round-trip theorems of ColumnProofs.v. *)
From PBK Require Import Base Bits BitsProofs Descr Walk Coder WalkSim WalkPS CoderSim CoderPS
  Float53 Decode Encode DecodeProofs RoundTrip Column ColumnProofs DecodeC EncodeC EncodeCG.
From Coq Require Import ZifyBool ZifyNat ZifyN.

(* ======================================================================== *)
(* 0. one column lemma covering every width 1..64                             *)
(* ======================================================================== *)
Lemma all_none_repeat raws : col_all_none raws = true -> raws = repeat None (length raws).
Proof.
  induction raws as [|v r IH]; [reflexivity|]. cbn [col_all_none forallb length repeat].
  intros H. apply andb_prop in H as [Hv Hr]. destruct v; [discriminate|]. f_equal. exact (IH Hr).
Qed.

Lemma not_all_none raws : col_all_none raws = false -> exists x, In (Some x) raws.
Proof.
  induction raws as [|v r IH]; [discriminate|]. cbn [col_all_none forallb].
  destruct v as [x|]; [intros _; exists x; left; reflexivity|]. cbn [opt_is_none andb].
  intros H. destruct (IH H) as (x & Hx). exists x. right. exact Hx.
Qed.

Lemma flag_ok_all_none ae raws :
  col_flag_ok ae raws = true -> col_all_none raws = true -> ae = true /\ raws <> [].
Proof.
  intros Hf Hn. destruct raws as [|v0 r]; [discriminate|]. split; [|discriminate].
  destruct ae; [reflexivity|]. cbn [col_flag_ok] in Hf. exfalso.
  revert Hf Hn. generalize (v0 :: r). intros l. induction l as [|v l IH]; [discriminate|].
  cbn [existsb col_all_none forallb]. destruct v; [discriminate|]. cbn. exact IH.
Qed.

Lemma num_view_length w raws : length (num_view w raws) = length raws.
Proof.
  unfold num_view. destruct (_ && _); [apply repeat_length|apply length_raw_view].
Qed.

Theorem col_roundtrip_any w ae raws o t :
  col_dom_any w ae raws = true ->
  exists e, enc_col_num w ae raws o = Ok (o ++ e) /\
            dec_col_num w (length raws) (e ++ t) = Ok (num_view w raws, t).
Proof.
  unfold col_dom_any. intros H. apply orb_prop in H as [H|H].
  - assert (Hw : (w =? 1)%Z = false).
    { unfold col_dom_num in H. repeat (apply andb_prop in H as [H ?]). lia. }
    unfold num_view. rewrite Hw. cbn [andb]. apply col_roundtrip_num. exact H.
  - apply andb_prop in H as [Hw H]. assert (w = 1%Z) by lia. subst w.
    unfold col_dom_bit1 in H. apply andb_prop in H as [Hf Hr].
    unfold num_view. cbn [Z.eqb Pos.eqb andb].
    destruct (col_all_none raws) eqn:Hn.
    + destruct (flag_ok_all_none _ _ Hf Hn) as [-> Hne].
      assert (Hlen : length raws <> 0%nat) by (destruct raws; [contradiction|discriminate]).
      rewrite (all_none_repeat _ Hn). rewrite repeat_length.
      destruct (length raws) as [|n]; [contradiction|].
      cbn [repeat]. unfold enc_col_num. cbn [andb opt_is_none].
      rewrite numeric_missing_ok by lia. cbn [bind].
      rewrite col_header_ok by (cbn; lia).
      eexists; split; [reflexivity|].
      change (to_bits 6 (Z.to_N 0)) with (zeros 6).
      change (Z.to_N (2 ^ 1 - 1)) with 1%N.
      rewrite <- app_assoc.
      apply (dec_col_width0 1 1 (S n) t); [lia|]. split; cbn; lia.
    + apply col_roundtrip_onebit_some_present; [exact Hf| |apply not_all_none; exact Hn].
      intros x Hx. rewrite forallb_forall in Hr. specialize (Hr _ Hx). cbn in Hr. lia.
Qed.

(* the decoder's second look at a code/flag value changes nothing on the ghost *)
Lemma cf_recheck_ok_spec dn col :
  cf_recheck_ok dn col = true ->
  (dn <= 64)%Z /\ forall x, In (Some x) col -> (1 < dn)%Z -> x <> (2 ^ Z.to_N dn - 1)%N.
Proof.
  unfold cf_recheck_ok. intros H. apply andb_prop in H as [Hd Hf]. split; [lia|].
  intros x Hx H1. rewrite forallb_forall in Hf. specialize (Hf _ Hx). cbn in Hf. lia.
Qed.

(* ======================================================================== *)
(* 1. bookkeeping: columns and lengths                                        *)
(* ======================================================================== *)
Lemma column_at_length i : forall vals c, column_at i vals = Ok c -> length c = length vals.
Proof.
  induction vals as [|l r IH]; intros c E; cbn [column_at] in E.
  - injection E as <-. reflexivity.
  - destruct (nth_error l i); [|discriminate].
    destruct (column_at i r) as [c'|]; cbn [bind] in E; [|discriminate].
    injection E as <-. cbn [length]. f_equal. apply IH. reflexivity.
Qed.

Lemma next_column_spec e col ae e1 :
  next_column e = Ok (col, ae, e1) ->
  e_w e1 = e_w e /\ e_vals e1 = e_vals e /\ length col = length (e_vals e) /\
  e1 = mkE (e_w e) (e_vals e) (S (e_idx e)) (e_cur e).
Proof.
  unfold next_column. destruct (column_at (e_idx e) (e_vals e)) as [c|] eqn:Ec; cbn [bind]; [|discriminate].
  destruct c as [|v0 c']; [discriminate|]. intros E; injection E as <- <- <-.
  cbn. repeat split. apply (column_at_length _ _ _ Ec).
Qed.

Lemma map_res_length {A B} (f : A -> result B) : forall l l', map_res f l = Ok l' -> length l' = length l.
Proof.
  induction l as [|x r IH]; intros l' E; cbn [map_res] in E.
  - injection E as <-. reflexivity.
  - destruct (f x); cbn [bind] in E; [|discriminate].
    destruct (map_res f r) as [ys|]; cbn [bind] in E; [|discriminate].
    injection E as <-. cbn [length]. f_equal. apply IH. reflexivity.
Qed.

Lemma numeric_raws_length sc rv col ae raws :
  numeric_raws sc rv col ae = Ok raws -> length raws = length col.
Proof.
  unfold numeric_raws. destruct ae; [|apply map_res_length].
  destruct col as [|v r]; [intros E; injection E as <-; reflexivity|].
  destruct v; try (destruct (scaled_int _ _ _); cbn [bind]; [|discriminate]);
    intros E; injection E as <-; cbn [map length]; rewrite map_length; reflexivity.
Qed.

Lemma append_col_length col : forall vals,
  length col = length vals -> length (append_col col vals) = length vals.
Proof.
  intros vals H. unfold append_col. rewrite map_length, combine_length. lia.
Qed.

(* ======================================================================== *)
(* 2. the compressed decoder reads the ghost                                  *)
(* ======================================================================== *)
Definition Rgc (g : gcstate) (d : dstate) : Prop :=
  d_vals d = gch g /\ length (gch g) = length (e_vals (gce g)).

Definition gc_out (g : gcstate) : bits := e_w (gce g).

Lemma Rgc_with g d b : Rgc g d -> Rgc g (d_with d b).
Proof. intros (Hv & Hl). split; cbn; assumption. Qed.

Lemma Rgc_nsub g d x : Rgc g d -> nsub (d_with d x) = length (e_vals (gce g)).
Proof. intros (Hv & Hl). unfold nsub. cbn. rewrite Hv. exact Hl. Qed.

Lemma Rgc_step g d colv e' x tail :
  Rgc g d -> length colv = length (e_vals (gce g)) -> e_vals e' = e_vals (gce g) ->
  Rgc (gc_push colv g e') (dc_push colv (d_with d x) tail).
Proof.
  intros (Hv & Hl) Hc He. unfold Rgc, gc_push, dc_push. cbn [d_vals d_with gch gce].
  split; [rewrite Hv; reflexivity|]. rewrite append_col_length by lia. rewrite He. exact Hl.
Qed.

Notation psc := (psp Rgc gc_out d_r d_with).

Lemma ps_gc_numeric a b c : psc (gc_numeric a b c) (decc_numeric a b c).
Proof.
  intros g d g' HR E. unfold gc_numeric in E.
  destruct (next_column (gce g)) as [[[col ae] e1]|] eqn:En; cbn [bind] in E; [|discriminate].
  destruct (numeric_raws b c col ae) as [raws|] eqn:Er; cbn [bind] in E; [|discriminate].
  destruct (col_dom_any a ae raws) eqn:Hdom; cbn [negb] in E; [|discriminate].
  destruct (enc_col_num a ae raws (e_w e1)) as [w|] eqn:Ew; cbn [bind] in E; [|discriminate].
  injection E as <-.
  destruct (next_column_spec _ _ _ _ En) as (Hw1 & Hv1 & Hlen & _).
  pose proof (numeric_raws_length _ _ _ _ _ Er) as Hlr.
  destruct (col_roundtrip_any a ae raws (e_w e1) [] Hdom) as (e & Ee & _).
  rewrite Ee in Ew. injection Ew as <-.
  exists e. split; [unfold gc_out; cbn; rewrite Hw1; reflexivity|].
  intros tail.
  destruct (col_roundtrip_any a ae raws (e_w e1) tail Hdom) as (e' & Ee' & Hd).
  rewrite Ee in Ee'. injection Ee' as Ee'. apply app_inv_head in Ee'. subst e'.
  unfold decc_numeric. rewrite (Rgc_nsub _ _ _ HR). cbn [d_with d_r].
  rewrite <- Hlen, <- Hlr, Hd. cbn [bind].
  eexists; split; [reflexivity|]. split; [reflexivity|].
  apply Rgc_step; [exact HR| |cbn; exact Hv1].
  rewrite map_length, num_view_length. lia.
Qed.

Lemma ps_gc_codeflag a b : psc (gc_codeflag a b) (decc_codeflag a b).
Proof.
  intros g d g' HR E. unfold gc_codeflag in E.
  destruct (next_column (gce g)) as [[[col ae] e1]|] eqn:En; cbn [bind] in E; [|discriminate].
  destruct (codeflag_raws col) as [raws|] eqn:Er; cbn [bind] in E; [|discriminate].
  destruct (col_dom_any a ae raws) eqn:Hdom; cbn [negb andb] in E; [|discriminate].
  destruct (cf_recheck_ok b (num_view a raws)) eqn:Hre; cbn [negb] in E; [|discriminate].
  unfold enc_col_codeflag in E.
  destruct (enc_col_num a ae raws (e_w e1)) as [w|] eqn:Ew; cbn [bind] in E; [|discriminate].
  injection E as <-.
  destruct (next_column_spec _ _ _ _ En) as (Hw1 & Hv1 & Hlen & _).
  pose proof (map_res_length _ _ _ Er) as Hlr.
  destruct (cf_recheck_ok_spec _ _ Hre) as (Hb & Hne).
  destruct (col_roundtrip_any a ae raws (e_w e1) [] Hdom) as (e & Ee & _).
  rewrite Ee in Ew. injection Ew as <-.
  exists e. split; [unfold gc_out; cbn; rewrite Hw1; reflexivity|].
  intros tail.
  destruct (col_roundtrip_any a ae raws (e_w e1) tail Hdom) as (e' & Ee' & Hd).
  rewrite Ee in Ee'. injection Ee' as Ee'. apply app_inv_head in Ee'. subst e'.
  unfold decc_codeflag. rewrite (Rgc_nsub _ _ _ HR). cbn [d_with d_r].
  rewrite <- Hlen, <- Hlr.
  rewrite (dec_codeflag_of_num _ _ _ _ _ _ Hb Hd Hne). cbn [bind].
  eexists; split; [reflexivity|]. split; [reflexivity|].
  apply Rgc_step; [exact HR| |cbn; exact Hv1].
  rewrite map_length, num_view_length. lia.
Qed.

Lemma str_view_length nb vs : length (str_view nb vs) = length vs.
Proof. apply map_length. Qed.

Lemma ps_gc_string a : psc (gc_string a) (decc_string a).
Proof.
  intros g d g' HR E. unfold gc_string in E.
  destruct (next_column (gce g)) as [[[col ae] e1]|] eqn:En; cbn [bind] in E; [|discriminate].
  destruct (string_vals col) as [vs|] eqn:Er; cbn [bind] in E; [|discriminate].
  destruct (col_dom_str a ae vs) eqn:Hdom; cbn [negb] in E; [|discriminate].
  destruct (enc_col_str a ae vs (e_w e1)) as [w|] eqn:Ew; cbn [bind] in E; [|discriminate].
  injection E as <-.
  destruct (next_column_spec _ _ _ _ En) as (Hw1 & Hv1 & Hlen & _).
  pose proof (map_res_length _ _ _ Er) as Hlr.
  destruct (col_roundtrip_str a ae vs (e_w e1) [] Hdom) as (e & Ee & _).
  rewrite Ee in Ew. injection Ew as <-.
  exists e. split; [unfold gc_out; cbn; rewrite Hw1; reflexivity|].
  intros tail.
  destruct (col_roundtrip_str a ae vs (e_w e1) tail Hdom) as (e' & Ee' & Hd).
  rewrite Ee in Ee'. injection Ee' as Ee'. apply app_inv_head in Ee'. subst e'.
  unfold decc_string. rewrite (Rgc_nsub _ _ _ HR). cbn [d_with d_r].
  rewrite <- Hlen, <- Hlr, Hd. cbn [bind].
  eexists; split; [reflexivity|]. split; [reflexivity|].
  apply Rgc_step; [exact HR| |cbn; exact Hv1].
  rewrite map_length, str_view_length. lia.
Qed.

Lemma ps_gc_constant a : psc (gc_constant a) (decc_constant a).
Proof.
  intros g d g' HR E. unfold gc_constant in E.
  destruct (next_column (gce g)) as [[[col ae] e1]|] eqn:En; cbn [bind] in E; [|discriminate].
  destruct col as [|v col']; [discriminate|].
  destruct (ae && value_eq_int v a); [|discriminate]. injection E as <-.
  destruct (next_column_spec _ _ _ _ En) as (Hw1 & Hv1 & Hlen & _).
  exists []. split; [unfold gc_out; cbn; rewrite Hw1, app_nil_r; reflexivity|].
  intros tail. unfold decc_constant. rewrite (Rgc_nsub _ _ _ HR). cbn [app d_with d_r].
  rewrite <- Hlen.
  eexists; split; [reflexivity|]. split; [reflexivity|].
  apply Rgc_step; [exact HR| |exact Hv1]. rewrite repeat_length. exact Hlen.
Qed.

Lemma ps_gc_new_refval a g d z g' : Rgc g d -> gc_new_refval a g = Ok (z, g') ->
  exists dl, gc_out g' = gc_out g ++ dl /\
  forall tail, exists d', decc_new_refval a (d_with d (dl ++ tail)) = Ok (z, d') /\ d_r d' = tail /\ Rgc g' d'.
Proof.
  intros HR E. unfold gc_new_refval in E.
  destruct (next_column (gce g)) as [[[col ae] e1]|] eqn:En; cbn [bind] in E; [|discriminate].
  destruct col as [|v col']; [discriminate|].
  destruct v as [x| | | |]; try discriminate; try (destruct ae; discriminate).
  destruct (enc_col_refval a ae (Some x) (e_w e1)) as [w|] eqn:Ew; cbn [bind] in E; [|discriminate].
  injection E as <- <-.
  assert (ae = true) by (destruct ae; [reflexivity|discriminate]). subst ae.
  destruct (next_column_spec _ _ _ _ En) as (Hw1 & Hv1 & Hlen & _).
  destruct (col_roundtrip_refval _ _ _ _ 0 [] Ew) as (e & -> & _ & _).
  exists e. split; [unfold gc_out; cbn; rewrite Hw1; reflexivity|].
  intros tail. unfold decc_new_refval. rewrite (Rgc_nsub _ _ _ HR). cbn [d_with d_r].
  destruct (col_roundtrip_refval _ _ _ _ (length (e_vals (gce g))) tail Ew) as (e' & He' & _ & Hd).
  apply app_inv_head in He'. subst e'. rewrite Hd. cbn [bind]. rewrite <- Hlen.
  eexists; split; [reflexivity|]. split; [reflexivity|].
  apply Rgc_step; [exact HR| |cbn; exact Hv1]. rewrite repeat_length. exact Hlen.
Qed.

Lemma decc_factor_cols d : decc_factor d = factor_of_cols (d_vals d).
Proof. reflexivity. Qed.
Lemma decc_bitmap_cols n d : decc_bitmap n d = bitmap_of_cols n (d_vals d).
Proof. reflexivity. Qed.

Theorem gc_walk_dec :
  forall ms, psf (Rio2 Rgc) (io_out gc_out) (io_inp d_r) (io_with d_with)
                 (walk_list (io_handlers gc_prims) io_add_link ms)
                 (walk_list (io_handlers decc_prims) io_add_link ms).
Proof.
  apply (io_walk_ps gc_prims decc_prims Rgc gc_out d_r d_with d_inp_with d_with_inp Rgc_with);
    cbn [gc_prims decc_prims p_numeric p_string p_codeflag p_constant p_new_refval p_factor p_bitmap].
  - exact ps_gc_numeric.
  - exact ps_gc_string.
  - exact ps_gc_codeflag.
  - exact ps_gc_constant.
  - exact ps_gc_new_refval.
  - intros g d n (Hv & _) E. unfold gc_factor in E.
    destruct (encc_factor (gce g)) as [m|]; cbn [bind] in E; [|discriminate].
    destruct (factor_of_cols (gch g)) as [m'|] eqn:El; cbn [bind] in E; [|discriminate].
    destruct (N.eqb_spec m m'); [|discriminate]. injection E as <-. subst m'.
    rewrite decc_factor_cols, Hv. exact El.
  - intros a g d bm (Hv & _) E. unfold gc_bitmap in E.
    destruct (encc_bitmap a (gce g)) as [m|]; cbn [bind] in E; [|discriminate].
    destruct (bitmap_of_cols a (gch g)) as [m'|] eqn:El; cbn [bind] in E; [|discriminate].
    destruct (list_eq_dec _ _ _) as [Heq|]; [|discriminate]. injection E as <-.
    rewrite decc_bitmap_cols, Hv, El, Heq. reflexivity.
Qed.

(* C03 / C05, compressed data: the decoder inverts the encoder.  Whenever the
   ghost encoder accepts the values, decoding the bits it wrote — followed by ANY
   further bits t — gives the same descriptors and links (once per subset),
   exactly the ghost values, and leaves exactly t. *)
Theorem decode_encode_compressed T vals outs w g t :
  encode_compressed_ghost T vals = Ok (outs, w, g) ->
  decode_compressed T (length vals) (w ++ t) = Ok (outs, g, t).
Proof.
  unfold encode_compressed_ghost, decode_compressed, run_compressed, run_template. intros E.
  destruct (walk_list (io_handlers gc_prims) io_add_link T _) as [s1|] eqn:E1; cbn [bind] in E; [|discriminate].
  injection E as <- <- <-.
  assert (HR : Rst (Rio2 Rgc) (mkWs regs0 (mkIo [] [] (mkGC (mkE [] vals 0 0) (repeat [] (length vals)))))
                              (mkWs regs0 (mkIo [] [] (mkD [] (repeat [] (length vals)) 0)))).
  { split; cbn; [reflexivity|]. repeat split; cbn. apply repeat_length. }
  destruct (gc_walk_dec T _ _ _ HR E1) as (dl & Ho & K).
  destruct (K t) as (s2 & E2 & Hi & (Hr & Hdd & Hl & (Hv & _))).
  unfold io_out, gc_out in Ho. cbn in Ho. rewrite Ho.
  unfold withw, io_with, d_with in E2. cbn in E2. rewrite E2. cbn [bind].
  unfold io_inp in Hi. rewrite Hi, Hv, Hdd, Hl. reflexivity.
Qed.

Corollary decode_encode_compressed_exact T vals outs w g :
  encode_compressed_ghost T vals = Ok (outs, w, g) ->
  decode_compressed T (length vals) w = Ok (outs, g, []).
Proof. intros E. rewrite <- (app_nil_r w) at 1. apply decode_encode_compressed. exact E. Qed.

(* ======================================================================== *)
(* 3. the ghost encoder writes what the compressed encoder writes             *)
(* ======================================================================== *)
Definition Rprojc (g : gcstate) (e : estate) : Prop := gce g = e.

Lemma gc_walk_proj :
  forall ms, simf (Rio Rprojc) (walk_list (io_handlers gc_prims) io_add_link ms)
                                (walk_list (io_handlers encc_prims) io_add_link ms).
Proof.
  apply io_walk_sim;
    cbn [gc_prims encc_prims p_numeric p_string p_codeflag p_constant p_new_refval p_factor p_bitmap];
    unfold simp, Rprojc.
  - intros a b c g e g' <- E. unfold gc_numeric, encc_numeric, numeric_raws in *.
    destruct (next_column (gce g)) as [[[col ae] e1]|]; cbn [bind] in *; [|discriminate].
    match type of E with bind ?r _ = _ => destruct r as [raws|] end; cbn [bind] in *; [|discriminate].
    destruct (col_dom_any a ae raws); cbn [negb] in E; [|discriminate].
    destruct (enc_col_num a ae raws (e_w e1)) as [w|]; cbn [bind] in *; [|discriminate].
    injection E as <-. eexists; split; reflexivity.
  - intros a g e g' <- E. unfold gc_string, encc_string, string_vals in *.
    destruct (next_column (gce g)) as [[[col ae] e1]|]; cbn [bind] in *; [|discriminate].
    match type of E with bind ?r _ = _ => destruct r as [vs|] end; cbn [bind] in *; [|discriminate].
    destruct (col_dom_str a ae vs); cbn [negb] in E; [|discriminate].
    destruct (enc_col_str a ae vs (e_w e1)) as [w|]; cbn [bind] in *; [|discriminate].
    injection E as <-. eexists; split; reflexivity.
  - intros a b g e g' <- E. unfold gc_codeflag, encc_codeflag, codeflag_raws in *.
    destruct (next_column (gce g)) as [[[col ae] e1]|]; cbn [bind] in *; [|discriminate].
    match type of E with bind ?r _ = _ => destruct r as [raws|] end; cbn [bind] in *; [|discriminate].
    destruct (col_dom_any a ae raws && _); cbn [negb] in E; [|discriminate].
    destruct (enc_col_codeflag a ae raws (e_w e1)) as [w|]; cbn [bind] in *; [|discriminate].
    injection E as <-. eexists; split; reflexivity.
  - intros a g e g' <- E. unfold gc_constant, encc_constant in *.
    destruct (next_column (gce g)) as [[[col ae] e1]|]; cbn [bind] in *; [|discriminate].
    destruct col as [|v col']; [discriminate|].
    destruct (ae && value_eq_int v a); [|discriminate]. injection E as <-. eexists; split; reflexivity.
  - intros a g e z g' <- E. unfold gc_new_refval, encc_new_refval in *.
    destruct (next_column (gce g)) as [[[col ae] e1]|]; cbn [bind] in *; [|discriminate].
    destruct col as [|v col']; [discriminate|].
    destruct v as [x| | | |]; try discriminate; try (destruct ae; discriminate).
    destruct (enc_col_refval a ae (Some x) (e_w e1)) as [w|]; cbn [bind] in *; [|discriminate].
    injection E as <- <-. eexists; split; reflexivity.
  - intros g e n <- E. unfold gc_factor in E.
    destruct (encc_factor (gce g)) as [m|]; cbn [bind] in E; [|discriminate].
    destruct (factor_of_cols _) as [m'|]; cbn [bind] in E; [|discriminate].
    destruct (N.eqb_spec m m'); [|discriminate]. injection E as <-. reflexivity.
  - intros a g e bm <- E. unfold gc_bitmap in E.
    destruct (encc_bitmap a (gce g)) as [m|]; cbn [bind] in E; [|discriminate].
    destruct (bitmap_of_cols _ _) as [m'|]; cbn [bind] in E; [|discriminate].
    destruct (list_eq_dec _ _ _); [|discriminate]. injection E as <-. reflexivity.
Qed.

Theorem encode_compressed_ghost_is_encode T vals outs w g :
  encode_compressed_ghost T vals = Ok (outs, w, g) -> encode_compressed T vals = Ok (outs, w).
Proof.
  unfold encode_compressed_ghost, encode_compressed, run_compressed, run_template. intros E.
  destruct (walk_list (io_handlers gc_prims) io_add_link T _) as [s1|] eqn:E1; cbn [bind] in E; [|discriminate].
  injection E as <- <- <-.
  assert (HR : Rst (Rio Rprojc) (mkWs regs0 (mkIo [] [] (mkGC (mkE [] vals 0 0) (repeat [] (length vals)))))
                                (mkWs regs0 (mkIo [] [] (mkE [] vals 0 0)))).
  { split; cbn; [reflexivity|]. repeat split. }
  destruct (gc_walk_proj T _ _ _ HR E1) as (s2 & E2 & (Hr & Hdd & Hl & Hc)).
  rewrite E2. cbn [bind]. rewrite Hdd, Hl, <- Hc. reflexivity.
Qed.

(* ======================================================================== *)
(* 4. suffix independence of the compressed decoder                           *)
(* ======================================================================== *)
Lemma dec_col_refval_suffix w n r v r' t :
  dec_col_refval w n r = Ok (v, r') -> dec_col_refval w n (r ++ t) = Ok (v, r' ++ t).
Proof.
  unfold dec_col_refval. intros E.
  destruct (read_int w r) as [[mn r1]|] eqn:E1; cbn [bind] in E; [|discriminate].
  rewrite (read_int_suffix _ _ _ _ t E1). cbn [bind].
  destruct (read_uint NBITS_FOR_NBITS_DIFF r1) as [[nd r2]|] eqn:E2; cbn [bind] in E; [|discriminate].
  rewrite (read_uint_suffix _ _ _ _ t E2). cbn [bind].
  destruct (nd =? 0)%N; [|discriminate]. injection E as <- <-. reflexivity.
Qed.

Lemma Rsuffix_push t col d1 d2 r' :
  Rsuffix t d1 d2 -> Rsuffix t (dc_push col d1 r') (dc_push col d2 (r' ++ t)).
Proof. intros (Hr & Hv & Hc). unfold dc_push. repeat split; cbn; congruence. Qed.

Lemma Rsuffix_nsub t d1 d2 : Rsuffix t d1 d2 -> nsub d2 = nsub d1.
Proof. intros (Hr & Hv & Hc). unfold nsub. rewrite Hv. reflexivity. Qed.

Lemma decc_walk_suffix t :
  forall ms, simf (Rio (Rsuffix t)) (walk_list (io_handlers decc_prims) io_add_link ms)
                                    (walk_list (io_handlers decc_prims) io_add_link ms).
Proof.
  apply io_walk_sim;
    cbn [decc_prims p_numeric p_string p_codeflag p_constant p_new_refval p_factor p_bitmap]; unfold simp.
  - intros a b c c1 c2 c1' HR E. unfold decc_numeric in *. pose proof HR as (Hr & Hv & Hc).
    destruct (dec_col_num a (nsub c1) (d_r c1)) as [[col r1]|] eqn:E1; cbn [bind] in E; [|discriminate].
    rewrite (Rsuffix_nsub _ _ _ HR), Hr, (dec_col_num_suffix _ _ _ _ _ t E1). cbn [bind].
    injection E as <-. eexists; split; [reflexivity|apply Rsuffix_push; exact HR].
  - intros a c1 c2 c1' HR E. unfold decc_string in *. pose proof HR as (Hr & Hv & Hc).
    destruct (dec_col_str a (nsub c1) (d_r c1)) as [[col r1]|] eqn:E1; cbn [bind] in E; [|discriminate].
    rewrite (Rsuffix_nsub _ _ _ HR), Hr, (dec_col_str_suffix _ _ _ _ _ t E1). cbn [bind].
    injection E as <-. eexists; split; [reflexivity|apply Rsuffix_push; exact HR].
  - intros a b c1 c2 c1' HR E. unfold decc_codeflag in *. pose proof HR as (Hr & Hv & Hc).
    destruct (dec_col_codeflag a b (nsub c1) (d_r c1)) as [[col r1]|] eqn:E1; cbn [bind] in E; [|discriminate].
    rewrite (Rsuffix_nsub _ _ _ HR), Hr, (dec_col_codeflag_suffix _ _ _ _ _ _ t E1). cbn [bind].
    injection E as <-. eexists; split; [reflexivity|apply Rsuffix_push; exact HR].
  - intros a c1 c2 c1' HR E. unfold decc_constant in *. pose proof HR as (Hr & Hv & Hc).
    injection E as <-. rewrite (Rsuffix_nsub _ _ _ HR), Hr.
    eexists; split; [reflexivity|apply Rsuffix_push; exact HR].
  - intros a c1 c2 z c1' HR E. unfold decc_new_refval in *. pose proof HR as (Hr & Hv & Hc).
    destruct (dec_col_refval a (nsub c1) (d_r c1)) as [[v r1]|] eqn:E1; cbn [bind] in E; [|discriminate].
    rewrite (Rsuffix_nsub _ _ _ HR), Hr, (dec_col_refval_suffix _ _ _ _ _ t E1). cbn [bind].
    injection E as <- <-. eexists; split; [reflexivity|apply Rsuffix_push; exact HR].
  - intros c1 c2 n (Hr & Hv & Hc). rewrite !decc_factor_cols, Hv. auto.
  - intros a c1 c2 bm (Hr & Hv & Hc). rewrite !decc_bitmap_cols, Hv. auto.
Qed.

(* Bits that follow the compressed data never influence its decoding. *)
Theorem decode_compressed_suffix_independent T n b t outs vals rest :
  decode_compressed T n b = Ok (outs, vals, rest) ->
  decode_compressed T n (b ++ t) = Ok (outs, vals, rest ++ t).
Proof.
  unfold decode_compressed, run_compressed, run_template. intros E.
  destruct (walk_list (io_handlers decc_prims) io_add_link T _) as [s1|] eqn:E1; cbn [bind] in E; [|discriminate].
  injection E as <- <- <-.
  assert (HR : Rst (Rio (Rsuffix t)) (mkWs regs0 (mkIo [] [] (mkD b (repeat [] n) 0)))
                                     (mkWs regs0 (mkIo [] [] (mkD (b ++ t) (repeat [] n) 0)))).
  { split; cbn; [reflexivity|]. repeat split. }
  destruct (decc_walk_suffix t T _ _ _ HR E1) as (s2 & E2 & (Hr & Hdd & Hl & (Hrr & Hv & Hc))).
  rewrite E2. cbn [bind]. rewrite Hdd, Hl, Hrr, Hv. reflexivity.
Qed.

(* No proper prefix of the compressed data bits decodes successfully. *)
Corollary decode_compressed_prefix_fails T vals outs w g w' x :
  encode_compressed_ghost T vals = Ok (outs, w, g) -> w = w' ++ x -> x <> [] ->
  forall r, decode_compressed T (length vals) w' <> Ok r.
Proof.
  intros E -> Hx [[o v] rest] Ed.
  pose proof (decode_compressed_suffix_independent _ _ _ x _ _ _ Ed) as E1.
  pose proof (decode_encode_compressed _ _ _ _ _ [] E) as E2. rewrite app_nil_r in E2.
  rewrite E1 in E2. injection E2 as _ _ Hr.
  apply app_eq_nil in Hr as [_ Hx']. contradiction.
Qed.

(* The walker always calls the code/flag primitive with nbits = descriptor.nbits
   (elements, associated fields, skipped local descriptors): there the ghost's
   second-look condition is implied by the column domain, i.e. it never refuses
   on that ground. *)
Lemma cf_recheck_auto w ae raws :
  col_dom_any w ae raws = true -> cf_recheck_ok w (num_view w raws) = true.
Proof.
  intros Hdom. unfold cf_recheck_ok.
  assert (Hw : (1 <= w <= 64)%Z).
  { unfold col_dom_any, col_dom_num in Hdom. apply orb_prop in Hdom as [H|H];
      repeat (apply andb_prop in H as [H ?]); lia. }
  apply andb_true_intro. split; [lia|]. apply forallb_forall. intros [x|] Hx; [|reflexivity].
  destruct (Z.ltb_spec 1 w) as [H1|H1]; [|reflexivity]. cbn [andb].
  unfold num_view in Hx. assert (Hne : (w =? 1)%Z = false) by lia. rewrite Hne in Hx. cbn [andb] in Hx.
  destruct (in_raw_view _ _ Hx) as (z & Hz & ->).
  unfold col_dom_any in Hdom. rewrite Hne in Hdom. cbn [andb] in Hdom. rewrite orb_false_r in Hdom.
  unfold col_dom_num in Hdom. repeat (apply andb_prop in Hdom as [Hdom ?]).
  rewrite forallb_forall in H0. specialize (H0 _ Hz). cbn in H0.
  assert (Hp : Z.of_N (2 ^ Z.to_N w) = (2 ^ w)%Z) by (apply pow_Z_N; lia).
  assert (0 < 2 ^ w)%Z by (apply Z.pow_pos_nonneg; lia). lia.
Qed.

(* For numeric columns the flag consistency demanded by the column domain is
   automatic: the all_equal flag computed by the encoder on the user's values
   (next_column) is consistent with the scaled column (numeric_raws). *)
Lemma optz_eqb_refl v : optz_eqb v v = true.
Proof. destruct v; cbn; [apply Z.eqb_refl|reflexivity]. Qed.

Lemma map_res_in {A B} (f : A -> result B) : forall l l' v,
  map_res f l = Ok l' -> In v l -> exists y, f v = Ok y /\ In y l'.
Proof.
  induction l as [|x r IH]; intros l' v E Hin; [destruct Hin|].
  cbn [map_res] in E. destruct (f x) as [y|] eqn:Ey; cbn [bind] in E; [|discriminate].
  destruct (map_res f r) as [ys|] eqn:Er; cbn [bind] in E; [|discriminate].
  injection E as <-. destruct Hin as [->|Hin]; [exists y; split; [exact Ey|left; reflexivity]|].
  destruct (IH _ _ eq_refl Hin) as (y' & Hy & Hi). exists y'. split; [exact Hy|right; exact Hi].
Qed.

Lemma numeric_flag_ok sc rv col ae raws v0 c0 :
  col = v0 :: c0 -> ae = forallb (value_eqb v0) col ->
  numeric_raws sc rv col ae = Ok raws -> col_flag_ok ae raws = true.
Proof.
  intros -> Hae E. unfold numeric_raws in E. destruct ae.
  - assert (Hc : exists c, raws = map (fun _ => c) (v0 :: c0)).
    { destruct v0; try (destruct (scaled_int _ sc rv) as [x|]; cbn [bind] in E; [|discriminate]);
        injection E as <-; eexists; reflexivity. }
    destruct Hc as (c & ->). cbn [map col_flag_ok forallb]. rewrite optz_eqb_refl. cbn [andb].
    apply forallb_forall. intros y Hy. apply in_map_iff in Hy as (_ & <- & _). apply optz_eqb_refl.
  - destruct raws as [|r0 rs] eqn:Hraws.
    { apply map_res_length in E. discriminate. }
    cbn [col_flag_ok]. rewrite <- Hraws in *. apply existsb_exists.
    destruct v0 as [z|m s|m e|b|].
    5:{ (* v0 missing: some entry is not *)
        assert (Hex : exists v, In v (VNone :: c0) /\ value_eqb VNone v = false).
        { symmetry in Hae. clear E. generalize dependent (VNone :: c0). intros l.
          induction l as [|x l IH]; cbn [forallb]; [discriminate|].
          intros H. apply andb_false_iff in H as [H|H]; [exists x; split; [left; reflexivity|exact H]|].
          destruct (IH H) as (v & Hv & He). exists v. split; [right; exact Hv|exact He]. }
        destruct Hex as (v & Hv & Hne).
        destruct (map_res_in _ _ _ _ E Hv) as (y & Hy & Hin). exists y. split; [exact Hin|].
        destruct v; cbn in Hne; try discriminate;
          (destruct (scaled_int _ sc rv); cbn [bind] in Hy; [|discriminate]; injection Hy as <-; reflexivity). }
    all: destruct (map_res_in _ _ _ _ E (or_introl eq_refl)) as (y & Hy & Hin); exists y; (split; [exact Hin|]);
      (destruct (scaled_int _ sc rv); cbn [bind] in Hy; [|discriminate]; injection Hy as <-; reflexivity).
Qed.
