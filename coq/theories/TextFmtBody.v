(* TextFmtBody.v — the subsets loop over the lines of one template-data block:
   a block is a sequence of  subset header, body lines ; the body lines only
   skip / append / insert.  Generic in the classifier. *)
From PBK Require Import Base Descr Walk Wire Nested TextFmt TextFmtSpec TextFmtStrings TextFmtProofs.
From Coq Require Import ZifyBool ZifyNat ZifyN.

Lemma on_last_cons {A} (f : A -> A) y t : t <> [] ->
  on_last f (y :: t) = match on_last f t with Some t' => Some (y :: t') | None => None end.
Proof. destruct t; [contradiction|reflexivity]. Qed.

Lemma on_last_snoc {A} (f : A -> A) done x : on_last f (done ++ [x]) = Some (done ++ [f x]).
Proof.
  induction done as [|y done IH]; [reflexivity|]. cbn [app].
  rewrite on_last_cons by (destruct done; discriminate). rewrite IH. reflexivity.
Qed.

Lemma insert_m1_cons {A} (v y : A) t : t <> [] -> insert_m1 v (y :: t) = y :: insert_m1 v t.
Proof. destruct t; [contradiction|reflexivity]. Qed.

Lemma insert_m1_snoc {A} (v x : A) l : insert_m1 v (l ++ [x]) = l ++ [v; x].
Proof.
  induction l as [|y l IH]; [reflexivity|]. cbn [app].
  rewrite insert_m1_cons by (destruct l; discriminate). rewrite IH. reflexivity.
Qed.

Section Body.
Context (classify : str -> laction).

Definition body_step (a : laction) (cur : list pyv) : option (list pyv) :=
  match a with
  | ASkip => Some cur
  | AApp v => Some (cur ++ [v])
  | AIns v => Some (insert_m1 v cur)
  | _ => None
  end.

Fixpoint run_body (ls : list str) (cur : list pyv) : option (list pyv) :=
  match ls with
  | [] => Some cur
  | l :: r => match body_step (classify l) cur with Some c => run_body r c | None => None end
  end.

Lemma run_body_app a : forall b cur cur1 cur2,
  run_body a cur = Some cur1 -> run_body b cur1 = Some cur2 -> run_body (a ++ b) cur = Some cur2.
Proof.
  induction a as [|l a IH]; intros b cur cur1 cur2 Ha Hb; cbn [run_body app] in *.
  - injection Ha as <-. exact Hb.
  - destruct (body_step (classify l) cur) as [c|]; [|discriminate]. eapply IH; eassumption.
Qed.

Lemma subsets_loop_body ls : forall done cur cur' rest,
  run_body ls cur = Some cur' ->
  subsets_loop classify (done ++ [cur]) (ls ++ rest) = subsets_loop classify (done ++ [cur']) rest.
Proof.
  induction ls as [|l ls IH]; intros done cur cur' rest H; cbn [run_body app] in *.
  - injection H as <-. reflexivity.
  - cbn [subsets_loop]. destruct (classify l) as [| | |v|v|e]; cbn [body_step] in H; try discriminate.
    + apply IH. exact H.
    + rewrite on_last_snoc. apply IH. exact H.
    + rewrite on_last_snoc. apply IH. exact H.
Qed.

(* a block: per subset a header line and body lines *)
Fixpoint block_lines (bs : list (str * list str)) : list str :=
  match bs with [] => [] | (h, body) :: r => h :: body ++ block_lines r end.

Lemma subsets_loop_block : forall bs vs done h rest,
  Forall2 (fun b v => classify (fst b) = ANew /\ run_body (snd b) [] = Some v) bs vs ->
  classify h = ABreak ->
  subsets_loop classify done (block_lines bs ++ h :: rest) = Ok (h :: rest, done ++ vs).
Proof.
  induction bs as [|[hd body] bs IH]; intros vs done h rest HF Hb; inversion HF as [|? v ? vs' [Hn Hr] HF']; subst.
  - cbn [block_lines app subsets_loop]. rewrite Hb, app_nil_r. reflexivity.
  - cbn [fst snd] in *. cbn [block_lines app subsets_loop]. rewrite Hn.
    rewrite <- app_assoc. rewrite (subsets_loop_body body done [] v) by exact Hr.
    rewrite IH with (vs := vs') by assumption. rewrite <- app_assoc. reflexivity.
Qed.

End Body.
