(* QueryRefValues.v — C16: evaluating a path to VALUES directly (what the reference over
   the nested rendering does: the check "only value nodes yield values" sits at the path
   end) equals selecting NODES first and taking their values afterwards (what dataquery.py
   does), error classes included.  The two orders of evaluation meet different errors
   first; they agree because a zero slice step stops every branch that reaches it, so a
   path that has one never arrives at a node. *)
From PBK Require Import Base Descr Walk Wire Nested PySlice PathParser Query QueryProofs QuerySpec QueryRef QueryRefProofs.
From Coq Require Import ZifyBool ZifyNat ZifyN.

(* ---- collect ------------------------------------------------------------------------------ *)
Lemma collect_err {A B} (f : A -> result (list B)) l e :
  collect f l = Err e -> exists x, In x l /\ f x = Err e.
Proof.
  induction l as [|x l IH]; cbn [collect]; [discriminate|]. intros E.
  destruct (f x) as [a|e1] eqn:Ea; cbn [bind] in E.
  - destruct (collect f l) as [b|e2]; cbn [bind] in E; [discriminate|]. injection E as ->.
    destruct (IH eq_refl) as (y & Hy & Ey). exists y. split; [right; exact Hy|exact Ey].
  - injection E as ->. exists x. split; [left; reflexivity|exact Ea].
Qed.

Lemma collect_nil {A B} (f : A -> result (list B)) l rs :
  (forall x a, In x l -> f x = Ok a -> a = []) -> collect f l = Ok rs -> rs = [].
Proof.
  revert rs. induction l as [|x l IH]; intros rs H E; cbn [collect] in E; [injection E as <-; reflexivity|].
  destruct (f x) as [a|e1] eqn:Ea; cbn [bind] in E; [|discriminate].
  destruct (collect f l) as [b|e2] eqn:Eb; cbn [bind] in E; [|discriminate]. injection E as <-.
  rewrite (H x a (or_introl eq_refl) Ea). cbn [app]. apply IH; [|reflexivity].
  intros y a' Hy. apply H. right. exact Hy.
Qed.

(* ---- slices with a zero step ---------------------------------------------------------------- *)
Definition step_ok (c : comp) : bool :=
  match c_slice c with SSlice _ _ (Some st) => negb (st =? 0)%Z | _ => true end.
Definition steps_ok (cs : list comp) : bool := forallb step_ok cs.

Lemma select_ok {A} (lab : A -> list char) c l : step_ok c = true -> exists sel, select lab c l = Ok sel.
Proof.
  unfold step_ok, select, cut. destruct (c_slice c) as [k|a b st]; intros H; [eexists; reflexivity|].
  unfold py_slice.
  assert (E : ((match st with None => 1 | Some x => x end) =? 0)%Z = false).
  { destruct st as [x|]; [|reflexivity]. destruct (x =? 0)%Z; [discriminate|reflexivity]. }
  rewrite E. destruct (slice_bounds _ a b _) as [start stop]. cbn [bind]. eexists; reflexivity.
Qed.

Lemma select_bad {A} (lab : A -> list char) c l : step_ok c = false -> select lab c l = Err EValue.
Proof.
  unfold step_ok, select, cut. destruct (c_slice c) as [k|a b [st|]]; try discriminate. intros H.
  unfold py_slice. destruct (st =? 0)%Z; [reflexivity|discriminate].
Qed.

(* ---- values of a node list ------------------------------------------------------------------- *)
Lemma ref_value_err : forall r e, ref_value r = Err e -> e = EQuery.
Proof.
  induction r as [n|l IH] using qres_ind'; intros e E.
  - destruct n; cbn in E; congruence.
  - rewrite ref_value_list in E. destruct (ref_values l) as [vs|e1] eqn:Ev; cbn [bind] in E; [discriminate|].
    injection E as ->. unfold ref_values in Ev. apply collect_err in Ev as (x & Hx & Ex).
    rewrite Forall_forall in IH. destruct (ref_value x) as [v|e2] eqn:E2; cbn [bind] in Ex; [discriminate|].
    injection Ex as ->. eapply IH; [exact Hx|exact E2].
Qed.

Lemma ref_values_err rs e : ref_values rs = Err e -> e = EQuery.
Proof.
  intros E. unfold ref_values in E. apply collect_err in E as (x & _ & Ex).
  destruct (ref_value x) as [v|e2] eqn:E2; cbn [bind] in Ex; [discriminate|]. injection Ex as ->.
  eapply ref_value_err; exact E2.
Qed.

Lemma ref_values_app a b :
  ref_values (a ++ b) = (let* x := ref_values a in let* y := ref_values b in Ok (x ++ y)).
Proof. apply collect_app. Qed.

Lemma ref_values_length : forall rs vs, ref_values rs = Ok vs -> length vs = length rs.
Proof.
  unfold ref_values. induction rs as [|r rs IH]; intros vs E; cbn [collect] in E; [injection E as <-; reflexivity|].
  destruct (ref_value r) as [v|e]; cbn [bind] in E; [|discriminate].
  destruct (collect _ rs) as [b|e] eqn:Eb; cbn [bind] in E; [|discriminate]. injection E as <-.
  cbn [app length]. rewrite (IH b eq_refl). reflexivity.
Qed.

Lemma ref_values_envelope r :
  ref_values (envelope RList r) = (let* vs := ref_values r in Ok (envelope VList vs)).
Proof.
  destruct r as [|x t]; [reflexivity|]. cbn [envelope].
  unfold ref_values at 1. cbn [collect]. rewrite ref_value_list.
  destruct (ref_values (x :: t)) as [vs|e] eqn:Ev; cbn [bind]; [|reflexivity].
  apply ref_values_length in Ev. destruct vs as [|v vs]; [discriminate|]. reflexivity.
Qed.

Lemma ref_values_nodes ns : ref_values (map RNode ns) = collect leaf_value ns.
Proof.
  unfold ref_values. induction ns as [|n ns IH]; cbn [map collect]; [reflexivity|]. rewrite IH.
  destruct n; reflexivity.
Qed.

(* ---- fusion ------------------------------------------------------------------------------------ *)
Definition only_query_errors {A B} (f : A -> result B) : Prop := forall x e, f x = Err e -> e = EQuery.
Definition only_empty {A B} (f : A -> result (list B)) : Prop := forall x a, f x = Ok a -> a = [].

Lemma collect_fusion {A} (fQ : A -> result (list qres)) (fV : A -> result (list vres)) l :
  (forall x, fV x = (let* r := fQ x in ref_values r)) ->
  only_query_errors fQ \/ only_empty fQ ->
  collect fV l = (let* rs := collect fQ l in ref_values rs).
Proof.
  intros Hf H2. induction l as [|x l IH]; cbn [collect]; [reflexivity|].
  rewrite Hf, IH. destruct (fQ x) as [a|e1] eqn:Ea; cbn [bind]; [|reflexivity].
  destruct (collect fQ l) as [b|e2] eqn:Eb; cbn [bind].
  - rewrite ref_values_app. destruct (ref_values a) as [va|e]; cbn [bind]; [|reflexivity].
    destruct (ref_values b); reflexivity.
  - destruct (ref_values a) as [va|e] eqn:Eva; cbn [bind]; [reflexivity|].
    pose proof (ref_values_err _ _ Eva) as He. subst e. destruct H2 as [H2|H2].
    + apply collect_err in Eb as (y & _ & Ey). rewrite (H2 y e2 Ey). reflexivity.
    + rewrite (H2 x a Ea) in Eva. discriminate.
Qed.

Lemma collect_only_query_errors {A B} (f : A -> result (list B)) :
  only_query_errors f -> only_query_errors (collect f).
Proof. intros H l e E. apply collect_err in E as (x & _ & Ex). eapply H; exact Ex. Qed.

Lemma collect_only_empty {A B} (f : A -> result (list B)) : only_empty f -> only_empty (collect f).
Proof. intros H l rs E. eapply collect_nil; [|exact E]. intros x a _. apply H. Qed.

Section F.
Context (attrs : list attr) (labels : list (list char)).
Local Notation stepQ := (ref_step attrs labels RList).
Local Notation stepV := (ref_step attrs labels VList).

Lemma ref_step_errors {R} (wrap : list R -> R) c n (cont : list qn -> result (list R)) e :
  step_ok c = true -> only_query_errors cont -> ref_step attrs labels wrap c n cont = Err e -> e = EQuery.
Proof.
  intros Hc Hcont E. unfold ref_step in E.
  assert (Hsel : forall l (k : list (nat * qn) -> result (list R)),
            bind (select (label_of labels) c l) k = Err e -> exists sel, k sel = Err e).
  { intros l k Ek. destruct (select_ok (label_of labels) c l Hc) as (sel & Es). rewrite Es in Ek. exists sel. exact Ek. }
  destruct (c_sep c =? SEP_CHILD)%N.
  - destruct n as [i|id|id ms|dl id nmem f ms|ms]; try congruence.
    + apply Hsel in E as (sel & E). eapply Hcont; exact E.
    + cbv zeta in E. destruct (members_of _) as [|m0 mem]; [discriminate|].
      apply Hsel in E as ([|s0 sel] & E); [discriminate|].
      match type of E with bind ?r _ = _ => destruct r as [env|e1] eqn:Eenv end; cbn [bind] in E; [discriminate|].
      injection E as ->. apply collect_err in Eenv as (rep & _ & Er). cbv beta in Er.
      match type of Er with bind ?r _ = _ => destruct r as [r1|e1] eqn:E1 end; cbn [bind] in Er; [discriminate|].
      injection Er as ->. eapply Hcont; exact E1.
    + apply Hsel in E as (sel & E). eapply Hcont; exact E.
  - destruct (c_sep c =? SEP_ATTRIB)%N; [|congruence].
    destruct n as [i|id|id ms|[|] id nmem f ms|ms]; try congruence.
    + destruct (Query.attrs_of attrs i) as [|a ats]; [congruence|].
      apply Hsel in E as (sel & E). eapply Hcont; exact E.
    + apply Hsel in E as (sel & E). eapply Hcont; exact E.
Qed.

Lemma ref_step_empty {R} (wrap : list R -> R) c n (cont : list qn -> result (list R)) rs :
  step_ok c = false \/ only_empty cont -> ref_step attrs labels wrap c n cont = Ok rs -> rs = [].
Proof.
  intros H E. unfold ref_step in E.
  assert (Hsel : forall l (k : list (nat * qn) -> result (list R)),
            bind (select (label_of labels) c l) k = Ok rs -> only_empty cont /\ exists sel, k sel = Ok rs).
  { intros l k Ek. destruct H as [H|H].
    - rewrite (select_bad (label_of labels) c l H) in Ek. discriminate.
    - split; [exact H|]. destruct (select (label_of labels) c l) as [sel|e1]; [|discriminate]. exists sel. exact Ek. }
  destruct (c_sep c =? SEP_CHILD)%N.
  - destruct n as [i|id|id ms|dl id nmem f ms|ms]; try discriminate.
    + apply Hsel in E as (Hcont & sel & E). eapply Hcont; exact E.
    + cbv zeta in E. destruct (members_of _) as [|m0 mem]; [injection E as <-; reflexivity|].
      apply Hsel in E as (Hcont & [|s0 sel] & E); [injection E as <-; reflexivity|].
      match type of E with bind ?r _ = _ => destruct r as [env|e1] eqn:Eenv end; cbn [bind] in E; [|discriminate].
      injection E as <-. apply collect_nil in Eenv; [subst env; reflexivity|].
      intros rep a _ Er. cbv beta in Er.
      match type of Er with bind ?r _ = _ => destruct r as [r1|e1] eqn:E1 end; cbn [bind] in Er; [|discriminate].
      injection Er as <-. rewrite (Hcont _ _ E1). reflexivity.
    + apply Hsel in E as (Hcont & sel & E). eapply Hcont; exact E.
  - destruct (c_sep c =? SEP_ATTRIB)%N; [|discriminate].
    destruct n as [i|id|id ms|[|] id nmem f ms|ms]; try discriminate.
    + destruct (Query.attrs_of attrs i) as [|a ats]; [discriminate|].
      apply Hsel in E as (Hcont & sel & E). eapply Hcont; exact E.
    + apply Hsel in E as (Hcont & sel & E). eapply Hcont; exact E.
Qed.

Lemma ref_step_fusion c n (contQ : list qn -> result (list qres)) (contV : list qn -> result (list vres)) :
  (forall ns, contV ns = (let* r := contQ ns in ref_values r)) ->
  only_query_errors contQ \/ only_empty contQ ->
  stepV c n contV = (let* rs := stepQ c n contQ in ref_values rs).
Proof.
  intros Hc H2. unfold ref_step.
  assert (Hseq : forall l, (let* sel := select (label_of labels) c l in contV (map snd sel)) =
                           (let* rs := (let* sel := select (label_of labels) c l in contQ (map snd sel)) in ref_values rs)).
  { intros l. rewrite bind_assoc. apply bind_ext. intros sel. apply Hc. }
  destruct (c_sep c =? SEP_CHILD)%N.
  - destruct n as [i|id|id ms|dl id nmem f ms|ms]; try reflexivity; try apply Hseq.
    cbv zeta. destruct (members_of _) as [|m0 mem]; [reflexivity|].
    rewrite bind_assoc. apply bind_ext. intros [|s0 sel]; [reflexivity|].
    rewrite bind_assoc.
    rewrite (collect_fusion (fun rep => let* r := contQ (pick (map fst (s0 :: sel)) rep) in Ok (envelope RList r))
                            (fun rep => let* r := contV (pick (map fst (s0 :: sel)) rep) in Ok (envelope VList r))).
    + rewrite bind_assoc. apply bind_ext. intros env. cbn [bind]. symmetry. apply ref_values_envelope.
    + intros rep. rewrite Hc, !bind_assoc. apply bind_ext. intros r. cbn [bind]. symmetry. apply ref_values_envelope.
    + destruct H2 as [H2|H2]; [left|right].
      * intros rep e E. destruct (contQ _) as [r|e1] eqn:E1; cbn [bind] in E; [discriminate|].
        injection E as ->. eapply H2; exact E1.
      * intros rep a E. destruct (contQ _) as [r|e1] eqn:E1; cbn [bind] in E; [|discriminate].
        injection E as <-. rewrite (H2 _ _ E1). reflexivity.
  - destruct (c_sep c =? SEP_ATTRIB)%N; [|reflexivity].
    destruct n as [i|id|id ms|[|] id nmem f ms|ms]; try reflexivity; try apply Hseq.
    destruct (Query.attrs_of attrs i) as [|a ats]; [reflexivity|apply Hseq].
Qed.

Local Notation GQ := (ref_nodes attrs labels).
Local Notation GV := (ref_gen attrs labels leaf_value VList).

Lemma ref_nodes_errors : forall cs n e, cs <> [] -> steps_ok cs = true -> GQ cs n = Err e -> e = EQuery.
Proof.
  induction cs as [|c rest IH]; intros n e Hne Hok E; [congruence|].
  cbn [steps_ok forallb] in Hok. apply andb_prop in Hok as [Hc Hrest].
  unfold ref_nodes in E. cbn [ref_gen] in E. eapply ref_step_errors; [exact Hc| |exact E].
  destruct rest as [|c2 rest2].
  - intros ns e1 E1. rewrite collect_leaf_node in E1. discriminate.
  - apply collect_only_query_errors. intros x e1 E1. apply (IH x e1); [discriminate|exact Hrest|exact E1].
Qed.

Lemma ref_nodes_empty : forall cs n rs, steps_ok cs = false -> GQ cs n = Ok rs -> rs = [].
Proof.
  induction cs as [|c rest IH]; intros n rs Hok E; [discriminate|].
  cbn [steps_ok forallb] in Hok. unfold ref_nodes in E. cbn [ref_gen] in E.
  eapply ref_step_empty; [|exact E].
  destruct (step_ok c) eqn:Hc; [right|left; reflexivity]. cbn [andb] in Hok.
  destruct rest as [|c2 rest2]; [discriminate|].
  apply collect_only_empty. intros x a Ea. eapply IH; [exact Hok|exact Ea].
Qed.

(* values directly = nodes first, values afterwards *)
Theorem ref_gen_fusion : forall cs n, GV cs n = (let* rs := GQ cs n in ref_values rs).
Proof.
  induction cs as [|c rest IH]; intros n; [reflexivity|].
  unfold ref_nodes. cbn [ref_gen]. apply ref_step_fusion.
  - intros ns. destruct rest as [|c2 rest2].
    + rewrite collect_leaf_node. cbn [bind]. symmetry. apply ref_values_nodes.
    + apply collect_fusion; [exact IH|].
      destruct (steps_ok (c2 :: rest2)) eqn:Hok; [left|right].
      * intros x e E. apply (ref_nodes_errors (c2 :: rest2) x e); [discriminate|exact Hok|exact E].
      * intros x a E. eapply ref_nodes_empty; [exact Hok|exact E].
  - destruct rest as [|c2 rest2].
    + left. intros ns e E. rewrite collect_leaf_node in E. discriminate.
    + destruct (steps_ok (c2 :: rest2)) eqn:Hok; [left|right].
      * apply collect_only_query_errors. intros x e E. apply (ref_nodes_errors (c2 :: rest2) x e); [discriminate|exact Hok|exact E].
      * apply collect_only_empty. intros x a E. eapply ref_nodes_empty; [exact Hok|exact E].
Qed.

Theorem eval_ref_fusion nodes cs : eval_ref attrs labels nodes cs = eval_ref_nodes attrs labels nodes cs.
Proof. apply ref_gen_fusion. Qed.

End F.
