(* Script.v — model of pybufrkit/script.py (C18).

   Strings are [list byte]; a "byte" here is a character code point (an [N]):
   ASCII for everything the code inspects, but any code point may occur (Python
   [str]), which matters for [strip()] and [splitlines()] only.

   Modelled: process_embedded_query_expr (the character state machine,
   verbatim), the metadata_only test of ScriptRunner.__init__, process_pragma
   (splitlines / startswith('#$') / line[3:].split(',') / split('=') / strip /
   key test / literal_eval restricted to unsigned decimal literals), the
   precedence of the constructor argument, flatten_data_values over an abstract
   nested list.  Not modelled: compile/exec of the script, the queries
   themselves (C16/C17), ast.literal_eval beyond unsigned decimal integers
   ([PUnmodelled]). *)
From PBK Require Import Base.
From Coq Require Decimal DecimalN.
Local Open Scope N_scope.

(* ---- characters ---------------------------------------------------------- *)
Definition c_nl : byte := 10.       (* \n *)
Definition c_dq : byte := 34.       (* double quote *)
Definition c_hash : byte := 35.     (* # *)
Definition c_dollar : byte := 36.   (* $ *)
Definition c_pct : byte := 37.      (* % *)
Definition c_sq : byte := 39.       (* ' *)
Definition c_comma : byte := 44.    (* , *)
Definition c_eq : byte := 61.       (* = *)
Definition c_lbrace : byte := 123.  (* { *)
Definition c_rbrace : byte := 125.  (* } *)

Fixpoint bytes_eqb (a b : list byte) : bool :=
  match a, b with
  | [], [] => true
  | x :: a', y :: b' => N.eqb x y && bytes_eqb a' b'
  | _, _ => false
  end.

(* ---- Python str.strip() : characters with str.isspace() ------------------ *)
(* the complete list for CPython 3.12 (checked against chr(c).isspace() for all
   code points by the correspondence run) *)
Definition is_space (c : byte) : bool :=
  ((9 <=? c) && (c <=? 13)) || ((28 <=? c) && (c <=? 32)) || (c =? 133) || (c =? 160)
  || (c =? 5760) || ((8192 <=? c) && (c <=? 8202)) || (c =? 8232) || (c =? 8233)
  || (c =? 8239) || (c =? 8287) || (c =? 12288).

Fixpoint lstrip (s : list byte) : list byte :=
  match s with
  | c :: t => if is_space c then lstrip t else s
  | [] => []
  end.
Definition rstrip (s : list byte) : list byte := rev (lstrip (rev s)).
Definition strip (s : list byte) : list byte := rstrip (lstrip s).

(* ---- 'PBK_{}'.format(idx_var) -------------------------------------------- *)
Fixpoint uint_bytes (u : Decimal.uint) : list byte :=
  match u with
  | Decimal.Nil => []
  | Decimal.D0 r => 48 :: uint_bytes r | Decimal.D1 r => 49 :: uint_bytes r | Decimal.D2 r => 50 :: uint_bytes r
  | Decimal.D3 r => 51 :: uint_bytes r | Decimal.D4 r => 52 :: uint_bytes r | Decimal.D5 r => 53 :: uint_bytes r
  | Decimal.D6 r => 54 :: uint_bytes r | Decimal.D7 r => 55 :: uint_bytes r | Decimal.D8 r => 56 :: uint_bytes r
  | Decimal.D9 r => 57 :: uint_bytes r
  end.
Definition dec_bytes (n : N) : list byte := uint_bytes (N.to_uint n).
Definition pbk_prefix : list byte := [80; 66; 75; 95].          (* "PBK_" *)
Definition varname (idx : N) : list byte := pbk_prefix ++ dec_bytes idx.

(* ---- the substitutions dict: association list in insertion order ---------- *)
Definition subst := list (list byte * list byte).   (* (query expression, variable name) *)
Fixpoint lookup (k : list byte) (m : subst) : option (list byte) :=
  match m with
  | [] => None
  | (k', v) :: r => if bytes_eqb k k' then Some v else lookup k r
  end.

(* ---- process_embedded_query_expr ----------------------------------------- *)
Inductive state := SIdle | SEmbed | SSQ | SDQ | SComment.
(* STATE_IDLE, STATE_EMBEDDED_QUERY, STATE_SINGLE_QUOTE, STATE_DOUBLE_QUOTE, STATE_COMMENT *)

(* [state == c] for a quote character c *)
Definition state_is_quote (st : state) (c : byte) : bool :=
  match st with
  | SSQ => c =? c_sq
  | SDQ => c =? c_dq
  | _ => false
  end.
Definition quote_state (c : byte) : state := if c =? c_sq then SSQ else SDQ.
Definition is_idle (st : state) : bool := match st with SIdle => true | _ => false end.
Definition is_comment (st : state) : bool := match st with SComment => true | _ => false end.

Definition keepc (c : byte) (p : list byte * subst) : list byte * subst := (c :: fst p, snd p).
Definition keeps (l : list byte) (p : list byte * subst) : list byte * subst := (l ++ fst p, snd p).

(* q : query_expr, most recent character first;  idx : idx_var;  m : substitutions.
   The result is (''.join(keep) from here on, final substitutions). *)
Fixpoint scan (st : state) (q : list byte) (idx : N) (m : subst) (s : list byte) {struct s}
  : list byte * subst :=
  match s with
  | [] => ([], m)
  | c :: t =>
    match st with
    | SEmbed =>
      if c =? c_rbrace then
        let e := strip (rev q) in
        match lookup e m with
        | None => let v := varname idx in keeps v (scan SIdle [] (idx + 1) (m ++ [(e, v)]) t)
        | Some v => keeps v (scan SIdle [] idx m t)
        end
      else scan SEmbed (c :: q) idx m t
    | _ =>
      if (c =? c_sq) || (c =? c_dq) then
        let st' := if state_is_quote st c then SIdle          (* quoting pair found *)
                   else if is_idle st then quote_state c      (* new quote begins *)
                   else st in
        keepc c (scan st' q idx m t)
      else if (c =? c_dollar) && is_idle st then
        match t with
        | c2 :: t' =>
          if c2 =? c_lbrace then scan SEmbed q idx m t'       (* idx_char += 1 *)
          else keepc c (scan st q idx m t)
        | [] => keepc c (scan st q idx m t)
        end
      else if (c =? c_hash) && is_idle st then keepc c (scan SComment q idx m t)
      else if (c =? c_nl) && is_comment st then keepc c (scan SIdle q idx m t)
      else keepc c (scan st q idx m t)
    end
  end.

Definition process_embedded_query_expr (s : list byte) : list byte * subst :=
  scan SIdle [] 0 [] s.

(* ---- metadata_only -------------------------------------------------------- *)
Definition starts_with_pct (k : list byte) : bool :=
  match k with c :: _ => c =? c_pct | [] => false end.
(* the loop with break = "all keys start with %" *)
Fixpoint metadata_only (m : subst) : bool :=
  match m with
  | [] => true
  | (k, _) :: r => if starts_with_pct k then metadata_only r else false
  end.

(* ---- str.splitlines() ----------------------------------------------------- *)
Definition is_linebreak (c : byte) : bool :=
  ((10 <=? c) && (c <=? 13)) || ((28 <=? c) && (c <=? 30)) || (c =? 133) || (c =? 8232) || (c =? 8233).

(* cur: the current line, most recent first; after_cr: the previous char was \r *)
Fixpoint splitlines_aux (cur : list byte) (after_cr : bool) (s : list byte) : list (list byte) :=
  match s with
  | [] => match cur with [] => [] | _ => [rev cur] end
  | c :: t =>
    if after_cr && (c =? 10) then splitlines_aux cur false t      (* \r\n is one boundary *)
    else if is_linebreak c then rev cur :: splitlines_aux [] (c =? 13) t
    else splitlines_aux (c :: cur) false t
  end.
Definition splitlines (s : list byte) : list (list byte) := splitlines_aux [] false s.

(* str.split(sep) for a one-character separator: always at least one part *)
Fixpoint split_aux (sep : byte) (cur : list byte) (s : list byte) : list (list byte) :=
  match s with
  | [] => [rev cur]
  | c :: t => if c =? sep then rev cur :: split_aux sep [] t else split_aux sep (c :: cur) t
  end.
Definition split (sep : byte) (s : list byte) : list (list byte) := split_aux sep [] s.

(* ---- process_pragma ------------------------------------------------------- *)
(* "data_values_nest_level" *)
Definition key_nest_level : list byte :=
  [100;97;116;97;95;118;97;108;117;101;115;95;110;101;115;116;95;108;101;118;101;108].

(* ast.literal_eval restricted to the literals the model covers: an unsigned
   decimal integer without superfluous leading zeros ("0", "2", "14").  Anything
   else (signs, floats, strings, True, "00", "1_0", syntax errors) is [None]:
   not modelled. *)
Fixpoint uint_of_bytes (s : list byte) : option Decimal.uint :=
  match s with
  | [] => Some Decimal.Nil
  | c :: t =>
    match uint_of_bytes t with
    | None => None
    | Some r =>
      if c =? 48 then Some (Decimal.D0 r) else if c =? 49 then Some (Decimal.D1 r) else if c =? 50 then Some (Decimal.D2 r)
      else if c =? 51 then Some (Decimal.D3 r) else if c =? 52 then Some (Decimal.D4 r) else if c =? 53 then Some (Decimal.D5 r)
      else if c =? 54 then Some (Decimal.D6 r) else if c =? 55 then Some (Decimal.D7 r) else if c =? 56 then Some (Decimal.D8 r)
      else if c =? 57 then Some (Decimal.D9 r) else None
    end
  end.
Definition literal_eval_uint (s : list byte) : option N :=
  match uint_of_bytes s with
  | Some u => if bytes_eqb (uint_bytes (Decimal.unorm u)) s then Some (N.of_uint u) else None
  | None => None
  end.

Inductive pragma_out :=
  | PLevel (z : Z)       (* pragma['data_values_nest_level'] is this integer *)
  | PUnmodelled.         (* a value literal outside the modelled fragment was met *)

Definition starts_with_hash_dollar (l : list byte) : bool :=
  match l with a :: b :: _ => (a =? c_hash) && (b =? c_dollar) | _ => false end.

(* one line: for assignment in line[3:].split(','): k, v = assignment.split('=') ...
   cur = the current pragma['data_values_nest_level'] *)
Fixpoint pragma_assignments (cur : Z) (l : list (list byte)) : result pragma_out :=
  match l with
  | [] => Ok (PLevel cur)
  | a :: r =>
    match split c_eq a with
    | [k; v] =>
      if bytes_eqb (strip k) key_nest_level then          (* k in self.pragma *)
        match literal_eval_uint (strip v) with
        | Some n => pragma_assignments (Z.of_N n) r
        | None => Ok PUnmodelled
        end
      else pragma_assignments cur r
    | _ => Err EValue                                      (* unpacking: ValueError *)
    end
  end.

Fixpoint pragma_lines (cur : Z) (ls : list (list byte)) : result pragma_out :=
  match ls with
  | [] => Ok (PLevel cur)
  | line :: r =>
    if starts_with_hash_dollar line then
      match pragma_assignments cur (split c_comma (skipn 3 line)) with
      | Ok (PLevel cur') => pragma_lines cur' r
      | other => other
      end
    else Ok (PLevel cur)                         (* return at the first other line *)
  end.

(* DATA_VALUES_NEST_LEVEL_1 is the default *)
Definition process_pragma (code : list byte) : result pragma_out :=
  pragma_lines 1 (splitlines code).

(* ScriptRunner.__init__ up to compile(): the effective nest level.
   arg = the data_values_nest_level argument (None / an int). *)
Definition effective_level (arg : option Z) (script : list byte) : result pragma_out :=
  let code := fst (process_embedded_query_expr script) in
  match process_pragma code with
  | Err e => Err e
  | Ok PUnmodelled => Ok PUnmodelled     (* the unmodelled literal may have raised *)
  | Ok (PLevel l) => match arg with Some k => Ok (PLevel k) | None => Ok (PLevel l) end
  end.

(* ---- flatten_data_values -------------------------------------------------- *)
Section Flatten.
  Context {V : Type}.

  (* a Python value that is either a list (Node) or not (Leaf) *)
  Inductive nest := Leaf (v : V) | Node (l : list nest).

  (* utils.flatten_list *)
  Fixpoint flatten (x : nest) : list V :=
    match x with
    | Leaf v => [v]
    | Node l => flat_map flatten l
    end.
  Definition flatten_list (values : list nest) : list V := flat_map flatten values.

  (* a QueryResult: per selected subset, the (nested) list of values *)
  Definition query_result := list (list nest).

  (* QueryResult.all_values(flat) *)
  Definition all_values_flat (qr : query_result) : list (list V) := map flatten_list qr.
  Definition all_values (qr : query_result) : list (list nest) := qr.

  (* functools.reduce(lambda x, y: x + y, values, []) *)
  Definition reduce_add (values : list (list V)) : list V :=
    fold_left (fun x y => x ++ y) values [].

  Inductive flat_result :=
    | R0 (o : option V)              (* scalar or None *)
    | R1 (l : list V)
    | R2 (l : list (list V))
    | R4 (l : list (list nest)).

  Definition flatten_data_values (level : Z) (qr : query_result) : flat_result :=
    if (level =? 0)%Z then
      let values := reduce_add (all_values_flat qr) in
      R0 (match values with v :: _ => Some v | [] => None end)
    else if (level =? 1)%Z then R1 (reduce_add (all_values_flat qr))
    else if (level =? 2)%Z then R2 (all_values_flat qr)
    else R4 (all_values qr).
End Flatten.
Arguments nest : clear implicits.
Arguments query_result : clear implicits.
Arguments flat_result : clear implicits.

(* ---- the segment view of a script (specification side of C18) ------------- *)
Inductive seg :=
  | Code (c : list byte)
  | SQ (s : list byte)                       (* '...' *)
  | DQ (s : list byte)                       (* double-quoted literal *)
  | Comment (t : list byte) (closed : bool)  (* #... and the newline if closed *)
  | Embed (e : list byte).                   (* ${...} *)

Definition render (sg : seg) : list byte :=
  match sg with
  | Code c => c
  | SQ s => c_sq :: s ++ [c_sq]
  | DQ s => c_dq :: s ++ [c_dq]
  | Comment t closed => c_hash :: t ++ (if closed then [c_nl] else [])
  | Embed e => c_dollar :: c_lbrace :: e ++ [c_rbrace]
  end.
Definition render_all (segs : list seg) : list byte := concat (map render segs).

Definition memb (x : byte) (l : list byte) : bool := existsb (N.eqb x) l.

(* no "${" inside l *)
Fixpoint no_dollar_brace (l : list byte) : bool :=
  match l with
  | a :: t => match t with
              | b :: _ => negb ((a =? c_dollar) && (b =? c_lbrace)) && no_dollar_brace t
              | [] => true
              end
  | [] => true
  end.

(* side conditions that make the segmentation unambiguous; rest = the source
   text that follows the segment *)
Definition seg_ok (sg : seg) (rest : list byte) : bool :=
  match sg with
  | Code c => negb (memb c_sq c) && negb (memb c_dq c) && negb (memb c_hash c)
              && no_dollar_brace (c ++ firstn 1 rest)
  | SQ s => negb (memb c_sq s)
  | DQ s => negb (memb c_dq s)
  | Comment t closed => negb (memb c_nl t) && (closed || match rest with [] => true | _ => false end)
  | Embed e => negb (memb c_rbrace e)
  end.
Fixpoint wf_segs (segs : list seg) : bool :=
  match segs with
  | [] => true
  | sg :: r => seg_ok sg (render_all r) && wf_segs r
  end.

(* the trimmed embedded expressions, in order of occurrence *)
Fixpoint exprs (segs : list seg) : list (list byte) :=
  match segs with
  | [] => []
  | Embed e :: r => strip e :: exprs r
  | _ :: r => exprs r
  end.

Definition mem_key (k : list byte) (keys : list (list byte)) : bool := existsb (bytes_eqb k) keys.
(* distinct keys in order of first occurrence, starting from the keys already known *)
Definition first_occ_from (known : list (list byte)) (l : list (list byte)) : list (list byte) :=
  fold_left (fun acc k => if mem_key k acc then acc else acc ++ [k]) l known.
Definition first_occ (l : list (list byte)) : list (list byte) := first_occ_from [] l.

(* position of k in keys (length keys if absent) *)
Fixpoint index_of (k : list byte) (keys : list (list byte)) : N :=
  match keys with
  | [] => 0
  | k' :: r => if bytes_eqb k k' then 0 else 1 + index_of k r
  end.

(* keys numbered from i on *)
Fixpoint number_from (i : N) (keys : list (list byte)) : subst :=
  match keys with
  | [] => []
  | k :: r => (k, varname i) :: number_from (i + 1) r
  end.

(* what a segment becomes, given the final list of distinct expressions *)
Definition out_seg (keys : list (list byte)) (sg : seg) : list byte :=
  match sg with
  | Embed e => varname (index_of (strip e) keys)
  | _ => render sg
  end.

(* the segment-wise specification: (code, substitutions) *)
Definition spec_segments (segs : list seg) : list byte * subst :=
  let keys := first_occ (exprs segs) in
  (concat (map (out_seg keys) segs), number_from 0 keys).

(* ---- ScriptRunner.prepare_variables --------------------------------------- *)
(* PBK_BUFR_MESSAGE, PBK_FILENAME *)
Definition name_message : list byte := [80;66;75;95;66;85;70;82;95;77;69;83;83;65;71;69].
Definition name_filename : list byte := [80;66;75;95;70;73;76;69;78;65;77;69].

Section Run.
  Context {R : Type}.
  (* the dict comprehension over substitutions.items(), then update({...}):
     a list of successive assignments; query = get_query_result(bufr_message, .) *)
  Definition prepare_variables (query : list byte -> R) (msg filename : R) (m : subst)
    : list (list byte * R) :=
    map (fun kv => (snd kv, query (fst kv))) m ++ [(name_message, msg); (name_filename, filename)].
  (* reading a name: the last assignment wins *)
  Fixpoint lookup_last (k : list byte) (l : list (list byte * R)) : option R :=
    match l with
    | [] => None
    | (k', v) :: r =>
      match lookup_last k r with
      | Some x => Some x
      | None => if bytes_eqb k k' then Some v else None
      end
    end.
End Run.
