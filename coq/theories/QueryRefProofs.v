(* QueryRefProofs.v — C16: the query model (Query.v) equals the reference evaluation
   over the wired tree (QueryRef.ref_gen), for every path of child and attribute steps. *)
From PBK Require Import Base Descr Walk Wire Nested PySlice PathParser Query QueryProofs QuerySpec QueryRef.
From Coq Require Import ZifyBool ZifyNat ZifyN.

(* ---- the result monad ------------------------------------------------------------------ *)
Lemma bind_assoc {A B C} (r : result A) (f : A -> result B) (g : B -> result C) :
  bind (bind r f) g = bind r (fun a => bind (f a) g).
Proof. destruct r; reflexivity. Qed.

Lemma bind_ext {A B} (r : result A) (f g : A -> result B) :
  (forall a, f a = g a) -> bind r f = bind r g.
Proof. intros H. destruct r; cbn [bind]; [apply H|reflexivity]. Qed.

Lemma bind_ret {A} (r : result A) : bind r (fun a => Ok a) = r.
Proof. destruct r; reflexivity. Qed.

(* ---- collect ----------------------------------------------------------------------------- *)
Lemma collect_ext {A B} (f g : A -> result (list B)) l :
  (forall x, In x l -> f x = g x) -> collect f l = collect g l.
Proof.
  induction l as [|x l IH]; intros H; cbn [collect]; [reflexivity|].
  rewrite (H x (or_introl eq_refl)), IH; [reflexivity|]. intros y Hy. apply H. right. exact Hy.
Qed.

Lemma collect_app {A B} (f : A -> result (list B)) l1 l2 :
  collect f (l1 ++ l2) = (let* a := collect f l1 in let* b := collect f l2 in Ok (a ++ b)).
Proof.
  induction l1 as [|x l1 IH]; cbn [collect app bind].
  - rewrite bind_ret. reflexivity.
  - rewrite IH. destruct (f x) as [a|e]; cbn [bind]; [|reflexivity].
    destruct (collect f l1) as [b|e]; cbn [bind]; [|reflexivity].
    destruct (collect f l2) as [d|e]; cbn [bind]; [|reflexivity].
    rewrite app_assoc. reflexivity.
Qed.

Lemma fold_left_err {A B} (step : result A -> B -> result A) l e :
  (forall x, step (Err e) x = Err e) -> fold_left step l (Err e) = Err e.
Proof. intros H. induction l as [|x l IH]; cbn [fold_left]; [reflexivity|]. rewrite H. exact IH. Qed.

(* the accumulating loops of the implementation are [collect] *)
Lemma fold_collect {A B} (g : A -> result (list B)) l : forall a0,
  fold_left (fun acc x => let* a := acc in let* y := g x in Ok (a ++ y)) l (Ok a0) =
  (let* b := collect g l in Ok (a0 ++ b)).
Proof.
  induction l as [|x l IH]; intros a0; cbn [fold_left collect bind].
  - rewrite app_nil_r. reflexivity.
  - destruct (g x) as [y|e]; cbn [bind].
    + rewrite IH. destruct (collect g l) as [b|e]; cbn [bind]; [rewrite app_assoc|]; reflexivity.
    + apply fold_left_err. reflexivity.
Qed.

Lemma fold_left_ext {A B} (f g : A -> B -> A) l : (forall a x, f a x = g a x) ->
  forall a, fold_left f l a = fold_left g l a.
Proof. intros H. induction l as [|x l IH]; intros a; cbn [fold_left]; [reflexivity|]. rewrite H. apply IH. Qed.

Lemma concat_res_collect {A} (f : A -> result (list qres)) l : concat_res (map f l) = collect f l.
Proof.
  unfold concat_res.
  assert (G : forall a0, fold_left (fun acc r => let* a := acc in let* x := r in Ok (a ++ x)) (map f l) (Ok a0) =
                         (let* b := collect f l in Ok (a0 ++ b))).
  { induction l as [|x l IH]; intros a0; cbn [map fold_left collect bind].
    - rewrite app_nil_r. reflexivity.
    - destruct (f x) as [y|e]; cbn [bind].
      + rewrite IH. destruct (collect f l) as [b|e]; cbn [bind]; [rewrite app_assoc|]; reflexivity.
      + apply fold_left_err. reflexivity. }
  rewrite G. cbn [app]. apply bind_ret.
Qed.

Lemma collect_leaf_node ns : collect leaf_node ns = Ok (map RNode ns).
Proof. induction ns as [|x ns IH]; cbn [collect map]; [reflexivity|]. rewrite IH. reflexivity. Qed.

(* ---- one step: filter_for_entities is [select] --------------------------------------------- *)
Section Step.
Context (attrs : list attr) (labels : list (list char)).
Local Notation lab := (label_of labels).

Lemma is1_label c p : is1 attrs labels c p = chars_eqb (lab (snd p)) (c_id c).
Proof.
  unfold is1, node_matches. destruct (chars_eqb _ _); [reflexivity|].
  destruct (c_sep c =? SEP_DESCEND)%N; [|reflexivity].
  destruct (has_members (snd p) || has_attributes attrs (snd p) || has_factor (snd p)); reflexivity.
Qed.

Lemma matched_labelled c nodes : matched_of attrs labels c nodes = labelled lab c nodes.
Proof. unfold matched_of, labelled. apply filter_ext. intros p. apply is1_label. Qed.

(* a negative integer (never produced by the parser) behaves like 0 *)
Lemma ffe_loop_neg c k : c_slice c = SInt k -> (c_sep c =? SEP_DESCEND)%N = false -> (k < 0)%Z ->
  forall nodes kept,
  ffe_loop attrs labels c nodes kept [] =
  match filter (is1 attrs labels c) nodes with x :: _ => inr x | [] => inl (kept, []) end.
Proof.
  intros Hs Hd Hk. induction nodes as [|[i n] r IH]; intros kept; cbn [Query.ffe_loop filter]; [reflexivity|].
  cbv zeta. change (is1 attrs labels c (i, n)) with ((node_matches attrs labels n c =? 1)%N).
  rewrite Hs, Hd. cbn [negb andb]. rewrite (nm_not2 attrs labels c n Hd).
  destruct (node_matches attrs labels n c =? 1)%N.
  - cbn [app length]. destruct (Z.ltb_spec k (Z.of_nat 1)); [|lia]. reflexivity.
  - cbn [length]. destruct (Z.ltb_spec k (Z.of_nat 0)); [|lia]. cbn [rev]. apply IH.
Qed.

Lemma filter_filter_incl {A} (f g : A -> bool) l :
  (forall x, In x l -> f x = true -> g x = true) -> filter f (filter g l) = filter f l.
Proof.
  induction l as [|x l IH]; intros H; cbn [filter]; [reflexivity|].
  assert (IH' : filter f (filter g l) = filter f l) by (apply IH; intros y Hy; apply H; right; exact Hy).
  destruct (g x) eqn:Eg; cbn [filter].
  - rewrite IH'. reflexivity.
  - destruct (f x) eqn:Ef; [|exact IH']. rewrite (H x (or_introl eq_refl) Ef) in Eg. discriminate.
Qed.

Theorem ffe_select c nodes : (c_sep c =? SEP_DESCEND)%N = false ->
  filter_for_entities attrs labels nodes c = select lab c nodes.
Proof.
  intros Hd. unfold select. rewrite <- matched_labelled.
  destruct (c_slice c) as [k|a b st] eqn:Hs; cbn [cut].
  - destruct (Z.ltb_spec k 0) as [Hneg|Hpos].
    + unfold filter_for_entities. rewrite (ffe_loop_neg c k Hs Hd Hneg).
      fold (matched_of attrs labels c nodes).
      replace (Z.to_nat k) with O by lia.
      destruct (matched_of attrs labels c nodes) as [|x r]; cbn [nth_error]; [|reflexivity].
      rewrite Hs. cbn [nth_error]. destruct (Z.to_nat k); reflexivity.
    + apply ffe_int; assumption.
  - destruct (py_slice (matched_of attrs labels c nodes) a b st) as [sel|e] eqn:Ep.
    + rewrite (ffe_slice_child attrs labels c a b st nodes sel Hs Hd Ep). cbn [bind]. f_equal.
      unfold matched_of. symmetry. apply filter_filter_incl.
      intros x Hx Hm. apply existsb_exists in Hm as (y & Hy & Ey). apply Nat.eqb_eq in Ey.
      destruct (py_slice_picks _ _ _ _ _ Ep) as [Hincl _]. apply Hincl in Hy.
      unfold matched_of in Hy. apply filter_In in Hy as [HyE Hy1].
      rewrite <- (ssorted_fst_inj _ (ssorted_enumerate nodes 0) y x HyE Hx Ey). exact Hy1.
    + rewrite (ffe_slice attrs labels c a b st nodes Hs), Ep. reflexivity.
Qed.

End Step.
Lemma sep_child_not_descend c : (c_sep c =? SEP_CHILD)%N = true -> (c_sep c =? SEP_DESCEND)%N = false.
Proof. intros H. apply N.eqb_eq in H. rewrite H. reflexivity. Qed.
Lemma sep_attrib_not_descend c : (c_sep c =? SEP_ATTRIB)%N = true -> (c_sep c =? SEP_DESCEND)%N = false.
Proof. intros H. apply N.eqb_eq in H. rewrite H. reflexivity. Qed.
Lemma sep_attrib_not_child c : (c_sep c =? SEP_ATTRIB)%N = true -> (c_sep c =? SEP_CHILD)%N = false.
Proof. intros H. apply N.eqb_eq in H. rewrite H. reflexivity. Qed.

Section T.
Context (attrs : list attr) (labels : list (list char)).
Local Notation lab := (label_of labels).
Local Notation fsub := (filter_sub attrs labels).
Local Notation fkind := (filter_kind attrs labels).
Local Notation ffe := (filter_for_entities attrs labels).

Definition proceed (k : nat) (rest : list comp) (ns : list qn) : result (list qres) :=
  match rest with [] => Ok (map RNode ns) | _ => concat_res (map (fun x => fsub k x rest) ns) end.

Lemma proceed_nil k rest : proceed k rest [] = Ok [].
Proof. destruct rest; reflexivity. Qed.

Lemma fkind_child_eq k n c rest : (c_sep c =? SEP_DESCEND)%N = false ->
  fkind (S k) true n (c :: rest) =
  if negb (has_members n) then Err EQuery else
  match n with
  | QRep _ _ nmem _ ms =>
      let mem := members_of n in
      match mem with
      | [] => Ok []
      | _ =>
        let* first := ffe (firstn nmem mem) c in
        match map fst first with
        | [] => Ok []
        | _ =>
          let* env := fold_left (fun acc ch =>
                        let* a := acc in let* r := proceed k rest (pick (map fst first) ch) in
                        Ok (match r with [] => a | _ => a ++ [RList r] end))
                      (chunk (S (length mem)) nmem mem) (Ok []) in
          Ok (match env with [] => [] | _ => [RList env] end)
        end
      end
  | _ => let* sel := ffe (members_of n) c in proceed k rest (map snd sel)
  end.
Proof.
  intros Hd. cbn [filter_kind]. rewrite Hd.
  destruct (negb (has_members n)); [reflexivity|].
  destruct n; try reflexivity.
  all: try (apply bind_ext; intros sel; destruct (map snd sel); [symmetry; apply proceed_nil|reflexivity]).
Qed.

Lemma fkind_attr_eq k n c rest : (c_sep c =? SEP_DESCEND)%N = false ->
  fkind (S k) false n (c :: rest) =
  if negb (has_attributes attrs n || has_factor n) then Err EQuery else
  let* f := (match n with
             | QRep true _ _ fi _ => let* s := ffe [QV fi] c in Ok (map snd s)
             | _ => Ok []
             end) in
  let* a := (match n with
             | QV i => if has_attributes attrs n
                       then let* s := ffe (map QV (Query.attrs_of attrs i)) c in Ok (map snd s)
                       else Ok []
             | _ => Ok []
             end) in
  proceed k rest (f ++ a).
Proof.
  intros Hd. cbn [filter_kind]. rewrite Hd.
  destruct (negb (has_attributes attrs n || has_factor n)); [reflexivity|].
  apply bind_ext; intros f. apply bind_ext; intros a.
  destruct (f ++ a); [symmetry; apply proceed_nil|reflexivity].
Qed.

Lemma fsub_eq k n c rest :
  fsub (S k) n (c :: rest) =
  if (c_sep c =? SEP_CHILD)%N then fkind k true n (c :: rest)
  else if (c_sep c =? SEP_ATTRIB)%N then fkind k false n (c :: rest)
  else filter_desc attrs labels k n (c :: rest).
Proof. reflexivity. Qed.

Lemma envelope_fold (g : list qn -> result (list qres)) l :
  fold_left (fun acc ch => let* a := acc in let* r := g ch in
                           Ok (match r with [] => a | _ => a ++ [RList r] end)) l (Ok []) =
  collect (fun ch => let* r := g ch in Ok (envelope RList r)) l.
Proof.
  rewrite (fold_left_ext _ (fun acc x => let* a := acc in
                                         let* y := (let* r := g x in Ok (envelope RList r)) in Ok (a ++ y))).
  - rewrite fold_collect. cbn [app]. apply bind_ret.
  - intros [a|e] x; cbn [bind]; [|reflexivity]. destruct (g x) as [[|r0 r]|e]; cbn [bind envelope]; [|reflexivity|reflexivity].
    rewrite app_nil_r. reflexivity.
Qed.

(* one child / attribute step of the model is the reference step *)
Lemma fsub_step_simple k n c rest (cont : list qn -> result (list qres)) :
  simple_comp c = true -> (forall ns, proceed k rest ns = cont ns) ->
  fsub (S (S k)) n (c :: rest) = ref_step attrs labels RList c n cont.
Proof.
  intros Hc Hcont. unfold ref_step. rewrite fsub_eq.
  unfold simple_comp in Hc. destruct (c_sep c =? SEP_CHILD)%N eqn:Ech.
  + pose proof (sep_child_not_descend c Ech) as Hd. rewrite (fkind_child_eq k n c rest Hd).
    destruct n as [i|id|id ms|dl id nmem f ms|ms]; cbn [has_members negb]; try reflexivity.
    * rewrite (ffe_select attrs labels c _ Hd). apply bind_ext. intros sel. apply Hcont.
    * cbv zeta. destruct (members_of (QRep dl id nmem f ms)) as [|m0 mem] eqn:Em; [reflexivity|].
      rewrite (ffe_select attrs labels c _ Hd).
      apply bind_ext. intros sel. destruct sel as [|s0 sel]; [reflexivity|]. cbn [map].
      rewrite envelope_fold.
      erewrite collect_ext; [reflexivity|]. intros ch _. cbv beta. rewrite Hcont. reflexivity.
    * rewrite (ffe_select attrs labels c _ Hd). apply bind_ext. intros sel. apply Hcont.
  + cbn [orb] in Hc. rewrite Hc. pose proof (sep_attrib_not_descend c Hc) as Hd.
    rewrite (fkind_attr_eq k n c rest Hd).
    destruct n as [i|id|id ms|[|] id nmem f ms|ms]; cbn [has_attributes has_factor negb orb]; try reflexivity.
    * destruct (Query.attrs_of attrs i) as [|a ats] eqn:Ea; cbn [negb]; [reflexivity|].
      cbn [bind app]. rewrite (ffe_select attrs labels c _ Hd). rewrite bind_assoc.
      apply bind_ext. intros sel. cbn [bind]. apply Hcont.
    * rewrite (ffe_select attrs labels c _ Hd). rewrite !bind_assoc.
      apply bind_ext. intros sel. cbn [bind]. rewrite app_nil_r. apply Hcont.
Qed.

Theorem filter_sub_ref : forall cs n k, simple_path cs = true -> (2 * length cs + 1 <= k)%nat ->
  fsub k n cs = ref_nodes attrs labels cs n.
Proof.
  induction cs as [|c rest IH]; intros n k Hsp Hk.
  - destruct k as [|k]; [cbn in Hk; lia|]. reflexivity.
  - cbn [length] in Hk. destruct k as [|[|k]]; [lia|lia|].
    cbn [simple_path forallb] in Hsp. apply andb_prop in Hsp as [Hc Hrest].
    unfold ref_nodes at 1. cbn [ref_gen]. apply fsub_step_simple; [exact Hc|].
    intros ns. unfold proceed. destruct rest as [|c2 rest2]; [symmetry; apply collect_leaf_node|].
    rewrite concat_res_collect. apply collect_ext. intros x _. apply IH; [exact Hrest|lia].
Qed.
End T.

(* ---- values: create_values_from_nodes is [ref_values] --------------------------------------- *)
Lemma qres_ind' (P : qres -> Prop) :
  (forall n, P (RNode n)) -> (forall l, Forall P l -> P (RList l)) -> forall r, P r.
Proof.
  intros Hn Hl. fix IH 1. intros [n|l]; [apply Hn|]. apply Hl.
  induction l as [|x l IHl]; constructor; [apply IH|exact IHl].
Qed.

Fixpoint rdepth (r : qres) : nat :=
  match r with
  | RNode _ => 1
  | RList l => S ((fix go (l : list qres) : nat :=
                     match l with [] => O | x :: t => Nat.max (rdepth x) (go t) end) l)
  end.

Lemma rdepth_list l d : Forall (fun r => rdepth r <= d)%nat l -> (rdepth (RList l) <= S d)%nat.
Proof.
  intros H. cbn [rdepth]. apply le_n_S. induction H as [|x l Hx _ IH]; [lia|]. lia.
Qed.

Lemma rdepth_list_inv l d : (rdepth (RList l) <= S d)%nat -> Forall (fun r => rdepth r <= d)%nat l.
Proof.
  cbn [rdepth]. intros H. apply le_S_n in H. induction l as [|x l IH]; constructor; [lia|apply IH; lia].
Qed.

Lemma ref_value_list l : ref_value (RList l) = (let* vs := ref_values l in Ok (VList vs)).
Proof.
  cbn [ref_value]. unfold ref_values. f_equal.
  induction l as [|x l IH]; cbn [collect]; [reflexivity|]. rewrite IH.
  destruct (ref_value x) as [v|e]; cbn [bind]; [|reflexivity].
  destruct (collect _ l) as [vs|e]; reflexivity.
Qed.

Lemma values_fold (g : qres -> result vres) l :
  fold_left (fun acc x => let* a := acc in let* v := g x in Ok (a ++ [v])) l (Ok []) =
  collect (fun x => let* v := g x in Ok [v]) l.
Proof.
  rewrite (fold_left_ext _ (fun acc x => let* a := acc in let* y := (let* v := g x in Ok [v]) in Ok (a ++ y))).
  - rewrite fold_collect. cbn [app]. apply bind_ret.
  - intros [a|e] x; cbn [bind]; [|reflexivity]. destruct (g x); reflexivity.
Qed.

Lemma values_of_ref : forall r fuel, (rdepth r <= fuel)%nat -> values_of fuel r = ref_value r.
Proof.
  induction r as [n|l IH] using qres_ind'; intros fuel Hf.
  - destruct fuel as [|k]; [cbn in Hf; lia|]. reflexivity.
  - destruct fuel as [|k]; [cbn in Hf; lia|]. apply rdepth_list_inv in Hf.
    rewrite ref_value_list. cbn [values_of]. rewrite values_fold. unfold ref_values. f_equal.
    apply collect_ext. intros x Hx. rewrite Forall_forall in IH, Hf. rewrite (IH x Hx k (Hf x Hx)). reflexivity.
Qed.

Lemma collect_Forall {A B} (P : B -> Prop) (f : A -> result (list B)) l : forall rs,
  (forall x r, In x l -> f x = Ok r -> Forall P r) -> collect f l = Ok rs -> Forall P rs.
Proof.
  induction l as [|x l IH]; intros rs H E; cbn [collect] in E.
  - injection E as <-. constructor.
  - destruct (f x) as [a|e] eqn:Ea; cbn [bind] in E; [|discriminate].
    destruct (collect f l) as [b|e] eqn:Eb; cbn [bind] in E; [|discriminate]. injection E as <-.
    apply Forall_app. split; [eapply H; [left; reflexivity|exact Ea]|].
    apply IH; [|reflexivity]. intros y r Hy. apply H. right. exact Hy.
Qed.

Section D.
Context (attrs : list attr) (labels : list (list char)).

Lemma Forall_le_mono d d' (l : list qres) : (d <= d')%nat ->
  Forall (fun r => rdepth r <= d)%nat l -> Forall (fun r => rdepth r <= d')%nat l.
Proof. intros H. apply Forall_impl. intros r Hr. lia. Qed.

(* nesting of a result: two list levels per component at most *)
Lemma ref_nodes_depth : forall cs n rs, ref_nodes attrs labels cs n = Ok rs ->
  Forall (fun r => rdepth r <= 2 * length cs + 1)%nat rs.
Proof.
  induction cs as [|c rest IH]; intros n rs E; [discriminate|].
  unfold ref_nodes in E. cbn [ref_gen] in E. fold (ref_nodes attrs labels) in E.
  set (cont := match rest with
               | [] => collect leaf_node
               | _ :: _ => collect (ref_nodes attrs labels rest) end) in E.
  unfold ref_step in E.
  assert (Hcont : forall ns r, cont ns = Ok r -> Forall (fun r => rdepth r <= 2 * length rest + 1)%nat r).
  { intros ns r Er. unfold cont in Er. destruct rest as [|c2 rest2].
    - rewrite collect_leaf_node in Er. injection Er as <-. apply Forall_forall. intros x Hx.
      apply in_map_iff in Hx as (y & <- & _). cbn. lia.
    - eapply collect_Forall; [|exact Er]. intros x r0 _ E0. apply IH in E0. exact E0. }
  assert (Hup : forall r, Forall (fun r => rdepth r <= 2 * length rest + 1)%nat r ->
                          Forall (fun r => rdepth r <= 2 * length (c :: rest) + 1)%nat r).
  { intros r. apply Forall_le_mono. cbn [length]. lia. }
  destruct (c_sep c =? SEP_CHILD)%N.
  - destruct n as [i|id|id ms|dl id nmem f ms|ms]; try discriminate.
    + destruct (select _ c _) as [sel|e]; cbn [bind] in E; [|discriminate]. apply Hup. eapply Hcont. exact E.
    + cbv zeta in E. destruct (members_of (QRep dl id nmem f ms)) as [|m0 mem]; [injection E as <-; constructor|].
      destruct (select _ c _) as [[|s0 sel]|e]; cbn [bind] in E; [injection E as <-; constructor| |discriminate].
      match type of E with bind ?r _ = _ => destruct r as [env|e] eqn:Eenv end; cbn [bind] in E; [|discriminate].
      injection E as <-.
      assert (Henv : Forall (fun r => rdepth r <= 2 * length rest + 2)%nat env).
      { eapply collect_Forall; [|exact Eenv]. cbv beta. intros rep r _ Er.
        change (bind (cont (pick (map fst (s0 :: sel)) rep)) (fun r => Ok (envelope RList r)) = Ok r) in Er.
        destruct (cont (pick (map fst (s0 :: sel)) rep)) as [r1|e] eqn:E1; cbn [bind] in Er; [|discriminate].
        injection Er as <-. apply Hcont in E1. destruct r1 as [|x r1]; cbn [envelope]; [constructor|].
        constructor; [|constructor]. apply rdepth_list in E1. lia. }
      destruct env as [|x env]; cbn [envelope]; [constructor|]. constructor; [|constructor].
      apply rdepth_list in Henv. cbn [length]. lia.
    + destruct (select _ c _) as [sel|e]; cbn [bind] in E; [|discriminate]. apply Hup. eapply Hcont. exact E.
  - destruct (c_sep c =? SEP_ATTRIB)%N; [|discriminate].
    destruct n as [i|id|id ms|[|] id nmem f ms|ms]; try discriminate.
    + destruct (Query.attrs_of attrs i) as [|a ats]; [discriminate|].
      destruct (select _ c _) as [sel|e]; cbn [bind] in E; [|discriminate]. apply Hup. eapply Hcont. exact E.
    + destruct (select _ c _) as [sel|e]; cbn [bind] in E; [|discriminate]. apply Hup. eapply Hcont. exact E.
Qed.

(* THE MODEL EQUALS THE TREE REFERENCE (nodes first, values afterwards) *)
Theorem process_one_subset_ref_nodes fuel nodes p :
  simple_path (p_comps p) = true -> (2 * length (p_comps p) + 1 <= fuel)%nat ->
  process_one_subset attrs labels fuel nodes p = eval_ref_nodes attrs labels nodes (p_comps p).
Proof.
  intros Hsp Hf. unfold process_one_subset, eval_ref_nodes.
  rewrite (filter_sub_ref attrs labels _ _ _ Hsp Hf).
  destruct (ref_nodes attrs labels (p_comps p) (QRoot nodes)) as [rs|e] eqn:E; cbn [bind]; [|reflexivity].
  rewrite values_fold. unfold ref_values. apply collect_ext. intros x Hx.
  apply ref_nodes_depth in E. rewrite Forall_forall in E. rewrite (values_of_ref x fuel); [reflexivity|].
  specialize (E x Hx). lia.
Qed.

End D.
