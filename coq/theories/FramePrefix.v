(* FramePrefix.v — message-level truncation and trailing-byte independence
   (C12, first sentence; framing facts for C04).

   Part 1 (trailing bytes): a corollary of FrameProofs.decode_span.
   Part 2 (truncation): the "cut" calculus.  A reader operation [f] CUTS when,
   whenever it succeeds on a stream R consuming the prefix e, then on every
   truncation [firstn k R] of R it
     - returns the same value and the truncated rest when e fits (|e| <= k),
     - fails with a LIBRARY error otherwise.
   Every primitive of the bit reader cuts; cuts is closed under bind; hence the
   parameter loop, decode_section, the section loop and decode_message cut —
   provided the template decoder (the abstract [decode_data]) cuts. *)
From PBK Require Import Base Bits BitsProofs Frame FrameProofs.
From Coq Require Import ZifyBool ZifyNat ZifyN.

(* ------------------------------------------------------------------------ *)
(* the template-decoder stub of the correspondence runs (model/drv_frame.ml:  *)
(* stub_decode_data), transcribed: templates made of 031031 only              *)
(* ------------------------------------------------------------------------ *)
Definition stub_dd (props : list (pname * pvalue)) (r : reader) : result (bits * reader) :=
  let ids := match prop_get Nunexpanded_descriptors props with Some (PDescs l) => l | _ => [] end in
  let nsub := match prop_get Nn_subsets props with Some (PUint z) => z | _ => 0%Z end in
  if existsb (fun id => negb (id =? 31031)%Z) ids then Err EUnknownDescriptor
  else take_bits (Z.to_nat (nsub * Z.of_nat (length ids))) r.

Lemma stub_dd_prefix : forall p r b r', stub_dd p r = Ok (b, r') -> r = b ++ r'.
Proof.
  intros p r b r'. unfold stub_dd. destruct (existsb _ _); [discriminate|].
  intros H. apply take_bits_ok in H as [H _]. exact H.
Qed.

Lemma stub_dd_suffix : forall p r b r' s,
  stub_dd p r = Ok (b, r') -> stub_dd p (r ++ s) = Ok (b, r' ++ s).
Proof.
  intros p r b r' s. unfold stub_dd. destruct (existsb _ _); [discriminate|].
  intros H. apply take_bits_suffix. exact H.
Qed.

(* ------------------------------------------------------------------------ *)
(* Part 1: bytes that follow a message never influence its decoding          *)
(* ------------------------------------------------------------------------ *)
Section Trailing.
Variable decode_data : list (pname * pvalue) -> reader -> result (bits * reader).
Hypothesis decode_data_prefix : forall p r b r', decode_data p r = Ok (b, r') -> r = b ++ r'.
Hypothesis decode_data_suffix : forall p r b r' s,
  decode_data p r = Ok (b, r') -> decode_data p (r ++ s) = Ok (b, r' ++ s).

(* the WHOLE result record — sections (indices, layouts, extents, values), the
   message attributes and the serialized bytes — is the same; the serialized
   bytes are a segment of the input that ends before the trailing bytes *)
Theorem message_trailing_bytes : forall sig info ign s t m,
  decode_message decode_data sig info ign s = Ok m ->
  decode_message decode_data sig info ign (s ++ t) = Ok m /\
  exists before after, s ++ t = before ++ m_bytes m ++ after ++ t.
Proof.
  intros sig info ign s t m H.
  destruct (decode_span decode_data decode_data_prefix decode_data_suffix _ _ _ _ _ H)
    as (Hall & before & after & Hs & _).
  split; [apply Hall|]. exists before, after. rewrite Hs at 1. rewrite <- !app_assoc. reflexivity.
Qed.

(* in the other direction: a successful decode of s ++ t that consumed no more
   than s is a decode of s — see Part 2 (message_cut) *)
End Trailing.

Theorem message_trailing_bytes_stub : forall sig info ign s t m,
  decode_message stub_dd sig info ign s = Ok m ->
  decode_message stub_dd sig info ign (s ++ t) = Ok m.
Proof.
  intros sig info ign s t m H.
  apply (message_trailing_bytes stub_dd stub_dd_prefix stub_dd_suffix _ _ _ _ t _ H).
Qed.

(* ------------------------------------------------------------------------ *)
(* Part 2: truncation                                                        *)
(* ------------------------------------------------------------------------ *)
Definition lib_fail {A} (x : result A) : Prop := exists e, x = Err e /\ is_lib_err e = true.

Lemma lib_fail_bind {A B} (x : result A) (f : A -> result B) : lib_fail x -> lib_fail (bind x f).
Proof. intros (e & -> & He). exists e. split; [reflexivity|exact He]. Qed.

Lemma lib_fail_not_ok {A} (x : result A) a : lib_fail x -> x <> Ok a.
Proof. intros (e & -> & _). discriminate. Qed.

Definition cuts {A} (f : reader -> result (A * reader)) : Prop :=
  forall R a R', f R = Ok (a, R') ->
    exists e, R = e ++ R' /\
      forall k,
        ((length e <= k)%nat -> f (firstn k R) = Ok (a, firstn (k - length e) R')) /\
        ((k < length e)%nat -> lib_fail (f (firstn k R))).

(* it is enough to consider cuts inside the stream *)
Lemma cuts_intro_le {A} (f : reader -> result (A * reader)) :
  (forall R a R', f R = Ok (a, R') ->
     exists e, R = e ++ R' /\
       forall k, (k <= length R)%nat ->
         ((length e <= k)%nat -> f (firstn k R) = Ok (a, firstn (k - length e) R')) /\
         ((k < length e)%nat -> lib_fail (f (firstn k R)))) ->
  cuts f.
Proof.
  intros H R a R' Hf. destruct (H _ _ _ Hf) as (e & E & Hk). exists e. split; [exact E|].
  intros k. destruct (Nat.le_gt_cases k (length R)) as [Hle|Hgt]; [apply Hk, Hle|].
  assert (L : length R = (length e + length R')%nat) by (rewrite E, app_length; reflexivity).
  split.
  - intros _. rewrite firstn_all2 by lia. rewrite firstn_all2 by lia. exact Hf.
  - intros Hlt. exfalso. lia.
Qed.

Lemma cuts_ext {A} (f g : reader -> result (A * reader)) :
  (forall R, f R = g R) -> cuts f -> cuts g.
Proof.
  intros Hfg Hf R a R' Hg. rewrite <- Hfg in Hg. destruct (Hf _ _ _ Hg) as (e & E & Hk).
  exists e. split; [exact E|]. intros k. rewrite <- Hfg. apply Hk.
Qed.

Lemma cuts_ret {A} (a : A) : cuts (fun R => Ok (a, R)).
Proof.
  intros R a' R' H. injection H as <- <-. exists []. split; [reflexivity|].
  intros k. cbn [length]. rewrite Nat.sub_0_r. split; [reflexivity|lia].
Qed.

Lemma cuts_err {A} (e : err) : cuts (fun _ : reader => @Err (A * reader) e).
Proof. intros R a R' H. discriminate. Qed.

Lemma cuts_bind {A B} (f : reader -> result (A * reader)) (g : A -> reader -> result (B * reader)) :
  cuts f -> (forall a, cuts (g a)) ->
  cuts (fun R => let* (a, R1) := f R in g a R1).
Proof.
  intros Hf Hg R b R' H. apply bind_ok in H as ([a R1] & H1 & H2).
  destruct (Hf _ _ _ H1) as (e1 & E1 & K1). destruct (Hg a _ _ _ H2) as (e2 & E2 & K2).
  exists (e1 ++ e2). split; [rewrite E1, E2, app_assoc; reflexivity|].
  intros k. rewrite app_length. split.
  - intros Hle. destruct (K1 k) as [K1a _]. rewrite K1a by lia. cbn [bind].
    destruct (K2 (k - length e1)%nat) as [K2a _]. rewrite K2a by lia.
    replace (k - length e1 - length e2)%nat with (k - (length e1 + length e2))%nat by lia. reflexivity.
  - intros Hlt. destruct (Nat.le_gt_cases (length e1) k) as [Hle|Hgt].
    + destruct (K1 k) as [K1a _]. rewrite K1a by lia. cbn [bind].
      destruct (K2 (k - length e1)%nat) as [_ K2b]. apply K2b. lia.
    + destruct (K1 k) as [_ K1b]. apply lib_fail_bind, K1b, Hgt.
Qed.

Lemma cuts_map {A B} (f : reader -> result (A * reader)) (h : A -> B) :
  cuts f -> cuts (fun R => let* (a, R1) := f R in Ok (h a, R1)).
Proof. intros Hf. apply (cuts_bind f (fun a R1 => Ok (h a, R1)) Hf). intros a. apply cuts_ret. Qed.

(* ---- the primitives ------------------------------------------------------- *)
Lemma cuts_take_bits n : cuts (take_bits n).
Proof.
  intros R a R' H. unfold take_bits in H. destruct (Nat.ltb_spec (length R) n) as [|Hn]; [discriminate|].
  injection H as <- <-. exists (firstn n R). split; [symmetry; apply firstn_skipn|].
  rewrite firstn_length, Nat.min_l by exact Hn. intros k. split.
  - intros Hle. unfold take_bits. rewrite firstn_length.
    destruct (Nat.ltb_spec (Nat.min k (length R)) n); [lia|].
    rewrite firstn_firstn, Nat.min_l by exact Hle. rewrite skipn_firstn_comm. reflexivity.
  - intros Hlt. exists EBitRead. split; [|reflexivity]. apply take_bits_short. rewrite firstn_length. lia.
Qed.

Lemma cuts_read_uint w : cuts (read_uint w).
Proof.
  unfold read_uint. destruct (w <=? 0)%Z; [apply cuts_err|].
  apply (cuts_map (take_bits (Z.to_nat w)) of_bits), cuts_take_bits.
Qed.

Lemma cuts_read_bin w : cuts (read_bin w).
Proof. unfold read_bin. destruct (w <? 0)%Z; [apply cuts_err|apply cuts_take_bits]. Qed.

Lemma cuts_read_bytes n : cuts (read_bytes n).
Proof.
  unfold read_bytes. destruct (n <? 0)%Z; [apply cuts_err|].
  apply (cuts_map (take_bits (8 * Z.to_nat n)) (bytes_of_bits (Z.to_nat n))), cuts_take_bits.
Qed.

Lemma cuts_read_bool : cuts read_bool.
Proof.
  intros R a R' H. destruct R as [|x R]; [discriminate|]. injection H as <- <-.
  exists [x]. split; [reflexivity|]. intros k. cbn [length]. split.
  - intros Hle. destruct k as [|k]; [lia|]. cbn [firstn read_bool]. replace (S k - 1)%nat with k by lia. reflexivity.
  - intros Hlt. assert (k = 0%nat) by lia. subst k. exists EBitRead. split; reflexivity.
Qed.

Lemma cuts_read_typed t n : cuts (read_typed t n).
Proof.
  unfold read_typed. destruct t.
  - apply (cuts_map (read_uint n) (fun v => PUint (Z.of_N v))), cuts_read_uint.
  - apply (cuts_map (read_bytes (n / 8)) PBytes), cuts_read_bytes.
  - apply (cuts_map (read_bin n) PBin), cuts_read_bin.
  - apply (cuts_map read_bool PBool), cuts_read_bool.
  - apply cuts_err.
  - apply cuts_err.
Qed.

(* descriptors *)
Definition desc_body (acc : list Z) (r : reader) : result (list Z * reader) :=
  let* (f, r1) := read_uint 2 r in
  let* (x, r2) := read_uint 6 r1 in
  let* (y, r3) := read_uint 8 r2 in
  Ok ((Z.of_N f * 100000 + Z.of_N x * 1000 + Z.of_N y)%Z :: acc, r3).

Lemma read_desc1_body st : read_desc1 st = let* (acc, r) := st in desc_body acc r.
Proof. reflexivity. Qed.

Lemma cuts_desc_body acc : cuts (desc_body acc).
Proof.
  unfold desc_body.
  apply (cuts_bind (read_uint 2) (fun f r1 =>
           let* (x, r2) := read_uint 6 r1 in
           let* (y, r3) := read_uint 8 r2 in
           Ok ((Z.of_N f * 100000 + Z.of_N x * 1000 + Z.of_N y)%Z :: acc, r3))); [apply cuts_read_uint|].
  intros f.
  apply (cuts_bind (read_uint 6) (fun x r2 =>
           let* (y, r3) := read_uint 8 r2 in
           Ok ((Z.of_N f * 100000 + Z.of_N x * 1000 + Z.of_N y)%Z :: acc, r3))); [apply cuts_read_uint|].
  intros x.
  apply (cuts_map (read_uint 8) (fun y => (Z.of_N f * 100000 + Z.of_N x * 1000 + Z.of_N y)%Z :: acc)), cuts_read_uint.
Qed.

Lemma cuts_iter_desc n : forall acc0, cuts (fun R => N.iter n read_desc1 (Ok (acc0, R))).
Proof.
  induction n as [|n IH] using N.peano_ind; intros acc0.
  - apply (cuts_ext (fun R => Ok (acc0, R))); [reflexivity|apply cuts_ret].
  - apply (cuts_ext (fun R => let* (acc, r) := N.iter n read_desc1 (Ok (acc0, R)) in desc_body acc r)).
    + intros R. rewrite N.iter_succ, read_desc1_body. reflexivity.
    + apply (cuts_bind (fun R => N.iter n read_desc1 (Ok (acc0, R))) desc_body); [apply IH|apply cuts_desc_body].
Qed.

Lemma cuts_read_descs n : cuts (read_descs n).
Proof.
  unfold read_descs.
  apply (cuts_map (fun R => N.iter (Z.to_N n) read_desc1 (Ok ([], R))) (@rev Z)), cuts_iter_desc.
Qed.

(* ------------------------------------------------------------------------ *)
(* the decoder over a template decoder that cuts                             *)
(* ------------------------------------------------------------------------ *)
Section Truncation.
Variable decode_data : list (pname * pvalue) -> reader -> result (bits * reader).
(* the one thing assumed of the template decoder: on a truncated stream it
   either has all the bits it consumes (same result) or fails with a library
   error (the bit-read error of a read past the end) *)
Hypothesis decode_data_cuts : forall p, cuts (decode_data p).

(* one step of the parameter loop *)
Definition read_param (all : list param) (p : param) (env props : list (pname * pvalue))
    (nread : Z) (r : reader) : result (pvalue * reader) :=
  match p_type p with
  | TDescs =>
      let* sl := declared_length all env in
      let* (ids, r') := read_descs ((sl - nread / 8) / 2) r in Ok (PDescs ids, r')
  | TData =>
      let* (b, r') := decode_data props r in Ok (PData b, r')
  | t =>
      if (p_nbits p =? 0)%Z then
        let* sl := declared_length all env in
        read_typed t (sl * 8 - nread) r
      else read_typed t (p_nbits p) r
  end.

Lemma decode_params_cons all p ps start env props r :
  decode_params decode_data all (p :: ps) start env props r =
  let* (v, r1) := read_param all p env props (Z.of_nat (start - length r)) r in
  let* _ := check_expected p v in
  decode_params decode_data all ps start (env ++ [(p_name p, v)]) (add_prop p v props) r1.
Proof. unfold read_param. cbn [decode_params]. destruct (p_type p); reflexivity. Qed.

Lemma cuts_read_param all p env props nread : cuts (read_param all p env props nread).
Proof.
  assert (G : forall t, cuts (fun r => if (p_nbits p =? 0)%Z
                                      then let* sl := declared_length all env in read_typed t (sl * 8 - nread) r
                                      else read_typed t (p_nbits p) r)).
  { intros t. destruct (p_nbits p =? 0)%Z; [|apply cuts_read_typed].
    destruct (declared_length all env) as [sl|e]; cbn [bind]; [apply cuts_read_typed|apply cuts_err]. }
  unfold read_param. destruct (p_type p); try apply G.
  - destruct (declared_length all env) as [sl|e]; cbn [bind]; [|apply cuts_err].
    apply (cuts_map (read_descs ((sl - nread / 8) / 2)) PDescs), cuts_read_descs.
  - apply (cuts_map (decode_data props) PData), decode_data_cuts.
Qed.

(* the parameter loop.  [start] is the reader length when the section started;
   on the truncated stream it is smaller by the number of bits cut off *)
Lemma decode_params_cut all ps : forall start env props R env' props' R',
  decode_params decode_data all ps start env props R = Ok (env', props', R') ->
  (length R <= start)%nat ->
  exists e, R = e ++ R' /\
  forall k, (k <= length R)%nat ->
    ((length e <= k)%nat ->
       decode_params decode_data all ps (start - (length R - k)) env props (firstn k R)
       = Ok (env', props', firstn (k - length e) R')) /\
    ((k < length e)%nat ->
       lib_fail (decode_params decode_data all ps (start - (length R - k)) env props (firstn k R))).
Proof.
  induction ps as [|p ps IH]; intros start env props R env' props' R' H Hstart.
  - cbn [decode_params] in H. injection H as <- <- <-. exists []. split; [reflexivity|].
    intros k Hk. cbn [length decode_params]. rewrite Nat.sub_0_r. split; [reflexivity|lia].
  - rewrite decode_params_cons in H. apply bind_ok in H as ([v r1] & Hv & H).
    apply bind_ok in H as (u & Hc & H).
    destruct (cuts_read_param _ _ _ _ _ _ _ _ Hv) as (e1 & E1 & K1).
    assert (L1 : length R = (length e1 + length r1)%nat) by (rewrite E1, app_length; reflexivity).
    destruct (IH _ _ _ _ _ _ _ H ltac:(lia)) as (e2 & E2 & K2).
    exists (e1 ++ e2). split; [rewrite E1, E2, app_assoc; reflexivity|].
    intros k Hk. rewrite app_length, decode_params_cons.
    replace (start - (length R - k) - length (firstn k R))%nat with (start - length R)%nat
      by (rewrite firstn_length; lia).
    split.
    + intros Hle. destruct (K1 k) as [K1a _]. rewrite K1a by lia. cbn [bind]. rewrite Hc. cbn [bind].
      destruct (K2 (k - length e1)%nat ltac:(lia)) as [K2a _].
      replace (start - (length R - k))%nat with (start - (length r1 - (k - length e1)))%nat by lia.
      rewrite K2a by lia.
      replace (k - length e1 - length e2)%nat with (k - (length e1 + length e2))%nat by lia. reflexivity.
    + intros Hlt. destruct (Nat.le_gt_cases (length e1) k) as [Hle|Hgt].
      * destruct (K1 k) as [K1a _]. rewrite K1a by lia. cbn [bind]. rewrite Hc. cbn [bind].
        destruct (K2 (k - length e1)%nat ltac:(lia)) as [_ K2b].
        replace (start - (length R - k))%nat with (start - (length r1 - (k - length e1)))%nat by lia.
        apply K2b. lia.
      * destruct (K1 k) as [_ K1b]. apply lib_fail_bind, K1b, Hgt.
Qed.

(* the skip to the declared end of the section *)
Definition sec_skip (ps : list param) (env : list (pname * pvalue)) (nread : Z) (r1 : reader)
  : result (unit * reader) :=
  if has_param Nsection_length ps then
    let* sl := declared_length ps env in
    let nbits_unread := (sl * 8 - nread)%Z in
    if (0 <? nbits_unread)%Z then let* (_, r') := read_bin nbits_unread r1 in Ok (tt, r')
    else if (nbits_unread <? 0)%Z then Err ELib
    else Ok (tt, r1)
  else Ok (tt, r1).

Lemma cuts_sec_skip ps env nread : cuts (sec_skip ps env nread).
Proof.
  unfold sec_skip. destruct (has_param Nsection_length ps); [|apply cuts_ret].
  destruct (declared_length ps env) as [sl|e]; cbn [bind]; [|apply cuts_err].
  destruct (0 <? sl * 8 - nread)%Z.
  - apply (cuts_map (read_bin (sl * 8 - nread)) (fun _ => tt)), cuts_read_bin.
  - destruct (sl * 8 - nread <? 0)%Z; [apply cuts_err|apply cuts_ret].
Qed.

Lemma decode_section_skip c props r :
  decode_section decode_data c props r =
  let* (env, props1, r1) := decode_params decode_data (s_params c) (s_params c) (length r) [] props r in
  let* (_, r2) := sec_skip (s_params c) env (Z.of_nat (length r - length r1)) r1 in
  Ok (mkSec (s_index c) (s_params c) (length r - length r2) env, props1, r2).
Proof.
  unfold decode_section, sec_skip.
  destruct (decode_params decode_data (s_params c) (s_params c) (length r) [] props r) as [[[env props1] r1]|e];
    cbn [bind]; [|reflexivity].
  destruct (has_param Nsection_length (s_params c)); cbn [bind]; [|reflexivity].
  destruct (declared_length (s_params c) env) as [sl|e]; cbn [bind]; [|reflexivity].
  destruct (0 <? sl * 8 - Z.of_nat (length r - length r1))%Z.
  - destruct (read_bin (sl * 8 - Z.of_nat (length r - length r1)) r1) as [[b r']|e]; reflexivity.
  - destruct (sl * 8 - Z.of_nat (length r - length r1) <? 0)%Z; reflexivity.
Qed.

(* one section *)
Lemma decode_section_cut c props : cuts (decode_section decode_data c props).
Proof.
  apply cuts_intro_le. intros R [sec props'] R' H. rewrite decode_section_skip in H.
  apply bind_ok in H as ([[env props1] r1] & Hp & H). apply bind_ok in H as ([u r2] & Hs & H).
  injection H as <- <- <-.
  destruct (decode_params_cut _ _ _ _ _ _ _ _ _ Hp (Nat.le_refl _)) as (e1 & E1 & K1).
  destruct (cuts_sec_skip _ _ _ _ _ _ Hs) as (e2 & E2 & K2).
  assert (L1 : length R = (length e1 + length r1)%nat) by (rewrite E1, app_length; reflexivity).
  assert (L2 : length r1 = (length e2 + length r2)%nat) by (rewrite E2, app_length; reflexivity).
  exists (e1 ++ e2). split; [rewrite E1, E2, app_assoc; reflexivity|].
  intros k Hk. rewrite app_length, decode_section_skip.
  assert (Lk : length (firstn k R) = k) by (rewrite firstn_length; lia).
  rewrite Lk. destruct (K1 k Hk) as [K1a K1b].
  replace (length R - (length R - k))%nat with k in K1a, K1b by lia.
  split.
  - intros Hle. rewrite K1a by lia. cbn [bind].
    assert (Lk1 : length (firstn (k - length e1) r1) = (k - length e1)%nat) by (rewrite firstn_length; lia).
    rewrite Lk1. replace (Z.of_nat (k - (k - length e1))) with (Z.of_nat (length R - length r1)) by lia.
    destruct (K2 (k - length e1)%nat) as [K2a _]. rewrite K2a by lia. cbn [bind].
    assert (Lk2 : length (firstn (k - length e1 - length e2) r2) = (k - length e1 - length e2)%nat)
      by (rewrite firstn_length; lia).
    rewrite Lk2.
    replace (k - (k - length e1 - length e2))%nat with (length R - length r2)%nat by lia.
    replace (k - length e1 - length e2)%nat with (k - (length e1 + length e2))%nat by lia. reflexivity.
  - intros Hlt. destruct (Nat.le_gt_cases (length e1) k) as [Hle|Hgt].
    + rewrite K1a by lia. cbn [bind].
      assert (Lk1 : length (firstn (k - length e1) r1) = (k - length e1)%nat) by (rewrite firstn_length; lia).
      rewrite Lk1. replace (Z.of_nat (k - (k - length e1))) with (Z.of_nat (length R - length r1)) by lia.
      destruct (K2 (k - length e1)%nat) as [_ K2b]. apply lib_fail_bind, K2b. lia.
    + apply lib_fail_bind, K1b, Hgt.
Qed.

Lemma decode_section_nbits c props R sec props' R' :
  decode_section decode_data c props R = Ok (sec, props', R') ->
  exists e, R = e ++ R' /\ sec_nbits sec = length e.
Proof.
  intros H. destruct (decode_section_cut _ _ _ _ _ H) as (e & E & _). exists e. split; [exact E|].
  rewrite decode_section_skip in H.
  apply bind_ok in H as ([[env props1] r1] & Hp & H). apply bind_ok in H as ([u r2] & Hs & H).
  injection H as <- <- <-. cbn [sec_nbits]. rewrite E, app_length. lia.
Qed.

(* the section loop *)
Lemma decode_sections_cut defs info ign idxs : forall props secs,
  cuts (decode_sections decode_data defs info ign idxs props secs).
Proof.
  induction idxs as [|i idxs IH]; intros props secs.
  - apply (cuts_ext (fun _ => Err EKey)); [reflexivity|apply cuts_err].
  - destruct (configure_section defs props i info ign) as [[c|]|e] eqn:Hc.
    + apply (cuts_ext (fun R => let* (a, R1) := decode_section decode_data c props R in
                                (fun (a : section * list (pname * pvalue)) R1 =>
                                   let '(sec, props1) := a in
                                   if s_end c then Ok (secs ++ [sec], props1, R1)
                                   else decode_sections decode_data defs info ign idxs props1 (secs ++ [sec]) R1) a R1)).
      * intros R. cbn [decode_sections]. rewrite Hc. cbn [bind].
        destruct (decode_section decode_data c props R) as [[[sec props1] r1]|e]; reflexivity.
      * apply cuts_bind; [apply decode_section_cut|]. intros [sec props1].
        destruct (s_end c); [apply (cuts_ret (secs ++ [sec], props1))|apply IH].
    + apply (cuts_ext (decode_sections decode_data defs info ign idxs props secs)); [|apply IH].
      intros R. cbn [decode_sections]. rewrite Hc. reflexivity.
    + apply (cuts_ext (fun _ => Err e)); [|apply cuts_err].
      intros R. cbn [decode_sections]. rewrite Hc. reflexivity.
Qed.

Lemma decode_sections_nbits defs info ign idxs : forall props secs R secs' props' R',
  decode_sections decode_data defs info ign idxs props secs R = Ok (secs', props', R') ->
  exists e new, R = e ++ R' /\ secs' = secs ++ new /\ length e = sections_nbits new.
Proof.
  induction idxs as [|i idxs IH]; intros props secs R secs' props' R'; cbn [decode_sections]; [discriminate|].
  intros H. apply bind_ok in H as (oc & Hc & H). destruct oc as [c|].
  - apply bind_ok in H as ([[sec props1] r1] & Hs & H).
    destruct (decode_section_nbits _ _ _ _ _ _ Hs) as (e1 & -> & Hn1).
    destruct (s_end c).
    + injection H as <- <- <-. exists e1, [sec]. split; [reflexivity|]. split; [reflexivity|].
      cbn [sections_nbits]. lia.
    + apply IH in H as (e2 & new & -> & -> & Hl2).
      exists (e1 ++ e2), (sec :: new). rewrite <- !app_assoc. split; [reflexivity|]. split; [reflexivity|].
      cbn [sections_nbits]. rewrite app_length. lia.
  - apply IH in H as (e2 & new & -> & -> & Hl2). exists e2, new. auto.
Qed.

End Truncation.

(* ------------------------------------------------------------------------ *)
(* the signature search and the octets of a truncated input                  *)
(* ------------------------------------------------------------------------ *)
Lemma starts_with_firstn g : forall s k,
  starts_with g (firstn k s) = starts_with g s && (length g <=? k)%nat.
Proof.
  induction g as [|a g IH]; intros s k; [reflexivity|].
  destruct s as [|b s]; [rewrite firstn_nil; reflexivity|].
  destruct k as [|k]; [cbn [firstn starts_with length]; rewrite andb_false_r; reflexivity|].
  cbn [firstn starts_with length]. rewrite IH. change (S (length g) <=? S k)%nat with (length g <=? k)%nat.
  rewrite andb_assoc. reflexivity.
Qed.

Lemma find_sig_short g s : (length s < length g)%nat -> find_sig g s = None.
Proof.
  intros H. destruct (find_sig g s) as [i|] eqn:E; [|reflexivity].
  apply find_sig_length in E. lia.
Qed.

Lemma find_sig_firstn g : forall s i k, find_sig g s = Some i ->
  find_sig g (firstn k s) = if (i + length g <=? k)%nat then Some i else None.
Proof.
  induction s as [|x s IH]; intros i k H.
  - rewrite firstn_nil. cbn [find_sig] in H |- *. destruct (starts_with g []) eqn:E; [|discriminate].
    injection H as <-. destruct g; [|discriminate]. reflexivity.
  - destruct k as [|k].
    + cbn [firstn]. destruct g as [|a g].
      * cbn [find_sig starts_with] in H |- *. injection H as <-. reflexivity.
      * cbn [find_sig starts_with length]. destruct (Nat.leb_spec (i + S (length g)) 0); [lia|reflexivity].
    + cbn [firstn find_sig] in H |- *.
      change (x :: firstn k s) with (firstn (S k) (x :: s)). rewrite starts_with_firstn.
      destruct (starts_with g (x :: s)) eqn:E.
      * injection H as <-. cbn [andb Nat.add].
        destruct (Nat.leb_spec (length g) (S k)) as [Hle|Hgt]; [reflexivity|].
        cbn [firstn]. rewrite find_sig_short; [reflexivity|]. rewrite firstn_length. lia.
      * cbn [andb firstn]. destruct (find_sig g s) as [j|] eqn:Ej; [|discriminate]. injection H as <-.
        rewrite (IH j k eq_refl). cbn [Nat.add]. change (S (j + length g) <=? S k)%nat with (j + length g <=? k)%nat.
        destruct (j + length g <=? k)%nat; reflexivity.
Qed.

Lemma bits_of_bytes_firstn : forall j s, bits_of_bytes (firstn j s) = firstn (8 * j) (bits_of_bytes s).
Proof.
  induction j as [|j IH]; intros s; [reflexivity|].
  destruct s as [|x s]; [reflexivity|].
  cbn [firstn bits_of_bytes]. rewrite IH.
  replace (8 * S j)%nat with (length (to_bits 8 x) + 8 * j)%nat by (rewrite length_to_bits; lia).
  rewrite firstn_app_2. reflexivity.
Qed.

(* where the message starts in the input, and how long the signature is *)
Definition sig_index (sig : option (list byte)) (s : list byte) : nat :=
  match sig with
  | None => 0
  | Some g => match find_sig g s with Some i => i | None => 0 end
  end.
Definition sig_len (sig : option (list byte)) : nat :=
  match sig with None => 0 | Some g => length g end.

(* the first [k] octets of [s] hold the signature and all the bits that the
   decoding of [m] consumed *)
Definition holds_message (sig : option (list byte)) (s : list byte) (m : message) (k : nat) : bool :=
  (sig_index sig s + sig_len sig <=? k)%nat &&
  (8 * sig_index sig s + sections_nbits (m_sections m) <=? 8 * k)%nat.

Section TruncationMessage.
Variable decode_data : list (pname * pvalue) -> reader -> result (bits * reader).
Hypothesis decode_data_cuts : forall p, cuts (decode_data p).

(* THE cut theorem.  Whatever input [s] decodes to [m] (full or metadata-only,
   any signature, with or without value expectations): its truncation to k
   octets decodes to the SAME message when the k octets still hold everything
   that was consumed, and fails with a LIBRARY error otherwise.  There is no
   truncation point with another outcome. *)
Theorem message_cut : forall sig info ign s m,
  decode_message decode_data sig info ign s = Ok m ->
  forall k,
    if holds_message sig s m k
    then decode_message decode_data sig info ign (firstn k s) = Ok m
    else lib_fail (decode_message decode_data sig info ign (firstn k s)).
Proof.
  intros sig info ign s m H k.
  destruct (Nat.le_gt_cases (length s) k) as [Hlong|Hk].
  { (* nothing is cut *)
    rewrite firstn_all2 by exact Hlong.
    assert (Hh : holds_message sig s m k = true); [|rewrite Hh; exact H].
    unfold decode_message, decode_message_with in H.
    apply bind_ok in H as (idx & Hidx & H). apply bind_ok in H as ([[secs props] r'] & Hs & H).
    apply ok_inj in H. subst m. cbn [m_sections].
    destruct (decode_sections_nbits _ decode_data_cuts _ _ _ _ _ _ _ _ _ _ Hs) as (e & new & Er & Enew & Hl).
    cbn [app] in Enew. subst secs.
    assert (Hsi : sig_index sig s = idx /\ (idx + sig_len sig <= length s)%nat).
    { unfold sig_index, sig_len. destruct sig as [g|]; [|injection Hidx as <-; lia].
      destruct (find_sig g s) as [i|] eqn:Ei; [|discriminate]. injection Hidx as <-.
      apply find_sig_length in Ei. auto. }
    destruct Hsi as [Hsi Hsl]. unfold holds_message. rewrite Hsi. cbn [m_sections].
    assert (Lb : length (bits_of_bytes (skipn idx s)) = (8 * (length s - idx))%nat)
      by (rewrite length_bits_of_bytes, skipn_length; reflexivity).
    rewrite Er, app_length in Lb.
    apply andb_true_iff. split; apply Nat.leb_le; lia. }
  (* k < length s *)
  unfold decode_message, decode_message_with in H |- *.
  apply bind_ok in H as (idx & Hidx & H). apply bind_ok in H as ([[secs props] r'] & Hs & H).
  apply ok_inj in H. subst m. cbn [m_sections].
  destruct (decode_sections_nbits _ decode_data_cuts _ _ _ _ _ _ _ _ _ _ Hs) as (e0 & new & Er0 & Enew & Hl).
  cbn [app] in Enew. subst secs.
  destruct (decode_sections_cut _ decode_data_cuts _ _ _ _ _ _ _ _ _ Hs) as (e & Er & K).
  assert (Le : length e = sections_nbits new).
  { rewrite <- Hl. apply (f_equal (@length bool)) in Er. rewrite Er0, !app_length in Er. lia. }
  clear e0 Er0 Hl.
  assert (Hsi : sig_index sig s = idx /\ (idx + sig_len sig <= length s)%nat).
  { unfold sig_index, sig_len. destruct sig as [g|]; [|injection Hidx as <-; lia].
    destruct (find_sig g s) as [i|] eqn:Ei; [|discriminate]. injection Hidx as <-.
    apply find_sig_length in Ei. auto. }
  destruct Hsi as [Hsi Hsl]. unfold holds_message. rewrite Hsi. cbn [m_sections].
  (* the signature search on the truncated input *)
  assert (Hidx' : match sig with
                  | Some g => match find_sig g (firstn k s) with Some i => Ok i | None => Err ELib end
                  | None => Ok 0%nat end =
                  if (idx + sig_len sig <=? k)%nat then Ok idx else Err ELib).
  { unfold sig_len. destruct sig as [g|].
    - destruct (find_sig g s) as [i|] eqn:Ei; [|discriminate]. injection Hidx as <-.
      rewrite (find_sig_firstn g s i k Ei). destruct (i + length g <=? k)%nat; reflexivity.
    - injection Hidx as <-. reflexivity. }
  rewrite Hidx'. clear Hidx'.
  destruct (Nat.leb_spec (idx + sig_len sig) k) as [Hfit1|Hnofit1]; cbn [andb].
  2:{ exists ELib. split; reflexivity. }
  cbn [bind]. rewrite skipn_firstn_comm, bits_of_bytes_firstn.
  set (s1 := skipn idx s) in *. set (R := bits_of_bytes s1) in *.
  assert (LR : length R = (8 * (length s - idx))%nat)
    by (unfold R, s1; rewrite length_bits_of_bytes, skipn_length; reflexivity).
  assert (LRe : length R = (length e + length r')%nat) by (rewrite Er, app_length; reflexivity).
  destruct (K (8 * (k - idx))%nat) as [Ka Kb].
  destruct (Nat.leb_spec (8 * idx + sections_nbits new) (8 * k)) as [Hfit2|Hnofit2].
  - rewrite Ka by lia. cbn [bind]. f_equal. f_equal.
    rewrite !firstn_length, Nat.min_l by lia. rewrite Nat.min_l by lia.
    replace (8 * (k - idx) - (8 * (k - idx) - length e))%nat with (length e) by lia.
    replace (length R - length r')%nat with (length e) by lia.
    rewrite firstn_firstn, Nat.min_l; [reflexivity|].
    apply Nat.div_le_upper_bound; lia.
  - apply lib_fail_bind, Kb. lia.
Qed.

(* consequences: (1) a truncated input never yields a DIFFERENT message;
   (2) exactly the truncations that cut into the consumed span fail, and they
   fail with a library error *)
Corollary message_cut_dichotomy : forall sig info ign s m k,
  decode_message decode_data sig info ign s = Ok m ->
  decode_message decode_data sig info ign (firstn k s) = Ok m \/
  lib_fail (decode_message decode_data sig info ign (firstn k s)).
Proof.
  intros sig info ign s m k H. pose proof (message_cut _ _ _ _ _ H k) as C.
  destruct (holds_message sig s m k); [left|right]; exact C.
Qed.

End TruncationMessage.
