(* FramePrefix.v — message-level truncation and trailing-byte independence
   (C12, first sentence; framing facts for C04).

   Part 1 (trailing bytes): a corollary of FrameProofs.decode_span.
   Part 2 (truncation): the "cut" calculus.  A reader operation [f] CUTS when,
   whenever it succeeds on a stream R consuming the prefix e, then on every
   truncation [firstn k R] of R it
     - returns the same value and the truncated rest when e fits (|e| <= k),
     - fails with a LIBRARY error otherwise.
   Every primitive of the bit reader cuts; cuts is closed under bind; hence the
   parameter loop, decode_section, the section loop and decode_message cut —
   provided the template decoder (the abstract [decode_data]) cuts. *)
From PBK Require Import Base Bits BitsProofs Frame FrameProofs.
From Coq Require Import ZifyBool ZifyNat ZifyN.

(* ------------------------------------------------------------------------ *)
(* the template-decoder stub of the correspondence runs (model/drv_frame.ml:  *)
(* stub_decode_data), transcribed: templates made of 031031 only              *)
(* ------------------------------------------------------------------------ *)
Definition stub_dd (props : list (pname * pvalue)) (r : reader) : result (bits * reader) :=
  let ids := match prop_get Nunexpanded_descriptors props with Some (PDescs l) => l | _ => [] end in
  let nsub := match prop_get Nn_subsets props with Some (PUint z) => z | _ => 0%Z end in
  if existsb (fun id => negb (id =? 31031)%Z) ids then Err EUnknownDescriptor
  else take_bits (Z.to_nat (nsub * Z.of_nat (length ids))) r.

Lemma stub_dd_prefix : forall p r b r', stub_dd p r = Ok (b, r') -> r = b ++ r'.
Proof.
  intros p r b r'. unfold stub_dd. destruct (existsb _ _); [discriminate|].
  intros H. apply take_bits_ok in H as [H _]. exact H.
Qed.

Lemma stub_dd_suffix : forall p r b r' s,
  stub_dd p r = Ok (b, r') -> stub_dd p (r ++ s) = Ok (b, r' ++ s).
Proof.
  intros p r b r' s. unfold stub_dd. destruct (existsb _ _); [discriminate|].
  intros H. apply take_bits_suffix. exact H.
Qed.

(* ------------------------------------------------------------------------ *)
(* Part 1: bytes that follow a message never influence its decoding          *)
(* ------------------------------------------------------------------------ *)
Section Trailing.
Variable decode_data : list (pname * pvalue) -> reader -> result (bits * reader).
Hypothesis decode_data_prefix : forall p r b r', decode_data p r = Ok (b, r') -> r = b ++ r'.
Hypothesis decode_data_suffix : forall p r b r' s,
  decode_data p r = Ok (b, r') -> decode_data p (r ++ s) = Ok (b, r' ++ s).

(* the WHOLE result record — sections (indices, layouts, extents, values), the
   message attributes and the serialized bytes — is the same; the serialized
   bytes are a segment of the input that ends before the trailing bytes *)
Theorem message_trailing_bytes : forall sig info ign s t m,
  decode_message decode_data sig info ign s = Ok m ->
  decode_message decode_data sig info ign (s ++ t) = Ok m /\
  exists before after, s ++ t = before ++ m_bytes m ++ after ++ t.
Proof.
  intros sig info ign s t m H.
  destruct (decode_span decode_data decode_data_prefix decode_data_suffix _ _ _ _ _ H)
    as (Hall & before & after & Hs & _).
  split; [apply Hall|]. exists before, after. rewrite Hs at 1. rewrite <- !app_assoc. reflexivity.
Qed.

(* in the other direction: a successful decode of s ++ t that consumed no more
   than s is a decode of s — see Part 2 (message_cut) *)
End Trailing.

Theorem message_trailing_bytes_stub : forall sig info ign s t m,
  decode_message stub_dd sig info ign s = Ok m ->
  decode_message stub_dd sig info ign (s ++ t) = Ok m.
Proof.
  intros sig info ign s t m H.
  apply (message_trailing_bytes stub_dd stub_dd_prefix stub_dd_suffix _ _ _ _ t _ H).
Qed.

(* ------------------------------------------------------------------------ *)
(* Part 2: truncation                                                        *)
(* ------------------------------------------------------------------------ *)
Definition lib_fail {A} (x : result A) : Prop := exists e, x = Err e /\ is_lib_err e = true.

Lemma lib_fail_bind {A B} (x : result A) (f : A -> result B) : lib_fail x -> lib_fail (bind x f).
Proof. intros (e & -> & He). exists e. split; [reflexivity|exact He]. Qed.

Lemma lib_fail_not_ok {A} (x : result A) a : lib_fail x -> x <> Ok a.
Proof. intros (e & -> & _). discriminate. Qed.

Definition cuts {A} (f : reader -> result (A * reader)) : Prop :=
  forall R a R', f R = Ok (a, R') ->
    exists e, R = e ++ R' /\
      forall k,
        ((length e <= k)%nat -> f (firstn k R) = Ok (a, firstn (k - length e) R')) /\
        ((k < length e)%nat -> lib_fail (f (firstn k R))).

(* it is enough to consider cuts inside the stream *)
Lemma cuts_intro_le {A} (f : reader -> result (A * reader)) :
  (forall R a R', f R = Ok (a, R') ->
     exists e, R = e ++ R' /\
       forall k, (k <= length R)%nat ->
         ((length e <= k)%nat -> f (firstn k R) = Ok (a, firstn (k - length e) R')) /\
         ((k < length e)%nat -> lib_fail (f (firstn k R)))) ->
  cuts f.
Proof.
  intros H R a R' Hf. destruct (H _ _ _ Hf) as (e & E & Hk). exists e. split; [exact E|].
  intros k. destruct (Nat.le_gt_cases k (length R)) as [Hle|Hgt]; [apply Hk, Hle|].
  assert (L : length R = (length e + length R')%nat) by (rewrite E, app_length; reflexivity).
  split.
  - intros _. rewrite firstn_all2 by lia. rewrite firstn_all2 by lia. exact Hf.
  - intros Hlt. exfalso. lia.
Qed.

Lemma cuts_ext {A} (f g : reader -> result (A * reader)) :
  (forall R, f R = g R) -> cuts f -> cuts g.
Proof.
  intros Hfg Hf R a R' Hg. rewrite <- Hfg in Hg. destruct (Hf _ _ _ Hg) as (e & E & Hk).
  exists e. split; [exact E|]. intros k. rewrite <- Hfg. apply Hk.
Qed.

Lemma cuts_ret {A} (a : A) : cuts (fun R => Ok (a, R)).
Proof.
  intros R a' R' H. injection H as <- <-. exists []. split; [reflexivity|].
  intros k. cbn [length]. rewrite Nat.sub_0_r. split; [reflexivity|lia].
Qed.

Lemma cuts_err {A} (e : err) : cuts (fun _ : reader => @Err (A * reader) e).
Proof. intros R a R' H. discriminate. Qed.

Lemma cuts_bind {A B} (f : reader -> result (A * reader)) (g : A -> reader -> result (B * reader)) :
  cuts f -> (forall a, cuts (g a)) ->
  cuts (fun R => let* (a, R1) := f R in g a R1).
Proof.
  intros Hf Hg R b R' H. apply bind_ok in H as ([a R1] & H1 & H2).
  destruct (Hf _ _ _ H1) as (e1 & E1 & K1). destruct (Hg a _ _ _ H2) as (e2 & E2 & K2).
  exists (e1 ++ e2). split; [rewrite E1, E2, app_assoc; reflexivity|].
  intros k. rewrite app_length. split.
  - intros Hle. destruct (K1 k) as [K1a _]. rewrite K1a by lia. cbn [bind].
    destruct (K2 (k - length e1)%nat) as [K2a _]. rewrite K2a by lia.
    replace (k - length e1 - length e2)%nat with (k - (length e1 + length e2))%nat by lia. reflexivity.
  - intros Hlt. destruct (Nat.le_gt_cases (length e1) k) as [Hle|Hgt].
    + destruct (K1 k) as [K1a _]. rewrite K1a by lia. cbn [bind].
      destruct (K2 (k - length e1)%nat) as [_ K2b]. apply K2b. lia.
    + destruct (K1 k) as [_ K1b]. apply lib_fail_bind, K1b, Hgt.
Qed.

Lemma cuts_map {A B} (f : reader -> result (A * reader)) (h : A -> B) :
  cuts f -> cuts (fun R => let* (a, R1) := f R in Ok (h a, R1)).
Proof. intros Hf. apply (cuts_bind f (fun a R1 => Ok (h a, R1)) Hf). intros a. apply cuts_ret. Qed.

(* ---- the primitives ------------------------------------------------------- *)
Lemma cuts_take_bits n : cuts (take_bits n).
Proof.
  intros R a R' H. unfold take_bits in H. destruct (Nat.ltb_spec (length R) n) as [|Hn]; [discriminate|].
  injection H as <- <-. exists (firstn n R). split; [symmetry; apply firstn_skipn|].
  rewrite firstn_length, Nat.min_l by exact Hn. intros k. split.
  - intros Hle. unfold take_bits. rewrite firstn_length.
    destruct (Nat.ltb_spec (Nat.min k (length R)) n); [lia|].
    rewrite firstn_firstn, Nat.min_l by exact Hle. rewrite skipn_firstn_comm. reflexivity.
  - intros Hlt. exists EBitRead. split; [|reflexivity]. apply take_bits_short. rewrite firstn_length. lia.
Qed.

Lemma cuts_read_uint w : cuts (read_uint w).
Proof.
  unfold read_uint. destruct (w <=? 0)%Z; [apply cuts_err|].
  apply (cuts_map (take_bits (Z.to_nat w)) of_bits), cuts_take_bits.
Qed.

Lemma cuts_read_bin w : cuts (read_bin w).
Proof. unfold read_bin. destruct (w <? 0)%Z; [apply cuts_err|apply cuts_take_bits]. Qed.

Lemma cuts_read_bytes n : cuts (read_bytes n).
Proof.
  unfold read_bytes. destruct (n <? 0)%Z; [apply cuts_err|].
  apply (cuts_map (take_bits (8 * Z.to_nat n)) (bytes_of_bits (Z.to_nat n))), cuts_take_bits.
Qed.

Lemma cuts_read_bool : cuts read_bool.
Proof.
  intros R a R' H. destruct R as [|x R]; [discriminate|]. injection H as <- <-.
  exists [x]. split; [reflexivity|]. intros k. cbn [length]. split.
  - intros Hle. destruct k as [|k]; [lia|]. cbn [firstn read_bool]. replace (S k - 1)%nat with k by lia. reflexivity.
  - intros Hlt. assert (k = 0%nat) by lia. subst k. exists EBitRead. split; reflexivity.
Qed.
