(* Query.v — model of pybufrkit/dataquery.py DataQuerent over the wired tree
   (Wire.v): recursive filtering by separator, slices, replication envelopes,
   subset selection, compressed data sharing one tree. *)
From PBK Require Import Base Descr Walk Wire PySlice PathParser.

(* ---- nodes as the query sees them ------------------------------------------ *)
Inductive qn :=
  | QV (idx : N)                                              (* any ValueDataNode *)
  | QNo (id : N)                                              (* NoValueDataNode *)
  | QSeq (id : N) (ms : wnodes)                               (* SequenceNode *)
  | QRep (delayed : bool) (id : N) (nmem : nat) (factor : N) (ms : wnodes)
  | QRoot (ms : wnodes).                                      (* the virtual TEMPLATE node *)

Definition qn_of (w : wnode) : qn :=
  match w with
  | WNoValue id => QNo id
  | WSeq id ms => QSeq id ms
  | WFixed id nm _ ms => QRep false id nm 0 ms
  | WDelayed id nm f ms => QRep true id nm f ms
  | WValue i => QV i
  end.

Fixpoint wnodes_list (ns : wnodes) : list wnode :=
  match ns with WNil => [] | WCons n r => n :: wnodes_list r end.

(* nested result: a node or a list of results (replication envelopes) *)
Inductive qres := RNode (n : qn) | RList (l : list qres).

Definition SEP_CHILD : char := ch_slash.
Definition SEP_ATTRIB : char := ch_dot.
Definition SEP_DESCEND : char := ch_gt.

Fixpoint pad6 (fuel : nat) (l : list char) : list char :=
  match fuel with O => l | S k => if (length l <? 6)%nat then pad6 k (ch_0 :: l) else l end.
Definition id6 (id : N) : list char := pad6 6 (print_N id).

Fixpoint chars_eqb (a b : list char) : bool :=
  match a, b with
  | [], [] => true
  | x :: a', y :: b' => (x =? y)%N && chars_eqb a' b'
  | _, _ => false
  end.

Section Query.
Context (attrs : list attr)                 (* attribute relation of the wired tree *)
        (labels : list (list char)).        (* str(decoded_descriptors[i]) *)

Definition attrs_of (i : N) : list N :=
  map (fun a => snd (fst a)) (filter (fun a => (fst (fst a) =? i)%N) attrs).

Definition label_of (n : qn) : list char :=
  match n with
  | QV i => nth (N.to_nat i) labels []
  | QNo id | QSeq id _ | QRep _ id _ _ _ => id6 id
  | QRoot _ => []
  end.

Definition has_members (n : qn) : bool :=
  match n with QSeq _ _ | QRep _ _ _ _ _ | QRoot _ => true | _ => false end.
Definition has_attributes (n : qn) : bool :=
  match n with QV i => negb (match attrs_of i with [] => true | _ => false end) | _ => false end.
Definition has_factor (n : qn) : bool :=
  match n with QRep true _ _ _ _ => true | _ => false end.

Definition members_of (n : qn) : list qn :=
  match n with
  | QSeq _ ms | QRep _ _ _ _ ms | QRoot ms => map qn_of (wnodes_list ms)
  | _ => []
  end.

(* NODE_NOT_MATCH = 0, NODE_MATCH = 1, NODE_KEEP = 2 *)
Definition node_matches (n : qn) (c : comp) : N :=
  if chars_eqb (label_of n) (c_id c) then 1
  else if (c_sep c =? SEP_DESCEND)%N then
    (if has_members n || has_attributes n || has_factor n then 2 else 0)
  else 0.

(* insertion into a list sorted by index (sorted(..., key=idx), stable) *)
Fixpoint insert_by_idx (x : nat * qn) (l : list (nat * qn)) : list (nat * qn) :=
  match l with
  | [] => [x]
  | y :: r => if (fst y <=? fst x)%nat then y :: insert_by_idx x r else x :: l
  end.
Definition sort_by_idx (l : list (nat * qn)) : list (nat * qn) := fold_left (fun acc x => insert_by_idx x acc) l [].

(* filter_for_entities, as coded incl. the early return *)
Fixpoint ffe_loop (c : comp) (nodes : list (nat * qn)) (kept matched : list (nat * qn))
  : (list (nat * qn) * list (nat * qn)) + (nat * qn) :=
  match nodes with
  | [] => inl (kept, matched)
  | (i, n) :: r =>
      let m := node_matches n c in
      let kept' := if (m =? 2)%N then kept ++ [(i, n)] else kept in
      let matched' := if (m =? 1)%N then matched ++ [(i, n)] else matched in
      match c_slice c with
      | SInt k =>
          if negb (c_sep c =? SEP_DESCEND)%N && (k <? Z.of_nat (length matched'))%Z
          then match rev matched' with x :: _ => inr x | [] => ffe_loop c r kept' matched' end
          else ffe_loop c r kept' matched'
      | _ => ffe_loop c r kept' matched'
      end
  end.

Fixpoint enumerate {A} (i : nat) (l : list A) : list (nat * A) :=
  match l with [] => [] | x :: r => (i, x) :: enumerate (S i) r end.

Definition filter_for_entities (nodes : list qn) (c : comp) : result (list (nat * qn)) :=
  match ffe_loop c (enumerate 0 nodes) [] [] with
  | inr x => Ok [x]
  | inl (kept, matched) =>
      match c_slice c with
      | SInt k =>
          Ok (sort_by_idx ((match nth_error matched (Z.to_nat k) with
                            | Some x => if (k <? Z.of_nat (length matched))%Z then [x] else []
                            | None => [] end) ++ kept))
      | SSlice a b st =>
          let* sel := py_slice matched a b st in Ok (sort_by_idx (sel ++ kept))
      end
  end.

(* chunks of n consecutive members *)
Fixpoint chunk {A} (fuel : nat) (n : nat) (l : list A) : list (list A) :=
  match fuel with
  | O => []
  | S k => match l with [] => [] | _ => firstn n l :: chunk k n (skipn n l) end
  end.

Definition concat_res (l : list (result (list qres))) : result (list qres) :=
  fold_left (fun acc r => let* a := acc in let* x := r in Ok (a ++ x)) l (Ok []).

(* the mutually recursive filters; [fuel] bounds the descent (EFuel when exhausted) *)
Fixpoint filter_sub (fuel : nat) (n : qn) (cs : list comp) {struct fuel} : result (list qres) :=
  match fuel with
  | O => Err EFuel
  | S k =>
      match cs with
      | [] => Err EIndex                     (* path_components[0] on an empty list: never reached *)
      | c :: _ =>
          if (c_sep c =? SEP_CHILD)%N then filter_kind k true n cs
          else if (c_sep c =? SEP_ATTRIB)%N then filter_kind k false n cs
          else filter_desc k n cs
      end
  end
(* filter_for_descendant_sub_nodes *)
with filter_desc (fuel : nat) (n : qn) (cs : list comp) {struct fuel} : result (list qres) :=
  match fuel with
  | O => Err EFuel
  | S k =>
      if negb (has_members n || has_attributes n || has_factor n) then Err EQuery else
      match cs with
      | [] => Err EIndex
      | c :: rest =>
          let* a := (if has_members n then filter_kind k true n cs else Ok []) in
          let* b := (if has_attributes n || has_factor n then filter_kind k false n cs else Ok []) in
          Ok (a ++ b)
      end
  end
(* filter_for_child_sub_nodes (child = true) / filter_for_attribute_sub_nodes (false);
   when called from the descendant filter the component keeps its '>' separator *)
with filter_kind (fuel : nat) (child : bool) (n : qn) (cs : list comp) {struct fuel} : result (list qres) :=
  match fuel with
  | O => Err EFuel
  | S k =>
  match cs with
  | [] => Err EIndex
  | c :: rest =>
      let proceed (ns : list qn) : result (list qres) :=
        match rest with
        | [] => Ok (map RNode ns)
        | _ => concat_res (map (fun x => filter_sub k x rest) ns)
        end in
      let descend (ns : list qn) : result (list qres) :=
        concat_res (map (fun x =>
          let m := node_matches x c in
          if (m =? 2)%N then filter_desc k x cs
          else if (m =? 1)%N then proceed [x]
          else Ok []) ns) in
      let continue_with (ns : list qn) : result (list qres) :=
        match ns with
        | [] => Ok []
        | _ => if (c_sep c =? SEP_DESCEND)%N then descend ns else proceed ns
        end in
      if child then
        if negb (has_members n) then Err EQuery else
        match n with
        | QRep _ _ nmem _ ms =>
            let mem := members_of n in
            match mem with
            | [] => Ok []
            | _ =>
              let* first := filter_for_entities (firstn nmem mem) c in
              let idxs := map fst first in
              match idxs with
              | [] => Ok []
              | _ =>
                let per_rep (ch : list qn) : result (list qres) :=
                  let sub := flat_map (fun i => match nth_error ch i with Some x => [x] | None => [] end) idxs in
                  if (c_sep c =? SEP_DESCEND)%N then descend sub else proceed sub in
                let* env := fold_left (fun acc ch =>
                              let* a := acc in let* r := per_rep ch in
                              Ok (match r with [] => a | _ => a ++ [RList r] end))
                            (chunk (S (length mem)) nmem mem) (Ok []) in
                Ok (match env with [] => [] | _ => [RList env] end)
              end
            end
        | _ =>
            let* sel := filter_for_entities (members_of n) c in
            continue_with (map snd sel)
        end
      else
        if negb (has_attributes n || has_factor n) then Err EQuery else
        let* f := (match n with
                   | QRep true _ _ fi _ => let* s := filter_for_entities [QV fi] c in Ok (map snd s)
                   | _ => Ok []
                   end) in
        let* a := (match n with
                   | QV i => if has_attributes n
                             then let* s := filter_for_entities (map QV (attrs_of i)) c in Ok (map snd s)
                             else Ok []
                   | _ => Ok []
                   end) in
        continue_with (f ++ a)
  end
  end.

(* create_values_from_nodes: indices of the values, same nesting *)
Inductive vres := VIdx (i : N) | VList (l : list vres).

Fixpoint values_of (fuel : nat) (r : qres) : result vres :=
  match fuel with
  | O => Err EFuel
  | S k =>
      match r with
      | RNode (QV i) => Ok (VIdx i)
      | RNode _ => Err EQuery                  (* cannot query valueless node *)
      | RList l =>
          let* vs := fold_left (fun acc x => let* a := acc in let* v := values_of k x in Ok (a ++ [v])) l (Ok []) in
          Ok (VList vs)
      end
  end.

Definition process_one_subset (fuel : nat) (nodes : wnodes) (p : path) : result (list vres) :=
  let* rs := filter_sub fuel (QRoot nodes) (p_comps p) in
  fold_left (fun acc x => let* a := acc in let* v := values_of fuel x in Ok (a ++ [v])) rs (Ok []).

End Query.

(* the subsets selected by '@[...]': [k] for an integer, range(n)[slice] otherwise *)
Definition subset_indices (n : nat) (p : path) : result (list Z) :=
  match p_subset p with
  | None => Ok (map Z.of_nat (seq 0 n))
  | Some (SInt k) => Ok [k]
  | Some (SSlice a b c) => let* l := py_range_slice n a b c in Ok (map Z.of_nat l)
  end.
