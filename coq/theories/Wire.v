(* Wire.v — model of pybufrkit/templatedata.py: TemplateData.wire re-walks the
   template over the flat decoded lists and builds the node tree; attributes
   (associated fields, quality information, statistics, substituted / replaced
   values) are attached to their owners.  Node identity is the flat index, so
   the tree holds indices and the attribute relation is kept beside it (an
   attribute node may itself receive attributes later: Python shares the node
   object, the model shares the index). *)
From PBK Require Import Base Descr Walk.

Inductive wnode :=
  | WNoValue (id : N)                                        (* NoValueDataNode: operator, or element skipped by 221 *)
  | WSeq (id : N) (ms : wnodes)                              (* SequenceNode *)
  | WFixed (id : N) (nmem : nat) (nrep : N) (ms : wnodes)    (* FixedReplicationNode: members of all repetitions *)
  | WDelayed (id : N) (nmem : nat) (factor : N) (ms : wnodes)(* DelayedReplicationNode: factor index *)
  | WValue (idx : N)                                         (* any ValueDataNode *)
with wnodes :=
  | WNil
  | WCons (n : wnode) (ns : wnodes).

Scheme wnode_mut := Induction for wnode Sort Prop
with wnodes_mut := Induction for wnodes Sort Prop.
Combined Scheme wnode_wnodes_ind from wnode_mut, wnodes_mut.

Fixpoint wnodes_app (a b : wnodes) : wnodes :=
  match a with WNil => b | WCons n r => WCons n (wnodes_app r b) end.

(* (owner index, attribute index, the attribute is an AssociatedFieldNode) in order of attachment *)
Definition attr := (N * N * bool)%type.

Record wst := mkWst {
  x_next : N;                   (* next_index *)
  x_assoc : list Z;             (* nbits_associated_list (204) *)
  x_dnp : Z;                    (* data_not_present_count (221) *)
  x_qa : bool;                  (* waiting_for_qa_info_meaning *)
  x_w1 : bool;                  (* waiting_for_1st_order_stats_meaning *)
  x_wd : bool;                  (* waiting_for_difference_stats_meaning *)
  x_am : option N;              (* associated_field_meaning *)
  x_fm : option N;              (* first_order_stats_meaning *)
  x_dm : option N;              (* difference_stats_meaning *)
  x_attrs : list attr;
  x_known : list N;             (* keys of index_to_node *)
  x_def : bool                  (* defining_new_refval: between 203YYY and 203255 (fix: wiring follows the coder) *)
}.

Definition wst0 : wst := mkWst 0 [] 0 false false false None None None [] [] false.

Section Wire.
(* the flat lists the wiring works over *)
Context (ndesc : N)                         (* len(decoded_descriptors) *)
        (vals : list value)                 (* decoded_values *)
        (links : list (N * N)).             (* bitmap_links *)

Definition link_of (idx : N) : option N :=
  (* dict lookup: the last assignment wins *)
  let fix go (l : list (N * N)) (acc : option N) :=
    match l with [] => acc | (k, v) :: r => go r (if (k =? idx)%N then Some v else acc) end in
  go links None.

(* get_next_descriptor_and_index: IndexError past the end of decoded_descriptors *)
Definition next_idx (s : wst) : result (N * wst) :=
  if (ndesc <=? x_next s)%N then Err EIndex
  else Ok (x_next s, mkWst (x_next s + 1) (x_assoc s) (x_dnp s) (x_qa s) (x_w1 s) (x_wd s)
                           (x_am s) (x_fm s) (x_dm s) (x_attrs s) (x_known s) (x_def s)).

Definition register (i : N) (s : wst) : wst :=
  mkWst (x_next s) (x_assoc s) (x_dnp s) (x_qa s) (x_w1 s) (x_wd s) (x_am s) (x_fm s) (x_dm s)
        (x_attrs s) (i :: x_known s) (x_def s).

Definition add_attr (owner a : N) (is_assoc : bool) (s : wst) : wst :=
  mkWst (x_next s) (x_assoc s) (x_dnp s) (x_qa s) (x_w1 s) (x_wd s) (x_am s) (x_fm s) (x_dm s)
        (x_attrs s ++ [(owner, a, is_assoc)]) (x_known s) (x_def s).

Definition set_assoc_list l s := mkWst (x_next s) l (x_dnp s) (x_qa s) (x_w1 s) (x_wd s) (x_am s) (x_fm s) (x_dm s) (x_attrs s) (x_known s) (x_def s).
Definition set_xdnp v s := mkWst (x_next s) (x_assoc s) v (x_qa s) (x_w1 s) (x_wd s) (x_am s) (x_fm s) (x_dm s) (x_attrs s) (x_known s) (x_def s).
Definition set_xqa v s := mkWst (x_next s) (x_assoc s) (x_dnp s) v (x_w1 s) (x_wd s) (x_am s) (x_fm s) (x_dm s) (x_attrs s) (x_known s) (x_def s).
Definition set_xw1 v s := mkWst (x_next s) (x_assoc s) (x_dnp s) (x_qa s) v (x_wd s) (x_am s) (x_fm s) (x_dm s) (x_attrs s) (x_known s) (x_def s).
Definition set_xwd v s := mkWst (x_next s) (x_assoc s) (x_dnp s) (x_qa s) (x_w1 s) v (x_am s) (x_fm s) (x_dm s) (x_attrs s) (x_known s) (x_def s).
Definition set_xam v s := mkWst (x_next s) (x_assoc s) (x_dnp s) (x_qa s) (x_w1 s) (x_wd s) v (x_fm s) (x_dm s) (x_attrs s) (x_known s) (x_def s).
Definition set_xfm v s := mkWst (x_next s) (x_assoc s) (x_dnp s) (x_qa s) (x_w1 s) (x_wd s) (x_am s) v (x_dm s) (x_attrs s) (x_known s) (x_def s).
Definition set_xdef v s := mkWst (x_next s) (x_assoc s) (x_dnp s) (x_qa s) (x_w1 s) (x_wd s) (x_am s) (x_fm s) (x_dm s) (x_attrs s) (x_known s) v.
Definition set_xdm v s := mkWst (x_next s) (x_assoc s) (x_dnp s) (x_qa s) (x_w1 s) (x_wd s) (x_am s) (x_fm s) v (x_attrs s) (x_known s) (x_def s).

(* a new registered value node *)
Definition value_node (s : wst) : result (N * wst) :=
  let* (i, s1) := next_idx s in Ok (i, register i s1).

(* self.index_to_node[self.bitmap_links[node.index]].add_attribute(node) *)
Definition wire_bitmap_attribute (i : N) (s : wst) : result wst :=
  match link_of i with
  | None => Err EKey
  | Some owner => if existsb (N.eqb owner) (x_known s) then Ok (add_attr owner i false s) else Err EKey
  end.

Definition wire_element (e : elem) (s : wst) : result (wnode * wst) :=
  let X := desc_X (e_id e) in
  match x_assoc s with
  | _ :: _ =>
      if negb (X =? 31)%N then
        let* (ai, s1) := next_idx s in
        match x_am s1 with
        | None => Err EAttr                 (* self.associated_field_meaning never set *)
        | Some m =>
            let s2 := add_attr ai m false s1 in
            let* (i, s3) := next_idx s2 in
            Ok (WValue i, register i (add_attr i ai true s3))
        end
      else
        (* class 31 under 204: never a quality node (X = 31), plain value node *)
        let* (i, s1) := value_node s in
        Ok (WValue i, if (e_id e =? 31021)%N then set_xam (Some i) s1 else s1)
  | [] =>
      if (X =? 33)%N && x_qa s then
        let* (i, s1) := value_node s in
        let* s2 := wire_bitmap_attribute i s1 in Ok (WValue i, s2)
      else
        let* (i, s1) := value_node s in
        (* [descriptor.id == 31021 and self.nbits_associated_list] is false here *)
        if (e_id e =? 8023)%N && x_w1 s1 then Ok (WValue i, set_xw1 false (set_xfm (Some i) s1))
        else if (e_id e =? 8024)%N && x_wd s1 then Ok (WValue i, set_xwd false (set_xdm (Some i) s1))
        else Ok (WValue i, s1)
  end.

(* marker operators 223255 / 224255 / 225255 / 232255 *)
Definition wire_marker (meaning : option (option N)) (s : wst) : result (wnode * wst) :=
  let* (i, s1) := value_node s in
  let* s2 := (match meaning with
              | None => Ok s1
              | Some None => Err EAttr
              | Some (Some m) => Ok (add_attr i m false s1)
              end) in
  let* s3 := wire_bitmap_attribute i s2 in
  Ok (WValue i, s3).

Definition wire_operator (id : N) (s : wst) : result (wnode * wst) :=
  let code := (id / 1000)%N in
  let operand := Z.of_N (id mod 1000) in
  let plain s := let* (i, s1) := value_node s in Ok (WValue i, s1) in
  if (code =? 201)%N || (code =? 202)%N || (code =? 206)%N || (code =? 207)%N || (code =? 208)%N
  then Ok (WNoValue id, s)
  else if (code =? 203)%N then
    (* defining new reference values until 203255 / 203000 *)
    Ok (WNoValue id, set_xdef (negb ((operand =? 0)%Z || (operand =? 255)%Z)) s)
  else if (code =? 204)%N then
    if (operand =? 0)%Z then
      match x_assoc s with
      | [] => Err EIndex
      | _ :: _ => Ok (WNoValue id, set_assoc_list (removelast (x_assoc s)) s)
      end
    else Ok (WNoValue id, set_assoc_list (x_assoc s ++ [operand]) s)
  else if (code =? 205)%N then plain s
  else if (code =? 221)%N then Ok (WNoValue id, set_xdnp operand s)
  else if (code =? 222)%N then plain (set_xqa true s)
  else if (code =? 223)%N then
    if (operand =? 0)%Z then plain (set_xqa false s) else wire_marker None (set_xqa false s)
  else if (code =? 224)%N then
    if (operand =? 0)%Z then plain (set_xw1 true (set_xqa false s))
    else wire_marker (Some (x_fm s)) (set_xqa false s)
  else if (code =? 225)%N then
    if (operand =? 0)%Z then plain (set_xwd true (set_xqa false s))
    else wire_marker (Some (x_dm s)) (set_xqa false s)
  else if (code =? 232)%N then
    if (operand =? 0)%Z then plain (set_xqa false s) else wire_marker None (set_xqa false s)
  else if (code =? 235)%N then Ok (WNoValue id, set_xqa false s)
  else if (code =? 236)%N then plain s
  else if (code =? 237)%N then plain s
  else Err ENotImpl.

(* range(self.decoded_values[factor_node.index]) *)
Definition count_of_value (v : option value) : result N :=
  match v with
  | Some (VInt z) => Ok (Z.to_N z)          (* range of a negative number is empty *)
  | Some VNone => Err EType
  | Some _ => Err EType
  | None => Err EIndex
  end.

(* type(member) is ElementDescriptor *)
Definition is_plain_elem (d : desc) : bool := match d with DElem _ => true | _ => false end.

(* [acc] accumulates the member nodes of the enclosing node (self.decoded_nodes) *)
Definition wres := (wnodes * wst)%type.

Definition iter_w (n : N) (f : wres -> result wres) (a : wres) : result wres :=
  N.iter n (fun r => bind r f) (Ok a).

Fixpoint wire_one (d : desc) (s : wst) {struct d} : result (wnode * wst) :=
  match d with
  | DElem e => wire_element e s
  | DFixed id ms =>
      let* (nodes, s1) := iter_w (id mod 1000)%N (wire_list ms) (WNil, s) in
      Ok (WFixed id (descs_length ms) (id mod 1000)%N nodes, s1)
  | DDelayed id _ ms =>
      let* (fi, s0) := value_node s in
      let* n := count_of_value (nth_error vals (N.to_nat fi)) in
      let* (nodes, s1) := iter_w n (wire_list ms) (WNil, s0) in
      Ok (WDelayed id (descs_length ms) fi nodes, s1)
  | DOper id => wire_operator id s
  | DSeq id ms =>
      let* (nodes, s1) := wire_list ms (WNil, s) in Ok (WSeq id nodes, s1)
  | DUndefElem _ => let* (i, s1) := value_node s in Ok (WValue i, s1)   (* assumed a skipped local *)
  | DUndefSeq _ => Err ELib
  end
with wire_list (ms : descs) (a : wres) {struct ms} : result wres :=
  match ms with
  | DNil => Ok a
  | DCons m rest =>
      let '(acc, s) := a in
      (* 221: data not present *)
      let skip := negb (x_dnp s =? 0)%Z && dnp_skips m in
      let s0 := if (x_dnp s =? 0)%Z then s else set_xdnp (x_dnp s - 1) s in
      if skip then wire_list rest (wnodes_app acc (WCons (WNoValue (desc_id m)) WNil), s0)
      else if x_def s0 && is_plain_elem m then
        (* a new reference value definition: one value node, no associated field, no attributes *)
        let* (i, s1) := value_node s0 in
        wire_list rest (wnodes_app acc (WCons (WValue i) WNil), s1)
      else
        let* (n, s1) := wire_one m s0 in
        wire_list rest (wnodes_app acc (WCons n WNil), s1)
  end.

Definition wire (T : descs) : result (wnodes * wst) := wire_list T (WNil, wst0).

End Wire.

(* ---- the flat order recovered from the tree -------------------------------- *)
(* indices in the order template_data_nested_json_to_flat_json emits them: for a
   value node first its non-virtual (associated field) attributes, then itself;
   for a delayed replication the factor first *)
Definition assoc_attrs_of (attrs : list attr) (i : N) : list N :=
  map (fun a => snd (fst a)) (filter (fun a => (fst (fst a) =? i)%N && snd a) attrs).

Fixpoint flat_node (attrs : list attr) (n : wnode) : list N :=
  match n with
  | WNoValue _ => []
  | WSeq _ ms => flat_nodes attrs ms
  | WFixed _ _ _ ms => flat_nodes attrs ms
  | WDelayed _ _ f ms => (assoc_attrs_of attrs f ++ [f]) ++ flat_nodes attrs ms
  | WValue i => assoc_attrs_of attrs i ++ [i]
  end
with flat_nodes (attrs : list attr) (ns : wnodes) : list N :=
  match ns with
  | WNil => []
  | WCons n r => flat_node attrs n ++ flat_nodes attrs r
  end.
