(* Cache.v — the two caches of pybufrkit as operation-by-operation state machines
   (tables.py TableGroupCache l.456-494, TableGroupCacheManager l.497-571;
   templatecompiler.py CompiledTemplateManager l.375-412).  Model only.

   Python dicts keep insertion order; [popitem()] removes the MOST RECENTLY inserted
   item.  Both caches are lists with the most recent item FIRST, so popitem drops
   the head; [keys()] order (oldest first) is the reversed list. *)
From PBK Require Import Base.

Section TableGroupCache.
  Variables key group extras : Type.
  Variable key_eqb : key -> key -> bool.
  (* reading the table files of a key, with the extra (in-stream) entries as they
     are at that moment; may fail (missing directory: FileNotFoundError etc.) *)
  Variable load : key -> extras -> result group.
  Variable merge : extras -> extras -> extras.        (* dict.update *)

  Record tg_cache := mkTG { tg_groups : list (key * group); tg_extras : extras }.

  Definition tg_init (e0 : extras) : tg_cache := mkTG [] e0.

  Fixpoint tg_lookup (k : key) (g : list (key * group)) : option group :=
    match g with
    | [] => None
    | (k', v) :: r => if key_eqb k k' then Some v else tg_lookup k r
    end.

  (* n times popitem(); false = KeyError('popitem(): dictionary is empty') *)
  Fixpoint popitems {A} (n : nat) (g : list A) : list A * bool :=
    match n with
    | O => (g, true)
    | S n' => match g with [] => ([], false) | _ :: r => popitems n' r end
    end.

  (* TableGroupCache.get; [limit] is the module global
     MAXIMUM_NUMBER_OF_CACHED_TABLE_GROUPS as it is when the call is made:
       if key not in groups:
           if len(groups) >= limit:
               for _ in range(len(groups) + 1 - limit): groups.popitem()
           ... load ...; groups[key] = group
       return groups[key] *)
  Definition tg_get (limit : nat) (k : key) (c : tg_cache) : tg_cache * result group :=
    match tg_lookup k (tg_groups c) with
    | Some v => (c, Ok v)
    | None =>
      let len := length (tg_groups c) in
      let '(g1, ok) := if (limit <=? len)%nat then popitems (len + 1 - limit) (tg_groups c)
                       else (tg_groups c, true) in
      if ok then
        match load k (tg_extras c) with
        | Ok v => (mkTG ((k, v) :: g1) (tg_extras c), Ok v)
        | Err e => (mkTG g1 (tg_extras c), Err e)
        end
      else (mkTG g1 (tg_extras c), Err EKey)
    end.

  Definition tg_invalidate (c : tg_cache) : tg_cache := mkTG [] (tg_extras c).

  (* add_extra_entries updates the extras WITHOUT invalidating (the caller,
     dataprocessor, invalidates first) *)
  Definition tg_add_extra (e : extras) (c : tg_cache) : tg_cache :=
    mkTG (tg_groups c) (merge (tg_extras c) e).

  Inductive tg_op :=
  | TGet (limit : nat) (k : key)
  | TInvalidate
  | TAddExtra (e : extras).

  Definition tg_step (c : tg_cache) (o : tg_op) : tg_cache :=
    match o with
    | TGet limit k => fst (tg_get limit k c)
    | TInvalidate => tg_invalidate c
    | TAddExtra e => tg_add_extra e c
    end.

  Definition tg_run (ops : list tg_op) (c : tg_cache) : tg_cache := fold_left tg_step ops c.

  Definition tg_keys (c : tg_cache) : list key := rev (map fst (tg_groups c)).   (* keys() order *)

  (* histories *)
  Definition is_add_extra (o : tg_op) : bool := match o with TAddExtra _ => true | _ => false end.
  Definition no_extra (ops : list tg_op) : bool := forallb (fun o => negb (is_add_extra o)) ops.

  (* every add_extra_entries comes directly after an invalidate (or at the very
     beginning, or after another add_extra that did): the cache is empty then *)
  Fixpoint guarded (empty : bool) (ops : list tg_op) : bool :=
    match ops with
    | [] => true
    | TGet _ _ :: r => guarded false r
    | TInvalidate :: r => guarded true r
    | TAddExtra _ :: r => empty && guarded true r
    end.

  Fixpoint extras_after (ops : list tg_op) (e : extras) : extras :=
    match ops with
    | [] => e
    | TAddExtra x :: r => extras_after r (merge e x)
    | _ :: r => extras_after r e
    end.

  Definition limit_is (L : nat) (o : tg_op) : bool :=
    match o with TGet l _ => (l =? L)%nat | _ => true end.
End TableGroupCache.

Arguments mkTG {key group extras}.
Arguments tg_groups {key group extras}.
Arguments tg_extras {key group extras}.
Arguments TGet {key extras}.
Arguments TInvalidate {key extras}.
Arguments TAddExtra {key extras}.

Section CompiledTemplateCache.
  Variables tkey ctemplate : Type.      (* (tuple(original_descriptor_ids), table_group.key) *)
  Variable tkey_eqb : tkey -> tkey -> bool.
  Variable compile : tkey -> result ctemplate.    (* TemplateCompiler.process; may raise *)

  Definition ct_cache := list (tkey * ctemplate).

  Fixpoint ct_lookup (k : tkey) (c : ct_cache) : option ctemplate :=
    match c with
    | [] => None
    | (k', v) :: r => if tkey_eqb k k' then Some v else ct_lookup k r
    end.

  (* CompiledTemplateManager.get_or_compile:
       t = cache.get(key, None)
       if t is None:
           t = compile(...)
           if cache_max > 0:
               if len(cache) >= cache_max: cache.popitem()
               cache[key] = t
       return t
     cache_max is any Python int (0 and negatives: never cached). *)
  Definition ct_get (cache_max : Z) (k : tkey) (c : ct_cache) : ct_cache * result ctemplate :=
    match ct_lookup k c with
    | Some v => (c, Ok v)
    | None =>
      match compile k with
      | Err e => (c, Err e)
      | Ok v =>
        if (0 <? cache_max)%Z then
          let c1 := if (cache_max <=? Z.of_nat (length c))%Z then fst (popitems 1 c) else c in
          ((k, v) :: c1, Ok v)
        else (c, Ok v)
      end
    end.

  Definition ct_step (cache_max : Z) (c : ct_cache) (k : tkey) : ct_cache := fst (ct_get cache_max k c).
  Definition ct_run (cache_max : Z) (ks : list tkey) (c : ct_cache) : ct_cache :=
    fold_left (ct_step cache_max) ks c.
  Definition ct_keys (c : ct_cache) : list tkey := rev (map fst c).
End CompiledTemplateCache.
