(* Stream.v — model of pybufrkit.decoder.generate_bufr_message (decoder.py
   l.400-457): scanning a byte string for BUFR messages.

   The decoder itself is abstract here: [process] / [process_info] stand for
     decoder.process(s[idx_start:], start_signature=None, info_only=False / True)
   applied to the SUFFIX of the stream that starts at a found signature, [filt]
   for ScriptRunner(filter_expr, mode='eval').run(message) followed by Python's
   truth test, [hook] for the table-definition branch (data category 11).  What
   is modelled is the scanning logic: bytes.find, the advance rules, the
   [except PyBufrKitError] branch, the filter protocol — as coded, including
     * serialized_bytes in info-only mode is the slice s[idx : idx + declared]
       (clipped at the end of the string, like every Python slice);
     * with a filter, a message that does NOT match is advanced over by the
       length of the METADATA-ONLY decode's serialized_bytes in full mode
       (and, after the repair C11_tabledef_filter, is not handed to the
       table-definition processor);
     * only library errors (Base.is_lib_err) are caught, and only with
       continue_on_error; the recovery re-decodes metadata-only and advances by
       the DECLARED length (unclipped), or by 1 if that fails with a library
       error too; any other exception propagates;
     * nothing guarantees progress: a declared length of 0 loops forever (the
       model runs on fuel; exhaustion is [Some EFuel] and is excluded in the
       theorems by proving the given fuel sufficient).
   Model file: definitions only. *)
From PBK Require Import Base.

(* ---------------------------------------------------------------------- *)
(* bytes.find                                                              *)
(* ---------------------------------------------------------------------- *)

(* MESSAGE_START_SIGNATURE = b'BUFR' *)
Definition sig : list byte := [66; 85; 70; 82]%N.

(* p is a prefix of s  (s.startswith(p)) *)
Fixpoint prefixb (p s : list byte) : bool :=
  match p, s with
  | [], _ => true
  | _ :: _, [] => false
  | a :: p', b :: s' => N.eqb a b && prefixb p' s'
  end.

(* naive search in s; positions are reported with offset i *)
Fixpoint find_from (sub s : list byte) (i : nat) : option nat :=
  if prefixb sub s then Some i
  else match s with
       | [] => None
       | _ :: t => find_from sub t (S i)
       end.

(* Python: s.find(sub, start) for 0 <= start; None stands for -1 *)
Definition find (sub s : list byte) (start : nat) : option nat :=
  if length s <? start then None else find_from sub (skipn start s) start.

(* ---------------------------------------------------------------------- *)
(* what the scanner reads off a decoded message                            *)
(* ---------------------------------------------------------------------- *)

Record msginfo := MsgInfo {
  mi_consumed : nat;      (* len(bufr_message.serialized_bytes) as set by Decoder.process
                             (= nbits_decoded // 8 of THAT decode: the whole message for a
                             full decode, sections 0..4 for a metadata-only decode) *)
  mi_declared : nat;      (* bufr_message.length.value: total length declared in section 0 *)
  mi_meta : list N        (* everything else the filter / the table hook may look at
                             (edition, data_category, n_subsets, ...); opaque to the scanner *)
}.

(* result of one loop iteration at a found signature; advances are relative *)
Inductive action :=
  | Yield (piece : list byte) (adv : nat)   (* idx_start += adv; yield message with these serialized_bytes *)
  | Skip (adv : nat)                        (* idx_start += adv; nothing yielded *)
  | Raise (e : err).                        (* the generator raises *)

(* yielded serialized_bytes so far, and how the generator ended:
   None = exhausted normally, Some e = raised e (EFuel = model ran out of fuel) *)
Definition outcome := (list (list byte) * option err)%type.

(* PEP 479: generate_bufr_message is a generator; a StopIteration that
   propagates out of its body reaches the caller as RuntimeError (class "other") *)
Definition gen_exc (e : err) : err :=
  match e with EStopIter => EOther | _ => e end.

Definition cons_piece (p : list byte) (r : outcome) : outcome := (p :: fst r, snd r).

Section Scanner.
  Variable process : list byte -> result msginfo.       (* full decode of s[idx_start:] *)
  Variable process_info : list byte -> result msginfo.  (* metadata-only decode of s[idx_start:] *)
  Variable filt : msginfo -> result bool.               (* bool(sr.run(bufr_message)) *)
  Variable hook : msginfo -> result unit.               (* table-definition branch: Ok tt when the
                                                           condition is false or processing succeeds *)

  (* the decode(s) of the try block: the message object that ends up in
     [bufr_message] and the value of [matched] *)
  Definition decode_step (info_only use_filter : bool) (sl : list byte) : result (msginfo * bool) :=
    if use_filter then
      match process_info sl with
      | Err e => Err e
      | Ok mi =>
        match filt mi with
        | Err e => Err e
        | Ok matched =>
          if matched && negb info_only then
            match process sl with
            | Err e => Err e
            | Ok bm => Ok (bm, true)
            end
          else Ok (mi, matched)
        end
      end
    else
      match (if info_only then process_info sl else process sl) with
      | Err e => Err e
      | Ok bm => Ok (bm, true)
      end.

  (* serialized_bytes of the message after the [if info_only: ... else: ...] block.
     The table-definition branch runs only for a message that passed the filter
     (repaired code, fixes/C11_tabledef_filter.diff: the original ran it on the
     metadata-only message of a rejected one, which has no template data). *)
  Definition piece_of (info_only matched : bool) (bm : msginfo) (sl : list byte) : result (list byte) :=
    if info_only then Ok (firstn (mi_declared bm) sl)         (* s[idx : idx + length.value] *)
    else if matched then
           match hook bm with
           | Err e => Err e
           | Ok _ => Ok (firstn (mi_consumed bm) sl)           (* as set by Decoder.process *)
           end
         else Ok (firstn (mi_consumed bm) sl).

  (* the body of the try block *)
  Definition attempt (info_only use_filter : bool) (sl : list byte) : result (list byte * bool) :=
    match decode_step info_only use_filter sl with
    | Err e => Err e
    | Ok (bm, matched) =>
      match piece_of info_only matched bm sl with
      | Err e => Err e
      | Ok p => Ok (p, matched)
      end
    end.

  (* except PyBufrKitError as e: ... *)
  Definition recover (info_only continue_on_error : bool) (sl : list byte) (e : err) : action :=
    if is_lib_err e then
      if continue_on_error then
        if info_only then Skip 1
        else match process_info sl with
             | Ok mi => Skip (mi_declared mi)                  (* idx_start += length.value *)
             | Err e' => if is_lib_err e' then Skip 1 else Raise e'
             end
      else Raise e
    else Raise e.

  (* one iteration, at a found signature; sl = s[idx_start:] *)
  Definition step (info_only continue_on_error use_filter : bool) (sl : list byte) : action :=
    match attempt info_only use_filter sl with
    | Ok (p, matched) => if matched then Yield p (length p) else Skip (length p)
    | Err e => recover info_only continue_on_error sl e
    end.

  (* while idx_start < len(s): ... *)
  Fixpoint scan (info_only continue_on_error use_filter : bool)
           (fuel : nat) (s : list byte) (idx : nat) : outcome :=
    match fuel with
    | O => ([], Some EFuel)
    | S f =>
      if idx <? length s then
        match find sig s idx with
        | None => ([], None)
        | Some i =>
          match step info_only continue_on_error use_filter (skipn i s) with
          | Yield p adv => cons_piece p (scan info_only continue_on_error use_filter f s (i + adv))
          | Skip adv => scan info_only continue_on_error use_filter f s (i + adv)
          | Raise e => ([], Some (gen_exc e))
          end
        end
      else ([], None)
    end.

  (* [m.serialized_bytes for m in generate_bufr_message(decoder, s, info_only,
     continue_on_error, filter_expr)], plus the exception that ended it if any.
     Fuel len(s)+1 suffices whenever every iteration advances (StreamProofs). *)
  Definition generate (info_only continue_on_error use_filter : bool) (s : list byte) : outcome :=
    scan info_only continue_on_error use_filter (S (length s)) s 0.

  (* -------------------------------------------------------------------- *)
  (* vocabulary of the theorems                                            *)
  (* -------------------------------------------------------------------- *)

  (* what the decoder-level properties (C04, C12) provide for a valid message m
     followed by arbitrary bytes t *)

  (* full decode: suffix independent, consumes exactly m, table hook quiet *)
  Definition full_ok (m : list byte) : Prop :=
    exists mi, (forall t, process (m ++ t) = Ok mi) /\ mi_consumed mi = length m /\ hook mi = Ok tt.

  (* metadata-only decode: suffix independent, declared length = actual length *)
  Definition info_ok (m : list byte) : Prop :=
    exists mi, (forall t, process_info (m ++ t) = Ok mi) /\ mi_declared mi = length m.

  (* metadata-only decode with the filter's verdict b.  In full mode a message that
     does not match is advanced over by the metadata-only decode's own
     serialized_bytes (sections 0..4): what is left of m (the stop signature)
     must not contain the byte 'B' *)
  Definition filt_ok (info_only : bool) (m : list byte) (b : bool) : Prop :=
    exists mi, (forall t, process_info (m ++ t) = Ok mi) /\ filt mi = Ok b /\
      if info_only then mi_declared mi = length m
      else if b then full_ok m
           else mi_consumed mi <= length m /\ ~ In 66%N (skipn (mi_consumed mi) m).

  (* a damaged message (C12): the full decode fails with error e whatever follows *)
  Definition full_fails (m : list byte) (e : err) : Prop :=
    forall t, process (m ++ t) = Err e.
  Definition info_fails (m : list byte) (e : err) : Prop :=
    forall t, process_info (m ++ t) = Err e.

  (* a valid message for the mode: the decode the scanner performs succeeds on
     m ++ t for every t with the same result, and the length it advances by
     (consumed bytes in full mode, declared total length in metadata-only mode)
     is the length of m *)
  Definition valid_msg (info_only : bool) (m : list byte) : Prop :=
    if info_only then info_ok m else full_ok m.
  Definition fails (info_only : bool) (m : list byte) (e : err) : Prop :=
    if info_only then info_fails m e else full_fails m e.
End Scanner.

(* sub occurs in s as a contiguous substring *)
Definition occurs (sub s : list byte) : Prop := exists a b, s = a ++ sub ++ b.
Definition nosig (s : list byte) : Prop := ~ occurs sig s.
Definition starts_sig (m : list byte) : Prop := exists b, m = sig ++ b.

(* m1 ++ sep1 ++ m2 ++ sep2 ++ ... *)
Fixpoint assemble (l : list (list byte * list byte)) : list byte :=
  match l with
  | [] => []
  | (m, sp) :: l' => m ++ sp ++ assemble l'
  end.

(* every message of the stream starts with the signature, satisfies P, and is
   followed by a separator that does not contain the signature *)
Definition stream_ok (P : list byte -> Prop) (l : list (list byte * list byte)) : Prop :=
  Forall (fun x => starts_sig (fst x) /\ nosig (snd x) /\ P (fst x)) l.

(* ---------------------------------------------------------------------- *)
(* instantiation used by the correspondence check                          *)
(* ---------------------------------------------------------------------- *)
(* The harness observes, for every offset of the stream at which the signature
   occurs, what the real decoder does on the suffix starting there, and hands
   these observations over as a table; the scanner model then runs on top of
   it.  What is compared with generate_bufr_message is therefore the scanning
   logic (find, advance, except branch, filter protocol), not the decoder. *)
Record entry := Entry {
  en_off : N;                        (* offset of an occurrence of 'BUFR' *)
  en_full : result (N * N);          (* full decode there: len(serialized_bytes), length.value *)
  en_info : result (N * N);          (* metadata-only decode there: the same two numbers *)
  en_filt : result bool;             (* bool(sr.run(metadata-only message)) *)
  en_hook_full : result unit;        (* table-definition branch on the full decode *)
  en_hook_info : result unit         (* ... on the metadata-only decode *)
}.

Fixpoint lookup (tbl : list entry) (off : N) : option entry :=
  match tbl with
  | [] => None
  | en :: tbl' => if N.eqb (en_off en) off then Some en else lookup tbl' off
  end.

(* lengths beyond the end of the stream all behave alike (slices clip, the loop
   ends when idx_start >= len(s)); they are cut to len(s)+1 so that no huge
   unary number is ever built *)
Definition clip (total : nat) (n : N) : nat :=
  if N.ltb (N.of_nat total) n then S total else N.to_nat n.

Definition tbl_process (tbl : list entry) (total : nat) (mode : N) (sl : list byte) : result msginfo :=
  let off := N.of_nat (total - length sl) in
  match lookup tbl off with
  | None => Err EOther
  | Some en =>
    match (if N.eqb mode 0 then en_full en else en_info en) with
    | Err e => Err e
    | Ok (c, d) => Ok (MsgInfo (clip total c) (clip total d) [off; mode])
    end
  end.

Definition tbl_filt (tbl : list entry) (mi : msginfo) : result bool :=
  match mi_meta mi with
  | [off; _] => match lookup tbl off with Some en => en_filt en | None => Err EOther end
  | _ => Err EOther
  end.

Definition tbl_hook (tbl : list entry) (mi : msginfo) : result unit :=
  match mi_meta mi with
  | [off; mode] =>
    match lookup tbl off with
    | Some en => if N.eqb mode 0 then en_hook_full en else en_hook_info en
    | None => Err EOther
    end
  | _ => Err EOther
  end.

Definition tbl_generate (tbl : list entry) (info_only continue_on_error use_filter : bool)
           (s : list byte) : outcome :=
  generate (tbl_process tbl (length s) 0) (tbl_process tbl (length s) 1)
           (tbl_filt tbl) (tbl_hook tbl) info_only continue_on_error use_filter s.
