(* ScriptProofs.v — theorems about Script.v (C18). *)
From PBK Require Import Base Script.
From Coq Require Import ZifyBool ZifyNat ZifyN.
From Coq Require Decimal DecimalN DecimalFacts.
Local Open Scope N_scope.

(* ---- basics -------------------------------------------------------------- *)
Lemma bytes_eqb_eq a b : bytes_eqb a b = true <-> a = b.
Proof.
  revert b; induction a as [|x a IH]; intros [|y b]; cbn [bytes_eqb]; split; intros H;
    try reflexivity; try discriminate.
  - apply andb_true_iff in H as [H1 H2]. apply N.eqb_eq in H1. apply IH in H2. congruence.
  - injection H as -> ->. rewrite N.eqb_refl. cbn. apply IH. reflexivity.
Qed.
Lemma bytes_eqb_refl a : bytes_eqb a a = true.
Proof. apply bytes_eqb_eq; reflexivity. Qed.
Lemma bytes_eqb_neq a b : bytes_eqb a b = false <-> a <> b.
Proof.
  split; intros H.
  - intros E. apply bytes_eqb_eq in E. congruence.
  - destruct (bytes_eqb a b) eqn:E; [|reflexivity]. apply bytes_eqb_eq in E. contradiction.
Qed.

Lemma memb_false_cons x a l : memb x (a :: l) = false -> x <> a /\ memb x l = false.
Proof.
  unfold memb; cbn [existsb]. intros H. apply orb_false_iff in H as [H1 H2].
  apply N.eqb_neq in H1. auto.
Qed.

Lemma keeps_nil p : keeps [] p = p.
Proof. destruct p; reflexivity. Qed.
Lemma keepc_keeps c p : keepc c p = keeps [c] p.
Proof. reflexivity. Qed.
Lemma keeps_keeps a b p : keeps a (keeps b p) = keeps (a ++ b) p.
Proof. unfold keeps; cbn [fst snd]. rewrite app_assoc. reflexivity. Qed.
Lemma keepc_keeps_cons c l p : keepc c (keeps l p) = keeps (c :: l) p.
Proof. reflexivity. Qed.

(* ---- one-step behaviour of the scanner ------------------------------------ *)
Lemma scan_cons st q idx m c t :
  scan st q idx m (c :: t) =
    match st with
    | SEmbed =>
      if c =? c_rbrace then
        let e := strip (rev q) in
        match lookup e m with
        | None => let v := varname idx in keeps v (scan SIdle [] (idx + 1) (m ++ [(e, v)]) t)
        | Some v => keeps v (scan SIdle [] idx m t)
        end
      else scan SEmbed (c :: q) idx m t
    | _ =>
      if (c =? c_sq) || (c =? c_dq) then
        let st' := if state_is_quote st c then SIdle
                   else if is_idle st then quote_state c
                   else st in
        keepc c (scan st' q idx m t)
      else if (c =? c_dollar) && is_idle st then
        match t with
        | c2 :: t' =>
          if c2 =? c_lbrace then scan SEmbed q idx m t'
          else keepc c (scan st q idx m t)
        | [] => keepc c (scan st q idx m t)
        end
      else if (c =? c_hash) && is_idle st then keepc c (scan SComment q idx m t)
      else if (c =? c_nl) && is_comment st then keepc c (scan SIdle q idx m t)
      else keepc c (scan st q idx m t)
    end.
Proof. destruct st; reflexivity. Qed.

(* the character that ends a literal / a comment *)
Definition closer (st : state) : byte :=
  match st with SSQ => c_sq | SDQ => c_dq | _ => c_nl end.
Definition inert (st : state) : Prop := st = SSQ \/ st = SDQ \/ st = SComment.

Ltac eqb_cases a :=
  unfold c_sq, c_dq, c_dollar, c_hash, c_nl, c_lbrace, c_rbrace in *;
  repeat match goal with
  | |- context [a =? ?k] => destruct (N.eqb_spec a k); try subst a; try lia; try congruence
  end.

(* inside a literal or a comment every character except the closer is kept and
   changes nothing *)
Lemma scan_inert_step st q idx m a t :
  inert st -> a <> closer st ->
  scan st q idx m (a :: t) = keepc a (scan st q idx m t).
Proof.
  intros [-> | [-> | ->]] Ha; rewrite scan_cons; unfold closer in Ha;
    cbn [state_is_quote is_idle is_comment]; eqb_cases a; cbn; try reflexivity;
    try (exfalso; apply Ha; reflexivity).
Qed.

Lemma scan_inert_run st q idx m l rest :
  inert st -> memb (closer st) l = false ->
  scan st q idx m (l ++ rest) = keeps l (scan st q idx m rest).
Proof.
  intros Hst; induction l as [|a l IH]; intros Hl.
  - cbn [app]. rewrite keeps_nil. reflexivity.
  - apply memb_false_cons in Hl as [Hne Hl].
    cbn [app]. rewrite scan_inert_step by (auto; congruence).
    rewrite IH by assumption. reflexivity.
Qed.

Lemma scan_close_sq q idx m t :
  scan SSQ q idx m (c_sq :: t) = keepc c_sq (scan SIdle q idx m t).
Proof. reflexivity. Qed.
Lemma scan_close_dq q idx m t :
  scan SDQ q idx m (c_dq :: t) = keepc c_dq (scan SIdle q idx m t).
Proof. reflexivity. Qed.
Lemma scan_close_comment q idx m t :
  scan SComment q idx m (c_nl :: t) = keepc c_nl (scan SIdle q idx m t).
Proof. reflexivity. Qed.
Lemma scan_open_sq q idx m t :
  scan SIdle q idx m (c_sq :: t) = keepc c_sq (scan SSQ q idx m t).
Proof. reflexivity. Qed.
Lemma scan_open_dq q idx m t :
  scan SIdle q idx m (c_dq :: t) = keepc c_dq (scan SDQ q idx m t).
Proof. reflexivity. Qed.
Lemma scan_open_comment q idx m t :
  scan SIdle q idx m (c_hash :: t) = keepc c_hash (scan SComment q idx m t).
Proof. reflexivity. Qed.
Lemma scan_open_embed q idx m t :
  scan SIdle q idx m (c_dollar :: c_lbrace :: t) = scan SEmbed q idx m t.
Proof. reflexivity. Qed.
Lemma scan_nil st q idx m : scan st q idx m [] = ([], m).
Proof. reflexivity. Qed.

(* a plain code character *)
Lemma scan_idle_plain q idx m a t :
  a <> c_sq -> a <> c_dq -> a <> c_hash ->
  (a = c_dollar -> hd_error t <> Some c_lbrace) ->
  scan SIdle q idx m (a :: t) = keepc a (scan SIdle q idx m t).
Proof.
  intros H1 H2 H3 H4. rewrite scan_cons. cbn [state_is_quote is_idle is_comment].
  unfold c_sq, c_dq, c_hash in H1, H2, H3.
  destruct (N.eqb_spec a c_sq) as [E|_]; [unfold c_sq in E; congruence|].
  destruct (N.eqb_spec a c_dq) as [E|_]; [unfold c_dq in E; congruence|].
  cbn [orb].
  destruct (N.eqb_spec a c_dollar) as [E|_]; cbn [andb].
  - destruct t as [|c2 t']; [reflexivity|].
    destruct (N.eqb_spec c2 c_lbrace) as [E2|_]; [|reflexivity].
    exfalso. apply (H4 E). cbn. congruence.
  - destruct (N.eqb_spec a c_hash) as [E|_]; [unfold c_hash in E; congruence|].
    rewrite andb_false_r. reflexivity.
Qed.

Lemma no_dollar_brace_cons a t :
  no_dollar_brace (a :: t) = true ->
  (a = c_dollar -> hd_error t <> Some c_lbrace) /\ no_dollar_brace t = true.
Proof.
  cbn [no_dollar_brace]. destruct t as [|b t'].
  - intros _. split; [intros _; cbn; discriminate|reflexivity].
  - intros H. apply andb_true_iff in H as [H1 H2]. split; [|exact H2].
    intros -> E. cbn in E. injection E as ->. cbn in H1. discriminate.
Qed.

Lemma scan_code q idx m c rest :
  memb c_sq c = false -> memb c_dq c = false -> memb c_hash c = false ->
  no_dollar_brace (c ++ firstn 1 rest) = true ->
  scan SIdle q idx m (c ++ rest) = keeps c (scan SIdle q idx m rest).
Proof.
  induction c as [|a c IH]; intros H1 H2 H3 H4.
  - cbn [app]. rewrite keeps_nil. reflexivity.
  - apply memb_false_cons in H1 as [N1 H1]. apply memb_false_cons in H2 as [N2 H2].
    apply memb_false_cons in H3 as [N3 H3].
    cbn [app] in H4. apply no_dollar_brace_cons in H4 as [H4 H5].
    cbn [app]. rewrite scan_idle_plain; auto.
    + rewrite IH by assumption. reflexivity.
    + intros E. specialize (H4 E). destruct c as [|b c'].
      * cbn [app] in *. destruct rest; cbn in *; assumption.
      * cbn in *. assumption.
Qed.

Lemma scan_embed_run q idx m e rest :
  memb c_rbrace e = false ->
  scan SEmbed q idx m (e ++ rest) = scan SEmbed (rev e ++ q) idx m rest.
Proof.
  revert q; induction e as [|a e IH]; intros q H.
  - reflexivity.
  - apply memb_false_cons in H as [Hne H].
    cbn [app]. rewrite scan_cons.
    destruct (N.eqb_spec a c_rbrace) as [E|_]; [congruence|].
    rewrite IH by assumption. cbn [rev]. rewrite <- app_assoc. reflexivity.
Qed.

Lemma scan_embed_close idx m e t :
  scan SEmbed (rev e) idx m (c_rbrace :: t) =
    match lookup (strip e) m with
    | None => keeps (varname idx) (scan SIdle [] (idx + 1) (m ++ [(strip e, varname idx)]) t)
    | Some v => keeps v (scan SIdle [] idx m t)
    end.
Proof. rewrite scan_cons. rewrite N.eqb_refl. cbv zeta. rewrite rev_involutive. reflexivity. Qed.

(* ---- numbering ------------------------------------------------------------ *)
Lemma lookup_number_from k keys : forall i,
  lookup k (number_from i keys) =
    if mem_key k keys then Some (varname (i + index_of k keys)) else None.
Proof.
  induction keys as [|k' r IH]; intros i; cbn [number_from lookup mem_key existsb index_of].
  - reflexivity.
  - destruct (bytes_eqb k k') eqn:E; cbn [orb].
    + rewrite N.add_0_r. reflexivity.
    + rewrite IH. unfold mem_key. destruct (existsb (bytes_eqb k) r); [|reflexivity].
      f_equal. f_equal. lia.
Qed.

Lemma number_from_snoc keys k : forall i,
  number_from i (keys ++ [k]) = number_from i keys ++ [(k, varname (i + N.of_nat (length keys)))].
Proof.
  induction keys as [|k' r IH]; intros i; cbn [number_from app length].
  - rewrite N.add_0_r. reflexivity.
  - rewrite IH. replace (i + N.of_nat (S (length r))) with (i + 1 + N.of_nat (length r)) by lia. reflexivity.
Qed.

Lemma index_of_app_mem k keys ext :
  mem_key k keys = true -> index_of k (keys ++ ext) = index_of k keys.
Proof.
  induction keys as [|k' r IH]; cbn [mem_key existsb index_of app]; intros H; [discriminate|].
  destruct (bytes_eqb k k'); [reflexivity|]. cbn [orb] in H. rewrite IH by exact H. reflexivity.
Qed.

Lemma index_of_app_new k keys ext :
  mem_key k keys = false -> index_of k (keys ++ k :: ext) = N.of_nat (length keys).
Proof.
  induction keys as [|k' r IH]; cbn [mem_key existsb index_of app length]; intros H.
  - rewrite bytes_eqb_refl. reflexivity.
  - apply orb_false_iff in H as [H1 H2]. rewrite H1. rewrite IH by exact H2. lia.
Qed.

Lemma first_occ_from_ext l : forall known, exists ext, first_occ_from known l = known ++ ext.
Proof.
  unfold first_occ_from. induction l as [|k l IH]; intros known; cbn [fold_left].
  - exists []. rewrite app_nil_r. reflexivity.
  - destruct (mem_key k known).
    + apply IH.
    + destruct (IH (known ++ [k])) as [ext E]. exists (k :: ext). rewrite E, <- app_assoc. reflexivity.
Qed.

Lemma first_occ_from_cons known k l :
  first_occ_from known (k :: l) =
    first_occ_from (if mem_key k known then known else known ++ [k]) l.
Proof. reflexivity. Qed.

(* ---- the segment theorem --------------------------------------------------- *)
Lemma render_all_cons sg r : render_all (sg :: r) = render sg ++ render_all r.
Proof. reflexivity. Qed.

Lemma scan_segments : forall segs keys,
  wf_segs segs = true ->
  scan SIdle [] (N.of_nat (length keys)) (number_from 0 keys) (render_all segs) =
    (concat (map (out_seg (first_occ_from keys (exprs segs))) segs),
     number_from 0 (first_occ_from keys (exprs segs))).
Proof.
  induction segs as [|sg r IH]; intros keys Hwf.
  - reflexivity.
  - cbn [wf_segs] in Hwf. apply andb_true_iff in Hwf as [Hok Hwf].
    rewrite render_all_cons. cbn [map concat].
    destruct sg as [c|s|s|t closed|e]; cbn [seg_ok] in Hok.
    + (* Code *)
      repeat (apply andb_true_iff in Hok as [Hok ?]).
      cbn [render exprs out_seg].
      rewrite scan_code; try (apply negb_true_iff; assumption); try assumption.
      rewrite IH by assumption. reflexivity.
    + (* SQ *)
      apply negb_true_iff in Hok.
      cbn [render exprs out_seg]. cbn [app]. rewrite scan_open_sq.
      rewrite <- app_assoc. rewrite scan_inert_run by (unfold inert; auto).
      cbn [app]. rewrite scan_close_sq, IH by assumption.
      unfold keepc, keeps; cbn [fst snd]. rewrite <- app_assoc. reflexivity.
    + (* DQ *)
      apply negb_true_iff in Hok.
      cbn [render exprs out_seg]. cbn [app]. rewrite scan_open_dq.
      rewrite <- app_assoc. rewrite scan_inert_run by (unfold inert; auto).
      cbn [app]. rewrite scan_close_dq, IH by assumption.
      unfold keepc, keeps; cbn [fst snd]. rewrite <- app_assoc. reflexivity.
    + (* Comment *)
      apply andb_true_iff in Hok as [Hnl Hcl]. apply negb_true_iff in Hnl.
      cbn [render exprs out_seg]. cbn [app]. rewrite scan_open_comment.
      rewrite <- app_assoc. rewrite scan_inert_run by (unfold inert; auto).
      destruct closed.
      * cbn [app]. rewrite scan_close_comment, IH by assumption.
        unfold keepc, keeps; cbn [fst snd]. rewrite <- app_assoc. reflexivity.
      * cbn [orb] in Hcl. destruct (render_all r) eqn:Er; [|discriminate].
        assert (r_out : concat (map (out_seg (first_occ_from keys (exprs r))) r) = [] /\
                        number_from 0 (first_occ_from keys (exprs r)) = number_from 0 keys).
        { specialize (IH keys Hwf). rewrite scan_nil in IH. injection IH as <- <-. auto. }
        destruct r_out as [E1 E2].
        cbn [app]. rewrite scan_nil. unfold keepc, keeps; cbn [fst snd].
        rewrite E1, E2, !app_nil_r. reflexivity.
    + (* Embed *)
      apply negb_true_iff in Hok.
      cbn [render exprs out_seg]. cbn [app]. rewrite scan_open_embed.
      rewrite <- app_assoc. rewrite scan_embed_run by assumption.
      cbn [app]. rewrite app_nil_r, scan_embed_close.
      rewrite lookup_number_from. rewrite first_occ_from_cons.
      destruct (mem_key (strip e) keys) eqn:Emem.
      * rewrite IH by assumption.
        destruct (first_occ_from_ext (exprs r) keys) as [ext Eext].
        rewrite Eext. rewrite index_of_app_mem by assumption.
        unfold keeps; cbn [fst snd]. rewrite ?N.add_0_l. reflexivity.
      * rewrite <- number_from_snoc.
        replace (N.of_nat (length keys) + 1) with (N.of_nat (length (keys ++ [strip e])))
          by (rewrite app_length; cbn [length]; lia).
        rewrite IH by assumption.
        destruct (first_occ_from_ext (exprs r) (keys ++ [strip e])) as [ext Eext].
        rewrite Eext. rewrite <- app_assoc. cbn [app].
        rewrite index_of_app_new by assumption.
        unfold keeps; cbn [fst snd]. rewrite ?N.add_0_l. reflexivity.
Qed.

Theorem preprocess_segments : forall segs,
  wf_segs segs = true ->
  process_embedded_query_expr (render_all segs) = spec_segments segs.
Proof. intros segs H. apply (scan_segments segs [] H). Qed.

(* ---- names: same name for the same trimmed expression, distinct otherwise -- *)
Lemma uint_bytes_inj u v : uint_bytes u = uint_bytes v -> u = v.
Proof.
  revert v; induction u; intros v H; destruct v; cbn [uint_bytes] in H;
    try reflexivity; try discriminate; injection H as H; f_equal; auto.
Qed.

Lemma dec_bytes_inj a b : dec_bytes a = dec_bytes b -> a = b.
Proof.
  unfold dec_bytes. intros H. apply uint_bytes_inj in H.
  rewrite <- (DecimalN.Unsigned.of_to a), <- (DecimalN.Unsigned.of_to b). congruence.
Qed.

Lemma varname_inj a b : varname a = varname b -> a = b.
Proof. unfold varname. intros H. apply app_inv_head in H. apply dec_bytes_inj; exact H. Qed.

Lemma mem_key_true k keys : mem_key k keys = true <-> In k keys.
Proof.
  unfold mem_key. rewrite existsb_exists. split.
  - intros [x [Hx E]]. apply bytes_eqb_eq in E. subst. exact Hx.
  - intros H. exists k. split; [exact H|apply bytes_eqb_refl].
Qed.

Lemma index_of_inj keys a b :
  In a keys -> In b keys -> index_of a keys = index_of b keys -> a = b.
Proof.
  induction keys as [|k r IH]; intros Ha Hb; [destruct Ha|].
  cbn [index_of]. destruct (bytes_eqb a k) eqn:Ea; destruct (bytes_eqb b k) eqn:Eb; intros H.
  - apply bytes_eqb_eq in Ea, Eb. congruence.
  - lia.
  - lia.
  - apply bytes_eqb_neq in Ea, Eb.
    destruct Ha as [Ha|Ha]; [congruence|]. destruct Hb as [Hb|Hb]; [congruence|].
    apply IH; auto. lia.
Qed.

(* membership in the first-occurrence list *)
Lemma first_occ_from_in l : forall known k,
  In k (first_occ_from known l) <-> In k known \/ In k l.
Proof.
  induction l as [|x l IH]; intros known k.
  - cbn. tauto.
  - rewrite first_occ_from_cons, IH. cbn [In].
    destruct (mem_key x known) eqn:E.
    + apply mem_key_true in E. split; [tauto|]. intros [H|[H|H]]; auto. subst. auto.
    + rewrite in_app_iff. cbn [In]. tauto.
Qed.

Lemma NoDup_snoc {A} (l : list A) x : NoDup l -> ~ In x l -> NoDup (l ++ [x]).
Proof.
  induction l as [|a l IH]; intros H Hx; cbn [app].
  - constructor; [intros []|constructor].
  - inversion H as [|? ? Ha Hl]; subst. constructor.
    + rewrite in_app_iff. cbn [In]. intros [H1|[H1|[]]]; [contradiction|]. subst. apply Hx. left. reflexivity.
    + apply IH; [exact Hl|]. intros H1. apply Hx. right. exact H1.
Qed.

Lemma first_occ_from_nodup l : forall known, NoDup known -> NoDup (first_occ_from known l).
Proof.
  induction l as [|x l IH]; intros known H; [exact H|].
  rewrite first_occ_from_cons. apply IH. destruct (mem_key x known) eqn:E; [exact H|].
  apply NoDup_snoc; [exact H|]. intros Hin. apply mem_key_true in Hin. congruence.
Qed.

Lemma exprs_in segs k : In k (exprs segs) <-> exists e, In (Embed e) segs /\ k = strip e.
Proof.
  induction segs as [|sg r IH].
  - cbn. split; [tauto|]. intros [e [[] _]].
  - destruct sg; cbn [exprs In]; rewrite ?IH; split.
    all: try (intros [e [H1 H2]]; exists e; split; [right; exact H1|exact H2]).
    all: try (intros [e0 [[H1|H1] H2]]; [discriminate|exists e0; auto]).
    + intros [H|[e0 [H1 H2]]]; [exists e; auto|exists e0; auto].
    + intros [e0 [[H1|H1] H2]]; [injection H1 as ->; auto|right; exists e0; auto].
Qed.

(* two embedded expressions get the same variable iff their trimmed texts are equal *)
Theorem preprocess_names : forall segs e1 e2,
  In (Embed e1) segs -> In (Embed e2) segs ->
  let keys := first_occ (exprs segs) in
  (out_seg keys (Embed e1) = out_seg keys (Embed e2) <-> strip e1 = strip e2).
Proof.
  intros segs e1 e2 H1 H2 keys. cbn [out_seg]. split; [|intros ->; reflexivity].
  intros H. apply varname_inj in H.
  assert (I1 : In (strip e1) keys).
  { apply first_occ_from_in. right. apply exprs_in. eauto. }
  assert (I2 : In (strip e2) keys).
  { apply first_occ_from_in. right. apply exprs_in. eauto. }
  exact (index_of_inj keys _ _ I1 I2 H).
Qed.

(* the substitutions: exactly the distinct trimmed expressions, in order of first
   occurrence, the i-th bound to PBK_i; every embedded expression is bound to
   the name that replaced it *)
Lemma number_from_keys keys : forall i, map fst (number_from i keys) = keys.
Proof. induction keys as [|k r IH]; intros i; cbn; [reflexivity|]. rewrite IH. reflexivity. Qed.

Lemma number_from_nth keys : forall i j k,
  nth_error keys j = Some k ->
  nth_error (number_from i keys) j = Some (k, varname (i + N.of_nat j)).
Proof.
  induction keys as [|k' r IH]; intros i j k H; destruct j; cbn in H; try discriminate.
  - injection H as ->. cbn. rewrite N.add_0_r. reflexivity.
  - cbn [number_from nth_error]. rewrite (IH _ _ _ H). do 3 f_equal. lia.
Qed.

Theorem substitutions_exact : forall segs,
  let keys := first_occ (exprs segs) in
  let m := snd (spec_segments segs) in
  map fst m = keys /\ NoDup keys /\
  (forall k, In k keys <-> exists e, In (Embed e) segs /\ k = strip e) /\
  (forall j k, nth_error keys j = Some k -> nth_error m j = Some (k, varname (N.of_nat j))) /\
  (forall e, In (Embed e) segs -> lookup (strip e) m = Some (out_seg keys (Embed e))).
Proof.
  intros segs keys m. unfold m, spec_segments. cbn [snd]. fold keys.
  assert (Hin : forall k, In k keys <-> exists e, In (Embed e) segs /\ k = strip e).
  { intros k. unfold keys, first_occ. rewrite first_occ_from_in, exprs_in. cbn [In]. tauto. }
  repeat split.
  - apply number_from_keys.
  - apply first_occ_from_nodup. constructor.
  - apply Hin.
  - apply Hin.
  - intros j k H. apply number_from_nth with (i := 0) in H. exact H.
  - intros e He. rewrite lookup_number_from.
    assert (Hk : mem_key (strip e) keys = true) by (apply mem_key_true, Hin; eauto).
    rewrite Hk. reflexivity.
Qed.

(* ---- metadata_only --------------------------------------------------------- *)
Theorem metadata_only_iff m :
  metadata_only m = true <-> forall k v, In (k, v) m -> starts_with_pct k = true.
Proof.
  induction m as [|[k v] r IH]; cbn [metadata_only].
  - split; [intros _ k v []|reflexivity].
  - destruct (starts_with_pct k) eqn:E.
    + rewrite IH. split.
      * intros H k' v' [H1|H1]; [injection H1 as <- <-; exact E|eauto].
      * intros H k' v' H1. apply (H k' v'). right. exact H1.
    + split; [discriminate|]. intros H. rewrite <- E. apply (H k v). left. reflexivity.
Qed.

Lemma in_number_from keys : forall i k v, In (k, v) (number_from i keys) -> In k keys.
Proof.
  induction keys as [|k' r IH]; intros i k v H; [destruct H|].
  cbn [number_from In] in H. destruct H as [H|H]; [injection H as <- _; left; reflexivity|].
  right. eapply IH. exact H.
Qed.
Lemma number_from_in keys : forall i k, In k keys -> exists v, In (k, v) (number_from i keys).
Proof.
  induction keys as [|k' r IH]; intros i k H; [destruct H|].
  destruct H as [<-|H].
  - eexists. left. reflexivity.
  - destruct (IH (i + 1) k H) as [v Hv]. exists v. right. exact Hv.
Qed.

(* a script needs only metadata exactly when every embedded expression, trimmed,
   starts with % *)
Theorem metadata_only_iff_all_percent : forall segs,
  wf_segs segs = true ->
  (metadata_only (snd (process_embedded_query_expr (render_all segs))) = true <->
   forall e, In (Embed e) segs -> hd_error (strip e) = Some c_pct).
Proof.
  intros segs Hwf. rewrite preprocess_segments by assumption.
  unfold spec_segments. cbn [snd]. rewrite metadata_only_iff.
  assert (P : forall k, starts_with_pct k = true <-> hd_error k = Some c_pct).
  { intros [|c t]; cbn; [split; discriminate|]. rewrite N.eqb_eq. split; congruence. }
  split.
  - intros H e He. apply P.
    assert (Hk : In (strip e) (first_occ (exprs segs))).
    { apply first_occ_from_in. right. apply exprs_in. eauto. }
    destruct (number_from_in _ 0 _ Hk) as [v Hv]. eapply H. exact Hv.
  - intros H k v Hkv. apply in_number_from in Hkv.
    apply first_occ_from_in in Hkv as [[]|Hkv]. apply exprs_in in Hkv as [e [He ->]].
    apply P. auto.
Qed.

(* ---- nesting levels -------------------------------------------------------- *)
Section FlattenProofs.
  Context {V : Type}.

  Lemma reduce_add_from (l : list (list V)) : forall acc,
    fold_left (fun x y => x ++ y) l acc = acc ++ concat l.
  Proof.
    induction l as [|a l IH]; intros acc; cbn [fold_left concat].
    - rewrite app_nil_r. reflexivity.
    - rewrite IH, app_assoc. reflexivity.
  Qed.
  Lemma reduce_add_concat (l : list (list V)) : reduce_add l = concat l.
  Proof. unfold reduce_add. rewrite reduce_add_from. reflexivity. Qed.

  Definition level0 (qr : query_result V) := flatten_data_values 0 qr.
  Definition level1 (qr : query_result V) := flatten_data_values 1 qr.
  Definition level2 (qr : query_result V) := flatten_data_values 2 qr.
  Definition level4 (qr : query_result V) := flatten_data_values 4 qr.

  (* level 1 is the concatenation of level 2, level 0 is its first element or
     None, level 2 is the per-subset flattening of level 4 (which is the query
     result itself) *)
  Theorem nest_levels : forall qr : query_result V,
    exists (l4 : list (list (nest V))) (l2 : list (list V)) (l1 : list V) (l0 : option V),
      level4 qr = R4 l4 /\ level2 qr = R2 l2 /\ level1 qr = R1 l1 /\ level0 qr = R0 l0 /\
      l4 = qr /\
      l2 = map flatten_list l4 /\
      l1 = concat l2 /\
      l0 = hd_error l1.
  Proof.
    intros qr. unfold level0, level1, level2, level4, flatten_data_values.
    cbn [Z.eqb]. unfold all_values_flat, all_values. rewrite reduce_add_concat.
    exists qr, (map flatten_list qr), (concat (map flatten_list qr)),
           (hd_error (concat (map flatten_list qr))).
    repeat split; try reflexivity.
  Qed.

  (* any level other than 0, 1, 2 means "no flattening" *)
  Theorem nest_level_other : forall (k : Z) (qr : query_result V),
    k <> 0%Z -> k <> 1%Z -> k <> 2%Z -> flatten_data_values k qr = R4 qr.
  Proof.
    intros k qr H0 H1 H2. unfold flatten_data_values.
    destruct (Z.eqb_spec k 0); [contradiction|]. destruct (Z.eqb_spec k 1); [contradiction|].
    destruct (Z.eqb_spec k 2); [contradiction|]. reflexivity.
  Qed.

  (* flatten_list keeps the leaves in document order: flattening a list of
     already-flat entries is the identity *)
  Lemma flatten_list_leaves (l : list V) : flatten_list (map (@Leaf V) l) = l.
  Proof. induction l as [|a l IH]; cbn; [reflexivity|]. f_equal. exact IH. Qed.
End FlattenProofs.

(* ---- pragma --------------------------------------------------------------- *)
(* the constructor argument, when given, wins over the pragma; otherwise the
   pragma (default 1) decides; a pragma error is raised in both cases *)
Theorem pragma_precedence : forall script arg l,
  process_pragma (fst (process_embedded_query_expr script)) = Ok (PLevel l) ->
  effective_level arg script = Ok (PLevel (match arg with Some k => k | None => l end)).
Proof. intros script arg l H. unfold effective_level. rewrite H. destruct arg; reflexivity. Qed.

Theorem pragma_error_propagates : forall script arg e,
  process_pragma (fst (process_embedded_query_expr script)) = Err e ->
  effective_level arg script = Err e.
Proof. intros script arg e H. unfold effective_level. rewrite H. reflexivity. Qed.

(* a script whose first line does not start with #$ has the default level 1 *)
Theorem pragma_default : forall code line rest,
  splitlines code = line :: rest -> starts_with_hash_dollar line = false ->
  process_pragma code = Ok (PLevel 1).
Proof.
  intros code line rest H1 H2. unfold process_pragma. rewrite H1. cbn [pragma_lines].
  rewrite H2. reflexivity.
Qed.
Theorem pragma_default_empty : process_pragma [] = Ok (PLevel 1).
Proof. reflexivity. Qed.

(* ---- companion examples: the hypotheses are satisfiable -------------------- *)
(* code, an embedded expression, a single-quoted literal containing an embedded
   expression, a double quote and a hash; a comment containing an embedded
   expression and both quotes; a repeated and a new expression; a dollar before
   an expression and a lone dollar; a double-quoted literal containing a quote, a
   hash and a newline; a final open comment *)
Definition ex_segs : list seg :=
  [ Code [120;32;61;32]; Embed [32;47;97;32]; Code [59;32;121;61];
    SQ [36;123;110;125;34;35]; Code [32]; Comment [32;36;123;99;125;32;34;39] true;
    Code [122;61]; Embed [47;97]; Code [43;36]; Embed [37;98]; Code [36;32;123];
    DQ [39;35;10]; Comment [36;123] false ].
Example ex_segs_wf : wf_segs ex_segs = true.
Proof. vm_compute. reflexivity. Qed.
Example ex_segs_out :
  process_embedded_query_expr (render_all ex_segs) =
    ([120;32;61;32] ++ varname 0 ++ [59;32;121;61] ++ [39;36;123;110;125;34;35;39] ++ [32]
       ++ [35;32;36;123;99;125;32;34;39;10] ++ [122;61] ++ varname 0 ++ [43;36] ++ varname 1
       ++ [36;32;123] ++ [34;39;35;10;34] ++ [35;36;123],
     [([47;97], varname 0); ([37;98], varname 1)]).
Proof. vm_compute. reflexivity. Qed.
Example ex_metadata_only_false :
  metadata_only (snd (process_embedded_query_expr (render_all ex_segs))) = false.
Proof. vm_compute. reflexivity. Qed.
Example ex_metadata_only_true :
  wf_segs [Embed [32;37;98]; Code [10]; Embed [37;99;32]] = true /\
  metadata_only (snd (process_embedded_query_expr
     (render_all [Embed [32;37;98]; Code [10]; Embed [37;99;32]]))) = true.
Proof. vm_compute. split; reflexivity. Qed.
(* a pragma line setting the level to 2, then x=1 *)
Definition ex_pragma_script : list byte :=
  [35;36;32] ++ key_nest_level ++ [32;61;32;50;10;120;61;49].
Example ex_pragma : process_pragma (fst (process_embedded_query_expr ex_pragma_script)) = Ok (PLevel 2).
Proof. vm_compute. reflexivity. Qed.
Example ex_pragma_arg : effective_level (Some 4%Z) ex_pragma_script = Ok (PLevel 4).
Proof. vm_compute. reflexivity. Qed.
Example ex_pragma_noarg : effective_level None ex_pragma_script = Ok (PLevel 2).
Proof. vm_compute. reflexivity. Qed.
Example ex_pragma_err : process_pragma [35;36;32;120] = Err EValue.
Proof. vm_compute. reflexivity. Qed.
Example ex_nest :
  let qr := [[Leaf 1%Z; Node [Leaf 2%Z; Node [Leaf 3%Z]]]; []; [Node []; Leaf 4%Z]] in
  level2 qr = R2 [[1;2;3];[];[4]]%Z /\ level1 qr = R1 [1;2;3;4]%Z /\ level0 qr = R0 (Some 1%Z).
Proof. vm_compute. repeat split. Qed.

(* ---- a pragma line really sets the level ------------------------------------- *)
Definition is_digit (c : byte) : bool := (48 <=? c) && (c <=? 57).

Lemma uint_bytes_digits u : forallb is_digit (uint_bytes u) = true.
Proof. induction u; cbn [uint_bytes forallb]; try reflexivity; rewrite IHu; reflexivity. Qed.

Lemma uint_of_bytes_uint_bytes u : uint_of_bytes (uint_bytes u) = Some u.
Proof. induction u; cbn [uint_bytes uint_of_bytes]; try reflexivity; rewrite IHu; reflexivity. Qed.

Lemma unorm_to_uint k : Decimal.unorm (N.to_uint k) = N.to_uint k.
Proof.
  rewrite <- (DecimalN.Unsigned.to_of (N.to_uint k)), DecimalN.Unsigned.of_to. reflexivity.
Qed.

Lemma literal_eval_dec k : literal_eval_uint (dec_bytes k) = Some k.
Proof.
  unfold literal_eval_uint, dec_bytes. rewrite uint_of_bytes_uint_bytes, unorm_to_uint, bytes_eqb_refl.
  rewrite DecimalN.Unsigned.of_to. reflexivity.
Qed.

Lemma digits_memb c l : forallb is_digit l = true -> is_digit c = false -> memb c l = false.
Proof.
  intros Hl Hc. induction l as [|a l IH]; [reflexivity|].
  cbn [forallb] in Hl. apply andb_true_iff in Hl as [Ha Hl]. unfold memb. cbn [existsb].
  destruct (N.eqb_spec c a) as [->|_]; [congruence|]. apply IH. exact Hl.
Qed.

Lemma lstrip_nonspace l : match l with c :: _ => is_space c = false | [] => True end -> lstrip l = l.
Proof. destruct l as [|c t]; cbn [lstrip]; [reflexivity|]. intros ->. reflexivity. Qed.

Lemma digit_not_space c : is_digit c = true -> is_space c = false.
Proof. unfold is_digit, is_space. lia. Qed.
Lemma digit_not_linebreak c : is_digit c = true -> is_linebreak c = false.
Proof. unfold is_digit, is_linebreak. lia. Qed.

Lemma strip_digits l : forallb is_digit l = true -> strip l = l.
Proof.
  intros H. unfold strip, rstrip.
  assert (L : forall l, forallb is_digit l = true -> lstrip l = l).
  { intros l0 H0. apply lstrip_nonspace. destruct l0 as [|c t]; [exact I|].
    cbn [forallb] in H0. apply andb_true_iff in H0 as [H0 _]. apply digit_not_space. exact H0. }
  rewrite (L l H). rewrite L; [apply rev_involutive|].
  rewrite forallb_forall in *. intros x Hx. apply H. apply in_rev. exact Hx.
Qed.

Lemma split_aux_nosep sep l : forall cur,
  memb sep l = false -> split_aux sep cur l = [rev cur ++ l].
Proof.
  induction l as [|a l IH]; intros cur H; cbn [split_aux].
  - rewrite app_nil_r. reflexivity.
  - apply memb_false_cons in H as [Hne H]. destruct (N.eqb_spec a sep) as [E|_]; [congruence|].
    rewrite IH by exact H. cbn [rev]. rewrite <- app_assoc. reflexivity.
Qed.

Lemma split_aux_sep sep a b : forall cur,
  memb sep a = false -> split_aux sep cur (a ++ sep :: b) = (rev cur ++ a) :: split_aux sep [] b.
Proof.
  induction a as [|x a IH]; intros cur H; cbn [app split_aux].
  - rewrite N.eqb_refl, app_nil_r. reflexivity.
  - apply memb_false_cons in H as [Hne H]. destruct (N.eqb_spec x sep) as [E|_]; [congruence|].
    rewrite IH by exact H. cbn [rev]. rewrite <- app_assoc. reflexivity.
Qed.

Lemma splitlines_aux_line l body : forall cur,
  forallb (fun c => negb (is_linebreak c)) l = true ->
  splitlines_aux cur false (l ++ c_nl :: body) = (rev cur ++ l) :: splitlines_aux [] false body.
Proof.
  induction l as [|a l IH]; intros cur H; cbn [app splitlines_aux].
  - cbn [andb]. rewrite app_nil_r. reflexivity.
  - cbn [forallb] in H. apply andb_true_iff in H as [Ha H]. apply negb_true_iff in Ha.
    cbn [andb]. rewrite Ha. rewrite IH by exact H. cbn [rev]. rewrite <- app_assoc. reflexivity.
Qed.

(* the pragma line  #$ data_values_nest_level = <k>  (k any natural number in
   decimal) followed by a body whose first line is not a pragma line *)
Definition pragma_line (k : N) : list byte :=
  [c_hash; c_dollar; 32] ++ key_nest_level ++ [32; c_eq; 32] ++ dec_bytes k.

Theorem pragma_line_sets_level : forall k body,
  match splitlines body with [] => True | line :: _ => starts_with_hash_dollar line = false end ->
  process_pragma (pragma_line k ++ c_nl :: body) = Ok (PLevel (Z.of_N k)).
Proof.
  intros k body Hbody. unfold process_pragma, splitlines.
  assert (Hd := uint_bytes_digits (N.to_uint k)). fold (dec_bytes k) in Hd.
  rewrite splitlines_aux_line.
  2:{ unfold pragma_line. rewrite !forallb_app. rewrite !andb_true_iff. repeat split; try reflexivity.
      rewrite forallb_forall in *. intros c Hc. apply negb_true_iff, digit_not_linebreak, Hd, Hc. }
  cbn [rev app pragma_lines].
  assert (Hstart : starts_with_hash_dollar (pragma_line k) = true) by reflexivity.
  rewrite Hstart.
  assert (Hskip : skipn 3 (pragma_line k) = key_nest_level ++ [32; c_eq; 32] ++ dec_bytes k) by reflexivity.
  rewrite Hskip. unfold split at 1.
  rewrite split_aux_nosep.
  2:{ unfold memb. rewrite !existsb_app. rewrite !orb_false_iff. repeat split; try reflexivity.
      apply digits_memb; [exact Hd|reflexivity]. }
  cbn [rev app pragma_assignments].
  change (key_nest_level ++ 32 :: c_eq :: 32 :: dec_bytes k)
    with ((key_nest_level ++ [32]) ++ c_eq :: (32 :: dec_bytes k)).
  unfold split. rewrite split_aux_sep by reflexivity.
  rewrite split_aux_nosep.
  2:{ apply digits_memb with (c := c_eq) in Hd; [|reflexivity].
      unfold memb in *. cbn [existsb]. rewrite Hd. reflexivity. }
  cbn [rev app].
  assert (Hk : strip (key_nest_level ++ [32]) = key_nest_level) by reflexivity.
  rewrite Hk, bytes_eqb_refl.
  assert (Hv : strip (32 :: dec_bytes k) = dec_bytes k).
  { unfold strip. cbn [lstrip]. change (is_space 32) with true. cbv iota.
    apply strip_digits. exact Hd. }
  rewrite Hv, literal_eval_dec. cbn [pragma_assignments].
  fold (splitlines body). destruct (splitlines body) as [|line r]; cbn [pragma_lines]; [reflexivity|].
  rewrite Hbody. reflexivity.
Qed.

(* a text without $ outside an embedded expression is left alone *)
Lemma scan_no_dollar s : forall st q idx m,
  st <> SEmbed -> memb c_dollar s = false -> scan st q idx m s = (s, m).
Proof.
  induction s as [|a t IH]; intros st q idx m Hst H; [reflexivity|].
  apply memb_false_cons in H as [Hne H].
  assert (E : (a =? c_dollar) = false) by (apply N.eqb_neq; congruence).
  rewrite scan_cons, E. cbn [andb].
  destruct st; try contradiction; cbn [state_is_quote is_idle is_comment andb];
    unfold quote_state;
    repeat match goal with |- context [if ?b then _ else _] => destruct b end;
    rewrite IH by (assumption || discriminate); reflexivity.
Qed.

(* with the constructor argument the argument wins, without it the pragma line
   does (the body here is any text without $, e.g. plain Python) *)
Theorem pragma_line_vs_argument : forall k body arg,
  memb c_dollar body = false ->
  match splitlines body with [] => True | line :: _ => starts_with_hash_dollar line = false end ->
  effective_level arg (pragma_line k ++ c_nl :: body) =
    Ok (PLevel (match arg with Some a => a | None => Z.of_N k end)).
Proof.
  intros k body arg Hnd Hbody. apply pragma_precedence.
  assert (Hd := uint_bytes_digits (N.to_uint k)). fold (dec_bytes k) in Hd.
  assert (Hcode : fst (process_embedded_query_expr (pragma_line k ++ c_nl :: body)) =
                  pragma_line k ++ c_nl :: body).
  { assert (Hsrc : pragma_line k ++ c_nl :: body =
                   c_hash :: ((c_dollar :: 32 :: key_nest_level ++ [32; c_eq; 32]) ++ dec_bytes k)
                          ++ c_nl :: body).
    { unfold pragma_line. cbn [app]. rewrite <- !app_assoc. cbn [app]. reflexivity. }
    rewrite Hsrc. unfold process_embedded_query_expr. rewrite scan_open_comment.
    rewrite scan_inert_run; [|unfold inert; auto|].
    2:{ unfold memb. rewrite existsb_app, orb_false_iff. split; [reflexivity|].
        apply digits_memb; [exact Hd|reflexivity]. }
    rewrite scan_close_comment, scan_no_dollar by (discriminate || assumption).
    reflexivity. }
  rewrite Hcode. apply pragma_line_sets_level. exact Hbody.
Qed.

Example pragma_line_vs_argument_ex :
  (memb c_dollar [120; 61; 49; 10] = false) /\
  (match splitlines [120; 61; 49; 10] with [] => True | line :: _ => starts_with_hash_dollar line = false end) /\
  (effective_level None (pragma_line 2 ++ c_nl :: [120; 61; 49; 10]) = Ok (PLevel 2)) /\
  (effective_level (Some 0%Z) (pragma_line 2 ++ c_nl :: [120; 61; 49; 10]) = Ok (PLevel 0)).
Proof. vm_compute. repeat split. Qed.

(* ---- running: the names are bound to the query results ------------------------ *)
Section RunProofs.
  Context {R : Type}.

  Lemma lookup_last_notin (l : list (list byte * R)) k :
    ~ In k (map fst l) -> lookup_last k l = None.
  Proof.
    induction l as [|[k' v] r IH]; intros H; cbn [lookup_last]; [reflexivity|].
    cbn [map fst In] in H. rewrite IH by tauto.
    destruct (bytes_eqb k k') eqn:E; [|reflexivity]. apply bytes_eqb_eq in E. exfalso. apply H. left. congruence.
  Qed.

  Lemma lookup_last_nodup (l : list (list byte * R)) k v :
    NoDup (map fst l) -> In (k, v) l -> lookup_last k l = Some v.
  Proof.
    induction l as [|[k' v'] r IH]; intros Hnd Hin; [destruct Hin|].
    cbn [map fst] in Hnd. inversion Hnd as [|? ? Hk' Hr]; subst. cbn [lookup_last].
    destruct Hin as [E|Hin].
    - injection E as -> ->. rewrite lookup_last_notin by exact Hk'. rewrite bytes_eqb_refl. reflexivity.
    - rewrite (IH Hr Hin). reflexivity.
  Qed.

  Lemma dec_bytes_head k : exists c t, dec_bytes k = c :: t /\ is_digit c = true.
  Proof.
    unfold dec_bytes. assert (Hd := uint_bytes_digits (N.to_uint k)).
    assert (Hn : N.to_uint k <> Decimal.Nil).
    { rewrite <- unorm_to_uint. apply DecimalFacts.unorm_nonnil. }
    destruct (N.to_uint k); try contradiction; cbn [uint_bytes forallb] in *;
      eexists; eexists; (split; [reflexivity|reflexivity]).
  Qed.

  Lemma varname_not_special i : varname i <> name_message /\ varname i <> name_filename.
  Proof.
    destruct (dec_bytes_head i) as [c [t [E Hc]]]. unfold varname. rewrite E.
    split; intros H; cbn in H; injection H as H _; subst c; discriminate.
  Qed.

  Lemma number_from_names keys : forall i k v,
    In (k, v) (number_from i keys) -> exists j, v = varname j /\ i <= j.
  Proof.
    induction keys as [|k0 r IH]; intros i k v Hin; [destruct Hin|].
    cbn [number_from In] in Hin. destruct Hin as [Hin|Hin].
    - apply (f_equal snd) in Hin. cbn [snd] in Hin. exists i. split; [congruence|lia].
    - apply IH in Hin as [j [-> Hj]]. exists j. split; [reflexivity|lia].
  Qed.

  Lemma number_from_names_nodup keys : forall i, NoDup (map snd (number_from i keys)).
  Proof.
    induction keys as [|k r IH]; intros i; cbn [number_from map snd]; constructor; [|apply IH].
    intros Hin. apply in_map_iff in Hin as [[k' v'] [E Hin]]. cbn [snd] in E. subst v'.
    apply number_from_names in Hin as [j [Hv Hj]]. apply varname_inj in Hv. lia.
  Qed.

  (* running a segment script: every embedded expression's name is bound to the
     result of its (trimmed) query, the two extra names to the message and the
     file name, and nothing else is bound *)
  Theorem run_binds : forall segs (query : list byte -> R) msg filename,
    let keys := first_occ (exprs segs) in
    let vars := prepare_variables query msg filename (snd (spec_segments segs)) in
    (forall e, In (Embed e) segs ->
               lookup_last (out_seg keys (Embed e)) vars = Some (query (strip e))) /\
    lookup_last name_message vars = Some msg /\
    lookup_last name_filename vars = Some filename /\
    map fst vars = map varname (map N.of_nat (seq 0 (length keys))) ++ [name_message; name_filename].
  Proof.
    intros segs query msg filename keys vars.
    unfold vars, spec_segments, prepare_variables. cbn [snd]. fold keys.
    set (m := number_from 0 keys).
    assert (Hnames : map fst (map (fun kv : list byte * list byte => (snd kv, query (fst kv))) m) = map snd m).
    { rewrite map_map. reflexivity. }
    assert (Hspecial : forall nm, In nm (map snd m) -> nm <> name_message /\ nm <> name_filename).
    { intros nm Hin. apply in_map_iff in Hin as [[k v] [<- Hin]]. cbn [snd].
      unfold m in Hin. apply number_from_names in Hin as [i [-> _]].
      apply varname_not_special. }
    assert (Hnd : NoDup (map fst (map (fun kv : list byte * list byte => (snd kv, query (fst kv))) m ++
                                  [(name_message, msg); (name_filename, filename)]))).
    { rewrite map_app, Hnames. cbn [map fst].
      assert (N0 := number_from_names_nodup keys 0). fold m in N0.
      assert (A : forall (l : list (list byte)) a b, NoDup l -> ~ In a l -> ~ In b l -> a <> b -> NoDup (l ++ [a; b])).
      { intros l a b Hl Ha Hb Hab. induction l as [|x l IHl]; cbn [app].
        - constructor; [intros [E|[]]; congruence|]. constructor; [intros []|constructor].
        - inversion Hl; subst. constructor.
          + rewrite in_app_iff. cbn [In]. intros [H|[H|[H|[]]]]; [contradiction| |].
            * apply Ha. left. symmetry. exact H.
            * apply Hb. left. symmetry. exact H.
          + apply IHl; [assumption| |]; intros H; [apply Ha|apply Hb]; right; exact H. }
      apply A; [exact N0| | |discriminate].
      - intros H. apply Hspecial in H. tauto.
      - intros H. apply Hspecial in H. tauto. }
    repeat split.
    - intros e He. apply lookup_last_nodup; [exact Hnd|]. apply in_app_iff. left.
      apply in_map_iff. exists (strip e, varname (index_of (strip e) keys)). split; [reflexivity|].
      assert (Hk : In (strip e) keys).
      { apply first_occ_from_in. right. apply exprs_in. eauto. }
      unfold m. clear -Hk.
      assert (G : forall i, In (strip e, varname (i + index_of (strip e) keys)) (number_from i keys)).
      { induction keys as [|k0 r IH]; intros i; [destruct Hk|].
        cbn [number_from index_of In]. destruct (bytes_eqb (strip e) k0) eqn:E.
        - left. apply bytes_eqb_eq in E. rewrite N.add_0_r. congruence.
        - right. apply bytes_eqb_neq in E. destruct Hk as [Hk|Hk]; [congruence|].
          replace (i + (1 + index_of (strip e) r)) with (i + 1 + index_of (strip e) r) by lia. apply IH. exact Hk. }
      apply (G 0).
    - apply lookup_last_nodup; [exact Hnd|]. apply in_app_iff. right. left. reflexivity.
    - apply lookup_last_nodup; [exact Hnd|]. apply in_app_iff. right. right. left. reflexivity.
    - rewrite map_app, Hnames. cbn [map fst]. f_equal. unfold m. clear.
      assert (G : forall i, map snd (number_from (N.of_nat i) keys) = map varname (map N.of_nat (seq i (length keys)))).
      { induction keys as [|k0 r IH]; intros i; cbn [number_from map snd length seq]; [reflexivity|].
        f_equal. replace (N.of_nat i + 1) with (N.of_nat (S i)) by lia. apply IH. }
      apply (G 0%nat).
  Qed.
End RunProofs.
