(* Encode.v — Encoder's implementation of the abstract methods (encoder.py),
   uncompressed here; compressed variants are in EncodeC.v (over Column.v). *)
From PBK Require Import Base Bits Descr Walk Coder Float53 Decode.

Record estate := mkE {
  e_w : writer;                  (* bits written so far (data section only) *)
  e_vals : list (list value);    (* the values to encode, per subset *)
  e_idx : nat;                   (* idx_value *)
  e_cur : nat                    (* idx_subset *)
}.

Definition e_cur_vals (e : estate) : list value := nth (e_cur e) (e_vals e) [].

(* decoded_values[idx_value]: IndexError past the end *)
Definition next_value (e : estate) : result (value * estate) :=
  match nth_error (e_cur_vals e) (e_idx e) with
  | None => Err EIndex
  | Some v => Ok (v, mkE (e_w e) (e_vals e) (S (e_idx e)) (e_cur e))
  end.

Definition with_w (e : estate) (w : writer) : estate := mkE w (e_vals e) (e_idx e) (e_cur e).

(* the double nearest to a user value *)
Definition to_double (v : value) : option dyadic :=
  match v with
  | VInt z => Some (of_int z)
  | VDyad m e => Some (m, e)
  | VDec m s =>   (* a decimal handed over as text is converted by the harness; not used *)
      None
  | _ => None
  end.

(* the integer written for a numeric value:
     if scale_powered != 1: value = int(round(value * scale_powered))
     if refval: value -= refval
     write_uint(int(value), nbits)                                           *)
Definition scaled_int (v : value) (scale refval : Z) : result Z :=
  if (scale =? 0)%Z then
    match v with
    | VInt z => Ok (z - refval)%Z
    | VDyad m e =>
        if (refval =? 0)%Z then Ok (trunc (m, e)) else Ok (trunc (fadd (m, e) (of_int (- refval))))
    | _ => Err EType
    end
  else
    match to_double v with
    | Some x => Ok (round_half_even (fmul x (pow10_double scale)) - refval)%Z
    | None => Err EType
    end.

(* NUMERIC_MISSING_VALUES[nbits]: a list of 65 entries (negative indices wrap) *)
Definition missing_for (nbits : Z) : result Z :=
  if (64 <? nbits)%Z then Err EIndex
  else if (nbits <? -65)%Z then Err EIndex
  else if (nbits <? 0)%Z then Ok (2 ^ (65 + nbits) - 1)%Z
  else Ok (2 ^ nbits - 1)%Z.

Definition enc_numeric (nbits scale refval : Z) (e : estate) : result estate :=
  let* (v, e1) := next_value e in
  let* raw := (match v with VNone => missing_for nbits | _ => scaled_int v scale refval end) in
  let* w := write_uint raw nbits (e_w e1) in Ok (with_w e1 w).

Definition enc_string (nbytes : Z) (e : estate) : result estate :=
  let* (v, e1) := next_value e in
  let* b := (match v with
             | VNone => Ok (repeat 255%N (Z.to_nat nbytes))
             | VBytes b => Ok b
             | _ => Err EType
             end) in
  let* w := write_bytes b nbytes (e_w e1) in Ok (with_w e1 w).

Definition enc_codeflag (nbits dnbits : Z) (e : estate) : result estate :=
  let* (v, e1) := next_value e in
  let* raw := (match v with
               | VNone => missing_for nbits
               | VInt z => Ok z
               | VDyad m ex => Ok (trunc (m, ex))
               | _ => Err EType
               end) in
  let* w := write_uint raw nbits (e_w e1) in Ok (with_w e1 w).

Definition enc_new_refval (nbits : Z) (e : estate) : result (Z * estate) :=
  let* (v, e1) := next_value e in
  match v with
  | VNone => Err EAssert
  | VInt z => let* w := write_int z nbits (e_w e1) in Ok (z, with_w e1 w)
  | _ => Err EType
  end.

Definition value_eq_int (v : value) (z : Z) : bool :=
  match v with
  | VInt x => (x =? z)%Z
  | VDyad m e => (if (0 <=? e)%Z then (m * 2 ^ e =? z)%Z else (m =? z * 2 ^ (- e))%Z)
  | _ => false
  end.

Definition enc_constant (z : Z) (e : estate) : result estate :=
  let* (v, e1) := next_value e in
  if value_eq_int v z then Ok e1 else Err EAssert.

(* decoded_values[idx_value - 1] (index -1 is the last element when idx_value = 0) *)
Definition enc_factor (e : estate) : result N :=
  match e_idx e with
  | O => match rev (e_cur_vals e) with [] => Err EIndex | v :: _ => factor_of_value v end
  | S k => match nth_error (e_cur_vals e) k with None => Err EIndex | Some v => factor_of_value v end
  end.

(* decoded_values[idx_value - n : idx_value] *)
Definition enc_bitmap (n : Z) (e : estate) : result (list bool) :=
  let i := e_idx e in
  let k := Z.to_nat n in
  if (i <? k)%nat then Err EOther   (* negative start index wraps around in Python: never generated *)
  else Ok (map value_is_zero (firstn k (skipn (i - k) (e_cur_vals e)))).

Definition enc_prims : prims estate :=
  mkPrims estate enc_numeric enc_string enc_codeflag enc_new_refval enc_constant enc_factor enc_bitmap.

(* switch_subset_context + [state.idx_value = 0] *)
Definition enc_switch (i : nat) (e : estate) : estate := mkE (e_w e) (e_vals e) 0 i.

(* Encoder.process_template_data for uncompressed data: the bits of all subsets,
   one after the other; also returns the descriptors/links recorded *)
Definition encode_uncompressed (T : descs) (vals : list (list value))
  : result (list subset_out * writer) :=
  let* (outs, e) := run_subsets enc_prims T enc_switch 0 (length vals)
                      (mkE [] vals 0 0) [] in
  Ok (outs, e_w e).
