(* SpecCProofs.v — the compressed encoder writes exactly the canonical column
   layout of SpecC.v (C02, compressed data), and what makes that layout
   canonical (minimum, least width, increments, missing = all ones). *)
From PBK Require Import Base Bits BitsProofs Descr Walk Coder WalkSim CoderSim Float53 Decode Encode
  Spec SpecProofs Column ColumnProofs DecodeC EncodeC EncodeCG SpecC.
From Coq Require Import ZifyBool ZifyNat ZifyN.

(* ========================================================================== *)
(* 1. minimum / maximum of the present values                                   *)
(* ========================================================================== *)
Lemma fold_min_spec x r :
  (fold_right Z.min x r = x \/ In (fold_right Z.min x r) r) /\
  (fold_right Z.min x r <= x)%Z /\ (forall y, In y r -> (fold_right Z.min x r <= y)%Z).
Proof.
  induction r as [|a r (Hin & Hle & Hall)]; cbn [fold_right].
  - split; [left; reflexivity|]. split; [lia|]. intros y [].
  - set (m := fold_right Z.min x r) in *. split.
    + destruct (Z.min_spec a m) as [[_ ->]|[_ ->]].
      * right. left. reflexivity.
      * destruct Hin as [Hin|Hin]; [left; exact Hin|right; right; exact Hin].
    + split; [lia|]. intros y [<-|Hy]; [lia|]. specialize (Hall y Hy). lia.
Qed.

Lemma fold_max_spec x r :
  (fold_right Z.max x r = x \/ In (fold_right Z.max x r) r) /\
  (x <= fold_right Z.max x r)%Z /\ (forall y, In y r -> (y <= fold_right Z.max x r)%Z).
Proof.
  induction r as [|a r (Hin & Hle & Hall)]; cbn [fold_right].
  - split; [left; reflexivity|]. split; [lia|]. intros y [].
  - set (m := fold_right Z.max x r) in *. split.
    + destruct (Z.max_spec a m) as [[_ ->]|[_ ->]].
      * destruct Hin as [Hin|Hin]; [left; exact Hin|right; right; exact Hin].
      * right. left. reflexivity.
    + split; [lia|]. intros y [<-|Hy]; [lia|]. specialize (Hall y Hy). lia.
Qed.

(* the minimum is attained and is a lower bound *)
Theorem zmin_list_spec l mn :
  zmin_list l = Some mn -> In mn l /\ forall y, In y l -> (mn <= y)%Z.
Proof.
  destruct l as [|x r]; [discriminate|]. cbn [zmin_list]. intros E. injection E as <-.
  destruct (fold_min_spec x r) as (Hin & Hle & Hall). split.
  - destruct Hin as [->|Hin]; [left; reflexivity|right; exact Hin].
  - intros y [<-|Hy]; [exact Hle|apply Hall, Hy].
Qed.

Theorem zmax_list_spec l mx :
  zmax_list l = Some mx -> In mx l /\ forall y, In y l -> (y <= mx)%Z.
Proof.
  destruct l as [|x r]; [discriminate|]. cbn [zmax_list]. intros E. injection E as <-.
  destruct (fold_max_spec x r) as (Hin & Hle & Hall). split.
  - destruct Hin as [->|Hin]; [left; reflexivity|right; exact Hin].
  - intros y [<-|Hy]; [exact Hle|apply Hall, Hy].
Qed.

Lemma zmin_list_none l : zmin_list l = None <-> l = [].
Proof. destruct l; cbn; split; congruence. Qed.
Lemma zmax_list_none l : zmax_list l = None <-> l = [].
Proof. destruct l; cbn; split; congruence. Qed.

Lemma in_present x raws : In x (present raws) <-> In (Some x) raws.
Proof.
  unfold present. rewrite in_flat_map. split.
  - intros ([y|] & Hin & Hx); [destruct Hx as [<-|[]]; exact Hin|destruct Hx].
  - intros H. exists (Some x). split; [exact H|left; reflexivity].
Qed.

Lemma present_nil raws : present raws = [] <-> (forall v, In v raws -> v = None).
Proof.
  split.
  - intros E [x|] Hv; [|reflexivity]. apply in_present in Hv. rewrite E in Hv. destruct Hv.
  - intros H. destruct (present raws) as [|x r] eqn:E; [reflexivity|].
    assert (Hx : In x (present raws)) by (rewrite E; left; reflexivity).
    apply in_present, H in Hx. discriminate.
Qed.

Lemma all_missing_iff {A} (l : list (option A)) : all_missing l = true <-> (forall v, In v l -> v = None).
Proof.
  unfold all_missing. rewrite forallb_forall. split; intros H v Hv.
  - specialize (H v Hv). destruct v; [discriminate|reflexivity].
  - rewrite (H v Hv). reflexivity.
Qed.

(* the one-pass minmax of the coder computes these *)
Lemma minmax_zmin raws mn mx :
  minmax raws = Some (mn, mx) ->
  zmin_list (present raws) = Some mn /\ zmax_list (present raws) = Some mx.
Proof.
  intros E. destruct (minmax_spec raws mn mx E) as (Imn & Imx & Hall).
  apply in_present in Imn. apply in_present in Imx. split.
  - destruct (zmin_list (present raws)) as [m|] eqn:Em.
    + destruct (zmin_list_spec _ _ Em) as (Hin & Hlow).
      apply in_present, Hall in Hin. specialize (Hlow _ Imn). f_equal. lia.
    + apply zmin_list_none in Em. rewrite Em in Imn. destruct Imn.
  - destruct (zmax_list (present raws)) as [m|] eqn:Em.
    + destruct (zmax_list_spec _ _ Em) as (Hin & Hup).
      apply in_present, Hall in Hin. specialize (Hup _ Imx). f_equal. lia.
    + apply zmax_list_none in Em. rewrite Em in Imx. destruct Imx.
Qed.

Lemma present_repeat_none n : present (repeat None n) = [].
Proof. induction n as [|n IH]; [reflexivity|exact IH]. Qed.

Lemma present_repeat_some x n : present (repeat (Some x) n) = repeat x n.
Proof. induction n as [|n IH]; [reflexivity|]. cbn [repeat present flat_map app]. f_equal. exact IH. Qed.

Lemma fold_min_repeat x n : fold_right Z.min x (repeat x n) = x.
Proof. induction n as [|n IH]; [reflexivity|]. cbn [repeat fold_right]. rewrite IH. lia. Qed.

Lemma col_min_repeat w r0 n :
  col_min w (repeat r0 (S n)) = match r0 with None => all_ones w | Some x => x end.
Proof.
  unfold col_min. destruct r0 as [x|].
  - rewrite present_repeat_some. cbn [repeat zmin_list]. apply fold_min_repeat.
  - rewrite present_repeat_none. reflexivity.
Qed.

(* ========================================================================== *)
(* 2. the width of the increments                                               *)
(* ========================================================================== *)

(* canon_width D is the LEAST width k whose all-ones pattern 2^k - 1 lies
   strictly above D + 1 (D = max - min): increments 0..D never look missing *)
Theorem canon_width_spec D :
  (D + 2 < 2 ^ canon_width D)%N /\ forall k, (D + 2 < 2 ^ k)%N -> (canon_width D <= k)%N.
Proof.
  unfold canon_width. split; [apply N.size_gt|].
  intros k Hk. rewrite N.size_log2 by lia.
  apply N.le_succ_l. apply N.log2_lt_pow2; lia.
Qed.

Lemma canon_width_ge2 D : (2 <= canon_width D)%N.
Proof.
  destruct (canon_width_spec D) as [H _].
  destruct (N.le_gt_cases 2 (canon_width D)) as [|Hlt]; [assumption|exfalso].
  assert (2 ^ canon_width D <= 2 ^ 1)%N by (apply N.pow_le_mono_r; lia).
  change (2 ^ 1)%N with 2%N in *. lia.
Qed.

(* it is the width the coder computes: nbits_for_uint (max - min + 1) *)
Theorem canon_width_nbits D : canon_width D = nbits_for_uint (D + 1).
Proof.
  unfold canon_width, nbits_for_uint. destruct (D + 1)%N as [|p] eqn:Ex; [lia|].
  replace (D + 2)%N with (N.pos p + 1)%N by lia. clear D Ex.
  set (x := N.pos p). assert (Hx : (0 < x)%N) by (unfold x; lia).
  rewrite (N.size_log2 x) by lia. rewrite (N.size_log2 (x + 1)) by lia.
  destruct (N.log2_spec x Hx) as [Hlo Hhi]. set (L := N.log2 x) in *.
  destruct (N.eqb_spec (x + 1) (2 ^ N.succ L)) as [E|E].
  - rewrite E, N.log2_pow2 by lia. lia.
  - f_equal. apply N.log2_unique; [lia|]. lia.
Qed.

(* ========================================================================== *)
(* 3. what the column encoders write                                            *)
(* ========================================================================== *)
Lemma write_field_emit_ok f o o' : write_field f o = Ok o' -> emit_ok f = true.
Proof.
  destruct f as [w v|w v|b|b|n v]; cbn [write_field emit_ok field_ok]; intros E; try reflexivity.
  - destruct (write_uint_exact _ _ _ _ E) as (_ & Hv & Hw). lia.
  - unfold write_int, write_bool in E. cbn [bind] in E.
    destruct (write_uint_exact _ _ _ _ E) as (_ & Hv & Hw). lia.
  - unfold write_bytes in E. destruct (Z.ltb_spec n 0); [discriminate|lia].
Qed.

Lemma write_fields_emit_ok fs : forall o o', write_fields fs o = Ok o' -> forallb emit_ok fs = true.
Proof.
  induction fs as [|f fs IH]; intros o o' E; [reflexivity|]. cbn [write_fields] in E.
  destruct (write_field f o) as [o1|] eqn:E1; cbn [bind] in E; [|discriminate].
  cbn [forallb]. rewrite (write_field_emit_ok _ _ _ E1), (IH _ _ E). reflexivity.
Qed.

Lemma write_uints_fields nd ds : forall o, write_uints ds nd o = write_fields (map (FUint nd) ds) o.
Proof.
  induction ds as [|d ds IH]; intros o; [reflexivity|]. cbn [write_uints map write_fields write_field].
  destruct (write_uint d nd o); cbn [bind]; [apply IH|reflexivity].
Qed.

Lemma col_diffs_fields mn nd : forall raws ds,
  (0 <= nd <= 64)%Z -> col_diffs mn nd raws = Ok ds -> map (FUint nd) ds = map (inc_field nd mn) raws.
Proof.
  induction raws as [|v raws IH]; intros ds Hnd E; cbn [col_diffs] in E.
  - injection E as <-. reflexivity.
  - destruct (match v with None => numeric_missing nd | Some x => Ok (x - mn)%Z end) as [d|] eqn:Ed;
      cbn [bind] in E; [|discriminate].
    destruct (col_diffs mn nd raws) as [ds'|] eqn:Er; cbn [bind] in E; [|discriminate].
    injection E as <-. cbn [map]. rewrite (IH ds' Hnd eq_refl). f_equal.
    unfold inc_field, all_ones. destruct v as [x|].
    + injection Ed as <-. reflexivity.
    + rewrite numeric_missing_ok in Ed by lia. injection Ed as <-. reflexivity.
Qed.

Lemma numeric_missing_written w m o o1 :
  numeric_missing w = Ok m -> write_uint m w o = Ok o1 -> m = all_ones w.
Proof.
  intros Em Ew. destruct (write_uint_exact _ _ _ _ Ew) as (_ & _ & Hw).
  unfold numeric_missing in Em.
  destruct ((w <? -65)%Z || (64 <? w)%Z); [discriminate|].
  destruct (Z.ltb_spec w 0); [lia|]. injection Em as <-. reflexivity.
Qed.

(* a numeric / code-flag column: whenever the coder's column encoder accepts,
   it has written the canonical fields of the column *)
Theorem enc_col_num_fields w ae raws o o' :
  enc_col_num w ae raws o = Ok o' ->
  (ae = true -> exists r0 n, raws = repeat r0 (S n)) ->
  write_fields (num_fields w ae raws) o = Ok o' /\ (negb ae && all_missing raws) = false.
Proof.
  intros E Hae. destruct ae.
  - destruct (Hae eq_refl) as (r0 & n & ->). split; [|reflexivity].
    unfold num_fields. rewrite col_min_repeat.
    unfold enc_col_num in E. cbn [repeat andb] in E.
    destruct r0 as [x|]; cbn [opt_is_none bind] in E.
    + exact E.
    + destruct (numeric_missing w) as [m|] eqn:Em; cbn [bind] in E; [|discriminate].
      unfold col_header in E.
      destruct (write_uint m w o) as [o1|] eqn:E1; cbn [bind] in E; [|discriminate].
      rewrite (numeric_missing_written _ _ _ _ Em E1) in E1.
      cbn [write_fields write_field]. rewrite E1. cbn [bind]. unfold NBINC_BITS.
      unfold NBITS_FOR_NBITS_DIFF in E. rewrite E. reflexivity.
  - clear Hae. unfold enc_col_num in E. destruct raws as [|v0 raws']; [discriminate|].
    set (raws := v0 :: raws') in *. cbn [andb] in E.
    destruct (minmax raws) as [[mn mx]|] eqn:Hmm; [|discriminate]. cbv zeta in E.
    destruct (minmax_zmin _ _ _ Hmm) as (Hmin & Hmax).
    destruct (minmax_spec _ _ _ Hmm) as (Imn & Imx & Hall).
    assert (Hle : (mn <= mx)%Z) by (destruct (Hall mx Imx); lia).
    split.
    2:{ cbn [negb andb]. destruct (all_missing raws) eqn:Ha; [|reflexivity].
        pose proof (proj1 (all_missing_iff raws) Ha _ Imn) as Hn. discriminate. }
    assert (Hnd : nbits_for_uint (Z.to_N (mx - mn + 1)) = canon_width (col_spread raws)).
    { unfold col_spread. rewrite Hmin, Hmax. rewrite canon_width_nbits. f_equal. lia. }
    rewrite Hnd in E. set (nd := Z.of_N (canon_width (col_spread raws))) in *.
    destruct (col_diffs mn nd raws) as [ds|] eqn:Eds; cbn [bind] in E; [|discriminate].
    destruct (col_header mn w nd o) as [o2|] eqn:Eh; cbn [bind] in E; [|discriminate].
    unfold col_header in Eh.
    destruct (write_uint mn w o) as [o1|] eqn:E1; cbn [bind] in Eh; [|discriminate].
    destruct (write_uint_exact _ _ _ _ Eh) as (_ & Hnd6 & _).
    unfold NBITS_FOR_NBITS_DIFF in Hnd6. change (2 ^ 6)%Z with 64%Z in Hnd6.
    pose proof (canon_width_ge2 (col_spread raws)) as H2.
    destruct (Z.eqb_spec nd 0) as [E0|_]; [unfold nd in E0; lia|].
    unfold num_fields, col_min. rewrite Hmin. fold nd.
    cbn [write_fields write_field]. rewrite E1. cbn [bind]. unfold NBINC_BITS.
    unfold NBITS_FOR_NBITS_DIFF in Eh. rewrite Eh. cbn [bind].
    rewrite <- (col_diffs_fields mn nd raws ds) by (try exact Eds; lia).
    rewrite <- write_uints_fields. exact E.
Qed.

(* character columns *)
Lemma write_bytes_list_fields nb vals : forall o,
  write_bytes_list (map (str_or_missing nb) vals) nb o =
  write_fields (map (fun v => FBytes nb (str_val nb v)) vals) o.
Proof.
  induction vals as [|v vals IH]; intros o; [reflexivity|].
  cbn [map write_bytes_list write_fields write_field].
  replace (str_or_missing nb v) with (str_val nb v) by (destruct v; reflexivity).
  destruct (write_bytes (str_val nb v) nb o); cbn [bind]; [apply IH|reflexivity].
Qed.

Lemma write_empty_strings {A} (g : A -> list byte) l : forall o,
  write_fields (map (fun v => FBytes 0 (g v)) l) o = Ok o.
Proof.
  induction l as [|v l IH]; intros o; [reflexivity|].
  cbn [map write_fields write_field]. unfold write_bytes, pad_bytes. cbn [Z.ltb Z.compare Z.to_nat firstn].
  cbn [Nat.sub repeat app bits_of_bytes bind]. rewrite app_nil_r. apply IH.
Qed.

Theorem enc_col_str_fields nb ae strs o o' :
  enc_col_str nb ae strs o = Ok o' -> write_fields (str_fields nb ae strs) o = Ok o'.
Proof.
  unfold enc_col_str. destruct strs as [|v0 strs']; [discriminate|].
  cbv zeta. unfold str_fields. destruct ae; cbn [andb hd].
  - replace (if opt_is_none v0 then bytes_rep 255%N nb else str_or_missing nb v0) with (str_val nb v0)
      by (destruct v0; reflexivity).
    cbn [write_fields write_field]. intros E.
    destruct (write_bytes (str_val nb v0) nb o) as [o1|]; cbn [bind] in E |- *; [|discriminate].
    unfold NBINC_BITS. unfold NBITS_FOR_NBITS_DIFF in E.
    destruct (write_uint 0 6 o1) as [o2|]; cbn [bind] in E |- *; [|discriminate]. exact E.
  - cbn [write_fields write_field]. intros E. unfold bytes_rep in E. unfold byte in *.
    destruct (write_bytes (repeat 0%N (Z.to_nat nb)) nb o) as [o1|]; cbn [bind] in E |- *; [|discriminate].
    unfold NBINC_BITS. unfold NBITS_FOR_NBITS_DIFF in E.
    destruct (write_uint nb 6 o1) as [o2|]; cbn [bind] in E |- *; [|discriminate].
    destruct (Z.eqb_spec nb 0) as [->|_].
    + injection E as <-. apply write_empty_strings.
    + rewrite <- write_bytes_list_fields. exact E.
Qed.

(* 203YYY: sign and magnitude, no increments *)
Theorem enc_col_refval_fields w z o o' :
  enc_col_refval w true (Some z) o = Ok o' -> write_fields (ref_fields w z) o = Ok o'.
Proof.
  unfold enc_col_refval, ref_fields, write_int, write_bool. cbn [negb bind write_fields write_field].
  unfold write_bool. cbn [bind]. intros E.
  destruct (write_uint (Z.abs z) (w - 1) (o ++ [(z <? 0)%Z])) as [o1|]; cbn [bind] in E |- *; [|discriminate].
  unfold NBINC_BITS. unfold NBITS_FOR_NBITS_DIFF in E. rewrite E. reflexivity.
Qed.

(* ========================================================================== *)
(* 4. the walk: encoder state vs. layout state                                  *)
(* ========================================================================== *)
Lemma column_at_of i : forall vals, column_at i vals = column_of i vals.
Proof.
  unfold column_of. induction vals as [|l r IH]; [reflexivity|].
  cbn [column_at forallb map]. destruct (nth_error l i) as [v|] eqn:En.
  - assert (Hlt : (i < length l)%nat) by (apply nth_error_Some; congruence).
    destruct (Nat.ltb_spec i (length l)); [|lia]. cbn [andb]. rewrite IH.
    destruct (forallb _ r); cbn [bind]; [|reflexivity].
    rewrite (nth_error_nth _ _ VNone En). reflexivity.
  - apply nth_error_None in En. destruct (Nat.ltb_spec i (length l)); [lia|]. reflexivity.
Qed.

Lemma all_res_map_res {A B} (f : A -> result B) l : all_res f l = map_res f l.
Proof. induction l as [|x r IH]; [reflexivity|]. cbn [all_res map_res]. rewrite IH. reflexivity. Qed.

Lemma all_res_hd {A B} (f : A -> result B) (d : A) (d' : B) l l' :
  all_res f l = Ok l' -> l <> [] -> f (hd d l) = Ok (hd d' l') /\ l' <> [].
Proof.
  destruct l as [|x r]; [congruence|]. cbn [all_res hd]. intros E _.
  destruct (f x) as [y|]; cbn [bind] in E; [|discriminate].
  destruct (all_res f r) as [ys|]; cbn [bind] in E; [|discriminate].
  injection E as <-. split; [reflexivity|discriminate].
Qed.

Lemma all_res_length {A B} (f : A -> result B) : forall l l', all_res f l = Ok l' -> length l' = length l.
Proof.
  induction l as [|x r IH]; intros l' E; cbn [all_res] in E.
  - injection E as <-. reflexivity.
  - destruct (f x); cbn [bind] in E; [|discriminate].
    destruct (all_res f r) as [ys|]; cbn [bind] in E; [|discriminate].
    injection E as <-. cbn [length]. f_equal. apply IH. reflexivity.
Qed.

Lemma map_const_repeat {A B} (c : B) (l : list A) : map (fun _ => c) l = repeat c (length l).
Proof. induction l as [|x r IH]; [reflexivity|]. cbn [map length repeat]. rewrite IH. reflexivity. Qed.

(* the values the coder hands to its column encoder are those of the layout *)
Lemma numeric_raws_col_raws sc rv col ae :
  col <> [] -> numeric_raws sc rv col ae = col_raws (raw_numeric sc rv) ae col.
Proof.
  intros Hne. unfold numeric_raws, col_raws. destruct ae.
  - destruct col as [|v c]; [congruence|]. cbn [hd]. rewrite !map_const_repeat.
    destruct v; cbn [raw_numeric]; try reflexivity;
      (destruct (scaled_int _ sc rv); cbn [bind]; rewrite ?map_const_repeat; reflexivity).
  - exact (eq_sym (all_res_map_res (raw_numeric sc rv) col)).
Qed.

(* encoder state vs. layout state: same input position; the encoder's bits are
   the concatenation of the fields of the columns laid out *)
Definition Rencc (e : estate) (s : cstate) : Prop :=
  e_vals e = cs_vals s /\ e_idx e = cs_idx s /\
  write_fields (fields_of (cs_cols s)) [] = Ok (e_w e).

Lemma Rencc_next e s col ae e1 :
  Rencc e s -> next_column e = Ok (col, ae, e1) ->
  exists s1, cs_next s = Ok (col, ae, s1) /\ Rencc e1 s1 /\ col <> [] /\ cs_cols s1 = cs_cols s.
Proof.
  intros (Hv & Hi & Hw) E. unfold next_column, cs_next in *. rewrite column_at_of, Hv, Hi in E.
  destruct (column_of (cs_idx s) (cs_vals s)) as [c|]; cbn [bind] in E |- *; [|discriminate].
  destruct c as [|v0 c']; [discriminate|]. injection E as <- <- <-.
  eexists; split; [reflexivity|]. split; [|split; [discriminate|reflexivity]].
  split; [reflexivity|]. split; [reflexivity|]. exact Hw.
Qed.

Lemma fields_of_app a b : fields_of (a ++ b) = fields_of a ++ fields_of b.
Proof. unfold fields_of. apply flat_map_app. Qed.

Lemma Rencc_emit e s c w :
  Rencc e s -> write_fields (col_fields c) (e_w e) = Ok w ->
  exists s1, cs_emit c s = Ok s1 /\ Rencc (with_w e w) s1.
Proof.
  intros (Hv & Hi & Hw) E. unfold cs_emit. rewrite (write_fields_emit_ok _ _ _ E).
  eexists; split; [reflexivity|]. repeat split; cbn; try assumption.
  rewrite fields_of_app, write_fields_app, Hw. cbn [bind fields_of flat_map]. rewrite app_nil_r. exact E.
Qed.

Lemma col_raws_all_equal {A} (f : value -> result (option A)) col raws :
  col_raws f true col = Ok raws -> col <> [] -> exists r0 n, raws = repeat r0 (S n).
Proof.
  unfold col_raws. intros E Hne. destruct (f (hd VNone col)) as [r0|]; cbn [bind] in E; [|discriminate].
  injection E as <-. destruct col as [|v c]; [congruence|]. exists r0, (length c). reflexivity.
Qed.

(* in an all-equal column the coder looks at the first value only *)
Lemma enc_col_num_first w raws raws' o :
  hd None raws = hd None raws' -> raws <> [] -> raws' <> [] ->
  enc_col_num w true raws o = enc_col_num w true raws' o.
Proof.
  destruct raws as [|a r]; [congruence|]. destruct raws' as [|b r']; [congruence|].
  cbn [hd]. intros -> _ _. reflexivity.
Qed.

Lemma enc_col_str_first nb strs strs' o :
  hd None strs = hd None strs' -> strs <> [] -> strs' <> [] ->
  enc_col_str nb true strs o = enc_col_str nb true strs' o.
Proof.
  destruct strs as [|a r]; [congruence|]. destruct strs' as [|b r']; [congruence|].
  cbn [hd]. intros -> _ _. reflexivity.
Qed.

(* a column converted in full agrees with the layout's reading of it: the same
   list when the values differ, the same first entry when they are all equal *)
Lemma all_res_col_raws {A} (f : value -> result (option A)) ae col raws :
  all_res f col = Ok raws -> col <> [] ->
  exists raws', col_raws f ae col = Ok raws' /\ hd None raws' = hd None raws /\ raws' <> [] /\ raws <> [] /\
                (ae = false -> raws' = raws).
Proof.
  intros E Hne. destruct (all_res_hd f VNone None _ _ E Hne) as (Hh & Hne').
  unfold col_raws. destruct ae.
  - rewrite Hh. cbn [bind]. eexists; split; [reflexivity|].
    destruct col as [|v c]; [congruence|]. cbn [length repeat hd].
    split; [reflexivity|]. split; [discriminate|]. split; [exact Hne'|discriminate].
  - exists raws. split; [exact E|]. split; [reflexivity|]. repeat split; assumption.
Qed.

Lemma Rencc_num_col e s w ae raws raws' o' :
  Rencc e s -> enc_col_num w ae raws (e_w e) = Ok o' ->
  hd None raws' = hd None raws -> raws' <> [] -> raws <> [] -> (ae = false -> raws' = raws) ->
  (ae = true -> exists r0 n, raws' = repeat r0 (S n)) ->
  exists s1, specc_num_col w ae raws' s = Ok s1 /\ Rencc (with_w e o') s1.
Proof.
  intros HR E Hh Hn' Hn Hf Hrep.
  assert (E' : enc_col_num w ae raws' (e_w e) = Ok o').
  { destruct ae; [|rewrite (Hf eq_refl); exact E].
    rewrite (enc_col_num_first w raws' raws) by assumption. exact E. }
  destruct (enc_col_num_fields _ _ _ _ _ E' Hrep) as (Ew & Hm).
  unfold specc_num_col. rewrite Hm. apply Rencc_emit; assumption.
Qed.

Theorem encc_walk_layout :
  forall ms, simf (Rio Rencc) (walk_list (io_handlers encc_prims) io_add_link ms)
                               (walk_list (io_handlers specc_prims) io_add_link ms).
Proof.
  apply io_walk_sim;
    cbn [encc_prims specc_prims p_numeric p_string p_codeflag p_constant p_new_refval p_factor p_bitmap].
  - (* numeric *)
    intros nbits scale refval e s e' HR E.
    change (encc_numeric nbits scale refval e) with
      (let* (p, e1) := next_column e in let '(col, ae) := p in
       let* raws := numeric_raws scale refval col ae in
       let* w := enc_col_num nbits ae raws (e_w e1) in Ok (with_w e1 w)) in E.
    unfold specc_numeric.
    destruct (next_column e) as [[[col ae] e1]|] eqn:En; cbn [bind] in E; [|discriminate].
    destruct (Rencc_next _ _ _ _ _ HR En) as (s1 & Es & HR1 & Hne & _). rewrite Es. cbn [bind].
    rewrite numeric_raws_col_raws in E by exact Hne.
    destruct (col_raws (raw_numeric scale refval) ae col) as [raws|] eqn:Er; cbn [bind] in E |- *; [|discriminate].
    destruct (enc_col_num nbits ae raws (e_w e1)) as [w|] eqn:Ew; cbn [bind] in E; [|discriminate].
    injection E as <-.
    assert (Hn : raws <> []).
    { intros ->. unfold enc_col_num in Ew. discriminate. }
    apply (Rencc_num_col e1 s1 nbits ae raws raws w HR1 Ew); try reflexivity; try assumption.
    intros ->. exact (col_raws_all_equal _ _ _ Er Hne).
  - (* string *)
    intros nbytes e s e' HR E.
    change (encc_string nbytes e) with
      (let* (p, e1) := next_column e in let '(col, ae) := p in
       let* vs := string_vals col in
       let* w := enc_col_str nbytes ae vs (e_w e1) in Ok (with_w e1 w)) in E.
    unfold specc_string.
    destruct (next_column e) as [[[col ae] e1]|] eqn:En; cbn [bind] in E; [|discriminate].
    destruct (Rencc_next _ _ _ _ _ HR En) as (s1 & Es & HR1 & Hne & _). rewrite Es. cbn [bind].
    destruct (string_vals col) as [vs|] eqn:Er; cbn [bind] in E; [|discriminate].
    unfold string_vals in Er. rewrite <- all_res_map_res in Er. fold raw_string in Er.
    destruct (all_res_col_raws raw_string ae col vs Er Hne) as (vs' & Er' & Hh & Hn' & Hn & Hf).
    rewrite Er'. cbn [bind].
    destruct (enc_col_str nbytes ae vs (e_w e1)) as [w|] eqn:Ew; cbn [bind] in E; [|discriminate].
    injection E as <-.
    assert (Ew' : enc_col_str nbytes ae vs' (e_w e1) = Ok w).
    { destruct ae; [|rewrite (Hf eq_refl); exact Ew].
      rewrite (enc_col_str_first nbytes vs' vs) by assumption. exact Ew. }
    apply Rencc_emit; [exact HR1|]. apply enc_col_str_fields. exact Ew'.
  - (* code / flag *)
    intros nbits dn e s e' HR E.
    change (encc_codeflag nbits dn e) with
      (let* (p, e1) := next_column e in let '(col, ae) := p in
       let* raws := codeflag_raws col in
       let* w := enc_col_codeflag nbits ae raws (e_w e1) in Ok (with_w e1 w)) in E.
    unfold specc_codeflag.
    destruct (next_column e) as [[[col ae] e1]|] eqn:En; cbn [bind] in E; [|discriminate].
    destruct (Rencc_next _ _ _ _ _ HR En) as (s1 & Es & HR1 & Hne & _). rewrite Es. cbn [bind].
    destruct (codeflag_raws col) as [raws|] eqn:Er; cbn [bind] in E; [|discriminate].
    unfold codeflag_raws in Er. rewrite <- all_res_map_res in Er. fold raw_codeflag in Er.
    destruct (all_res_col_raws raw_codeflag ae col raws Er Hne) as (raws' & Er' & Hh & Hn' & Hn & Hf).
    rewrite Er'. cbn [bind]. unfold enc_col_codeflag in E.
    destruct (enc_col_num nbits ae raws (e_w e1)) as [w|] eqn:Ew; cbn [bind] in E; [|discriminate].
    injection E as <-.
    apply (Rencc_num_col e1 s1 nbits ae raws raws' w HR1 Ew); try assumption.
    intros ->. exact (col_raws_all_equal _ _ _ Er' Hne).
  - (* constant *)
    intros z e s e' HR E. unfold encc_constant, specc_constant in *.
    destruct (next_column e) as [[[col ae] e1]|] eqn:En; cbn [bind] in E; [|discriminate].
    destruct (Rencc_next _ _ _ _ _ HR En) as (s1 & Es & HR1 & Hne & _). rewrite Es. cbn [bind].
    destruct col as [|v c]; [discriminate|]. cbn [hd].
    destruct (ae && value_eq_int v z); [|discriminate]. injection E as <-. eauto.
  - (* new reference value *)
    intros nbits e s z e' HR E. unfold encc_new_refval, specc_new_refval in *.
    destruct (next_column e) as [[[col ae] e1]|] eqn:En; cbn [bind] in E; [|discriminate].
    destruct (Rencc_next _ _ _ _ _ HR En) as (s1 & Es & HR1 & Hne & _). rewrite Es. cbn [bind].
    destruct col as [|v c]; [discriminate|].
    destruct v as [x| | | |]; try discriminate; try (destruct ae; discriminate).
    destruct (enc_col_refval nbits ae (Some x) (e_w e1)) as [w|] eqn:Ew; cbn [bind] in E; [|discriminate].
    injection E as <- <-.
    destruct ae; [|discriminate].
    destruct (Rencc_emit e1 s1 (ColRef nbits x) w HR1 (enc_col_refval_fields _ _ _ _ Ew)) as (s2 & E2 & HR2).
    rewrite E2. cbn [bind]. eauto.
  - (* factor *)
    intros e s n (Hv & Hi & Hw). unfold encc_factor, specc_factor. rewrite Hv, Hi.
    destruct (cs_idx s) as [|k]; [auto|]. rewrite column_at_of. auto.
  - (* bitmap *)
    intros a e s bm (Hv & Hi & Hw). unfold encc_bitmap, specc_bitmap. rewrite Hv, Hi. auto.
Qed.

(* C02 (compressed): whenever the compressed encoder accepts the values, the
   data bits it writes are exactly the concatenation, column after column in
   template order, of the fields of the canonical layout, and it records the
   same descriptors and links. *)
Theorem encode_canonical_columns T vals outs w :
  encode_compressed T vals = Ok (outs, w) ->
  exists cols, layout_cols T vals = Ok (outs, cols) /\ write_fields (fields_of cols) [] = Ok w.
Proof.
  unfold encode_compressed, layout_cols, run_compressed, run_template. intros E.
  destruct (walk_list (io_handlers encc_prims) io_add_link T _) as [s1|] eqn:E1; cbn [bind] in E; [|discriminate].
  injection E as <- <-.
  assert (HR : Rst (Rio Rencc) (mkWs regs0 (mkIo [] [] (mkE [] vals 0 0)))
                               (mkWs regs0 (mkIo [] [] (mkCS [] vals 0)))).
  { split; cbn; [reflexivity|]. repeat split. }
  destruct (encc_walk_layout T _ _ _ HR E1) as (s2 & E2 & (Hr & Hdd & Hl & (Hv & Hi & Hw))).
  rewrite E2. cbn [bind]. rewrite Hdd, Hl. eauto.
Qed.

Theorem encode_canonical_compressed T vals outs w :
  encode_compressed T vals = Ok (outs, w) ->
  exists fs, layout_c T vals = Ok (outs, fs) /\ write_fields fs [] = Ok w.
Proof.
  intros E. destruct (encode_canonical_columns _ _ _ _ E) as (cols & El & Ew).
  unfold layout_c. rewrite El. cbn [bind]. eauto.
Qed.

Corollary encode_is_canonical_bits_c T vals outs w :
  encode_compressed T vals = Ok (outs, w) -> canonical_bits_c T vals = Ok w.
Proof.
  intros E. destruct (encode_canonical_compressed _ _ _ _ E) as (fs & El & Ew).
  unfold canonical_bits_c. rewrite El. cbn [bind]. exact Ew.
Qed.
