(* WalkSim.v — the generic lock-step simulation theorem for the walker.
   Two handler records H1, H2 over client states S1, S2 and a relation Rc on
   client states.  If every handler of H1 is simulated by the corresponding
   handler of H2 (and they leave the registers in agreement), then the whole
   template walk of H1 is simulated by the walk of H2, for every template, every
   register file and all related client states. *)
From PBK Require Import Base Descr Walk.

Section Sim.
Context {S1 S2 : Type} (H1 : handlers S1) (H2 : handlers S2) (Rc : S1 -> S2 -> Prop).
Context (al1 : N -> ws S1 -> result (ws S1)) (al2 : N -> ws S2 -> result (ws S2)).

Definition Rst (s1 : ws S1) (s2 : ws S2) : Prop := w_r s1 = w_r s2 /\ Rc (w_c s1) (w_c s2).

Definition simf (f1 : ws S1 -> result (ws S1)) (f2 : ws S2 -> result (ws S2)) : Prop :=
  forall s1 s2 s1', Rst s1 s2 -> f1 s1 = Ok s1' -> exists s2', f2 s2 = Ok s2' /\ Rst s1' s2'.

(* results that are a sum (pre_member) *)
Definition Rsum (p1 : ws S1 + ws S1) (p2 : ws S2 + ws S2) : Prop :=
  match p1, p2 with
  | inl a, inl b => Rst a b
  | inr a, inr b => Rst a b
  | _, _ => False
  end.

(* ---- closure properties ---------------------------------------------------- *)
Lemma sim_ret : simf (fun s => Ok s) (fun s => Ok s).
Proof. intros s1 s2 s1' HR E. injection E as <-. eauto. Qed.

Lemma sim_bind f1 f2 g1 g2 :
  simf f1 f2 -> simf g1 g2 -> simf (fun s => bind (f1 s) g1) (fun s => bind (f2 s) g2).
Proof.
  intros Hf Hg s1 s2 s1' HR E.
  destruct (f1 s1) as [m1|] eqn:E1; cbn [bind] in E; [|discriminate].
  destruct (Hf _ _ _ HR E1) as (m2 & E2 & HRm). rewrite E2. cbn [bind]. eauto.
Qed.

Lemma sim_ext f1 f1' f2 f2' :
  (forall s, f1 s = f1' s) -> (forall s, f2 s = f2' s) -> simf f1 f2 -> simf f1' f2'.
Proof.
  intros X1 X2 Hf s1 s2 s1' HR E. rewrite <- X1 in E.
  destruct (Hf _ _ _ HR E) as (s2' & E2 & HR'). rewrite <- X2. eauto.
Qed.

Lemma sim_upd (f : regs -> regs) : simf (fun s => Ok (upd_r f s)) (fun s => Ok (upd_r f s)).
Proof.
  intros s1 s2 s1' [Hr Hc] E. injection E as <-. eexists; split; [reflexivity|].
  split; cbn; [congruence|exact Hc].
Qed.

Lemma Rst_upd (f : regs -> regs) s1 s2 : Rst s1 s2 -> Rst (upd_r f s1) (upd_r f s2).
Proof. intros [Hr Hc]. split; cbn; [congruence|exact Hc]. Qed.

Lemma Rst_mk r s1 s2 : Rst s1 s2 -> Rst (mkWs r (w_c s1)) (mkWs r (w_c s2)).
Proof. intros [Hr Hc]. split; cbn; [reflexivity|exact Hc]. Qed.

(* a computation that depends on the registers: same registers, same branch *)
Lemma sim_regs (F1 : regs -> ws S1 -> result (ws S1)) (F2 : regs -> ws S2 -> result (ws S2)) :
  (forall r, simf (F1 r) (F2 r)) -> simf (fun s => F1 (w_r s) s) (fun s => F2 (w_r s) s).
Proof.
  intros HF s1 s2 s1' HR E. destruct HR as [Hr Hc]. rewrite <- Hr.
  eapply HF; [split; eassumption|exact E].
Qed.

Lemma sim_err e f2 : simf (fun _ => Err e) f2.
Proof. intros s1 s2 s1' _ E. discriminate. Qed.

Lemma sim_iter n f1 f2 : simf f1 f2 -> simf (iter_res n f1) (iter_res n f2).
Proof.
  intros Hf. unfold iter_res. induction n as [|n IH] using N.peano_ind.
  - exact sim_ret.
  - eapply sim_ext; [| |exact (sim_bind _ _ _ _ IH Hf)]; intros s; rewrite N.iter_succ; reflexivity.
Qed.

(* ---- hypotheses: handler by handler ---------------------------------------- *)
Hypothesis Hnumeric : forall dd a b c, simf (h_numeric H1 dd a b c) (h_numeric H2 dd a b c).
Hypothesis Hnumeric_nr : forall dd a b c, simf (h_numeric_new_refval H1 dd a b c) (h_numeric_new_refval H2 dd a b c).
Hypothesis Hstring : forall dd a, simf (h_string H1 dd a) (h_string H2 dd a).
Hypothesis Hcodeflag : forall dd a b, simf (h_codeflag H1 dd a b) (h_codeflag H2 dd a b).
Hypothesis Hnew_refval : forall dd a, simf (h_new_refval H1 dd a) (h_new_refval H2 dd a).
Hypothesis Hconstant : forall dd a, simf (h_constant H1 dd a) (h_constant H2 dd a).
Hypothesis Hdefine : forall b, simf (h_define_bitmap H1 b) (h_define_bitmap H2 b).
Hypothesis Hmark : simf (h_mark_boundary H1) (h_mark_boundary H2).
Hypothesis Hrecall : simf (h_recall_bitmap H1) (h_recall_bitmap H2).
Hypothesis Hcancel : simf (h_cancel_bitmap H1) (h_cancel_bitmap H2).
Hypothesis Hcancel_br : simf (h_cancel_backrefs H1) (h_cancel_backrefs H2).
Hypothesis Haddbl : simf (h_add_bitmap_link H1) (h_add_bitmap_link H2).
Hypothesis Hwrap : forall f1 f2, simf f1 f2 -> simf (h_bitmap_def_wrap H1 f1) (h_bitmap_def_wrap H2 f2).
Hypothesis Hfixed : forall n f1 f2, simf f1 f2 -> simf (h_fixed H1 n f1) (h_fixed H2 n f2).
Hypothesis Hdelayed : forall f1 f2, simf f1 f2 -> simf (h_delayed H1 f1) (h_delayed H2 f2).
Hypothesis Hbitmapped : forall id f1 f2, simf f1 f2 -> simf (h_bitmapped H1 id f1) (h_bitmapped H2 id f2).
Hypothesis Haddlink : forall idx, simf (al1 idx) (al2 idx).

(* ---- the pieces of the walker ---------------------------------------------- *)
Lemma sim_do_assoc id : simf (do_assoc H1 id) (do_assoc H2 id).
Proof.
  unfold do_assoc.
  apply (sim_regs (fun r => h_codeflag H1 (DDAssoc id (sumZ (r_assoc r))) (sumZ (r_assoc r)) (sumZ (r_assoc r)))
                  (fun r => h_codeflag H2 (DDAssoc id (sumZ (r_assoc r))) (sumZ (r_assoc r)) (sumZ (r_assoc r)))).
  intros r. apply Hcodeflag.
Qed.

Lemma sim_do_element dd e : simf (do_element H1 dd e) (do_element H2 dd e).
Proof.
  unfold do_element.
  apply sim_bind; [|apply sim_bind].
  - (* associated field *)
    apply (sim_regs (fun r s => match r_assoc r with [] => Ok s | _ :: _ =>
                        if (desc_X (e_id e) =? 31)%N then Ok s else do_assoc H1 (e_id e) s end)
                    (fun r s => match r_assoc r with [] => Ok s | _ :: _ =>
                        if (desc_X (e_id e) =? 31)%N then Ok s else do_assoc H2 (e_id e) s end)).
    intros r. destruct (r_assoc r); [exact sim_ret|].
    destruct (desc_X (e_id e) =? 31)%N; [exact sim_ret|apply sim_do_assoc].
  - (* class 33 *)
    destruct (desc_X (e_id e) =? 33)%N.
    + intros s1 s2 s1' HR E.
      assert (HR' : Rst (if (r_qa (w_r s1) =? QA_INFO_WAITING)%N then upd_r (set_qa QA_INFO_PROCESSING) s1 else s1)
                        (if (r_qa (w_r s2) =? QA_INFO_WAITING)%N then upd_r (set_qa QA_INFO_PROCESSING) s2 else s2)).
      { destruct HR as [Hr Hc]. rewrite <- Hr.
        destruct (r_qa (w_r s1) =? QA_INFO_WAITING)%N; [apply Rst_upd|]; split; assumption. }
      cbv zeta in E |- *.
      set (a1 := if (r_qa (w_r s1) =? QA_INFO_WAITING)%N then _ else _) in *.
      set (a2 := if (r_qa (w_r s2) =? QA_INFO_WAITING)%N then _ else _) in *.
      destruct HR' as [Hr' Hc']. rewrite <- Hr'.
      destruct (r_qa (w_r a1) =? QA_INFO_PROCESSING)%N.
      * eapply Haddbl; [split; eassumption|exact E].
      * injection E as <-. eexists; split; [reflexivity|split; assumption].
    + intros s1 s2 s1' HR E. injection E as <-. eexists; split; [reflexivity|].
      destruct HR as [Hr Hc]. rewrite <- Hr.
      destruct (r_qa (w_r s1) =? QA_INFO_PROCESSING)%N; [apply Rst_upd|]; split; assumption.
  - (* the element proper *)
    apply (sim_regs
      (fun r s => match kind_of_unit (e_unit e) with
        | KString => h_string H1 dd (if (r_new_nbytes r =? 0)%Z then (e_nbits e / 8)%Z else r_new_nbytes r) s
        | KCodeFlag => h_codeflag H1 dd (e_nbits e) (e_nbits e) s
        | KNumeric => match refval_lookup (e_id e) (r_new_refvals r) with
            | None => h_numeric H1 dd (e_nbits e + r_nbits_offset r + bsr_nbits (r_bsr r))%Z
                        (e_scale e + r_scale_offset r + bsr_scale (r_bsr r))%Z (e_refval e * bsr_factor (r_bsr r))%Z s
            | Some _ => h_numeric_new_refval H1 dd (e_nbits e + r_nbits_offset r + bsr_nbits (r_bsr r))%Z
                        (e_scale e + r_scale_offset r + bsr_scale (r_bsr r))%Z (bsr_factor (r_bsr r)) s
            end end)
      (fun r s => match kind_of_unit (e_unit e) with
        | KString => h_string H2 dd (if (r_new_nbytes r =? 0)%Z then (e_nbits e / 8)%Z else r_new_nbytes r) s
        | KCodeFlag => h_codeflag H2 dd (e_nbits e) (e_nbits e) s
        | KNumeric => match refval_lookup (e_id e) (r_new_refvals r) with
            | None => h_numeric H2 dd (e_nbits e + r_nbits_offset r + bsr_nbits (r_bsr r))%Z
                        (e_scale e + r_scale_offset r + bsr_scale (r_bsr r))%Z (e_refval e * bsr_factor (r_bsr r))%Z s
            | Some _ => h_numeric_new_refval H2 dd (e_nbits e + r_nbits_offset r + bsr_nbits (r_bsr r))%Z
                        (e_scale e + r_scale_offset r + bsr_scale (r_bsr r))%Z (bsr_factor (r_bsr r)) s
            end end)).
    intros r. destruct (kind_of_unit (e_unit e)); [apply Hstring|apply Hcodeflag|].
    destruct (refval_lookup _ _); [apply Hnumeric_nr|apply Hnumeric].
Qed.

Lemma sim_bitmapped_default id : simf (bitmapped_default H1 al1 id) (bitmapped_default H2 al2 id).
Proof.
  intros s1 s2 s1' HR E. unfold bitmapped_default in *.
  destruct HR as [Hr Hc]. rewrite <- Hr.
  destruct (next_bitmapped (w_r s1)) as [[[idx e] r']|] eqn:En; cbn [bind] in E |- *; [|discriminate].
  destruct (al1 idx (mkWs r' (w_c s1))) as [m1|] eqn:E1; cbn [bind] in E; [|discriminate].
  assert (HRm : Rst (mkWs r' (w_c s1)) (mkWs r' (w_c s2))) by (split; cbn; [reflexivity|exact Hc]).
  destruct (Haddlink idx _ _ _ HRm E1) as (m2 & E2 & HR2). rewrite E2. cbn [bind].
  eapply sim_do_element; eassumption.
Qed.

Lemma sim_bitmap_def_step id : simf (bitmap_def_step H1 id) (bitmap_def_step H2 id).
Proof.
  intros s1 s2 s1' HR E. unfold bitmap_def_step in *. cbv zeta in *.
  pose proof HR as [Hr Hc]. rewrite <- Hr.
  destruct (r_bm_state (w_r s1) =? BITMAP_INDICATOR)%N.
  { destruct (id =? 236000)%N; [|destruct (id =? 237000)%N];
      injection E as <-; (eexists; split; [reflexivity|apply Rst_upd; exact HR]). }
  destruct (r_bm_state (w_r s1) =? BITMAP_WAITING_FOR_BIT)%N.
  { destruct (id =? 31031)%N; injection E as <-;
      (eexists; split; [reflexivity|first [apply Rst_upd; exact HR|exact HR]]). }
  destruct (r_bm_state (w_r s1) =? BITMAP_BIT_COUNTING)%N.
  { destruct (id =? 31031)%N.
    - injection E as <-. eexists; split; [reflexivity|apply Rst_upd; exact HR].
    - destruct (h_define_bitmap H1 (r_reuse (w_r s1)) s1) as [m1|] eqn:E1; cbn [bind] in E; [|discriminate].
      destruct (Hdefine _ _ _ _ HR E1) as (m2 & E2 & HRm). rewrite E2. cbn [bind].
      injection E as <-. eexists; split; [reflexivity|apply Rst_upd; exact HRm]. }
  injection E as <-. eauto.
Qed.

Lemma sim_do_marker id : simf (do_marker H1 id (bitmapped_default H1 al1 id)) (do_marker H2 id (bitmapped_default H2 al2 id)).
Proof.
  unfold do_marker. apply sim_bind.
  - apply (sim_regs (fun r s => match r_assoc r with [] => Ok s | _ :: _ => do_assoc H1 id s end)
                    (fun r s => match r_assoc r with [] => Ok s | _ :: _ => do_assoc H2 id s end)).
    intros r. destruct (r_assoc r); [exact sim_ret|apply sim_do_assoc].
  - apply Hbitmapped. apply sim_bitmapped_default.
Qed.

Ltac fin_upd HR E := injection E as <-; eexists; split; [reflexivity|first [apply Rst_upd; exact HR|exact HR]].

Lemma sim_do_operator id :
  simf (do_operator H1 id (bitmapped_default H1 al1 id)) (do_operator H2 id (bitmapped_default H2 al2 id)).
Proof.
  intros s1 s2 s1' HR E. unfold do_operator in *. cbv zeta in *.
  pose proof HR as [Hr Hc]. rewrite <- Hr.
  destruct (id / 1000 =? 201)%N; [fin_upd HR E|].
  destruct (id / 1000 =? 202)%N; [fin_upd HR E|].
  destruct (id / 1000 =? 203)%N.
  { destruct (Z.of_N (id mod 1000) =? 255)%Z; [fin_upd HR E|].
    injection E as <-. eexists; split; [reflexivity|].
    destruct (Z.of_N (id mod 1000) =? 0)%Z; repeat apply Rst_upd; exact HR. }
  destruct (id / 1000 =? 204)%N.
  { destruct (Z.of_N (id mod 1000) =? 0)%Z; [|fin_upd HR E].
    destruct (r_assoc (w_r s1)); [discriminate|fin_upd HR E]. }
  destruct (id / 1000 =? 205)%N; [eapply Hstring; eassumption|].
  destruct (id / 1000 =? 206)%N; [fin_upd HR E|].
  destruct (id / 1000 =? 207)%N.
  { destruct (Z.of_N (id mod 1000) =? 0)%Z; fin_upd HR E. }
  destruct (id / 1000 =? 208)%N; [fin_upd HR E|].
  destruct (id / 1000 =? 221)%N; [fin_upd HR E|].
  destruct ((id / 1000 =? 222)%N || (id / 1000 =? 223)%N || (id / 1000 =? 224)%N
            || (id / 1000 =? 225)%N || (id / 1000 =? 232)%N).
  { destruct (Z.of_N (id mod 1000) =? 0)%Z; [|eapply sim_do_marker; eassumption].
    assert (HR0 : Rst (upd_r (set_bm_state BITMAP_INDICATOR) s1) (upd_r (set_bm_state BITMAP_INDICATOR) s2))
      by (apply Rst_upd; exact HR).
    destruct (h_mark_boundary H1 _) as [a1|] eqn:Ea; cbn [bind] in E; [|discriminate].
    destruct (Hmark _ _ _ HR0 Ea) as (a2 & Ea2 & HRa). rewrite Ea2. cbn [bind].
    destruct (h_constant H1 _ _ a1) as [b1|] eqn:Eb; cbn [bind] in E; [|discriminate].
    destruct (Hconstant _ _ _ _ _ HRa Eb) as (b2 & Eb2 & HRb). rewrite Eb2. cbn [bind].
    injection E as <-. eexists; split; [reflexivity|].
    destruct (id / 1000 =? 222)%N; [apply Rst_upd|]; exact HRb. }
  destruct (id / 1000 =? 235)%N; [eapply Hcancel_br; eassumption|].
  destruct (id / 1000 =? 236)%N; [eapply Hconstant; eassumption|].
  destruct (id / 1000 =? 237)%N; [|discriminate].
  destruct (Z.of_N (id mod 1000) =? 0)%Z.
  - destruct (h_recall_bitmap H1 s1) as [a1|] eqn:Ea; cbn [bind] in E; [|discriminate].
    destruct (Hrecall _ _ _ HR Ea) as (a2 & Ea2 & HRa). rewrite Ea2. cbn [bind].
    eapply Hconstant; eassumption.
  - destruct (r_reuse (w_r s1)).
    + destruct (h_cancel_bitmap H1 s1) as [a1|] eqn:Ea; cbn [bind] in E; [|discriminate].
      destruct (Hcancel _ _ _ HR Ea) as (a2 & Ea2 & HRa). rewrite Ea2. cbn [bind].
      eapply Hconstant; eassumption.
    + cbn [bind] in E |- *. eapply Hconstant; eassumption.
Qed.

Lemma sim_pre_member d s1 s2 p1 :
  Rst s1 s2 -> pre_member H1 d s1 = Ok p1 -> exists p2, pre_member H2 d s2 = Ok p2 /\ Rsum p1 p2.
Proof.
  intros HR E. unfold pre_member in *. cbv zeta in *.
  pose proof HR as [Hr Hc]. rewrite <- Hr.
  assert (HR1 : Rst (if (r_dnp (w_r s1) =? 0)%Z then s1 else upd_r (fun r => set_dnp (r_dnp r - 1) r) s1)
                    (if (r_dnp (w_r s1) =? 0)%Z then s2 else upd_r (fun r => set_dnp (r_dnp r - 1) r) s2)).
  { destruct (r_dnp (w_r s1) =? 0)%Z; [exact HR|apply Rst_upd; exact HR]. }
  set (a1 := if (r_dnp (w_r s1) =? 0)%Z then s1 else _) in *.
  set (a2 := if (r_dnp (w_r s1) =? 0)%Z then s2 else _) in *.
  destruct (negb (r_dnp (w_r s1) =? 0)%Z && dnp_skips d).
  { injection E as <-. eexists; split; [reflexivity|exact HR1]. }
  pose proof HR1 as [Hr1 Hc1]. rewrite <- Hr1.
  destruct (if (r_nbits_new_refval (w_r a1) =? 0)%Z then None else is_plain_elem d) as [e|].
  { destruct (kind_of_unit (e_unit e)); [discriminate| |].
    all: destruct (h_new_refval H1 _ _ a1) as [b1|] eqn:Eb; cbn [bind] in E; [|discriminate];
      destruct (Hnew_refval _ _ _ _ _ HR1 Eb) as (b2 & Eb2 & HRb); rewrite Eb2; cbn [bind];
      injection E as <-; eexists; split; [reflexivity|exact HRb]. }
  destruct (negb (r_nbits_skipped (w_r a1) =? 0)%Z).
  { destruct (h_codeflag H1 _ _ _ a1) as [b1|] eqn:Eb; cbn [bind] in E; [|discriminate].
    destruct (Hcodeflag _ _ _ _ _ _ HR1 Eb) as (b2 & Eb2 & HRb). rewrite Eb2. cbn [bind].
    injection E as <-. eexists; split; [reflexivity|]. cbn [Rsum]. apply Rst_upd; exact HRb. }
  destruct (negb (r_bm_state (w_r a1) =? BITMAP_NA)%N).
  { destruct (h_bitmap_def_wrap H1 _ a1) as [b1|] eqn:Eb; cbn [bind] in E; [|discriminate].
    destruct (Hwrap _ _ (sim_bitmap_def_step (desc_id d)) _ _ _ HR1 Eb) as (b2 & Eb2 & HRb).
    rewrite Eb2. cbn [bind]. injection E as <-. eexists; split; [reflexivity|exact HRb]. }
  injection E as <-. eexists; split; [reflexivity|exact HR1].
Qed.

(* unfolding lemmas for the mutual fixpoint *)
Lemma walk_list_cons {S} (H : handlers S) al m rest s :
  walk_list H al (DCons m rest) s =
  bind (pre_member H m s) (fun p => match p with
     | inl s1 => walk_list H al rest s1
     | inr s1 => bind (walk H al m s1) (walk_list H al rest) end).
Proof. reflexivity. Qed.

(* ---- the theorem ----------------------------------------------------------- *)
Theorem walk_sim :
  (forall d, simf (walk H1 al1 d) (walk H2 al2 d)) /\
  (forall ms, simf (walk_list H1 al1 ms) (walk_list H2 al2 ms)).
Proof.
  apply desc_descs_ind.
  - intros e. cbn [walk]. apply sim_do_element.
  - intros id ms IH. cbn [walk]. apply Hfixed. exact IH.
  - intros id f _ ms IH. cbn [walk]. apply sim_bind.
    + destruct f; try apply sim_err. apply sim_do_element.
    + apply Hdelayed. exact IH.
  - intros id. cbn [walk]. apply sim_do_operator.
  - intros id ms IH. exact IH.
  - intros id. apply sim_err.
  - intros id. apply sim_err.
  - exact sim_ret.
  - intros d IHd ds IHds.
    eapply sim_ext; [intros s; symmetry; apply walk_list_cons
                    |intros s; symmetry; apply walk_list_cons|].
    intros s1 s2 s1' HR E.
    destruct (pre_member H1 d s1) as [p1|] eqn:Ep; cbn [bind] in E; [|discriminate].
    destruct (sim_pre_member _ _ _ _ HR Ep) as (p2 & Ep2 & HRp). rewrite Ep2. cbn [bind].
    destruct p1 as [a1|a1], p2 as [a2|a2]; cbn [Rsum] in HRp; try contradiction.
    + eapply IHds; eassumption.
    + eapply (sim_bind _ _ _ _ IHd IHds); eassumption.
Qed.

End Sim.
