(* WalkSim.v — the generic simulation theorem for the walker, stated for an
   ABSTRACT notion of simulation [sim] between state transformers that is closed
   under the operations the walker is built from (return, bind, register update,
   branching on registers, failure).  Two instances are used:
     - lock-step simulation [simf] (this file): same registers, related clients;
     - producer/consumer simulation [psf] (WalkPS.v): one side writes a stream
       that the other side reads.
   If every handler of H1 is [sim]-related to the corresponding handler of H2,
   the whole template walk of H1 is [sim]-related to the walk of H2, for every
   template. *)
From PBK Require Import Base Descr Walk.

Section Closure.
Context {S1 S2 : Type} (H1 : handlers S1) (H2 : handlers S2).
Context (al1 : N -> ws S1 -> result (ws S1)) (al2 : N -> ws S2 -> result (ws S2)).

Variable sim : (ws S1 -> result (ws S1)) -> (ws S2 -> result (ws S2)) -> Prop.

Hypothesis c_ret : sim (fun s => Ok s) (fun s => Ok s).
Hypothesis c_bind : forall f1 f2 g1 g2,
  sim f1 f2 -> sim g1 g2 -> sim (fun s => bind (f1 s) g1) (fun s => bind (f2 s) g2).
Hypothesis c_ext : forall f1 f1' f2 f2',
  (forall s, f1 s = f1' s) -> (forall s, f2 s = f2' s) -> sim f1 f2 -> sim f1' f2'.
Hypothesis c_upd : forall f : regs -> regs, sim (fun s => Ok (upd_r f s)) (fun s => Ok (upd_r f s)).
Hypothesis c_regs : forall (F1 : regs -> ws S1 -> result (ws S1)) (F2 : regs -> ws S2 -> result (ws S2)),
  (forall r, sim (F1 r) (F2 r)) -> sim (fun s => F1 (w_r s) s) (fun s => F2 (w_r s) s).
Hypothesis c_err : forall e f2, sim (fun _ => Err e) f2.

(* ---- derived closure properties -------------------------------------------- *)
Lemma c_pre_upd (f : regs -> regs) g1 g2 :
  sim g1 g2 -> sim (fun s => g1 (upd_r f s)) (fun s => g2 (upd_r f s)).
Proof.
  intros Hg. eapply c_ext; [| |exact (c_bind _ _ _ _ (c_upd f) Hg)]; intros s; reflexivity.
Qed.

Lemma c_post_upd (f : regs -> regs) g1 g2 :
  sim g1 g2 -> sim (fun s => bind (g1 s) (fun s' => Ok (upd_r f s'))) (fun s => bind (g2 s) (fun s' => Ok (upd_r f s'))).
Proof. intros Hg. exact (c_bind _ _ _ _ Hg (c_upd f)). Qed.

Lemma c_set_r r : sim (fun s => Ok (set_r r s)) (fun s => Ok (set_r r s)).
Proof. exact (c_upd (fun _ => r)). Qed.

Lemma c_iter n f1 f2 : sim f1 f2 -> sim (iter_res n f1) (iter_res n f2).
Proof.
  intros Hf. unfold iter_res. induction n as [|n IH] using N.peano_ind.
  - exact c_ret.
  - eapply c_ext; [| |exact (c_bind _ _ _ _ IH Hf)]; intros s; rewrite N.iter_succ; reflexivity.
Qed.

Lemma c_eta f1 f2 : sim f1 f2 -> sim (fun s => f1 s) (fun s => f2 s).
Proof. intros H. exact H. Qed.

(* ---- hypotheses: handler by handler ---------------------------------------- *)
Hypothesis Hnumeric : forall dd a b c, sim (h_numeric H1 dd a b c) (h_numeric H2 dd a b c).
Hypothesis Hnumeric_nr : forall dd a b c, sim (h_numeric_new_refval H1 dd a b c) (h_numeric_new_refval H2 dd a b c).
Hypothesis Hstring : forall dd a, sim (h_string H1 dd a) (h_string H2 dd a).
Hypothesis Hcodeflag : forall dd a b, sim (h_codeflag H1 dd a b) (h_codeflag H2 dd a b).
Hypothesis Hnew_refval : forall dd a, sim (h_new_refval H1 dd a) (h_new_refval H2 dd a).
Hypothesis Hconstant : forall dd a, sim (h_constant H1 dd a) (h_constant H2 dd a).
Hypothesis Hdefine : forall b, sim (h_define_bitmap H1 b) (h_define_bitmap H2 b).
Hypothesis Hmark : sim (h_mark_boundary H1) (h_mark_boundary H2).
Hypothesis Hrecall : sim (h_recall_bitmap H1) (h_recall_bitmap H2).
Hypothesis Hcancel : sim (h_cancel_bitmap H1) (h_cancel_bitmap H2).
Hypothesis Hcancel_br : sim (h_cancel_backrefs H1) (h_cancel_backrefs H2).
Hypothesis Haddbl : sim (h_add_bitmap_link H1) (h_add_bitmap_link H2).
Hypothesis Hwrap : forall f1 f2, sim f1 f2 -> sim (h_bitmap_def_wrap H1 f1) (h_bitmap_def_wrap H2 f2).
Hypothesis Hfixed : forall n f1 f2, sim f1 f2 -> sim (h_fixed H1 n f1) (h_fixed H2 n f2).
Hypothesis Hdelayed : forall f1 f2, sim f1 f2 -> sim (h_delayed H1 f1) (h_delayed H2 f2).
Hypothesis Hbitmapped : forall id f1 f2, sim f1 f2 -> sim (h_bitmapped H1 id f1) (h_bitmapped H2 id f2).
Hypothesis Haddlink : forall idx, sim (al1 idx) (al2 idx).

(* ---- the pieces of the walker ---------------------------------------------- *)
Lemma sim_do_assoc id : sim (do_assoc H1 id) (do_assoc H2 id).
Proof.
  unfold do_assoc. apply (c_regs (fun r => do_assoc_r H1 r id) (fun r => do_assoc_r H2 r id)).
  intros r. unfold do_assoc_r. cbv zeta. apply Hcodeflag.
Qed.

Lemma sim_elem_assoc e : sim (elem_assoc H1 e) (elem_assoc H2 e).
Proof.
  unfold elem_assoc. apply (c_regs (fun r => elem_assoc_r H1 r e) (fun r => elem_assoc_r H2 r e)).
  intros r. unfold elem_assoc_r. destruct (r_assoc r); [exact c_ret|].
  destruct (desc_X (e_id e) =? 31)%N; [exact c_ret|apply sim_do_assoc].
Qed.

Lemma sim_elem_qa e : sim (elem_qa H1 e) (elem_qa H2 e).
Proof.
  unfold elem_qa. apply (c_regs (fun r => elem_qa_r H1 r e) (fun r => elem_qa_r H2 r e)).
  intros r. unfold elem_qa_r.
  destruct (desc_X (e_id e) =? 33)%N.
  - destruct (r_qa r =? QA_INFO_WAITING)%N; [apply (c_pre_upd _ _ _ Haddbl)|].
    destruct (r_qa r =? QA_INFO_PROCESSING)%N; [exact Haddbl|exact c_ret].
  - destruct (r_qa r =? QA_INFO_PROCESSING)%N; [apply c_upd|exact c_ret].
Qed.

Lemma sim_elem_body dd e : sim (elem_body H1 dd e) (elem_body H2 dd e).
Proof.
  unfold elem_body. apply (c_regs (fun r => elem_body_r H1 r dd e) (fun r => elem_body_r H2 r dd e)).
  intros r. unfold elem_body_r. cbv zeta.
  destruct (kind_of_unit (e_unit e)); [apply Hstring|apply Hcodeflag|].
  destruct (refval_lookup _ _); [apply Hnumeric_nr|apply Hnumeric].
Qed.

Lemma sim_do_element dd e : sim (do_element H1 dd e) (do_element H2 dd e).
Proof.
  unfold do_element.
  apply (c_bind (elem_assoc H1 e) (elem_assoc H2 e)); [apply sim_elem_assoc|].
  apply (c_bind (elem_qa H1 e) (elem_qa H2 e)); [apply sim_elem_qa|apply sim_elem_body].
Qed.

Lemma sim_bitmapped_default id : sim (bitmapped_default H1 al1 id) (bitmapped_default H2 al2 id).
Proof.
  unfold bitmapped_default.
  apply (c_regs (fun r => bitmapped_default_r H1 al1 r id) (fun r => bitmapped_default_r H2 al2 r id)).
  intros r. unfold bitmapped_default_r.
  destruct (next_bitmapped r) as [[[idx e] r']|err]; [|apply c_err].
  apply (c_bind (fun s => al1 idx (set_r r' s)) (fun s => al2 idx (set_r r' s))).
  - eapply c_ext; [| |exact (c_bind _ _ _ _ (c_set_r r') (Haddlink idx))]; intros s; reflexivity.
  - apply sim_do_element.
Qed.

Lemma sim_bitmap_def_step id : sim (bitmap_def_step H1 id) (bitmap_def_step H2 id).
Proof.
  unfold bitmap_def_step.
  apply (c_regs (fun r => bitmap_def_step_r H1 r id) (fun r => bitmap_def_step_r H2 r id)).
  intros r. unfold bitmap_def_step_r.
  destruct (r_bm_state r =? BITMAP_INDICATOR)%N.
  { destruct (id =? 236000)%N; [apply c_upd|]. destruct (id =? 237000)%N; apply c_upd. }
  destruct (r_bm_state r =? BITMAP_WAITING_FOR_BIT)%N.
  { destruct (id =? 31031)%N; [apply c_upd|exact c_ret]. }
  destruct (r_bm_state r =? BITMAP_BIT_COUNTING)%N; [|exact c_ret].
  destruct (id =? 31031)%N; [apply c_upd|].
  apply (c_post_upd _ _ _ (Hdefine (r_reuse r))).
Qed.

Lemma sim_do_marker_r r id :
  sim (do_marker_r H1 r id (bitmapped_default H1 al1 id)) (do_marker_r H2 r id (bitmapped_default H2 al2 id)).
Proof.
  unfold do_marker_r.
  apply (c_bind (fun s => match r_assoc r with [] => Ok s | _ :: _ => do_assoc H1 id s end)
                (fun s => match r_assoc r with [] => Ok s | _ :: _ => do_assoc H2 id s end)).
  - destruct (r_assoc r); [exact c_ret|apply sim_do_assoc].
  - apply Hbitmapped. apply sim_bitmapped_default.
Qed.

Lemma sim_do_operator id :
  sim (do_operator H1 id (bitmapped_default H1 al1 id)) (do_operator H2 id (bitmapped_default H2 al2 id)).
Proof.
  unfold do_operator.
  apply (c_regs (fun r => do_operator_r H1 r id (bitmapped_default H1 al1 id))
                (fun r => do_operator_r H2 r id (bitmapped_default H2 al2 id))).
  intros r. unfold do_operator_r. cbv zeta.
  destruct (id / 1000 =? 201)%N; [apply c_upd|].
  destruct (id / 1000 =? 202)%N; [apply c_upd|].
  destruct (id / 1000 =? 203)%N.
  { destruct (Z.of_N (id mod 1000) =? 255)%Z; [apply c_upd|].
    destruct (Z.of_N (id mod 1000) =? 0)%Z; apply c_upd. }
  destruct (id / 1000 =? 204)%N.
  { destruct (Z.of_N (id mod 1000) =? 0)%Z; [|apply c_upd].
    destruct (r_assoc r); [apply c_err|apply c_upd]. }
  destruct (id / 1000 =? 205)%N; [apply Hstring|].
  destruct (id / 1000 =? 206)%N; [apply c_upd|].
  destruct (id / 1000 =? 207)%N.
  { destruct (Z.of_N (id mod 1000) =? 0)%Z; apply c_upd. }
  destruct (id / 1000 =? 208)%N; [apply c_upd|].
  destruct (id / 1000 =? 221)%N; [apply c_upd|].
  destruct ((id / 1000 =? 222)%N || (id / 1000 =? 223)%N || (id / 1000 =? 224)%N
            || (id / 1000 =? 225)%N || (id / 1000 =? 232)%N).
  { destruct (Z.of_N (id mod 1000) =? 0)%Z; [|apply sim_do_marker_r].
    apply (c_bind (fun s => h_mark_boundary H1 (upd_r (set_bm_state BITMAP_INDICATOR) s))
                  (fun s => h_mark_boundary H2 (upd_r (set_bm_state BITMAP_INDICATOR) s)));
      [apply (c_pre_upd _ _ _ Hmark)|].
    apply (c_bind (h_constant H1 (DDOper id) 0) (h_constant H2 (DDOper id) 0)); [apply Hconstant|].
    destruct (id / 1000 =? 222)%N; [apply c_upd|exact c_ret]. }
  destruct (id / 1000 =? 235)%N; [exact Hcancel_br|].
  destruct (id / 1000 =? 236)%N; [apply Hconstant|].
  destruct (id / 1000 =? 237)%N; [|apply c_err].
  apply (c_bind (fun s => if (Z.of_N (id mod 1000) =? 0)%Z then h_recall_bitmap H1 s
                          else if r_reuse r then h_cancel_bitmap H1 s else Ok s)
                (fun s => if (Z.of_N (id mod 1000) =? 0)%Z then h_recall_bitmap H2 s
                          else if r_reuse r then h_cancel_bitmap H2 s else Ok s)); [|apply Hconstant].
  destruct (Z.of_N (id mod 1000) =? 0)%Z; [exact Hrecall|].
  destruct (r_reuse r); [exact Hcancel|exact c_ret].
Qed.

Lemma sim_member_rest d n1 n2 : sim n1 n2 -> sim (member_rest H1 d n1) (member_rest H2 d n2).
Proof.
  intros Hn. unfold member_rest.
  apply (c_regs (fun r => member_rest_r H1 r d n1) (fun r => member_rest_r H2 r d n2)).
  intros r. unfold member_rest_r. cbv zeta.
  destruct (if (r_nbits_new_refval r =? 0)%Z then None else is_plain_elem d) as [e|].
  { destruct (kind_of_unit (e_unit e)); [apply c_err|apply Hnew_refval|apply Hnew_refval]. }
  destruct (negb (r_nbits_skipped r =? 0)%Z).
  { apply (c_post_upd _ _ _ (Hcodeflag _ _ _)). }
  destruct (negb (r_bm_state r =? BITMAP_NA)%N); [|exact Hn].
  apply (c_bind (h_bitmap_def_wrap H1 (bitmap_def_step H1 (desc_id d)))
                (h_bitmap_def_wrap H2 (bitmap_def_step H2 (desc_id d)))); [|exact Hn].
  apply Hwrap. apply sim_bitmap_def_step.
Qed.

Lemma sim_member_step d n1 n2 : sim n1 n2 -> sim (member_step H1 d n1) (member_step H2 d n2).
Proof.
  intros Hn. unfold member_step.
  apply (c_regs (fun r => member_step_r H1 r d n1) (fun r => member_step_r H2 r d n2)).
  intros r. unfold member_step_r.
  destruct (r_dnp r =? 0)%Z; [apply sim_member_rest; exact Hn|].
  destruct (dnp_skips d); [apply c_upd|].
  apply (c_pre_upd _ _ _ (sim_member_rest d _ _ Hn)).
Qed.

(* ---- the theorem ----------------------------------------------------------- *)
Theorem walk_sim_gen :
  (forall d, sim (walk H1 al1 d) (walk H2 al2 d)) /\
  (forall ms, sim (walk_list H1 al1 ms) (walk_list H2 al2 ms)).
Proof.
  apply desc_descs_ind.
  - intros e. cbn [walk]. apply sim_do_element.
  - intros id ms IH. cbn [walk]. apply Hfixed. exact IH.
  - intros id f _ ms IH. cbn [walk].
    apply (c_bind (fun s => match f with DElem e => do_element H1 (DDElem e) e s | _ => Err EUnknownDescriptor end)
                  (fun s => match f with DElem e => do_element H2 (DDElem e) e s | _ => Err EUnknownDescriptor end)).
    + destruct f; try apply c_err. apply sim_do_element.
    + apply Hdelayed. exact IH.
  - intros id. cbn [walk]. apply sim_do_operator.
  - intros id ms IH. exact IH.
  - intros id. apply c_err.
  - intros id. apply c_err.
  - exact c_ret.
  - intros d IHd ds IHds.
    change (sim (fun s => bind (member_step H1 d (walk H1 al1 d) s) (walk_list H1 al1 ds))
                (fun s => bind (member_step H2 d (walk H2 al2 d) s) (walk_list H2 al2 ds))).
    apply (c_bind (member_step H1 d (walk H1 al1 d)) (member_step H2 d (walk H2 al2 d))); [|exact IHds].
    apply sim_member_step. exact IHd.
Qed.

End Closure.

(* ======================================================================== *)
(* Instance 1: lock-step simulation                                          *)
(* ======================================================================== *)
Section Sim.
Context {S1 S2 : Type} (Rc : S1 -> S2 -> Prop).

Definition Rst (s1 : ws S1) (s2 : ws S2) : Prop := w_r s1 = w_r s2 /\ Rc (w_c s1) (w_c s2).

Definition simf (f1 : ws S1 -> result (ws S1)) (f2 : ws S2 -> result (ws S2)) : Prop :=
  forall s1 s2 s1', Rst s1 s2 -> f1 s1 = Ok s1' -> exists s2', f2 s2 = Ok s2' /\ Rst s1' s2'.

Lemma sim_ret : simf (fun s => Ok s) (fun s => Ok s).
Proof. intros s1 s2 s1' HR E. injection E as <-. eauto. Qed.

Lemma sim_bind f1 f2 g1 g2 :
  simf f1 f2 -> simf g1 g2 -> simf (fun s => bind (f1 s) g1) (fun s => bind (f2 s) g2).
Proof.
  intros Hf Hg s1 s2 s1' HR E.
  destruct (f1 s1) as [m1|] eqn:E1; cbn [bind] in E; [|discriminate].
  destruct (Hf _ _ _ HR E1) as (m2 & E2 & HRm). rewrite E2. cbn [bind]. eauto.
Qed.

Lemma sim_ext f1 f1' f2 f2' :
  (forall s, f1 s = f1' s) -> (forall s, f2 s = f2' s) -> simf f1 f2 -> simf f1' f2'.
Proof.
  intros X1 X2 Hf s1 s2 s1' HR E. rewrite <- X1 in E.
  destruct (Hf _ _ _ HR E) as (s2' & E2 & HR'). rewrite <- X2. eauto.
Qed.

Lemma Rst_upd (f : regs -> regs) s1 s2 : Rst s1 s2 -> Rst (upd_r f s1) (upd_r f s2).
Proof. intros [Hr Hc]. split; cbn; [congruence|exact Hc]. Qed.

Lemma sim_upd (f : regs -> regs) : simf (fun s => Ok (upd_r f s)) (fun s => Ok (upd_r f s)).
Proof.
  intros s1 s2 s1' HR E. injection E as <-. eexists; split; [reflexivity|apply Rst_upd; exact HR].
Qed.

Lemma sim_regs (F1 : regs -> ws S1 -> result (ws S1)) (F2 : regs -> ws S2 -> result (ws S2)) :
  (forall r, simf (F1 r) (F2 r)) -> simf (fun s => F1 (w_r s) s) (fun s => F2 (w_r s) s).
Proof.
  intros HF s1 s2 s1' HR E. destruct HR as [Hr Hc]. rewrite <- Hr.
  eapply HF; [split; eassumption|exact E].
Qed.

Lemma sim_err e f2 : simf (fun _ => Err e) f2.
Proof. intros s1 s2 s1' _ E. discriminate. Qed.

Lemma sim_iter n f1 f2 : simf f1 f2 -> simf (iter_res n f1) (iter_res n f2).
Proof. apply (c_iter simf sim_ret sim_bind sim_ext). Qed.

Context (H1 : handlers S1) (H2 : handlers S2).
Context (al1 : N -> ws S1 -> result (ws S1)) (al2 : N -> ws S2 -> result (ws S2)).

Definition walk_sim :=
  walk_sim_gen H1 H2 al1 al2 simf sim_ret sim_bind sim_ext sim_upd sim_regs sim_err.

End Sim.
