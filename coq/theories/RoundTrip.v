(* RoundTrip.v — the decoder inverts the encoder (C03/C01/C02).
   [encode_ghost] is the encoder of Encode.v run together with a ghost: next to
   every field it writes it records the value a reader of that field obtains
   ([dec_of_raw]: missing iff wider than one bit and all ones, otherwise
   (raw + reference)/10^scale).  It additionally refuses (with EOther) inputs on
   which encoder and decoder would disagree about the STRUCTURE: a replication
   factor or bitmap bit whose encoded form reads back differently (e.g. a factor
   equal to its field's all-ones pattern), a field wider than 64 bits, a string
   with an octet above 255.  Whenever it succeeds it writes the same bits as the
   plain encoder, and the decoder reads exactly the ghost. *)
From PBK Require Import Base Bits BitsProofs Descr Walk Coder WalkSim WalkPS CoderSim CoderPS
  Float53 Decode Encode DecodeLaws DecodeProofs.
From Coq Require Import ZifyBool ZifyNat ZifyN.

Record gstate := mkGE { ge : estate; gh : list (list value) }.

Definition gh_cur (g : gstate) : list value := nth (e_cur (ge g)) (gh g) [].
Definition gh_push (v : value) (g : gstate) (e' : estate) : gstate :=
  mkGE e' (upd_nth (e_cur (ge g)) (fun l => l ++ [v]) (gh g)).

Definition dec_of_raw (nbits raw scale refval : Z) : value :=
  if (1 <? nbits)%Z && (raw =? 2 ^ nbits - 1)%Z then VNone
  else numeric_value (Z.to_N raw) scale refval.

Definition dec_of_raw_cf (nbits raw : Z) : value :=
  if (1 <? nbits)%Z && (raw =? 2 ^ nbits - 1)%Z then VNone else VInt raw.

Definition g_numeric (nbits scale refval : Z) (g : gstate) : result gstate :=
  if (64 <? nbits)%Z then Err EOther else
  let* (v, e1) := next_value (ge g) in
  let* raw := (match v with VNone => missing_for nbits | _ => scaled_int v scale refval end) in
  let* w := write_uint raw nbits (e_w e1) in
  Ok (gh_push (dec_of_raw nbits raw scale refval) g (with_w e1 w)).

Definition g_string (nbytes : Z) (g : gstate) : result gstate :=
  let* (v, e1) := next_value (ge g) in
  let* b := (match v with
             | VNone => Ok (repeat 255%N (Z.to_nat nbytes))
             | VBytes b => Ok b
             | _ => Err EType
             end) in
  if negb (forallb is_byte b) then Err EOther else
  let* w := write_bytes b nbytes (e_w e1) in
  Ok (gh_push (VBytes (pad_bytes b (Z.to_nat nbytes))) g (with_w e1 w)).

Definition g_codeflag (nbits dnbits : Z) (g : gstate) : result gstate :=
  if (64 <? nbits)%Z then Err EOther else
  let* (v, e1) := next_value (ge g) in
  let* raw := (match v with
               | VNone => missing_for nbits
               | VInt z => Ok z
               | VDyad m ex => Ok (trunc (m, ex))
               | _ => Err EType
               end) in
  let* w := write_uint raw nbits (e_w e1) in
  Ok (gh_push (dec_of_raw_cf nbits raw) g (with_w e1 w)).

Definition g_new_refval (nbits : Z) (g : gstate) : result (Z * gstate) :=
  let* (v, e1) := next_value (ge g) in
  match v with
  | VNone => Err EAssert
  | VInt z => let* w := write_int z nbits (e_w e1) in Ok (z, gh_push (VInt z) g (with_w e1 w))
  | _ => Err EType
  end.

Definition g_constant (z : Z) (g : gstate) : result gstate :=
  let* (v, e1) := next_value (ge g) in
  if value_eq_int v z then Ok (gh_push (VInt z) g e1) else Err EAssert.

Definition last_factor (l : list value) : result N :=
  match rev l with [] => Err EIndex | v :: _ => factor_of_value v end.

Definition g_factor (g : gstate) : result N :=
  let* n := enc_factor (ge g) in
  let* n' := last_factor (gh_cur g) in
  if (n =? n')%N then Ok n else Err EOther.

Definition g_bitmap (k : Z) (g : gstate) : result (list bool) :=
  let* bm := enc_bitmap k (ge g) in
  if list_eq_dec Bool.bool_dec bm (map value_is_zero (last_n k (gh_cur g))) then Ok bm else Err EOther.

Definition g_prims : prims gstate :=
  mkPrims gstate g_numeric g_string g_codeflag g_new_refval g_constant g_factor g_bitmap.

Definition g_switch (i : nat) (g : gstate) : gstate := mkGE (enc_switch i (ge g)) (gh g).

(* the encoder with its ghost: descriptors/links, the bits, and what a reader gets *)
Definition encode_ghost (T : descs) (vals : list (list value))
  : result (list subset_out * writer * list (list value)) :=
  let* (outs, g) := run_subsets g_prims T g_switch 0 (length vals)
                      (mkGE (mkE [] vals 0 0) (repeat [] (length vals))) [] in
  Ok (outs, e_w (ge g), gh g).

(* ======================================================================== *)
(* 1. the ghost encoder writes what the encoder writes                        *)
(* ======================================================================== *)
Definition Rproj (g : gstate) (e : estate) : Prop := ge g = e.

Lemma g_walk_proj :
  forall ms, simf (Rio Rproj) (walk_list (io_handlers g_prims) io_add_link ms)
                               (walk_list (io_handlers enc_prims) io_add_link ms).
Proof.
  apply io_walk_sim; cbn [g_prims enc_prims p_numeric p_string p_codeflag p_constant p_new_refval p_factor p_bitmap];
    unfold simp, Rproj.
  - intros a b c g e g' <- E. unfold g_numeric, enc_numeric in *.
    destruct (64 <? a)%Z; [discriminate|].
    destruct (next_value (ge g)) as [[v e1]|]; cbn [bind] in *; [|discriminate].
    destruct (match v with VNone => _ | _ => _ end) as [raw|]; cbn [bind] in *; [|discriminate].
    destruct (write_uint raw a (e_w e1)) as [w|]; cbn [bind] in *; [|discriminate].
    injection E as <-. eexists; split; reflexivity.
  - intros a g e g' <- E. unfold g_string, enc_string in *.
    destruct (next_value (ge g)) as [[v e1]|]; cbn [bind] in *; [|discriminate].
    destruct (match v with VNone => _ | VBytes b => _ | _ => _ end) as [b|]; cbn [bind] in *; [|discriminate].
    destruct (negb (forallb is_byte b)); [discriminate|].
    destruct (write_bytes b a (e_w e1)) as [w|]; cbn [bind] in *; [|discriminate].
    injection E as <-. eexists; split; reflexivity.
  - intros a b g e g' <- E. unfold g_codeflag, enc_codeflag in *.
    destruct (64 <? a)%Z; [discriminate|].
    destruct (next_value (ge g)) as [[v e1]|]; cbn [bind] in *; [|discriminate].
    destruct (match v with VNone => _ | VInt z => _ | VDyad m ex => _ | _ => _ end) as [raw|]; cbn [bind] in *; [|discriminate].
    destruct (write_uint raw a (e_w e1)) as [w|]; cbn [bind] in *; [|discriminate].
    injection E as <-. eexists; split; reflexivity.
  - intros a g e g' <- E. unfold g_constant, enc_constant in *.
    destruct (next_value (ge g)) as [[v e1]|]; cbn [bind] in *; [|discriminate].
    destruct (value_eq_int v a); [|discriminate]. injection E as <-. eexists; split; reflexivity.
  - intros a g e z g' <- E. unfold g_new_refval, enc_new_refval in *.
    destruct (next_value (ge g)) as [[v e1]|]; cbn [bind] in *; [|discriminate].
    destruct v; try discriminate.
    destruct (write_int z0 a (e_w e1)) as [w|]; cbn [bind] in *; [|discriminate].
    injection E as <- <-. eexists; split; reflexivity.
  - intros g e n <- E. unfold g_factor in E.
    destruct (enc_factor (ge g)) as [m|]; cbn [bind] in E; [|discriminate].
    destruct (last_factor _) as [m'|]; cbn [bind] in E; [|discriminate].
    destruct (N.eqb_spec m m'); [|discriminate]. injection E as <-. reflexivity.
  - intros a g e bm <- E. unfold g_bitmap in E.
    destruct (enc_bitmap a (ge g)) as [m|]; cbn [bind] in E; [|discriminate].
    destruct (list_eq_dec _ _ _); [|discriminate]. injection E as <-. reflexivity.
Qed.

Theorem encode_ghost_is_encode T vals outs w g :
  encode_ghost T vals = Ok (outs, w, g) -> encode_uncompressed T vals = Ok (outs, w).
Proof.
  unfold encode_ghost, encode_uncompressed. intros E.
  destruct (run_subsets g_prims T g_switch 0 (length vals) _ []) as [[o gs]|] eqn:E1; cbn [bind] in E; [|discriminate].
  injection E as <- <- <-.
  assert (Hsw : forall i c1 c2, Rproj c1 c2 -> Rproj (g_switch i c1) (enc_switch i c2))
    by (intros i c1 c2 <-; reflexivity).
  assert (HR0 : Rproj (mkGE (mkE [] vals 0 0) (repeat [] (length vals))) (mkE [] vals 0 0)) by reflexivity.
  destruct (run_subsets_sim g_prims enc_prims Rproj Rproj g_switch enc_switch g_walk_proj
              Hsw (fun _ _ H => H) T (length vals) 0 _ _ [] _ _ HR0 E1) as (e & E2 & <-).
  rewrite E2. reflexivity.
Qed.

(* ======================================================================== *)
(* 2. the decoder reads the ghost                                            *)
(* ======================================================================== *)
Definition Rgd (g : gstate) (d : dstate) : Prop :=
  d_vals d = gh g /\ d_cur d = e_cur (ge g) /\ (d_cur d < length (d_vals d))%nat.

Definition d_with (d : dstate) (b : bits) : dstate := mkD b (d_vals d) (d_cur d).
Definition g_out (g : gstate) : bits := e_w (ge g).

Lemma d_inp_with c b : d_r (d_with c b) = b. Proof. reflexivity. Qed.
Lemma d_with_with c b b' : d_with (d_with c b) b' = d_with c b'. Proof. reflexivity. Qed.
Lemma d_with_inp c : d_with c (d_r c) = c. Proof. destruct c; reflexivity. Qed.
Lemma Rgd_with g d b : Rgd g d -> Rgd g (d_with d b).
Proof. intros (Hv & Hc & Hl). repeat split; cbn; assumption. Qed.

Lemma next_value_cur e v e1 : next_value e = Ok (v, e1) -> e_cur e1 = e_cur e /\ e_w e1 = e_w e.
Proof.
  unfold next_value. destruct (nth_error _ _); [|discriminate]. intros E; injection E as <- <-. auto.
Qed.

Lemma Rgd_push v g d e' t :
  Rgd g d -> e_cur e' = e_cur (ge g) -> Rgd (gh_push v g e') (d_append v (d_with d t) t).
Proof.
  intros (Hv & Hc & Hl) He. unfold Rgd, gh_push, d_append, d_with. cbn [d_vals d_cur d_r gh ge].
  split; [rewrite Hv, Hc; reflexivity|]. split; [rewrite Hc; symmetry; exact He|].
  rewrite upd_nth_length. exact Hl.
Qed.

Lemma d_append_with v d x t : d_append v (d_with d x) t = d_append v (d_with d t) t.
Proof. reflexivity. Qed.

Notation psg := (psp Rgd g_out d_r d_with).

Lemma ps_g_numeric a b c : psg (g_numeric a b c) (dec_numeric a b c).
Proof.
  intros g d g' HR E. unfold g_numeric in E.
  destruct (Z.ltb_spec 64 a); [discriminate|].
  destruct (next_value (ge g)) as [[v e1]|] eqn:En; cbn [bind] in E; [|discriminate].
  destruct (match v with VNone => _ | _ => _ end) as [raw|]; cbn [bind] in E; [|discriminate].
  destruct (write_uint raw a (e_w e1)) as [w|] eqn:Ew; cbn [bind] in E; [|discriminate].
  injection E as <-. destruct (next_value_cur _ _ _ En) as [Hcur Hw1].
  pose proof (write_uint_exact _ _ _ _ Ew) as (-> & Hr & Ha).
  exists (to_bits (Z.to_nat a) (Z.to_N raw)). split; [unfold g_out; cbn; rewrite Hw1; reflexivity|].
  intros tail. unfold d_with at 1.
  rewrite dec_numeric_law by (try lia; apply N2Z.inj_lt; rewrite pow_Z_N by lia; lia).
  eexists; split; [reflexivity|]. split; [reflexivity|].
  unfold dec_of_raw.
  replace ((Z.to_N raw =? 2 ^ Z.to_N a - 1)%N) with ((raw =? 2 ^ a - 1)%Z).
  2:{ assert (0 < 2 ^ a)%Z by (apply Z.pow_pos_nonneg; lia).
      assert (Z.of_N (2 ^ Z.to_N a) = 2 ^ a)%Z by (apply pow_Z_N; lia). lia. }
  apply (Rgd_push _ g d (with_w e1 _) tail HR). cbn. exact Hcur.
Qed.

Lemma ps_g_codeflag a b : psg (g_codeflag a b) (dec_codeflag a b).
Proof.
  intros g d g' HR E. unfold g_codeflag in E.
  destruct (Z.ltb_spec 64 a); [discriminate|].
  destruct (next_value (ge g)) as [[v e1]|] eqn:En; cbn [bind] in E; [|discriminate].
  destruct (match v with VNone => _ | VInt z => _ | VDyad m ex => _ | _ => _ end) as [raw|]; cbn [bind] in E; [|discriminate].
  destruct (write_uint raw a (e_w e1)) as [w|] eqn:Ew; cbn [bind] in E; [|discriminate].
  injection E as <-. destruct (next_value_cur _ _ _ En) as [Hcur Hw1].
  pose proof (write_uint_exact _ _ _ _ Ew) as (-> & Hr & Ha).
  exists (to_bits (Z.to_nat a) (Z.to_N raw)). split; [unfold g_out; cbn; rewrite Hw1; reflexivity|].
  intros tail. unfold d_with at 1.
  rewrite dec_codeflag_law by (try lia; apply N2Z.inj_lt; rewrite pow_Z_N by lia; lia).
  eexists; split; [reflexivity|]. split; [reflexivity|].
  unfold dec_of_raw_cf.
  replace ((Z.to_N raw =? 2 ^ Z.to_N a - 1)%N) with ((raw =? 2 ^ a - 1)%Z).
  2:{ assert (0 < 2 ^ a)%Z by (apply Z.pow_pos_nonneg; lia).
      assert (Z.of_N (2 ^ Z.to_N a) = 2 ^ a)%Z by (apply pow_Z_N; lia). lia. }
  rewrite Z2N.id by lia.
  apply (Rgd_push _ g d (with_w e1 _) tail HR). cbn. exact Hcur.
Qed.

Lemma ps_g_string a : psg (g_string a) (dec_string a).
Proof.
  intros g d g' HR E. unfold g_string in E.
  destruct (next_value (ge g)) as [[v e1]|] eqn:En; cbn [bind] in E; [|discriminate].
  destruct (match v with VNone => _ | VBytes b => _ | _ => _ end) as [b|]; cbn [bind] in E; [|discriminate].
  destruct (forallb is_byte b) eqn:Hb; cbn [negb] in E; [|discriminate].
  destruct (write_bytes b a (e_w e1)) as [w|] eqn:Ew; cbn [bind] in E; [|discriminate].
  injection E as <-. destruct (next_value_cur _ _ _ En) as [Hcur Hw1].
  destruct (read_write_bytes _ _ _ _ [] Hb Ew) as (e & -> & Hl & _).
  exists e. split; [unfold g_out; cbn; rewrite Hw1; reflexivity|].
  intros tail. unfold dec_string. cbn [d_with d_r].
  destruct (read_write_bytes _ _ _ _ tail Hb Ew) as (e' & He' & _ & Hrd).
  apply app_inv_head in He'. subst e'. rewrite Hrd. cbn [bind].
  eexists; split; [reflexivity|]. split; [reflexivity|].
  apply (Rgd_push _ g d (with_w e1 _) tail HR). cbn. exact Hcur.
Qed.

Lemma ps_g_constant a : psg (g_constant a) (dec_constant a).
Proof.
  intros g d g' HR E. unfold g_constant in E.
  destruct (next_value (ge g)) as [[v e1]|] eqn:En; cbn [bind] in E; [|discriminate].
  destruct (value_eq_int v a); [|discriminate]. injection E as <-.
  destruct (next_value_cur _ _ _ En) as [Hcur Hw1].
  exists []. split; [unfold g_out; cbn; rewrite Hw1, app_nil_r; reflexivity|].
  intros tail. unfold dec_constant. cbn [app d_with d_r].
  eexists; split; [reflexivity|]. split; [reflexivity|].
  apply (Rgd_push _ g d e1 tail HR). exact Hcur.
Qed.

Lemma ps_g_new_refval a g d z g' : Rgd g d -> g_new_refval a g = Ok (z, g') ->
  exists dl, g_out g' = g_out g ++ dl /\
  forall tail, exists d', dec_new_refval a (d_with d (dl ++ tail)) = Ok (z, d') /\ d_r d' = tail /\ Rgd g' d'.
Proof.
  intros HR E. unfold g_new_refval in E.
  destruct (next_value (ge g)) as [[v e1]|] eqn:En; cbn [bind] in E; [|discriminate].
  destruct v as [x| | | |]; try discriminate.
  destruct (write_int x a (e_w e1)) as [w|] eqn:Ew; cbn [bind] in E; [|discriminate].
  injection E as <- <-. destruct (next_value_cur _ _ _ En) as [Hcur Hw1].
  destruct (read_write_int _ _ _ _ [] Ew) as (e & -> & Hl & _).
  exists e. split; [unfold g_out; cbn; rewrite Hw1; reflexivity|].
  intros tail. unfold dec_new_refval. cbn [d_with d_r].
  destruct (read_write_int _ _ _ _ tail Ew) as (e' & He' & _ & Hrd).
  apply app_inv_head in He'. subst e'. rewrite Hrd. cbn [bind].
  eexists; split; [reflexivity|]. split; [reflexivity|].
  apply (Rgd_push _ g d (with_w e1 _) tail HR). cbn. exact Hcur.
Qed.

Lemma Rgd_cur g d : Rgd g d -> cur_vals d = gh_cur g.
Proof. intros (Hv & Hc & Hl). unfold cur_vals, gh_cur. rewrite Hv, Hc. reflexivity. Qed.

Theorem g_walk_dec :
  forall ms, psf (Rio2 Rgd) (io_out g_out) (io_inp d_r) (io_with d_with)
                 (walk_list (io_handlers g_prims) io_add_link ms)
                 (walk_list (io_handlers dec_prims) io_add_link ms).
Proof.
  apply (io_walk_ps g_prims dec_prims Rgd g_out d_r d_with d_inp_with d_with_inp Rgd_with);
    cbn [g_prims dec_prims p_numeric p_string p_codeflag p_constant p_new_refval p_factor p_bitmap].
  - exact ps_g_numeric.
  - exact ps_g_string.
  - exact ps_g_codeflag.
  - exact ps_g_constant.
  - exact ps_g_new_refval.
  - intros g d n HR E. unfold g_factor in E.
    destruct (enc_factor (ge g)) as [m|]; cbn [bind] in E; [|discriminate].
    destruct (last_factor (gh_cur g)) as [m'|] eqn:El; cbn [bind] in E; [|discriminate].
    destruct (N.eqb_spec m m'); [|discriminate]. injection E as <-. subst m'.
    unfold dec_factor. rewrite (Rgd_cur _ _ HR). exact El.
  - intros a g d bm HR E. unfold g_bitmap in E.
    destruct (enc_bitmap a (ge g)) as [m|]; cbn [bind] in E; [|discriminate].
    destruct (list_eq_dec _ _ _) as [Heq|]; [|discriminate]. injection E as <-.
    unfold dec_bitmap. rewrite (Rgd_cur _ _ HR). rewrite Heq. reflexivity.
Qed.

(* ---- an invariant by self-simulation: the number of subset lists never changes --- *)
Definition Rlen (N : nat) (d1 d2 : dstate) : Prop := d2 = d1 /\ length (d_vals d1) = N.

Lemma Rlen_append N v d r' : length (d_vals d) = N -> Rlen N (d_append v d r') (d_append v d r').
Proof. intros H. split; [reflexivity|]. unfold d_append. cbn. rewrite upd_nth_length. exact H. Qed.

Lemma dec_walk_len N :
  forall ms, simf (Rio (Rlen N)) (walk_list (io_handlers dec_prims) io_add_link ms)
                                  (walk_list (io_handlers dec_prims) io_add_link ms).
Proof.
  apply io_walk_sim; cbn [dec_prims p_numeric p_string p_codeflag p_constant p_new_refval p_factor p_bitmap];
    unfold simp, Rlen.
  - intros a b c c1 c2 c1' [-> Hl] E. rewrite E. eexists; split; [reflexivity|].
    unfold dec_numeric in E. destruct (read_uint_or_none a (d_r c1)) as [[v r']|]; cbn [bind] in E; [|discriminate].
    injection E as <-. apply Rlen_append. exact Hl.
  - intros a c1 c2 c1' [-> Hl] E. rewrite E. eexists; split; [reflexivity|].
    unfold dec_string in E. destruct (read_bytes a (d_r c1)) as [[v r']|]; cbn [bind] in E; [|discriminate].
    injection E as <-. apply Rlen_append. exact Hl.
  - intros a b c1 c2 c1' [-> Hl] E. rewrite E. eexists; split; [reflexivity|].
    unfold dec_codeflag in E. destruct (read_uint_or_none a (d_r c1)) as [[v r']|]; cbn [bind] in E; [|discriminate].
    injection E as <-. apply Rlen_append. exact Hl.
  - intros a c1 c2 c1' [-> Hl] E. rewrite E. eexists; split; [reflexivity|].
    unfold dec_constant in E. injection E as <-. apply Rlen_append. exact Hl.
  - intros a c1 c2 z c1' [-> Hl] E. rewrite E. eexists; split; [reflexivity|].
    unfold dec_new_refval in E. destruct (read_int a (d_r c1)) as [[v r']|]; cbn [bind] in E; [|discriminate].
    injection E as <- <-. apply Rlen_append. exact Hl.
  - intros c1 c2 n [-> _] E. exact E.
  - intros a c1 c2 bm [-> _] E. exact E.
Qed.

Lemma dec_template_len T (s s' : ws (io dstate)) :
  run_template dec_prims T s = Ok s' -> length (d_vals (io_c (w_c s'))) = length (d_vals (io_c (w_c s))).
Proof.
  intros E. unfold run_template in E.
  assert (HR : Rst (Rio (Rlen (length (d_vals (io_c (w_c s)))))) s s)
    by (split; [reflexivity|]; repeat split).
  destruct (dec_walk_len _ T _ _ _ HR E) as (s2 & _ & _ & _ & _ & _ & Hl). exact Hl.
Qed.

(* ---- the loop over subsets, producer/consumer --------------------------------- *)
Definition Rgd0 (g : gstate) (d : dstate) : Prop := d_vals d = gh g.

Lemma run_subsets_ps T : forall n i g d acc outs g',
  Rgd0 g d -> (i + n <= length (d_vals d))%nat ->
  run_subsets g_prims T g_switch i n g acc = Ok (outs, g') ->
  exists dl, g_out g' = g_out g ++ dl /\
  forall tail, exists d', run_subsets dec_prims T dec_switch i n (d_with d (dl ++ tail)) acc = Ok (outs, d')
                          /\ d_r d' = tail /\ Rgd0 g' d'.
Proof.
  induction n as [|n IH]; intros i g d acc outs g' HR Hlen E; cbn [run_subsets] in *.
  - injection E as <- <-. exists []. split; [rewrite app_nil_r; reflexivity|].
    intros tail. eexists; split; [reflexivity|]. split; [reflexivity|exact HR].
  - unfold run_template in E.
    destruct (walk_list (io_handlers g_prims) io_add_link T _) as [s1|] eqn:E1; cbn [bind] in E; [|discriminate].
    assert (HR0 : Rst (Rio2 Rgd) (mkWs regs0 (mkIo [] [] (g_switch i g))) (mkWs regs0 (mkIo [] [] (dec_switch i d)))).
    { split; cbn; [reflexivity|]. repeat split; cbn; [exact HR|lia]. }
    destruct (g_walk_dec T _ _ _ HR0 E1) as (d1 & Ho1 & K1).
    destruct (K1 []) as (sd0 & Ed0 & _ & (_ & _ & _ & HRg0)).
    assert (Hlen1 : (S i + n <= length (d_vals (io_c (w_c sd0))))%nat).
    { rewrite (dec_template_len T _ _ Ed0). cbn. lia. }
    assert (HRs1 : Rgd0 (io_c (w_c s1)) (io_c (w_c sd0))) by (destruct HRg0 as (Hv & _); exact Hv).
    destruct (IH (S i) _ _ _ _ _ HRs1 Hlen1 E) as (d2 & Ho2 & K2).
    exists (d1 ++ d2). split.
    { rewrite Ho2. unfold io_out in Ho1. cbn in Ho1. rewrite Ho1, app_assoc. reflexivity. }
    intros tail. destruct (K1 (d2 ++ tail)) as (sd & Ed & Hin & (Hr & Hdd & Hl & HRg)).
    unfold run_template. unfold withw, io_with in Ed. cbn [w_r w_c io_dd io_links io_c] in Ed.
    change (dec_switch i (d_with d ((d1 ++ d2) ++ tail))) with (d_with (dec_switch i d) ((d1 ++ d2) ++ tail)).
    rewrite <- app_assoc. rewrite Ed. cbn [bind].
    assert (HRs : Rgd0 (io_c (w_c s1)) (io_c (w_c sd))) by (destruct HRg as (Hv & _); exact Hv).
    assert (Hlen2 : (S i + n <= length (d_vals (io_c (w_c sd))))%nat).
    { rewrite (dec_template_len T _ _ Ed). cbn. lia. }
    destruct (IH (S i) _ (io_c (w_c sd)) (acc ++ [mkSubsetOut (io_dd (w_c s1)) (io_links (w_c s1))]) _ _ HRs Hlen2 E)
      as (d2' & Ho2' & K2').
    assert (d2' = d2) by (rewrite Ho2 in Ho2'; apply app_inv_head in Ho2'; auto). subst d2'.
    destruct (K2' tail) as (d' & Ed' & Hi' & HR').
    exists d'. rewrite <- Hdd, <- Hl.
    unfold io_inp in Hin. rewrite <- Hin in Ed'. rewrite d_with_inp in Ed'. auto.
Qed.

(* C03 / C01: the decoder inverts the encoder.  Whenever the ghost encoder accepts
   the values, decoding the bits it wrote — followed by ANY further bits t — gives
   the same descriptors and links, exactly the ghost values, and leaves exactly t. *)
Theorem decode_encode T vals outs w g t :
  encode_ghost T vals = Ok (outs, w, g) ->
  decode_uncompressed T (length vals) (w ++ t) = Ok (outs, g, t).
Proof.
  unfold encode_ghost, decode_uncompressed. intros E.
  destruct (run_subsets g_prims T g_switch 0 (length vals) _ []) as [[o gs]|] eqn:E1; cbn [bind] in E; [|discriminate].
  injection E as <- <- <-.
  assert (HR : Rgd0 (mkGE (mkE [] vals 0 0) (repeat [] (length vals))) (mkD [] (repeat [] (length vals)) 0))
    by reflexivity.
  destruct (run_subsets_ps T (length vals) 0 _ _ [] _ _ HR ltac:(cbn; rewrite repeat_length; lia) E1)
    as (dl & Ho & K).
  destruct (K t) as (d' & Ed & Hi & HR').
  unfold g_out in Ho. cbn in Ho. rewrite Ho. unfold d_with in Ed. cbn in Ed. rewrite Ed. cbn [bind].
  rewrite Hi, HR'. reflexivity.
Qed.

(* No proper prefix of the data bits of an encoded message decodes successfully (C12). *)
Corollary decode_prefix_fails T vals outs w g w' x :
  encode_ghost T vals = Ok (outs, w, g) -> w = w' ++ x -> x <> [] ->
  forall r, decode_uncompressed T (length vals) w' <> Ok r.
Proof.
  intros E -> Hx [[o v] rest] Ed.
  pose proof (decode_suffix_independent _ _ _ x _ _ _ Ed) as E1.
  pose proof (decode_encode _ _ _ _ _ [] E) as E2. rewrite app_nil_r in E2.
  rewrite E1 in E2. injection E2 as _ _ Hr.
  apply app_eq_nil in Hr as [_ Hx']. contradiction.
Qed.

(* and the encoder's own bits decode (no trailing bits needed) *)
Corollary decode_encode_exact T vals outs w g :
  encode_ghost T vals = Ok (outs, w, g) ->
  decode_uncompressed T (length vals) w = Ok (outs, g, []).
Proof. intros E. rewrite <- (app_nil_r w) at 1. apply decode_encode. exact E. Qed.

(* what the ghost of a numeric value is: the quantised value, or missing exactly
   for the all-ones pattern of a field wider than one bit *)
Lemma dec_of_raw_spec nbits raw scale refval :
  dec_of_raw nbits raw scale refval =
  if (1 <? nbits)%Z && (raw =? 2 ^ nbits - 1)%Z then VNone
  else if (scale =? 0)%Z then VInt (Z.of_N (Z.to_N raw) + refval) else VDec (Z.of_N (Z.to_N raw) + refval) scale.
Proof. reflexivity. Qed.
