(* Gen.v — NOT a model of pybufrkit: the generator used by the correspondence
   checks.  An instance of the walker's handlers that, walking a template, draws
   a conforming value for every field from a pseudo-random stream, so that the
   generated value lists have the right length for the replication counts and
   bitmaps drawn.  For compressed data every further subset is generated against
   the first one: replication factors, bitmap bits and new reference values are
   copied, everything else is drawn afresh. *)
From PBK Require Import Base Bits Descr Walk Coder Decode.

Record gstate := mkG {
  g_seed : N;
  g_vals : list value;             (* values drawn so far for this subset *)
  g_ref : option (list value);     (* the first subset's values when generating a further one *)
  g_maxrep : N;                    (* bound for replication factors *)
  g_forced : list (N * list N)     (* per class-31 descriptor id: raw values to use, in order *)
}.

Fixpoint pop_forced_aux (id : N) (l : list (N * list N)) : option (N * list (N * list N)) :=
  match l with
  | [] => None
  | (k, q) :: r =>
      if (k =? id)%N then
        match q with
        | [] => None
        | x :: q' => Some (x, (k, q') :: r)
        end
      else match pop_forced_aux id r with
           | None => None
           | Some (x, r') => Some (x, (k, q) :: r')
           end
  end.

Definition lcg (x : N) : N := ((x * 6364136223846793005 + 1442695040888963407) mod 18446744073709551616)%N.
Definition draw (g : gstate) : N * gstate :=
  let x := lcg (g_seed g) in ((x / 4294967296)%N, mkG x (g_vals g) (g_ref g) (g_maxrep g) (g_forced g)).
Definition g_push (v : value) (g : gstate) : gstate :=
  mkG (g_seed g) (g_vals g ++ [v]) (g_ref g) (g_maxrep g) (g_forced g).

(* a raw value for an nbits-wide field: boundary values boosted *)
Definition draw_raw (nbits : Z) (allow_missing : bool) (g : gstate) : option N * gstate :=
  let '(k, g1) := draw g in
  let '(x, g2) := draw g1 in
  let '(y, g3) := draw g2 in
  let top := (2 ^ Z.to_N nbits)%N in
  let sel := (k mod 16)%N in
  if (nbits <=? 1)%Z then (Some (x mod 2)%N, g3) else
  if (sel =? 0)%N then (Some 0%N, g3)
  else if (sel =? 1)%N then (Some 1%N, g3)
  else if (sel =? 2)%N then (Some (top - 2)%N, g3)
  else if (sel =? 3)%N then (if allow_missing then None else Some (top - 2)%N, g3)
  else if (sel =? 4)%N then (Some (top / 2)%N, g3)
  else if (sel <? 8)%N then (Some (x mod N.min (top - 1) 16)%N, g3)
  else (Some ((x * 4294967296 + y) mod (top - 1))%N, g3).

Definition copy_or (g : gstate) (k : gstate -> value * gstate) : value * gstate :=
  match g_ref g with
  | Some l => match nth_error l (length (g_vals g)) with
              | Some v => (v, g)
              | None => k g
              end
  | None => k g
  end.

Definition gen_numeric_plain (nbits scale refval : Z) (g : gstate) : result gstate :=
  if (nbits <=? 0)%Z then Err EValue else
  let '(raw, g1) := draw_raw nbits true g in
  Ok (g_push (match raw with None => VNone | Some r => numeric_value r scale refval end) g1).

(* class 31: replication factors and bitmap bits are kept small / copied *)
Definition gen_numeric_c31 (id : N) (nbits scale refval : Z) (g : gstate) : result gstate :=
  if (nbits <=? 0)%Z then Err EValue else
  let '(v, g1) := copy_or g (fun g =>
      match pop_forced_aux id (g_forced g) with
      | Some (x, f') =>
          (numeric_value x scale refval, mkG (g_seed g) (g_vals g) (g_ref g) (g_maxrep g) f')
      | None =>
          let '(x, g1) := draw g in
          let top := (2 ^ Z.to_N nbits)%N in
          let r := (if (nbits <=? 1)%Z then x mod 2 else x mod (N.min (top - 1) (g_maxrep g + 1)))%N in
          (numeric_value r scale refval, g1)
      end) in
  Ok (g_push v g1).

Definition gen_string (nbytes : Z) (g : gstate) : result gstate :=
  if (nbytes <? 0)%Z then Err EValue else
  let '(k, g1) := draw g in
  if (k mod 8 =? 0)%N then Ok (g_push VNone g1) else
  let n := Z.to_nat nbytes in
  let fix go (n : nat) (g : gstate) (acc : list byte) : list byte * gstate :=
      match n with
      | O => (acc, g)
      | S m => let '(x, g') := draw g in go m g' (acc ++ [(32 + x mod 95)%N])
      end in
  let '(b, g2) := go n g1 [] in
  Ok (g_push (VBytes b) g2).

Definition gen_codeflag (nbits dnbits : Z) (g : gstate) : result gstate :=
  if (nbits <=? 0)%Z then Err EValue else
  let '(raw, g1) := draw_raw nbits true g in
  Ok (g_push (match raw with None => VNone | Some r => VInt (Z.of_N r) end) g1).

Definition gen_new_refval (nbits : Z) (g : gstate) : result (Z * gstate) :=
  if (nbits <=? 1)%Z then Err EValue else
  let '(v, g1) := copy_or g (fun g =>
      let '(x, g1) := draw g in
      let '(s, g2) := draw g1 in
      let m := (x mod (2 ^ Z.to_N (nbits - 1)))%N in
      (VInt (if (s mod 2 =? 0)%N then Z.of_N m else - Z.of_N m)%Z, g2)) in
  match v with
  | VInt z => Ok (z, g_push v g1)
  | _ => Err EOther
  end.

Definition gen_constant (z : Z) (g : gstate) : result gstate := Ok (g_push (VInt z) g).

Definition gen_factor (g : gstate) : result N :=
  match rev (g_vals g) with [] => Err EIndex | v :: _ => factor_of_value v end.

Definition gen_bitmap (n : Z) (g : gstate) : result (list bool) :=
  Ok (map value_is_zero (skipn (length (g_vals g) - Z.to_nat n) (g_vals g))).

Definition gen_prims : prims gstate :=
  mkPrims gstate gen_numeric_plain gen_string gen_codeflag gen_new_refval gen_constant gen_factor gen_bitmap.

(* like io_handlers gen_prims, but class 31 numeric fields use gen_numeric_c31 *)
Definition gen_handlers : handlers (io gstate) :=
  let H := io_handlers gen_prims in
  mkHandlers (io gstate)
    (fun dd nbits scale refval =>
       if (desc_X (dd_id dd) =? 31)%N
       then lift dd (gen_numeric_c31 (dd_id dd) nbits scale refval)
       else h_numeric H dd nbits scale refval)
    (h_numeric_new_refval H) (h_string H)
    (fun dd nbits dnbits =>
       match dd with
       | DDElem e => if (desc_X (e_id e) =? 31)%N
                     then lift dd (gen_numeric_c31 (e_id e) nbits 0 0)
                     else h_codeflag H dd nbits dnbits
       | _ => h_codeflag H dd nbits dnbits
       end)
    (h_new_refval H) (h_constant H)
    (h_define_bitmap H) (h_mark_boundary H) (h_recall_bitmap H) (h_cancel_bitmap H)
    (h_cancel_backrefs H) (h_add_bitmap_link H) (h_bitmap_def_wrap H) (h_fixed H) (h_delayed H)
    (h_bitmapped H).

Definition gen_subset (T : descs) (seed : N) (maxrep : N) (forced : list (N * list N))
    (ref : option (list value)) : result (list value * N) :=
  let* s := walk_list gen_handlers io_add_link T
              (mkWs regs0 (mkIo [] [] (mkG seed [] ref maxrep forced))) in
  Ok (g_vals (io_c (w_c s)), g_seed (io_c (w_c s))).

(* n subsets; [shared] = true makes factors/bitmaps/refvals equal across subsets *)
Fixpoint gen_subsets (T : descs) (seed maxrep : N) (forced : list (N * list N)) (shared : bool) (n : nat)
    (first : option (list value)) : result (list (list value)) :=
  match n with
  | O => Ok []
  | S k =>
      let* (vs, seed') := gen_subset T seed maxrep forced (if shared then first else None) in
      let* rest := gen_subsets T seed' maxrep forced shared k (match first with None => Some vs | f => f end) in
      Ok (vs :: rest)
  end.
