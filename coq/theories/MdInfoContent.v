(* MdInfoContent.v — C17 info_does_not_interpret_data at message level: the
   metadata-only decode of a message does not depend on the content bits of its
   data section (anything after the 4-octet header of section 4). *)
From PBK Require Import Base Bits BitsProofs Frame FrameProofs MdQuery MdQueryProofs.
From Coq Require Import ZifyBool ZifyNat ZifyN.

(* "replace the rest": a successful read determines its result from the bits it
   consumed alone *)
Lemma take_bits_replace n r b r' : take_bits n r = Ok (b, r') ->
  r = b ++ r' /\ forall y, take_bits n (b ++ y) = Ok (b, y).
Proof.
  intros H. apply take_bits_ok in H as [-> L]. split; [reflexivity|]. intros y. rewrite <- L. apply take_bits_app.
Qed.

Lemma read_uint_replace w r v r' : read_uint w r = Ok (v, r') ->
  exists e, r = e ++ r' /\ forall y, read_uint w (e ++ y) = Ok (v, y).
Proof.
  unfold read_uint. destruct (w <=? 0)%Z; [discriminate|]. intros H.
  apply bind_ok in H as ([b r1] & Ht & H). injection H as <- <-.
  apply take_bits_replace in Ht as [-> G]. exists b. split; [reflexivity|]. intros y. rewrite G. reflexivity.
Qed.

Lemma read_typed_replace t n r v r' : read_typed t n r = Ok (v, r') ->
  exists e, r = e ++ r' /\ forall y, read_typed t n (e ++ y) = Ok (v, y).
Proof.
  unfold read_typed. destruct t; try discriminate; intros H.
  - apply bind_ok in H as ([x r1] & H1 & H). injection H as <- <-.
    apply read_uint_replace in H1 as (e & -> & G). exists e. split; [reflexivity|]. intros y. rewrite G. reflexivity.
  - apply bind_ok in H as ([x r1] & H1 & H). injection H as <- <-.
    unfold read_bytes in *. destruct (n / 8 <? 0)%Z; [discriminate|].
    apply bind_ok in H1 as ([b r2] & Ht & H1). injection H1 as <- <-.
    apply take_bits_replace in Ht as [-> G]. exists b. split; [reflexivity|]. intros y. rewrite G. reflexivity.
  - apply bind_ok in H as ([x r1] & H1 & H). injection H as <- <-.
    unfold read_bin in *. destruct (n <? 0)%Z; [discriminate|].
    apply take_bits_replace in H1 as [-> G]. exists x. split; [reflexivity|]. intros y. rewrite G. reflexivity.
  - apply bind_ok in H as ([x r1] & H1 & H). injection H as <- <-.
    destruct r as [|b r]; [discriminate|]. injection H1 as <- <-. exists [b]. split; [reflexivity|]. reflexivity.
Qed.

Lemma read_desc1_replace acc0 r0 acc r : read_desc1 (Ok (acc0, r0)) = Ok (acc, r) ->
  exists e, r0 = e ++ r /\ forall y, read_desc1 (Ok (acc0, e ++ y)) = Ok (acc, y).
Proof.
  unfold read_desc1. cbn [bind]. intros H.
  apply bind_ok in H as ([f r1] & H1 & H). apply bind_ok in H as ([x r2] & H2 & H).
  apply bind_ok in H as ([z r3] & H3 & H). injection H as <- <-.
  apply read_uint_replace in H1 as (e1 & -> & G1). apply read_uint_replace in H2 as (e2 & -> & G2).
  apply read_uint_replace in H3 as (e3 & -> & G3).
  exists (e1 ++ e2 ++ e3). rewrite <- !app_assoc. split; [reflexivity|].
  intros y. cbn [bind]. rewrite <- !app_assoc. rewrite G1. cbn [bind]. rewrite G2. cbn [bind]. rewrite G3. reflexivity.
Qed.

Lemma iter_read_desc1_replace n : forall acc0 r0 acc r,
  N.iter n read_desc1 (Ok (acc0, r0)) = Ok (acc, r) ->
  exists e, r0 = e ++ r /\ forall y, N.iter n read_desc1 (Ok (acc0, e ++ y)) = Ok (acc, y).
Proof.
  induction n as [|n IH] using N.peano_ind; intros acc0 r0 acc r.
  - cbn. intros E; injection E as <- <-. exists []. split; reflexivity.
  - rewrite N.iter_succ. intros H.
    destruct (N.iter n read_desc1 (Ok (acc0, r0))) as [[acc1 r1]|err] eqn:E1; [|discriminate].
    apply read_desc1_replace in H as (e2 & -> & G2).
    destruct (IH _ _ _ _ E1) as (e1 & -> & G1).
    exists (e1 ++ e2). rewrite <- app_assoc. split; [reflexivity|].
    intros y. rewrite N.iter_succ, <- app_assoc, G1. apply G2.
Qed.

Lemma read_descs_replace n r ids r' : read_descs n r = Ok (ids, r') ->
  exists e, r = e ++ r' /\ forall y, read_descs n (e ++ y) = Ok (ids, y).
Proof.
  unfold read_descs. intros H. apply bind_ok in H as ([acc r1] & H1 & H). injection H as <- <-.
  apply iter_read_desc1_replace in H1 as (e & -> & G). exists e. split; [reflexivity|].
  intros y. rewrite G. reflexivity.
Qed.

Section Replace.
Variable dd : list (pname * pvalue) -> reader -> result (bits * reader).

(* parameters without template data: [k] bits of the section were read before *)
Lemma decode_params_replace all ps : no_data ps = true -> forall k env props r env' props' r',
  decode_params dd all ps (k + length r) env props r = Ok (env', props', r') ->
  exists e, r = e ++ r' /\
    forall y, decode_params dd all ps (k + length (e ++ y)) env props (e ++ y) = Ok (env', props', y).
Proof.
  induction ps as [|p ps IH]; intros Hn k env props r env' props' r'; cbn [decode_params].
  - intros E; injection E as <- <- <-. exists []. split; reflexivity.
  - unfold no_data in Hn. cbn [forallb] in Hn. apply andb_true_iff in Hn as [Hp Hn]. unfold is_data in Hp.
    intros H. apply bind_ok in H as ([v r1] & Hv & H). apply bind_ok in H as (u & Hc & H).
    replace (k + length r - length r)%nat with k in Hv by lia.
    assert (Hv' : exists e1, r = e1 ++ r1 /\ forall y,
      match p_type p with
      | TDescs =>
          let* sl := declared_length all env in
          let* (ids, r'0) := read_descs ((sl - Z.of_nat k / 8) / 2) (e1 ++ y) in Ok (PDescs ids, r'0)
      | TData => let* (b, r'0) := dd props (e1 ++ y) in Ok (PData b, r'0)
      | t => if (p_nbits p =? 0)%Z
             then let* sl := declared_length all env in read_typed t (sl * 8 - Z.of_nat k) (e1 ++ y)
             else read_typed t (p_nbits p) (e1 ++ y)
      end = Ok (v, y)).
    { assert (Hgen : forall t, (if (p_nbits p =? 0)%Z
               then let* sl := declared_length all env in read_typed t (sl * 8 - Z.of_nat k) r
               else read_typed t (p_nbits p) r) = Ok (v, r1) ->
              exists e1, r = e1 ++ r1 /\ forall y,
              (if (p_nbits p =? 0)%Z
               then let* sl := declared_length all env in read_typed t (sl * 8 - Z.of_nat k) (e1 ++ y)
               else read_typed t (p_nbits p) (e1 ++ y)) = Ok (v, y)).
      { intros t Ht. destruct (p_nbits p =? 0)%Z.
        - apply bind_ok in Ht as (sl & Hsl & Ht). apply read_typed_replace in Ht as (e1 & -> & G).
          exists e1. split; [reflexivity|]. intros y. rewrite Hsl. cbn [bind]. apply G.
        - apply read_typed_replace in Ht as (e1 & -> & G). exists e1. split; [reflexivity|]. exact G. }
      destruct (p_type p); try discriminate; try (apply Hgen; exact Hv).
      apply bind_ok in Hv as (sl & Hsl & Hv). apply bind_ok in Hv as ([ids r2] & Hd & Hv).
      injection Hv as <- <-. apply read_descs_replace in Hd as (e1 & -> & G).
      exists e1. split; [reflexivity|]. intros y. rewrite Hsl. cbn [bind]. rewrite G. reflexivity. }
    destruct Hv' as (e1 & -> & Gv).
    replace (k + length (e1 ++ r1))%nat with ((k + length e1) + length r1)%nat in H by (rewrite app_length; lia).
    apply IH in H as (e2 & -> & G2); [|exact Hn].
    exists (e1 ++ e2). rewrite <- app_assoc. split; [reflexivity|].
    intros y. replace (k + length ((e1 ++ e2) ++ y) - length ((e1 ++ e2) ++ y))%nat with k by lia.
    rewrite <- app_assoc. cbv zeta in Gv |- *. rewrite Gv. cbn [bind]. rewrite Hc. cbn [bind].
    replace (k + length (e1 ++ e2 ++ y))%nat with ((k + length e1) + length (e2 ++ y))%nat by (rewrite !app_length; lia).
    apply G2.
Qed.

Lemma decode_section_replace c props r sec props' r' : no_data (s_params c) = true ->
  decode_section dd c props r = Ok (sec, props', r') ->
  exists e, r = e ++ r' /\ sec_nbits sec = length e /\
    forall y, decode_section dd c props (e ++ y) = Ok (sec, props', y).
Proof.
  intros Hn. unfold decode_section. intros H.
  apply bind_ok in H as ([[env props1] r1] & Hp & H).
  apply (decode_params_replace _ _ Hn 0%nat) in Hp as (e1 & -> & G).
  apply bind_ok in H as (r2 & H2 & H). apply ok_inj in H. injection H as <- <- <-.
  assert (Hc : forall x, Z.of_nat (length (e1 ++ x) - length x) = Z.of_nat (length e1)) by (intros x; rewrite app_length; lia).
  assert (Hrec : forall (a b : nat) i ps v (p : list (pname * pvalue)) (x : reader), a = b ->
            @Ok (section * list (pname * pvalue) * reader) (mkSec i ps a v, p, x) = Ok (mkSec i ps b v, p, x))
    by (intros; subst; reflexivity).
  destruct (has_param Nsection_length (s_params c)).
  - apply bind_ok in H2 as (sl & Hsl & H2). rewrite Hc in H2.
    destruct (Z.ltb_spec 0 (sl * 8 - Z.of_nat (length e1))).
    + apply bind_ok in H2 as ([b r3] & Hrb & H2). apply ok_inj in H2. subst r3.
      unfold read_bin in Hrb. destruct (Z.ltb_spec (sl * 8 - Z.of_nat (length e1)) 0); [lia|].
      apply take_bits_replace in Hrb as [-> Gb].
      exists (e1 ++ b). rewrite <- app_assoc. split; [reflexivity|]. cbn [sec_nbits].
      split; [rewrite !app_length; lia|].
      intros y. rewrite <- app_assoc. specialize (G (b ++ y)). cbn [Nat.add] in G. rewrite G. cbn [bind]. rewrite Hsl. cbn [bind].
      rewrite Hc. destruct (Z.ltb_spec 0 (sl * 8 - Z.of_nat (length e1))); [|lia].
      unfold read_bin. destruct (Z.ltb_spec (sl * 8 - Z.of_nat (length e1)) 0); [lia|].
      rewrite Gb. cbn [bind]. apply Hrec. rewrite !app_length. lia.
    + destruct (Z.ltb_spec (sl * 8 - Z.of_nat (length e1)) 0); [discriminate|]. apply ok_inj in H2. subst r2.
      exists e1. split; [reflexivity|]. cbn [sec_nbits]. split; [rewrite app_length; lia|].
      intros y. specialize (G y). cbn [Nat.add] in G. rewrite G. cbn [bind]. rewrite Hsl. cbn [bind]. rewrite Hc.
      destruct (Z.ltb_spec 0 (sl * 8 - Z.of_nat (length e1))); [lia|].
      destruct (Z.ltb_spec (sl * 8 - Z.of_nat (length e1)) 0); [lia|]. cbn [bind]. apply Hrec. rewrite !app_length. lia.
  - apply ok_inj in H2. subst r2. exists e1. split; [reflexivity|]. cbn [sec_nbits]. split; [rewrite app_length; lia|].
    intros y. specialize (G y). cbn [Nat.add] in G. rewrite G. cbn [bind]. apply Hrec. rewrite !app_length. lia.
Qed.

Lemma run_replace ign l : forall props secs r ended secs1 props1 r1,
  run dd true ign l props secs r = Ok (ended, secs1, props1, r1) ->
  exists e new, r = e ++ r1 /\ secs1 = secs ++ new /\ length e = sections_nbits new /\
    forall y, run dd true ign l props secs (e ++ y) = Ok (ended, secs1, props1, y).
Proof.
  induction l as [|i l IH]; intros props secs r ended secs1 props1 r1; cbn [run].
  - intros E; injection E as <- <- <- <-. exists [], []. rewrite app_nil_r. repeat split.
  - intros H. apply bind_ok in H as (oc & Hc & H). rewrite Hc. cbn [bind]. destruct oc as [c|].
    + apply bind_ok in H as ([[sec props2] r2] & Hs & H).
      apply decode_section_replace in Hs as (e1 & -> & Hn1 & G1); [|eapply configure_info_no_data; exact Hc].
      destruct (s_end c).
      * injection H as <- <- <- <-. exists e1, [sec]. split; [reflexivity|]. split; [reflexivity|].
        cbn [sections_nbits]. split; [lia|]. intros y. rewrite G1. reflexivity.
      * apply IH in H as (e2 & new & -> & -> & L2 & G2).
        exists (e1 ++ e2), (sec :: new). rewrite <- !app_assoc. split; [reflexivity|]. split; [reflexivity|].
        cbn [sections_nbits]. rewrite app_length. split; [lia|].
        intros y. rewrite <- (app_assoc e1 e2 y). rewrite G1. cbn [bind]. rewrite G2, <- app_assoc. reflexivity.
    + apply IH in H as (e2 & new & -> & -> & L2 & G2). exists e2, new. auto.
Qed.

End Replace.

Section Content.
Variable dd : list (pname * pvalue) -> reader -> result (bits * reader).

Lemma decode_section_index c props r sec props' r' :
  decode_section dd c props r = Ok (sec, props', r') -> sec_index sec = s_index c.
Proof.
  unfold decode_section. intros H. apply bind_ok in H as ([[env p1] r1] & _ & H).
  apply bind_ok in H as (r2 & _ & H). apply ok_inj in H. injection H as <- _ _. reflexivity.
Qed.

Lemma run_info_indices info ign l : Forall (fun i => i <> 4%N /\ i <> 5%N) l ->
  forall props secs r ended secs1 props1 r1,
  run dd info ign l props secs r = Ok (ended, secs1, props1, r1) ->
  ended = false /\ exists new, secs1 = secs ++ new /\ Forall (fun s => In (sec_index s) l) new.
Proof.
  induction 1 as [|i l [Hi4 Hi5] Hl IH]; intros props secs r ended secs1 props1 r1; cbn [run].
  - intros E; injection E as <- <- <- <-. split; [reflexivity|]. exists []. rewrite app_nil_r. auto.
  - intros H. apply bind_ok in H as (oc & Hc & H). destruct oc as [c|].
    + apply bind_ok in H as ([[sec props2] r2] & Hs & H).
      destruct (configure_index _ _ _ _ _ Hc) as (Hci & c0 & Hin0 & Hi0 & ->).
      rewrite (s_end_transform info ign c0 Hin0) in H by congruence.
      pose proof (decode_section_index _ _ _ _ _ _ Hs) as Hidx.
      apply IH in H as (-> & new & -> & Hall). split; [reflexivity|].
      exists (sec :: new). rewrite <- app_assoc. split; [reflexivity|].
      constructor; [left; rewrite Hidx, Hci; reflexivity|]. eapply Forall_impl; [|exact Hall]. intros x Hx. right. exact Hx.
    + apply IH in H as (-> & new & -> & Hall). split; [reflexivity|]. exists new. split; [reflexivity|].
      eapply Forall_impl; [|exact Hall]. intros x Hx. right. exact Hx.
Qed.

Lemma split_info ign props secs r :
  decode_sections dd definitions true ign section_indices props secs r =
  let* (ended, secs1, props1, r1) := run dd true ign [0;1;2;3]%N props secs r in
  if (ended : bool) then Ok (secs1, props1, r1)
  else let* (sec, props2, r2) := decode_section dd info4 props1 r1 in Ok (secs1 ++ [sec], props2, r2).
Proof.
  change section_indices with ([0;1;2;3]%N ++ [4;5;6]%N). rewrite decode_sections_split.
  destruct (run dd true ign [0;1;2;3]%N props secs r) as [[[[ended secs1] props1] r1]|e]; cbn [bind]; [|reflexivity].
  destruct ended; [reflexivity|]. rewrite decode_sections_cons, configure_4. cbn [bind]. rewrite transform_info4.
  change (s_end info4) with true. reflexivity.
Qed.

Lemma filter_lt4_all l new : Forall (fun s => In (sec_index s) l) new -> Forall (fun i => (i < 4)%N) l ->
  filter lt4 new = new.
Proof.
  intros H Hl. induction H as [|s new Hs Hn IH]; [reflexivity|]. cbn [filter]. unfold lt4 at 1.
  rewrite Forall_forall in Hl. specialize (Hl _ Hs). destruct (N.ltb_spec (sec_index s) 4); [|lia]. rewrite IH. reflexivity.
Qed.

(* C17 info_does_not_interpret_data (message level): replace any bytes lying
   after the 4-octet header of section 4 by other bytes of the same number —
   the metadata-only decode returns the same sections and attributes *)
Theorem info_independent_of_data_content : forall sig ign a c c' z m idx,
  length c = length c' ->
  decode_message dd sig true ign (a ++ c ++ z) = Ok m ->
  match sig with Some g => find_sig g a = Some idx | None => idx = 0%nat end ->
  (sections_nbits (filter lt4 (m_sections m)) + 32 <= 8 * (length a - idx))%nat ->
  exists m', decode_message dd sig true ign (a ++ c' ++ z) = Ok m' /\
             m_sections m' = m_sections m /\ m_props m' = m_props m.
Proof.
  intros sig ign a c c' z m idx Lc H Hsig Hpos. unfold decode_message, decode_message_with in *.
  assert (Hidx : forall x, match sig with
                           | Some g => match find_sig g (a ++ x) with Some i => Ok i | None => Err ELib end
                           | None => Ok 0%nat end = Ok idx).
  { intros x. destruct sig as [g|]; [|subst idx; reflexivity]. rewrite (find_sig_app _ _ _ x Hsig). reflexivity. }
  assert (Hle : (idx <= length a)%nat).
  { destruct sig as [g|]; [|subst idx; lia]. apply find_sig_length in Hsig. lia. }
  rewrite Hidx in H |- *. cbn [bind] in H |- *.
  assert (Hskip : forall x, skipn idx (a ++ x) = skipn idx a ++ x).
  { intros x. rewrite skipn_app. replace (idx - length a)%nat with 0%nat by lia. reflexivity. }
  rewrite Hskip in H |- *. set (a1 := skipn idx a) in *.
  assert (La1 : length a1 = (length a - idx)%nat) by (unfold a1; apply skipn_length).
  rewrite !bits_of_bytes_app in H |- *.
  set (A := bits_of_bytes a1) in *. set (C := bits_of_bytes c) in *. set (C' := bits_of_bytes c') in *.
  set (Z := bits_of_bytes z) in *.
  assert (LA : length A = (8 * length a1)%nat) by apply length_bits_of_bytes.
  assert (LC : length C = length C') by (unfold C, C'; rewrite !length_bits_of_bytes; lia).
  apply bind_ok in H as ([[secs props] r'] & Hs & H). apply ok_inj in H. subst m. cbn [m_sections m_props] in *.
  rewrite split_info in Hs |- *.
  destruct (run dd true ign [0;1;2;3]%N [] [] (A ++ C ++ Z)) as [[[[ended secs1] props1] r1]|e] eqn:Erun; [|discriminate].
  assert (H0123 : Forall (fun i => i <> 4%N /\ i <> 5%N) [0;1;2;3]%N) by (repeat constructor; discriminate).
  destruct (run_info_indices true ign _ H0123 _ _ _ _ _ _ _ Erun) as (-> & new0 & E0 & Hnew0). cbn [app] in E0. subst secs1.
  destruct (run_replace dd ign _ _ _ _ _ _ _ _ Erun) as (e03 & new & Er & Enew & Le03 & Grun). cbn [app] in Enew. subst new.
  cbn [bind] in Hs. apply bind_ok in Hs as ([[sec4 props2] r2] & H4 & Hs). injection Hs as <- <- <-.
  pose proof (decode_section_index _ _ _ _ _ _ H4) as Hi4. change (s_index info4) with 4%N in Hi4.
  assert (Hfilt : filter lt4 (new0 ++ [sec4]) = new0).
  { rewrite filter_app. cbn [filter]. unfold lt4 at 2. rewrite Hi4. change (4 <? 4)%N with false. cbv iota.
    rewrite app_nil_r. apply (filter_lt4_all [0;1;2;3]%N); [exact Hnew0|]. repeat constructor; lia. }
  rewrite Hfilt, <- Le03 in Hpos.
  (* the stream: A = e03 ++ h ++ g *)
  assert (Hr1 : r1 = skipn (length e03) A ++ C ++ Z).
  { apply (f_equal (skipn (length e03))) in Er. rewrite (skipn_app_exact (length e03) e03 r1 eq_refl) in Er.
    rewrite skipn_app in Er. replace (length e03 - length A)%nat with 0%nat in Er by lia. cbn [skipn] in Er. symmetry. exact Er. }
  assert (He03 : e03 = firstn (length e03) A).
  { apply (f_equal (firstn (length e03))) in Er. rewrite (firstn_app_exact (length e03) e03 r1 eq_refl) in Er.
    rewrite firstn_app in Er. replace (length e03 - length A)%nat with 0%nat in Er by lia.
    cbn [firstn] in Er. rewrite app_nil_r in Er. symmetry. exact Er. }
  set (G := skipn (length e03) A) in *.
  assert (LG : (32 <= length G)%nat) by (unfold G; rewrite skipn_length; lia).
  assert (EA : A = e03 ++ G) by (unfold G; rewrite He03 at 1; symmetry; apply firstn_skipn).
  rewrite EA, <- app_assoc. rewrite (Grun (G ++ C' ++ Z)). cbn [bind].
  (* section 4 in info mode: header h, then content *)
  set (h := firstn 32 G). set (g := skipn 32 G).
  assert (EG : G = h ++ g) by (unfold h, g; symmetry; apply firstn_skipn).
  assert (Lh : length h = 32%nat) by (unfold h; rewrite firstn_length; lia).
  rewrite Hr1, EG, <- !app_assoc in H4. rewrite (app_assoc g C Z) in H4.
  destruct (info_skips_data_content dd props1 h (g ++ C) (g ++ C') Z sec4 props2 r2 Lh
              ltac:(rewrite !app_length; lia) H4) as (r2' & H4' & _).
  rewrite EG, <- !app_assoc. rewrite (app_assoc g C' Z). rewrite H4'. cbn [bind].
  eexists. split; [reflexivity|]. cbn [m_sections m_props]. split; reflexivity.
Qed.

End Content.
