(* ColumnProofs.v — theorems about Column.v (C05; column laws used by C02). *)
From PBK Require Import Base Bits BitsProofs Column.
From Coq Require Import ZifyBool ZifyNat ZifyN.

(* ========================================================================== *)
(* 1. nbits_for_uint                                                           *)
(* ========================================================================== *)

(* For x >= 1 the result w is the LEAST width >= 2 whose all-ones pattern lies
   strictly above x:  2^(w-1) - 1 <= x <= 2^w - 2. *)
Theorem nbits_for_uint_spec x :
  (1 <= x)%N ->
  (2 <= nbits_for_uint x /\
   2 ^ (nbits_for_uint x - 1) <= x + 1 /\
   x + 2 <= 2 ^ nbits_for_uint x)%N.
Proof.
  intros Hx. destruct x as [|p]; [lia|].
  unfold nbits_for_uint.
  assert (Hs : N.size (N.pos p) = N.succ (N.log2 (N.pos p))) by (apply N.size_log2; discriminate).
  rewrite Hs. set (L := N.log2 (N.pos p)).
  destruct (N.log2_spec (N.pos p)) as [Hlo Hhi]; [lia|]. fold L in Hlo, Hhi.
  rewrite N.pow_succ_r' in *.
  assert (Hp : (2 ^ L <> 0)%N) by (apply N.pow_nonzero; lia).
  destruct (N.eqb_spec (N.pos p + 1) (2 * 2 ^ L)) as [E|E].
  - replace (N.succ L + 1 - 1)%N with (N.succ L) by lia.
    replace (N.succ L + 1)%N with (N.succ (N.succ L)) by lia.
    rewrite !N.pow_succ_r'. lia.
  - replace (N.succ L - 1)%N with L by lia.
    rewrite N.pow_succ_r'.
    assert (L <> 0%N).
    { intros HL. rewrite HL in *. cbn in Hlo, Hhi, E. lia. }
    lia.
Qed.

(* characterisation as a minimum: any width k >= 2 that keeps x below its
   all-ones pattern is at least nbits_for_uint x *)
Theorem nbits_for_uint_least x k :
  (1 <= x)%N -> (2 <= k)%N -> (x + 2 <= 2 ^ k)%N -> (nbits_for_uint x <= k)%N.
Proof.
  intros Hx Hk Hfit.
  destruct (nbits_for_uint_spec x Hx) as (H2 & Hlo & _).
  destruct (N.le_gt_cases (nbits_for_uint x) k) as [|Hgt]; [assumption|exfalso].
  assert (Hm : (2 ^ k <= 2 ^ (nbits_for_uint x - 1))%N) by (apply N.pow_le_mono_r; lia).
  lia.
Qed.

(* consequence used by the encoder: with D = max - min, x = D + 1, every
   difference d <= D is strictly below the all-ones pattern of the chosen width *)
Corollary diffs_below_allones (D d : N) :
  (d <= D)%N -> (d < 2 ^ nbits_for_uint (D + 1) - 1)%N.
Proof.
  intros Hd. destruct (nbits_for_uint_spec (D + 1)) as (_ & _ & Hhi); lia.
Qed.

(* the width fits the 6-bit field exactly when D + 2 < 2^63 *)
Corollary nbits_for_uint_fits6 (D : N) :
  (D + 3 <= 2 ^ 63)%N <-> (nbits_for_uint (D + 1) <= 63)%N.
Proof.
  split; intros H.
  - apply nbits_for_uint_least; lia.
  - destruct (nbits_for_uint_spec (D + 1)) as (_ & _ & Hhi); [lia|].
    assert ((2 ^ nbits_for_uint (D + 1) <= 2 ^ 63)%N) by (apply N.pow_le_mono_r; lia).
    lia.
Qed.

Example nbits_for_uint_examples :
  map nbits_for_uint [0; 1; 2; 3; 4; 6; 7; 8; 14; 15; 16]%N = [1; 2; 2; 3; 3; 3; 4; 4; 4; 5; 5]%N.
Proof. vm_compute. reflexivity. Qed.

(* ========================================================================== *)
(* 2. minmax                                                                    *)
(* ========================================================================== *)

Lemma minmax_acc_spec l : forall a b,
  (a <= b)%Z ->
  exists mn mx, fold_left minmax_step l (Some (a, b)) = Some (mn, mx) /\
    (mn = a \/ In (Some mn) l) /\ (mx = b \/ In (Some mx) l) /\
    (mn <= a /\ b <= mx)%Z /\ (forall v, In (Some v) l -> mn <= v <= mx)%Z.
Proof.
  induction l as [|v l IH]; intros a b Hab.
  - exists a, b. cbn [fold_left].
    split; [reflexivity|]. split; [left; reflexivity|]. split; [left; reflexivity|].
    split; [lia|]. intros v [].
  - destruct v as [v|]; cbn [fold_left minmax_step].
    + set (a' := if (v <? a)%Z then v else a). set (b' := if (b <? v)%Z then v else b).
      assert (Ha' : (a' <= a /\ a' <= v /\ (a' = a \/ a' = v))%Z)
        by (unfold a'; destruct (Z.ltb_spec v a); lia).
      assert (Hb' : (b <= b' /\ v <= b' /\ (b' = b \/ b' = v))%Z)
        by (unfold b'; destruct (Z.ltb_spec b v); lia).
      destruct (IH a' b') as (mn & mx & E & Hmn & Hmx & Hbd & Hall); [lia|].
      exists mn, mx. split; [exact E|].
      split.
      { destruct Hmn as [->|H]; [|right; right; exact H].
        destruct Ha' as (_ & _ & [->| ->]); [left; reflexivity|right; left; reflexivity]. }
      split.
      { destruct Hmx as [->|H]; [|right; right; exact H].
        destruct Hb' as (_ & _ & [->| ->]); [left; reflexivity|right; left; reflexivity]. }
      split; [lia|].
      intros x [H|H]; [injection H as <-; lia|apply Hall, H].
    + destruct (IH a b Hab) as (mn & mx & E & Hmn & Hmx & Hbd & Hall).
      exists mn, mx. split; [exact E|].
      split; [destruct Hmn; [left|right; right]; assumption|].
      split; [destruct Hmx; [left|right; right]; assumption|].
      split; [lia|].
      intros x [H|H]; [discriminate|apply Hall, H].
Qed.

(* minimum and maximum of the present entries, both attained *)
Theorem minmax_spec l mn mx :
  minmax l = Some (mn, mx) ->
  In (Some mn) l /\ In (Some mx) l /\ (forall v, In (Some v) l -> mn <= v <= mx)%Z.
Proof.
  unfold minmax. induction l as [|v l IH]; [discriminate|].
  destruct v as [v|]; cbn [fold_left minmax_step].
  - intros E. destruct (minmax_acc_spec l v v) as (mn' & mx' & E' & Hmn & Hmx & Hbd & Hall); [lia|].
    rewrite E' in E. injection E as <- <-.
    split; [destruct Hmn as [->|H]; [left; reflexivity|right; exact H]|].
    split; [destruct Hmx as [->|H]; [left; reflexivity|right; exact H]|].
    intros x [H|H]; [injection H as <-; lia|apply Hall, H].
  - intros E. destruct (IH E) as (Hmn & Hmx & Hall).
    split; [right; exact Hmn|]. split; [right; exact Hmx|].
    intros x [H|H]; [discriminate|apply Hall, H].
Qed.

Theorem minmax_none l : minmax l = None <-> (forall v, In v l -> v = None).
Proof.
  unfold minmax. induction l as [|v l IH].
  - split; [intros _ v []|reflexivity].
  - destruct v as [v|]; cbn [fold_left minmax_step].
    + split.
      * intros E. destruct (minmax_acc_spec l v v) as (mn & mx & E' & _); [lia|]. congruence.
      * intros H. specialize (H (Some v) (or_introl eq_refl)). discriminate.
    + rewrite IH. split; intros H v Hv.
      * destruct Hv as [<-|Hv]; [reflexivity|apply H, Hv].
      * apply H. right. exact Hv.
Qed.

(* ========================================================================== *)
(* 3. small bit-level facts                                                     *)
(* ========================================================================== *)

Lemma pow2_pos_N k : (1 <= 2 ^ k)%N.
Proof. assert (2 ^ k <> 0)%N by (apply N.pow_nonzero; lia). lia. Qed.

Lemma pow2_pos_Z k : (0 <= k -> 1 <= 2 ^ k)%Z.
Proof. intros. assert (0 < 2 ^ k)%Z by (apply Z.pow_pos_nonneg; lia). lia. Qed.

Lemma Z2N_pow2 w : (0 <= w)%Z -> Z.to_N (2 ^ w) = (2 ^ Z.to_N w)%N.
Proof. intros H. apply N2Z.inj. rewrite pow_Z_N by lia. rewrite Z2N.id; [reflexivity|]. pose proof (pow2_pos_Z w H). lia. Qed.

Lemma Z2N_pow2m1 w : (0 <= w)%Z -> Z.to_N (2 ^ w - 1) = (2 ^ Z.to_N w - 1)%N.
Proof. intros H. pose proof (pow2_pos_Z w H). rewrite Z2N.inj_sub by lia. rewrite Z2N_pow2 by lia. reflexivity. Qed.

Lemma to_bits_ones_Z w : (0 <= w)%Z -> to_bits (Z.to_nat w) (2 ^ Z.to_N w - 1) = ones (Z.to_nat w).
Proof. intros H. rewrite <- (Z2N_pow w) by lia. apply to_bits_ones. Qed.

(* read_uint_or_none on a field that was laid out by to_bits *)
Lemma read_uon_to_bits w (v : N) t :
  (1 <= w <= 64)%Z -> (v < 2 ^ Z.to_N w)%N ->
  read_uint_or_none w (to_bits (Z.to_nat w) v ++ t) =
    Ok (if ((1 <? w)%Z && (v =? 2 ^ Z.to_N w - 1)%N) then None else Some v, t).
Proof.
  intros Hw Hv. unfold read_uint_or_none.
  rewrite read_uint_to_bits by (try exact Hv; lia). cbn [bind].
  destruct (Z.ltb_spec 1 w); cbn [andb]; [|reflexivity].
  destruct (Z.ltb_spec 64 w); [lia|]. unfold missing_value.
  destruct (v =? 2 ^ Z.to_N w - 1)%N; reflexivity.
Qed.

Lemma all_ones_ones n : bits_all_ones (ones n) = true.
Proof. induction n as [|n IH]; [reflexivity|]. cbn. exact IH. Qed.

Lemma all_ones_eq b : bits_all_ones b = true -> b = ones (length b).
Proof.
  induction b as [|x b IH]; [reflexivity|]. cbn [bits_all_ones forallb length ones repeat].
  intros H. apply andb_true_iff in H as [-> H]. f_equal. apply IH, H.
Qed.

(* a field consists of ones only iff its value is 2^length - 1 *)
Lemma all_ones_of_bits b :
  bits_all_ones b = (of_bits b =? 2 ^ N.of_nat (length b) - 1)%N.
Proof.
  destruct (N.eqb_spec (of_bits b) (2 ^ N.of_nat (length b) - 1)) as [E|E].
  - rewrite <- (to_bits_of_bits b), E, to_bits_ones. apply all_ones_ones.
  - destruct (bits_all_ones b) eqn:A; [|reflexivity]. exfalso. apply E.
    rewrite (all_ones_eq b A) at 1. rewrite of_bits_ones. reflexivity.
Qed.

Lemma to_bits_allones_iff n v :
  (v < 2 ^ N.of_nat n)%N -> bits_all_ones (to_bits n v) = (v =? 2 ^ N.of_nat n - 1)%N.
Proof.
  intros Hv. rewrite all_ones_of_bits, length_to_bits, of_bits_to_bits by exact Hv. reflexivity.
Qed.

Lemma to_bits6_width (wd : Z) t :
  (0 <= wd <= 63)%Z ->
  read_uint NBITS_FOR_NBITS_DIFF (to_bits 6 (Z.to_N wd) ++ t) = Ok (Z.to_N wd, t).
Proof.
  intros H. unfold NBITS_FOR_NBITS_DIFF.
  change 6%nat with (Z.to_nat 6). apply read_uint_to_bits; [lia|].
  change (2 ^ Z.to_N 6)%N with 64%N. lia.
Qed.

Lemma write_uint_ok v w o :
  (0 < w)%Z -> (0 <= v < 2 ^ w)%Z -> write_uint v w o = Ok (o ++ to_bits (Z.to_nat w) (Z.to_N v)).
Proof.
  intros Hw Hv. unfold write_uint.
  destruct (Z.leb_spec w 0); [lia|]. destruct (Z.ltb_spec v 0); [lia|].
  destruct (Z.leb_spec (2 ^ w) v); [lia|]. reflexivity.
Qed.

Lemma col_header_ok mn w nd o :
  (0 < w)%Z -> (0 <= mn < 2 ^ w)%Z -> (0 <= nd <= 63)%Z ->
  col_header mn w nd o = Ok (o ++ to_bits (Z.to_nat w) (Z.to_N mn) ++ to_bits 6 (Z.to_N nd)).
Proof.
  intros Hw Hmn Hnd. unfold col_header. rewrite write_uint_ok by assumption. cbn [bind].
  unfold NBITS_FOR_NBITS_DIFF. rewrite write_uint_ok by (change (2 ^ 6)%Z with 64%Z; lia).
  rewrite <- app_assoc. reflexivity.
Qed.

(* ========================================================================== *)
(* 4. the decoder reads every legal layout                                       *)
(* ========================================================================== *)

Lemma length_lay_incs wd base raws :
  length (lay_incs wd base raws) = (length raws * Z.to_nat wd)%nat.
Proof.
  induction raws as [|v raws IH]; [reflexivity|].
  cbn [lay_incs flat_map length]. fold (lay_incs wd base raws).
  rewrite app_length, IH. destruct v; [rewrite length_to_bits|unfold ones; rewrite repeat_length]; lia.
Qed.

(* increments: any width 1..64, any base below all present values, every
   difference strictly below the all-ones pattern; for wd = 1 this is the
   one-bit rule (difference 0 only, the increment 1 is missing) *)
Lemma dec_incs_lay wd base raws t :
  (1 <= wd <= 64)%Z ->
  (forall x, In (Some x) raws -> (base <= x /\ x - base < 2 ^ Z.to_N wd - 1)%N) ->
  dec_incs_num (Z.to_N wd) base (length raws) (lay_incs wd base raws ++ t) = Ok (raws, t).
Proof.
  intros Hwd. induction raws as [|v raws IH]; intros Hall; [reflexivity|].
  cbn [length lay_incs flat_map dec_incs_num]. fold (lay_incs wd base raws).
  rewrite <- app_assoc. rewrite Z2N.id by lia.
  assert (Hp := pow2_pos_N (Z.to_N wd)).
  destruct v as [x|].
  - destruct (Hall x (or_introl eq_refl)) as [Hb Hd].
    rewrite read_uon_to_bits by lia. cbn [bind].
    rewrite IH by (intros y Hy; apply Hall; right; exact Hy). cbn [bind].
    assert (Hne : ((x - base =? 2 ^ Z.to_N wd - 1) = false)%N) by lia.
    rewrite Hne, andb_false_r. unfold onebit_rule.
    destruct (N.eqb_spec (x - base) 1) as [E1|E1]; destruct (N.eqb_spec (Z.to_N wd) 1) as [E2|E2];
      cbn [andb].
    + exfalso. rewrite E2 in Hd. cbn in Hd. lia.
    + repeat f_equal. lia.
    + repeat f_equal. lia.
    + repeat f_equal. lia.
  - rewrite <- to_bits_ones_Z by lia.
    rewrite read_uon_to_bits by lia. cbn [bind].
    rewrite IH by (intros y Hy; apply Hall; right; exact Hy). cbn [bind].
    rewrite N.eqb_refl, andb_true_r. unfold onebit_rule.
    destruct (Z.ltb_spec 1 wd); [reflexivity|].
    assert (wd = 1%Z) by lia. subst wd. reflexivity.
Qed.

(* the base field: not the missing pattern (a one-bit base has none) *)
Definition col_base_ok (w : Z) (base : N) : Prop :=
  (base < 2 ^ Z.to_N w)%N /\ ((1 < w)%Z -> base <> (2 ^ Z.to_N w - 1)%N).

Lemma read_base w base t :
  (1 <= w <= 64)%Z -> col_base_ok w base ->
  read_uint_or_none w (to_bits (Z.to_nat w) base ++ t) = Ok (Some base, t).
Proof.
  intros Hw [Hlt Hne]. rewrite read_uon_to_bits by assumption.
  destruct (Z.ltb_spec 1 w); cbn [andb]; [|reflexivity].
  destruct (N.eqb_spec base (2 ^ Z.to_N w - 1)); [exfalso; apply Hne; assumption|reflexivity].
Qed.

(* C05: "the decoder reads every legal difference width, not only the one the
   encoder would choose".  A column laid out with any base and any increment
   width wd in 1..63 (all the 6-bit field can announce besides 0) decodes to
   exactly that column and the reader stops at the end of the column. *)
Theorem dec_col_any_width w wd base raws t :
  (1 <= w <= 64)%Z -> (1 <= wd <= 63)%Z -> col_base_ok w base ->
  (forall x, In (Some x) raws -> (base <= x /\ x - base < 2 ^ Z.to_N wd - 1)%N) ->
  dec_col_num w (length raws) (lay_col_num w wd base raws ++ t) = Ok (raws, t).
Proof.
  intros Hw Hwd Hbase Hall. unfold dec_col_num, lay_col_num.
  rewrite <- !app_assoc. rewrite read_base by assumption. cbn [bind].
  rewrite to_bits6_width by lia. cbn [bind].
  destruct (N.eqb_spec (Z.to_N wd) 0); [lia|].
  apply dec_incs_lay; [lia|exact Hall].
Qed.

(* width 0: all subsets carry the base value *)
Theorem dec_col_width0 w base n t :
  (1 <= w <= 64)%Z -> col_base_ok w base ->
  dec_col_num w n (to_bits (Z.to_nat w) base ++ zeros 6 ++ t) = Ok (repeat (Some base) n, t).
Proof.
  intros Hw Hbase. unfold dec_col_num.
  rewrite read_base by assumption. cbn [bind].
  change (zeros 6) with (to_bits 6 (Z.to_N 0)). rewrite to_bits6_width by lia. reflexivity.
Qed.

(* all ones with width 0: all subsets missing (the element must be wider than one bit) *)
Theorem dec_col_all_missing w n t :
  (2 <= w <= 64)%Z ->
  dec_col_num w n (lay_col_missing w ++ t) = Ok (repeat None n, t).
Proof.
  intros Hw. unfold dec_col_num, lay_col_missing. rewrite <- app_assoc.
  rewrite <- to_bits_ones_Z by lia.
  assert (Hp := pow2_pos_N (Z.to_N w)).
  rewrite read_uon_to_bits by lia. cbn [bind].
  destruct (Z.ltb_spec 1 w); [|lia]. rewrite N.eqb_refl. cbn [andb].
  change (zeros 6) with (to_bits 6 (Z.to_N 0)). rewrite to_bits6_width by lia. reflexivity.
Qed.

(* all-ones base followed by a non-zero width is refused (assert) *)
Theorem dec_col_missing_base_nonzero_width w wd n t :
  (2 <= w <= 64)%Z -> (1 <= wd <= 63)%Z ->
  dec_col_num w n (ones (Z.to_nat w) ++ to_bits 6 (Z.to_N wd) ++ t) = Err EBadColumn.
Proof.
  intros Hw Hwd. unfold dec_col_num.
  rewrite <- to_bits_ones_Z by lia.
  assert (Hp := pow2_pos_N (Z.to_N w)).
  rewrite read_uon_to_bits by lia. cbn [bind].
  destruct (Z.ltb_spec 1 w); [|lia]. rewrite N.eqb_refl. cbn [andb].
  rewrite to_bits6_width by lia. cbn [bind].
  destruct (N.eqb_spec (Z.to_N wd) 0); [lia|reflexivity].
Qed.

(* ========================================================================== *)
(* 5. what the encoder writes                                                    *)
(* ========================================================================== *)

Lemma numeric_missing_ok i : (0 <= i <= 64)%Z -> numeric_missing i = Ok (2 ^ i - 1)%Z.
Proof.
  intros H. unfold numeric_missing.
  destruct (Z.ltb_spec i (-65)); [lia|]. destruct (Z.ltb_spec 64 i); [lia|]. cbn [orb].
  destruct (Z.ltb_spec i 0); [lia|]. reflexivity.
Qed.

(* the increments the encoder writes are the spec-level layout *)
Lemma enc_incs_lay mn nd raws :
  (1 <= nd <= 64)%Z -> (0 <= mn)%Z ->
  (forall x, In (Some x) raws -> (mn <= x /\ x - mn < 2 ^ nd)%Z) ->
  exists ds, col_diffs mn nd raws = Ok ds /\
    forall o, write_uints ds nd o = Ok (o ++ lay_incs nd (Z.to_N mn) (raw_view raws)).
Proof.
  intros Hnd Hmn. induction raws as [|v raws IH]; intros Hall.
  - exists []. split; [reflexivity|]. intros o. cbn. rewrite app_nil_r. reflexivity.
  - destruct IH as (ds & Eds & Hds); [intros y Hy; apply Hall; right; exact Hy|].
    assert (Hp := pow2_pos_Z nd ltac:(lia)).
    destruct v as [x|]; cbn [col_diffs].
    + destruct (Hall x (or_introl eq_refl)) as [Hlo Hhi].
      cbn [bind]. rewrite Eds. cbn [bind].
      exists ((x - mn)%Z :: ds). split; [reflexivity|]. intros o.
      cbn [write_uints raw_view map option_map lay_incs flat_map].
      rewrite write_uint_ok by lia. cbn [bind]. rewrite Hds, <- app_assoc.
      repeat f_equal. lia.
    + rewrite numeric_missing_ok by lia. cbn [bind]. rewrite Eds. cbn [bind].
      exists ((2 ^ nd - 1)%Z :: ds). split; [reflexivity|]. intros o.
      cbn [write_uints raw_view map option_map lay_incs flat_map].
      rewrite write_uint_ok by lia. cbn [bind]. rewrite Hds, <- app_assoc.
      rewrite Z2N_pow2m1 by lia. rewrite to_bits_ones_Z by lia. reflexivity.
Qed.

Lemma length_raw_view raws : length (raw_view raws) = length raws.
Proof. apply map_length. Qed.

Lemma in_raw_view x raws : In (Some x) (raw_view raws) -> exists z, In (Some z) raws /\ x = Z.to_N z.
Proof.
  unfold raw_view. rewrite in_map_iff. intros ([z|] & E & Hin); cbn in E; [|discriminate].
  injection E as <-. eauto.
Qed.

(* the not-all-equal branch: base = the minimum, width = nbits_for_uint (D + 1),
   increments laid out MSB first, all ones for missing *)
Theorem enc_col_num_layout w raws o mn mx :
  (1 <= w)%Z -> raws <> [] ->
  minmax raws = Some (mn, mx) -> (0 <= mn < 2 ^ w)%Z -> (mx - mn + 2 < 2 ^ 63)%Z ->
  let nd := Z.of_N (nbits_for_uint (Z.to_N (mx - mn + 1))) in
  (2 <= nd <= 63)%Z /\
  (forall x, In (Some x) raws -> (mn <= x /\ x - mn < 2 ^ nd - 1)%Z) /\
  enc_col_num w false raws o = Ok (o ++ lay_col_num w nd (Z.to_N mn) (raw_view raws)).
Proof.
  intros Hw Hne Hmm Hmn Hspread nd.
  destruct (minmax_spec raws mn mx Hmm) as (Imn & Imx & Hall).
  assert (Hle : (mn <= mx)%Z) by (destruct (Hall mx Imx); lia).
  set (D := Z.to_N (mx - mn)).
  assert (HD : Z.to_N (mx - mn + 1) = (D + 1)%N) by (unfold D; lia).
  assert (HDz : Z.of_N D = (mx - mn)%Z) by (unfold D; lia).
  clearbody D.
  destruct (nbits_for_uint_spec (D + 1)) as (H2 & Hlo & Hhi); [lia|].
  assert (H63 : (nbits_for_uint (D + 1) <= 63)%N).
  { apply nbits_for_uint_fits6. change (2 ^ 63)%N with (Z.to_N (2 ^ 63)). lia. }
  assert (Hnd : (2 <= nd <= 63)%Z) by (unfold nd; rewrite HD; lia).
  assert (Hpow : (2 ^ nd = Z.of_N (2 ^ nbits_for_uint (D + 1)))%Z).
  { unfold nd. rewrite HD. rewrite N2Z.inj_pow. reflexivity. }
  assert (Hdiff : forall x, In (Some x) raws -> (mn <= x /\ x - mn < 2 ^ nd - 1)%Z).
  { intros x Hx. destruct (Hall x Hx) as [Hx1 Hx2]. split; [exact Hx1|].
    rewrite Hpow. lia. }
  split; [exact Hnd|]. split; [exact Hdiff|].
  destruct raws as [|v0 raws']; [congruence|].
  unfold enc_col_num. cbn [andb]. rewrite Hmm. fold nd.
  destruct (enc_incs_lay mn nd (v0 :: raws')) as (ds & Eds & Hds); [lia|lia| |].
  { intros x Hx. destruct (Hdiff x Hx). lia. }
  rewrite Eds. cbn [bind].
  rewrite col_header_ok by lia. cbn [bind].
  destruct (Z.eqb_spec nd 0); [lia|].
  rewrite Hds. unfold lay_col_num. rewrite <- !app_assoc. reflexivity.
Qed.

(* ========================================================================== *)
(* 6. round trip of numeric columns                                              *)
(* ========================================================================== *)

Lemma opt_eqb_eq a b : optz_eqb a b = true -> a = b.
Proof. destruct a, b; cbn; intros H; try discriminate; [f_equal; lia|reflexivity]. Qed.

Lemma forallb_eq_repeat (v0 : option Z) l :
  forallb (optz_eqb v0) l = true -> l = repeat v0 (length l).
Proof.
  induction l as [|v l IH]; [reflexivity|]. cbn [forallb length repeat].
  intros H. apply andb_true_iff in H as [H1 H2]. apply opt_eqb_eq in H1. subst v.
  f_equal. apply IH, H2.
Qed.

Lemma raw_view_repeat v n : raw_view (repeat v n) = repeat (option_map Z.to_N v) n.
Proof. unfold raw_view. induction n as [|n IH]; [reflexivity|]. cbn [repeat map]. rewrite IH. reflexivity. Qed.

(* the general statement behind the round-trip theorems: any width 1..64; the
   present values avoid the missing pattern of the element (a one-bit element
   has none); an all-missing column needs an element wider than one bit *)
Definition col_value_ok (w : Z) (x : Z) : Prop :=
  (0 <= x < 2 ^ w)%Z /\ ((1 < w)%Z -> x <> (2 ^ w - 1)%Z).

Lemma value_ok_base w x : (1 <= w)%Z -> col_value_ok w x -> col_base_ok w (Z.to_N x).
Proof.
  intros Hw [Hr Hne]. unfold col_base_ok. rewrite <- Z2N_pow2 by lia. split; [lia|].
  intros H1 E. apply (Hne H1). pose proof (pow2_pos_Z w ltac:(lia)). lia.
Qed.

Theorem col_roundtrip_gen w ae raws o t :
  (1 <= w <= 64)%Z ->
  col_flag_ok ae raws = true ->
  (forall x, In (Some x) raws -> col_value_ok w x) ->
  (w = 1%Z -> ae = true -> In None raws -> False) ->
  col_spread_ok raws = true ->
  exists e, enc_col_num w ae raws o = Ok (o ++ e) /\
            dec_col_num w (length raws) (e ++ t) = Ok (raw_view raws, t).
Proof.
  intros Hw Hflag Hval H1bit Hspread.
  destruct raws as [|v0 raws']; [discriminate|].
  set (raws := v0 :: raws') in *.
  assert (Hp := pow2_pos_Z w ltac:(lia)).
  destruct ae.
  - (* the caller says all values are equal *)
    cbn [col_flag_ok raws] in Hflag. fold raws in Hflag.
    apply forallb_eq_repeat in Hflag.
    destruct v0 as [v|].
    + (* all equal to v *)
      destruct (Hval v (or_introl eq_refl)) as [Hr Hne].
      exists (to_bits (Z.to_nat w) (Z.to_N v) ++ zeros 6). split.
      * unfold enc_col_num, raws. cbn [andb opt_is_none bind].
        rewrite col_header_ok by lia. reflexivity.
      * rewrite <- app_assoc. rewrite dec_col_width0; [|lia|apply value_ok_base; [lia|split; assumption]].
        rewrite Hflag at 2. rewrite raw_view_repeat. reflexivity.
    + (* all missing *)
      assert (Hw2 : (2 <= w)%Z).
      { destruct (Z.eq_dec w 1) as [E|E]; [|lia]. exfalso. apply (H1bit E eq_refl). left. reflexivity. }
      exists (lay_col_missing w). split.
      * unfold enc_col_num, raws. cbn [andb opt_is_none].
        rewrite numeric_missing_ok by lia. cbn [bind].
        rewrite col_header_ok by lia. unfold lay_col_missing.
        rewrite Z2N_pow2m1 by lia. rewrite to_bits_ones_Z by lia. reflexivity.
      * rewrite dec_col_all_missing by lia.
        rewrite Hflag at 2. rewrite raw_view_repeat. reflexivity.
  - (* general branch *)
    cbn [col_flag_ok raws] in Hflag. fold raws in Hflag.
    destruct (minmax raws) as [[mn mx]|] eqn:Hmm.
    2:{ exfalso. apply existsb_exists in Hflag as (v & Hin & Hv).
        rewrite (proj1 (minmax_none raws) Hmm v Hin) in Hv. discriminate. }
    destruct (minmax_spec raws mn mx Hmm) as (Imn & Imx & Hall).
    destruct (Hval mn Imn) as [Hmnr Hmnne].
    unfold col_spread_ok in Hspread. rewrite Hmm in Hspread.
    destruct (enc_col_num_layout w raws o mn mx) as (Hnd & Hdiff & Henc);
      [lia|discriminate|exact Hmm|lia|lia|].
    set (nd := Z.of_N (nbits_for_uint (Z.to_N (mx - mn + 1)))) in *.
    exists (lay_col_num w nd (Z.to_N mn) (raw_view raws)). split; [exact Henc|].
    rewrite <- (length_raw_view raws).
    apply dec_col_any_width; [lia|lia|apply value_ok_base; [lia|split; assumption]|].
    intros x Hx. apply in_raw_view in Hx as (z & Hz & ->).
    destruct (Hdiff z Hz) as [Hz1 Hz2].
    assert (Hpn : (2 ^ Z.to_N nd)%N = Z.to_N (2 ^ nd)) by (rewrite Z2N_pow2; [reflexivity|lia]).
    rewrite Hpn. pose proof (pow2_pos_Z nd ltac:(lia)). lia.
Qed.

Lemma in_range_ok w x : (2 <= w)%Z -> col_in_range w (Some x) = true -> col_value_ok w x.
Proof.
  intros Hw H. cbn in H. pose proof (pow2_pos_Z w ltac:(lia)). split; lia.
Qed.

(* C05 main column theorem, numeric: every non-empty column over
   {missing} u [0, 2^w - 2], any width 2..64, any number of subsets, any
   consistent all_equal flag, after any prefix o and before any suffix t. *)
Theorem col_roundtrip_num w ae raws o t :
  col_dom_num w ae raws = true ->
  exists e, enc_col_num w ae raws o = Ok (o ++ e) /\
            dec_col_num w (length raws) (e ++ t) = Ok (raw_view raws, t).
Proof.
  unfold col_dom_num. intros H.
  apply andb_true_iff in H as [H Hspread]. apply andb_true_iff in H as [H Hrange].
  apply andb_true_iff in H as [H Hflag]. apply andb_true_iff in H as [Hw2 Hw64].
  apply col_roundtrip_gen; try assumption; try lia.
  intros x Hx. apply in_range_ok; [lia|].
  rewrite forallb_forall in Hrange. apply Hrange, Hx.
Qed.

(* for elements of at most 62 bits the spread condition is automatic *)
Lemma spread_ok_small w raws :
  (w <= 62)%Z -> forallb (col_in_range w) raws = true -> col_spread_ok raws = true.
Proof.
  intros Hw Hr. unfold col_spread_ok. destruct (minmax raws) as [[mn mx]|] eqn:Hmm; [|reflexivity].
  destruct (minmax_spec raws mn mx Hmm) as (Imn & Imx & _).
  rewrite forallb_forall in Hr.
  pose proof (Hr _ Imn) as H1. pose proof (Hr _ Imx) as H2. cbn in H1, H2.
  destruct (Z.le_gt_cases 0 w) as [H0|H0].
  - assert ((2 ^ w <= 2 ^ 62)%Z) by (apply Z.pow_le_mono_r; lia).
    change (2 ^ 63)%Z with (2 * 2 ^ 62)%Z. lia.
  - rewrite Z.pow_neg_r in * by lia. lia.
Qed.

(* one-bit elements: values 0 and 1 without missing round-trip as well *)
Theorem col_roundtrip_onebit ae raws o t :
  col_dom_onebit ae raws = true ->
  exists e, enc_col_num 1 ae raws o = Ok (o ++ e) /\
            dec_col_num 1 (length raws) (e ++ t) = Ok (raw_view raws, t).
Proof.
  unfold col_dom_onebit. intros H. apply andb_true_iff in H as [Hflag Hrange].
  rewrite forallb_forall in Hrange.
  apply col_roundtrip_gen; try assumption; try lia.
  - intros x Hx. specialize (Hrange _ Hx). cbn in Hrange. split; [cbn; lia|lia].
  - intros _ _ Hin. specialize (Hrange _ Hin). discriminate.
  - unfold col_spread_ok. destruct (minmax raws) as [[mn mx]|] eqn:Hmm; [|reflexivity].
    destruct (minmax_spec raws mn mx Hmm) as (Imn & Imx & _).
    pose proof (Hrange _ Imn) as H1. pose proof (Hrange _ Imx) as H2. cbn in H1, H2.
    change (2 ^ 63)%Z with 9223372036854775808%Z. lia.
Qed.

(* a one-bit column WITH missing entries also survives compression unless it is
   missing throughout (that case is onebit_missing_refuted below) *)
Theorem col_roundtrip_onebit_some_present ae raws o t :
  col_flag_ok ae raws = true ->
  (forall x, In (Some x) raws -> (0 <= x <= 1)%Z) ->
  (exists x, In (Some x) raws) ->
  exists e, enc_col_num 1 ae raws o = Ok (o ++ e) /\
            dec_col_num 1 (length raws) (e ++ t) = Ok (raw_view raws, t).
Proof.
  intros Hflag Hrange [x0 Hx0].
  apply col_roundtrip_gen; try assumption; try lia.
  - intros x Hx. specialize (Hrange _ Hx). split; [cbn; lia|lia].
  - intros _ -> Hin. destruct raws as [|v0 raws']; [discriminate|].
    cbn [col_flag_ok] in Hflag. rewrite forallb_forall in Hflag.
    apply Hflag, opt_eqb_eq in Hx0. apply Hflag, opt_eqb_eq in Hin. congruence.
  - unfold col_spread_ok. destruct (minmax raws) as [[mn mx]|] eqn:Hmm; [|reflexivity].
    destruct (minmax_spec raws mn mx Hmm) as (Imn & Imx & _).
    pose proof (Hrange _ Imn) as H1. pose proof (Hrange _ Imx) as H2.
    change (2 ^ 63)%Z with 9223372036854775808%Z. lia.
Qed.

(* ========================================================================== *)
(* 7. code / flag columns                                                        *)
(* ========================================================================== *)

Lemma dec_incs_codeflag_of_num wd dnbits mn : forall n r vs r',
  (dnbits <= 64)%Z ->
  dec_incs_num wd mn n r = Ok (vs, r') ->
  (forall x, In (Some x) vs -> (1 < dnbits)%Z -> x <> (2 ^ Z.to_N dnbits - 1)%N) ->
  dec_incs_codeflag wd dnbits mn n r = Ok (vs, r').
Proof.
  induction n as [|n IH]; intros r vs r' Hdn H Hok.
  - exact H.
  - cbn [dec_incs_num dec_incs_codeflag] in *.
    destruct (read_uint_or_none (Z.of_N wd) r) as [[d r1]|e]; cbn [bind] in *; [|discriminate].
    destruct (dec_incs_num wd mn n r1) as [[vs1 r2]|e] eqn:E1; cbn [bind] in *; [|discriminate].
    injection H as <- <-.
    assert (IH' := IH r1 vs1 r2 Hdn E1 (fun x Hx => Hok x (or_intror Hx))).
    destruct (onebit_rule wd d) as [x|]; cbn [bind].
    + unfold codeflag_recheck.
      destruct (Z.ltb_spec 1 dnbits) as [H1|H1].
      * destruct (Z.ltb_spec 64 dnbits); [lia|]. unfold missing_value.
        destruct (N.eqb_spec (mn + x) (2 ^ Z.to_N dnbits - 1)) as [Em|Em].
        -- exfalso. exact (Hok _ (or_introl eq_refl) H1 Em).
        -- cbn [bind]. rewrite IH'. reflexivity.
      * cbn [bind]. rewrite IH'. reflexivity.
    + rewrite IH'. reflexivity.
Qed.

(* whenever the numeric decoder returns a column none of whose values is the
   element's all-ones pattern, the code/flag decoder returns the same *)
Theorem dec_codeflag_of_num w dnbits n r vs r' :
  (dnbits <= 64)%Z ->
  dec_col_num w n r = Ok (vs, r') ->
  (forall x, In (Some x) vs -> (1 < dnbits)%Z -> x <> (2 ^ Z.to_N dnbits - 1)%N) ->
  dec_col_codeflag w dnbits n r = Ok (vs, r').
Proof.
  intros Hdn H Hok. unfold dec_col_num, dec_col_codeflag in *.
  destruct (read_uint_or_none w r) as [[mn r1]|e]; cbn [bind] in *; [|discriminate].
  destruct (read_uint NBITS_FOR_NBITS_DIFF r1) as [[nd r2]|e]; cbn [bind] in *; [|discriminate].
  destruct mn as [m|]; cbn [opt_is_none orb].
  - destruct (nd =? 0)%N; [exact H|].
    apply dec_incs_codeflag_of_num; assumption.
  - destruct (nd =? 0)%N; [exact H|discriminate].
Qed.

Theorem col_roundtrip_codeflag w ae raws o t :
  col_dom_num w ae raws = true ->
  exists e, enc_col_codeflag w ae raws o = Ok (o ++ e) /\
            dec_col_codeflag w w (length raws) (e ++ t) = Ok (raw_view raws, t).
Proof.
  intros Hdom. destruct (col_roundtrip_num w ae raws o t Hdom) as (e & He & Hd).
  exists e. split; [exact He|].
  unfold col_dom_num in Hdom.
  apply andb_true_iff in Hdom as [H _]. apply andb_true_iff in H as [H Hrange].
  apply andb_true_iff in H as [H _]. apply andb_true_iff in H as [Hw2 Hw64].
  apply dec_codeflag_of_num; [lia|exact Hd|].
  intros x Hx _ E. apply in_raw_view in Hx as (z & Hz & ->).
  rewrite forallb_forall in Hrange. specialize (Hrange _ Hz). cbn in Hrange.
  pose proof (pow2_pos_Z w ltac:(lia)).
  rewrite <- Z2N_pow2m1 in E by lia. lia.
Qed.

(* every legal width, code/flag reading *)
Theorem dec_col_any_width_codeflag w dnbits wd base raws t :
  (1 <= w <= 64)%Z -> (dnbits <= 64)%Z -> (1 <= wd <= 63)%Z -> col_base_ok w base ->
  (forall x, In (Some x) raws -> (base <= x /\ x - base < 2 ^ Z.to_N wd - 1)%N) ->
  (forall x, In (Some x) raws -> (1 < dnbits)%Z -> x <> (2 ^ Z.to_N dnbits - 1)%N) ->
  dec_col_codeflag w dnbits (length raws) (lay_col_num w wd base raws ++ t) = Ok (raws, t).
Proof.
  intros Hw Hdn Hwd Hb Hall Hok.
  apply dec_codeflag_of_num; [exact Hdn| |exact Hok].
  apply dec_col_any_width; assumption.
Qed.

(* ========================================================================== *)
(* 8. shape of the encoder's output                                              *)
(* ========================================================================== *)

(* the 6-bit width field of an encoded column *)
Definition col_width_field (w : Z) (e : bits) : N := of_bits (firstn 6 (skipn (Z.to_nat w) e)).
Definition col_base_field (w : Z) (e : bits) : bits := firstn (Z.to_nat w) e.

Lemma width_field_lay w b6 base rest :
  length base = Z.to_nat w -> length b6 = 6%nat ->
  col_width_field w (base ++ b6 ++ rest) = of_bits b6 /\ col_base_field w (base ++ b6 ++ rest) = base.
Proof.
  intros Hb H6. unfold col_width_field, col_base_field.
  rewrite skipn_app_exact by exact Hb. rewrite !firstn_app_exact by assumption. auto.
Qed.

Lemma forallb_opt_eqb_iff v0 l :
  forallb (optz_eqb v0) l = true <-> (forall v, In v l -> v = v0).
Proof.
  rewrite forallb_forall. split; intros H v Hv.
  - symmetry. apply opt_eqb_eq, H, Hv.
  - rewrite (H v Hv). destruct v0; cbn; [lia|reflexivity].
Qed.

(* The width field is 0 exactly when the caller's all_equal flag is set; with
   an exact flag (all_equal = "all entries are equal") this is
   "width 0 iff all equal".  And the base field is all ones exactly when the
   whole column is missing. *)
Theorem width0_iff_all_equal w ae raws o :
  col_dom_num w ae raws = true ->
  exists e, enc_col_num w ae raws o = Ok (o ++ e) /\
    (col_width_field w e = 0%N <-> ae = true) /\
    (col_width_field w e = 0%N -> forall v, In v raws -> v = hd None raws) /\
    (bits_all_ones (col_base_field w e) = true <-> (forall v, In v raws -> v = None)).
Proof.
  intros Hdom. pose proof Hdom as Hdom'. unfold col_dom_num in Hdom.
  apply andb_true_iff in Hdom as [H Hspread]. apply andb_true_iff in H as [H Hrange].
  apply andb_true_iff in H as [H Hflag]. apply andb_true_iff in H as [Hw2 Hw64].
  assert (Hp := pow2_pos_Z w ltac:(lia)).
  rewrite forallb_forall in Hrange.
  destruct raws as [|v0 raws']; [discriminate|].
  set (raws := v0 :: raws') in *.
  destruct ae.
  - cbn [col_flag_ok raws] in Hflag. fold raws in Hflag.
    pose proof (proj1 (forallb_opt_eqb_iff v0 raws) Hflag) as Heq.
    destruct v0 as [v|].
    + pose proof (Hrange _ (or_introl eq_refl)) as Hv. cbn in Hv.
      exists (to_bits (Z.to_nat w) (Z.to_N v) ++ to_bits 6 0 ++ []). split.
      * unfold enc_col_num, raws. cbn [andb opt_is_none bind].
        rewrite col_header_ok by lia. rewrite app_nil_r. reflexivity.
      * destruct (width_field_lay w (to_bits 6 0) (to_bits (Z.to_nat w) (Z.to_N v)) [])
          as [-> ->]; [apply length_to_bits|reflexivity|].
        split; [split; reflexivity|]. split; [intros _; exact Heq|].
        rewrite to_bits_allones_iff by (rewrite Z2N_pow, <- Z2N_pow2 by lia; lia).
        rewrite Z2N_pow, <- Z2N_pow2m1 by lia. split.
        -- intros E. exfalso. lia.
        -- intros Hnone. specialize (Hnone _ (or_introl eq_refl)). discriminate.
    + exists (ones (Z.to_nat w) ++ to_bits 6 0 ++ []). split.
      * unfold enc_col_num, raws. cbn [andb opt_is_none].
        rewrite numeric_missing_ok by lia. cbn [bind].
        rewrite col_header_ok by lia.
        rewrite Z2N_pow2m1 by lia. rewrite to_bits_ones_Z by lia. rewrite app_nil_r. reflexivity.
      * destruct (width_field_lay w (to_bits 6 0) (ones (Z.to_nat w)) [])
          as [-> ->]; [unfold ones; apply repeat_length|reflexivity|].
        split; [split; reflexivity|]. split; [intros _; exact Heq|].
        rewrite all_ones_ones. split; [intros _; exact Heq|reflexivity].
  - cbn [col_flag_ok raws] in Hflag. fold raws in Hflag.
    destruct (minmax raws) as [[mn mx]|] eqn:Hmm.
    2:{ exfalso. apply existsb_exists in Hflag as (v & Hin & Hv).
        rewrite (proj1 (minmax_none raws) Hmm v Hin) in Hv. discriminate. }
    destruct (minmax_spec raws mn mx Hmm) as (Imn & Imx & Hall).
    pose proof (Hrange _ Imn) as Hmn. cbn in Hmn.
    unfold col_spread_ok in Hspread. rewrite Hmm in Hspread.
    destruct (enc_col_num_layout w raws o mn mx) as (Hnd & Hdiff & Henc);
      [lia|discriminate|exact Hmm|lia|lia|].
    set (nd := Z.of_N (nbits_for_uint (Z.to_N (mx - mn + 1)))) in *.
    eexists. split; [exact Henc|]. unfold lay_col_num.
    destruct (width_field_lay w (to_bits 6 (Z.to_N nd)) (to_bits (Z.to_nat w) (Z.to_N mn))
                (lay_incs nd (Z.to_N mn) (raw_view raws))) as [-> ->];
      [apply length_to_bits|apply length_to_bits|].
    rewrite of_bits_to_bits by (change (2 ^ N.of_nat 6)%N with 64%N; lia).
    split; [split; [lia|discriminate]|]. split; [lia|].
    rewrite to_bits_allones_iff by (rewrite Z2N_pow, <- Z2N_pow2 by lia; lia).
    rewrite Z2N_pow, <- Z2N_pow2m1 by lia. split.
    + intros E. exfalso. lia.
    + intros Hnone. specialize (Hnone _ Imn). discriminate.
Qed.

(* With increments present, the i-th increment has the announced width, is all
   ones exactly when the i-th entry is missing, and otherwise base + increment
   is the entry ("the encoder's column reconstructs"). *)
Theorem allones_iff_missing w raws o :
  col_dom_num w false raws = true ->
  exists (base : N) (nd : Z) (incs : list bits),
    enc_col_num w false raws o =
      Ok (o ++ to_bits (Z.to_nat w) base ++ to_bits 6 (Z.to_N nd) ++ concat incs) /\
    (2 <= nd <= 63)%Z /\
    Forall2 (fun v inc =>
               length inc = Z.to_nat nd /\
               (bits_all_ones inc = true <-> v = None) /\
               (forall x, v = Some x -> (base + of_bits inc)%N = Z.to_N x)) raws incs.
Proof.
  intros Hdom. unfold col_dom_num in Hdom.
  apply andb_true_iff in Hdom as [H Hspread]. apply andb_true_iff in H as [H Hrange].
  apply andb_true_iff in H as [H Hflag]. apply andb_true_iff in H as [Hw2 Hw64].
  assert (Hp := pow2_pos_Z w ltac:(lia)).
  rewrite forallb_forall in Hrange.
  destruct raws as [|v0 raws']; [discriminate|].
  set (raws := v0 :: raws') in *.
  cbn [col_flag_ok raws] in Hflag. fold raws in Hflag.
  destruct (minmax raws) as [[mn mx]|] eqn:Hmm.
  2:{ exfalso. apply existsb_exists in Hflag as (v & Hin & Hv).
      rewrite (proj1 (minmax_none raws) Hmm v Hin) in Hv. discriminate. }
  destruct (minmax_spec raws mn mx Hmm) as (Imn & Imx & Hall).
  pose proof (Hrange _ Imn) as Hmn. cbn in Hmn.
  unfold col_spread_ok in Hspread. rewrite Hmm in Hspread.
  destruct (enc_col_num_layout w raws o mn mx) as (Hnd & Hdiff & Henc);
    [lia|discriminate|exact Hmm|lia|lia|].
  set (nd := Z.of_N (nbits_for_uint (Z.to_N (mx - mn + 1)))) in *.
  clearbody nd raws.
  exists (Z.to_N mn), nd,
    (map (fun v => match v with
                   | None => ones (Z.to_nat nd)
                   | Some x => to_bits (Z.to_nat nd) (x - Z.to_N mn)
                   end) (raw_view raws)).
  split.
  { rewrite Henc. unfold lay_col_num, lay_incs. rewrite flat_map_concat_map. reflexivity. }
  split; [exact Hnd|].
  assert (Hpn := pow2_pos_Z nd ltac:(lia)).
  clear Henc Hmm Imn Imx Hall Hflag Hrange.
  induction raws as [|v raws IH]; [constructor|].
  cbn [raw_view map]. constructor.
  - destruct v as [x|]; cbn [option_map].
    + destruct (Hdiff x (or_introl eq_refl)) as [Hx1 Hx2].
      split; [apply length_to_bits|].
      assert (Hlt : (Z.to_N x - Z.to_N mn < 2 ^ N.of_nat (Z.to_nat nd))%N).
      { rewrite Z2N_pow, <- Z2N_pow2 by lia. lia. }
      split.
      * rewrite to_bits_allones_iff by exact Hlt.
        rewrite Z2N_pow, <- Z2N_pow2m1 by lia.
        split; [intros E; exfalso; lia|discriminate].
      * intros y Ey. injection Ey as <-. rewrite of_bits_to_bits by exact Hlt. lia.
    + split; [unfold ones; apply repeat_length|].
      split; [rewrite all_ones_ones; split; reflexivity|discriminate].
  - apply IH. intros x Hx. apply Hdiff. right. exact Hx.
Qed.

(* ========================================================================== *)
(* 9. the independent reader                                                     *)
(* ========================================================================== *)

Lemma spec_incs_agree nb r0 : forall n r,
  (1 <= nb <= 64)%nat -> spec_incs nb r0 n r = dec_incs_num (N.of_nat nb) r0 n r.
Proof.
  induction n as [|n IH]; intros r Hnb; [reflexivity|].
  cbn [spec_incs dec_incs_num].
  unfold read_uint_or_none, read_uint.
  destruct (Z.leb_spec (Z.of_N (N.of_nat nb)) 0); [lia|].
  replace (Z.to_nat (Z.of_N (N.of_nat nb))) with nb by lia.
  destruct (take_bits nb r) as [[b r1]|e] eqn:Et; cbn [bind]; [|reflexivity].
  apply take_bits_ok in Et as [_ Hlen].
  rewrite IH by exact Hnb.
  rewrite all_ones_of_bits, Hlen.
  destruct (Z.ltb_spec 1 (Z.of_N (N.of_nat nb))) as [H1|H1].
  - destruct (Z.ltb_spec 64 (Z.of_N (N.of_nat nb))); [lia|].
    unfold missing_value. replace (Z.to_N (Z.of_N (N.of_nat nb))) with (N.of_nat nb) by lia.
    destruct (N.eqb_spec (of_bits b) (2 ^ N.of_nat nb - 1)) as [E|E]; cbn [bind onebit_rule].
    + reflexivity.
    + destruct (N.eqb_spec (N.of_nat nb) 1); [lia|]. rewrite andb_false_r. reflexivity.
  - replace (N.of_nat nb) with 1%N by lia. cbn [bind onebit_rule].
    change (2 ^ 1 - 1)%N with 1%N. rewrite N.eqb_refl, andb_true_r.
    destruct (of_bits b =? 1)%N; reflexivity.
Qed.

Lemma read_uint6 r :
  read_uint NBITS_FOR_NBITS_DIFF r = (let* (b, r') := take_bits 6 r in Ok (of_bits b, r')).
Proof. reflexivity. Qed.

(* C05 "and by an independent reader": on EVERY stream (legal or not, long
   enough or not) the implementation's numeric decoder and the FM 94 reading
   return the same result, for every element width 1..64.  (Beyond 64 bits the
   implementation raises IndexError; the reference reading has no such limit.) *)
Theorem spec_reader_agrees w n r :
  (1 <= w <= 64)%Z -> spec_dec_col_num w n r = dec_col_num w n r.
Proof.
  intros Hw. unfold spec_dec_col_num, dec_col_num, read_uint_or_none.
  destruct (Z.ltb_spec w 1); [lia|].
  unfold read_uint at 1. destruct (Z.leb_spec w 0); [lia|].
  destruct (take_bits (Z.to_nat w) r) as [[b0 r1]|e] eqn:E0; cbn [bind]; [|reflexivity].
  apply take_bits_ok in E0 as [_ Hl0].
  assert (Hmiss : ((1 <? w)%Z && bits_all_ones b0) =
                  ((1 <? w)%Z && (of_bits b0 =? missing_value (Z.to_N w))%N)).
  { rewrite all_ones_of_bits, Hl0. unfold missing_value. rewrite Z2N_pow by lia. reflexivity. }
  rewrite Hmiss. clear Hmiss.
  assert (Htail : forall (m : option N),
    (let* (bw, r2) := take_bits 6 r1 in
     match N.to_nat (of_bits bw) with
     | O => Ok (repeat (if opt_is_none m then None else Some (of_bits b0)) n, r2)
     | S _ as nb => if opt_is_none m then Err EBadColumn else spec_incs nb (of_bits b0) n r2
     end) =
    (let* (nd, r2) := read_uint NBITS_FOR_NBITS_DIFF r1 in
     match (if opt_is_none m then None else Some (of_bits b0)) with
     | None => if (nd =? 0)%N then Ok (repeat None n, r2) else Err EBadColumn
     | Some m0 => if (nd =? 0)%N then Ok (repeat (Some m0) n, r2) else dec_incs_num nd m0 n r2
     end)).
  { intros m. rewrite read_uint6.
    destruct (take_bits 6 r1) as [[bw r2]|e] eqn:E6; cbn [bind]; [|reflexivity].
    apply take_bits_ok in E6 as [_ Hl6]. pose proof (of_bits_lt bw) as Hlt. rewrite Hl6 in Hlt.
    change (2 ^ N.of_nat 6)%N with 64%N in Hlt.
    destruct (N.eqb_spec (of_bits bw) 0) as [Z0|Z0].
    - rewrite Z0. cbn [N.to_nat]. destruct (opt_is_none m); reflexivity.
    - destruct (N.to_nat (of_bits bw)) eqn:En; [lia|]. rewrite <- En.
      destruct (opt_is_none m); [reflexivity|].
      rewrite spec_incs_agree by lia. rewrite N2Nat.id. reflexivity. }
  destruct (Z.ltb_spec 1 w) as [H1|H1]; cbn [andb].
  - destruct (Z.ltb_spec 64 w); [lia|].
    destruct (of_bits b0 =? missing_value (Z.to_N w))%N; cbn [bind].
    + exact (Htail None).
    + exact (Htail (Some 0%N)).
  - cbn [bind]. exact (Htail (Some 0%N)).
Qed.

(* hence: the independent reader reads the encoder's output as the column *)
Corollary spec_reads_encoder w ae raws o t :
  col_dom_num w ae raws = true ->
  exists e, enc_col_num w ae raws o = Ok (o ++ e) /\
            spec_dec_col_num w (length raws) (e ++ t) = Ok (raw_view raws, t).
Proof.
  intros Hdom. destruct (col_roundtrip_num w ae raws o t Hdom) as (e & He & Hd).
  exists e. split; [exact He|]. rewrite spec_reader_agrees; [exact Hd|].
  unfold col_dom_num in Hdom. lia.
Qed.

(* ========================================================================== *)
(* 10. the uncompressed form of the same column; transparency                    *)
(* ========================================================================== *)

Theorem fields_roundtrip_num w raws : forall o t,
  (2 <= w <= 64)%Z -> forallb (col_in_range w) raws = true ->
  exists e, enc_fields_num w raws o = Ok (o ++ e) /\
            dec_fields_num w (length raws) (e ++ t) = Ok (raw_view raws, t).
Proof.
  induction raws as [|v raws IH]; intros o t Hw Hr.
  - exists []. cbn. rewrite app_nil_r. auto.
  - cbn [forallb] in Hr. apply andb_true_iff in Hr as [Hv Hr].
    assert (Hp := pow2_pos_Z w ltac:(lia)).
    set (m := match v with None => (2 ^ w - 1)%Z | Some x => x end).
    assert (Hm : (0 <= m < 2 ^ w)%Z) by (unfold m; destruct v; cbn in Hv; lia).
    destruct (IH (o ++ to_bits (Z.to_nat w) (Z.to_N m)) t Hw Hr) as (e & He & Hd).
    exists (to_bits (Z.to_nat w) (Z.to_N m) ++ e).
    cbn [enc_fields_num dec_fields_num length]. unfold enc_field_num, dec_field_num.
    assert (Em : (match v with None => numeric_missing w | Some x => Ok x end) = Ok m).
    { unfold m. destruct v; [reflexivity|]. apply numeric_missing_ok. lia. }
    rewrite Em. cbn [bind]. rewrite write_uint_ok by lia. cbn [bind].
    rewrite He, <- !app_assoc. split; [reflexivity|].
    rewrite read_uon_to_bits by (rewrite <- ?Z2N_pow2; lia). cbn [bind].
    rewrite Hd. cbn [bind raw_view map]. repeat f_equal.
    destruct (Z.ltb_spec 1 w); [|lia]. cbn [andb].
    unfold m. destruct v as [x|]; cbn [option_map].
    + cbn in Hv. rewrite <- Z2N_pow2m1 by lia.
      destruct (N.eqb_spec (Z.to_N x) (Z.to_N (2 ^ w - 1))); [lia|reflexivity].
    + rewrite Z2N_pow2m1 by lia. rewrite N.eqb_refl. reflexivity.
Qed.

(* C05 at column level: the compressed and the uncompressed form of the same
   column decode to the same values (namely the column) *)
Theorem col_transparent_num w ae raws o t :
  col_dom_num w ae raws = true ->
  exists ec eu vs,
    enc_col_num w ae raws o = Ok (o ++ ec) /\
    enc_fields_num w raws o = Ok (o ++ eu) /\
    dec_col_num w (length raws) (ec ++ t) = Ok (vs, t) /\
    dec_fields_num w (length raws) (eu ++ t) = Ok (vs, t) /\
    vs = raw_view raws.
Proof.
  intros Hdom. destruct (col_roundtrip_num w ae raws o t Hdom) as (ec & Hec & Hdc).
  unfold col_dom_num in Hdom.
  apply andb_true_iff in Hdom as [H _]. apply andb_true_iff in H as [H Hrange].
  apply andb_true_iff in H as [H _]. apply andb_true_iff in H as [Hw2 Hw64].
  destruct (fields_roundtrip_num w raws o t ltac:(lia) Hrange) as (eu & Heu & Hdu).
  exists ec, eu, (raw_view raws). auto.
Qed.

(* D18: a one-bit element has no missing pattern.  (i) the all-missing one-bit
   column does not survive compression: it reads back as the value 1;
   (ii) a partly missing one-bit column survives compression but not the
   uncompressed form: the two storage forms decode differently. *)
Theorem onebit_missing_refuted :
  (exists raws ae e vs,
     col_flag_ok ae raws = true /\ forallb (col_in_range 1) raws = true /\
     enc_col_num 1 ae raws [] = Ok e /\ dec_col_num 1 (length raws) e = Ok (vs, []) /\
     vs <> raw_view raws) /\
  (exists raws ae ec eu vc vu,
     col_flag_ok ae raws = true /\ forallb (col_in_range 1) raws = true /\
     enc_col_num 1 ae raws [] = Ok ec /\ enc_fields_num 1 raws [] = Ok eu /\
     dec_col_num 1 (length raws) ec = Ok (vc, []) /\
     dec_fields_num 1 (length raws) eu = Ok (vu, []) /\
     vc = raw_view raws /\ vu <> vc).
Proof.
  split.
  - exists [None; None], true. eexists. eexists.
    split; [reflexivity|]. split; [reflexivity|].
    split; [vm_compute; reflexivity|]. split; [vm_compute; reflexivity|].
    vm_compute. discriminate.
  - exists [None; Some 0%Z], false. eexists. eexists. eexists. eexists.
    split; [reflexivity|]. split; [reflexivity|].
    split; [vm_compute; reflexivity|]. split; [vm_compute; reflexivity|].
    split; [vm_compute; reflexivity|]. split; [vm_compute; reflexivity|].
    split; [vm_compute; reflexivity|]. vm_compute. discriminate.
Qed.

(* ========================================================================== *)
(* 11. character columns                                                         *)
(* ========================================================================== *)

Lemma bytes_eqb_eq a : forall b, col_bytes_eqb a b = true -> a = b.
Proof.
  induction a as [|x a IH]; intros [|y b]; cbn; intros H; try discriminate; [reflexivity|].
  apply andb_true_iff in H as [H1 H2]. f_equal; [lia|apply IH, H2].
Qed.

Lemma opt_bytes_eqb_eq a b : col_opt_bytes_eqb a b = true -> a = b.
Proof.
  destruct a, b; cbn; intros H; try discriminate; [f_equal; apply bytes_eqb_eq, H|reflexivity].
Qed.

Lemma forallb_bytes_eq_repeat (v0 : option (list byte)) l :
  forallb (col_opt_bytes_eqb v0) l = true -> l = repeat v0 (length l).
Proof.
  induction l as [|v l IH]; [reflexivity|]. cbn [forallb length repeat].
  intros H. apply andb_true_iff in H as [H1 H2]. apply opt_bytes_eqb_eq in H1. subst v.
  f_equal. apply IH, H2.
Qed.

Lemma is_byte_rep b n : is_byte b = true -> forallb is_byte (bytes_rep b n) = true.
Proof.
  intros Hb. unfold bytes_rep. apply forallb_forall. intros x Hx.
  apply repeat_spec in Hx. subst. exact Hb.
Qed.

Lemma str_or_missing_ok n v : col_opt_bytes_ok v = true -> forallb is_byte (str_or_missing n v) = true.
Proof. destruct v; cbn; [auto|]. intros _. apply is_byte_rep. reflexivity. Qed.

Lemma pad_bytes_rep b n : (0 <= n)%Z -> pad_bytes (bytes_rep b n) (Z.to_nat n) = bytes_rep b n.
Proof.
  intros Hn. unfold pad_bytes, bytes_rep. rewrite repeat_length, Nat.sub_diag. cbn [repeat].
  rewrite app_nil_r. rewrite <- (repeat_length b (Z.to_nat n)) at 1. apply firstn_all.
Qed.

Lemma is_prefix_refl x : bytes_is_prefix x x = true.
Proof. induction x as [|a x IH]; [reflexivity|]. cbn. rewrite N.eqb_refl. exact IH. Qed.

Lemma is_infix_refl x : bytes_is_infix x x = true.
Proof. destruct x; cbn [bytes_is_infix]; rewrite is_prefix_refl; reflexivity. Qed.

Lemma write_bytes_ok v n o :
  (0 <= n)%Z -> write_bytes v n o = Ok (o ++ bits_of_bytes (pad_bytes v (Z.to_nat n))).
Proof. intros H. unfold write_bytes. destruct (Z.ltb_spec n 0); [lia|reflexivity]. Qed.

Lemma read_bytes_pad v n t :
  (0 <= n)%Z -> forallb is_byte v = true ->
  read_bytes n (bits_of_bytes (pad_bytes v (Z.to_nat n)) ++ t) = Ok (pad_bytes v (Z.to_nat n), t).
Proof.
  intros Hn Hv.
  destruct (read_write_bytes v n [] _ t Hv (write_bytes_ok v n [] Hn)) as (e & He & _ & Hr).
  cbn [app] in He. subst e. exact Hr.
Qed.

(* the increments of a character column *)
Lemma str_incs_roundtrip nb vals : forall o t,
  (0 <= nb)%Z -> forallb col_opt_bytes_ok vals = true ->
  exists e, write_bytes_list (map (str_or_missing nb) vals) nb o = Ok (o ++ e) /\
            dec_incs_str nb [] (length vals) (e ++ t) = Ok (str_view nb vals, t).
Proof.
  induction vals as [|v vals IH]; intros o t Hnb Hok.
  - exists []. cbn. rewrite app_nil_r. auto.
  - cbn [forallb] in Hok. apply andb_true_iff in Hok as [Hv Hok].
    set (b := bits_of_bytes (pad_bytes (str_or_missing nb v) (Z.to_nat nb))).
    destruct (IH (o ++ b) t Hnb Hok) as (e & He & Hd).
    exists (b ++ e). cbn [map write_bytes_list length dec_incs_str].
    rewrite write_bytes_ok by lia. cbn [bind]. fold b. rewrite He, <- !app_assoc.
    split; [reflexivity|]. unfold b.
    rewrite read_bytes_pad by (try apply str_or_missing_ok; assumption). cbn [bind].
    rewrite Hd. reflexivity.
Qed.

Lemma str_view_repeat nb v n :
  str_view nb (repeat v n) = repeat (pad_bytes (str_or_missing nb v) (Z.to_nat nb)) n.
Proof. unfold str_view. induction n as [|n IH]; [reflexivity|]. cbn [repeat map]. rewrite IH. reflexivity. Qed.

Lemma str_view_width0 vals : str_view 0 vals = repeat [] (length vals).
Proof.
  unfold str_view. induction vals as [|v vals IH]; [reflexivity|].
  cbn [map length repeat]. rewrite IH. f_equal.
Qed.

(* both decoders (repaired and original) are instances of one reader that
   differs only in WHEN an all-zero base is blanked *)
Definition dec_col_str_gen (blank : N -> list byte -> bool) (nb : Z) (n : nat) (r : reader)
  : result (list (list byte) * reader) :=
  let* (mn, r1) := read_bytes nb r in
  let* (nd, r2) := read_uint NBITS_FOR_NBITS_DIFF r1 in
  let mn' := if blank nd mn then [] else mn in
  if (nd =? 0)%N then Ok (repeat mn' n, r2)
  else dec_incs_str (Z.of_N nd) mn' n r2.

Lemma dec_col_str_is_gen nb n r :
  dec_col_str nb n r = dec_col_str_gen (fun nd mn => negb (nd =? 0)%N && str_min_is_blank nb mn) nb n r.
Proof. reflexivity. Qed.
Lemma dec_col_str_orig_is_gen nb n r :
  dec_col_str_orig nb n r = dec_col_str_gen (fun _ mn => str_min_is_blank nb mn) nb n r.
Proof. reflexivity. Qed.

Lemma str_blank_zero_base nb :
  (0 < nb)%Z -> str_min_is_blank nb (pad_bytes (bytes_rep 0%N nb) (Z.to_nat nb)) = true.
Proof.
  intros Hnb. unfold str_min_is_blank. rewrite pad_bytes_rep by lia.
  assert (Eor : py_or_bytes (bytes_rep 0%N nb) (bytes_rep 255%N nb) = bytes_rep 0%N nb).
  { unfold bytes_rep. destruct (Z.to_nat nb) eqn:En; [lia|]. reflexivity. }
  rewrite Eor. apply is_infix_refl.
Qed.

Theorem col_roundtrip_str_gen (blank : N -> list byte -> bool) nb ae vals o t :
  col_dom_str nb ae vals = true ->
  (* an all-equal column: its base is kept as it is *)
  (ae = true -> forall v0, hd_error vals = Some v0 ->
     let b := pad_bytes (str_or_missing nb v0) (Z.to_nat nb) in
     (if blank 0%N b then @nil byte else b) = b) ->
  (* increments: the zero base is blanked *)
  ((0 < nb)%Z -> blank (Z.to_N nb) (pad_bytes (bytes_rep 0%N nb) (Z.to_nat nb)) = true) ->
  exists e, enc_col_str nb ae vals o = Ok (o ++ e) /\
            dec_col_str_gen blank nb (length vals) (e ++ t) = Ok (str_view nb vals, t).
Proof.
  unfold col_dom_str. intros H Hkeep Hblank.
  apply andb_true_iff in H as [H Hok]. apply andb_true_iff in H as [H Hflag].
  apply andb_true_iff in H as [Hn0 Hn63].
  destruct vals as [|v0 vals']; [discriminate|].
  set (vals := v0 :: vals') in *.
  destruct ae.
  - (* all equal (or all missing): base = the string, width 0 *)
    cbn [col_flag_ok_str vals] in Hflag. fold vals in Hflag.
    apply forallb_bytes_eq_repeat in Hflag.
    assert (Hv0 : col_opt_bytes_ok v0 = true).
    { cbn [forallb vals] in Hok. apply andb_true_iff in Hok as [Hv _]. exact Hv. }
    set (mv := str_or_missing nb v0).
    assert (Emv : (if true && opt_is_none v0 then bytes_rep 255%N nb
                   else if true then str_or_missing nb v0 else bytes_rep 0%N nb) = mv).
    { unfold mv. destruct v0; reflexivity. }
    exists (bits_of_bytes (pad_bytes mv (Z.to_nat nb)) ++ zeros 6). split.
    + unfold enc_col_str, vals. rewrite Emv.
      rewrite write_bytes_ok by lia. cbn [bind].
      unfold NBITS_FOR_NBITS_DIFF. rewrite write_uint_ok by (cbn; lia). cbn [bind].
      rewrite <- app_assoc. reflexivity.
    + unfold dec_col_str_gen. rewrite <- app_assoc.
      rewrite read_bytes_pad by (try apply str_or_missing_ok; try assumption; lia). cbn [bind].
      change (zeros 6) with (to_bits 6 (Z.to_N 0)). rewrite to_bits6_width by lia. cbn [bind].
      cbn [N.eqb Z.to_N].
      specialize (Hkeep eq_refl v0 eq_refl). cbn zeta in Hkeep. fold mv in Hkeep. rewrite Hkeep.
      rewrite Hflag at 2. rewrite str_view_repeat. reflexivity.
  - (* different: zero base, full-width increments *)
    destruct (Z.eq_dec nb 0) as [E0|E0].
    + subst nb. exists (zeros 6). split.
      * unfold enc_col_str, vals. cbn [andb].
        rewrite write_bytes_ok by lia. cbn [bind].
        unfold NBITS_FOR_NBITS_DIFF. rewrite write_uint_ok by (cbn; lia). cbn [bind].
        cbn. rewrite app_nil_r. reflexivity.
      * unfold dec_col_str_gen.
        change (zeros 6 ++ t) with (bits_of_bytes (pad_bytes [] (Z.to_nat 0)) ++ zeros 6 ++ t).
        rewrite read_bytes_pad by (try reflexivity; lia). cbn [bind].
        change (zeros 6) with (to_bits 6 (Z.to_N 0)). rewrite to_bits6_width by lia. cbn [bind].
        cbn [N.eqb Z.to_N]. rewrite str_view_width0.
        change (pad_bytes [] (Z.to_nat 0)) with (@nil byte).
        destruct (blank 0%N []); reflexivity.
    + destruct (str_incs_roundtrip nb vals
                  (o ++ bits_of_bytes (bytes_rep 0%N nb) ++ to_bits 6 (Z.to_N nb)) t) as (e & He & Hd);
        [lia|exact Hok|].
      exists (bits_of_bytes (bytes_rep 0%N nb) ++ to_bits 6 (Z.to_N nb) ++ e). split.
      * unfold enc_col_str, vals. cbn [andb].
        rewrite write_bytes_ok by lia. cbn [bind]. rewrite pad_bytes_rep by lia.
        unfold NBITS_FOR_NBITS_DIFF. rewrite write_uint_ok by (change (2 ^ 6)%Z with 64%Z; lia).
        cbn [bind]. destruct (Z.eqb_spec nb 0); [lia|].
        fold vals. rewrite <- !app_assoc in *. exact He.
      * unfold dec_col_str_gen. rewrite <- !app_assoc.
        rewrite <- (pad_bytes_rep 0%N nb) at 1 by lia.
        rewrite read_bytes_pad by (try (apply is_byte_rep; reflexivity); lia). cbn [bind].
        rewrite to_bits6_width by lia. cbn [bind].
        destruct (N.eqb_spec (Z.to_N nb) 0); [lia|].
        rewrite Hblank by lia. rewrite Z2N.id by lia. exact Hd.
Qed.

(* C05, character columns (after the D13 repair): missing, equal, different,
   NUL, 0xFF, short (space padded) and long (truncated) entries, any number of
   subsets, 0..63 octets. *)
Theorem col_roundtrip_str nb ae vals o t :
  col_dom_str nb ae vals = true ->
  exists e, enc_col_str nb ae vals o = Ok (o ++ e) /\
            dec_col_str nb (length vals) (e ++ t) = Ok (str_view nb vals, t).
Proof.
  intros Hdom.
  destruct (col_roundtrip_str_gen (fun nd mn => negb (nd =? 0)%N && str_min_is_blank nb mn)
              nb ae vals o t Hdom) as (e & He & Hd).
  - intros _ v0 _. reflexivity.
  - intros Hnb. destruct (N.eqb_spec (Z.to_N nb) 0); [lia|]. cbn [negb andb].
    apply str_blank_zero_base, Hnb.
  - exists e. split; [exact He|]. rewrite dec_col_str_is_gen. exact Hd.
Qed.

(* Python's [x in s] for two byte strings of the same length is equality *)
Lemma is_prefix_length x : forall s, bytes_is_prefix x s = true -> (length x <= length s)%nat.
Proof.
  induction x as [|a x IH]; intros [|b s]; cbn; intros H; try lia; try discriminate.
  apply andb_true_iff in H as [_ H]. apply IH in H. lia.
Qed.

Lemma is_infix_length x : forall s, bytes_is_infix x s = true -> (length x <= length s)%nat.
Proof.
  induction s as [|b s IH]; cbn [bytes_is_infix]; intros H.
  - rewrite orb_false_r in H. apply is_prefix_length in H. exact H.
  - apply orb_true_iff in H as [H|H]; [apply is_prefix_length, H|].
    apply IH in H. cbn [length]. lia.
Qed.

Lemma is_prefix_same_length x : forall s,
  length x = length s -> bytes_is_prefix x s = true -> x = s.
Proof.
  induction x as [|a x IH]; intros [|b s] Hl; cbn; intros H; try discriminate; [reflexivity|].
  apply andb_true_iff in H as [H1 H2]. cbn in Hl. f_equal; [lia|apply IH; [lia|exact H2]].
Qed.

Lemma is_infix_same_length x s :
  length x = length s -> bytes_is_infix x s = true -> x = s.
Proof.
  intros Hl H. destruct s as [|b s].
  - destruct x; [reflexivity|discriminate].
  - cbn [bytes_is_infix] in H. apply orb_true_iff in H as [H|H].
    + apply is_prefix_same_length; assumption.
    + apply is_infix_length in H. cbn [length] in Hl. lia.
Qed.

(* the decoder as it was BEFORE the repair round-trips exactly the columns
   outside the guard: everything except all-equal columns of NUL strings *)
Theorem col_roundtrip_str_orig_guarded nb ae vals o t :
  col_dom_str nb ae vals = true ->
  is_equal_nul_col nb ae vals = false ->
  exists e, enc_col_str nb ae vals o = Ok (o ++ e) /\
            dec_col_str_orig nb (length vals) (e ++ t) = Ok (str_view nb vals, t).
Proof.
  intros Hdom Hguard.
  destruct (col_roundtrip_str_gen (fun _ mn => str_min_is_blank nb mn) nb ae vals o t Hdom)
    as (e & He & Hd).
  - intros -> v0 Hhd. cbn zeta.
    set (b := pad_bytes (str_or_missing nb v0) (Z.to_nat nb)).
    destruct (str_min_is_blank nb b) eqn:Hb; [|reflexivity].
    (* blanked: then b is the zero string, or empty *)
    unfold col_dom_str in Hdom. apply andb_true_iff in Hdom as [Hd0 _].
    apply andb_true_iff in Hd0 as [Hd0 _]. apply andb_true_iff in Hd0 as [Hn0 _].
    destruct (Z.eq_dec nb 0) as [E0|E0].
    { subst nb. unfold b. reflexivity. }
    exfalso. unfold str_min_is_blank in Hb.
    assert (Eor : py_or_bytes (bytes_rep 0%N nb) (bytes_rep 255%N nb) = bytes_rep 0%N nb).
    { unfold bytes_rep. destruct (Z.to_nat nb) eqn:En; [lia|]. reflexivity. }
    rewrite Eor in Hb.
    apply is_infix_same_length in Hb;
      [|unfold b, bytes_rep; rewrite length_pad_bytes, repeat_length; reflexivity].
    destruct vals as [|v vals']; [discriminate|]. cbn in Hhd. injection Hhd as ->.
    destruct v0 as [s0|].
    + cbn [is_equal_nul_col andb] in Hguard.
      destruct (Z.ltb_spec 0 nb); [|lia]. cbn [andb] in Hguard.
      unfold b in Hb. cbn [str_or_missing] in Hb. rewrite Hb in Hguard.
      assert (forallb (fun x : N => (x =? 0)%N) (bytes_rep 0%N nb) = true).
      { apply forallb_forall. intros x Hx. apply repeat_spec in Hx. subst x. reflexivity. }
      congruence.
    + unfold b in Hb. cbn [str_or_missing] in Hb. rewrite pad_bytes_rep in Hb by lia.
      unfold bytes_rep in Hb. destruct (Z.to_nat nb) eqn:En; [lia|]. cbn in Hb. discriminate.
  - intros Hnb. apply str_blank_zero_base, Hnb.
  - exists e. split; [exact He|]. rewrite dec_col_str_orig_is_gen. exact Hd.
Qed.

(* the uncompressed form of a character column *)
Theorem fields_roundtrip_str nb vals : forall o t,
  (0 <= nb)%Z -> forallb col_opt_bytes_ok vals = true ->
  exists e, enc_fields_str nb vals o = Ok (o ++ e) /\
            dec_fields_str nb (length vals) (e ++ t) = Ok (str_view nb vals, t).
Proof.
  induction vals as [|v vals IH]; intros o t Hnb Hok.
  - exists []. cbn. rewrite app_nil_r. auto.
  - cbn [forallb] in Hok. apply andb_true_iff in Hok as [Hv Hok].
    set (b := bits_of_bytes (pad_bytes (str_or_missing nb v) (Z.to_nat nb))).
    destruct (IH (o ++ b) t Hnb Hok) as (e & He & Hd).
    exists (b ++ e). cbn [enc_fields_str length dec_fields_str]. unfold enc_field_str.
    rewrite write_bytes_ok by lia. cbn [bind]. fold b. rewrite He, <- !app_assoc.
    split; [reflexivity|]. unfold b.
    rewrite read_bytes_pad by (try apply str_or_missing_ok; assumption). cbn [bind].
    rewrite Hd. reflexivity.
Qed.

Theorem col_transparent_str nb ae vals o t :
  col_dom_str nb ae vals = true ->
  exists ec eu vs,
    enc_col_str nb ae vals o = Ok (o ++ ec) /\
    enc_fields_str nb vals o = Ok (o ++ eu) /\
    dec_col_str nb (length vals) (ec ++ t) = Ok (vs, t) /\
    dec_fields_str nb (length vals) (eu ++ t) = Ok (vs, t) /\
    vs = str_view nb vals.
Proof.
  intros Hdom. destruct (col_roundtrip_str nb ae vals o t Hdom) as (ec & Hec & Hdc).
  unfold col_dom_str in Hdom.
  apply andb_true_iff in Hdom as [H Hok]. apply andb_true_iff in H as [H _].
  apply andb_true_iff in H as [Hn0 _].
  destruct (fields_roundtrip_str nb vals o t ltac:(lia) Hok) as (eu & Heu & Hdu).
  exists ec, eu, (str_view nb vals). auto.
Qed.

(* D13, the code before the repair: an all-equal column of NUL strings came back
   as empty strings, while the uncompressed form returns the NUL octets *)
Theorem col_str_nul_refuted :
  exists nb ae vals ec eu vc vu,
    col_dom_str nb ae vals = true /\ is_equal_nul_col nb ae vals = true /\
    enc_col_str nb ae vals [] = Ok ec /\ enc_fields_str nb vals [] = Ok eu /\
    dec_col_str_orig nb (length vals) ec = Ok (vc, []) /\
    dec_fields_str nb (length vals) eu = Ok (vu, []) /\
    vu = str_view nb vals /\ vc <> vu.
Proof.
  exists 2%Z, true, [Some [0; 0]%N; Some [0; 0]%N].
  eexists. eexists. eexists. eexists.
  split; [reflexivity|]. split; [reflexivity|].
  split; [vm_compute; reflexivity|]. split; [vm_compute; reflexivity|].
  split; [vm_compute; reflexivity|]. split; [vm_compute; reflexivity|].
  split; [vm_compute; reflexivity|]. vm_compute. discriminate.
Qed.

(* the repaired decoder on the same witness *)
Example col_str_nul_repaired :
  let vals := [Some [0; 0]%N; Some [0; 0]%N] in
  (let* e := enc_col_str 2 true vals [] in dec_col_str 2 2 e) = Ok (str_view 2 vals, []).
Proof. vm_compute. reflexivity. Qed.

(* ========================================================================== *)
(* 12. new reference values (203YYY) and constants                               *)
(* ========================================================================== *)

Theorem col_roundtrip_refval w v o o' n t :
  enc_col_refval w true (Some v) o = Ok o' ->
  exists e, o' = o ++ e /\ length e = (Z.to_nat w + 6)%nat /\
            dec_col_refval w n (e ++ t) = Ok (v, t).
Proof.
  unfold enc_col_refval. cbn [negb].
  destruct (write_int v w o) as [o1|er] eqn:E1; cbn [bind]; [|discriminate].
  unfold NBITS_FOR_NBITS_DIFF. rewrite write_uint_ok by (cbn; lia).
  intros E; injection E as <-.
  destruct (read_write_int v w o o1 (zeros 6 ++ t) E1) as (e & -> & Hl & Hr).
  exists (e ++ zeros 6). split; [rewrite <- app_assoc; reflexivity|].
  split; [rewrite app_length, Hl; reflexivity|].
  unfold dec_col_refval. rewrite <- app_assoc, Hr. cbn [bind].
  change (zeros 6) with (to_bits 6 (Z.to_N 0)). rewrite to_bits6_width by lia. reflexivity.
Qed.

(* accepted exactly when all subsets agree, the value is present and fits *)
Theorem enc_col_refval_refuses w ae v o :
  (exists o', enc_col_refval w ae v o = Ok o') <->
  ae = true /\ exists x, v = Some x /\ (1 < w)%Z /\ (Z.abs x < 2 ^ (w - 1))%Z.
Proof.
  unfold enc_col_refval. destruct ae; cbn [negb].
  2:{ split; [intros [o' H]; discriminate|intros [H _]; discriminate]. }
  destruct v as [x|].
  2:{ split; [intros [o' H]; discriminate|intros (_ & x & H & _); discriminate]. }
  unfold write_int, write_bool. cbn [bind].
  split.
  - intros [o' H].
    destruct (write_uint (Z.abs x) (w - 1) (o ++ [(x <? 0)%Z])) as [o1|er] eqn:E1; cbn [bind] in H; [|discriminate].
    apply write_uint_exact in E1 as (_ & Hr & Hw). split; [reflexivity|]. exists x. repeat split; lia.
  - intros (_ & x' & Ex & Hw & Hx). injection Ex as <-.
    rewrite write_uint_ok by lia. cbn [bind].
    unfold NBITS_FOR_NBITS_DIFF. rewrite write_uint_ok by (cbn; lia). eauto.
Qed.

(* ========================================================================== *)
(* 13. non-vacuity                                                               *)
(* ========================================================================== *)

(* a 3-subset numeric column with a missing entry, width 4: the encoder picks
   a 3-bit increment (max - min + 1 = 3 is all ones) *)
Example col_roundtrip_num_nonvacuous :
  let raws := [Some 1; None; Some 3]%Z in
  col_dom_num 4 false raws = true /\
  enc_col_num 4 false raws [true] =
    Ok ([true] ++ [false;false;false;true] ++ [false;false;false;false;true;true]
               ++ [false;false;false] ++ [true;true;true] ++ [false;true;false]) /\
  (let* o := enc_col_num 4 false raws [true] in dec_col_num 4 3 (tl o ++ [false])) =
    Ok (raw_view raws, [false]).
Proof. split; [reflexivity|]. split; vm_compute; reflexivity. Qed.

(* the same column laid out with the (legal, smaller) 2-bit increments the
   encoder would not choose *)
Example dec_col_any_width_nonvacuous :
  dec_col_num 4 3 (lay_col_num 4 2 1 [Some 1; None; Some 3]%N ++ [true]) =
    Ok ([Some 1; None; Some 3]%N, [true]).
Proof. vm_compute. reflexivity. Qed.

(* the one-bit rule: base 5, width 1, increments 0 1 0 *)
Example onebit_rule_nonvacuous :
  dec_col_num 4 3 (lay_col_num 4 1 5 [Some 5; None; Some 5]%N) = Ok ([Some 5; None; Some 5]%N, []).
Proof. vm_compute. reflexivity. Qed.

Example col_roundtrip_codeflag_nonvacuous :
  let raws := [Some 14; None; Some 0; Some 14]%Z in
  col_dom_num 4 false raws = true /\
  (let* o := enc_col_codeflag 4 false raws [] in dec_col_codeflag 4 4 4 o) = Ok (raw_view raws, []).
Proof. split; vm_compute; reflexivity. Qed.

(* a character column: missing, short (space padded), long (truncated) *)
Example col_roundtrip_str_nonvacuous :
  let vals := [Some [65; 66; 67]; None; Some [65]; Some [65; 66; 67; 68]]%N in
  col_dom_str 3 false vals = true /\
  (let* o := enc_col_str 3 false vals [] in dec_col_str 3 4 (o ++ [true])) =
    Ok ([[65; 66; 67]; [255; 255; 255]; [65; 32; 32]; [65; 66; 67]]%N, [true]).
Proof. split; vm_compute; reflexivity. Qed.

Example col_roundtrip_onebit_nonvacuous :
  col_dom_onebit false [Some 0; Some 1; Some 1]%Z = true /\
  (let* o := enc_col_num 1 false [Some 0; Some 1; Some 1]%Z [] in dec_col_num 1 3 o) =
    Ok ([Some 0; Some 1; Some 1]%N, []).
Proof. split; vm_compute; reflexivity. Qed.

Example col_roundtrip_refval_nonvacuous :
  (let* o := enc_col_refval 12 true (Some (-1000)%Z) [] in dec_col_refval 12 3 o) = Ok ((-1000)%Z, []).
Proof. vm_compute. reflexivity. Qed.

(* a 64-bit column whose spread does not fit the 6-bit width field is refused *)
Example spread_too_large_refused :
  enc_col_num 64 false [Some 0; Some (2 ^ 64 - 2)]%Z [] = Err EValue /\
  col_dom_num 64 false [Some 0; Some (2 ^ 64 - 2)]%Z = false /\
  col_dom_num 64 false [Some 5; None; Some (2 ^ 63 + 2)]%Z = true.
Proof. split; [|split]; vm_compute; reflexivity. Qed.

(* Outside the property's domain (observation, reproduced on the implementation):
   when the only present value of a partly missing column IS the element's
   all-ones pattern, the encoder writes an all-ones base with a non-zero width —
   a column its own decoder refuses (assert).  The quantifier of C05 excludes
   the value 2^w - 1, which is the encoding of "missing". *)
Example allones_value_with_missing_is_refused :
  col_dom_num 3 false [None; Some 7]%Z = false /\
  (let* o := enc_col_num 3 false [None; Some 7]%Z [] in dec_col_num 3 2 o) = Err EBadColumn /\
  (let* o := enc_fields_num 3 [None; Some 7]%Z [] in dec_fields_num 3 2 o) = Ok ([None; None], []).
Proof. split; [|split]; vm_compute; reflexivity. Qed.

(* ========================================================================== *)
(* 14. reading a column is independent of what follows it                        *)
(*     (base of the whole-message suffix-independence statements)                *)
(* ========================================================================== *)

Lemma read_uon_suffix w r v r' t :
  read_uint_or_none w r = Ok (v, r') -> read_uint_or_none w (r ++ t) = Ok (v, r' ++ t).
Proof.
  unfold read_uint_or_none.
  destruct (read_uint w r) as [[x r1]|e] eqn:E; cbn [bind]; [|discriminate].
  rewrite (read_uint_suffix _ _ _ _ t E). cbn [bind].
  destruct (1 <? w)%Z; [|intros H; injection H as <- <-; reflexivity].
  destruct (64 <? w)%Z; [discriminate|].
  destruct (x =? missing_value (Z.to_N w))%N; intros H; injection H as <- <-; reflexivity.
Qed.

Lemma read_bytes_suffix n r v r' t :
  read_bytes n r = Ok (v, r') -> read_bytes n (r ++ t) = Ok (v, r' ++ t).
Proof.
  unfold read_bytes. destruct (n <? 0)%Z; [discriminate|].
  destruct (take_bits _ r) as [[b r1]|e] eqn:E; cbn [bind]; [|discriminate].
  intros H; injection H as <- <-. rewrite (take_bits_suffix _ _ _ _ t E). reflexivity.
Qed.

Lemma dec_incs_num_suffix wd mn t : forall n r vs r',
  dec_incs_num wd mn n r = Ok (vs, r') -> dec_incs_num wd mn n (r ++ t) = Ok (vs, r' ++ t).
Proof.
  induction n as [|n IH]; intros r vs r'; cbn [dec_incs_num].
  - intros H; injection H as <- <-. reflexivity.
  - destruct (read_uint_or_none (Z.of_N wd) r) as [[d r1]|e] eqn:E; cbn [bind]; [|discriminate].
    rewrite (read_uon_suffix _ _ _ _ t E). cbn [bind].
    destruct (dec_incs_num wd mn n r1) as [[vs1 r2]|e] eqn:E1; cbn [bind]; [|discriminate].
    rewrite (IH _ _ _ E1). cbn [bind]. intros H; injection H as <- <-. reflexivity.
Qed.

Theorem dec_col_num_suffix w n r vs r' t :
  dec_col_num w n r = Ok (vs, r') -> dec_col_num w n (r ++ t) = Ok (vs, r' ++ t).
Proof.
  unfold dec_col_num.
  destruct (read_uint_or_none w r) as [[mn r1]|e] eqn:E; cbn [bind]; [|discriminate].
  rewrite (read_uon_suffix _ _ _ _ t E). cbn [bind].
  destruct (read_uint NBITS_FOR_NBITS_DIFF r1) as [[nd r2]|e] eqn:E6; cbn [bind]; [|discriminate].
  rewrite (read_uint_suffix _ _ _ _ t E6). cbn [bind].
  destruct mn as [m|]; destruct (nd =? 0)%N; try discriminate;
    try (intros H; injection H as <- <-; reflexivity).
  apply dec_incs_num_suffix.
Qed.

Lemma dec_incs_codeflag_suffix wd dn mn t : forall n r vs r',
  dec_incs_codeflag wd dn mn n r = Ok (vs, r') -> dec_incs_codeflag wd dn mn n (r ++ t) = Ok (vs, r' ++ t).
Proof.
  induction n as [|n IH]; intros r vs r'; cbn [dec_incs_codeflag].
  - intros H; injection H as <- <-. reflexivity.
  - destruct (read_uint_or_none (Z.of_N wd) r) as [[d r1]|e] eqn:E; cbn [bind]; [|discriminate].
    rewrite (read_uon_suffix _ _ _ _ t E). cbn [bind].
    destruct (match onebit_rule wd d with
              | Some x => codeflag_recheck dn (mn + x)
              | None => Ok None
              end) as [v|e]; cbn [bind]; [|discriminate].
    destruct (dec_incs_codeflag wd dn mn n r1) as [[vs1 r2]|e] eqn:E1; cbn [bind]; [|discriminate].
    rewrite (IH _ _ _ E1). cbn [bind]. intros H; injection H as <- <-. reflexivity.
Qed.

Theorem dec_col_codeflag_suffix w dn n r vs r' t :
  dec_col_codeflag w dn n r = Ok (vs, r') -> dec_col_codeflag w dn n (r ++ t) = Ok (vs, r' ++ t).
Proof.
  unfold dec_col_codeflag.
  destruct (read_uint_or_none w r) as [[mn r1]|e] eqn:E; cbn [bind]; [|discriminate].
  rewrite (read_uon_suffix _ _ _ _ t E). cbn [bind].
  destruct (read_uint NBITS_FOR_NBITS_DIFF r1) as [[nd r2]|e] eqn:E6; cbn [bind]; [|discriminate].
  rewrite (read_uint_suffix _ _ _ _ t E6). cbn [bind].
  destruct (opt_is_none mn || (nd =? 0)%N).
  - destruct (nd =? 0)%N; [|discriminate]. intros H; injection H as <- <-. reflexivity.
  - destruct mn as [m|]; [|discriminate]. apply dec_incs_codeflag_suffix.
Qed.

Lemma dec_incs_str_suffix nd mn t : forall n r vs r',
  dec_incs_str nd mn n r = Ok (vs, r') -> dec_incs_str nd mn n (r ++ t) = Ok (vs, r' ++ t).
Proof.
  induction n as [|n IH]; intros r vs r'; cbn [dec_incs_str].
  - intros H; injection H as <- <-. reflexivity.
  - destruct (read_bytes nd r) as [[d r1]|e] eqn:E; cbn [bind]; [|discriminate].
    rewrite (read_bytes_suffix _ _ _ _ t E). cbn [bind].
    destruct (dec_incs_str nd mn n r1) as [[vs1 r2]|e] eqn:E1; cbn [bind]; [|discriminate].
    rewrite (IH _ _ _ E1). cbn [bind]. intros H; injection H as <- <-. reflexivity.
Qed.

Theorem dec_col_str_suffix nb n r vs r' t :
  dec_col_str nb n r = Ok (vs, r') -> dec_col_str nb n (r ++ t) = Ok (vs, r' ++ t).
Proof.
  unfold dec_col_str.
  destruct (read_bytes nb r) as [[mn r1]|e] eqn:E; cbn [bind]; [|discriminate].
  rewrite (read_bytes_suffix _ _ _ _ t E). cbn [bind].
  destruct (read_uint NBITS_FOR_NBITS_DIFF r1) as [[nd r2]|e] eqn:E6; cbn [bind]; [|discriminate].
  rewrite (read_uint_suffix _ _ _ _ t E6). cbn [bind].
  destruct (nd =? 0)%N.
  - intros H; injection H as <- <-. reflexivity.
  - apply dec_incs_str_suffix.
Qed.

(* Outside the property's domain (observation, reproduced on the implementation):
   the compressed encoder accepts a value that does not fit the element when the
   column minimum fits — 20 in a 4-bit element travels as minimum 3 plus a 5-bit
   increment and is decoded as 20 — while the uncompressed encoder refuses it. *)
Example out_of_range_value_accepted_compressed :
  (let* o := enc_col_num 4 false [Some 3; Some 20]%Z [] in dec_col_num 4 2 o) = Ok ([Some 3; Some 20]%N, []) /\
  enc_fields_num 4 [Some 3; Some 20]%Z [] = Err EValue.
Proof. split; vm_compute; reflexivity. Qed.
