(* DecodeLaws.v — the clauses of C01 as lemmas about the decoder instance of the
   walker: what one element / operator does, for all registers and bit patterns. *)
From PBK Require Import Base Bits BitsProofs Descr Walk Coder Decode.
From Coq Require Import ZifyBool ZifyNat ZifyN.

Notation DH := (io_handlers dec_prims).

(* numeric value = (raw + reference) / 10^scale; an integer when the scale is 0 *)
Lemma numeric_value_law raw scale refval :
  numeric_value raw scale refval =
  if (scale =? 0)%Z then VInt (Z.of_N raw + refval) else VDec (Z.of_N raw + refval) scale.
Proof. reflexivity. Qed.

(* a numeric / code field of width w: missing iff w > 1 and all ones; otherwise raw *)
Lemma dec_numeric_law w scale refval (raw : N) t vals cur :
  (1 <= w <= 64)%Z -> (raw < 2 ^ Z.to_N w)%N ->
  dec_numeric w scale refval (mkD (to_bits (Z.to_nat w) raw ++ t) vals cur) =
  Ok (d_append (if (1 <? w)%Z && (raw =? 2 ^ Z.to_N w - 1)%N then VNone
                else numeric_value raw scale refval) (mkD (to_bits (Z.to_nat w) raw ++ t) vals cur) t).
Proof.
  intros Hw Hraw. unfold dec_numeric. cbn [d_r].
  destruct (missing_iff w raw t Hw Hraw) as (x & E & Hnone & Hsome). rewrite E. cbn [bind].
  destruct (Z.ltb_spec 1 w); cbn [andb].
  - destruct (N.eqb_spec raw (2 ^ Z.to_N w - 1)).
    + assert (x = None) by (apply Hnone; split; assumption). subst x. reflexivity.
    + destruct x as [v|]; [|exfalso; apply n; apply Hnone; reflexivity].
      injection (Hsome ltac:(discriminate)) as ->. reflexivity.
  - destruct x as [v|]; [|exfalso; destruct Hnone as [Hn _]; specialize (Hn eq_refl); lia].
    injection (Hsome ltac:(discriminate)) as ->. reflexivity.
Qed.

Lemma dec_codeflag_law w dn (raw : N) t vals cur :
  (1 <= w <= 64)%Z -> (raw < 2 ^ Z.to_N w)%N ->
  dec_codeflag w dn (mkD (to_bits (Z.to_nat w) raw ++ t) vals cur) =
  Ok (d_append (if (1 <? w)%Z && (raw =? 2 ^ Z.to_N w - 1)%N then VNone
                else VInt (Z.of_N raw)) (mkD (to_bits (Z.to_nat w) raw ++ t) vals cur) t).
Proof.
  intros Hw Hraw. unfold dec_codeflag. cbn [d_r].
  destruct (missing_iff w raw t Hw Hraw) as (x & E & Hnone & Hsome). rewrite E. cbn [bind].
  destruct (Z.ltb_spec 1 w); cbn [andb].
  - destruct (N.eqb_spec raw (2 ^ Z.to_N w - 1)).
    + assert (x = None) by (apply Hnone; split; assumption). subst x. reflexivity.
    + destruct x as [v|]; [|exfalso; apply n; apply Hnone; reflexivity].
      injection (Hsome ltac:(discriminate)) as ->. reflexivity.
  - destruct x as [v|]; [|exfalso; destruct Hnone as [Hn _]; specialize (Hn eq_refl); lia].
    injection (Hsome ltac:(discriminate)) as ->. reflexivity.
Qed.

(* the element dispatch: width, scale and reference with 201/202/207/203 in force *)
Lemma element_numeric_law e (s : ws (io dstate)) :
  kind_of_unit (e_unit e) = KNumeric ->
  (r_assoc (w_r s) = [] \/ desc_X (e_id e) = 31%N) ->
  desc_X (e_id e) <> 33%N -> r_qa (w_r s) <> QA_INFO_PROCESSING ->
  do_element DH (DDElem e) e s =
  let r := w_r s in
  let nbits := (e_nbits e + r_nbits_offset r + bsr_nbits (r_bsr r))%Z in
  let scale := (e_scale e + r_scale_offset r + bsr_scale (r_bsr r))%Z in
  match refval_lookup (e_id e) (r_new_refvals r) with
  | None => lift (DDElem e) (dec_numeric nbits scale (e_refval e * bsr_factor (r_bsr r))) s
  | Some (Some v) => lift (DDElem e) (dec_numeric nbits scale (v * bsr_factor (r_bsr r))) s
  | Some None => Err EType
  end.
Proof.
  intros Hk Ha Hx Hq. unfold do_element.
  assert (E1 : elem_assoc DH e s = Ok s).
  { unfold elem_assoc, elem_assoc_r. destruct Ha as [-> | ->]; [reflexivity|].
    destruct (r_assoc (w_r s)); reflexivity. }
  rewrite E1. cbn [bind].
  assert (E2 : elem_qa DH e s = Ok s).
  { unfold elem_qa, elem_qa_r.
    destruct (N.eqb_spec (desc_X (e_id e)) 33); [contradiction|].
    destruct (N.eqb_spec (r_qa (w_r s)) QA_INFO_PROCESSING); [contradiction|reflexivity]. }
  rewrite E2. cbn [bind]. unfold elem_body, elem_body_r. rewrite Hk. cbv zeta.
  destruct (refval_lookup (e_id e) (r_new_refvals (w_r s))) as [[v|]|] eqn:El.
  - cbn [io_handlers h_numeric_new_refval dd_id]. rewrite El. reflexivity.
  - cbn [io_handlers h_numeric_new_refval dd_id]. rewrite El. reflexivity.
  - reflexivity.
Qed.

(* operators 201, 202, 207 *)
Lemma op201_law Y body (s : ws (io dstate)) : (Y < 1000)%N ->
  do_operator DH (201000 + Y) body s =
  Ok (upd_r (set_nbits_offset (if (Y =? 0)%N then 0 else Z.of_N Y - 128)%Z) s).
Proof.
  intros HY. unfold do_operator, do_operator_r.
  replace ((201000 + Y) / 1000)%N with 201%N by (first [apply N.div_unique with Y; lia | symmetry; apply N.div_unique with Y; lia]).
  replace ((201000 + Y) mod 1000)%N with Y by (first [apply N.mod_unique with 201%N; lia | symmetry; apply N.mod_unique with 201%N; lia]).
  cbn [N.eqb Pos.eqb]. destruct (N.eqb_spec Y 0); subst; [reflexivity|].
  destruct (Z.eqb_spec (Z.of_N Y) 0); [lia|reflexivity].
Qed.

Lemma op207_law Y body (s : ws (io dstate)) : (0 < Y < 1000)%N ->
  do_operator DH (207000 + Y) body s =
  Ok (upd_r (set_bsr (mkBsr ((10 * Z.of_N Y + 2) / 3) (Z.of_N Y) (10 ^ Z.of_N Y))) s).
Proof.
  intros HY. unfold do_operator, do_operator_r.
  replace ((207000 + Y) / 1000)%N with 207%N by (first [apply N.div_unique with Y; lia | symmetry; apply N.div_unique with Y; lia]).
  replace ((207000 + Y) mod 1000)%N with Y by (first [apply N.mod_unique with 207%N; lia | symmetry; apply N.mod_unique with 207%N; lia]).
  cbn [N.eqb Pos.eqb]. destruct (Z.eqb_spec (Z.of_N Y) 0); [lia|reflexivity].
Qed.

(* difference statistics: width + 1 and reference -2^width *)
Lemma marker225_law e :
  marker_elem 225255 e = mkElem (e_id e) (e_unit e) (e_scale e) (- 2 ^ e_nbits e) (e_nbits e + 1).
Proof. reflexivity. Qed.
Lemma marker_other_law m e : m <> 225255%N -> marker_elem m e = e.
Proof. intros H. unfold marker_elem. destruct (N.eqb_spec m 225255); [contradiction|reflexivity]. Qed.

(* labels *)
Lemma label_law :
  (forall e, dd_label (DDElem e) = (0, e_id e)%N) /\
  (forall id w, dd_label (DDAssoc id w) = (65, id)%N) /\
  (forall id w, dd_label (DDSkipped id w) = (83, id)%N) /\
  (forall e, dd_label (DDMarker e 223255) = (84, e_id e)%N) /\
  (forall e, dd_label (DDMarker e 224255) = (70, e_id e)%N) /\
  (forall e, dd_label (DDMarker e 225255) = (68, e_id e)%N) /\
  (forall e, dd_label (DDMarker e 232255) = (82, e_id e)%N).
Proof. repeat split. Qed.

(* replication: a fixed replication runs its members YYY times; a delayed one
   reads its factor and then runs the members that many times *)
Lemma fixed_replication_law id ms (s : ws (io dstate)) :
  walk DH io_add_link (DFixed id ms) s = iter_res (id mod 1000)%N (walk_list DH io_add_link ms) s.
Proof. reflexivity. Qed.

Lemma delayed_replication_law id e ms (s : ws (io dstate)) :
  walk DH io_add_link (DDelayed id (DElem e) ms) s =
  (let* s1 := do_element DH (DDElem e) e s in
   let* n := dec_factor (io_c (w_c s1)) in
   iter_res n (walk_list DH io_add_link ms) s1).
Proof. reflexivity. Qed.

(* an undefined descriptor that is reached makes decoding fail with UnknownDescriptor *)
Lemma undefined_descriptor_law id (s : ws (io dstate)) :
  walk DH io_add_link (DUndefElem id) s = Err EUnknownDescriptor /\
  walk DH io_add_link (DUndefSeq id) s = Err EUnknownDescriptor.
Proof. split; reflexivity. Qed.
