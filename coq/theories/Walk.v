(* Walk.v — model of pybufrkit/coder.py: the register file CoderState and the
   generic template walk Coder.process_members, parameterised by a record of
   handlers (the methods that Decoder, Encoder and TemplateCompiler /
   CompilerState override).  Model only; proofs are in WalkProofs.v / WalkSim.v. *)
From PBK Require Import Base Descr.

(* ---- decoded descriptors (what ends up in decoded_descriptors) ------------ *)
Inductive ddesc :=
  | DDElem (e : elem)                   (* ElementDescriptor: label 0XXYYY *)
  | DDAssoc (id : N) (nbits : Z)        (* AssociatedDescriptor: label AXXYYY *)
  | DDSkipped (id : N) (nbits : Z)      (* SkippedLocalDescriptor: label SXXYYY *)
  | DDMarker (e : elem) (marker : N)    (* MarkerDescriptor: label T/F/D/R/M + XXYYY *)
  | DDOper (id : N).                    (* OperatorDescriptor (222000, 236000, 205YYY ...) *)

Definition dd_id (d : ddesc) : N :=
  match d with
  | DDElem e | DDMarker e _ => e_id e
  | DDAssoc id _ | DDSkipped id _ | DDOper id => id
  end.

(* ---- the register file: every field of CoderState that is not an output --- *)
(* bitmap definition stages *)
Definition BITMAP_NA : N := 0.
Definition BITMAP_INDICATOR : N := 1.
Definition BITMAP_WAITING_FOR_BIT : N := 4.
Definition BITMAP_BIT_COUNTING : N := 5.
Definition QA_INFO_NA : N := 0.
Definition QA_INFO_WAITING : N := 1.
Definition QA_INFO_PROCESSING : N := 2.

Record bsrmod := mkBsr { bsr_nbits : Z; bsr_scale : Z; bsr_factor : Z }.
Definition bsr0 := mkBsr 0 0 1.

Definition backref := (N * elem)%type.   (* (index into decoded_descriptors, the element) *)

Record regs := mkRegs {
  r_nbits_offset : Z;                    (* 201 *)
  r_scale_offset : Z;                    (* 202 *)
  r_nbits_new_refval : Z;                (* 203 *)
  r_new_refvals : list (N * option Z);   (* dict id -> value; None only in the compiler *)
  r_assoc : list Z;                      (* 204: stack, most recent LAST (append/pop) *)
  r_nbits_skipped : Z;                   (* 206 *)
  r_bsr : bsrmod;                        (* 207 *)
  r_new_nbytes : Z;                      (* 208 *)
  r_dnp : Z;                             (* 221 data_not_present_count *)
  r_qa : N;                              (* 222 status_qa_info_follows *)
  r_bitmap_set : bool;                   (* state.bitmap is not None (never read by the code) *)
  r_bitmapped : option (list backref);   (* bitmapped_descriptors *)
  r_bm_state : N;                        (* bitmap_definition_state *)
  r_reuse : bool;                        (* most_recent_bitmap_is_for_reuse *)
  r_n031031 : Z;
  r_next_bm : option (list backref);     (* next_bitmapped_descriptor: the iterator's remaining items *)
  r_boundary : N;                        (* back_reference_boundary *)
  r_backrefs : option (list backref)     (* back_referenced_descriptors *)
}.

Definition regs0 : regs :=
  mkRegs 0 0 0 [] [] 0 bsr0 0 0 QA_INFO_NA false None BITMAP_NA false 0 None 0 None.

(* functional record update, one setter per field *)
Definition set_nbits_offset v r := mkRegs v (r_scale_offset r) (r_nbits_new_refval r) (r_new_refvals r) (r_assoc r) (r_nbits_skipped r) (r_bsr r) (r_new_nbytes r) (r_dnp r) (r_qa r) (r_bitmap_set r) (r_bitmapped r) (r_bm_state r) (r_reuse r) (r_n031031 r) (r_next_bm r) (r_boundary r) (r_backrefs r).
Definition set_scale_offset v r := mkRegs (r_nbits_offset r) v (r_nbits_new_refval r) (r_new_refvals r) (r_assoc r) (r_nbits_skipped r) (r_bsr r) (r_new_nbytes r) (r_dnp r) (r_qa r) (r_bitmap_set r) (r_bitmapped r) (r_bm_state r) (r_reuse r) (r_n031031 r) (r_next_bm r) (r_boundary r) (r_backrefs r).
Definition set_nbits_new_refval v r := mkRegs (r_nbits_offset r) (r_scale_offset r) v (r_new_refvals r) (r_assoc r) (r_nbits_skipped r) (r_bsr r) (r_new_nbytes r) (r_dnp r) (r_qa r) (r_bitmap_set r) (r_bitmapped r) (r_bm_state r) (r_reuse r) (r_n031031 r) (r_next_bm r) (r_boundary r) (r_backrefs r).
Definition set_new_refvals v r := mkRegs (r_nbits_offset r) (r_scale_offset r) (r_nbits_new_refval r) v (r_assoc r) (r_nbits_skipped r) (r_bsr r) (r_new_nbytes r) (r_dnp r) (r_qa r) (r_bitmap_set r) (r_bitmapped r) (r_bm_state r) (r_reuse r) (r_n031031 r) (r_next_bm r) (r_boundary r) (r_backrefs r).
Definition set_assoc v r := mkRegs (r_nbits_offset r) (r_scale_offset r) (r_nbits_new_refval r) (r_new_refvals r) v (r_nbits_skipped r) (r_bsr r) (r_new_nbytes r) (r_dnp r) (r_qa r) (r_bitmap_set r) (r_bitmapped r) (r_bm_state r) (r_reuse r) (r_n031031 r) (r_next_bm r) (r_boundary r) (r_backrefs r).
Definition set_nbits_skipped v r := mkRegs (r_nbits_offset r) (r_scale_offset r) (r_nbits_new_refval r) (r_new_refvals r) (r_assoc r) v (r_bsr r) (r_new_nbytes r) (r_dnp r) (r_qa r) (r_bitmap_set r) (r_bitmapped r) (r_bm_state r) (r_reuse r) (r_n031031 r) (r_next_bm r) (r_boundary r) (r_backrefs r).
Definition set_bsr v r := mkRegs (r_nbits_offset r) (r_scale_offset r) (r_nbits_new_refval r) (r_new_refvals r) (r_assoc r) (r_nbits_skipped r) v (r_new_nbytes r) (r_dnp r) (r_qa r) (r_bitmap_set r) (r_bitmapped r) (r_bm_state r) (r_reuse r) (r_n031031 r) (r_next_bm r) (r_boundary r) (r_backrefs r).
Definition set_new_nbytes v r := mkRegs (r_nbits_offset r) (r_scale_offset r) (r_nbits_new_refval r) (r_new_refvals r) (r_assoc r) (r_nbits_skipped r) (r_bsr r) v (r_dnp r) (r_qa r) (r_bitmap_set r) (r_bitmapped r) (r_bm_state r) (r_reuse r) (r_n031031 r) (r_next_bm r) (r_boundary r) (r_backrefs r).
Definition set_dnp v r := mkRegs (r_nbits_offset r) (r_scale_offset r) (r_nbits_new_refval r) (r_new_refvals r) (r_assoc r) (r_nbits_skipped r) (r_bsr r) (r_new_nbytes r) v (r_qa r) (r_bitmap_set r) (r_bitmapped r) (r_bm_state r) (r_reuse r) (r_n031031 r) (r_next_bm r) (r_boundary r) (r_backrefs r).
Definition set_qa v r := mkRegs (r_nbits_offset r) (r_scale_offset r) (r_nbits_new_refval r) (r_new_refvals r) (r_assoc r) (r_nbits_skipped r) (r_bsr r) (r_new_nbytes r) (r_dnp r) v (r_bitmap_set r) (r_bitmapped r) (r_bm_state r) (r_reuse r) (r_n031031 r) (r_next_bm r) (r_boundary r) (r_backrefs r).
Definition set_bitmap_set v r := mkRegs (r_nbits_offset r) (r_scale_offset r) (r_nbits_new_refval r) (r_new_refvals r) (r_assoc r) (r_nbits_skipped r) (r_bsr r) (r_new_nbytes r) (r_dnp r) (r_qa r) v (r_bitmapped r) (r_bm_state r) (r_reuse r) (r_n031031 r) (r_next_bm r) (r_boundary r) (r_backrefs r).
Definition set_bitmapped v r := mkRegs (r_nbits_offset r) (r_scale_offset r) (r_nbits_new_refval r) (r_new_refvals r) (r_assoc r) (r_nbits_skipped r) (r_bsr r) (r_new_nbytes r) (r_dnp r) (r_qa r) (r_bitmap_set r) v (r_bm_state r) (r_reuse r) (r_n031031 r) (r_next_bm r) (r_boundary r) (r_backrefs r).
Definition set_bm_state v r := mkRegs (r_nbits_offset r) (r_scale_offset r) (r_nbits_new_refval r) (r_new_refvals r) (r_assoc r) (r_nbits_skipped r) (r_bsr r) (r_new_nbytes r) (r_dnp r) (r_qa r) (r_bitmap_set r) (r_bitmapped r) v (r_reuse r) (r_n031031 r) (r_next_bm r) (r_boundary r) (r_backrefs r).
Definition set_reuse v r := mkRegs (r_nbits_offset r) (r_scale_offset r) (r_nbits_new_refval r) (r_new_refvals r) (r_assoc r) (r_nbits_skipped r) (r_bsr r) (r_new_nbytes r) (r_dnp r) (r_qa r) (r_bitmap_set r) (r_bitmapped r) (r_bm_state r) v (r_n031031 r) (r_next_bm r) (r_boundary r) (r_backrefs r).
Definition set_n031031 v r := mkRegs (r_nbits_offset r) (r_scale_offset r) (r_nbits_new_refval r) (r_new_refvals r) (r_assoc r) (r_nbits_skipped r) (r_bsr r) (r_new_nbytes r) (r_dnp r) (r_qa r) (r_bitmap_set r) (r_bitmapped r) (r_bm_state r) (r_reuse r) v (r_next_bm r) (r_boundary r) (r_backrefs r).
Definition set_next_bm v r := mkRegs (r_nbits_offset r) (r_scale_offset r) (r_nbits_new_refval r) (r_new_refvals r) (r_assoc r) (r_nbits_skipped r) (r_bsr r) (r_new_nbytes r) (r_dnp r) (r_qa r) (r_bitmap_set r) (r_bitmapped r) (r_bm_state r) (r_reuse r) (r_n031031 r) v (r_boundary r) (r_backrefs r).
Definition set_boundary v r := mkRegs (r_nbits_offset r) (r_scale_offset r) (r_nbits_new_refval r) (r_new_refvals r) (r_assoc r) (r_nbits_skipped r) (r_bsr r) (r_new_nbytes r) (r_dnp r) (r_qa r) (r_bitmap_set r) (r_bitmapped r) (r_bm_state r) (r_reuse r) (r_n031031 r) (r_next_bm r) v (r_backrefs r).
Definition set_backrefs v r := mkRegs (r_nbits_offset r) (r_scale_offset r) (r_nbits_new_refval r) (r_new_refvals r) (r_assoc r) (r_nbits_skipped r) (r_bsr r) (r_new_nbytes r) (r_dnp r) (r_qa r) (r_bitmap_set r) (r_bitmapped r) (r_bm_state r) (r_reuse r) (r_n031031 r) (r_next_bm r) (r_boundary r) v.

(* ---- the walker state: registers plus the client's own state -------------- *)
Record ws (S : Type) := mkWs { w_r : regs; w_c : S }.
Arguments mkWs {S}.
Arguments w_r {S}.
Arguments w_c {S}.

Definition upd_r {S} (f : regs -> regs) (s : ws S) : ws S := mkWs (f (w_r s)) (w_c s).

(* dict helpers *)
Fixpoint refval_lookup (id : N) (l : list (N * option Z)) : option (option Z) :=
  match l with
  | [] => None
  | (k, v) :: r => if (k =? id)%N then Some v else refval_lookup id r
  end.
Definition refval_set (id : N) (v : option Z) (l : list (N * option Z)) := (id, v) :: l.

Definition sumZ (l : list Z) : Z := fold_right Z.add 0%Z l.

(* ---- the methods that subclasses override --------------------------------- *)
(* Each is a state transformer; which arguments it receives mirrors the Python
   signatures.  The first eight are Coder's abstract methods, the next five are
   CoderState methods that CompilerState overrides, the last four are Coder
   methods that TemplateCompiler overrides. *)
Record handlers (S : Type) := mkHandlers {
  h_numeric : ddesc -> Z -> Z -> Z -> ws S -> result (ws S);          (* descriptor nbits scale refval *)
  h_numeric_new_refval : ddesc -> Z -> Z -> Z -> ws S -> result (ws S); (* descriptor nbits scale refval_factor *)
  h_string : ddesc -> Z -> ws S -> result (ws S);                     (* descriptor nbytes *)
  h_codeflag : ddesc -> Z -> Z -> ws S -> result (ws S);              (* descriptor nbits descriptor.nbits *)
  h_new_refval : ddesc -> Z -> ws S -> result (ws S);                 (* sets new_refvals[id] itself *)
  h_constant : ddesc -> Z -> ws S -> result (ws S);
  h_define_bitmap : bool -> ws S -> result (ws S);                    (* reuse *)
  (* CoderState methods *)
  h_mark_boundary : ws S -> result (ws S);
  h_recall_bitmap : ws S -> result (ws S);
  h_cancel_bitmap : ws S -> result (ws S);
  h_cancel_backrefs : ws S -> result (ws S);
  h_add_bitmap_link : ws S -> result (ws S);
  (* Coder methods overridden by the compiler *)
  h_bitmap_def_wrap : (ws S -> result (ws S)) -> ws S -> result (ws S);  (* around process_bitmap_definition *)
  h_fixed : N -> (ws S -> result (ws S)) -> ws S -> result (ws S);       (* n_repeats, body *)
  h_delayed : (ws S -> result (ws S)) -> ws S -> result (ws S);          (* body; count from the data *)
  h_bitmapped : N -> (ws S -> result (ws S)) -> ws S -> result (ws S)    (* marker operator id, default body *)
}.
Arguments h_numeric {S}. Arguments h_numeric_new_refval {S}. Arguments h_string {S}.
Arguments h_codeflag {S}. Arguments h_new_refval {S}. Arguments h_constant {S}.
Arguments h_define_bitmap {S}. Arguments h_mark_boundary {S}. Arguments h_recall_bitmap {S}.
Arguments h_cancel_bitmap {S}. Arguments h_cancel_backrefs {S}. Arguments h_add_bitmap_link {S}.
Arguments h_bitmap_def_wrap {S}. Arguments h_fixed {S}. Arguments h_delayed {S}. Arguments h_bitmapped {S}.

Definition iter_res {A} (n : N) (f : A -> result A) (a : A) : result A :=
  N.iter n (fun r => bind r f) (Ok a).

Section Walk.
Context {S : Type} (H : handlers S).
Notation st := (ws S).

(* Every piece below comes in two layers: [f_r r ...] takes the register file as
   an explicit argument (all tests on registers refer to it), and
   [f ... s := f_r (w_r s) ... s].  This makes "the branch taken depends on the
   registers only" visible to the simulation proofs. *)

Definition set_r (r : regs) (s : st) : st := mkWs r (w_c s).

(* ---- process_associated_field ---- *)
Definition do_assoc_r (r : regs) (id : N) (s : st) : result st :=
  let nb := sumZ (r_assoc r) in
  h_codeflag H (DDAssoc id nb) nb nb s.
Definition do_assoc (id : N) (s : st) : result st := do_assoc_r (w_r s) id s.

(* ---- process_element_descriptor; [dd] is the descriptor object itself
        (a plain element or a marker built from one), [e] its Table B fields --- *)
(* associated field: [if state.nbits_of_associated and X != 31] *)
Definition elem_assoc_r (r : regs) (e : elem) (s : st) : result st :=
  match r_assoc r with
  | [] => Ok s
  | _ :: _ => if (desc_X (e_id e) =? 31)%N then Ok s else do_assoc (e_id e) s
  end.
Definition elem_assoc (e : elem) (s : st) : result st := elem_assoc_r (w_r s) e s.

(* class 33 after 222000 *)
Definition elem_qa_r (r : regs) (e : elem) (s : st) : result st :=
  if (desc_X (e_id e) =? 33)%N then
    if (r_qa r =? QA_INFO_WAITING)%N then h_add_bitmap_link H (upd_r (set_qa QA_INFO_PROCESSING) s)
    else if (r_qa r =? QA_INFO_PROCESSING)%N then h_add_bitmap_link H s
    else Ok s
  else
    if (r_qa r =? QA_INFO_PROCESSING)%N then Ok (upd_r (set_qa QA_INFO_NA) s) else Ok s.
Definition elem_qa (e : elem) (s : st) : result st := elem_qa_r (w_r s) e s.

Definition elem_body_r (r : regs) (dd : ddesc) (e : elem) (s : st) : result st :=
  match kind_of_unit (e_unit e) with
  | KString =>
      let nbytes := if (r_new_nbytes r =? 0)%Z then (e_nbits e / 8)%Z else r_new_nbytes r in
      h_string H dd nbytes s
  | KCodeFlag => h_codeflag H dd (e_nbits e) (e_nbits e) s
  | KNumeric =>
      let nbits := (e_nbits e + r_nbits_offset r + bsr_nbits (r_bsr r))%Z in
      let scale := (e_scale e + r_scale_offset r + bsr_scale (r_bsr r))%Z in
      match refval_lookup (e_id e) (r_new_refvals r) with
      | None => h_numeric H dd nbits scale (e_refval e * bsr_factor (r_bsr r))%Z s
      | Some _ => h_numeric_new_refval H dd nbits scale (bsr_factor (r_bsr r)) s
      end
  end.
Definition elem_body (dd : ddesc) (e : elem) (s : st) : result st := elem_body_r (w_r s) dd e s.

Definition do_element (dd : ddesc) (e : elem) (s : st) : result st :=
  let* s1 := elem_assoc e s in
  let* s2 := elem_qa e s1 in
  elem_body dd e s2.

(* ---- the default process_bitmapped_descriptor (Coder), used at run time ----
   CoderState.get_next_bitmapped_descriptor(): a library error when no bitmap
   was ever defined and when the selected descriptors are exhausted (after
   "fix: a bitmap that is missing or exhausted is reported as PyBufrKitError"). *)
Definition next_bitmapped (r : regs) : result (backref * regs) :=
  match r_next_bm r with
  | None => Err ELib
  | Some [] => Err ELib
  | Some (b :: rest) => Ok (b, set_next_bm (Some rest) r)
  end.

Definition marker_elem (marker : N) (e : elem) : elem :=
  if (marker =? 225255)%N
  then mkElem (e_id e) (e_unit e) (e_scale e) (- 2 ^ e_nbits e)%Z (e_nbits e + 1)%Z
  else e.

(* ---- process_bitmap_definition (the state machine step for one member) ---- *)
Definition bitmap_def_step_r (r : regs) (id : N) (s : st) : result st :=
  if (r_bm_state r =? BITMAP_INDICATOR)%N then
    if (id =? 236000)%N then
      Ok (upd_r (fun r => set_n031031 0 (set_bm_state BITMAP_WAITING_FOR_BIT (set_reuse true r))) s)
    else if (id =? 237000)%N then
      Ok (upd_r (set_bm_state BITMAP_NA) s)
    else
      Ok (upd_r (fun r => set_n031031 0 (set_bm_state BITMAP_WAITING_FOR_BIT (set_reuse false r))) s)
  else if (r_bm_state r =? BITMAP_WAITING_FOR_BIT)%N then
    if (id =? 31031)%N then
      Ok (upd_r (fun r => set_n031031 (r_n031031 r + 1) (set_bm_state BITMAP_BIT_COUNTING r)) s)
    else Ok s
  else if (r_bm_state r =? BITMAP_BIT_COUNTING)%N then
    if (id =? 31031)%N then Ok (upd_r (fun r => set_n031031 (r_n031031 r + 1) r) s)
    else
      let* s1 := h_define_bitmap H (r_reuse r) s in
      Ok (upd_r (set_bm_state BITMAP_NA) s1)
  else Ok s.
Definition bitmap_def_step (id : N) (s : st) : result st := bitmap_def_step_r (w_r s) id s.

(* ---- process_operator_descriptor ---- *)
Definition do_marker_r (r : regs) (id : N) (bitmapped_body : st -> result st) (s : st) : result st :=
  (* process_marker_operator_descriptor *)
  let* s1 := (match r_assoc r with [] => Ok s | _ :: _ => do_assoc id s end) in
  h_bitmapped H id bitmapped_body s1.

Definition do_operator_r (r : regs) (id : N) (bitmapped_body : st -> result st) (s : st) : result st :=
  let code := (id / 1000)%N in
  let operand := Z.of_N (id mod 1000) in
  if (code =? 201)%N then
    Ok (upd_r (set_nbits_offset (if (operand =? 0)%Z then 0 else operand - 128)%Z) s)
  else if (code =? 202)%N then
    Ok (upd_r (set_scale_offset (if (operand =? 0)%Z then 0 else operand - 128)%Z) s)
  else if (code =? 203)%N then
    if (operand =? 255)%Z then Ok (upd_r (set_nbits_new_refval 0) s)
    else if (operand =? 0)%Z then Ok (upd_r (fun r => set_new_refvals [] (set_nbits_new_refval operand r)) s)
    else Ok (upd_r (set_nbits_new_refval operand) s)
  else if (code =? 204)%N then
    if (operand =? 0)%Z then
      match r_assoc r with
      | [] => Err EIndex                         (* pop from empty list *)
      | _ :: _ => Ok (upd_r (fun r => set_assoc (removelast (r_assoc r)) r) s)
      end
    else Ok (upd_r (fun r => set_assoc (r_assoc r ++ [operand]) r) s)
  else if (code =? 205)%N then h_string H (DDOper id) operand s
  else if (code =? 206)%N then Ok (upd_r (set_nbits_skipped operand) s)
  else if (code =? 207)%N then
    if (operand =? 0)%Z then Ok (upd_r (set_bsr bsr0) s)
    else Ok (upd_r (set_bsr (mkBsr ((10 * operand + 2) / 3) operand (10 ^ operand))%Z) s)
  else if (code =? 208)%N then Ok (upd_r (set_new_nbytes operand) s)
  else if (code =? 221)%N then Ok (upd_r (set_dnp operand) s)
  else if (code =? 222)%N || (code =? 223)%N || (code =? 224)%N || (code =? 225)%N || (code =? 232)%N then
    if (operand =? 0)%Z then
      let* s2 := h_mark_boundary H (upd_r (set_bm_state BITMAP_INDICATOR) s) in
      let* s3 := h_constant H (DDOper id) 0 s2 in
      Ok (if (code =? 222)%N then upd_r (set_qa QA_INFO_WAITING) s3 else s3)
    else do_marker_r r id bitmapped_body s
  else if (code =? 235)%N then h_cancel_backrefs H s
  else if (code =? 236)%N then h_constant H (DDOper id) 0 s
  else if (code =? 237)%N then
    let* s1 := (if (operand =? 0)%Z then h_recall_bitmap H s
                else if r_reuse r then h_cancel_bitmap H s else Ok s) in
    h_constant H (DDOper id) 0 s1
  else Err ENotImpl.
Definition do_operator (id : N) (bitmapped_body : st -> result st) (s : st) : result st :=
  do_operator_r (w_r s) id bitmapped_body s.

(* ---- one member of process_members: the checks that precede the dispatch,
        then [normal] (the dispatch itself) unless a check said "continue" ------ *)
Definition is_plain_elem (d : desc) : option elem :=
  match d with DElem e => Some e | _ => None end.

Definition dnp_skips (d : desc) : bool :=
  match d with
  | DElem e => let X := desc_X (e_id e) in negb (((1 <=? X) && (X <=? 9)) || (X =? 31))%N
  | _ => false
  end.

(* 203 (defining new reference values, element descriptors only), 206 (skipped
   local descriptor, whatever the member is), bitmap definition in progress *)
Definition member_rest_r (r : regs) (d : desc) (normal : st -> result st) (s : st) : result st :=
  match (if (r_nbits_new_refval r =? 0)%Z then None else is_plain_elem d) with
  | Some e =>
      match kind_of_unit (e_unit e) with
      | KString => Err ELib
      | _ => h_new_refval H (DDElem e) (r_nbits_new_refval r) s
      end
  | None =>
  if negb (r_nbits_skipped r =? 0)%Z then
    let nb := r_nbits_skipped r in
    let* s2 := h_codeflag H (DDSkipped (desc_id d) nb) nb nb s in
    Ok (upd_r (set_nbits_skipped 0) s2)
  else
  if negb (r_bm_state r =? BITMAP_NA)%N then
    let* s2 := h_bitmap_def_wrap H (bitmap_def_step (desc_id d)) s in normal s2
  else normal s
  end.
Definition member_rest (d : desc) (normal : st -> result st) (s : st) : result st :=
  member_rest_r (w_r s) d normal s.

(* 221: data not present *)
Definition member_step_r (r : regs) (d : desc) (normal : st -> result st) (s : st) : result st :=
  if (r_dnp r =? 0)%Z then member_rest d normal s
  else if dnp_skips d then Ok (upd_r (fun r => set_dnp (r_dnp r - 1) r) s)
  else member_rest d normal (upd_r (fun r => set_dnp (r_dnp r - 1) r) s).
Definition member_step (d : desc) (normal : st -> result st) (s : st) : result st :=
  member_step_r (w_r s) d normal s.

(* the body of Coder.process_bitmapped_descriptor for marker operator [id],
   given the run-time registers: used as default by decoder and encoder and at
   run time by compiled templates *)
Definition bitmapped_default_r (add_link : N -> st -> result st) (r : regs) (id : N) (s : st) : result st :=
  match next_bitmapped r with
  | Err e => Err e
  | Ok ((idx, e), r') =>
      let* s1 := add_link idx (set_r r' s) in
      let e' := marker_elem id e in
      do_element (DDMarker e' id) e' s1
  end.
Definition bitmapped_default (add_link : N -> st -> result st) (id : N) (s : st) : result st :=
  bitmapped_default_r add_link (w_r s) id s.

Context (add_link : N -> st -> result st).   (* state.bitmap_links[len(decoded_descriptors)] = idx *)

(* ---- process_members ------------------------------------------------------- *)
Fixpoint walk (d : desc) (s : st) {struct d} : result st :=
  match d with
  | DElem e => do_element (DDElem e) e s
  | DFixed id ms => h_fixed H (id mod 1000)%N (walk_list ms) s
  | DDelayed id f ms =>
      (* the factor is processed directly, not through process_members *)
      let* s1 := (match f with
                  | DElem e => do_element (DDElem e) e s
                  | _ => Err EUnknownDescriptor   (* "Cannot process replication factor ..." (fix 1a9ad2c; before: AttributeError, no .unit) *)
                  end) in
      h_delayed H (walk_list ms) s1
  | DOper id => do_operator id (bitmapped_default add_link id) s
  | DSeq _ ms => walk_list ms s
  | DUndefElem _ | DUndefSeq _ => Err EUnknownDescriptor
  end
with walk_list (ms : descs) (s : st) {struct ms} : result st :=
  match ms with
  | DNil => Ok s
  | DCons m rest => let* s1 := member_step m (walk m) s in walk_list rest s1
  end.

End Walk.
