(* SpecCCanon.v — what makes the compressed layout of SpecC.v canonical:
   every column of layout_cols is well formed (one entry per subset, fields in
   range, "all equal" columns really are), and for a well-formed column the
   base is the minimum of the present values (all ones iff there is none), the
   6-bit width is 0 exactly for the columns flagged all-equal and otherwise the
   LEAST width whose all-ones pattern lies strictly above max - min + 1, an
   increment is all ones exactly for a missing entry and otherwise
   base + increment is the entry. *)
From PBK Require Import Base Bits BitsProofs Descr Walk Coder WalkSim CoderSim Float53 Decode Encode
  Spec SpecProofs Column ColumnProofs DecodeC EncodeC SpecC SpecCProofs.
From Coq Require Import ZifyBool ZifyNat ZifyN.

(* ========================================================================== *)
(* 1. well-formed columns; every column of the layout is well formed            *)
(* ========================================================================== *)
Definition col_wf (n : nat) (c : column) : Prop :=
  forallb emit_ok (col_fields c) = true /\ n <> 0%nat /\
  match c with
  | ColNum w ae raws =>
      length raws = n /\ (ae = true -> exists r0, raws = repeat r0 n) /\ (ae = false -> present raws <> [])
  | ColStr nb ae strs => length strs = n /\ (ae = true -> exists r0, strs = repeat r0 n)
  | ColRef w z => True
  end.

Lemma column_of_length i vals col : column_of i vals = Ok col -> length col = length vals.
Proof.
  unfold column_of. destruct (forallb _ vals); [|discriminate]. intros E. injection E as <-. apply map_length.
Qed.

Lemma col_raws_length {A} (f : value -> result (option A)) ae col raws :
  col_raws f ae col = Ok raws -> length raws = length col.
Proof.
  unfold col_raws. destruct ae.
  - destruct (f (hd VNone col)); cbn [bind]; [|discriminate]. intros E. injection E as <-. apply repeat_length.
  - apply all_res_length.
Qed.

Lemma col_raws_repeat {A} (f : value -> result (option A)) col raws :
  col_raws f true col = Ok raws -> exists r0, f (hd VNone col) = Ok r0 /\ raws = repeat r0 (length col).
Proof.
  unfold col_raws. destruct (f (hd VNone col)) as [r0|]; cbn [bind]; [|discriminate].
  intros E. injection E as <-. eauto.
Qed.

Lemma col_raws_wf {A} (f : value -> result (option A)) ae col raws n :
  col_raws f ae col = Ok raws -> length col = n ->
  length raws = n /\ (ae = true -> exists r0, raws = repeat r0 n).
Proof.
  intros E <-. split; [apply (col_raws_length _ _ _ _ E)|].
  intros ->. destruct (col_raws_repeat _ _ _ E) as (r0 & _ & ->). exists r0. reflexivity.
Qed.

(* what cs_next returns *)
Lemma cs_next_spec s col ae s1 :
  cs_next s = Ok (col, ae, s1) ->
  column_of (cs_idx s) (cs_vals s) = Ok col /\ col <> [] /\ length col = length (cs_vals s) /\
  ae = forallb (value_eqb (hd VNone col)) col /\
  s1 = mkCS (cs_cols s) (cs_vals s) (S (cs_idx s)).
Proof.
  unfold cs_next. destruct (column_of (cs_idx s) (cs_vals s)) as [c|] eqn:Ec; cbn [bind]; [|discriminate].
  destruct c as [|v0 c']; [discriminate|]. intros E. injection E as <- <- <-.
  split; [reflexivity|]. split; [discriminate|]. split; [apply (column_of_length _ _ _ Ec)|]. split; reflexivity.
Qed.

Lemma cs_emit_spec c s s' :
  cs_emit c s = Ok s' ->
  forallb emit_ok (col_fields c) = true /\ s' = mkCS (cs_cols s ++ [c]) (cs_vals s) (cs_idx s).
Proof.
  unfold cs_emit. destruct (forallb emit_ok (col_fields c)); [|discriminate].
  intros E. injection E as <-. split; reflexivity.
Qed.

(* one step of the layout: the values are untouched and at most one well-formed
   column is appended *)
Definition cstep (s s' : cstate) : Prop :=
  cs_vals s' = cs_vals s /\
  (cs_cols s' = cs_cols s \/
   exists c, cs_cols s' = cs_cols s ++ [c] /\ col_wf (length (cs_vals s)) c).

Lemma all_missing_present raws : all_missing raws = false -> present raws <> [].
Proof.
  intros H E. pose proof (proj2 (all_missing_iff raws) (proj1 (present_nil raws) E)). congruence.
Qed.

(* ---- the handlers, unfolded: which column each of them appends ---------------- *)
Theorem specc_numeric_spec nbits scale refval s s' :
  specc_numeric nbits scale refval s = Ok s' ->
  exists col ae raws,
    column_of (cs_idx s) (cs_vals s) = Ok col /\ col <> [] /\
    ae = forallb (value_eqb (hd VNone col)) col /\
    col_raws (raw_numeric scale refval) ae col = Ok raws /\
    s' = mkCS (cs_cols s ++ [ColNum nbits ae raws]) (cs_vals s) (S (cs_idx s)) /\
    col_wf (length (cs_vals s)) (ColNum nbits ae raws).
Proof.
  unfold specc_numeric. intros E.
  destruct (cs_next s) as [[[col ae] s1]|] eqn:En; cbn [bind] in E; [|discriminate].
  destruct (cs_next_spec _ _ _ _ En) as (Ec & Hne & Hlen & Hae & ->).
  destruct (col_raws (raw_numeric scale refval) ae col) as [raws|] eqn:Er; cbn [bind] in E; [|discriminate].
  unfold specc_num_col in E. destruct (negb ae && all_missing raws) eqn:Hm; [discriminate|].
  destruct (cs_emit_spec _ _ _ E) as (Hok & ->). cbn [cs_cols cs_vals cs_idx].
  exists col, ae, raws. split; [exact Ec|]. split; [exact Hne|]. split; [exact Hae|].
  split; [exact Er|]. split; [reflexivity|].
  destruct (col_raws_wf _ _ _ _ _ Er Hlen) as (Hl & Hrep).
  split; [exact Hok|]. split; [destruct col; [congruence|cbn in Hlen; lia]|].
  split; [exact Hl|]. split; [exact Hrep|].
  intros ->. apply all_missing_present. exact Hm.
Qed.

Theorem specc_codeflag_spec nbits dn s s' :
  specc_codeflag nbits dn s = Ok s' ->
  exists col ae raws,
    column_of (cs_idx s) (cs_vals s) = Ok col /\ col <> [] /\
    ae = forallb (value_eqb (hd VNone col)) col /\
    col_raws raw_codeflag ae col = Ok raws /\
    s' = mkCS (cs_cols s ++ [ColNum nbits ae raws]) (cs_vals s) (S (cs_idx s)) /\
    col_wf (length (cs_vals s)) (ColNum nbits ae raws).
Proof.
  unfold specc_codeflag. intros E.
  destruct (cs_next s) as [[[col ae] s1]|] eqn:En; cbn [bind] in E; [|discriminate].
  destruct (cs_next_spec _ _ _ _ En) as (Ec & Hne & Hlen & Hae & ->).
  destruct (col_raws raw_codeflag ae col) as [raws|] eqn:Er; cbn [bind] in E; [|discriminate].
  unfold specc_num_col in E. destruct (negb ae && all_missing raws) eqn:Hm; [discriminate|].
  destruct (cs_emit_spec _ _ _ E) as (Hok & ->). cbn [cs_cols cs_vals cs_idx].
  exists col, ae, raws. split; [exact Ec|]. split; [exact Hne|]. split; [exact Hae|].
  split; [exact Er|]. split; [reflexivity|].
  destruct (col_raws_wf _ _ _ _ _ Er Hlen) as (Hl & Hrep).
  split; [exact Hok|]. split; [destruct col; [congruence|cbn in Hlen; lia]|].
  split; [exact Hl|]. split; [exact Hrep|].
  intros ->. apply all_missing_present. exact Hm.
Qed.

Theorem specc_string_spec nbytes s s' :
  specc_string nbytes s = Ok s' ->
  exists col ae strs,
    column_of (cs_idx s) (cs_vals s) = Ok col /\ col <> [] /\
    ae = forallb (value_eqb (hd VNone col)) col /\
    col_raws raw_string ae col = Ok strs /\
    s' = mkCS (cs_cols s ++ [ColStr nbytes ae strs]) (cs_vals s) (S (cs_idx s)) /\
    col_wf (length (cs_vals s)) (ColStr nbytes ae strs).
Proof.
  unfold specc_string. intros E.
  destruct (cs_next s) as [[[col ae] s1]|] eqn:En; cbn [bind] in E; [|discriminate].
  destruct (cs_next_spec _ _ _ _ En) as (Ec & Hne & Hlen & Hae & ->).
  destruct (col_raws raw_string ae col) as [strs|] eqn:Er; cbn [bind] in E; [|discriminate].
  destruct (cs_emit_spec _ _ _ E) as (Hok & ->). cbn [cs_cols cs_vals cs_idx].
  exists col, ae, strs. split; [exact Ec|]. split; [exact Hne|]. split; [exact Hae|].
  split; [exact Er|]. split; [reflexivity|].
  destruct (col_raws_wf _ _ _ _ _ Er Hlen) as (Hl & Hrep).
  split; [exact Hok|]. split; [destruct col; [congruence|cbn in Hlen; lia]|].
  split; [exact Hl|exact Hrep].
Qed.

Theorem specc_new_refval_spec nbits s z s' :
  specc_new_refval nbits s = Ok (z, s') ->
  exists col,
    column_of (cs_idx s) (cs_vals s) = Ok col /\ hd VNone col = VInt z /\
    forallb (value_eqb (VInt z)) col = true /\
    s' = mkCS (cs_cols s ++ [ColRef nbits z]) (cs_vals s) (S (cs_idx s)) /\
    col_wf (length (cs_vals s)) (ColRef nbits z).
Proof.
  unfold specc_new_refval. intros E.
  destruct (cs_next s) as [[[col ae] s1]|] eqn:En; cbn [bind] in E; [|discriminate].
  destruct (cs_next_spec _ _ _ _ En) as (Ec & Hne & Hlen & Hae & ->).
  destruct col as [|v c]; [discriminate|]. destruct v as [x| | | |]; try discriminate.
  destruct ae; [|discriminate].
  destruct (cs_emit _ _) as [s2|] eqn:Ee; cbn [bind] in E; [|discriminate]. injection E as <- <-.
  destruct (cs_emit_spec _ _ _ Ee) as (Hok & ->). cbn [cs_cols cs_vals cs_idx].
  exists (VInt x :: c). split; [exact Ec|]. split; [reflexivity|]. split; [symmetry; exact Hae|].
  split; [reflexivity|]. split; [exact Hok|]. split; [cbn in Hlen; lia|exact I].
Qed.

Theorem specc_constant_spec z s s' :
  specc_constant z s = Ok s' ->
  exists col,
    column_of (cs_idx s) (cs_vals s) = Ok col /\ value_eq_int (hd VNone col) z = true /\
    forallb (value_eqb (hd VNone col)) col = true /\
    s' = mkCS (cs_cols s) (cs_vals s) (S (cs_idx s)).
Proof.
  unfold specc_constant. intros E.
  destruct (cs_next s) as [[[col ae] s1]|] eqn:En; cbn [bind] in E; [|discriminate].
  destruct (cs_next_spec _ _ _ _ En) as (Ec & Hne & Hlen & Hae & ->).
  destruct ae; [|discriminate]. cbn [andb] in E.
  destruct (value_eq_int (hd VNone col) z) eqn:Hz; [|discriminate]. injection E as <-.
  exists col. repeat split; try assumption. symmetry. exact Hae.
Qed.

(* ---- the invariant over the whole walk ---------------------------------------- *)
Definition Rwf (vals : list (list value)) (c1 c2 : cstate) : Prop :=
  c1 = c2 /\ cs_vals c1 = vals /\ Forall (col_wf (length vals)) (cs_cols c1).

Lemma cstep_Rwf vals s s' : cstep s s' -> Rwf vals s s -> Rwf vals s' s'.
Proof.
  intros (Hv & Hc) (_ & Hvals & HF). split; [reflexivity|]. split; [congruence|].
  destruct Hc as [->|(c & -> & Hwf)]; [exact HF|].
  apply Forall_app. split; [exact HF|]. constructor; [rewrite <- Hvals; exact Hwf|constructor].
Qed.

Theorem specc_walk_wf vals :
  forall ms, simf (Rio (Rwf vals)) (walk_list (io_handlers specc_prims) io_add_link ms)
                                    (walk_list (io_handlers specc_prims) io_add_link ms).
Proof.
  apply io_walk_sim;
    cbn [specc_prims p_numeric p_string p_codeflag p_constant p_new_refval p_factor p_bitmap].
  - intros a b c c1 c2 c1' HR E. pose proof HR as [<- _]. rewrite E. eexists; split; [reflexivity|].
    apply (cstep_Rwf vals c1); [|exact HR].
    destruct (specc_numeric_spec _ _ _ _ _ E) as (col & ae & raws & _ & _ & _ & _ & -> & Hwf).
    split; [reflexivity|]. right. eexists; split; [reflexivity|exact Hwf].
  - intros a c1 c2 c1' HR E. pose proof HR as [<- _]. rewrite E. eexists; split; [reflexivity|].
    apply (cstep_Rwf vals c1); [|exact HR].
    destruct (specc_string_spec _ _ _ E) as (col & ae & raws & _ & _ & _ & _ & -> & Hwf).
    split; [reflexivity|]. right. eexists; split; [reflexivity|exact Hwf].
  - intros a b c1 c2 c1' HR E. pose proof HR as [<- _]. rewrite E. eexists; split; [reflexivity|].
    apply (cstep_Rwf vals c1); [|exact HR].
    destruct (specc_codeflag_spec _ _ _ _ E) as (col & ae & raws & _ & _ & _ & _ & -> & Hwf).
    split; [reflexivity|]. right. eexists; split; [reflexivity|exact Hwf].
  - intros a c1 c2 c1' HR E. pose proof HR as [<- _]. rewrite E. eexists; split; [reflexivity|].
    apply (cstep_Rwf vals c1); [|exact HR].
    destruct (specc_constant_spec _ _ _ E) as (col & _ & _ & _ & ->).
    split; [reflexivity|]. left. reflexivity.
  - intros a c1 c2 z c1' HR E. pose proof HR as [<- _]. rewrite E. eexists; split; [reflexivity|].
    apply (cstep_Rwf vals c1); [|exact HR].
    destruct (specc_new_refval_spec _ _ _ _ E) as (col & _ & _ & _ & -> & Hwf).
    split; [reflexivity|]. right. eexists; split; [reflexivity|exact Hwf].
  - intros c1 c2 n [<- _] E. exact E.
  - intros a c1 c2 bm [<- _] E. exact E.
Qed.

(* every column of the layout of a compressed data section is well formed *)
Theorem layout_cols_wf T vals outs cols :
  layout_cols T vals = Ok (outs, cols) -> Forall (col_wf (length vals)) cols.
Proof.
  unfold layout_cols, run_compressed, run_template. intros E.
  destruct (walk_list (io_handlers specc_prims) io_add_link T _) as [s1|] eqn:E1; cbn [bind] in E; [|discriminate].
  injection E as <- <-.
  assert (HR : Rst (Rio (Rwf vals)) (mkWs regs0 (mkIo [] [] (mkCS [] vals 0)))
                                    (mkWs regs0 (mkIo [] [] (mkCS [] vals 0)))).
  { split; cbn; [reflexivity|]. repeat split. constructor. }
  destruct (specc_walk_wf vals T _ _ _ HR E1) as (s2 & E2 & (Hr & Hdd & Hl & (Heq & Hv & HF))).
  exact HF.
Qed.

(* ========================================================================== *)
(* 2. the canonical numeric column                                              *)
(* ========================================================================== *)
Theorem col_min_all_missing w raws :
  (forall v, In v raws -> v = None) -> col_min w raws = (2 ^ w - 1)%Z.
Proof.
  intros H. unfold col_min. rewrite (proj2 (present_nil raws) H). reflexivity.
Qed.

Theorem col_min_attained w raws :
  (exists x, In (Some x) raws) -> In (Some (col_min w raws)) raws.
Proof.
  intros (x & Hx). unfold col_min. destruct (zmin_list (present raws)) as [mn|] eqn:Em.
  - apply in_present. apply (zmin_list_spec _ _ Em).
  - apply zmin_list_none in Em. apply in_present in Hx. rewrite Em in Hx. destruct Hx.
Qed.

Theorem col_min_lower w raws x : In (Some x) raws -> (col_min w raws <= x)%Z.
Proof.
  intros Hx. apply in_present in Hx. unfold col_min.
  destruct (zmin_list (present raws)) as [mn|] eqn:Em.
  - apply (zmin_list_spec _ _ Em). exact Hx.
  - apply zmin_list_none in Em. rewrite Em in Hx. destruct Hx.
Qed.

(* the spread is max - min, both attained *)
Lemma col_spread_spec w raws :
  present raws <> [] ->
  exists mx, In (Some mx) raws /\ (forall x, In (Some x) raws -> (x <= mx)%Z) /\
             (col_min w raws <= mx)%Z /\ col_spread raws = Z.to_N (mx - col_min w raws).
Proof.
  intros Hp. unfold col_spread, col_min.
  destruct (zmin_list (present raws)) as [mn|] eqn:Em; [|apply zmin_list_none in Em; contradiction].
  destruct (zmax_list (present raws)) as [mx|] eqn:Ex; [|apply zmax_list_none in Ex; contradiction].
  destruct (zmin_list_spec _ _ Em) as (Imn & Hlow). destruct (zmax_list_spec _ _ Ex) as (Imx & Hup).
  exists mx. split; [apply in_present; exact Imx|].
  split; [intros x Hx; apply Hup, in_present, Hx|]. split; [apply Hlow, Imx|reflexivity].
Qed.

Definition inc_value (wd base : Z) (v : option Z) : Z :=
  match v with None => (2 ^ wd - 1)%Z | Some x => (x - base)%Z end.

Theorem num_column_canonical n w ae raws :
  col_wf n (ColNum w ae raws) ->
  exists base wd incs,
    col_fields (ColNum w ae raws) = FUint w base :: FUint 6 wd :: map (FUint wd) incs /\
    (0 < w)%Z /\ (0 <= base < 2 ^ w)%Z /\ (0 <= wd < 64)%Z /\
    (* the base is the minimum of the present values; all ones when there is none *)
    ((forall v, In v raws -> v = None) -> base = (2 ^ w - 1)%Z) /\
    ((exists x, In (Some x) raws) -> In (Some base) raws) /\
    (forall x, In (Some x) raws -> (base <= x)%Z) /\
    (* width 0 exactly for the all-equal columns; they have no increments *)
    (wd = 0%Z <-> ae = true) /\
    (ae = true -> incs = [] /\ forall v, In v raws -> v = hd None raws) /\
    (* otherwise: the least width whose all-ones pattern lies strictly above max - min + 1 *)
    (ae = false ->
       exists mx, In (Some mx) raws /\ (forall x, In (Some x) raws -> (x <= mx)%Z) /\
                  (mx - base + 2 < 2 ^ wd)%Z /\
                  forall k, (0 <= k)%Z -> (mx - base + 2 < 2 ^ k)%Z -> (wd <= k)%Z) /\
    (* and one increment per subset: all ones for missing, value - base otherwise,
       which is never all ones *)
    (ae = false ->
       Forall2 (fun v d => match v with
                           | None => d = (2 ^ wd - 1)%Z
                           | Some x => (base + d)%Z = x /\ (0 <= d < 2 ^ wd - 1)%Z
                           end) raws incs).
Proof.
  intros (Hok & Hn & Hlen & Hrep & Hpres). cbn [col_fields] in *.
  exists (col_min w raws). destruct ae.
  - exists 0%Z, []. unfold num_fields in *. cbn [forallb emit_ok field_ok] in Hok.
    split; [reflexivity|]. split; [lia|]. split; [lia|]. split; [lia|].
    split; [apply col_min_all_missing|]. split; [apply col_min_attained|]. split; [apply col_min_lower|].
    split; [split; reflexivity|]. split.
    + intros _. split; [reflexivity|]. destruct (Hrep eq_refl) as (r0 & ->).
      intros v Hv. apply repeat_spec in Hv. subst v. destruct n; [congruence|reflexivity].
    + split; discriminate.
  - set (wd := Z.of_N (canon_width (col_spread raws))).
    exists wd, (map (inc_value wd (col_min w raws)) raws).
    unfold num_fields in *. fold wd in Hok. cbn [forallb emit_ok field_ok] in Hok.
    destruct (col_spread_spec w raws (Hpres eq_refl)) as (mx & Imx & Hup & Hle & Hsp).
    destruct (canon_width_spec (col_spread raws)) as (Hcw & Hleast).
    pose proof (canon_width_ge2 (col_spread raws)) as H2.
    assert (Hpow : (Z.of_N (2 ^ canon_width (col_spread raws)) = 2 ^ wd)%Z) by (unfold wd; apply N2Z.inj_pow).
    assert (Hfit : (mx - col_min w raws + 2 < 2 ^ wd)%Z) by lia.
    split.
    { fold wd. rewrite map_map. reflexivity. }
    split; [lia|]. split; [lia|]. split; [unfold NBINC_BITS in Hok; change (2 ^ 6)%Z with 64%Z in Hok; lia|].
    split; [apply col_min_all_missing|]. split; [apply col_min_attained|]. split; [apply col_min_lower|].
    split; [split; [unfold wd; lia|discriminate]|]. split; [discriminate|]. split.
    + intros _. exists mx. split; [exact Imx|]. split; [exact Hup|]. split; [exact Hfit|].
      intros k Hk Hkfit.
      assert (Hk' : (col_spread raws + 2 < 2 ^ Z.to_N k)%N).
      { assert (Z.of_N (2 ^ Z.to_N k) = 2 ^ k)%Z by (rewrite N2Z.inj_pow; f_equal; lia). lia. }
      specialize (Hleast _ Hk'). unfold wd. lia.
    + intros _. clear Hok Hlen Hrep Hpres Imx Hsp Hcw Hleast Hpow H2. clearbody wd.
      assert (Hlow : forall x, In (Some x) raws -> (col_min w raws <= x)%Z) by (intros x; apply col_min_lower).
      generalize dependent (col_min w raws). intros base Hle Hfit Hlow.
      induction raws as [|v raws IH]; [constructor|]. cbn [map]. constructor.
      * destruct v as [x|]; cbn [inc_value]; [|reflexivity].
        specialize (Hup x (or_introl eq_refl)). specialize (Hlow x (or_introl eq_refl)). lia.
      * apply IH; intros x Hx; [apply Hup|apply Hlow]; right; exact Hx.
Qed.

(* field by field: the missing increment is the all-ones pattern, MSB first *)
Theorem missing_increment_bits wd o : (0 < wd)%Z ->
  write_field (inc_field wd 0 None) o = Ok (o ++ ones (Z.to_nat wd)).
Proof. intros H. unfold inc_field, all_ones. apply missing_field_bits. exact H. Qed.

(* the base of a column without a present value is the all-ones pattern *)
Theorem missing_base_bits w ae raws o : (0 < w)%Z -> (forall v, In v raws -> v = None) ->
  exists rest, num_fields w ae raws = FUint w (2 ^ w - 1) :: rest /\
               write_field (FUint w (2 ^ w - 1)) o = Ok (o ++ ones (Z.to_nat w)).
Proof.
  intros Hw Hall. unfold num_fields. rewrite (col_min_all_missing w raws Hall).
  destruct ae; eexists; (split; [reflexivity|apply missing_field_bits; exact Hw]).
Qed.

(* with all values in the representable range 0 .. 2^w - 2 the base is the
   all-ones pattern ONLY when every subset is missing *)
Theorem base_all_ones_iff_all_missing w raws :
  forallb (col_in_range w) raws = true ->
  (col_min w raws = (2 ^ w - 1)%Z <-> forall v, In v raws -> v = None).
Proof.
  intros Hr. split; [|apply col_min_all_missing].
  intros E [x|] Hv; [|reflexivity]. exfalso.
  pose proof (col_min_attained w raws (ex_intro _ x Hv)) as Hin.
  rewrite forallb_forall in Hr. specialize (Hr _ Hin). cbn [col_in_range] in Hr. lia.
Qed.

(* ========================================================================== *)
(* 3. character and reference-value columns                                     *)
(* ========================================================================== *)
Lemma bits_of_bytes_255 k : bits_of_bytes (repeat 255%N k) = ones (8 * k).
Proof.
  induction k as [|k IH]; [reflexivity|]. cbn [repeat bits_of_bytes]. rewrite IH.
  replace (8 * S k)%nat with (8 + 8 * k)%nat by lia. unfold ones. rewrite repeat_app. reflexivity.
Qed.

(* a missing string is all ones over the whole field *)
Theorem missing_string_bits nb o : (0 <= nb)%Z ->
  write_field (FBytes nb (str_val nb None)) o = Ok (o ++ ones (8 * Z.to_nat nb)).
Proof.
  intros H. cbn [write_field str_val]. unfold write_bytes, pad_bytes.
  destruct (Z.ltb_spec nb 0); [lia|]. rewrite repeat_length, Nat.sub_diag. cbn [repeat].
  rewrite app_nil_r, firstn_all2 by (rewrite repeat_length; lia). rewrite bits_of_bytes_255. reflexivity.
Qed.

Theorem str_column_canonical n nb ae strs :
  col_wf n (ColStr nb ae strs) ->
  (0 <= nb)%Z /\
  (ae = true ->
     col_fields (ColStr nb ae strs) = [FBytes nb (str_val nb (hd None strs)); FUint 6 0] /\
     forall v, In v strs -> v = hd None strs) /\
  (ae = false ->
     (nb < 64)%Z /\
     col_fields (ColStr nb ae strs) =
       FBytes nb (repeat 0%N (Z.to_nat nb)) :: FUint 6 nb :: map (fun v => FBytes nb (str_val nb v)) strs).
Proof.
  intros (Hok & Hn & Hlen & Hrep). cbn [col_fields] in *. unfold str_fields in *.
  destruct ae; cbn [forallb emit_ok field_ok] in Hok.
  - split; [lia|]. split; [|discriminate]. intros _. split; [reflexivity|].
    destruct (Hrep eq_refl) as (r0 & ->). intros v Hv. apply repeat_spec in Hv. subst v.
    destruct n; [congruence|reflexivity].
  - unfold NBINC_BITS in Hok. change (2 ^ 6)%Z with 64%Z in Hok.
    split; [lia|]. split; [discriminate|]. intros _. split; [lia|reflexivity].
Qed.

Theorem ref_column_canonical n w z :
  col_wf n (ColRef w z) ->
  col_fields (ColRef w z) = [FBool (z <? 0)%Z; FUint (w - 1) (Z.abs z); FUint 6 0] /\
  (1 < w)%Z /\ (Z.abs z < 2 ^ (w - 1))%Z.
Proof.
  intros (Hok & _). cbn [col_fields ref_fields forallb emit_ok field_ok] in *.
  split; [reflexivity|]. lia.
Qed.

(* ========================================================================== *)
(* 4. where the layout (and the coder) departs from: width 0 iff all stored     *)
(*    values agree                                                              *)
(* ========================================================================== *)
(* The all-equal test is made on the values GIVEN (Python ==), before scaling.
   Two different numbers that scale to the same integer (273.15 and 273.151 at
   scale 1 are both stored as 2732) make a column that is not flagged all-equal:
   it is written with width 2 and zero increments, where FM 94 (94.6.3 (2))
   asks for width 0.  Replayed on the implementation (notes/specc.md). *)
Definition near_T : descs := DCons (DElem (mkElem 12001 [75]%N 1 0 12)) DNil.
(* 273.15 and 273.151 as doubles *)
Definition near_vals : list (list value) :=
  [[VDyad 2402652809016115 (-43)]; [VDyad 4805323210218275 (-44)]].

Theorem width0_iff_stored_equal_refuted :
  exists T vals outs w raws,
    encode_compressed T vals = Ok (outs, w) /\
    layout_cols T vals = Ok (outs, [ColNum 12 false raws]) /\
    (forall v, In v raws -> v = Some 2732%Z) /\
    col_fields (ColNum 12 false raws) = [FUint 12 2732; FUint 6 2; FUint 2 0; FUint 2 0]%Z.
Proof.
  exists near_T, near_vals. eexists. eexists. exists [Some 2732; Some 2732]%Z.
  split; [vm_compute; reflexivity|]. split; [vm_compute; reflexivity|].
  split; [|vm_compute; reflexivity].
  intros v [<-|[<-|[]]]; reflexivity.
Qed.

(* under an exact flag (all_equal = "all stored values agree") the width is 0
   exactly when they do *)
Theorem width0_iff_stored_equal n w ae raws :
  col_wf n (ColNum w ae raws) ->
  (ae = false -> exists v v', In v raws /\ In v' raws /\ v <> v') ->
  (nth 1 (col_fields (ColNum w ae raws)) (FBool false) = FUint 6 0 <-> forall v, In v raws -> v = hd None raws).
Proof.
  intros Hwf Hexact. destruct (num_column_canonical _ _ _ _ Hwf)
    as (base & wd & incs & -> & _ & _ & _ & _ & _ & _ & Hw0 & Heq & _). cbn [nth]. split.
  - intros E. injection E as E. apply Heq, Hw0, E.
  - intros Hall. destruct ae; [f_equal; apply Hw0; reflexivity|].
    destruct (Hexact eq_refl) as (v & v' & Hv & Hv' & Hne). rewrite (Hall _ Hv), (Hall _ Hv') in Hne. congruence.
Qed.

(* ========================================================================== *)
(* 5. the same, for the columns of a layout                                     *)
(* ========================================================================== *)
Lemma layout_col_wf T vals outs cols c :
  layout_cols T vals = Ok (outs, cols) -> In c cols -> col_wf (length vals) c.
Proof.
  intros E Hin. pose proof (layout_cols_wf _ _ _ _ E) as HF. rewrite Forall_forall in HF. apply HF, Hin.
Qed.

Theorem layout_num_column_canonical T vals outs cols w ae raws :
  layout_cols T vals = Ok (outs, cols) -> In (ColNum w ae raws) cols ->
  length raws = length vals /\
  exists base wd incs,
    col_fields (ColNum w ae raws) = FUint w base :: FUint 6 wd :: map (FUint wd) incs /\
    (0 < w)%Z /\ (0 <= base < 2 ^ w)%Z /\ (0 <= wd < 64)%Z /\
    ((forall v, In v raws -> v = None) -> base = (2 ^ w - 1)%Z) /\
    ((exists x, In (Some x) raws) -> In (Some base) raws) /\
    (forall x, In (Some x) raws -> (base <= x)%Z) /\
    (wd = 0%Z <-> ae = true) /\
    (ae = true -> incs = [] /\ forall v, In v raws -> v = hd None raws) /\
    (ae = false ->
       exists mx, In (Some mx) raws /\ (forall x, In (Some x) raws -> (x <= mx)%Z) /\
                  (mx - base + 2 < 2 ^ wd)%Z /\
                  forall k, (0 <= k)%Z -> (mx - base + 2 < 2 ^ k)%Z -> (wd <= k)%Z) /\
    (ae = false ->
       Forall2 (fun v d => match v with
                           | None => d = (2 ^ wd - 1)%Z
                           | Some x => (base + d)%Z = x /\ (0 <= d < 2 ^ wd - 1)%Z
                           end) raws incs).
Proof.
  intros E Hin. pose proof (layout_col_wf _ _ _ _ _ E Hin) as Hwf.
  split; [apply Hwf|]. exact (num_column_canonical _ _ _ _ Hwf).
Qed.

Theorem layout_str_column_canonical T vals outs cols nb ae strs :
  layout_cols T vals = Ok (outs, cols) -> In (ColStr nb ae strs) cols ->
  length strs = length vals /\ (0 <= nb)%Z /\
  (ae = true ->
     col_fields (ColStr nb ae strs) = [FBytes nb (str_val nb (hd None strs)); FUint 6 0] /\
     forall v, In v strs -> v = hd None strs) /\
  (ae = false ->
     (nb < 64)%Z /\
     col_fields (ColStr nb ae strs) =
       FBytes nb (repeat 0%N (Z.to_nat nb)) :: FUint 6 nb :: map (fun v => FBytes nb (str_val nb v)) strs).
Proof.
  intros E Hin. pose proof (layout_col_wf _ _ _ _ _ E Hin) as Hwf.
  split; [apply Hwf|]. exact (str_column_canonical _ _ _ _ Hwf).
Qed.

Theorem layout_ref_column_canonical T vals outs cols w z :
  layout_cols T vals = Ok (outs, cols) -> In (ColRef w z) cols ->
  col_fields (ColRef w z) = [FBool (z <? 0)%Z; FUint (w - 1) (Z.abs z); FUint 6 0] /\
  (1 < w)%Z /\ (Z.abs z < 2 ^ (w - 1))%Z.
Proof.
  intros E Hin. exact (ref_column_canonical _ _ _ (layout_col_wf _ _ _ _ _ E Hin)).
Qed.

(* every field of the layout is within range: nothing is wrapped or clipped *)
Theorem layout_fields_in_range T vals outs cols :
  layout_cols T vals = Ok (outs, cols) -> forallb emit_ok (fields_of cols) = true.
Proof.
  intros E. pose proof (layout_cols_wf _ _ _ _ E) as HF. unfold fields_of. clear E.
  induction HF as [|c cols' Hc _ IH]; [reflexivity|]. destruct Hc as (Hok & _).
  cbn [flat_map]. rewrite forallb_app, Hok, IH. reflexivity.
Qed.

(* ========================================================================== *)
(* 6. bit level: the fields of a numeric column are the reference bit layout    *)
(*    of Column.v (lay_col_num: base, 6-bit width, increments, MSB first)       *)
(* ========================================================================== *)
Theorem num_fields_bits w raws o :
  col_dom_num w false raws = true ->
  write_fields (num_fields w false raws) o =
  Ok (o ++ lay_col_num w (Z.of_N (canon_width (col_spread raws))) (Z.to_N (col_min w raws)) (raw_view raws)).
Proof.
  intros Hdom. unfold col_dom_num in Hdom.
  apply andb_true_iff in Hdom as [H Hspread]. apply andb_true_iff in H as [H Hrange].
  apply andb_true_iff in H as [H Hflag]. apply andb_true_iff in H as [Hw2 Hw64].
  rewrite forallb_forall in Hrange.
  destruct raws as [|v0 raws']; [discriminate|]. set (raws := v0 :: raws') in *.
  cbn [col_flag_ok raws] in Hflag. fold raws in Hflag.
  destruct (minmax raws) as [[mn mx]|] eqn:Hmm.
  2:{ exfalso. apply existsb_exists in Hflag as (v & Hin & Hv).
      rewrite (proj1 (minmax_none raws) Hmm v Hin) in Hv. discriminate. }
  destruct (minmax_spec raws mn mx Hmm) as (Imn & Imx & Hall).
  destruct (minmax_zmin _ _ _ Hmm) as (Hmin & Hmax).
  pose proof (Hrange _ Imn) as Hmn. cbn in Hmn.
  unfold col_spread_ok in Hspread. rewrite Hmm in Hspread.
  assert (Hle : (mn <= mx)%Z) by (destruct (Hall mx Imx); lia).
  destruct (enc_col_num_layout w raws o mn mx) as (_ & _ & Henc); [lia|discriminate|exact Hmm|lia|lia|].
  destruct (enc_col_num_fields w false raws o _ Henc) as (Hw & _); [discriminate|].
  rewrite Hw. unfold col_spread, col_min. rewrite Hmin, Hmax. rewrite canon_width_nbits.
  repeat f_equal. lia.
Qed.
