(* StreamFrameOverrun.v — C12 end to end, second damage kind: the declared
   length of section 4 of an encoded message DECREASED below the section's
   content.  The full decode fails with the library's overrun error
   (FrameProofs.decode_overrun_error) whatever follows; the metadata-only
   decode skips to the (wrong) declared end of section 4, stops there, and
   still reports the intact total length: the scanner skips exactly that
   message. *)
From PBK Require Import Base Bits BitsProofs Frame FrameProofs FrameRoundtrip MdQuery MdQueryProofs
  MdInfoContent FramePrefix FramePrefixEnc Stream StreamProofs StreamFrame StreamFrameProofs StreamFrameDamage.
From Coq Require Import ZifyBool ZifyNat ZifyN.

Lemma bits_of_bytes_skipn : forall j s, bits_of_bytes (skipn j s) = skipn (8 * j) (bits_of_bytes s).
Proof.
  induction j as [|j IH]; intros s; [reflexivity|].
  destruct s as [|x s]; [reflexivity|].
  cbn [skipn bits_of_bytes]. rewrite IH.
  assert (L8 : length (to_bits 8 x) = 8%nat) by apply length_to_bits.
  rewrite skipn_app, L8. rewrite (skipn_all2 (to_bits 8 x)) by lia.
  replace (8 * S j - 8)%nat with (8 * j)%nat by lia. reflexivity.
Qed.

(* the three octets of a section length field *)
Definition len3 (v : N) : list byte := bytes_of_bits 3 (to_bits 24 v).
(* b with the three octets at offset off overwritten by the 24-bit number v *)
Definition set_len3 (b : list byte) (off : nat) (v : N) : list byte :=
  firstn off b ++ len3 v ++ skipn (off + 3) b.

(* the message b with the length field of its section 4 (declared length sl,
   followed only by the four octets of section 5) overwritten by v *)
Definition dmg_len4 (b : list byte) (sl v : Z) : list byte :=
  set_len3 b (length b - 4 - Z.to_nat sl) (Z.to_N v).

Lemma bits_len3 v : bits_of_bytes (len3 v) = to_bits 24 v.
Proof. unfold len3. apply (bits_of_bytes_of_bits 3). apply length_to_bits. Qed.

Lemma length_len3 v : length (len3 v) = 3%nat.
Proof. apply length_bytes_of_bits. Qed.

Lemma length_set_len3 b off v : (off + 3 <= length b)%nat -> length (set_len3 b off v) = length b.
Proof.
  intros H. unfold set_len3. rewrite !app_length, length_len3, firstn_length, skipn_length. lia.
Qed.

Section Overrun.
Variable dd : list (pname * pvalue) -> reader -> result (bits * reader).
Hypothesis dd_prefix : forall p r b r', dd p r = Ok (b, r') -> r = b ++ r'.
Hypothesis dd_suffix : forall p r b r' s, dd p r = Ok (b, r') -> dd p (r ++ s) = Ok (b, r' ++ s).
Hypothesis dd_cuts : forall p, cuts (dd p).

(* sections 0..3 of ANY decode (full or metadata-only: the same) are a function
   of the bits e they consume; whatever replaces the rest is what section 4 sees *)
Lemma split0123 R secs props r' :
  decode_sections dd definitions false false section_indices [] [] R = Ok (secs, props, r') ->
  exists e secs1 props1 r1,
    R = e ++ r1 /\ length e = sections_nbits secs1 /\
    (forall info y, run dd info false [0;1;2;3]%N [] [] (e ++ y) = Ok (false, secs1, props1, y)) /\
    decode_sections dd definitions false false [4;5;6]%N props1 secs1 r1 = Ok (secs, props, r').
Proof.
  change section_indices with ([0;1;2;3]%N ++ [4;5;6]%N). rewrite decode_sections_split. intros H.
  destruct (run dd false false [0;1;2;3]%N [] [] R) as [[[[ended secs1] props1] r1]|err] eqn:Erun; [|discriminate].
  assert (H0123 : Forall (fun i => i <> 4%N /\ i <> 5%N) [0;1;2;3]%N) by (repeat constructor; discriminate).
  destruct (run_indices dd dd_prefix dd_suffix false false _ H0123 _ _ _ _ _ _ _ Erun) as (-> & _).
  cbn [bind] in H. cbv iota in H.
  assert (Hn4 : Forall (fun i => i <> 4%N) [0;1;2;3]%N) by (repeat constructor; discriminate).
  rewrite <- (run_info_same dd false _ Hn4) in Erun.
  destruct (run_replace dd false _ _ _ _ _ _ _ _ Erun) as (e & new & -> & Es & Le & G).
  cbn [app] in Es. subst secs1.
  exists e, new, props1, r1. split; [reflexivity|]. split; [exact Le|]. split; [|exact H].
  intros info y. destruct info; [apply G|]. rewrite <- (run_info_same dd false _ Hn4). apply G.
Qed.

(* ---- section 4, read in full ---------------------------------------------- *)
Lemma decode_params_section4 props start (b24 b8 rest : bits) :
  length b24 = 24%nat -> length b8 = 8%nat ->
  decode_params dd (s_params section4) (s_params section4) start [] props (b24 ++ b8 ++ rest) =
  let* (b, r') := dd props rest in
  Ok ([(Nsection_length, PUint (Z.of_N (of_bits b24))); (Nreserved_bits, PBin b8); (Ntemplate_data, PData b)],
      (Ntemplate_data, PData b) :: props, r').
Proof.
  intros L24 L8. cbn [section4 s_params decode_params p_type p_nbits].
  change (24 =? 0)%Z with false. change (8 =? 0)%Z with false. cbv iota.
  unfold read_typed, read_uint, read_bin. change (24 <=? 0)%Z with false. change (8 <? 0)%Z with false. cbv iota.
  change (Z.to_nat 24) with 24%nat. change (Z.to_nat 8) with 8%nat.
  rewrite <- L24 at 1. rewrite take_bits_app. cbn [bind]. unfold add_prop at 1. cbn [p_prop check_expected p_expected bind].
  rewrite <- L8 at 1. rewrite take_bits_app. cbn [bind]. unfold add_prop at 1. cbn [p_prop check_expected p_expected bind].
  destruct (dd props rest) as [[b r']|e]; [|reflexivity]. cbn [bind]. unfold add_prop. cbn [p_prop p_name app]. reflexivity.
Qed.

(* a stream that section 4 decodes starts with 24 + 8 bits *)
Lemma section4_starts props r sec props' r' :
  decode_section dd section4 props r = Ok (sec, props', r') ->
  exists b24 b8 rest, r = b24 ++ b8 ++ rest /\ length b24 = 24%nat /\ length b8 = 8%nat.
Proof.
  unfold decode_section. intros H. apply bind_ok in H as ([[env props1] r1] & Hp & _).
  cbn [section4 s_params decode_params p_type p_nbits] in Hp.
  change (24 =? 0)%Z with false in Hp. change (8 =? 0)%Z with false in Hp. cbv iota in Hp.
  apply bind_ok in Hp as ([v1 ra] & H1 & Hp). apply bind_ok in Hp as (u1 & _ & Hp).
  apply bind_ok in Hp as ([v2 rb] & H2 & _).
  unfold read_typed in H1, H2. apply bind_ok in H1 as ([v ra'] & H1 & E1). injection E1 as _ <-.
  apply bind_ok in H2 as ([w rb'] & H2 & E2). injection E2 as _ <-.
  unfold read_uint in H1. change (24 <=? 0)%Z with false in H1. cbv iota in H1.
  apply bind_ok in H1 as ([b24 rx] & T1 & E1). injection E1 as _ <-.
  unfold read_bin in H2. change (8 <? 0)%Z with false in H2. cbv iota in H2.
  apply take_bits_ok in T1 as [-> L24]. apply take_bits_ok in H2 as [-> L8].
  exists b24, w, rb'. auto.
Qed.

(* what a successful full decode of section 4 says about the stream *)
Lemma section4_shape props r sec props' r' :
  decode_section dd section4 props r = Ok (sec, props', r') ->
  exists b24 b8 data rA,
    r = b24 ++ b8 ++ data ++ rA /\ length b24 = 24%nat /\ length b8 = 8%nat /\
    dd props (data ++ rA) = Ok (data, rA) /\
    sec_values sec = [(Nsection_length, PUint (Z.of_N (of_bits b24))); (Nreserved_bits, PBin b8);
                      (Ntemplate_data, PData data)] /\
    (exists k, length r = (8 * Z.to_nat (Z.of_N (of_bits b24)) + length r')%nat /\ rA = k ++ r').
Proof.
  intros H. destruct (section4_starts _ _ _ _ _ H) as (b24 & b8 & rest & -> & L24 & L8).
  pose proof H as H'. unfold decode_section in H'.
  rewrite (decode_params_section4 props _ b24 b8 rest L24 L8) in H'.
  destruct (dd props rest) as [[data rA]|e] eqn:Ed; [|discriminate]. cbn [bind] in H'.
  pose proof (dd_prefix _ _ _ _ Ed) as ->.
  apply bind_ok in H' as (r2 & H2 & H'). injection H' as <- _ <-. cbn [sec_values].
  exists b24, b8, data, rA. split; [reflexivity|]. split; [exact L24|]. split; [exact L8|]. split; [exact Ed|].
  split; [reflexivity|].
  destruct (decode_section_ok dd dd_prefix dd_suffix _ _ _ _ _ _ H) as (e4 & E4 & _ & _ & _ & Hsl & _).
  destruct (Hsl eq_refl) as (sl & Hv & Hl). cbn [sec_values prop_get] in Hv.
  change (pname_beq Nsection_length Nsection_length) with true in Hv. injection Hv as <-.
  change (has_param Nsection_length (s_params section4)) with true in H2. cbv iota in H2.
  apply bind_ok in H2 as (sl' & _ & H2).
  assert (Hk : exists k, rA = k ++ r2).
  { destruct (0 <? _)%Z.
    - apply bind_ok in H2 as ([k r''] & Hr & E). injection E as <-. unfold read_bin in Hr.
      destruct (_ <? 0)%Z; [discriminate|]. apply take_bits_ok in Hr as [-> _]. exists k. reflexivity.
    - destruct (_ <? 0)%Z; [discriminate|]. injection H2 as <-. exists []. reflexivity. }
  destruct Hk as (k & Ek). exists k. split; [|exact Ek].
  apply (f_equal (@length bool)) in E4. rewrite E4, app_length. lia.
Qed.

(* the overrun: a length field smaller than what the content needs *)
Lemma section4_overrun props (b24' b8 data rest : bits) :
  length b24' = 24%nat -> length b8 = 8%nat ->
  dd props (data ++ rest) = Ok (data, rest) ->
  (8 * Z.of_N (of_bits b24') < 32 + Z.of_nat (length data))%Z ->
  decode_section dd section4 props (b24' ++ b8 ++ data ++ rest) = Err ELib.
Proof.
  intros L24 L8 Hd Hlt.
  eapply (decode_overrun_error dd section4 props _ _ _ rest (Z.of_N (of_bits b24'))).
  - rewrite (decode_params_section4 props _ b24' b8 (data ++ rest) L24 L8), Hd. cbn [bind]. reflexivity.
  - reflexivity.
  - rewrite !app_length. lia.
Qed.

(* ---- section 4, metadata only ---------------------------------------------- *)
Lemma info4_decodes props (b24' b8 tail : bits) :
  length b24' = 24%nat -> length b8 = 8%nat ->
  (32 <= 8 * Z.of_N (of_bits b24'))%Z ->
  (8 * Z.of_N (of_bits b24') - 32 <= Z.of_nat (length tail))%Z ->
  exists sec r', decode_section dd info4 props (b24' ++ b8 ++ tail) = Ok (sec, props, r').
Proof.
  intros L24 L8 Hge Hle. unfold decode_section. cbn [info4 s_params decode_params p_type p_nbits].
  change (24 =? 0)%Z with false. change (8 =? 0)%Z with false. cbv iota.
  unfold read_typed, read_uint, read_bin at 1. change (24 <=? 0)%Z with false. change (8 <? 0)%Z with false. cbv iota.
  change (Z.to_nat 24) with 24%nat. change (Z.to_nat 8) with 8%nat.
  assert (T24 : forall X, take_bits 24 (b24' ++ X) = Ok (b24', X)) by (intros X; rewrite <- L24; apply take_bits_app).
  assert (T8 : forall X, take_bits 8 (b8 ++ X) = Ok (b8, X)) by (intros X; rewrite <- L8; apply take_bits_app).
  rewrite T24. cbn [bind]. unfold add_prop at 1. cbn [p_prop check_expected p_expected bind].
  rewrite T8. cbn [bind]. unfold add_prop at 1. cbn [p_prop check_expected p_expected bind app].
  change (has_param Nsection_length [mkP Nsection_length 24 TUint None false; mkP Nreserved_bits 8 TBin None false]) with true.
  cbv iota. unfold declared_length.
  change (has_param Nsection_length [mkP Nsection_length 24 TUint None false; mkP Nreserved_bits 8 TBin None false]) with true.
  cbn [prop_get p_name]. change (pname_beq Nsection_length Nsection_length) with true. cbn [bind].
  set (v := Z.of_N (of_bits b24')) in *.
  assert (Hc : Z.of_nat (length (b24' ++ b8 ++ tail) - length tail) = 32%Z) by (rewrite !app_length; lia).
  rewrite Hc.
  destruct (Z.ltb_spec 0 (v * 8 - 32)).
  - unfold read_bin. destruct (Z.ltb_spec (v * 8 - 32) 0); [lia|]. unfold take_bits.
    destruct (Nat.ltb_spec (length tail) (Z.to_nat (v * 8 - 32))); [lia|]. cbn [bind]. eexists. eexists. reflexivity.
  - destruct (Z.ltb_spec (v * 8 - 32) 0); [lia|]. cbn [bind]. eexists. eexists. reflexivity.
Qed.


Lemma decode_section0_min props R sec props' r' :
  decode_section dd section0 props R = Ok (sec, props', r') -> (32 <= length R)%nat.
Proof.
  unfold decode_section. intros H. apply bind_ok in H as ([[env props1] r1] & Hp & _).
  cbn [section0 s_params decode_params p_type p_nbits] in Hp. change (32 =? 0)%Z with false in Hp. cbv iota in Hp.
  apply bind_ok in Hp as ([v1 ra] & H1 & _). unfold read_typed in H1.
  apply bind_ok in H1 as ([l rx] & Hb & _). unfold read_bytes in Hb. change (32 / 8 <? 0)%Z with false in Hb.
  cbv iota in Hb. apply bind_ok in Hb as ([b ry] & Ht & _). apply take_bits_ok in Ht as [-> Lb].
  change (8 * Z.to_nat (32 / 8))%nat with 32%nat in Lb. rewrite app_length. lia.
Qed.

Lemma value_matches_uint ve z : value_matches ve (PUint z) -> ve = PUint z.
Proof. intros [H|(b & k & _ & H)]; [auto|discriminate]. Qed.
Lemma value_matches_data ve d : value_matches ve (PData d) -> ve = PData d.
Proof. intros [H|(b & k & _ & H)]; [auto|discriminate]. Qed.

(* THE overrun theorem, message level.  For an encoded message (hypotheses of
   C04_frame_roundtrip): its last two sections are 4 and 5, section 4 has the
   values (declared length sl, reserved bits, data); overwrite the length field
   of section 4 (three octets at |m| - 4 - sl) with any v whose 8v bits do not
   hold the section's content (32 + |data| bits): the full decode of the result
   followed by ANY bytes is the library's overrun error; if moreover
   4 <= v <= sl the metadata-only decode succeeds, with one and the same result
   whatever follows, and still reports the total length |m| *)
Theorem damaged_section4_length : forall ign json m,
  encode_message ign json = Ok m ->
  Forall sec_fits (m_sections m) -> Forall desc_fill_ok (m_sections m) -> data_ok dd [] (m_sections m) ->
  exists pre s4 s5 sl rb data,
    m_sections m = pre ++ [s4; s5] /\
    sec_values s4 = [(Nsection_length, PUint sl); (Nreserved_bits, rb); (Ntemplate_data, PData data)] /\
    (0 <= sl)%Z /\ (Z.to_nat sl + 8 <= length (m_bytes m))%nat /\
    forall v, (0 <= v < 2 ^ 24)%Z -> (8 * v < 32 + Z.of_nat (length data))%Z ->
      length (dmg_len4 (m_bytes m) sl v) = length (m_bytes m) /\ starts_sig (dmg_len4 (m_bytes m) sl v) /\
      (forall t, decode_message dd None false false (dmg_len4 (m_bytes m) sl v ++ t) = Err ELib) /\
      ((4 <= v <= sl)%Z ->
         exists mi, (forall t, decode_message dd None true false (dmg_len4 (m_bytes m) sl v ++ t) = Ok mi) /\
                    prop_get Nlength (m_props mi) = Some (PUint (Z.of_nat (length (m_bytes m))))).
Proof.
  intros ign json m Henc Hfits Hdfs Hdat.
  destruct (frame_roundtrip dd ign json m [] Henc Hfits Hdfs Hdat) as (m' & Hdec & Hbm & Hsm & _).
  rewrite app_nil_r in Hdec.
  destruct (encoded_decodes dd dd_prefix dd_suffix _ _ _ Henc Hfits Hdfs Hdat) as (m'' & Hdec' & _ & Hn & _ & H12).
  rewrite Hdec in Hdec'. injection Hdec' as <-.
  destruct (encoded_full_decode dd dd_prefix dd_suffix _ _ _ Henc Hfits Hdfs Hdat) as (Hf & _).
  rewrite (decode_sig_none _ _ _ _ _ Hf) in Hdec.
  pose proof (encoded_declared dd _ _ _ _ _ Henc Hdec) as Hlen.
  pose proof Hf as Hf2. apply find_sig_0_starts, starts_with_split in Hf2. destruct Hf2 as (sb & Esb).
  set (L := length (m_bytes m)) in *.
  pose proof Hdec as Hd0. unfold decode_message, decode_message_with in Hd0. cbn [bind] in Hd0.
  change (skipn 0 (m_bytes m)) with (m_bytes m) in Hd0.
  apply bind_ok in Hd0 as ([[secs props] r'] & Hs & Hm). apply ok_inj in Hm. subst m'.
  cbn [m_sections m_props] in Hn, Hsm, Hlen.
  destruct (decode_sections_nbits dd dd_cuts _ _ _ _ _ _ _ _ _ _ Hs) as (E & new & HE & Hnew & HlE).
  cbn [app] in Hnew. subst new.
  assert (Lr : length (bits_of_bytes (m_bytes m)) = (8 * L)%nat) by apply length_bits_of_bytes.
  assert (Hr' : r' = []) by (apply length_zero_iff_nil; rewrite HE, app_length in Lr; lia). subst r'.
  destruct (split0123 _ _ _ _ Hs) as (e & secs1 & props1 & r1 & Er & Le & G & Hcont).
  (* sections 4 and 5 of the original *)
  rewrite decode_sections_cons1, configure_4, transform_full4 in Hcont. cbn [bind] in Hcont.
  apply bind_ok in Hcont as ([[sec4 props2] r2] & H4 & Hcont). change (s_end section4) with false in Hcont. cbv iota in Hcont.
  pose proof Hcont as Hk5.
  rewrite decode_sections_cons1, configure_5 in Hcont. cbn [bind] in Hcont.
  apply bind_ok in Hcont as ([[sec5 props3] r3] & H5 & Hcont).
  destruct (decode_section5 dd false false _ _ _ _ _ H5) as [Hn5 He5]. rewrite He5 in Hcont.
  injection Hcont as <- _ ->.
  destruct (decode_section_nbits dd dd_cuts _ _ _ _ _ _ H5) as (e5 & E5 & Hl5). rewrite app_nil_r in E5. subst r2.
  destruct (section4_shape _ _ _ _ _ H4) as (b24 & b8 & data & rA & Er1 & L24 & L8 & Hdd & Hv4 & (k & Hlr1 & ErA)).
  subst r1 rA.
  set (sl := Z.of_N (of_bits b24)) in *.
  assert (Ll : (8 * L = length e + 8 * Z.to_nat sl + 32)%nat) by (rewrite <- Lr, Er, app_length, Hlr1; lia).
  assert (He32 : (32 <= length e)%nat).
  { pose proof (G false []) as G0. cbn [run] in G0. rewrite configure_0 in G0. cbn [bind] in G0.
    apply bind_ok in G0 as ([[sec0 p0] r0] & H0 & _). apply decode_section0_min in H0.
    rewrite app_nil_r in H0. exact H0. }
  (* the encoder's view of the last two sections *)
  rewrite <- app_assoc in Hsm. cbn [app] in Hsm.
  apply Forall2_app_inv_r in Hsm as (pre & l2 & Hpre & Hl2 & Esecs).
  inversion Hl2 as [|s4 y4 l3 l4 Hm4 Hl3 E1 E2]. subst l2. clear E2 Hl2.
  inversion Hl3 as [|s5 y5 l5 l6 Hm5 Hl5' E1 E2]. subst l3. clear E2 Hl3.
  inversion Hl5'. subst l5. clear Hl5'.
  destruct Hm4 as (_ & _ & _ & Hvals). rewrite Hv4 in Hvals.
  assert (Hs4 : exists rb, sec_values s4 = [(Nsection_length, PUint sl); (Nreserved_bits, rb); (Ntemplate_data, PData data)]).
  { destruct (sec_values s4) as [|[n1 v1] [|[n2 v2] [|[n3 v3] [|]]]]; try (exfalso; inversion Hvals; fail).
    - exfalso. inversion Hvals as [|? ? ? ? _ Hv']. inversion Hv'.
    - exfalso. inversion Hvals as [|? ? ? ? _ Hv']. inversion Hv' as [|? ? ? ? _ Hv'']. inversion Hv''.
    - inversion Hvals as [|? ? ? ? [N1 V1] Hv']. inversion Hv' as [|? ? ? ? [N2 V2] Hv'']. inversion Hv'' as [|? ? ? ? [N3 V3] _].
      cbn [fst snd] in *. apply value_matches_uint in V1. apply value_matches_data in V3.
      exists v2. congruence.
    - exfalso. inversion Hvals as [|? ? ? ? _ Hv']. inversion Hv' as [|? ? ? ? _ Hv'']. inversion Hv'' as [|? ? ? ? _ Hv3]. inversion Hv3. }
  destruct Hs4 as (rb & Hs4).
  exists pre, s4, s5, sl, rb, data. split; [exact Esecs|]. split; [exact Hs4|].
  split; [lia|]. split; [lia|].
  intros v Hv Hover. unfold dmg_len4. fold L.
  set (o4 := (L - 4 - Z.to_nat sl)%nat).
  assert (Ho4 : length e = (8 * o4)%nat) by (unfold o4; lia).
  assert (Ho4L : (o4 + 3 <= L)%nat) by (unfold o4; lia).
  set (rA := k ++ e5) in *.
  (* the bits of the damaged message *)
  set (b24' := to_bits 24 (Z.to_N v)).
  assert (L24' : length b24' = 24%nat) by apply length_to_bits.
  assert (Ob : Z.of_N (of_bits b24') = v).
  { unfold b24'. rewrite of_bits_to_bits; [lia|]. change (2 ^ N.of_nat 24)%N with (Z.to_N (2 ^ 24)). lia. }
  assert (Ebits : bits_of_bytes (set_len3 (m_bytes m) o4 (Z.to_N v)) = e ++ b24' ++ b8 ++ data ++ rA).
  { unfold set_len3. rewrite !bits_of_bytes_app, bits_len3, bits_of_bytes_firstn, bits_of_bytes_skipn, Er.
    rewrite (firstn_app_exact (8 * o4) e _ Ho4).
    replace (8 * (o4 + 3))%nat with (length e + 24)%nat by lia.
    rewrite skipn_app, skipn_all2 by lia. replace (length e + 24 - length e)%nat with 24%nat by lia.
    rewrite (skipn_app_exact 24 b24 _ L24). reflexivity. }
  split; [apply length_set_len3, Ho4L|]. split.
  { assert (4 <= o4)%nat by lia.
    unfold set_len3. rewrite Esb, firstn_app. change (length sig_BUFR) with 4%nat.
    rewrite (@firstn_all2 _ o4 sig_BUFR) by (change (length sig_BUFR) with 4%nat; lia).
    rewrite <- app_assoc. eexists. reflexivity. }
  split.
  { intros t. unfold decode_message, decode_message_with. cbn [bind].
    change (skipn 0 (set_len3 (m_bytes m) o4 (Z.to_N v) ++ t)) with (set_len3 (m_bytes m) o4 (Z.to_N v) ++ t).
    rewrite bits_of_bytes_app, Ebits, <- !app_assoc.
    change section_indices with ([0;1;2;3]%N ++ [4;5;6]%N). rewrite decode_sections_split, (G false). cbn [bind]. cbv iota.
    rewrite decode_sections_cons1, configure_4, transform_full4. cbn [bind].
    rewrite (section4_overrun props1 b24' b8 data (rA ++ bits_of_bytes t) L24' L8); [reflexivity| |lia].
    rewrite (app_assoc data rA). apply dd_suffix, Hdd. }
  intros Hv4le.
  assert (Hi : exists mi, decode_message dd None true false (set_len3 (m_bytes m) o4 (Z.to_N v)) = Ok mi /\ m_props mi = props1).
  { unfold decode_message, decode_message_with. cbn [bind].
    change (skipn 0 (set_len3 (m_bytes m) o4 (Z.to_N v))) with (set_len3 (m_bytes m) o4 (Z.to_N v)).
    rewrite Ebits.
    change section_indices with ([0;1;2;3]%N ++ [4;5;6]%N). rewrite decode_sections_split, (G true). cbn [bind]. cbv iota.
    rewrite decode_sections_cons1, configure_4, transform_info4. cbn [bind].
    destruct (info4_decodes props1 b24' b8 (data ++ rA) L24' L8) as (sec & r'' & Hi4); [lia| |].
    { rewrite !app_length in Hlr1. rewrite app_length. unfold rA. rewrite app_length. lia. }
    rewrite Hi4. cbn [bind]. change (s_end info4) with true. cbv iota. eexists. split; reflexivity. }
  destruct Hi as (mi & Hi & Hpi). exists mi.
  destruct (decode_span dd dd_prefix dd_suffix _ _ _ _ _ Hi) as [Hall _]. split; [exact Hall|].
  rewrite Hpi, <- Hlen. symmetry.
  rewrite <- (decode_section_keeps dd Nlength section4 _ _ _ _ _ eq_refl H4).
  eapply (decode_sections_keeps dd Nlength false false [5;6]%N); [|exact Hk5].
  intros c0 Hc Hi0. apply definitions_length_owner; [exact Hc|]. intros E0. rewrite E0 in Hi0. cbn in Hi0. intuition discriminate.
Qed.

End Overrun.

(* ------------------------------------------------------------------------ *)
(* executable form, and what the scanner theorems ask                        *)
(* ------------------------------------------------------------------------ *)
(* (declared length of section 4, number of data bits) of an encoded message:
   read off its second-to-last section *)
Definition sec4_info (m : message) : option (Z * nat) :=
  match rev (m_sections m) with
  | _ :: s4 :: _ =>
      match sec_values s4 with
      | [(Nsection_length, PUint sl); _; (Ntemplate_data, PData data)] => Some (sl, length data)
      | _ => None
      end
  | _ => None
  end.

(* v is a 24-bit number, at least the four octets a section header needs, not
   above the true length, and too small for the section's content *)
Definition bad_len4b (sl : Z) (nd : nat) (v : Z) : bool :=
  (4 <=? v)%Z && (v <=? sl)%Z && (v <? 2 ^ 24)%Z && (8 * v <? 32 + Z.of_nat nd)%Z.

Section OverrunHyps.
Variable dd : list (pname * pvalue) -> reader -> result (bits * reader).
Hypothesis dd_prefix : forall p r b r', dd p r = Ok (b, r') -> r = b ++ r'.
Hypothesis dd_suffix : forall p r b r' s, dd p r = Ok (b, r') -> dd p (r ++ s) = Ok (b, r' ++ s).
Hypothesis dd_cuts : forall p, cuts (dd p).
Variable view : message -> list N.

Theorem damaged_len4_hyps : forall ign json m sl nd v,
  encode_message ign json = Ok m -> msg_wfb dd m = true ->
  sec4_info m = Some (sl, nd) -> bad_len4b sl nd v = true ->
  starts_sig (dmg_len4 (m_bytes m) sl v) /\
  length (dmg_len4 (m_bytes m) sl v) = length (m_bytes m) /\
  full_fails (frame_process dd view false) (dmg_len4 (m_bytes m) sl v) ELib /\
  info_ok (frame_process dd view true) (dmg_len4 (m_bytes m) sl v).
Proof.
  intros ign json m sl nd v Henc Hwf Hinfo Hbad.
  destruct (msg_wfb_sound dd dd_prefix dd_suffix _ Hwf) as (Hfits & Hdfs & Hdat).
  destruct (damaged_section4_length dd dd_prefix dd_suffix dd_cuts _ _ _ Henc Hfits Hdfs Hdat)
    as (pre & s4 & s5 & sl' & rb & data & Esecs & Hv4 & Hsl0 & HslL & Hall).
  unfold sec4_info in Hinfo. rewrite Esecs, rev_app_distr in Hinfo. cbn [rev app] in Hinfo.
  rewrite Hv4 in Hinfo. injection Hinfo as <- <-.
  unfold bad_len4b in Hbad. apply andb_true_iff in Hbad as [Hbad H4]. apply andb_true_iff in Hbad as [Hbad H3].
  apply andb_true_iff in Hbad as [H1 H2].
  destruct (Hall v ltac:(lia) ltac:(lia)) as (Hlen & Hst & Hfail & Hinf).
  split; [exact Hst|]. split; [exact Hlen|]. split.
  - intros t. unfold frame_process. rewrite Hfail. reflexivity.
  - destruct (Hinf ltac:(lia)) as (mi & Hmi & Hpl).
    exists (MsgInfo (length (m_bytes mi)) (length (m_bytes m)) (meta_of view mi)). split.
    + intros t. unfold frame_process. rewrite Hmi. cbn [bind]. unfold msginfo_of. rewrite Hpl.
      f_equal. f_equal. lia.
    + cbn [mi_declared]. symmetry. exact Hlen.
Qed.
End OverrunHyps.
