(* StreamFrameOverrun.v — C12 end to end, second damage kind: the declared
   length of section 4 of an encoded message DECREASED below the section's
   content.  The full decode fails with the library's overrun error
   (FrameProofs.decode_overrun_error) whatever follows; the metadata-only
   decode skips to the (wrong) declared end of section 4, stops there, and
   still reports the intact total length: the scanner skips exactly that
   message. *)
From PBK Require Import Base Bits BitsProofs Frame FrameProofs FrameRoundtrip MdQuery MdQueryProofs
  MdInfoContent FramePrefix FramePrefixEnc Stream StreamProofs StreamFrame StreamFrameProofs StreamFrameDamage.
From Coq Require Import ZifyBool ZifyNat ZifyN.

Lemma bits_of_bytes_skipn : forall j s, bits_of_bytes (skipn j s) = skipn (8 * j) (bits_of_bytes s).
Proof.
  induction j as [|j IH]; intros s; [reflexivity|].
  destruct s as [|x s]; [reflexivity|].
  cbn [skipn bits_of_bytes]. rewrite IH.
  assert (L8 : length (to_bits 8 x) = 8%nat) by apply length_to_bits.
  rewrite skipn_app, L8. rewrite (skipn_all2 (to_bits 8 x)) by lia.
  replace (8 * S j - 8)%nat with (8 * j)%nat by lia. reflexivity.
Qed.

(* the three octets of a section length field *)
Definition len3 (v : N) : list byte := bytes_of_bits 3 (to_bits 24 v).
(* b with the three octets at offset off overwritten by the 24-bit number v *)
Definition set_len3 (b : list byte) (off : nat) (v : N) : list byte :=
  firstn off b ++ len3 v ++ skipn (off + 3) b.

Lemma bits_len3 v : bits_of_bytes (len3 v) = to_bits 24 v.
Proof. unfold len3. apply (bits_of_bytes_of_bits 3). apply length_to_bits. Qed.

Lemma length_len3 v : length (len3 v) = 3%nat.
Proof. apply length_bytes_of_bits. Qed.

Lemma length_set_len3 b off v : (off + 3 <= length b)%nat -> length (set_len3 b off v) = length b.
Proof.
  intros H. unfold set_len3. rewrite !app_length, length_len3, firstn_length, skipn_length. lia.
Qed.

Section Overrun.
Variable dd : list (pname * pvalue) -> reader -> result (bits * reader).
Hypothesis dd_prefix : forall p r b r', dd p r = Ok (b, r') -> r = b ++ r'.
Hypothesis dd_suffix : forall p r b r' s, dd p r = Ok (b, r') -> dd p (r ++ s) = Ok (b, r' ++ s).
Hypothesis dd_cuts : forall p, cuts (dd p).

(* sections 0..3 of ANY decode (full or metadata-only: the same) are a function
   of the bits e they consume; whatever replaces the rest is what section 4 sees *)
Lemma split0123 R secs props r' :
  decode_sections dd definitions false false section_indices [] [] R = Ok (secs, props, r') ->
  exists e secs1 props1 r1,
    R = e ++ r1 /\ length e = sections_nbits secs1 /\
    (forall info y, run dd info false [0;1;2;3]%N [] [] (e ++ y) = Ok (false, secs1, props1, y)) /\
    decode_sections dd definitions false false [4;5;6]%N props1 secs1 r1 = Ok (secs, props, r').
Proof.
  change section_indices with ([0;1;2;3]%N ++ [4;5;6]%N). rewrite decode_sections_split. intros H.
  destruct (run dd false false [0;1;2;3]%N [] [] R) as [[[[ended secs1] props1] r1]|err] eqn:Erun; [|discriminate].
  assert (H0123 : Forall (fun i => i <> 4%N /\ i <> 5%N) [0;1;2;3]%N) by (repeat constructor; discriminate).
  destruct (run_indices dd dd_prefix dd_suffix false false _ H0123 _ _ _ _ _ _ _ Erun) as (-> & _).
  cbn [bind] in H. cbv iota in H.
  assert (Hn4 : Forall (fun i => i <> 4%N) [0;1;2;3]%N) by (repeat constructor; discriminate).
  rewrite <- (run_info_same dd false _ Hn4) in Erun.
  destruct (run_replace dd false _ _ _ _ _ _ _ _ Erun) as (e & new & -> & Es & Le & G).
  cbn [app] in Es. subst secs1.
  exists e, new, props1, r1. split; [reflexivity|]. split; [exact Le|]. split; [|exact H].
  intros info y. destruct info; [apply G|]. rewrite <- (run_info_same dd false _ Hn4). apply G.
Qed.

(* ---- section 4, read in full ---------------------------------------------- *)
Lemma decode_params_section4 props start (b24 b8 rest : bits) :
  length b24 = 24%nat -> length b8 = 8%nat ->
  decode_params dd (s_params section4) (s_params section4) start [] props (b24 ++ b8 ++ rest) =
  let* (b, r') := dd props rest in
  Ok ([(Nsection_length, PUint (Z.of_N (of_bits b24))); (Nreserved_bits, PBin b8); (Ntemplate_data, PData b)],
      (Ntemplate_data, PData b) :: props, r').
Proof.
  intros L24 L8. cbn [section4 s_params decode_params p_type p_nbits].
  change (24 =? 0)%Z with false. change (8 =? 0)%Z with false. cbv iota.
  unfold read_typed, read_uint, read_bin. change (24 <=? 0)%Z with false. change (8 <? 0)%Z with false. cbv iota.
  change (Z.to_nat 24) with 24%nat. change (Z.to_nat 8) with 8%nat.
  rewrite <- L24 at 1. rewrite take_bits_app. cbn [bind]. unfold add_prop at 1. cbn [p_prop check_expected p_expected bind].
  rewrite <- L8 at 1. rewrite take_bits_app. cbn [bind]. unfold add_prop at 1. cbn [p_prop check_expected p_expected bind].
  destruct (dd props rest) as [[b r']|e]; [|reflexivity]. cbn [bind]. unfold add_prop. cbn [p_prop p_name app]. reflexivity.
Qed.

(* a stream that section 4 decodes starts with 24 + 8 bits *)
Lemma section4_starts props r sec props' r' :
  decode_section dd section4 props r = Ok (sec, props', r') ->
  exists b24 b8 rest, r = b24 ++ b8 ++ rest /\ length b24 = 24%nat /\ length b8 = 8%nat.
Proof.
  unfold decode_section. intros H. apply bind_ok in H as ([[env props1] r1] & Hp & _).
  cbn [section4 s_params decode_params p_type p_nbits] in Hp.
  change (24 =? 0)%Z with false in Hp. change (8 =? 0)%Z with false in Hp. cbv iota in Hp.
  apply bind_ok in Hp as ([v1 ra] & H1 & Hp). apply bind_ok in Hp as (u1 & _ & Hp).
  apply bind_ok in Hp as ([v2 rb] & H2 & _).
  unfold read_typed in H1, H2. apply bind_ok in H1 as ([v ra'] & H1 & E1). injection E1 as _ <-.
  apply bind_ok in H2 as ([w rb'] & H2 & E2). injection E2 as _ <-.
  unfold read_uint in H1. change (24 <=? 0)%Z with false in H1. cbv iota in H1.
  apply bind_ok in H1 as ([b24 rx] & T1 & E1). injection E1 as _ <-.
  unfold read_bin in H2. change (8 <? 0)%Z with false in H2. cbv iota in H2.
  apply take_bits_ok in T1 as [-> L24]. apply take_bits_ok in H2 as [-> L8].
  exists b24, w, rb'. auto.
Qed.

(* what a successful full decode of section 4 says about the stream *)
Lemma section4_shape props r sec props' r' :
  decode_section dd section4 props r = Ok (sec, props', r') ->
  exists b24 b8 data rA,
    r = b24 ++ b8 ++ data ++ rA /\ length b24 = 24%nat /\ length b8 = 8%nat /\
    dd props (data ++ rA) = Ok (data, rA) /\
    sec_values sec = [(Nsection_length, PUint (Z.of_N (of_bits b24))); (Nreserved_bits, PBin b8);
                      (Ntemplate_data, PData data)] /\
    (exists k, length r = (8 * Z.to_nat (Z.of_N (of_bits b24)) + length r')%nat /\ rA = k ++ r').
Proof.
  intros H. destruct (section4_starts _ _ _ _ _ H) as (b24 & b8 & rest & -> & L24 & L8).
  pose proof H as H'. unfold decode_section in H'.
  rewrite (decode_params_section4 props _ b24 b8 rest L24 L8) in H'.
  destruct (dd props rest) as [[data rA]|e] eqn:Ed; [|discriminate]. cbn [bind] in H'.
  pose proof (dd_prefix _ _ _ _ Ed) as ->.
  apply bind_ok in H' as (r2 & H2 & H'). injection H' as <- _ <-. cbn [sec_values].
  exists b24, b8, data, rA. split; [reflexivity|]. split; [exact L24|]. split; [exact L8|]. split; [exact Ed|].
  split; [reflexivity|].
  destruct (decode_section_ok dd dd_prefix dd_suffix _ _ _ _ _ _ H) as (e4 & E4 & _ & _ & _ & Hsl & _).
  destruct (Hsl eq_refl) as (sl & Hv & Hl). cbn [sec_values prop_get] in Hv.
  change (pname_beq Nsection_length Nsection_length) with true in Hv. injection Hv as <-.
  change (has_param Nsection_length (s_params section4)) with true in H2. cbv iota in H2.
  apply bind_ok in H2 as (sl' & _ & H2).
  assert (Hk : exists k, rA = k ++ r2).
  { destruct (0 <? _)%Z.
    - apply bind_ok in H2 as ([k r''] & Hr & E). injection E as <-. unfold read_bin in Hr.
      destruct (_ <? 0)%Z; [discriminate|]. apply take_bits_ok in Hr as [-> _]. exists k. reflexivity.
    - destruct (_ <? 0)%Z; [discriminate|]. injection H2 as <-. exists []. reflexivity. }
  destruct Hk as (k & Ek). exists k. split; [|exact Ek].
  apply (f_equal (@length bool)) in E4. rewrite E4, app_length. lia.
Qed.

(* the overrun: a length field smaller than what the content needs *)
Lemma section4_overrun props (b24' b8 data rest : bits) :
  length b24' = 24%nat -> length b8 = 8%nat ->
  dd props (data ++ rest) = Ok (data, rest) ->
  (8 * Z.of_N (of_bits b24') < 32 + Z.of_nat (length data))%Z ->
  decode_section dd section4 props (b24' ++ b8 ++ data ++ rest) = Err ELib.
Proof.
  intros L24 L8 Hd Hlt.
  eapply (decode_overrun_error dd section4 props _ _ _ rest (Z.of_N (of_bits b24'))).
  - rewrite (decode_params_section4 props _ b24' b8 (data ++ rest) L24 L8), Hd. cbn [bind]. reflexivity.
  - reflexivity.
  - rewrite !app_length. lia.
Qed.

(* ---- section 4, metadata only ---------------------------------------------- *)
Lemma info4_decodes props (b24' b8 tail : bits) :
  length b24' = 24%nat -> length b8 = 8%nat ->
  (32 <= 8 * Z.of_N (of_bits b24'))%Z ->
  (8 * Z.of_N (of_bits b24') - 32 <= Z.of_nat (length tail))%Z ->
  exists sec r', decode_section dd info4 props (b24' ++ b8 ++ tail) = Ok (sec, props, r').
Proof.
  intros L24 L8 Hge Hle. unfold decode_section. cbn [info4 s_params decode_params p_type p_nbits].
  change (24 =? 0)%Z with false. change (8 =? 0)%Z with false. cbv iota.
  unfold read_typed, read_uint, read_bin at 1. change (24 <=? 0)%Z with false. change (8 <? 0)%Z with false. cbv iota.
  change (Z.to_nat 24) with 24%nat. change (Z.to_nat 8) with 8%nat.
  assert (T24 : forall X, take_bits 24 (b24' ++ X) = Ok (b24', X)) by (intros X; rewrite <- L24; apply take_bits_app).
  assert (T8 : forall X, take_bits 8 (b8 ++ X) = Ok (b8, X)) by (intros X; rewrite <- L8; apply take_bits_app).
  rewrite T24. cbn [bind]. unfold add_prop at 1. cbn [p_prop check_expected p_expected bind].
  rewrite T8. cbn [bind]. unfold add_prop at 1. cbn [p_prop check_expected p_expected bind app].
  change (has_param Nsection_length [mkP Nsection_length 24 TUint None false; mkP Nreserved_bits 8 TBin None false]) with true.
  cbv iota. unfold declared_length.
  change (has_param Nsection_length [mkP Nsection_length 24 TUint None false; mkP Nreserved_bits 8 TBin None false]) with true.
  cbn [prop_get p_name]. change (pname_beq Nsection_length Nsection_length) with true. cbn [bind].
  set (v := Z.of_N (of_bits b24')) in *.
  assert (Hc : Z.of_nat (length (b24' ++ b8 ++ tail) - length tail) = 32%Z) by (rewrite !app_length; lia).
  rewrite Hc.
  destruct (Z.ltb_spec 0 (v * 8 - 32)).
  - unfold read_bin. destruct (Z.ltb_spec (v * 8 - 32) 0); [lia|]. unfold take_bits.
    destruct (Nat.ltb_spec (length tail) (Z.to_nat (v * 8 - 32))); [lia|]. cbn [bind]. eexists. eexists. reflexivity.
  - destruct (Z.ltb_spec (v * 8 - 32) 0); [lia|]. cbn [bind]. eexists. eexists. reflexivity.
Qed.

End Overrun.
