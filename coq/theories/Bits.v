(* Bits.v — model of pybufrkit/bitops.py over bitstring 4.4.0 as observed.
   A bit string is a [list bool], most significant bit first.  The writer is the
   list of bits written so far; the reader is the list of bits not yet read (the
   position is the difference of lengths).  Widths arrive as [Z] because the
   coder computes them (descriptor width + operator offsets) and may produce
   0 or negative numbers, which bitstring rejects with ValueError. *)
From PBK Require Import Base.

Definition bits := list bool.

(* ---- unsigned integers, MSB first ------------------------------------- *)
Fixpoint to_bits (n : nat) (v : N) : bits :=
  match n with
  | O => []
  | S k => N.testbit v (N.of_nat k) :: to_bits k v
  end.

Fixpoint of_bits_acc (acc : N) (b : bits) : N :=
  match b with
  | [] => acc
  | x :: r => of_bits_acc (2 * acc + N.b2n x) r
  end.
Definition of_bits (b : bits) : N := of_bits_acc 0 b.

Definition zeros (n : nat) : bits := repeat false n.
Definition ones (n : nat) : bits := repeat true n.

(* NUMERIC_MISSING_VALUES[n] = 2^n - 1 for n in 0..64 (IndexError beyond) *)
Definition missing_value (n : N) : N := (2 ^ n - 1)%N.

(* ---- reader ------------------------------------------------------------ *)
Definition reader := bits.         (* the unread bits *)

Definition take_bits (n : nat) (r : reader) : result (bits * reader) :=
  if (length r <? n)%nat then Err EBitRead else Ok (firstn n r, skipn n r).

(* bitstring: 'uint:0' -> ValueError, 'uint:-1' -> ValueError (bad token) *)
Definition read_uint (w : Z) (r : reader) : result (N * reader) :=
  if (w <=? 0)%Z then Err EValue else
  let* (b, r') := take_bits (Z.to_nat w) r in Ok (of_bits b, r').

Definition read_bool (r : reader) : result (bool * reader) :=
  match r with
  | [] => Err EBitRead        (* after "fix: read_bool at end of stream" *)
  | x :: r' => Ok (x, r')
  end.

(* sign-magnitude: one sign bit, then w-1 bits of magnitude *)
Definition read_int (w : Z) (r : reader) : result (Z * reader) :=
  let* (s, r1) := read_bool r in
  let* (m, r2) := read_uint (w - 1) r1 in
  Ok ((if s then - Z.of_N m else Z.of_N m)%Z, r2).

Definition read_bin (w : Z) (r : reader) : result (bits * reader) :=
  if (w <? 0)%Z then Err EValue else take_bits (Z.to_nat w) r.

Fixpoint bytes_of_bits (n : nat) (b : bits) : list byte :=
  match n with
  | O => []
  | S k => of_bits (firstn 8 b) :: bytes_of_bits k (skipn 8 b)
  end.

Definition read_bytes (nbytes : Z) (r : reader) : result (list byte * reader) :=
  if (nbytes <? 0)%Z then Err EValue else
  let* (b, r') := take_bits (8 * Z.to_nat nbytes) r in
  Ok (bytes_of_bits (Z.to_nat nbytes) b, r').

(* read_uint_or_none: the value is compared with NUMERIC_MISSING_VALUES[w],
   a list of 65 entries, only when w > 1: IndexError for w > 64 *)
Definition read_uint_or_none (w : Z) (r : reader) : result (option N * reader) :=
  let* (v, r') := read_uint w r in
  if (1 <? w)%Z then
    if (64 <? w)%Z then Err EIndex
    else if (v =? missing_value (Z.to_N w))%N then Ok (None, r') else Ok (Some v, r')
  else Ok (Some v, r').

(* ---- writer ------------------------------------------------------------ *)
Definition writer := bits.         (* everything written so far *)

(* the value has already been through Python's int(): it is a [Z] *)
Definition write_uint (v : Z) (w : Z) (o : writer) : result writer :=
  if (w <=? 0)%Z then Err EValue
  else if (v <? 0)%Z then Err EValue
  else if (2 ^ w <=? v)%Z then Err EValue
  else Ok (o ++ to_bits (Z.to_nat w) (Z.to_N v)).

Definition write_bool (b : bool) (o : writer) : result writer := Ok (o ++ [b]).

Definition write_int (v : Z) (w : Z) (o : writer) : result writer :=
  let* o1 := write_bool (v <? 0)%Z o in
  write_uint (Z.abs v) (w - 1) o1.

Definition write_bin (b : bits) (o : writer) : result writer := Ok (o ++ b).

Fixpoint bits_of_bytes (l : list byte) : bits :=
  match l with
  | [] => []
  | x :: r => to_bits 8 x ++ bits_of_bytes r
  end.

Definition pad_bytes (v : list byte) (n : nat) : list byte :=
  firstn n v ++ repeat 32%N (n - length v).

Definition write_bytes (v : list byte) (nbytes : Z) (o : writer) : result writer :=
  if (nbytes <? 0)%Z then Err EValue   (* b' ' * negative = b'' then value[:n] ... never used *)
  else Ok (o ++ bits_of_bytes (pad_bytes v (Z.to_nat nbytes))).

(* skip: writes zero bits; a zero-length skip is rejected by bitstring *)
Definition skip (w : Z) (o : writer) : result writer :=
  if (w <=? 0)%Z then Err EValue else Ok (o ++ zeros (Z.to_nat w)).

(* set_uint: overwrite w bits at bit position pos (after "fix: set_uint width") *)
Definition set_uint (v : Z) (w : Z) (pos : nat) (o : writer) : result writer :=
  if (w <=? 0)%Z then Err EValue
  else if (v <? 0)%Z then Err EValue
  else if (2 ^ w <=? v)%Z then Err EValue
  else Ok (firstn pos o ++ to_bits (Z.to_nat w) (Z.to_N v) ++ skipn (pos + Z.to_nat w) o).

(* the code as it was before the repair (D1): width test [w / 8 = 0], else 24 bits *)
Definition set_uint_orig (v : Z) (w : Z) (pos : nat) (o : writer) : result writer :=
  if (w <=? 0)%Z then Err EValue
  else if (v <? 0)%Z then Err EValue
  else
    let len := if (w / 8 =? 0)%Z then w else 24%Z in
    if (2 ^ len <=? v)%Z then Err EValue
    else Ok (firstn pos o ++ to_bits (Z.to_nat len) (Z.to_N v) ++ skipn (pos + Z.to_nat w) o).

(* to_bytes: only whole octets are ever taken; a trailing partial octet is
   zero padded by bitstring *)
Definition to_bytes (o : writer) : list byte :=
  let n := ((length o + 7) / 8)%nat in
  bytes_of_bits n (o ++ zeros (8 * n - length o)).

(* ---- typed fields (the quantifier of C19) ------------------------------ *)
Inductive field :=
  | FUint (w : Z) (v : Z)
  | FInt (w : Z) (v : Z)
  | FBool (b : bool)
  | FBin (b : bits)
  | FBytes (nbytes : Z) (v : list byte).

Inductive fvalue :=
  | VUint (v : N) | VSInt (v : Z) | VBool (b : bool) | VBin (b : bits) | VBytes (v : list byte).

Definition write_field (f : field) (o : writer) : result writer :=
  match f with
  | FUint w v => write_uint v w o
  | FInt w v => write_int v w o
  | FBool b => write_bool b o
  | FBin b => write_bin b o
  | FBytes n v => write_bytes v n o
  end.

Definition read_field (f : field) (r : reader) : result (fvalue * reader) :=
  match f with
  | FUint w _ => let* (v, r') := read_uint w r in Ok (VUint v, r')
  | FInt w _ => let* (v, r') := read_int w r in Ok (VSInt v, r')
  | FBool _ => let* (v, r') := read_bool r in Ok (VBool v, r')
  | FBin b => let* (v, r') := read_bin (Z.of_nat (length b)) r in Ok (VBin v, r')
  | FBytes n _ => let* (v, r') := read_bytes n r in Ok (VBytes v, r')
  end.

(* what a field is expected to read back as *)
Definition field_value (f : field) : fvalue :=
  match f with
  | FUint _ v => VUint (Z.to_N v)
  | FInt _ v => VSInt v
  | FBool b => VBool b
  | FBin b => VBin b
  | FBytes n v => VBytes (pad_bytes v (Z.to_nat n))
  end.

Definition field_width (f : field) : nat :=
  match f with
  | FUint w _ => Z.to_nat w
  | FInt w _ => Z.to_nat w
  | FBool _ => 1
  | FBin b => length b
  | FBytes n _ => 8 * Z.to_nat n
  end.

Definition is_byte (x : N) : bool := (x <? 256)%N.

(* the fields the writer accepts *)
Definition field_ok (f : field) : bool :=
  match f with
  | FUint w v => (0 <? w)%Z && (0 <=? v)%Z && (v <? 2 ^ w)%Z
  | FInt w v => (1 <? w)%Z && (Z.abs v <? 2 ^ (w - 1))%Z
  | FBool _ => true
  | FBin _ => true
  | FBytes n v => (0 <=? n)%Z && forallb is_byte v
  end.

Fixpoint write_fields (fs : list field) (o : writer) : result writer :=
  match fs with
  | [] => Ok o
  | f :: r => let* o' := write_field f o in write_fields r o'
  end.

Fixpoint read_fields (fs : list field) (r : reader) : result (list fvalue * reader) :=
  match fs with
  | [] => Ok ([], r)
  | f :: fs' =>
      let* (v, r1) := read_field f r in
      let* (vs, r2) := read_fields fs' r1 in
      Ok (v :: vs, r2)
  end.
