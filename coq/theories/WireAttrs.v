(* WireAttrs.v — C07, hierarchical half: in the wired tree an attribute hangs
   only where the coder's bitmap links (or the 204 rule) put it.
   - an associated field (204YYY) is attached to the element it precedes;
   - every other attribute of a node is either a bitmap-driven value whose link
     designates exactly that node, or a "meaning" node (031021 / 008023 / 008024)
     that was wired earlier;
   - a marker operator's value becomes an attribute of the owner its link names. *)
From PBK Require Import Base Descr Walk Wire WireProofs.
From Coq Require Import ZifyBool ZifyNat ZifyN.

Section A.
Context (ndesc : N) (vals : list value) (links : list (N * N)).

Definition attr_ok (t : attr) : Prop :=
  match t with
  | (o, a, true) => o = (a + 1)%N
  | (o, a, false) => link_of links a = Some o \/ (a < o)%N
  end.

Definition opt_lt (m : option N) (n : N) : Prop := forall x, m = Some x -> (x < n)%N.

Definition J (s : wst) : Prop :=
  Forall attr_ok (x_attrs s) /\ opt_lt (x_am s) (x_next s) /\ opt_lt (x_fm s) (x_next s) /\ opt_lt (x_dm s) (x_next s).

Definition Step (s s' : wst) : Prop := J s -> J s' /\ (x_next s <= x_next s')%N.

Lemma Step_refl s : Step s s.
Proof. intros H; split; [exact H|lia]. Qed.

Lemma Step_trans s1 s2 s3 : Step s1 s2 -> Step s2 s3 -> Step s1 s3.
Proof. intros H1 H2 HJ. destruct (H1 HJ) as [HJ2 L1]. destruct (H2 HJ2) as [HJ3 L2]. split; [exact HJ3|lia]. Qed.

Lemma opt_lt_mono m a b : opt_lt m a -> (a <= b)%N -> opt_lt m b.
Proof. intros H L x E. specialize (H x E). lia. Qed.

(* state changes that touch neither the counter, the attributes nor the meanings *)
Lemma Step_same s s' : x_next s' = x_next s -> x_attrs s' = x_attrs s ->
  x_am s' = x_am s -> x_fm s' = x_fm s -> x_dm s' = x_dm s -> Step s s'.
Proof.
  intros Hn Ha H1 H2 H3 (JA & J1 & J2 & J3). unfold J. rewrite Hn, Ha, H1, H2, H3. repeat split; try assumption. lia.
Qed.

Lemma value_node_J s i s' : value_node ndesc s = Ok (i, s') ->
  i = x_next s /\ x_next s' = (x_next s + 1)%N /\ x_attrs s' = x_attrs s /\
  x_am s' = x_am s /\ x_fm s' = x_fm s /\ x_dm s' = x_dm s /\ x_assoc s' = x_assoc s /\
  x_qa s' = x_qa s /\ x_w1 s' = x_w1 s /\ x_wd s' = x_wd s.
Proof.
  unfold value_node, next_idx. destruct (ndesc <=? x_next s)%N; cbn [bind]; [discriminate|].
  intros E; injection E as <- <-. cbn. repeat split.
Qed.

Lemma Step_value s i s' : value_node ndesc s = Ok (i, s') -> Step s s'.
Proof.
  intros E (JA & J1 & J2 & J3). apply value_node_J in E as (-> & Hn & Ha & H1 & H2 & H3 & _).
  unfold J. rewrite Hn, Ha, H1, H2, H3. repeat split; try assumption; try lia; eapply opt_lt_mono; try eassumption; lia.
Qed.

Lemma J_add s t o a b : J s -> x_next t = x_next s -> x_attrs t = x_attrs s ++ [(o, a, b)] ->
  x_am t = x_am s -> x_fm t = x_fm s -> x_dm t = x_dm s -> attr_ok (o, a, b) -> J t.
Proof.
  intros (JA & J1 & J2 & J3) Hn Ha H1 H2 H3 Hok. unfold J. rewrite Hn, Ha, H1, H2, H3.
  repeat split; try assumption. apply Forall_app. split; [exact JA|constructor; [exact Hok|constructor]].
Qed.

Lemma bitmap_attr_J i s s' : wire_bitmap_attribute links i s = Ok s' -> J s -> J s' /\ x_next s' = x_next s /\
  exists o, link_of links i = Some o /\ In (o, i, false) (x_attrs s').
Proof.
  unfold wire_bitmap_attribute. destruct (link_of links i) as [o|] eqn:El; [|discriminate].
  destruct (existsb _ _); [|discriminate]. intros E HJ; injection E as <-. split; [|split; [reflexivity|]].
  - eapply J_add; [exact HJ|reflexivity|reflexivity|reflexivity|reflexivity|reflexivity|]. left. exact El.
  - exists o. split; [reflexivity|]. cbn. apply in_or_app. right. left. reflexivity.
Qed.

Lemma wire_element_step e s n s' : wire_element ndesc links e s = Ok (n, s') -> Step s s'.
Proof.
  intros E HJ. unfold wire_element in E. cbv zeta in E.
  destruct (x_assoc s) as [|z zs] eqn:Ea.
  - destruct ((desc_X (e_id e) =? 33)%N && x_qa s).
    + destruct (value_node ndesc s) as [[i s1]|] eqn:Ev; cbn [bind] in E; [|discriminate].
      destruct (wire_bitmap_attribute links i s1) as [s2|] eqn:Eb; cbn [bind] in E; [|discriminate].
      injection E as <- <-. destruct (Step_value _ _ _ Ev HJ) as [HJ1 L1].
      destruct (bitmap_attr_J _ _ _ Eb HJ1) as (HJ2 & Hn & _). split; [exact HJ2|lia].
    + destruct (value_node ndesc s) as [[i s1]|] eqn:Ev; cbn [bind] in E; [|discriminate].
      destruct (Step_value _ _ _ Ev HJ) as [HJ1 L1].
      pose proof (value_node_J _ _ _ Ev) as (-> & Hn & _).
      destruct HJ1 as (JA & J1 & J2 & J3).
      destruct ((e_id e =? 8023)%N && x_w1 s1).
      { injection E as <- <-. split; [|cbn; lia]. unfold J; cbn. repeat split; try assumption.
        intros x Hx; injection Hx as <-. lia. }
      destruct ((e_id e =? 8024)%N && x_wd s1).
      { injection E as <- <-. split; [|cbn; lia]. unfold J; cbn. repeat split; try assumption.
        intros x Hx; injection Hx as <-. lia. }
      injection E as <- <-. split; [|lia]. repeat split; assumption.
  - destruct (negb (desc_X (e_id e) =? 31)%N).
    + unfold next_idx in E.
      destruct (ndesc <=? x_next s)%N; cbn [bind] in E; [discriminate|]. cbn [x_am] in E.
      destruct (x_am s) as [m|] eqn:Eam; [|discriminate].
      cbn [add_attr x_next] in E. destruct (ndesc <=? x_next s + 1)%N; cbn [bind] in E; [discriminate|].
      injection E as <- <-. destruct HJ as (JA & J1 & J2 & J3).
      split; [|cbn; lia]. unfold J; cbn. repeat split.
      * rewrite <- app_assoc. apply Forall_app. split; [exact JA|].
        constructor; [|constructor; [|constructor]].
        -- right. apply J1. exact Eam.
        -- cbn. reflexivity.
      * intros x Hx. rewrite Hx in Eam. specialize (J1 _ Eam). lia.
      * eapply opt_lt_mono; [exact J2|lia].
      * eapply opt_lt_mono; [exact J3|lia].
    + destruct (value_node ndesc s) as [[i s1]|] eqn:Ev; cbn [bind] in E; [|discriminate].
      destruct (Step_value _ _ _ Ev HJ) as [HJ1 L1].
      pose proof (value_node_J _ _ _ Ev) as (-> & Hn & _). destruct HJ1 as (JA & J1 & J2 & J3).
      destruct (e_id e =? 31021)%N; injection E as <- <-.
      * split; [|cbn; lia]. unfold J; cbn. repeat split; try assumption. intros x Hx; injection Hx as <-. lia.
      * split; [|lia]. repeat split; assumption.
Qed.

(* a marker operator's value is an attribute of the owner its link names *)
Lemma wire_marker_spec mg s n s' : wire_marker ndesc links mg s = Ok (n, s') -> opt_lt (match mg with Some m => m | None => None end) (x_next s) ->
  J s -> (J s' /\ (x_next s <= x_next s')%N) /\
  exists i o, n = WValue i /\ link_of links i = Some o /\ In (o, i, false) (x_attrs s').
Proof.
  intros E Hm HJ. unfold wire_marker in E.
  destruct (value_node ndesc s) as [[i s1]|] eqn:Ev; cbn [bind] in E; [|discriminate].
  destruct (Step_value _ _ _ Ev HJ) as [HJ1 L1].
  pose proof (value_node_J _ _ _ Ev) as (-> & Hn & _).
  destruct mg as [[m|]|]; cbn [bind] in E; try discriminate.
  - destruct (wire_bitmap_attribute links (x_next s) (add_attr (x_next s) m false s1)) as [s3|] eqn:Eb; cbn [bind] in E; [|discriminate].
    injection E as <- <-.
    assert (HJ2 : J (add_attr (x_next s) m false s1)).
    { eapply J_add; [exact HJ1|reflexivity|reflexivity|reflexivity|reflexivity|reflexivity|]. right. apply Hm. reflexivity. }
    destruct (bitmap_attr_J _ _ _ Eb HJ2) as (HJ3 & Hn3 & o & El & Hin).
    split; [split; [exact HJ3|cbn in Hn3; lia]|]. exists (x_next s), o. auto.
  - destruct (wire_bitmap_attribute links (x_next s) s1) as [s3|] eqn:Eb; cbn [bind] in E; [|discriminate].
    injection E as <- <-. destruct (bitmap_attr_J _ _ _ Eb HJ1) as (HJ3 & Hn3 & o & El & Hin).
    split; [split; [exact HJ3|lia]|]. exists (x_next s), o. auto.
Qed.

Lemma J_set (f : wst -> wst) s :
  (forall t, x_next (f t) = x_next t /\ x_attrs (f t) = x_attrs t /\ x_am (f t) = x_am t /\ x_fm (f t) = x_fm t /\ x_dm (f t) = x_dm t) ->
  J s -> J (f s).
Proof.
  intros Hf HJ. destruct (Hf s) as (Hn & Ha & H1 & H2 & H3).
  destruct (Step_same s (f s) Hn Ha H1 H2 H3 HJ) as [H _]. exact H.
Qed.

Lemma wire_operator_step id s n s' : wire_operator ndesc links id s = Ok (n, s') -> Step s s'.
Proof.
  intros E HJ. unfold wire_operator in E. cbv zeta in E.
  assert (P : forall (f : wst -> wst),
             (forall t, x_next (f t) = x_next t /\ x_attrs (f t) = x_attrs t /\ x_am (f t) = x_am t /\ x_fm (f t) = x_fm t /\ x_dm (f t) = x_dm t) ->
             forall n0 s0, (let* (i, s1) := value_node ndesc (f s) in Ok (WValue i, s1)) = Ok (n0, s0) ->
             J s0 /\ (x_next s <= x_next s0)%N).
  { intros f Hf n0 s0 E0. destruct (value_node ndesc (f s)) as [[i s1]|] eqn:Ev; cbn [bind] in E0; [|discriminate].
    injection E0 as <- <-. destruct (Step_value _ _ _ Ev (J_set f s Hf HJ)) as [H L]. destruct (Hf s) as (Hn & _). split; [exact H|lia]. }
  assert (M : forall (f : wst -> wst),
             (forall t, x_next (f t) = x_next t /\ x_attrs (f t) = x_attrs t /\ x_am (f t) = x_am t /\ x_fm (f t) = x_fm t /\ x_dm (f t) = x_dm t) ->
             forall mg n0 s0, opt_lt (match mg with Some m => m | None => None end) (x_next s) ->
             wire_marker ndesc links mg (f s) = Ok (n0, s0) -> J s0 /\ (x_next s <= x_next s0)%N).
  { intros f Hf mg n0 s0 Hm E0. destruct (Hf s) as (Hn & _).
    destruct (wire_marker_spec _ _ _ _ E0) as ((H & L) & _); [rewrite Hn; exact Hm|apply J_set; assumption|]. split; [exact H|lia]. }
  assert (Hid : forall t : wst, x_next t = x_next t /\ x_attrs t = x_attrs t /\ x_am t = x_am t /\ x_fm t = x_fm t /\ x_dm t = x_dm t)
    by (intros; repeat split).
  assert (HN : opt_lt None (x_next s)) by (intros x Hx; discriminate).
  pose proof HJ as (_ & _ & HF & HD).
  destruct ((id / 1000 =? 201)%N || (id / 1000 =? 202)%N || (id / 1000 =? 206)%N
            || (id / 1000 =? 207)%N || (id / 1000 =? 208)%N).
  { injection E as <- <-. apply Step_refl, HJ. }
  destruct (id / 1000 =? 203)%N; [injection E as <- <-; apply (Step_same s); try reflexivity; exact HJ|].
  destruct (id / 1000 =? 204)%N.
  { destruct (Z.of_N (id mod 1000) =? 0)%Z.
    - destruct (x_assoc s); [discriminate|]. injection E as <- <-. apply (Step_same s); try reflexivity. exact HJ.
    - injection E as <- <-. apply (Step_same s); try reflexivity. exact HJ. }
  destruct (id / 1000 =? 205)%N; [exact (P (fun t => t) Hid _ _ E)|].
  destruct (id / 1000 =? 221)%N; [injection E as <- <-; apply (Step_same s); try reflexivity; exact HJ|].
  destruct (id / 1000 =? 222)%N; [apply (P (set_xqa true) (fun t => ltac:(repeat split)) _ _ E)|].
  destruct (id / 1000 =? 223)%N.
  { destruct (Z.of_N (id mod 1000) =? 0)%Z.
    - apply (P (set_xqa false) (fun t => ltac:(repeat split)) _ _ E).
    - apply (M (set_xqa false) (fun t => ltac:(repeat split)) None _ _ HN E). }
  destruct (id / 1000 =? 224)%N.
  { destruct (Z.of_N (id mod 1000) =? 0)%Z.
    - apply (P (fun t => set_xw1 true (set_xqa false t)) (fun t => ltac:(repeat split)) _ _ E).
    - apply (M (set_xqa false) (fun t => ltac:(repeat split)) (Some (x_fm s)) _ _ HF E). }
  destruct (id / 1000 =? 225)%N.
  { destruct (Z.of_N (id mod 1000) =? 0)%Z.
    - apply (P (fun t => set_xwd true (set_xqa false t)) (fun t => ltac:(repeat split)) _ _ E).
    - apply (M (set_xqa false) (fun t => ltac:(repeat split)) (Some (x_dm s)) _ _ HD E). }
  destruct (id / 1000 =? 232)%N.
  { destruct (Z.of_N (id mod 1000) =? 0)%Z.
    - apply (P (set_xqa false) (fun t => ltac:(repeat split)) _ _ E).
    - apply (M (set_xqa false) (fun t => ltac:(repeat split)) None _ _ HN E). }
  destruct (id / 1000 =? 235)%N; [injection E as <- <-; apply (Step_same s); try reflexivity; exact HJ|].
  destruct (id / 1000 =? 236)%N; [exact (P (fun t => t) Hid _ _ E)|].
  destruct (id / 1000 =? 237)%N; [exact (P (fun t => t) Hid _ _ E)|discriminate].
Qed.

Definition StepAcc (f : wres -> result wres) : Prop :=
  forall acc s acc' s', f (acc, s) = Ok (acc', s') -> Step s s'.

Lemma iter_w_step n f : StepAcc f -> StepAcc (iter_w n f).
Proof.
  intros Hf. unfold iter_w. induction n as [|n IH] using N.peano_ind.
  - intros acc s acc' s' E. cbn in E. injection E as <- <-. apply Step_refl.
  - intros acc s acc' s' E. rewrite N.iter_succ in E. cbv beta in E.
    match type of E with context [N.iter n ?g ?a0] => destruct (N.iter n g a0) as [[acc1 s1]|] eqn:E1 end; cbn [bind] in E; [|discriminate].
    eapply Step_trans; [eapply IH; exact E1|eapply Hf; exact E].
Qed.

Tactic Notation "dbind" hyp(E) "as" simple_intropattern(p) "into" ident(H) :=
  match type of E with bind ?r _ = _ => destruct r as [p|] eqn:H; cbn [bind] in E; [|discriminate] end.

Theorem wire_step :
  (forall d s n s', wire_one ndesc vals links d s = Ok (n, s') -> Step s s') /\
  (forall ms, StepAcc (wire_list ndesc vals links ms)).
Proof.
  apply desc_descs_ind.
  - intros e s n s' E. cbn [wire_one] in E. eapply wire_element_step; exact E.
  - intros id ms IH s n s' E. cbn [wire_one] in E. dbind E as [nodes s1] into E1. injection E as <- <-.
    eapply iter_w_step; [exact IH|exact E1].
  - intros id f _ ms IH s n s' E. cbn [wire_one] in E. dbind E as [fi s0] into Ev.
    destruct (count_of_value _) as [cnt|]; cbn [bind] in E; [|discriminate].
    dbind E as [nodes s1] into E1. injection E as <- <-.
    eapply Step_trans; [eapply Step_value; exact Ev|eapply iter_w_step; [exact IH|exact E1]].
  - intros id s n s' E. cbn [wire_one] in E. eapply wire_operator_step; exact E.
  - intros id ms IH s n s' E. cbn [wire_one] in E. dbind E as [nodes s1] into E1. injection E as <- <-.
    eapply IH; exact E1.
  - intros id s n s' E. cbn [wire_one] in E. dbind E as [i s1] into Ev. injection E as <- <-. eapply Step_value; exact Ev.
  - intros id s n s' E. discriminate.
  - intros acc s acc' s' E. cbn [wire_list] in E. injection E as <- <-. apply Step_refl.
  - intros d IHd ds IHds acc s acc' s' E. cbn [wire_list] in E. cbv zeta in E.
    set (s0 := if (x_dnp s =? 0)%Z then s else set_xdnp (x_dnp s - 1) s) in *.
    assert (S0 : Step s s0) by (unfold s0; destruct (x_dnp s =? 0)%Z; [apply Step_refl|apply Step_same; reflexivity]).
    destruct (negb (x_dnp s =? 0)%Z && dnp_skips d).
    + eapply Step_trans; [exact S0|eapply IHds; exact E].
    + destruct (x_def s0 && is_plain_elem d).
      * dbind E as [i s1] into Ev.
        eapply Step_trans; [exact S0|]. eapply Step_trans; [eapply Step_value; exact Ev|eapply IHds; exact E].
      * dbind E as [n s1] into E1.
        eapply Step_trans; [exact S0|]. eapply Step_trans; [eapply IHd; exact E1|eapply IHds; exact E].
Qed.

(* C07: every attribute of the hierarchical view is where the links (or the 204 rule) put it *)
Theorem wire_attrs_sound T nodes s :
  wire ndesc vals links T = Ok (nodes, s) ->
  forall o a b, In (o, a, b) (x_attrs s) ->
    (b = true -> o = (a + 1)%N) /\
    (b = false -> link_of links a = Some o \/ (a < o)%N).
Proof.
  intros E o a b Hin. unfold wire in E.
  assert (J0 : J wst0) by (repeat split; try constructor; intros x Hx; discriminate).
  destruct (proj2 wire_step T _ _ _ _ E J0) as [(JA & _) _].
  rewrite Forall_forall in JA. specialize (JA _ Hin). cbn in JA.
  split; intros ->; exact JA.
Qed.

(* the marker operators 223255 / 224255 / 225255 / 232255: the value node is an attribute
   of exactly the node the coder linked it to *)
Theorem marker_value_attribute id s n s' :
  ((id / 1000 =? 223) || (id / 1000 =? 224) || (id / 1000 =? 225) || (id / 1000 =? 232))%N = true ->
  (Z.of_N (id mod 1000) =? 0)%Z = false ->
  J s -> wire_operator ndesc links id s = Ok (n, s') ->
  exists i o, n = WValue i /\ link_of links i = Some o /\ In (o, i, false) (x_attrs s').
Proof.
  intros Hc Hy HJ E. unfold wire_operator in E. cbv zeta in E. rewrite Hy in E.
  pose proof HJ as (_ & _ & HF & HD).
  assert (HN : opt_lt None (x_next s)) by (intros x Hx; discriminate).
  assert (Q : J (set_xqa false s)) by (apply (J_set (set_xqa false)); [intros; repeat split|exact HJ]).
  destruct (N.eqb_spec (id / 1000) 223) as [e|_].
  { rewrite e in E. cbn in E. exact (proj2 (wire_marker_spec None _ _ _ E HN Q)). }
  destruct (N.eqb_spec (id / 1000) 224) as [e|_].
  { rewrite e in E. cbn in E. exact (proj2 (wire_marker_spec (Some (x_fm s)) _ _ _ E HF Q)). }
  destruct (N.eqb_spec (id / 1000) 225) as [e|_].
  { rewrite e in E. cbn in E. exact (proj2 (wire_marker_spec (Some (x_dm s)) _ _ _ E HD Q)). }
  destruct (N.eqb_spec (id / 1000) 232) as [e|_].
  { rewrite e in E. cbn in E. exact (proj2 (wire_marker_spec None _ _ _ E HN Q)). }
  discriminate.
Qed.

End A.
