(* QueryRefJsonValues.v — C16: over the nested rendering, evaluating a path to VALUES directly
   (QueryRef.jeval: "only value nodes yield values" checked at the path end) equals selecting
   nodes first and taking their values afterwards (jgen jleaf_o OList, then ovalues), for EVERY
   path, descendant steps included, error classes included. *)
From PBK Require Import Base Descr Walk Wire Nested NestedProofs PySlice PathParser Query QueryProofs QuerySpec
                        QueryRef QueryRefProofs QueryRefValues QueryRefJson QueryFuel QueryRefDesc.
From Coq Require Import ZifyBool ZifyNat ZifyN.

(* ---- values of erased node lists ---------------------------------------------------------------- *)
Lemma ores_ind' (P : ores -> Prop) :
  (forall v, P (ONode v)) -> (forall l, Forall P l -> P (OList l)) -> forall o, P o.
Proof.
  intros Hn Hl. fix IH 1. intros [v|l]; [apply Hn|]. apply Hl.
  induction l as [|x l IHl]; constructor; [apply IH|exact IHl].
Qed.

Lemma ovalue_err : forall o e, ovalue o = Err e -> e = EQuery.
Proof.
  induction o as [v|l IH] using ores_ind'; intros e E.
  - destruct v; cbn in E; congruence.
  - rewrite ovalue_list in E. destruct (ovalues l) as [vs|e1] eqn:Ev; cbn [bind] in E; [discriminate|].
    injection E as ->. unfold ovalues in Ev. apply collect_err in Ev as (x & Hx & Ex).
    rewrite Forall_forall in IH. destruct (ovalue x) as [v|e2] eqn:E2; cbn [bind] in Ex; [discriminate|].
    injection Ex as ->. eapply IH; [exact Hx|exact E2].
Qed.

Lemma ovalues_err os e : ovalues os = Err e -> e = EQuery.
Proof.
  intros E. unfold ovalues in E. apply collect_err in E as (x & _ & Ex).
  destruct (ovalue x) as [v|e2] eqn:E2; cbn [bind] in Ex; [discriminate|]. injection Ex as ->.
  eapply ovalue_err; exact E2.
Qed.

Lemma ovalues_app a b : ovalues (a ++ b) = (let* x := ovalues a in let* y := ovalues b in Ok (x ++ y)).
Proof. apply collect_app. Qed.

Lemma ovalues_length : forall os vs, ovalues os = Ok vs -> length vs = length os.
Proof.
  unfold ovalues. induction os as [|r rs IH]; intros vs E; cbn [collect] in E; [injection E as <-; reflexivity|].
  destruct (ovalue r) as [v|e]; cbn [bind] in E; [|discriminate].
  destruct (collect _ rs) as [b|e] eqn:Eb; cbn [bind] in E; [|discriminate]. injection E as <-.
  cbn [app length]. rewrite (IH b eq_refl). reflexivity.
Qed.

Lemma ovalues_envelope r : ovalues (envelope OList r) = (let* vs := ovalues r in Ok (envelope VList vs)).
Proof.
  destruct r as [|x t]; [reflexivity|]. cbn [envelope].
  unfold ovalues at 1. cbn [collect]. rewrite ovalue_list.
  destruct (ovalues (x :: t)) as [vs|e] eqn:Ev; cbn [bind]; [|reflexivity].
  apply ovalues_length in Ev. destruct vs as [|v vs]; [discriminate|]. reflexivity.
Qed.

Notation ov r := (let* os := r in ovalues os).

Definition jopt (n : jn) : option N := match n with JVal (JV i _ _) => Some i | _ => None end.

Lemma collect_leaves ns : collect jleaf_o ns = Ok (map (fun n => ONode (jopt n)) ns).
Proof. induction ns as [|n ns IH]; cbn [collect map]; [reflexivity|]. rewrite IH. reflexivity. Qed.

Lemma ov_leaves ns : ov (collect jleaf_o ns) = collect jvalue ns.
Proof.
  rewrite collect_leaves. cbn [bind]. unfold ovalues. rewrite collect_map. apply collect_ext.
  intros n _. destruct n as [id|id ms|id f reps|[i b ats]]; reflexivity.
Qed.

Lemma collect_fusion_o {A} (fO : A -> result (list ores)) (fV : A -> result (list vres)) l :
  (forall x, In x l -> fV x = ov (fO x)) ->
  (forall x e, In x l -> fO x = Err e -> e = EQuery) \/ (forall x a, In x l -> fO x = Ok a -> a = []) ->
  collect fV l = ov (collect fO l).
Proof.
  induction l as [|x l IH]; intros Hf H2; cbn [collect]; [reflexivity|].
  rewrite (Hf x (or_introl eq_refl)), IH.
  2:{ intros y Hy. apply Hf. right. exact Hy. }
  2:{ destruct H2 as [H2|H2]; [left|right]; intros y a Hy; apply H2; right; exact Hy. }
  destruct (fO x) as [a|e1] eqn:Ea; cbn [bind]; [|reflexivity].
  destruct (collect fO l) as [b|e2] eqn:Eb; cbn [bind].
  - rewrite ovalues_app. destruct (ovalues a) as [va|e]; cbn [bind]; [|reflexivity].
    destruct (ovalues b); reflexivity.
  - destruct (ovalues a) as [va|e] eqn:Eva; cbn [bind]; [reflexivity|].
    pose proof (ovalues_err _ _ Eva) as He. subst e. destruct H2 as [H2|H2].
    + apply collect_err in Eb as (y & Hy & Ey). rewrite (H2 y e2 (or_intror Hy) Ey). reflexivity.
    + rewrite (H2 x a (or_introl eq_refl) Ea) in Eva. discriminate.
Qed.

(* ---- walks ------------------------------------------------------------------------------------------ *)
Lemma walk_err {A B} (P : list nat) (visit : A -> result (list B)) l i e :
  walk P visit i l = Err e -> exists x, In x l /\ visit x = Err e.
Proof.
  rewrite walk_spec. intros E. apply collect_err in E as (x & Hx & Ex). exists x. split; [|exact Ex].
  apply in_map_iff in Hx as (p & <- & Hp). apply filter_In in Hp as [Hp _]. eapply enumerate_In; exact Hp.
Qed.

Lemma walk_nil {A B} (P : list nat) (visit : A -> result (list B)) l i rs :
  (forall x a, In x l -> visit x = Ok a -> a = []) -> walk P visit i l = Ok rs -> rs = [].
Proof.
  rewrite walk_spec. intros H E. eapply collect_nil; [|exact E]. intros x a Hx. apply H.
  apply in_map_iff in Hx as (p & <- & Hp). apply filter_In in Hp as [Hp _]. eapply enumerate_In; exact Hp.
Qed.

Lemma walk_fusion_o {A} (P : list nat) (fO : A -> result (list ores)) (fV : A -> result (list vres)) l i :
  (forall x, In x l -> fV x = ov (fO x)) ->
  (forall x e, In x l -> fO x = Err e -> e = EQuery) \/ (forall x a, In x l -> fO x = Ok a -> a = []) ->
  walk P fV i l = ov (walk P fO i l).
Proof.
  intros Hf H2. rewrite !walk_spec.
  assert (Hin : forall x, In x (map snd (filter (fun p : nat * A => memb (fst p) P) (enumerate i l))) -> In x l).
  { intros x Hx. apply in_map_iff in Hx as (p & <- & Hp). apply filter_In in Hp as [Hp _]. eapply enumerate_In; exact Hp. }
  apply collect_fusion_o.
  - intros x Hx. apply Hf, Hin, Hx.
  - destruct H2 as [H2|H2]; [left|right]; intros x a Hx; apply H2, Hin, Hx.
Qed.

Lemma app_fusion_o (XO YO : result (list ores)) (XV YV : result (list vres)) :
  XV = ov XO -> YV = ov YO ->
  ((forall e, XO = Err e -> e = EQuery) /\ (forall e, YO = Err e -> e = EQuery)) \/
  ((forall a, XO = Ok a -> a = []) /\ (forall a, YO = Ok a -> a = [])) ->
  (let* a := XV in let* b := YV in Ok (a ++ b)) = ov (let* a := XO in let* b := YO in Ok (a ++ b)).
Proof.
  intros -> -> H2. destruct XO as [a|e1]; cbn [bind]; [|reflexivity].
  destruct YO as [b|e2]; cbn [bind].
  - rewrite ovalues_app. destruct (ovalues a); cbn [bind]; [|reflexivity]. destruct (ovalues b); reflexivity.
  - destruct (ovalues a) as [va|e] eqn:Eva; cbn [bind]; [reflexivity|].
    pose proof (ovalues_err _ _ Eva). subst e. destruct H2 as [[_ H2]|[H2 _]].
    + rewrite (H2 e2 eq_refl). reflexivity.
    + rewrite (H2 a eq_refl) in Eva. discriminate.
Qed.

Definition oqe {A B} (f : A -> result B) : Prop := forall x e, f x = Err e -> e = EQuery.
Definition oem {A B} (f : A -> result (list B)) : Prop := forall x a, f x = Ok a -> a = [].

(* ---- the descendant search in a uniform shape --------------------------------------------------------- *)
Section U.
Context (labels : list (list char)) {R : Type} (wrap : list R -> R) (c : comp) (cont : list jn -> result (list R)).
Local Notation jd := (jdesc labels wrap c cont).

Definition vis (x : jn) : result (list R) := dvisit labels c cont x (jd x).
Definition dl (L : list jn) : result (list R) := let* P := dpos labels c L in walk P vis 0 L.
Definition dr (reps : list (list jn)) : result (list R) :=
  match reps with
  | [] | [] :: _ => Ok []
  | rep0 :: _ =>
      let* P := dpos labels c rep0 in
      match P with
      | [] => Ok []
      | _ => let* env := collect_s (fun rep => let* r := walk P vis 0 rep in Ok (envelope wrap r)) reps in
             Ok (envelope wrap env)
      end
  end.

Lemma jdesc_unfold n : jd n =
  match n with
  | JNo _ => Err EQuery
  | JSeqN _ ms => dl ms
  | JRep _ f reps =>
      let* A := dr reps in
      let* B := match f with None => Ok [] | Some v => dl [JVal v] end in Ok (A ++ B)
  | JVal (JV _ _ []) => Err EQuery
  | JVal (JV _ _ ats) => dl (map JVal ats)
  end.
Proof.
  destruct n as [id|id ms|id f reps|[i b ats]]; cbn [jdesc jdesc_v]; try reflexivity.
  destruct ats as [|a ats]; [reflexivity|]. unfold dl. apply bind_ext. intros P.
  rewrite walk_map. reflexivity.
Qed.

(* candidates: every node one level below [n] that the search may visit *)
Definition cands (n : jn) : list jn :=
  match n with
  | JNo _ => []
  | JSeqN _ ms => ms
  | JRep _ f reps => concat reps ++ match f with Some v => [JVal v] | None => [] end
  | JVal (JV _ _ ats) => map JVal ats
  end.

Lemma cands_height n x : In x (cands n) -> (jheight x < jheight n)%nat.
Proof.
  destruct n as [id|id ms|id f reps|[i b ats]]; cbn [cands].
  - intros [].
  - apply jheight_seq.
  - intros H. apply in_app_or in H as [H|H].
    + apply in_concat in H as (rep & Hrep & Hx). eapply jheight_rep; eassumption.
    + destruct f as [v|]; [|destruct H]. destruct H as [<-|[]]. apply jheight_factor.
  - intros H. apply in_map_iff in H as (a & <- & Ha). cbn [jheight]. apply vheight_attr, Ha.
Qed.


(* errors *)
Lemma dl_err L e : step_ok c = true -> (forall x e, In x L -> vis x = Err e -> e = EQuery) ->
  dl L = Err e -> e = EQuery.
Proof.
  intros Hc Hv E. unfold dl, dpos in E. destruct (select_ok (jlabel labels) c L Hc) as (sel & Es). rewrite Es in E.
  cbn [bind] in E. apply walk_err in E as (x & Hx & Ex). eapply Hv; eassumption.
Qed.

Lemma dr_err reps e : step_ok c = true ->
  (forall rep x e, In rep reps -> In x rep -> vis x = Err e -> e = EQuery) -> dr reps = Err e -> e = EQuery.
Proof.
  intros Hc Hv E. unfold dr in E. destruct reps as [|[|x0 rep0] reps']; try discriminate.
  unfold dpos in E. destruct (select_ok (jlabel labels) c (x0 :: rep0) Hc) as (sel & Es). rewrite Es in E.
  cbn [bind] in E. match type of E with match ?P with _ => _ end = _ => destruct P as [|p0 P'] end; [discriminate|].
  rewrite collect_s_eq in E.
  match type of E with bind ?r _ = _ => destruct r as [env|e1] eqn:Eenv end; cbn [bind] in E; [discriminate|].
  injection E as ->. apply collect_err in Eenv as (rep & Hrep & Er). cbv beta in Er.
  match type of Er with bind ?r _ = _ => destruct r as [r1|e1] eqn:E1 end; cbn [bind] in Er; [discriminate|].
  injection Er as ->. apply walk_err in E1 as (x & Hx & Ex). eapply Hv; eassumption.
Qed.

(* nothing found *)
Lemma dl_nil L rs : step_ok c = false \/ (forall x a, In x L -> vis x = Ok a -> a = []) -> dl L = Ok rs -> rs = [].
Proof.
  intros H E. unfold dl, dpos in E. destruct H as [H|H].
  - rewrite (select_bad (jlabel labels) c L H) in E. discriminate.
  - destruct (select (jlabel labels) c L) as [sel|e1]; cbn [bind] in E; [|discriminate].
    eapply walk_nil; [|exact E]. exact H.
Qed.

Lemma dr_nil reps rs :
  step_ok c = false \/ (forall rep x a, In rep reps -> In x rep -> vis x = Ok a -> a = []) -> dr reps = Ok rs -> rs = [].
Proof.
  intros H E. unfold dr in E. destruct reps as [|[|x0 rep0] reps']; try (injection E as <-; reflexivity).
  unfold dpos in E. destruct H as [H|H].
  - rewrite (select_bad (jlabel labels) c (x0 :: rep0) H) in E. discriminate.
  - destruct (select (jlabel labels) c (x0 :: rep0)) as [sel|e1]; cbn [bind] in E; [|discriminate].
    match type of E with match ?P with _ => _ end = _ => destruct P as [|p0 P'] end; [injection E as <-; reflexivity|].
    rewrite collect_s_eq in E.
    match type of E with bind ?r _ = _ => destruct r as [env|e1] eqn:Eenv end; cbn [bind] in E; [|discriminate].
    injection E as <-. apply collect_nil in Eenv; [subst env; reflexivity|].
    intros rep a Hrep Er. cbv beta in Er.
    match type of Er with bind ?r _ = _ => destruct r as [r1|e1] eqn:E1 end; cbn [bind] in Er; [|discriminate].
    injection Er as <-. apply walk_nil in E1; [subst r1; reflexivity|]. intros x a Hx. apply (H rep x a Hrep Hx).
Qed.

(* the search below [n] only meets what its candidates give *)
Lemma jdesc_err_from n e : step_ok c = true -> (forall x e, In x (cands n) -> vis x = Err e -> e = EQuery) ->
  jd n = Err e -> e = EQuery.
Proof.
  intros Hc Hv E. rewrite jdesc_unfold in E.
  destruct n as [id|id ms|id f reps|[i b ats]]; cbn [cands] in Hv.
  - congruence.
  - eapply dl_err; [exact Hc|exact Hv|exact E].
  - destruct (dr reps) as [A|e1] eqn:EA; cbn [bind] in E.
    + destruct f as [v|]; [|discriminate].
      destruct (dl [JVal v]) as [B|e2] eqn:EB; cbn [bind] in E; [discriminate|]. injection E as ->.
      eapply dl_err; [exact Hc| |exact EB]. intros x e1 [<-|[]]. apply Hv. apply in_or_app. right. left. reflexivity.
    + injection E as ->. eapply dr_err; [exact Hc| |exact EA].
      intros rep x e2 Hrep Hx. apply Hv. apply in_or_app. left. apply in_concat. exists rep. split; assumption.
  - destruct ats as [|a ats]; [congruence|]. eapply dl_err; [exact Hc|exact Hv|exact E].
Qed.

Lemma jdesc_nil_from n rs :
  step_ok c = false \/ (forall x a, In x (cands n) -> vis x = Ok a -> a = []) -> jd n = Ok rs -> rs = [].
Proof.
  intros H E. rewrite jdesc_unfold in E.
  destruct n as [id|id ms|id f reps|[i b ats]]; cbn [cands] in H.
  - discriminate.
  - eapply dl_nil; [exact H|exact E].
  - destruct (dr reps) as [A|e1] eqn:EA; cbn [bind] in E; [|discriminate].
    assert (A = []).
    { eapply dr_nil; [|exact EA]. destruct H as [H|H]; [left; exact H|right].
      intros rep x a Hrep Hx. apply H. apply in_or_app. left. apply in_concat. exists rep. split; assumption. }
    subst A. destruct f as [v|]; [|injection E as <-; reflexivity].
    destruct (dl [JVal v]) as [B|e2] eqn:EB; cbn [bind] in E; [|discriminate]. injection E as <-. cbn [app].
    eapply dl_nil; [|exact EB]. destruct H as [H|H]; [left; exact H|right].
    intros x a [<-|[]]. apply H. apply in_or_app. right. left. reflexivity.
  - destruct ats as [|a ats]; [discriminate|]. eapply dl_nil; [exact H|exact E].
Qed.

(* by induction on the height *)
Lemma jdesc_errors : step_ok c = true -> oqe cont -> forall h n, (jheight n <= h)%nat -> forall e, jd n = Err e -> e = EQuery.
Proof.
  intros Hc Hcont. induction h as [|h IH]; intros n Hh e E; [pose proof (jheight_pos n); lia|].
  eapply jdesc_err_from; [exact Hc| |exact E]. intros x e1 Hx Ex. unfold vis, dvisit in Ex.
  destruct (chars_eqb _ _); [eapply Hcont; exact Ex|]. destruct (jcomposite x); [|discriminate].
  apply (IH x); [|exact Ex]. pose proof (cands_height n x Hx). lia.
Qed.

Lemma jdesc_empty : step_ok c = false \/ oem cont -> forall h n, (jheight n <= h)%nat -> forall rs, jd n = Ok rs -> rs = [].
Proof.
  intros H. induction h as [|h IH]; intros n Hh rs E; [pose proof (jheight_pos n); lia|].
  eapply jdesc_nil_from; [|exact E]. destruct H as [H|H]; [left; exact H|right]. intros x a Hx Ea. unfold vis, dvisit in Ea.
  destruct (chars_eqb _ _); [eapply H; exact Ea|]. destruct (jcomposite x); [|injection Ea as <-; reflexivity].
  apply (IH x); [|exact Ea]. pose proof (cands_height n x Hx). lia.
Qed.

End U.

(* ---- one step: errors, nothing found ------------------------------------------------------------------- *)
Section StepProps.
Context (labels : list (list char)) {R : Type} (wrap : list R -> R) (c : comp) (cont : list jn -> result (list R)).

Lemma jstep_errors n e : step_ok c = true -> oqe cont -> jstep labels wrap c n cont = Err e -> e = EQuery.
Proof.
  intros Hc Hcont E. unfold jstep in E.
  assert (Hsel : forall l (k : list (nat * jn) -> result (list R)),
            bind (select (jlabel labels) c l) k = Err e -> exists sel, k sel = Err e).
  { intros l k Ek. destruct (select_ok (jlabel labels) c l Hc) as (sel & Es). rewrite Es in Ek. exists sel. exact Ek. }
  destruct (c_sep c =? SEP_CHILD)%N.
  - destruct n as [id|id ms|id f reps|v]; try congruence.
    + apply Hsel in E as (sel & E). eapply Hcont; exact E.
    + destruct reps as [|[|x0 rep0] reps']; try discriminate.
      apply Hsel in E as ([|s0 sel] & E); [discriminate|].
      match type of E with bind ?r _ = _ => destruct r as [env|e1] eqn:Eenv end; cbn [bind] in E; [discriminate|].
      injection E as ->. apply collect_err in Eenv as (rep & _ & Er). cbv beta in Er.
      match type of Er with bind ?r _ = _ => destruct r as [r1|e1] eqn:E1 end; cbn [bind] in Er; [discriminate|].
      injection Er as ->. eapply Hcont; exact E1.
  - destruct (c_sep c =? SEP_ATTRIB)%N.
    + destruct n as [id|id ms|id [f|] reps|[i b [|a ats]]]; try congruence.
      * apply Hsel in E as (sel & E). eapply Hcont; exact E.
      * apply Hsel in E as (sel & E). eapply Hcont; exact E.
    + destruct (c_sep c =? SEP_DESCEND)%N; [|congruence].
      eapply (jdesc_errors labels wrap c cont Hc Hcont (jheight n) n); [lia|exact E].
Qed.

Lemma jstep_empty n rs : step_ok c = false \/ oem cont -> jstep labels wrap c n cont = Ok rs -> rs = [].
Proof.
  intros H E. unfold jstep in E.
  assert (Hsel : forall l (k : list (nat * jn) -> result (list R)),
            bind (select (jlabel labels) c l) k = Ok rs -> oem cont /\ exists sel, k sel = Ok rs).
  { intros l k Ek. destruct H as [H|H].
    - rewrite (select_bad (jlabel labels) c l H) in Ek. discriminate.
    - split; [exact H|]. destruct (select (jlabel labels) c l) as [sel|e1]; [|discriminate]. exists sel. exact Ek. }
  destruct (c_sep c =? SEP_CHILD)%N.
  - destruct n as [id|id ms|id f reps|v]; try discriminate.
    + apply Hsel in E as (Hcont & sel & E). eapply Hcont; exact E.
    + destruct reps as [|[|x0 rep0] reps']; try (injection E as <-; reflexivity).
      apply Hsel in E as (Hcont & [|s0 sel] & E); [injection E as <-; reflexivity|].
      match type of E with bind ?r _ = _ => destruct r as [env|e1] eqn:Eenv end; cbn [bind] in E; [|discriminate].
      injection E as <-. apply collect_nil in Eenv; [subst env; reflexivity|].
      intros rep a _ Er. cbv beta in Er.
      match type of Er with bind ?r _ = _ => destruct r as [r1|e1] eqn:E1 end; cbn [bind] in Er; [|discriminate].
      injection Er as <-. rewrite (Hcont _ _ E1). reflexivity.
  - destruct (c_sep c =? SEP_ATTRIB)%N.
    + destruct n as [id|id ms|id [f|] reps|[i b [|a ats]]]; try discriminate.
      * apply Hsel in E as (Hcont & sel & E). eapply Hcont; exact E.
      * apply Hsel in E as (Hcont & sel & E). eapply Hcont; exact E.
    + destruct (c_sep c =? SEP_DESCEND)%N; [|discriminate].
      eapply (jdesc_empty labels wrap c cont H (jheight n) n); [lia|exact E].
Qed.

End StepProps.

(* ---- one step: values directly = nodes first, values afterwards ------------------------------------------ *)
Section StepFusion.
Context (labels : list (list char)) (c : comp).
Context (contO : list jn -> result (list ores)) (contV : list jn -> result (list vres)).
Context (Hc : forall ns, contV ns = ov (contO ns)) (H2 : oqe contO \/ oem contO).
Local Notation visO := (vis labels OList c contO).
Local Notation visV := (vis labels VList c contV).

Lemma dl_fusion L : (forall x, In x L -> visV x = ov (visO x)) ->
  (forall x e, In x L -> visO x = Err e -> e = EQuery) \/ (forall x a, In x L -> visO x = Ok a -> a = []) ->
  dl labels VList c contV L = ov (dl labels OList c contO L).
Proof.
  intros Hv Hcl. unfold dl. destruct (dpos labels c L) as [P|e]; cbn [bind]; [|reflexivity].
  apply walk_fusion_o; assumption.
Qed.

Lemma dr_fusion reps : (forall rep x, In rep reps -> In x rep -> visV x = ov (visO x)) ->
  (forall rep x e, In rep reps -> In x rep -> visO x = Err e -> e = EQuery) \/
  (forall rep x a, In rep reps -> In x rep -> visO x = Ok a -> a = []) ->
  dr labels VList c contV reps = ov (dr labels OList c contO reps).
Proof.
  intros Hv Hcl. unfold dr. destruct reps as [|[|x0 rep0] reps']; try reflexivity.
  set (reps := (x0 :: rep0) :: reps') in *.
  destruct (dpos labels c (x0 :: rep0)) as [[|p0 P']|e]; cbn [bind]; try reflexivity.
  set (P := p0 :: P'). rewrite !collect_s_eq.
  rewrite (collect_fusion_o (fun rep => let* r := walk P visO 0 rep in Ok (envelope OList r))
                            (fun rep => let* r := walk P visV 0 rep in Ok (envelope VList r))).
  - rewrite !bind_assoc. apply bind_ext. intros env. cbn [bind]. symmetry. apply ovalues_envelope.
  - intros rep Hrep. rewrite (walk_fusion_o P visO visV rep 0).
    + rewrite !bind_assoc. apply bind_ext. intros r. cbn [bind]. symmetry. apply ovalues_envelope.
    + intros x Hx. apply (Hv rep x Hrep Hx).
    + destruct Hcl as [Hcl|Hcl]; [left|right]; intros x a Hx; apply (Hcl rep x a Hrep Hx).
  - destruct Hcl as [Hcl|Hcl]; [left|right].
    + intros rep e Hrep E. destruct (walk P visO 0 rep) as [r|e1] eqn:E1; cbn [bind] in E; [discriminate|].
      injection E as <-. apply walk_err in E1 as (x & Hx & Ex). apply (Hcl rep x e1 Hrep Hx Ex).
    + intros rep a Hrep E. destruct (walk P visO 0 rep) as [r|e1] eqn:E1; cbn [bind] in E; [|discriminate].
      injection E as <-. apply walk_nil in E1; [subst r; reflexivity|]. intros x a Hx. apply (Hcl rep x a Hrep Hx).
Qed.

Lemma jdesc_fusion : forall h n, (jheight n <= h)%nat ->
  jdesc labels VList c contV n = ov (jdesc labels OList c contO n).
Proof.
  induction h as [|h IH]; intros n Hh; [pose proof (jheight_pos n); lia|].
  (* what the candidates give *)
  assert (Hv : forall x, In x (cands n) -> visV x = ov (visO x)).
  { intros x Hx. unfold vis, dvisit. destruct (chars_eqb _ _); [apply Hc|].
    destruct (jcomposite x); [|reflexivity]. apply IH. pose proof (cands_height n x Hx). lia. }
  assert (Hcl : step_ok c = true ->
            (forall x e, visO x = Err e -> e = EQuery) \/ (forall x a, visO x = Ok a -> a = [])).
  { intros Hok. destruct H2 as [Hq|He]; [left|right].
    - intros x e E. unfold vis, dvisit in E. destruct (chars_eqb _ _); [eapply Hq; exact E|].
      destruct (jcomposite x); [|discriminate]. eapply (jdesc_errors labels OList c contO Hok Hq (jheight x) x); [lia|exact E].
    - intros x a E. unfold vis, dvisit in E. destruct (chars_eqb _ _); [eapply He; exact E|].
      destruct (jcomposite x); [|injection E as <-; reflexivity].
      eapply (jdesc_empty labels OList c contO (or_intror He) (jheight x) x); [lia|exact E]. }
  assert (Hdl : forall L, incl L (cands n) -> dl labels VList c contV L = ov (dl labels OList c contO L)).
  { intros L HL. destruct (step_ok c) eqn:Hok.
    - apply dl_fusion; [intros x Hx; apply Hv, HL, Hx|].
      destruct (Hcl eq_refl) as [H|H]; [left|right]; intros x a _; apply H.
    - unfold dl, dpos. rewrite (select_bad (jlabel labels) c L Hok). reflexivity. }
  rewrite !jdesc_unfold. destruct n as [id|id ms|id f reps|[i b ats]]; cbn [cands] in *.
  - reflexivity.
  - apply Hdl. intros x Hx. exact Hx.
  - assert (Hdr : dr labels VList c contV reps = ov (dr labels OList c contO reps)).
    { destruct (step_ok c) eqn:Hok.
      - apply dr_fusion.
        + intros rep x Hrep Hx. apply Hv. apply in_or_app. left. apply in_concat. exists rep. split; assumption.
        + destruct (Hcl eq_refl) as [H|H]; [left|right]; intros rep x a _ _; apply H.
      - unfold dr. destruct reps as [|[|x0 rep0] reps']; try reflexivity.
        unfold dpos. rewrite (select_bad (jlabel labels) c _ Hok). reflexivity. }
    apply app_fusion_o; [exact Hdr| |].
    + destruct f as [v|]; [|reflexivity]. apply Hdl. intros x [<-|[]]. apply in_or_app. right. left. reflexivity.
    + destruct (step_ok c) eqn:Hok.
      * destruct (Hcl eq_refl) as [H|H]; [left|right]; split.
        -- intros e E. eapply dr_err; [exact Hok| |exact E]. intros rep x e1 _ _. apply H.
        -- intros e E. destruct f as [v|]; [|discriminate]. eapply dl_err; [exact Hok| |exact E]. intros x e1 _. apply H.
        -- intros a E. eapply dr_nil; [|exact E]. right. intros rep x a1 _ _. apply H.
        -- intros a E. destruct f as [v|]; [|injection E as <-; reflexivity]. eapply dl_nil; [|exact E]. right. intros x a1 _. apply H.
      * right. split.
        -- intros a E. eapply dr_nil; [|exact E]. left. exact Hok.
        -- intros a E. destruct f as [v|]; [|injection E as <-; reflexivity]. eapply dl_nil; [|exact E]. left. exact Hok.
  - destruct ats as [|a ats]; [reflexivity|]. apply Hdl. intros x Hx. exact Hx.
Qed.

Lemma jstep_fusion n : jstep labels VList c n contV = ov (jstep labels OList c n contO).
Proof.
  unfold jstep.
  assert (Hseq : forall l, (let* sel := select (jlabel labels) c l in contV (map snd sel)) =
                           ov (let* sel := select (jlabel labels) c l in contO (map snd sel))).
  { intros l. rewrite bind_assoc. apply bind_ext. intros sel. apply Hc. }
  destruct (c_sep c =? SEP_CHILD)%N.
  - destruct n as [id|id ms|id f reps|v]; try reflexivity; try apply Hseq.
    destruct reps as [|[|x0 rep0] reps']; try reflexivity. set (reps := (x0 :: rep0) :: reps').
    rewrite bind_assoc. apply bind_ext. intros [|s0 sel]; [reflexivity|].
    rewrite bind_assoc.
    rewrite (collect_fusion_o (fun rep => let* r := contO (pick (map fst (s0 :: sel)) rep) in Ok (envelope OList r))
                              (fun rep => let* r := contV (pick (map fst (s0 :: sel)) rep) in Ok (envelope VList r))).
    + rewrite !bind_assoc. apply bind_ext. intros env. cbn [bind]. symmetry. apply ovalues_envelope.
    + intros rep _. rewrite Hc, !bind_assoc. apply bind_ext. intros r. cbn [bind]. symmetry. apply ovalues_envelope.
    + destruct H2 as [Hq|He]; [left|right].
      * intros rep e _ E. destruct (contO _) as [r|e1] eqn:E1; cbn [bind] in E; [discriminate|].
        injection E as ->. eapply Hq; exact E1.
      * intros rep a _ E. destruct (contO _) as [r|e1] eqn:E1; cbn [bind] in E; [|discriminate].
        injection E as <-. rewrite (He _ _ E1). reflexivity.
  - destruct (c_sep c =? SEP_ATTRIB)%N.
    + destruct n as [id|id ms|id [f|] reps|[i b [|a ats]]]; try reflexivity; apply Hseq.
    + destruct (c_sep c =? SEP_DESCEND)%N; [|reflexivity]. apply (jdesc_fusion (jheight n)). lia.
Qed.

End StepFusion.

(* ---- whole paths -------------------------------------------------------------------------------------- *)
Section Paths.
Context (labels : list (list char)).
Local Notation GO := (jgen labels jleaf_o OList).
Local Notation GV := (jgen labels jvalue VList).

Lemma jgen_errors : forall cs n e, cs <> [] -> steps_ok cs = true -> GO cs n = Err e -> e = EQuery.
Proof.
  induction cs as [|c rest IH]; intros n e Hne Hok E; [congruence|].
  cbn [steps_ok forallb] in Hok. apply andb_prop in Hok as [Hc Hrest]. cbn [jgen] in E.
  eapply jstep_errors; [exact Hc| |exact E].
  destruct rest as [|c2 rest2].
  - intros ns e1 E1. rewrite collect_leaves in E1. discriminate.
  - apply collect_only_query_errors. intros x e1 E1. apply (IH x e1); [discriminate|exact Hrest|exact E1].
Qed.

Lemma jgen_empty : forall cs n rs, steps_ok cs = false -> GO cs n = Ok rs -> rs = [].
Proof.
  induction cs as [|c rest IH]; intros n rs Hok E; [discriminate|].
  cbn [steps_ok forallb] in Hok. cbn [jgen] in E. eapply jstep_empty; [|exact E].
  destruct (step_ok c) eqn:Hc; [right|left; reflexivity]. cbn [andb] in Hok.
  destruct rest as [|c2 rest2]; [discriminate|].
  apply collect_only_empty. intros x a Ea. eapply IH; [exact Hok|exact Ea].
Qed.

(* values directly = nodes first, values afterwards: for every path *)
Theorem jgen_fusion : forall cs n, GV cs n = ov (GO cs n).
Proof.
  induction cs as [|c rest IH]; intros n; [reflexivity|]. cbn [jgen]. apply jstep_fusion.
  - intros ns. destruct rest as [|c2 rest2]; [symmetry; apply ov_leaves|].
    apply collect_fusion_o; [intros x _; apply IH|].
    destruct (steps_ok (c2 :: rest2)) eqn:Hok; [left|right].
    + intros x e _ E. apply (jgen_errors (c2 :: rest2) x e); [discriminate|exact Hok|exact E].
    + intros x a _ E. eapply jgen_empty; [exact Hok|exact E].
  - destruct rest as [|c2 rest2].
    + left. intros ns e E. rewrite collect_leaves in E. discriminate.
    + destruct (steps_ok (c2 :: rest2)) eqn:Hok; [left|right].
      * apply collect_only_query_errors. intros x e E. apply (jgen_errors (c2 :: rest2) x e); [discriminate|exact Hok|exact E].
      * apply collect_only_empty. intros x a E. eapply jgen_empty; [exact Hok|exact E].
Qed.

Theorem eval_json_fusion nested cs : eval_json labels nested cs = eval_json_nodes labels nested cs.
Proof. apply jgen_fusion. Qed.

End Paths.

(* ---- C16, every path, against the values-directly reference ------------------------------------------- *)
Theorem query_eq_reference_all ndesc vals links T nodes s ia labels K fuel p :
  wire ndesc vals links T = Ok (nodes, s) -> wf_path (p_comps p) = true -> saturated (x_attrs s) K = true ->
  (2 * jheight (JSeqN 0 (render_nodes (x_attrs s) ia vals K nodes)) + 3 * length (p_comps p) + 2 <= fuel)%nat ->
  process_one_subset (x_attrs s) labels fuel nodes p =
  eval_json labels (render_nodes (x_attrs s) ia vals K nodes) (p_comps p).
Proof.
  intros E Hp Hsat Hf. rewrite eval_json_fusion. eapply query_desc_eq_reference_wired; eassumption.
Qed.

(* ---- the fuel bound in terms of the tree ---------------------------------------------------------------- *)
Section Heights.
Context (attrs : list attr) (ia : N -> bool) (vals : list value).
Local Notation rn := (render_node attrs ia vals).
Local Notation rns := (render_nodes attrs ia vals).
Local Notation rv := (render_value attrs ia).

Lemma list_max_le_all {A} (h : A -> nat) l d : (forall x, In x l -> (h x <= d)%nat) -> (list_max (map h l) <= d)%nat.
Proof.
  induction l as [|x l IH]; intros H; cbn [map list_max fold_right]; [lia|].
  pose proof (H x (or_introl eq_refl)). specialize (IH (fun y Hy => H y (or_intror Hy))). unfold list_max in IH. lia.
Qed.

Lemma vheight_rv : forall k b i, (vheight (rv k b i) <= k + 1)%nat.
Proof.
  induction k as [|k IH]; intros b i; cbn [render_value vheight]; [cbn; lia|].
  rewrite map_map. apply le_n_S. apply list_max_le_all. intros a _. apply IH.
Qed.

Lemma wheights_in ms w : In w (wnodes_list ms) -> (wheight w <= wheights ms)%nat.
Proof.
  induction ms as [|x ms IH]; cbn [wnodes_list In wheights]; [tauto|]. intros [->|H]; [lia|]. specialize (IH H). lia.
Qed.

Lemma jheight_rn K : forall w, (jheight (rn K w) <= wheight w + K)%nat.
Proof.
  assert (Hlist : forall ms d, (forall w, In w (wnodes_list ms) -> (jheight (rn K w) <= wheight w + K)%nat) ->
                   (wheights ms + K <= d)%nat -> (list_max (map jheight (rns K ms)) <= d)%nat).
  { intros ms d H Hd. rewrite rns_map, map_map. apply list_max_le_all. intros w Hw.
    specialize (H w Hw). pose proof (wheights_in ms w Hw). lia. }
  assert (Hchunks : forall ms nmem nrep d, (list_max (map jheight (rns K ms)) <= d)%nat ->
            (list_max (map (fun rep => list_max (map jheight rep)) (chunks nmem nrep (rns K ms))) <= d)%nat).
  { intros ms nmem nrep d H. apply list_max_le_all. intros rep Hrep. apply list_max_le_all. intros x Hx.
    pose proof (chunks_incl nmem nrep _ rep Hrep x Hx) as Hin.
    pose proof (in_list_max jheight x _ Hin). lia. }
  fix IH 1. intros w.
  destruct w as [id|id ms|id nmem nrep ms|id nmem f ms|i].
  - cbn. lia.
  - rewrite rn_seq. cbn [jheight wheight].
    assert (list_max (map jheight (rns K ms)) <= wheights ms + K)%nat; [|lia]. apply Hlist; [|lia].
    induction ms as [|x ms IHms]; cbn [wnodes_list In]; [tauto|]. intros w' [<-|Hw']; [apply IH|apply IHms, Hw'].
  - rewrite rn_fixed. cbn [jheight wheight].
    assert (list_max (map jheight (rns K ms)) <= wheights ms + K)%nat.
    { apply Hlist; [|lia].
      induction ms as [|x ms IHms]; cbn [wnodes_list In]; [tauto|]. intros w' [<-|Hw']; [apply IH|apply IHms, Hw']. }
    pose proof (Hchunks ms nmem (N.to_nat nrep) _ H). lia.
  - rewrite rn_delayed. cbn [jheight wheight].
    assert (list_max (map jheight (rns K ms)) <= wheights ms + K)%nat.
    { apply Hlist; [|lia].
      induction ms as [|x ms IHms]; cbn [wnodes_list In]; [tauto|]. intros w' [<-|Hw']; [apply IH|apply IHms, Hw']. }
    pose proof (Hchunks ms nmem (count_of (nth_error vals (N.to_nat f))) _ H).
    pose proof (vheight_rv K false f). lia.
  - cbn [render_node jheight wheight]. pose proof (vheight_rv K false i). lia.
Qed.

Lemma jheight_root K nodes : (jheight (JSeqN 0 (rns K nodes)) <= wheights nodes + K + 1)%nat.
Proof.
  cbn [jheight]. rewrite rns_map, map_map.
  assert (list_max (map (fun x => jheight (rn K x)) (wnodes_list nodes)) <= wheights nodes + K)%nat; [|lia].
  apply list_max_le_all. intros w Hw. pose proof (jheight_rn K w). pose proof (wheights_in nodes w Hw). lia.
Qed.

End Heights.

(* C16 with the fuel bound stated on the tree: 2*(depth of the tree + K + 1) + 3*|path| + 2 *)
Theorem query_eq_reference_all_tree ndesc vals links T nodes s ia labels K fuel p :
  wire ndesc vals links T = Ok (nodes, s) -> wf_path (p_comps p) = true -> saturated (x_attrs s) K = true ->
  (2 * (wheights nodes + K + 1) + 3 * length (p_comps p) + 2 <= fuel)%nat ->
  process_one_subset (x_attrs s) labels fuel nodes p =
  eval_json labels (render_nodes (x_attrs s) ia vals K nodes) (p_comps p).
Proof.
  intros E Hp Hsat Hf. eapply query_eq_reference_all; try eassumption.
  pose proof (jheight_root (x_attrs s) ia vals K nodes). lia.
Qed.
