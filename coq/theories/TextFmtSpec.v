(* TextFmtSpec.v — the side conditions of the text round-trip theorems (C09).
   Executable booleans wherever possible (the correspondence check evaluates them
   on every generated message through the extracted code); the equations about
   the external [leval] / [repr] are stated per object that occurs in the message. *)
From PBK Require Import Base Descr Walk Wire Nested TextFmt.
From PBK Require Script.

(* ---- shape of the message ---------------------------------------------------------------- *)
Definition is_template {TD} (p : param TD) : bool := match p with PTemplate _ => true | PVal _ _ => false end.
Definition has_template {TD} (ps : list (param TD)) : bool := existsb is_template ps.

(* the template data is the last parameter of its section ... *)
Fixpoint params_shape {TD} (ps : list (param TD)) : bool :=
  match ps with
  | [] => true
  | PVal _ _ :: r => params_shape r
  | PTemplate _ :: r => match r with [] => true | _ :: _ => false end
  end.

(* ... and another section follows it (subsets_*_text_to_flat_json read on until a
   section header: IndexError otherwise) *)
Fixpoint sections_shape {TD} (ss : list (section TD)) : bool :=
  match ss with
  | [] => true
  | s :: r => params_shape (s_params s)
              && (negb (has_template (s_params s)) || match r with [] => false | _ :: _ => true end)
              && sections_shape r
  end.

(* ---- a 'name = value' line ------------------------------------------------------------------ *)
(* no line break; ' = ' occurs once (split(' = ') must give two parts: neither in the
   name followed by ' =' nor in the repr of the value); the line is not taken for a header *)
Definition pval_line_ok (name r : str) : bool :=
  nolb name && nolb r
  && negb (occurs S_EQ (name ++ removelast S_EQ)) && negb (occurs S_EQ r)
  && negb (prefixb TEXT_SECTION_HEADER (name ++ S_EQ ++ r))
  && negb (prefixb TEXT_SUBSET_HEADER (name ++ S_EQ ++ r)).

(* ---- a line of the nested text ---------------------------------------------------------------- *)
(* str(descriptor) of a value node: not empty, no line break, and its first character is
   neither white space nor one of  . # 3 < -   (what lstrip('.') and the prefix tests look at) *)
Definition dstr_ok (d : str) : bool :=
  nolb d &&
  match d with
  | [] => false
  | c :: _ => negb (Script.is_space c) && negb (c =? 46)%N && negb (c =? 35)%N && negb (c =? 51)%N
              && negb (c =? 60)%N && negb (c =? 45)%N
  end.

Definition starts_A (d : str) : bool := prefixb [65%N] d.

(* repr(value) as subsets_nested_text_to_flat_json needs it: not empty, no line break, does not
   end in white space; ending in a quote q it is  b q ... q  with at least 3 characters and
   ' b' + q does not occur before the last character; otherwise it contains no blank *)
Definition nested_repr_ok (r : str) : bool :=
  nolb r && negb (Script.is_space (last r 32%N)) &&
  let q := last r 0%N in
  if is_quote q then prefixb [98%N; q] r && (3 <=? length r)%nat && negb (occurs [32%N; 98%N; q] (removelast r))
  else negb (memc 32%N r).

(* the line of a no-value node (operator, replication, sequence, element skipped by 221YYY)
   is passed over by the parser *)
Definition nv_line_skipped (t : str) : bool :=
  let line := norm_line t in
  negb (prefixb TEXT_SECTION_HEADER line) && negb (prefixb TEXT_SUBSET_HEADER line)
  && (prefixb [35%N] line || (prefixb S_ARROW2 line && negb (prefixb S_ARROW_A line)) || prefixb [51%N] line
      || negb (memc 32%N line)).

(* an attribute (o, a, is_assoc): its label starts with 'A' exactly when it was attached as an
   associated field; a node that is itself an attribute carries no associated field *)
Definition attr_labels_ok (dstr : N -> str) (attrs : list attr) : bool :=
  forallb (fun t : attr => Bool.eqb (starts_A (dstr (snd (fst t)))) (snd t)) attrs.

Definition attrs_depth_ok (attrs : list attr) : bool :=
  forallb (fun t : attr =>
    negb (snd t) || negb (existsb (fun u : attr => (snd (fst u) =? fst (fst t))%N) attrs)) attrs.

(* every attribute index lies below len(decoded_values) *)
Definition attrs_in_range (n : N) (attrs : list attr) : bool :=
  forallb (fun t : attr => (snd (fst t) <? n)%N) attrs.

(* the descriptor ids of the nodes printed without a value *)
Fixpoint nv_ids (n : wnode) : list N :=
  match n with
  | WNoValue id => [id]
  | WSeq id ms | WFixed id _ _ ms | WDelayed id _ _ ms => id :: nv_ids_list ms
  | WValue _ => []
  end
with nv_ids_list (ns : wnodes) : list N :=
  match ns with WNil => [] | WCons n r => nv_ids n ++ nv_ids_list r end.

Definition nv_ok (nvstr : N -> str) (id : N) : bool := nv_line_skipped (nvstr id) && nolb (nvstr id).

(* the texts of flat index i of a nested-text subset: str(descriptor) is well formed, the
   description holds no line break, repr(value) is as the parser needs it *)
Definition pv (sub : nsubset) (i : N) : pyv := PyV (val_at sub i).
Definition rtext (repr : pyv -> str) (sub : nsubset) (i : N) : str := repr (pv sub i).
Definition vtext_ok (repr : pyv -> str) (sub : nsubset) (i : N) : bool :=
  dstr_ok (ns_dstr sub i) && nolb (ns_descr sub i) && nested_repr_ok (rtext repr sub i).
