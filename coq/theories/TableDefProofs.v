(* TableDefProofs.v — in-stream table definitions govern what follows (C20). *)
From PBK Require Import Base Descr PathParser TableDef.
From Coq Require Import ZifyBool ZifyNat ZifyN.

(* ---- the extra entries override the table files, everything else keeps its meaning -- *)
Theorem extras_govern wmo loc extras id e :
  lookup_assoc id extras = Some e -> lookup_merged wmo loc extras id = Some e.
Proof. intros H. unfold lookup_merged. rewrite H. reflexivity. Qed.

Theorem unmentioned_keep_standard_meaning wmo loc extras id :
  lookup_assoc id extras = None -> lookup_merged wmo loc extras id = lookup_merged wmo loc [] id.
Proof. intros H. unfold lookup_merged. rewrite H. reflexivity. Qed.

Lemma lookup_assoc_app {A} id (a b : list (N * A)) :
  lookup_assoc id (a ++ b) = match lookup_assoc id a with Some v => Some v | None => lookup_assoc id b end.
Proof.
  induction a as [|[k v] a IH]; [reflexivity|]. cbn [app lookup_assoc].
  destruct (k =? id)%N; [reflexivity|exact IH].
Qed.

(* a later definition message replaces the earlier definition of the same key;
   keys it does not define keep the earlier extra entries *)
Theorem add_extras_new_governs old new id e :
  lookup_assoc id (rev new) = Some e -> lookup_assoc id (add_extras old new) = Some e.
Proof. intros H. unfold add_extras. rewrite lookup_assoc_app, H. reflexivity. Qed.

Theorem add_extras_keeps_old old new id :
  lookup_assoc id (rev new) = None -> lookup_assoc id (add_extras old new) = lookup_assoc id old.
Proof. intros H. unfold add_extras. rewrite lookup_assoc_app, H. reflexivity. Qed.

(* ---- the entry built from a definition subset has exactly the fields written ----- *)
Definition ascii (t : list char) : Prop := forallb (fun c => (c <? 128)%N) t = true.

Lemma next_text_ok t r : ascii t -> next_text (VBytes t :: r) = Ok (t, r).
Proof. unfold ascii. intros H. cbn [next_text as_text]. rewrite H. reflexivity. Qed.

Theorem b_entry_fields f x y n1 n2 u ss sc rs rv w rest scale ref nbits :
  Forall (fun t => forallb (fun c => (c <? 128)%N) t = true) [f; x; y; n1; n2; u; ss; sc; rs; rv; w] ->
  signed ss sc = Ok scale -> signed rs rv = Ok ref -> int_of (pystrip w) = Ok nbits ->
  b_one_entry (map VBytes [f; x; y; n1; n2; u; ss; sc; rs; rv; w] ++ rest) =
  Ok (mkB (f ++ x ++ y) (pyrstrip n1 ++ pyrstrip n2) (pystrip u) scale ref nbits, rest).
Proof.
  intros HF Hs Hr Hw.
  repeat match goal with
         | H : Forall _ (_ :: _) |- _ => let a := fresh "Ha" in inversion H as [|? ? a ?]; subst; clear H
         end.
  unfold b_one_entry. cbn [map app].
  repeat (rewrite next_text_ok by assumption; cbn [bind]).
  rewrite Hs. cbn [bind]. repeat (rewrite next_text_ok by assumption; cbn [bind]).
  rewrite Hr. cbn [bind]. repeat (rewrite next_text_ok by assumption; cbn [bind]).
  rewrite Hw. reflexivity.
Qed.

(* the sign convention: '+' is positive, anything else negative *)
Lemma signed_plus num n : int_of (pystrip num) = Ok n -> signed [ch_plus] num = Ok n.
Proof. intros H. unfold signed. rewrite H. reflexivity. Qed.
Lemma signed_minus num n : int_of (pystrip num) = Ok n -> signed [ch_minus] num = Ok (- n)%Z.
Proof. intros H. unfold signed. rewrite H. reflexivity. Qed.

(* a sequence entry: key, name, exactly the listed members *)
Theorem d_entry_fields f x y nm ms rest :
  Forall (fun t => forallb (fun c => (c <? 128)%N) t = true) ([f; x; y; nm] ++ ms) ->
  d_one_entry (map VBytes [f; x; y; nm] ++ VInt (Z.of_nat (length ms)) :: map VBytes ms ++ rest) =
  Ok (mkDe (f ++ x ++ y) (pyrstrip nm) ms, rest).
Proof.
  intros HF. apply Forall_app in HF as [H4 Hms].
  repeat match goal with
         | H : Forall _ (_ :: _) |- _ => let a := fresh "Ha" in inversion H as [|? ? a ?]; subst; clear H
         end.
  unfold d_one_entry. cbn [map app].
  repeat (rewrite next_text_ok by assumption; cbn [bind]).
  cbn [bind next_int]. rewrite Nat2Z.id.
  assert (G : forall l r, Forall (fun t => forallb (fun c => (c <? 128)%N) t = true) l ->
              take_texts (length l) (map VBytes l ++ r) = Ok (l, r)).
  { induction l as [|t l IH]; intros r Hl; [reflexivity|]. inversion Hl as [|? ? Ht Hl']; subst.
    cbn [length take_texts map app]. rewrite next_text_ok by exact Ht. cbn [bind]. rewrite (IH r Hl'). reflexivity. }
  rewrite (G ms rest Hms). reflexivity.
Qed.
