(* DecodeC.v — Decoder's primitives for COMPRESSED data (decoder.py
   process_*_compressed) over the column codec of Column.v: every primitive reads
   one column and appends one value to every subset's list. *)
From PBK Require Import Base Bits Descr Walk Coder Decode Column.

Definition append_col (col : list value) (vals : list (list value)) : list (list value) :=
  map (fun p => fst p ++ [snd p]) (combine vals col).

Definition dc_push (col : list value) (d : dstate) (r' : reader) : dstate :=
  mkD r' (append_col col (d_vals d)) (d_cur d).

Definition nsub (d : dstate) : nat := length (d_vals d).

Definition decc_numeric (nbits scale refval : Z) (d : dstate) : result dstate :=
  let* (col, r') := dec_col_num nbits (nsub d) (d_r d) in
  Ok (dc_push (map (fun o => match o with None => VNone | Some raw => numeric_value raw scale refval end) col) d r').

Definition decc_string (nbytes : Z) (d : dstate) : result dstate :=
  let* (col, r') := dec_col_str nbytes (nsub d) (d_r d) in
  Ok (dc_push (map VBytes col) d r').

Definition decc_codeflag (nbits dnbits : Z) (d : dstate) : result dstate :=
  let* (col, r') := dec_col_codeflag nbits dnbits (nsub d) (d_r d) in
  Ok (dc_push (map (fun o => match o with None => VNone | Some raw => VInt (Z.of_N raw) end) col) d r').

Definition decc_new_refval (nbits : Z) (d : dstate) : result (Z * dstate) :=
  let* (z, r') := dec_col_refval nbits (nsub d) (d_r d) in
  Ok (z, dc_push (repeat (VInt z) (nsub d)) d r').

Definition decc_constant (v : Z) (d : dstate) : result dstate :=
  Ok (dc_push (repeat (VInt v) (nsub d)) d (d_r d)).

(* Python's == between two decoded values *)
Definition value_eqb (a b : value) : bool :=
  match a, b with
  | VNone, VNone => true
  | VInt x, VInt y => (x =? y)%Z
  | VDec m s, VDec m' s' => (m =? m')%Z && (s =? s')%Z
  | VBytes x, VBytes y => bytes_eqb x y
  | VInt x, VDyad m e | VDyad m e, VInt x =>
      if (0 <=? e)%Z then (m * 2 ^ e =? x)%Z else (m =? x * 2 ^ (- e))%Z
  | VDyad m e, VDyad m' e' =>
      (* same value: compare cross-multiplied *)
      let k := Z.min e e' in (m * 2 ^ (e - k) =? m' * 2 ^ (e' - k))%Z
  | _, _ => false
  end.

(* CoderState._assert_equal_values_of_index: minmax over the non-None values *)
Definition assert_equal_present (vs : list value) : result unit :=
  match filter (fun v => match v with VNone => false | _ => true end) vs with
  | [] => Ok tt
  | v :: r => if forallb (value_eqb v) r then Ok tt else Err ELib
  end.

Definition last_of (l : list value) : option value :=
  match rev l with [] => None | v :: _ => Some v end.

Definition decc_factor (d : dstate) : result N :=
  let lasts := map last_of (d_vals d) in
  if existsb (fun o => match o with None => true | Some _ => false end) lasts then Err EIndex else
  let vs := map (fun o => match o with Some v => v | None => VNone end) lasts in
  let* _ := assert_equal_present vs in
  match vs with
  | [] => Err EIndex
  | v :: _ => factor_of_value v
  end.

Definition decc_bitmap (n : Z) (d : dstate) : result (list bool) :=
  match d_vals d with
  | [] => Err EIndex
  | l :: _ => Ok (map value_is_zero (last_n n l))
  end.

Definition decc_prims : prims dstate :=
  mkPrims dstate decc_numeric decc_string decc_codeflag decc_new_refval decc_constant decc_factor decc_bitmap.

Definition decode_compressed (T : descs) (n : nat) (bits : reader)
  : result (list subset_out * list (list value) * reader) :=
  let* (outs, d) := run_compressed decc_prims T n (mkD bits (repeat [] n) 0) in
  Ok (outs, d_vals d, d_r d).
