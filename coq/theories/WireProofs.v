(* WireProofs.v — the hierarchical view contains every decoded value exactly once,
   in an arrangement from which the flat order is recovered (C09):
   flattening the wired tree the way template_data_nested_json_to_flat_json does
   (associated-field attributes first, then the node; factor before members)
   yields 0, 1, ..., n-1. *)
From PBK Require Import Base Descr Walk Wire.
From Coq Require Import ZifyBool ZifyNat ZifyN.

(* ---- integer ranges ---------------------------------------------------------- *)
Fixpoint nrange (lo : N) (n : nat) : list N :=
  match n with O => [] | S k => lo :: nrange (lo + 1) k end.
Definition span (a b : N) : list N := nrange a (N.to_nat (b - a)).

Lemma nrange_app lo n m : nrange lo (n + m) = nrange lo n ++ nrange (lo + N.of_nat n) m.
Proof.
  revert lo; induction n as [|n IH]; intros lo; cbn [nrange Nat.add app].
  - f_equal. lia.
  - rewrite IH. f_equal. f_equal. f_equal. lia.
Qed.

Lemma span_app a b c : (a <= b)%N -> (b <= c)%N -> span a b ++ span b c = span a c.
Proof.
  intros H1 H2. unfold span.
  replace (N.to_nat (c - a)) with (N.to_nat (b - a) + N.to_nat (c - b))%nat by lia.
  rewrite nrange_app. f_equal. f_equal. lia.
Qed.

Lemma span_nil a : span a a = [].
Proof. unfold span. rewrite N.sub_diag. reflexivity. Qed.

Lemma span_one a : span a (a + 1) = [a].
Proof. unfold span. replace (N.to_nat (a + 1 - a)) with 1%nat by lia. reflexivity. Qed.

Lemma span_two a : span a (a + 1 + 1) = [a; (a + 1)%N].
Proof. unfold span. replace (N.to_nat (a + 1 + 1 - a)) with 2%nat by lia. reflexivity. Qed.

Lemma in_nrange x lo n : In x (nrange lo n) -> (lo <= x < lo + N.of_nat n)%N.
Proof.
  revert lo; induction n as [|n IH]; intros lo; cbn [nrange In]; [tauto|].
  intros [<-|H]; [lia|]. apply IH in H. lia.
Qed.

Lemma in_span x a b : In x (span a b) -> (a <= x < b)%N.
Proof. unfold span. intros H. apply in_nrange in H. lia. Qed.

Lemma nrange_in x lo n : (lo <= x < lo + N.of_nat n)%N -> In x (nrange lo n).
Proof.
  revert lo; induction n as [|n IH]; intros lo H; cbn [nrange In]; [lia|].
  destruct (N.eq_dec lo x) as [->|Hne]; [left; reflexivity|right; apply IH; lia].
Qed.

Lemma nrange_NoDup lo n : NoDup (nrange lo n).
Proof.
  revert lo; induction n as [|n IH]; intros lo; cbn [nrange]; constructor; [|apply IH].
  intros H. apply in_nrange in H. lia.
Qed.

Lemma span_NoDup a b : NoDup (span a b).
Proof. apply nrange_NoDup. Qed.

Lemma span_in x a b : (a <= x < b)%N -> In x (span a b).
Proof. intros H. unfold span. apply nrange_in. lia. Qed.

(* ---- indices held by a tree ---------------------------------------------------- *)
Fixpoint nidx (n : wnode) : list N :=
  match n with
  | WNoValue _ => []
  | WSeq _ ms | WFixed _ _ _ ms => nidxs ms
  | WDelayed _ _ f ms => f :: nidxs ms
  | WValue i => [i]
  end
with nidxs (ns : wnodes) : list N :=
  match ns with WNil => [] | WCons n r => nidx n ++ nidxs r end.

Lemma flat_nodes_app A a b : flat_nodes A (wnodes_app a b) = flat_nodes A a ++ flat_nodes A b.
Proof.
  induction a as [|n a IH]; cbn [wnodes_app flat_nodes app]; [reflexivity|].
  rewrite IH, app_assoc. reflexivity.
Qed.

Lemma nidxs_app a b : nidxs (wnodes_app a b) = nidxs a ++ nidxs b.
Proof.
  induction a as [|n a IH]; cbn [wnodes_app nidxs app]; [reflexivity|].
  rewrite IH, app_assoc. reflexivity.
Qed.

Lemma nidx_in_flat A :
  (forall n i, In i (nidx n) -> In i (flat_node A n)) /\
  (forall ns i, In i (nidxs ns) -> In i (flat_nodes A ns)).
Proof.
  apply wnode_wnodes_ind; cbn [nidx nidxs flat_node flat_nodes].
  - intros id i [].
  - intros id ms IH i H. apply IH, H.
  - intros id nm nr ms IH i H. apply IH, H.
  - intros id nm f ms IH i [<-|H].
    + apply in_or_app. left. apply in_or_app. right. left. reflexivity.
    + apply in_or_app. right. apply IH, H.
  - intros idx i [<-|[]]. apply in_or_app. right. left. reflexivity.
  - intros i [].
  - intros n IHn ns IHns i H. apply in_app_or in H as [H|H]; apply in_or_app; [left; apply IHn|right; apply IHns]; exact H.
Qed.

(* owners of associated-field attributes *)
Definition no_assoc_owner (D : list attr) (i : N) : Prop :=
  forall o a, In (o, a, true) D -> o <> i.

Lemma assoc_attrs_of_app A D i :
  assoc_attrs_of (A ++ D) i = assoc_attrs_of A i ++ assoc_attrs_of D i.
Proof. unfold assoc_attrs_of. rewrite filter_app, map_app. reflexivity. Qed.

Lemma assoc_attrs_of_none D i : no_assoc_owner D i -> assoc_attrs_of D i = [].
Proof.
  unfold assoc_attrs_of, no_assoc_owner. induction D as [|[[o a] b] D IH]; intros H; [reflexivity|].
  cbn [filter fst snd]. destruct (N.eqb_spec o i) as [->|Hne]; cbn [andb].
  - destruct b.
    + exfalso. eapply H; [left; reflexivity|reflexivity].
    + apply IH. intros o1 a1 Hin. apply (H o1 a1). right. exact Hin.
  - apply IH. intros o1 a1 Hin. apply (H o1 a1). right. exact Hin.
Qed.

(* attributes attached later do not disturb the flat order of what is already there *)
Lemma flat_stable A D :
  (forall n, (forall i, In i (nidx n) -> no_assoc_owner D i) -> flat_node (A ++ D) n = flat_node A n) /\
  (forall ns, (forall i, In i (nidxs ns) -> no_assoc_owner D i) -> flat_nodes (A ++ D) ns = flat_nodes A ns).
Proof.
  apply wnode_wnodes_ind; cbn [nidx nidxs flat_node flat_nodes].
  - reflexivity.
  - intros id ms IH H. apply IH, H.
  - intros id nm nr ms IH H. apply IH, H.
  - intros id nm f ms IH H. rewrite IH by (intros i Hi; apply H; right; exact Hi).
    rewrite assoc_attrs_of_app, (assoc_attrs_of_none D f) by (apply H; left; reflexivity).
    rewrite app_nil_r. reflexivity.
  - intros idx H. rewrite assoc_attrs_of_app, (assoc_attrs_of_none D idx) by (apply H; left; reflexivity).
    rewrite app_nil_r. reflexivity.
  - reflexivity.
  - intros n IHn ns IHns H. rewrite IHn, IHns; [reflexivity| |]; intros i Hi; apply H; apply in_or_app; [right|left]; exact Hi.
Qed.

(* ---- the invariant --------------------------------------------------------------- *)
(* every associated-field attribute recorded so far belongs to an index already handed out *)
Definition Inv (s : wst) : Prop := forall o a, In (o, a, true) (x_attrs s) -> (o < x_next s)%N.

(* [new] is what was added between s and s' *)
Definition Good (s s' : wst) (new : wnodes) : Prop :=
  (x_next s <= x_next s')%N /\
  (exists D, x_attrs s' = x_attrs s ++ D /\ forall o a, In (o, a, true) D -> (x_next s <= o < x_next s')%N) /\
  flat_nodes (x_attrs s') new = span (x_next s) (x_next s').

Lemma Good_Inv s s' new : Inv s -> Good s s' new -> Inv s'.
Proof.
  intros HI (Hle & (D & E & HD) & _) o a Hin. rewrite E in Hin. apply in_app_or in Hin as [Hin|Hin].
  - specialize (HI _ _ Hin). lia.
  - specialize (HD _ _ Hin). lia.
Qed.

Lemma Good_refl s : Good s s WNil.
Proof.
  split; [lia|]. split; [exists []; rewrite app_nil_r; split; [reflexivity|intros o a []]|].
  cbn. rewrite span_nil. reflexivity.
Qed.

Lemma Good_trans s s1 s2 a b : Good s s1 a -> Good s1 s2 b -> Good s s2 (wnodes_app a b).
Proof.
  intros (Hle1 & (D1 & E1 & HD1) & F1) (Hle2 & (D2 & E2 & HD2) & F2).
  split; [lia|]. split.
  - exists (D1 ++ D2). rewrite E2, E1, app_assoc. split; [reflexivity|].
    intros o x Hin. apply in_app_or in Hin as [Hin|Hin]; [specialize (HD1 _ _ Hin)|specialize (HD2 _ _ Hin)]; lia.
  - rewrite flat_nodes_app, F2, E2.
    rewrite (proj2 (flat_stable (x_attrs s1) D2)).
    + rewrite F1. apply span_app; assumption.
    + intros i Hi o x Hin ->. specialize (HD2 _ _ Hin).
      apply (proj2 (nidx_in_flat (x_attrs s1))) in Hi. rewrite F1 in Hi. apply in_span in Hi. lia.
Qed.

(* state updates that change neither the counter nor the attributes *)
Lemma Good_same s s' : x_next s' = x_next s -> x_attrs s' = x_attrs s -> Good s s' WNil.
Proof.
  intros Hn Ha. split; [lia|]. split; [exists []; rewrite app_nil_r, Ha; split; [reflexivity|intros o a []]|].
  cbn. rewrite Hn, span_nil. reflexivity.
Qed.

Lemma Good_ext s s' t new : x_next t = x_next s' -> x_attrs t = x_attrs s' -> Good s s' new -> Good s t new.
Proof. intros Hn Ha (H1 & (D & E & HD) & F). unfold Good. rewrite Hn, Ha. eauto. Qed.

Lemma Good_ext_l s t s' new : x_next t = x_next s -> x_attrs t = x_attrs s -> Good t s' new -> Good s s' new.
Proof. intros Hn Ha (H1 & (D & E & HD) & F). unfold Good. rewrite <- Hn, <- Ha. eauto. Qed.

(* non-associated attributes may be added freely *)
Lemma flat_add_plain A o a ns : flat_nodes (A ++ [(o, a, false)]) ns = flat_nodes A ns.
Proof.
  apply (proj2 (flat_stable A [(o, a, false)])). intros i _ o' a' [H|[]]. discriminate.
Qed.

Section W.
Context (ndesc : N) (vals : list value) (links : list (N * N)).

Lemma next_idx_spec s i s' : next_idx ndesc s = Ok (i, s') ->
  i = x_next s /\ x_next s' = (x_next s + 1)%N /\ x_attrs s' = x_attrs s /\
  x_assoc s' = x_assoc s /\ x_am s' = x_am s /\ x_qa s' = x_qa s /\ x_w1 s' = x_w1 s /\ x_wd s' = x_wd s.
Proof.
  unfold next_idx. destruct (ndesc <=? x_next s)%N; [discriminate|].
  intros E; injection E as <- <-. cbn. repeat split.
Qed.

Lemma value_node_spec s i s' : value_node ndesc s = Ok (i, s') ->
  i = x_next s /\ x_next s' = (x_next s + 1)%N /\ x_attrs s' = x_attrs s.
Proof.
  unfold value_node. destruct (next_idx ndesc s) as [[j s1]|] eqn:E; cbn [bind]; [|discriminate].
  intros H; injection H as <- <-. apply next_idx_spec in E as (-> & Hn & Ha & _). cbn. auto.
Qed.

(* one plain value node *)
Lemma Good_value s i s' : Inv s -> value_node ndesc s = Ok (i, s') -> Good s s' (WCons (WValue i) WNil).
Proof.
  intros HI E. apply value_node_spec in E as (-> & Hn & Ha).
  split; [lia|]. split; [exists []; rewrite app_nil_r; split; [exact Ha|intros o a []]|].
  cbn [flat_nodes flat_node]. rewrite Ha, Hn, app_nil_r, span_one.
  rewrite assoc_attrs_of_none; [reflexivity|]. intros o a Hin Heq. subst o. specialize (HI _ _ Hin). lia.
Qed.

Lemma wire_bitmap_attribute_spec i s s' : wire_bitmap_attribute links i s = Ok s' ->
  x_next s' = x_next s /\ exists o, x_attrs s' = x_attrs s ++ [(o, i, false)].
Proof.
  unfold wire_bitmap_attribute. destruct (link_of links i) as [o|]; [|discriminate].
  destruct (existsb _ _); [|discriminate]. intros E; injection E as <-. cbn. eauto.
Qed.

Lemma Good_plain_attr s s' t new o a :
  x_next t = x_next s' -> x_attrs t = x_attrs s' ++ [(o, a, false)] -> Good s s' new -> Good s t new.
Proof.
  intros Hn Ha (H1 & (D & E & HD) & F). split; [lia|]. split.
  - exists (D ++ [(o, a, false)]). rewrite Ha, E, app_assoc. split; [reflexivity|].
    intros o' a' Hin. apply in_app_or in Hin as [Hin|[Hin|[]]]; [rewrite Hn; exact (HD _ _ Hin)|discriminate].
  - rewrite Ha, flat_add_plain, Hn. exact F.
Qed.

Lemma wire_element_good e s n s' : Inv s -> wire_element ndesc links e s = Ok (n, s') -> Good s s' (WCons n WNil).
Proof.
  intros HI E. unfold wire_element in E. cbv zeta in E.
  destruct (x_assoc s) as [|z zs] eqn:Ea.
  - (* no associated field in force *)
    destruct ((desc_X (e_id e) =? 33)%N && x_qa s).
    + destruct (value_node ndesc s) as [[i s1]|] eqn:Ev; cbn [bind] in E; [|discriminate].
      destruct (wire_bitmap_attribute links i s1) as [s2|] eqn:Eb; cbn [bind] in E; [|discriminate].
      injection E as <- <-. apply wire_bitmap_attribute_spec in Eb as (Hn & o & Ha).
      eapply Good_plain_attr; [exact Hn|exact Ha|]. apply Good_value; assumption.
    + destruct (value_node ndesc s) as [[i s1]|] eqn:Ev; cbn [bind] in E; [|discriminate].
      pose proof (Good_value _ _ _ HI Ev) as G.
      destruct ((e_id e =? 8023)%N && x_w1 s1); [injection E as <- <-; eapply Good_ext; [| |exact G]; reflexivity|].
      destruct ((e_id e =? 8024)%N && x_wd s1); injection E as <- <-; [eapply Good_ext; [| |exact G]; reflexivity|exact G].
  - destruct (negb (desc_X (e_id e) =? 31)%N).
    + (* the associated field and its owner *)
      destruct (next_idx ndesc s) as [[ai s1]|] eqn:E1; cbn [bind] in E; [|discriminate].
      apply next_idx_spec in E1 as (-> & Hn1 & Ha1 & _ & Ham & _).
      destruct (x_am s1) as [m|]; [|discriminate].
      destruct (next_idx ndesc (add_attr (x_next s) m false s1)) as [[i s3]|] eqn:E3; cbn [bind] in E; [|discriminate].
      apply next_idx_spec in E3 as (-> & Hn3 & Ha3 & _). cbn [x_next x_attrs add_attr] in Hn3, Ha3.
      injection E as <- <-.
      split; [cbn; lia|]. split.
      * exists [(x_next s, m, false); (x_next s1, x_next s, true)]. cbn [x_attrs register add_attr].
        rewrite Ha3, Ha1, <- app_assoc. split; [reflexivity|].
        intros o a [H|[H|[]]]; [discriminate|]. injection H as <- <-. cbn [x_next register add_attr]. lia.
      * cbn [x_attrs x_next register add_attr flat_nodes flat_node]. rewrite app_nil_r, Ha3, Ha1, Hn3, Hn1, span_two.
        rewrite !assoc_attrs_of_app.
        rewrite (assoc_attrs_of_none (x_attrs s)) by (intros o a Hin ->; specialize (HI _ _ Hin); lia).
        unfold assoc_attrs_of at 1. cbn [filter fst snd map app].
        destruct (N.eqb_spec (x_next s) (x_next s + 1)); [lia|]. cbn [andb map app].
        unfold assoc_attrs_of. cbn [filter fst snd]. rewrite N.eqb_refl. reflexivity.
    + destruct (value_node ndesc s) as [[i s1]|] eqn:Ev; cbn [bind] in E; [|discriminate].
      pose proof (Good_value _ _ _ HI Ev) as G.
      destruct (e_id e =? 31021)%N; injection E as <- <-; [eapply Good_ext; [| |exact G]; reflexivity|exact G].
Qed.

Lemma wire_marker_good meaning s n s' : Inv s -> wire_marker ndesc links meaning s = Ok (n, s') -> Good s s' (WCons n WNil).
Proof.
  intros HI E. unfold wire_marker in E.
  destruct (value_node ndesc s) as [[i s1]|] eqn:Ev; cbn [bind] in E; [|discriminate].
  pose proof (Good_value _ _ _ HI Ev) as G.
  destruct meaning as [[m|]|]; cbn [bind] in E; try discriminate.
  - destruct (wire_bitmap_attribute links i (add_attr i m false s1)) as [s3|] eqn:Eb; cbn [bind] in E; [|discriminate].
    injection E as <- <-. apply wire_bitmap_attribute_spec in Eb as (Hn & o & Ha).
    eapply Good_plain_attr; [exact Hn|exact Ha|].
    eapply Good_plain_attr; [| |exact G]; reflexivity.
  - destruct (wire_bitmap_attribute links i s1) as [s3|] eqn:Eb; cbn [bind] in E; [|discriminate].
    injection E as <- <-. apply wire_bitmap_attribute_spec in Eb as (Hn & o & Ha).
    eapply Good_plain_attr; [exact Hn|exact Ha|exact G].
Qed.

Lemma Good_novalue s s' id : x_next s' = x_next s -> x_attrs s' = x_attrs s -> Good s s' (WCons (WNoValue id) WNil).
Proof.
  intros Hn Ha. split; [lia|]. split; [exists []; rewrite app_nil_r, Ha; split; [reflexivity|intros o a []]|].
  cbn. rewrite Hn, span_nil. reflexivity.
Qed.

Lemma wire_operator_good id s n s' : Inv s -> wire_operator ndesc links id s = Ok (n, s') -> Good s s' (WCons n WNil).
Proof.
  intros HI E. unfold wire_operator in E. cbv zeta in E.
  assert (P : forall t, Inv t -> x_next t = x_next s -> x_attrs t = x_attrs s ->
              forall n0 s0, (let* (i, s1) := value_node ndesc t in Ok (WValue i, s1)) = Ok (n0, s0) ->
              Good s s0 (WCons n0 WNil)).
  { intros t HIt Hn Ha n0 s0 E0.
    destruct (value_node ndesc t) as [[i s1]|] eqn:Ev; cbn [bind] in E0; [|discriminate].
    injection E0 as <- <-. eapply Good_ext_l; [exact Hn|exact Ha|]. apply Good_value; assumption. }
  assert (Q : forall f : wst -> wst, (forall t, x_next (f t) = x_next t /\ x_attrs (f t) = x_attrs t) -> Inv (f s)).
  { intros f Hf o a Hin. destruct (Hf s) as [Hn Ha]. rewrite Ha in Hin. rewrite Hn. apply HI with a. exact Hin. }
  assert (M : forall f : wst -> wst, (forall t, x_next (f t) = x_next t /\ x_attrs (f t) = x_attrs t) ->
              forall mg n0 s0, wire_marker ndesc links mg (f s) = Ok (n0, s0) -> Good s s0 (WCons n0 WNil)).
  { intros f Hf mg n0 s0 E0. destruct (Hf s) as [Hn Ha].
    eapply Good_ext_l; [exact Hn|exact Ha|]. eapply wire_marker_good; [apply Q; exact Hf|exact E0]. }
  destruct ((id / 1000 =? 201)%N || (id / 1000 =? 202)%N || (id / 1000 =? 206)%N
            || (id / 1000 =? 207)%N || (id / 1000 =? 208)%N).
  { injection E as <- <-. apply Good_novalue; reflexivity. }
  destruct (id / 1000 =? 203)%N; [injection E as <- <-; apply Good_novalue; reflexivity|].
  destruct (id / 1000 =? 204)%N.
  { destruct (Z.of_N (id mod 1000) =? 0)%Z.
    - destruct (x_assoc s); [discriminate|]. injection E as <- <-. apply Good_novalue; reflexivity.
    - injection E as <- <-. apply Good_novalue; reflexivity. }
  destruct (id / 1000 =? 205)%N; [eapply P; [exact HI| | |exact E]; reflexivity|].
  destruct (id / 1000 =? 221)%N; [injection E as <- <-; apply Good_novalue; reflexivity|].
  destruct (id / 1000 =? 222)%N.
  { eapply (P (set_xqa true s)); [apply (Q (set_xqa true)); intros t; split; reflexivity| | |exact E]; reflexivity. }
  destruct (id / 1000 =? 223)%N.
  { destruct (Z.of_N (id mod 1000) =? 0)%Z.
    - eapply (P (set_xqa false s)); [apply (Q (set_xqa false)); intros t; split; reflexivity| | |exact E]; reflexivity.
    - eapply (M (set_xqa false)); [intros t; split; reflexivity|exact E]. }
  destruct (id / 1000 =? 224)%N.
  { destruct (Z.of_N (id mod 1000) =? 0)%Z.
    - eapply (P (set_xw1 true (set_xqa false s)));
        [apply (Q (fun t => set_xw1 true (set_xqa false t))); intros t; split; reflexivity| | |exact E]; reflexivity.
    - eapply (M (set_xqa false)); [intros t; split; reflexivity|exact E]. }
  destruct (id / 1000 =? 225)%N.
  { destruct (Z.of_N (id mod 1000) =? 0)%Z.
    - eapply (P (set_xwd true (set_xqa false s)));
        [apply (Q (fun t => set_xwd true (set_xqa false t))); intros t; split; reflexivity| | |exact E]; reflexivity.
    - eapply (M (set_xqa false)); [intros t; split; reflexivity|exact E]. }
  destruct (id / 1000 =? 232)%N.
  { destruct (Z.of_N (id mod 1000) =? 0)%Z.
    - eapply (P (set_xqa false s)); [apply (Q (set_xqa false)); intros t; split; reflexivity| | |exact E]; reflexivity.
    - eapply (M (set_xqa false)); [intros t; split; reflexivity|exact E]. }
  destruct (id / 1000 =? 235)%N; [injection E as <- <-; apply Good_novalue; reflexivity|].
  destruct (id / 1000 =? 236)%N; [eapply P; [exact HI| | |exact E]; reflexivity|].
  destruct (id / 1000 =? 237)%N; [eapply P; [exact HI| | |exact E]; reflexivity|discriminate].
Qed.

(* the accumulating form used by wire_list and the replication loops *)
Definition GoodAcc (f : wres -> result wres) : Prop :=
  forall acc s acc' s', Inv s -> f (acc, s) = Ok (acc', s') ->
  exists new, acc' = wnodes_app acc new /\ Good s s' new.

Lemma wnodes_app_nil a : wnodes_app a WNil = a.
Proof. induction a as [|n a IH]; cbn; [reflexivity|rewrite IH; reflexivity]. Qed.

Lemma wnodes_app_assoc a b c : wnodes_app (wnodes_app a b) c = wnodes_app a (wnodes_app b c).
Proof. induction a as [|n a IH]; cbn; [reflexivity|rewrite IH; reflexivity]. Qed.

Lemma iter_w_good n f : GoodAcc f -> GoodAcc (iter_w n f).
Proof.
  intros Hf. unfold iter_w. induction n as [|n IH] using N.peano_ind.
  - intros acc s acc' s' HI E. cbn in E. injection E as <- <-. exists WNil. split; [symmetry; apply wnodes_app_nil|apply Good_refl].
  - intros acc s acc' s' HI E. rewrite N.iter_succ in E. cbv beta in E.
    match type of E with context [N.iter n ?g ?a0] => destruct (N.iter n g a0) as [[acc1 s1]|] eqn:E1 end; cbn [bind] in E; [|discriminate].
    destruct (IH _ _ _ _ HI E1) as (new1 & -> & G1).
    destruct (Hf _ _ _ _ (Good_Inv _ _ _ HI G1) E) as (new2 & -> & G2).
    exists (wnodes_app new1 new2). rewrite wnodes_app_assoc. split; [reflexivity|eapply Good_trans; eassumption].
Qed.

Lemma Good_wrap s s' new (n : wnode) :
  (forall A, flat_node A n = flat_nodes A new) -> Good s s' new -> Good s s' (WCons n WNil).
Proof.
  intros Hw (H1 & H2 & F). split; [exact H1|]. split; [exact H2|].
  cbn [flat_nodes]. rewrite app_nil_r, Hw. exact F.
Qed.

Tactic Notation "dbind" hyp(E) "as" simple_intropattern(p) "into" ident(H) :=
  match type of E with bind ?r _ = _ => destruct r as [p|] eqn:H; cbn [bind] in E; [|discriminate] end.

Theorem wire_good :
  (forall d s n s', Inv s -> wire_one ndesc vals links d s = Ok (n, s') -> Good s s' (WCons n WNil)) /\
  (forall ms, GoodAcc (wire_list ndesc vals links ms)).
Proof.
  apply desc_descs_ind.
  - intros e s n s' HI E. cbn [wire_one] in E. eapply wire_element_good; eassumption.
  - (* fixed replication *)
    intros id ms IH s n s' HI E. cbn [wire_one] in E.
    dbind E as [nodes s1] into E1.
    injection E as <- <-. destruct (iter_w_good _ _ IH _ _ _ _ HI E1) as (new & -> & G).
    eapply Good_wrap; [|exact G]. reflexivity.
  - (* delayed replication *)
    intros id f _ ms IH s n s' HI E. cbn [wire_one] in E.
    dbind E as [fi s0] into Ev.
    destruct (count_of_value _) as [cnt|]; cbn [bind] in E; [|discriminate].
    dbind E as [nodes s1] into E1.
    injection E as <- <-.
    pose proof (Good_value _ _ _ HI Ev) as G0.
    destruct (iter_w_good _ _ IH _ _ _ _ (Good_Inv _ _ _ HI G0) E1) as (new & -> & G1).
    pose proof (Good_trans _ _ _ _ _ G0 G1) as G.
    eapply Good_wrap; [|exact G]. intros A. cbn [wnodes_app flat_nodes flat_node]. reflexivity.
  - intros id s n s' HI E. cbn [wire_one] in E. eapply wire_operator_good; eassumption.
  - (* sequence *)
    intros id ms IH s n s' HI E. cbn [wire_one] in E.
    dbind E as [nodes s1] into E1.
    injection E as <- <-. destruct (IH _ _ _ _ HI E1) as (new & -> & G).
    eapply Good_wrap; [|exact G]. reflexivity.
  - intros id s n s' HI E. cbn [wire_one] in E.
    dbind E as [i s1] into Ev.
    injection E as <- <-. apply Good_value; assumption.
  - intros id s n s' HI E. discriminate.
  - intros acc s acc' s' HI E. cbn [wire_list] in E. injection E as <- <-.
    exists WNil. rewrite wnodes_app_nil. split; [reflexivity|apply Good_refl].
  - intros d IHd ds IHds acc s acc' s' HI E. cbn [wire_list] in E. cbv zeta in E.
    set (s0 := if (x_dnp s =? 0)%Z then s else set_xdnp (x_dnp s - 1) s) in *.
    assert (Hn0 : x_next s0 = x_next s) by (unfold s0; destruct (x_dnp s =? 0)%Z; reflexivity).
    assert (Ha0 : x_attrs s0 = x_attrs s) by (unfold s0; destruct (x_dnp s =? 0)%Z; reflexivity).
    assert (HI0 : Inv s0) by (intros o a Hin; rewrite Ha0 in Hin; rewrite Hn0; eapply HI; exact Hin).
    destruct (negb (x_dnp s =? 0)%Z && dnp_skips d).
    + destruct (IHds _ _ _ _ HI0 E) as (new & -> & G).
      exists (WCons (WNoValue (desc_id d)) new). rewrite wnodes_app_assoc. split; [reflexivity|].
      eapply Good_ext_l; [exact Hn0|exact Ha0|].
      change (WCons (WNoValue (desc_id d)) new) with (wnodes_app (WCons (WNoValue (desc_id d)) WNil) new).
      eapply Good_trans; [apply Good_novalue; reflexivity|exact G].
    + destruct (x_def s0 && is_plain_elem d).
      * dbind E as [i s1] into Ev.
        pose proof (Good_value _ _ _ HI0 Ev) as G1.
        destruct (IHds _ _ _ _ (Good_Inv _ _ _ HI0 G1) E) as (new & -> & G).
        exists (WCons (WValue i) new). rewrite wnodes_app_assoc. split; [reflexivity|].
        eapply Good_ext_l; [exact Hn0|exact Ha0|].
        change (WCons (WValue i) new) with (wnodes_app (WCons (WValue i) WNil) new).
        eapply Good_trans; eassumption.
      * dbind E as [n s1] into E1.
        pose proof (IHd _ _ _ HI0 E1) as G1.
        destruct (IHds _ _ _ _ (Good_Inv _ _ _ HI0 G1) E) as (new & -> & G).
        exists (WCons n new). rewrite wnodes_app_assoc. split; [reflexivity|].
        eapply Good_ext_l; [exact Hn0|exact Ha0|].
        change (WCons n new) with (wnodes_app (WCons n WNil) new).
        eapply Good_trans; eassumption.
Qed.

(* C09: the wired tree holds every flat index 0..n-1 exactly once, and flattening
   it (associated fields before their owner, factor before members) gives the
   flat order back *)
Theorem wire_flat_order T nodes s :
  wire ndesc vals links T = Ok (nodes, s) ->
  flat_nodes (x_attrs s) nodes = span 0 (x_next s).
Proof.
  unfold wire. intros E.
  assert (HI : Inv wst0) by (intros o a []).
  destruct (proj2 wire_good T _ _ _ _ HI E) as (new & -> & (_ & _ & F)). cbn [wnodes_app]. exact F.
Qed.

(* every flat index occurs exactly once in the hierarchical view *)
Corollary wire_each_index_once T nodes s :
  wire ndesc vals links T = Ok (nodes, s) ->
  NoDup (flat_nodes (x_attrs s) nodes) /\
  forall i, In i (flat_nodes (x_attrs s) nodes) <-> (i < x_next s)%N.
Proof.
  intros E. rewrite (wire_flat_order _ _ _ E). split; [apply span_NoDup|].
  intros i; split; [intros H; apply in_span in H; lia|intros H; apply span_in; lia].
Qed.

End W.
