(* TransparentC.v — compression is transparent for whole templates (C05).
   For value lists accepted by both ghost encoders (the strict compressed one of
   EncodeCG.v and RoundTrip.encode_ghost) the two ghosts — the values a reader of
   the compressed, resp. the uncompressed, data obtains — coincide, and so do the
   descriptors and links of every subset.  With the two round-trip theorems:
   decoding the compressed encoding and decoding the uncompressed encoding of the
   same values give the same result.
   Proof: the relational instance of the simulation theorem (WalkRel.v) between the
   ONE compressed walk and the uncompressed walk of subset i, for every i. *)
From PBK Require Import Base Bits BitsProofs Descr Walk Coder WalkSim WalkPS CoderSim CoderPS WalkRel
  Float53 Decode Encode DecodeProofs RoundTrip Column ColumnProofs DecodeC EncodeC EncodeCG RoundTripC.
From Coq Require Import ZifyBool ZifyNat ZifyN.

(* ======================================================================== *)
(* A. the strict ghost is the ghost, on fewer inputs                          *)
(* ======================================================================== *)
Lemma gcs_walk_gc :
  forall ms, simf (Rio (@eq gcstate)) (walk_list (io_handlers gcs_prims) io_add_link ms)
                                      (walk_list (io_handlers gc_prims) io_add_link ms).
Proof.
  apply io_walk_sim;
    cbn [gcs_prims gc_prims p_numeric p_string p_codeflag p_constant p_new_refval p_factor p_bitmap];
    unfold simp.
  - intros a b c g g2 g' <- E. unfold gcs_numeric in E.
    destruct (next_column (gce g)) as [[[col ae] e1]|]; cbn [bind] in E; [|discriminate].
    destruct (numeric_raws b c col ae) as [raws|]; cbn [bind] in E; [|discriminate].
    destruct (all_same ae col && onebit_ok a raws); cbn [negb] in E; [|discriminate]. eauto.
  - intros a g g2 g' <- E. eauto.
  - intros a b g g2 g' <- E. unfold gcs_codeflag in E.
    destruct (next_column (gce g)) as [[[col ae] e1]|]; cbn [bind] in E; [|discriminate].
    destruct (codeflag_raws col) as [raws|]; cbn [bind] in E; [|discriminate].
    destruct (onebit_ok a raws); cbn [negb] in E; [|discriminate]. eauto.
  - intros a g g2 g' <- E. eauto.
  - intros a g g2 z g' <- E. eauto.
  - intros g g2 n <- E. exact E.
  - intros a g g2 bm <- E. unfold gcs_bitmap in E.
    destruct (gc_bitmap a g) as [b|]; cbn [bind] in E; [|discriminate].
    destruct (forallb _ _); [|discriminate]. injection E as <-. reflexivity.
Qed.

Theorem strict_ghost_is_ghost T vals r :
  encode_compressed_ghost_strict T vals = Ok r -> encode_compressed_ghost T vals = Ok r.
Proof.
  unfold encode_compressed_ghost_strict, encode_compressed_ghost, run_compressed, run_template. intros E.
  destruct (walk_list (io_handlers gcs_prims) io_add_link T _) as [s1|] eqn:E1; cbn [bind] in E; [|discriminate].
  assert (HR : Rst (Rio (@eq gcstate))
                 (mkWs regs0 (mkIo [] [] (mkGC (mkE [] vals 0 0) (repeat [] (length vals)))))
                 (mkWs regs0 (mkIo [] [] (mkGC (mkE [] vals 0 0) (repeat [] (length vals))))))
    by (split; cbn; [reflexivity|repeat split]).
  destruct (gcs_walk_gc T _ _ _ HR E1) as (s2 & E2 & (Hr & Hdd & Hl & Hc)).
  rewrite E2. cbn [bind]. rewrite <- Hdd, <- Hl, <- Hc. exact E.
Qed.

(* ======================================================================== *)
(* B. inversion of the ghost primitives; an invariant of the compressed walk *)
(* ======================================================================== *)
Lemma next_column_inv e col ae e1 :
  next_column e = Ok (col, ae, e1) ->
  column_at (e_idx e) (e_vals e) = Ok col /\
  e1 = mkE (e_w e) (e_vals e) (S (e_idx e)) (e_cur e) /\
  exists v0 c, col = v0 :: c /\ ae = forallb (value_eqb v0) col.
Proof.
  unfold next_column. destruct (column_at (e_idx e) (e_vals e)) as [c|] eqn:Ec; cbn [bind]; [|discriminate].
  destruct c as [|v0 c']; [discriminate|]. intros E; injection E as <- <- <-.
  split; [reflexivity|]. split; [reflexivity|]. eauto.
Qed.

Lemma gc_numeric_inv a b c g g' : gc_numeric a b c g = Ok g' ->
  exists col ae e1 raws w, next_column (gce g) = Ok (col, ae, e1) /\ numeric_raws b c col ae = Ok raws /\
    col_dom_any a ae raws = true /\
    g' = gc_push (map (num_value b c) (num_view a raws)) g (with_w e1 w).
Proof.
  unfold gc_numeric. intros E.
  destruct (next_column (gce g)) as [[[col ae] e1]|] eqn:En; cbn [bind] in E; [|discriminate].
  destruct (numeric_raws b c col ae) as [raws|] eqn:Er; cbn [bind] in E; [|discriminate].
  destruct (col_dom_any a ae raws) eqn:Hdom; cbn [negb] in E; [|discriminate].
  destruct (enc_col_num a ae raws (e_w e1)) as [w|] eqn:Ew; cbn [bind] in E; [|discriminate].
  injection E as <-. exists col, ae, e1, raws, w. auto.
Qed.

Lemma gc_codeflag_inv a b g g' : gc_codeflag a b g = Ok g' ->
  exists col ae e1 raws w, next_column (gce g) = Ok (col, ae, e1) /\ codeflag_raws col = Ok raws /\
    col_dom_any a ae raws = true /\
    g' = gc_push (map cf_value (num_view a raws)) g (with_w e1 w).
Proof.
  unfold gc_codeflag. intros E.
  destruct (next_column (gce g)) as [[[col ae] e1]|] eqn:En; cbn [bind] in E; [|discriminate].
  destruct (codeflag_raws col) as [raws|] eqn:Er; cbn [bind] in E; [|discriminate].
  destruct (col_dom_any a ae raws) eqn:Hdom; cbn [negb andb] in E; [|discriminate].
  destruct (cf_recheck_ok b (num_view a raws)); cbn [negb] in E; [|discriminate].
  destruct (enc_col_codeflag a ae raws (e_w e1)) as [w|] eqn:Ew; cbn [bind] in E; [|discriminate].
  injection E as <-. exists col, ae, e1, raws, w. auto.
Qed.

Lemma gc_string_inv a g g' : gc_string a g = Ok g' ->
  exists col ae e1 vs w, next_column (gce g) = Ok (col, ae, e1) /\ string_vals col = Ok vs /\
    g' = gc_push (map VBytes (str_view a vs)) g (with_w e1 w).
Proof.
  unfold gc_string. intros E.
  destruct (next_column (gce g)) as [[[col ae] e1]|] eqn:En; cbn [bind] in E; [|discriminate].
  destruct (string_vals col) as [vs|] eqn:Er; cbn [bind] in E; [|discriminate].
  destruct (col_dom_str a ae vs); cbn [negb] in E; [|discriminate].
  destruct (enc_col_str a ae vs (e_w e1)) as [w|] eqn:Ew; cbn [bind] in E; [|discriminate].
  injection E as <-. exists col, ae, e1, vs, w. auto.
Qed.

Lemma gc_constant_inv a g g' : gc_constant a g = Ok g' ->
  exists col ae e1, next_column (gce g) = Ok (col, ae, e1) /\
    g' = gc_push (repeat (VInt a) (length col)) g e1.
Proof.
  unfold gc_constant. intros E.
  destruct (next_column (gce g)) as [[[col ae] e1]|] eqn:En; cbn [bind] in E; [|discriminate].
  destruct col as [|v col']; [discriminate|].
  destruct (ae && value_eq_int v a); [|discriminate]. injection E as <-. eauto.
Qed.

Lemma gc_new_refval_inv a g z g' : gc_new_refval a g = Ok (z, g') ->
  exists col e1 w, next_column (gce g) = Ok (col, true, e1) /\ hd_error col = Some (VInt z) /\
    g' = gc_push (repeat (VInt z) (length col)) g (with_w e1 w).
Proof.
  unfold gc_new_refval. intros E.
  destruct (next_column (gce g)) as [[[col ae] e1]|] eqn:En; cbn [bind] in E; [|discriminate].
  destruct col as [|v col']; [discriminate|].
  destruct v as [x| | | |]; try discriminate; try (destruct ae; discriminate).
  destruct (enc_col_refval a ae (Some x) (e_w e1)) as [w|] eqn:Ew; cbn [bind] in E; [|discriminate].
  injection E as <- <-.
  assert (ae = true) by (destruct ae; [reflexivity|discriminate]). subst ae.
  exists (VInt x :: col'), e1, w. auto.
Qed.

Definition Rinv (vals : list (list value)) (g1 g2 : gcstate) : Prop :=
  g2 = g1 /\ e_vals (gce g1) = vals /\ length (gch g1) = length vals.

Lemma Rinv_push vals g colv e' :
  Rinv vals g g -> e_vals e' = vals -> length colv = length vals ->
  Rinv vals (gc_push colv g e') (gc_push colv g e').
Proof.
  intros (_ & Hv & Hl) He Hc. split; [reflexivity|]. split; [exact He|].
  cbn. rewrite append_col_length; lia.
Qed.

Lemma gc_walk_inv vals :
  forall ms, simf (Rio (Rinv vals)) (walk_list (io_handlers gc_prims) io_add_link ms)
                                    (walk_list (io_handlers gc_prims) io_add_link ms).
Proof.
  apply io_walk_sim;
    cbn [gc_prims p_numeric p_string p_codeflag p_constant p_new_refval p_factor p_bitmap]; unfold simp.
  - intros a b c g g2 g' HR E. pose proof HR as (-> & Hv & Hl). rewrite E. eexists; split; [reflexivity|].
    destruct (gc_numeric_inv _ _ _ _ _ E) as (col & ae & e1 & raws & w & En & Er & _ & ->).
    destruct (next_column_spec _ _ _ _ En) as (_ & Hv1 & Hlen & _).
    apply Rinv_push; [exact HR|cbn; congruence|].
    rewrite map_length, num_view_length, (numeric_raws_length _ _ _ _ _ Er). congruence.
  - intros a g g2 g' HR E. pose proof HR as (-> & Hv & Hl). rewrite E. eexists; split; [reflexivity|].
    destruct (gc_string_inv _ _ _ E) as (col & ae & e1 & vs & w & En & Er & ->).
    destruct (next_column_spec _ _ _ _ En) as (_ & Hv1 & Hlen & _).
    apply Rinv_push; [exact HR|cbn; congruence|].
    rewrite map_length, str_view_length, (map_res_length _ _ _ Er). congruence.
  - intros a b g g2 g' HR E. pose proof HR as (-> & Hv & Hl). rewrite E. eexists; split; [reflexivity|].
    destruct (gc_codeflag_inv _ _ _ _ E) as (col & ae & e1 & raws & w & En & Er & _ & ->).
    destruct (next_column_spec _ _ _ _ En) as (_ & Hv1 & Hlen & _).
    apply Rinv_push; [exact HR|cbn; congruence|].
    rewrite map_length, num_view_length, (map_res_length _ _ _ Er). congruence.
  - intros a g g2 g' HR E. pose proof HR as (-> & Hv & Hl). rewrite E. eexists; split; [reflexivity|].
    destruct (gc_constant_inv _ _ _ E) as (col & ae & e1 & En & ->).
    destruct (next_column_spec _ _ _ _ En) as (_ & Hv1 & Hlen & _).
    apply Rinv_push; [exact HR|congruence|]. rewrite repeat_length. congruence.
  - intros a g g2 z g' HR E. pose proof HR as (-> & Hv & Hl). rewrite E. eexists; split; [reflexivity|].
    destruct (gc_new_refval_inv _ _ _ _ E) as (col & e1 & w & En & _ & ->).
    destruct (next_column_spec _ _ _ _ En) as (_ & Hv1 & Hlen & _).
    apply Rinv_push; [exact HR|cbn; congruence|]. rewrite repeat_length. congruence.
  - intros g g2 n (-> & _) E. exact E.
  - intros a g g2 bm (-> & _) E. exact E.
Qed.

(* ======================================================================== *)
(* C. list bookkeeping                                                        *)
(* ======================================================================== *)
Lemma column_at_nth j : forall vals col i,
  column_at j vals = Ok col -> (i < length vals)%nat -> nth_error col i = nth_error (nth i vals []) j.
Proof.
  induction vals as [|l r IH]; intros col i E Hi; cbn [length] in Hi; [lia|].
  cbn [column_at] in E. destruct (nth_error l j) as [v|] eqn:Ev; [|discriminate].
  destruct (column_at j r) as [c|] eqn:Ec; cbn [bind] in E; [|discriminate].
  injection E as <-. destruct i as [|i]; cbn [nth nth_error]; [symmetry; exact Ev|].
  apply IH; [reflexivity|lia].
Qed.

Lemma nth_append_col : forall G colv i x,
  nth_error colv i = Some x -> (i < length G)%nat ->
  nth i (append_col colv G) [] = nth i G [] ++ [x].
Proof.
  unfold append_col. induction G as [|l r IH]; intros colv i x Hx Hi; cbn [length] in Hi; [lia|].
  destruct colv as [|c cs]; [destruct i; discriminate|].
  cbn [combine map fst snd]. destruct i as [|i]; cbn [nth nth_error] in *.
  - injection Hx as <-. reflexivity.
  - apply IH; [exact Hx|lia].
Qed.

Lemma upd_nth_mid {A} (f : A -> A) pre x post :
  upd_nth (length pre) f (pre ++ x :: post) = pre ++ f x :: post.
Proof.
  unfold upd_nth. rewrite firstn_app, Nat.sub_diag, firstn_all, firstn_O, app_nil_r.
  rewrite skipn_app, skipn_all, Nat.sub_diag. reflexivity.
Qed.

Lemma nth_mid {A} (pre : list A) x post d : nth (length pre) (pre ++ x :: post) d = x.
Proof. rewrite app_nth2 by lia. rewrite Nat.sub_diag. reflexivity. Qed.

Lemma nth_error_rep {A} (x : A) n i : (i < n)%nat -> nth_error (repeat x n) i = Some x.
Proof.
  revert i. induction n as [|n IH]; intros i Hi; [lia|].
  destruct i as [|i]; [reflexivity|]. cbn [repeat nth_error]. apply IH. lia.
Qed.

Lemma nth_error_lt {A} (l : list A) i x : nth_error l i = Some x -> (i < length l)%nat.
Proof. intros H. apply nth_error_Some. congruence. Qed.

Lemma map_res_nth {A B} (f : A -> result B) : forall l l' k v,
  map_res f l = Ok l' -> nth_error l k = Some v -> exists y, f v = Ok y /\ nth_error l' k = Some y.
Proof.
  induction l as [|x r IH]; intros l' k v E Hk; [destruct k; discriminate|].
  cbn [map_res] in E. destruct (f x) as [y|] eqn:Ey; cbn [bind] in E; [|discriminate].
  destruct (map_res f r) as [ys|] eqn:Er; cbn [bind] in E; [|discriminate].
  injection E as <-. destruct k as [|k]; cbn [nth_error] in *.
  - injection Hk as <-. eauto.
  - eapply IH; [reflexivity|exact Hk].
Qed.

Lemma value_seqb_eq a b : value_seqb a b = true -> a = b.
Proof.
  destruct a, b; cbn; intros H; try discriminate; try reflexivity.
  - f_equal. lia.
  - apply andb_prop in H as [H1 H2]. f_equal; lia.
  - apply andb_prop in H as [H1 H2]. f_equal; lia.
  - f_equal. apply bytes_eqb_eq. exact H.
Qed.

(* ======================================================================== *)
(* D. what the two ghosts record for one entry                                *)
(* ======================================================================== *)
Lemma col_dom_any_cases w ae raws : col_dom_any w ae raws = true ->
  (1 <= w <= 64)%Z /\
  forall x, In (Some x) raws -> (0 <= x)%Z /\ ((2 <= w)%Z -> (x <= 2 ^ w - 2)%Z).
Proof.
  unfold col_dom_any. intros H. apply orb_prop in H as [H|H].
  - unfold col_dom_num in H. repeat (apply andb_prop in H as [H ?]).
    split; [lia|]. intros x Hx. rewrite forallb_forall in H1. specialize (H1 _ Hx). cbn in H1. lia.
  - apply andb_prop in H as [Hw H]. unfold col_dom_bit1 in H. apply andb_prop in H as [_ Hr].
    split; [lia|]. intros x Hx. rewrite forallb_forall in Hr. specialize (Hr _ Hx). cbn in Hr. lia.
Qed.

Lemma view_entry w ae raws k r :
  col_dom_any w ae raws = true -> onebit_ok w raws = true -> nth_error raws k = Some r ->
  exists o, nth_error (num_view w raws) k = Some o /\
    match r with
    | None => if (w =? 1)%Z then o = Some 1%N else o = None
    | Some x => o = Some (Z.to_N x)
    end.
Proof.
  intros Hdom Hob Hk. unfold num_view.
  destruct ((w =? 1)%Z && col_all_none raws) eqn:Hc.
  - apply andb_prop in Hc as [Hw Hn]. exists (Some 1%N).
    split; [apply nth_error_rep; exact (nth_error_lt _ _ _ Hk)|].
    assert (Hr : nth_error (repeat (@None Z) (length raws)) k = Some r)
      by (rewrite <- (all_none_repeat _ Hn); exact Hk).
    rewrite (nth_error_rep _ _ _ (nth_error_lt _ _ _ Hk)) in Hr. injection Hr as <-.
    rewrite Hw. reflexivity.
  - exists (option_map Z.to_N r). split; [unfold raw_view; apply map_nth_error; exact Hk|].
    destruct r as [x|]; [reflexivity|]. cbn [option_map].
    destruct (Z.eqb_spec w 1) as [->|]; [|reflexivity]. exfalso.
    cbn [andb] in Hc. unfold onebit_ok in Hob. rewrite Hc in Hob. cbn [Z.eqb Pos.eqb andb negb] in Hob.
    assert (Hex : existsb opt_is_none raws = true).
    { apply existsb_exists. exists None. split; [exact (nth_error_In _ _ Hk)|reflexivity]. }
    rewrite Hex in Hob. discriminate.
Qed.

Lemma missing_for_ok w raw : (1 <= w <= 64)%Z -> missing_for w = Ok raw -> raw = (2 ^ w - 1)%Z.
Proof.
  intros Hw. unfold missing_for.
  destruct (Z.ltb_spec 64 w); [lia|]. destruct (Z.ltb_spec w (-65)); [lia|].
  destruct (Z.ltb_spec w 0); [lia|]. intros E; injection E as <-. reflexivity.
Qed.

Lemma numeric_raws_nth b c col ae raws k v :
  numeric_raws b c col ae = Ok raws -> all_same ae col = true -> nth_error col k = Some v ->
  exists r, nth_error raws k = Some r /\
    match v with VNone => r = None | _ => exists x, scaled_int v b c = Ok x /\ r = Some x end.
Proof.
  unfold numeric_raws, all_same. intros E Hs Hk. destruct ae.
  - destruct col as [|v0 rest]; [destruct k; discriminate|].
    assert (v = v0).
    { rewrite forallb_forall in Hs. symmetry. apply value_seqb_eq, Hs. exact (nth_error_In _ _ Hk). }
    subst v0.
    destruct v;
      try (destruct (scaled_int _ b c) as [x|] eqn:Ex; cbn [bind] in E; [|discriminate];
           injection E as <-; exists (Some x);
           split; [exact (map_nth_error (fun _ => Some x) _ _ Hk)|eauto]).
    injection E as <-. exists None. split; [exact (map_nth_error (fun _ => None) _ _ Hk)|reflexivity].
  - destruct (map_res_nth _ _ _ _ _ E Hk) as (y & Ey & Hy). exists y. split; [exact Hy|].
    destruct v; try (destruct (scaled_int _ b c) as [x|]; cbn [bind] in Ey; [|discriminate]);
      injection Ey as <-; eauto.
Qed.

(* the numeric entry: the compressed view and the uncompressed re-reading agree *)
Lemma num_entry_agree w ae raws k r raw b c :
  col_dom_any w ae raws = true -> onebit_ok w raws = true -> nth_error raws k = Some r ->
  match r with None => raw = (2 ^ w - 1)%Z | Some x => raw = x end ->
  exists o, nth_error (num_view w raws) k = Some o /\
            num_value b c o = dec_of_raw w raw b c /\ cf_value o = dec_of_raw_cf w raw.
Proof.
  intros Hdom Hob Hk Hraw.
  destruct (view_entry _ _ _ _ _ Hdom Hob Hk) as (o & Ho & Hv). exists o. split; [exact Ho|].
  destruct (col_dom_any_cases _ _ _ Hdom) as (Hw & Hrange).
  unfold dec_of_raw, dec_of_raw_cf. destruct r as [x|].
  - subst o raw. destruct (Hrange x (nth_error_In _ _ Hk)) as (H0 & Hup).
    assert (Hm : ((1 <? w)%Z && (x =? 2 ^ w - 1)%Z) = false).
    { destruct (Z.ltb_spec 1 w); [|reflexivity]. cbn [andb]. specialize (Hup ltac:(lia)). lia. }
    rewrite Hm. cbn [num_value cf_value]. rewrite Z2N.id by lia. split; reflexivity.
  - subst raw. destruct (Z.eqb_spec w 1) as [->|Hne].
    + subst o. cbn. split; reflexivity.
    + subst o. assert (Hm : ((1 <? w)%Z && (2 ^ w - 1 =? 2 ^ w - 1)%Z) = true)
        by (rewrite Z.eqb_refl; destruct (Z.ltb_spec 1 w); [reflexivity|lia]).
      rewrite Hm. split; reflexivity.
Qed.

(* ======================================================================== *)
(* E. the compressed walk against the uncompressed walk of subset i           *)
(* ======================================================================== *)
Section Subset.
Variables (vals : list (list value)) (i : nat) (pre post : list (list value)).

(* same input, same position in it; the uncompressed ghost of subset i is the
   i-th row of the compressed ghost; the other rows (pre, post) do not move *)
Definition Rt (gc : gcstate) (gu : gstate) : Prop :=
  e_vals (gce gc) = vals /\ e_vals (ge gu) = vals /\ e_idx (ge gu) = e_idx (gce gc) /\
  e_cur (ge gu) = i /\ length pre = i /\ gh gu = pre ++ nth i (gch gc) [] :: post /\
  length (gch gc) = length vals /\ (i < length vals)%nat.

Lemma Rt_cur gc gu : Rt gc gu -> gh_cur gu = nth i (gch gc) [].
Proof.
  intros (_ & _ & _ & Hc & Hp & Hg & _). unfold gh_cur. rewrite Hc, Hg, <- Hp. apply nth_mid.
Qed.

Lemma next_both gc gu col ae e1 v e1u :
  Rt gc gu -> next_column (gce gc) = Ok (col, ae, e1) -> next_value (ge gu) = Ok (v, e1u) ->
  nth_error col i = Some v /\ e_vals e1 = vals /\ e_vals e1u = vals /\ e_idx e1u = e_idx e1 /\
  e_cur e1u = i /\ length col = length vals.
Proof.
  intros (Hvc & Hvu & Hi & Hc & Hp & Hg & Hl & Hlt) En Ev.
  destruct (next_column_inv _ _ _ _ En) as (Ecol & -> & _).
  pose proof (column_at_length _ _ _ Ecol) as Hlen.
  unfold next_value, e_cur_vals in Ev. rewrite Hc, Hvu, Hi in Ev.
  rewrite Hvc in Ecol. rewrite <- (column_at_nth _ _ _ i Ecol Hlt) in Ev.
  destruct (nth_error col i) as [v'|]; [|discriminate]. injection Ev as <- <-.
  cbn. repeat split; congruence.
Qed.

Lemma Rt_push gc gu colv x e1c e1u :
  Rt gc gu -> nth_error colv i = Some x -> length colv = length vals ->
  e_vals e1c = vals -> e_vals e1u = vals -> e_idx e1u = e_idx e1c -> e_cur e1u = i ->
  Rt (gc_push colv gc e1c) (gh_push x gu e1u).
Proof.
  intros (Hvc & Hvu & Hi & Hc & Hp & Hg & Hl & Hlt) Hx Hlc H1 H2 H3 H4.
  unfold Rt, gc_push, gh_push. cbn [gce gch ge gh].
  repeat split; try assumption.
  - rewrite Hc, Hg, <- Hp, upd_nth_mid. rewrite Hp.
    rewrite (nth_append_col _ _ _ _ Hx) by lia. reflexivity.
  - rewrite append_col_length; lia.
Qed.

Notation relt := (relp Rt).

Lemma rel_numeric a b c : relt (gcs_numeric a b c) (g_numeric a b c).
Proof.
  intros gc gu gc' gu' HR E1 E2. unfold gcs_numeric in E1.
  destruct (next_column (gce gc)) as [[[col ae] e1]|] eqn:En; cbn [bind] in E1; [|discriminate].
  destruct (numeric_raws b c col ae) as [raws|] eqn:Er; cbn [bind] in E1; [|discriminate].
  destruct (all_same ae col) eqn:Hsame; cbn [andb negb] in E1; [|discriminate].
  destruct (onebit_ok a raws) eqn:Hob; cbn [negb] in E1; [|discriminate].
  destruct (gc_numeric_inv _ _ _ _ _ E1) as (col' & ae' & e1' & raws' & w & En' & Er' & Hdom & ->).
  rewrite En in En'. injection En' as <- <- <-. rewrite Er in Er'. injection Er' as <-.
  unfold g_numeric in E2.
  destruct (64 <? a)%Z; [discriminate|].
  destruct (next_value (ge gu)) as [[v e1u]|] eqn:Ev; cbn [bind] in E2; [|discriminate].
  match type of E2 with bind ?r _ = _ => destruct r as [raw|] eqn:Eraw end; cbn [bind] in E2; [|discriminate].
  destruct (write_uint raw a (e_w e1u)) as [w'|]; cbn [bind] in E2; [|discriminate].
  injection E2 as <-.
  destruct (next_both _ _ _ _ _ _ _ HR En Ev) as (Hk & Hv1 & Hv2 & Hidx & Hcur & Hlen).
  destruct (numeric_raws_nth _ _ _ _ _ _ _ Er Hsame Hk) as (r & Hr & Hrv).
  destruct (col_dom_any_cases _ _ _ Hdom) as (Hw & _).
  assert (Hraw : match r with None => raw = (2 ^ a - 1)%Z | Some x => raw = x end).
  { destruct v; try (destruct Hrv as (x & Ex & ->); rewrite Ex in Eraw; injection Eraw as <-; reflexivity).
    subst r. exact (missing_for_ok _ _ Hw Eraw). }
  destruct (num_entry_agree _ _ _ _ _ raw b c Hdom Hob Hr Hraw) as (o & Ho & Hnv & _).
  apply Rt_push; try assumption.
  - rewrite <- Hnv. apply map_nth_error. exact Ho.
  - rewrite map_length, num_view_length, (numeric_raws_length _ _ _ _ _ Er). exact Hlen.
Qed.

Lemma rel_codeflag a b : relt (gcs_codeflag a b) (g_codeflag a b).
Proof.
  intros gc gu gc' gu' HR E1 E2. unfold gcs_codeflag in E1.
  destruct (next_column (gce gc)) as [[[col ae] e1]|] eqn:En; cbn [bind] in E1; [|discriminate].
  destruct (codeflag_raws col) as [raws|] eqn:Er; cbn [bind] in E1; [|discriminate].
  destruct (onebit_ok a raws) eqn:Hob; cbn [negb] in E1; [|discriminate].
  destruct (gc_codeflag_inv _ _ _ _ E1) as (col' & ae' & e1' & raws' & w & En' & Er' & Hdom & ->).
  rewrite En in En'. injection En' as <- <- <-. rewrite Er in Er'. injection Er' as <-.
  unfold g_codeflag in E2.
  destruct (64 <? a)%Z; [discriminate|].
  destruct (next_value (ge gu)) as [[v e1u]|] eqn:Ev; cbn [bind] in E2; [|discriminate].
  match type of E2 with bind ?r _ = _ => destruct r as [raw|] eqn:Eraw end; cbn [bind] in E2; [|discriminate].
  destruct (write_uint raw a (e_w e1u)) as [w'|]; cbn [bind] in E2; [|discriminate].
  injection E2 as <-.
  destruct (next_both _ _ _ _ _ _ _ HR En Ev) as (Hk & Hv1 & Hv2 & Hidx & Hcur & Hlen).
  destruct (map_res_nth _ _ _ _ _ Er Hk) as (r & Hrv & Hr).
  destruct (col_dom_any_cases _ _ _ Hdom) as (Hw & _).
  assert (Hraw : match r with None => raw = (2 ^ a - 1)%Z | Some x => raw = x end).
  { destruct v; try discriminate; injection Hrv as <-; try (injection Eraw as <-; reflexivity).
    exact (missing_for_ok _ _ Hw Eraw). }
  destruct (num_entry_agree _ _ _ _ _ raw 0 0 Hdom Hob Hr Hraw) as (o & Ho & _ & Hcv).
  apply Rt_push; try assumption.
  - rewrite <- Hcv. apply map_nth_error. exact Ho.
  - rewrite map_length, num_view_length, (map_res_length _ _ _ Er). exact Hlen.
Qed.

Lemma rel_string a : relt (gc_string a) (g_string a).
Proof.
  intros gc gu gc' gu' HR E1 E2.
  destruct (gc_string_inv _ _ _ E1) as (col & ae & e1 & vs & w & En & Er & ->).
  unfold g_string in E2.
  destruct (next_value (ge gu)) as [[v e1u]|] eqn:Ev; cbn [bind] in E2; [|discriminate].
  match type of E2 with bind ?r _ = _ => destruct r as [bs|] eqn:Eb end; cbn [bind] in E2; [|discriminate].
  destruct (negb (forallb is_byte bs)); [discriminate|].
  destruct (write_bytes bs a (e_w e1u)) as [w'|]; cbn [bind] in E2; [|discriminate].
  injection E2 as <-.
  destruct (next_both _ _ _ _ _ _ _ HR En Ev) as (Hk & Hv1 & Hv2 & Hidx & Hcur & Hlen).
  destruct (map_res_nth _ _ _ _ _ Er Hk) as (y & Hy & Hyk).
  apply Rt_push; try assumption.
  - assert (Hb : pad_bytes bs (Z.to_nat a) = pad_bytes (str_or_missing a y) (Z.to_nat a)).
    { destruct v; try discriminate; injection Hy as <-; injection Eb as <-; reflexivity. }
    rewrite Hb.
    apply (map_nth_error VBytes). unfold str_view.
    exact (map_nth_error (fun v => pad_bytes (str_or_missing a v) (Z.to_nat a)) _ _ Hyk).
  - rewrite map_length, str_view_length, (map_res_length _ _ _ Er). exact Hlen.
Qed.

Lemma rel_constant a : relt (gc_constant a) (g_constant a).
Proof.
  intros gc gu gc' gu' HR E1 E2.
  destruct (gc_constant_inv _ _ _ E1) as (col & ae & e1 & En & ->).
  unfold g_constant in E2.
  destruct (next_value (ge gu)) as [[v e1u]|] eqn:Ev; cbn [bind] in E2; [|discriminate].
  destruct (value_eq_int v a); [|discriminate]. injection E2 as <-.
  destruct (next_both _ _ _ _ _ _ _ HR En Ev) as (Hk & Hv1 & Hv2 & Hidx & Hcur & Hlen).
  apply Rt_push; try assumption.
  - apply nth_error_rep. rewrite Hlen. destruct HR as (_ & _ & _ & _ & _ & _ & _ & Hlt). exact Hlt.
  - rewrite repeat_length. exact Hlen.
Qed.

Lemma rel_new_refval a gc gu z1 z2 gc' gu' : Rt gc gu ->
  gc_new_refval a gc = Ok (z1, gc') -> g_new_refval a gu = Ok (z2, gu') -> z1 = z2 /\ Rt gc' gu'.
Proof.
  intros HR E1 E2.
  destruct (gc_new_refval_inv _ _ _ _ E1) as (col & e1 & w & En & Hhd & ->).
  unfold g_new_refval in E2.
  destruct (next_value (ge gu)) as [[v e1u]|] eqn:Ev; cbn [bind] in E2; [|discriminate].
  destruct v as [x| | | |]; try discriminate.
  destruct (write_int x a (e_w e1u)) as [w'|]; cbn [bind] in E2; [|discriminate].
  injection E2 as <- <-.
  destruct (next_both _ _ _ _ _ _ _ HR En Ev) as (Hk & Hv1 & Hv2 & Hidx & Hcur & Hlen).
  destruct (next_column_inv _ _ _ _ En) as (_ & _ & v0 & c0 & Hcol & Hae).
  assert (z1 = x).
  { subst col. cbn in Hhd. injection Hhd as ->. symmetry in Hae. rewrite forallb_forall in Hae.
    specialize (Hae _ (nth_error_In _ _ Hk)). cbn in Hae. lia. }
  subst x. split; [reflexivity|].
  apply Rt_push; try assumption.
  - apply nth_error_rep. rewrite Hlen. destruct HR as (_ & _ & _ & _ & _ & _ & _ & Hlt). exact Hlt.
  - rewrite repeat_length. exact Hlen.
Qed.

(* replication factors: the compressed coder takes the factor of the first
   subset after checking that all present ones are equal *)
Lemma factor_int v n : factor_of_value v = Ok n -> exists z, v = VInt z /\ (0 <= z)%Z /\ n = Z.to_N z.
Proof.
  destruct v as [z|m s|m e|b|]; cbn; try discriminate;
    try (destruct (m <? 0)%Z; discriminate).
  destruct (Z.ltb_spec z 0); [discriminate|]. intros E; injection E as <-. eauto.
Qed.

Lemma equal_present_nth vs k z0 zk :
  assert_equal_present vs = Ok tt -> nth_error vs 0 = Some (VInt z0) -> nth_error vs k = Some (VInt zk) ->
  z0 = zk.
Proof.
  unfold assert_equal_present. destruct vs as [|v0 tl]; [discriminate|].
  cbn [nth_error]. intros Ha E0 Ek. injection E0 as ->. cbn [filter] in Ha.
  destruct (forallb (value_eqb (VInt z0)) (filter _ tl)) eqn:Hf; [|discriminate].
  destruct k as [|k]; cbn [nth_error] in Ek; [injection Ek as <-; reflexivity|].
  rewrite forallb_forall in Hf.
  assert (Hin : In (VInt zk) (filter (fun v => match v with VNone => false | _ => true end) tl)).
  { apply filter_In. split; [exact (nth_error_In _ _ Ek)|reflexivity]. }
  specialize (Hf _ Hin). cbn in Hf. lia.
Qed.

Lemma factor_cols_nth G k n1 n2 :
  factor_of_cols G = Ok n1 -> (k < length G)%nat -> last_factor (nth k G []) = Ok n2 -> n1 = n2.
Proof.
  unfold factor_of_cols. intros E Hk El.
  destruct (existsb _ _); [discriminate|].
  set (vs := map (fun o => match o with Some v => v | None => VNone end) (map last_of G)) in *.
  destruct (assert_equal_present vs) as [[]|] eqn:Ha; cbn [bind] in E; [|discriminate].
  destruct vs as [|v0 tl] eqn:Hvs; [discriminate|].
  destruct (factor_int _ _ E) as (z0 & -> & H0 & ->).
  unfold last_factor in El.
  assert (Hnth : nth_error vs k = Some (match last_of (nth k G []) with Some v => v | None => VNone end)).
  { unfold vs. rewrite map_map.
    rewrite (map_nth_error (fun x => match last_of x with Some v => v | None => VNone end) k G
               (d := nth k G [])); [reflexivity|].
    apply nth_error_nth'. exact Hk. }
  unfold last_of in Hnth. destruct (rev (nth k G [])) as [|vk rest]; [discriminate|].
  destruct (factor_int _ _ El) as (zk & -> & Hk0 & ->).
  rewrite Hvs in Hnth. rewrite (equal_present_nth _ k z0 zk Ha eq_refl Hnth). reflexivity.
Qed.

Lemma rel_factor gc gu n1 n2 : Rt gc gu -> gc_factor gc = Ok n1 -> g_factor gu = Ok n2 -> n1 = n2.
Proof.
  intros HR E1 E2. unfold gc_factor in E1. unfold g_factor in E2.
  destruct (encc_factor (gce gc)) as [m|]; cbn [bind] in E1; [|discriminate].
  destruct (factor_of_cols (gch gc)) as [m'|] eqn:Ef; cbn [bind] in E1; [|discriminate].
  destruct (N.eqb_spec m m'); [|discriminate]. injection E1 as <-. subst m'.
  destruct (enc_factor (ge gu)) as [k|]; cbn [bind] in E2; [|discriminate].
  destruct (last_factor (gh_cur gu)) as [k'|] eqn:El; cbn [bind] in E2; [|discriminate].
  destruct (N.eqb_spec k k'); [|discriminate]. injection E2 as <-. subst k'.
  rewrite (Rt_cur _ _ HR) in El.
  destruct HR as (_ & _ & _ & _ & _ & _ & Hl & Hlt).
  apply (factor_cols_nth _ i _ _ Ef); [lia|exact El].
Qed.

Lemma rel_bitmap a gc gu b1 b2 : Rt gc gu -> gcs_bitmap a gc = Ok b1 -> g_bitmap a gu = Ok b2 -> b1 = b2.
Proof.
  intros HR E1 E2. unfold gcs_bitmap in E1. unfold g_bitmap in E2.
  destruct (gc_bitmap a gc) as [bm|]; cbn [bind] in E1; [|discriminate].
  destruct (forallb _ (gch gc)) eqn:Hall; [|discriminate]. injection E1 as <-.
  destruct (enc_bitmap a (ge gu)) as [m|]; cbn [bind] in E2; [|discriminate].
  destruct (list_eq_dec _ _ _) as [Heq|]; [|discriminate]. injection E2 as <-.
  rewrite Heq, (Rt_cur _ _ HR).
  destruct HR as (_ & _ & _ & _ & _ & _ & Hl & Hlt).
  rewrite forallb_forall in Hall.
  assert (Hin : In (nth i (gch gc) []) (gch gc)) by (apply nth_In; lia).
  specialize (Hall _ Hin). unfold bools_eqb in Hall.
  destruct (list_eq_dec _ _ _) as [H|]; [symmetry; exact H|discriminate].
Qed.

Theorem walk_compressed_vs_subset :
  forall ms, relf (Rio Rt) (walk_list (io_handlers gcs_prims) io_add_link ms)
                           (walk_list (io_handlers g_prims) io_add_link ms).
Proof.
  apply (io_walk_rel gcs_prims g_prims Rt);
    cbn [gcs_prims g_prims p_numeric p_string p_codeflag p_constant p_new_refval p_factor p_bitmap].
  - exact rel_numeric.
  - exact rel_string.
  - exact rel_codeflag.
  - exact rel_constant.
  - exact rel_new_refval.
  - exact rel_factor.
  - exact rel_bitmap.
Qed.

End Subset.

(* ======================================================================== *)
(* F. all subsets: the two ghosts coincide                                    *)
(* ======================================================================== *)
Lemma firstn_S_nth {A} (d : A) : forall l i, (i < length l)%nat -> firstn (S i) l = firstn i l ++ [nth i l d].
Proof.
  induction l as [|x r IH]; intros i Hi; cbn [length] in Hi; [lia|].
  destruct i as [|i]; [reflexivity|]. cbn [firstn nth app]. f_equal. apply IH. lia.
Qed.

Lemma nth_repeat_nil {A} n i : nth i (repeat (@nil A) n) [] = [].
Proof. revert i. induction n as [|n IH]; intros [|i]; cbn; auto. Qed.

Definition gc0 (vals : list (list value)) : gcstate := mkGC (mkE [] vals 0 0) (repeat [] (length vals)).

Lemma subsets_agree T vals sc :
  walk_list (io_handlers gcs_prims) io_add_link T (mkWs regs0 (mkIo [] [] (gc0 vals))) = Ok sc ->
  length (gch (io_c (w_c sc))) = length vals ->
  forall k i gu acc outs' gfin,
    (i + k = length vals)%nat -> e_vals (ge gu) = vals ->
    gh gu = firstn i (gch (io_c (w_c sc))) ++ repeat [] k ->
    run_subsets g_prims T g_switch i k gu acc = Ok (outs', gfin) ->
    outs' = acc ++ repeat (mkSubsetOut (io_dd (w_c sc)) (io_links (w_c sc))) k /\
    gh gfin = gch (io_c (w_c sc)).
Proof.
  intros Ec HlenG. set (G := gch (io_c (w_c sc))) in *.
  induction k as [|k IH]; intros i gu acc outs' gfin Hik Hv Hg E; cbn [run_subsets] in E.
  - injection E as <- <-. cbn [repeat]. rewrite app_nil_r. split; [reflexivity|].
    rewrite Hg. cbn [repeat]. rewrite app_nil_r. apply firstn_all2. lia.
  - unfold run_template in E.
    destruct (walk_list (io_handlers g_prims) io_add_link T _) as [s1|] eqn:E1; cbn [bind] in E; [|discriminate].
    assert (HR0 : Rst (Rio (Rt vals i (firstn i G) (repeat [] k)))
                      (mkWs regs0 (mkIo [] [] (gc0 vals)))
                      (mkWs regs0 (mkIo [] [] (g_switch i gu)))).
    { split; cbn [w_r w_c]; [reflexivity|]. split; [reflexivity|]. split; [reflexivity|].
      cbn [io_c]. unfold Rt, gc0, g_switch, enc_switch. cbn [gce gch ge gh e_vals e_idx e_cur].
      repeat split; try assumption; try reflexivity.
      - rewrite firstn_length. lia.
      - rewrite Hg, nth_repeat_nil. reflexivity.
      - apply repeat_length.
      - lia. }
    pose proof (walk_compressed_vs_subset vals i (firstn i G) (repeat [] k) T _ _ _ _ HR0 Ec E1)
      as (Hr & Hdd & Hl & (Hvc & Hvu & _ & _ & _ & Hgh & _ & _)).
    fold G in Hgh.
    destruct (IH (S i) (io_c (w_c s1)) (acc ++ [mkSubsetOut (io_dd (w_c s1)) (io_links (w_c s1))]) outs' gfin)
      as (Ho & Hf); [lia|exact Hvu| |exact E|].
    + rewrite Hgh, (firstn_S_nth [] G i) by lia. rewrite <- app_assoc. reflexivity.
    + split; [|exact Hf]. rewrite Ho, <- Hdd, <- Hl, <- app_assoc. reflexivity.
Qed.

Lemma strict_walk_length T vals sc :
  walk_list (io_handlers gcs_prims) io_add_link T (mkWs regs0 (mkIo [] [] (gc0 vals))) = Ok sc ->
  length (gch (io_c (w_c sc))) = length vals.
Proof.
  intros E.
  assert (HR : Rst (Rio (@eq gcstate)) (mkWs regs0 (mkIo [] [] (gc0 vals))) (mkWs regs0 (mkIo [] [] (gc0 vals))))
    by (split; cbn; [reflexivity|repeat split]).
  destruct (gcs_walk_gc T _ _ _ HR E) as (s2 & E2 & (_ & _ & _ & Hc)).
  assert (HRi : Rst (Rio (Rinv vals)) (mkWs regs0 (mkIo [] [] (gc0 vals))) (mkWs regs0 (mkIo [] [] (gc0 vals)))).
  { split; cbn; [reflexivity|]. repeat split. cbn. apply repeat_length. }
  destruct (gc_walk_inv vals T _ _ _ HRi E2) as (s3 & _ & (_ & _ & _ & (_ & _ & Hl))).
  rewrite Hc. exact Hl.
Qed.

(* the values a reader of the compressed data obtains are the values a reader
   of the uncompressed data obtains; same descriptors and links *)
Theorem ghosts_agree T vals outs w g outs' w' g' :
  encode_compressed_ghost_strict T vals = Ok (outs, w, g) ->
  encode_ghost T vals = Ok (outs', w', g') ->
  outs' = outs /\ g' = g.
Proof.
  unfold encode_compressed_ghost_strict, encode_ghost, run_compressed, run_template. intros Ec Eu.
  fold (gc0 vals) in Ec.
  destruct (walk_list (io_handlers gcs_prims) io_add_link T _) as [sc|] eqn:E1; cbn [bind] in Ec; [|discriminate].
  injection Ec as <- <- <-.
  destruct (run_subsets g_prims T g_switch 0 (length vals) _ []) as [[o gs]|] eqn:E2; cbn [bind] in Eu; [|discriminate].
  injection Eu as <- <- <-.
  pose proof (strict_walk_length _ _ _ E1) as Hlen.
  destruct (subsets_agree T vals sc E1 Hlen (length vals) 0
              (mkGE (mkE [] vals 0 0) (repeat [] (length vals))) [] _ _ eq_refl eq_refl eq_refl E2) as (Ho & Hg).
  split; [exact Ho|exact Hg].
Qed.

(* C05: compression is transparent.  For value lists accepted by both ghost
   encoders, the real encoders produce the two bit strings, and decoding either
   (followed by any further bits) yields the same descriptors, the same links and
   the same values. *)
Theorem compression_transparent T vals outs w g outs' w' g' t t' :
  encode_compressed_ghost_strict T vals = Ok (outs, w, g) ->
  encode_ghost T vals = Ok (outs', w', g') ->
  encode_compressed T vals = Ok (outs, w) /\
  encode_uncompressed T vals = Ok (outs, w') /\
  decode_compressed T (length vals) (w ++ t) = Ok (outs, g, t) /\
  decode_uncompressed T (length vals) (w' ++ t') = Ok (outs, g, t').
Proof.
  intros Ec Eu. destruct (ghosts_agree _ _ _ _ _ _ _ _ Ec Eu) as (-> & ->).
  pose proof (strict_ghost_is_ghost _ _ _ Ec) as Ec'.
  split; [exact (encode_compressed_ghost_is_encode _ _ _ _ _ Ec')|].
  split; [exact (encode_ghost_is_encode _ _ _ _ _ Eu)|].
  split; [exact (decode_encode_compressed _ _ _ _ _ t Ec')|].
  exact (decode_encode _ _ _ _ _ t' Eu).
Qed.
