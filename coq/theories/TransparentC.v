(* TransparentC.v — compression is transparent for whole templates (C05).
   For value lists accepted by both ghost encoders (the strict compressed one of
   EncodeCG.v and RoundTrip.encode_ghost) the two ghosts — the values a reader of
   the compressed, resp. the uncompressed, data obtains — coincide, and so do the
   descriptors and links of every subset.  With the two round-trip theorems:
   decoding the compressed encoding and decoding the uncompressed encoding of the
   same values give the same result.
   Proof: the relational instance of the simulation theorem (WalkRel.v) between the
   ONE compressed walk and the uncompressed walk of subset i, for every i. *)
From PBK Require Import Base Bits BitsProofs Descr Walk Coder WalkSim WalkPS CoderSim CoderPS WalkRel
  Float53 Decode Encode DecodeProofs RoundTrip Column ColumnProofs DecodeC EncodeC EncodeCG RoundTripC.
From Coq Require Import ZifyBool ZifyNat ZifyN.

(* ======================================================================== *)
(* A. the strict ghost is the ghost, on fewer inputs                          *)
(* ======================================================================== *)
Lemma gcs_walk_gc :
  forall ms, simf (Rio (@eq gcstate)) (walk_list (io_handlers gcs_prims) io_add_link ms)
                                      (walk_list (io_handlers gc_prims) io_add_link ms).
Proof.
  apply io_walk_sim;
    cbn [gcs_prims gc_prims p_numeric p_string p_codeflag p_constant p_new_refval p_factor p_bitmap];
    unfold simp.
  - intros a b c g g2 g' <- E. unfold gcs_numeric in E.
    destruct (next_column (gce g)) as [[[col ae] e1]|]; cbn [bind] in E; [|discriminate].
    destruct (numeric_raws b c col ae) as [raws|]; cbn [bind] in E; [|discriminate].
    destruct (all_same ae col && onebit_ok a raws); cbn [negb] in E; [|discriminate]. eauto.
  - intros a g g2 g' <- E. eauto.
  - intros a b g g2 g' <- E. unfold gcs_codeflag in E.
    destruct (next_column (gce g)) as [[[col ae] e1]|]; cbn [bind] in E; [|discriminate].
    destruct (codeflag_raws col) as [raws|]; cbn [bind] in E; [|discriminate].
    destruct (onebit_ok a raws); cbn [negb] in E; [|discriminate]. eauto.
  - intros a g g2 g' <- E. eauto.
  - intros a g g2 z g' <- E. eauto.
  - intros g g2 n <- E. exact E.
  - intros a g g2 bm <- E. unfold gcs_bitmap in E.
    destruct (gc_bitmap a g) as [b|]; cbn [bind] in E; [|discriminate].
    destruct (forallb _ _); [|discriminate]. injection E as <-. reflexivity.
Qed.

Theorem strict_ghost_is_ghost T vals r :
  encode_compressed_ghost_strict T vals = Ok r -> encode_compressed_ghost T vals = Ok r.
Proof.
  unfold encode_compressed_ghost_strict, encode_compressed_ghost, run_compressed, run_template. intros E.
  destruct (walk_list (io_handlers gcs_prims) io_add_link T _) as [s1|] eqn:E1; cbn [bind] in E; [|discriminate].
  assert (HR : Rst (Rio (@eq gcstate))
                 (mkWs regs0 (mkIo [] [] (mkGC (mkE [] vals 0 0) (repeat [] (length vals)))))
                 (mkWs regs0 (mkIo [] [] (mkGC (mkE [] vals 0 0) (repeat [] (length vals))))))
    by (split; cbn; [reflexivity|repeat split]).
  destruct (gcs_walk_gc T _ _ _ HR E1) as (s2 & E2 & (Hr & Hdd & Hl & Hc)).
  rewrite E2. cbn [bind]. rewrite <- Hdd, <- Hl, <- Hc. exact E.
Qed.

(* ======================================================================== *)
(* B. inversion of the ghost primitives; an invariant of the compressed walk *)
(* ======================================================================== *)
Lemma next_column_inv e col ae e1 :
  next_column e = Ok (col, ae, e1) ->
  column_at (e_idx e) (e_vals e) = Ok col /\
  e1 = mkE (e_w e) (e_vals e) (S (e_idx e)) (e_cur e) /\
  exists v0 c, col = v0 :: c /\ ae = forallb (value_eqb v0) col.
Proof.
  unfold next_column. destruct (column_at (e_idx e) (e_vals e)) as [c|] eqn:Ec; cbn [bind]; [|discriminate].
  destruct c as [|v0 c']; [discriminate|]. intros E; injection E as <- <- <-.
  split; [reflexivity|]. split; [reflexivity|]. eauto.
Qed.

Lemma gc_numeric_inv a b c g g' : gc_numeric a b c g = Ok g' ->
  exists col ae e1 raws w, next_column (gce g) = Ok (col, ae, e1) /\ numeric_raws b c col ae = Ok raws /\
    col_dom_any a ae raws = true /\
    g' = gc_push (map (num_value b c) (num_view a raws)) g (with_w e1 w).
Proof.
  unfold gc_numeric. intros E.
  destruct (next_column (gce g)) as [[[col ae] e1]|] eqn:En; cbn [bind] in E; [|discriminate].
  destruct (numeric_raws b c col ae) as [raws|] eqn:Er; cbn [bind] in E; [|discriminate].
  destruct (col_dom_any a ae raws) eqn:Hdom; cbn [negb] in E; [|discriminate].
  destruct (enc_col_num a ae raws (e_w e1)) as [w|] eqn:Ew; cbn [bind] in E; [|discriminate].
  injection E as <-. exists col, ae, e1, raws, w. auto.
Qed.

Lemma gc_codeflag_inv a b g g' : gc_codeflag a b g = Ok g' ->
  exists col ae e1 raws w, next_column (gce g) = Ok (col, ae, e1) /\ codeflag_raws col = Ok raws /\
    col_dom_any a ae raws = true /\
    g' = gc_push (map cf_value (num_view a raws)) g (with_w e1 w).
Proof.
  unfold gc_codeflag. intros E.
  destruct (next_column (gce g)) as [[[col ae] e1]|] eqn:En; cbn [bind] in E; [|discriminate].
  destruct (codeflag_raws col) as [raws|] eqn:Er; cbn [bind] in E; [|discriminate].
  destruct (col_dom_any a ae raws) eqn:Hdom; cbn [negb andb] in E; [|discriminate].
  destruct (cf_recheck_ok b (num_view a raws)); cbn [negb] in E; [|discriminate].
  destruct (enc_col_codeflag a ae raws (e_w e1)) as [w|] eqn:Ew; cbn [bind] in E; [|discriminate].
  injection E as <-. exists col, ae, e1, raws, w. auto.
Qed.

Lemma gc_string_inv a g g' : gc_string a g = Ok g' ->
  exists col ae e1 vs w, next_column (gce g) = Ok (col, ae, e1) /\ string_vals col = Ok vs /\
    g' = gc_push (map VBytes (str_view a vs)) g (with_w e1 w).
Proof.
  unfold gc_string. intros E.
  destruct (next_column (gce g)) as [[[col ae] e1]|] eqn:En; cbn [bind] in E; [|discriminate].
  destruct (string_vals col) as [vs|] eqn:Er; cbn [bind] in E; [|discriminate].
  destruct (col_dom_str a ae vs); cbn [negb] in E; [|discriminate].
  destruct (enc_col_str a ae vs (e_w e1)) as [w|] eqn:Ew; cbn [bind] in E; [|discriminate].
  injection E as <-. exists col, ae, e1, vs, w. auto.
Qed.

Lemma gc_constant_inv a g g' : gc_constant a g = Ok g' ->
  exists col ae e1, next_column (gce g) = Ok (col, ae, e1) /\
    g' = gc_push (repeat (VInt a) (length col)) g e1.
Proof.
  unfold gc_constant. intros E.
  destruct (next_column (gce g)) as [[[col ae] e1]|] eqn:En; cbn [bind] in E; [|discriminate].
  destruct col as [|v col']; [discriminate|].
  destruct (ae && value_eq_int v a); [|discriminate]. injection E as <-. eauto.
Qed.

Lemma gc_new_refval_inv a g z g' : gc_new_refval a g = Ok (z, g') ->
  exists col e1 w, next_column (gce g) = Ok (col, true, e1) /\ hd_error col = Some (VInt z) /\
    g' = gc_push (repeat (VInt z) (length col)) g (with_w e1 w).
Proof.
  unfold gc_new_refval. intros E.
  destruct (next_column (gce g)) as [[[col ae] e1]|] eqn:En; cbn [bind] in E; [|discriminate].
  destruct col as [|v col']; [discriminate|].
  destruct v as [x| | | |]; try discriminate; try (destruct ae; discriminate).
  destruct (enc_col_refval a ae (Some x) (e_w e1)) as [w|] eqn:Ew; cbn [bind] in E; [|discriminate].
  injection E as <- <-.
  assert (ae = true) by (destruct ae; [reflexivity|discriminate]). subst ae.
  exists (VInt x :: col'), e1, w. auto.
Qed.

Definition Rinv (vals : list (list value)) (g1 g2 : gcstate) : Prop :=
  g2 = g1 /\ e_vals (gce g1) = vals /\ length (gch g1) = length vals.

Lemma Rinv_push vals g colv e' :
  Rinv vals g g -> e_vals e' = vals -> length colv = length vals ->
  Rinv vals (gc_push colv g e') (gc_push colv g e').
Proof.
  intros (_ & Hv & Hl) He Hc. split; [reflexivity|]. split; [exact He|].
  cbn. rewrite append_col_length; lia.
Qed.

Lemma gc_walk_inv vals :
  forall ms, simf (Rio (Rinv vals)) (walk_list (io_handlers gc_prims) io_add_link ms)
                                    (walk_list (io_handlers gc_prims) io_add_link ms).
Proof.
  apply io_walk_sim;
    cbn [gc_prims p_numeric p_string p_codeflag p_constant p_new_refval p_factor p_bitmap]; unfold simp.
  - intros a b c g g2 g' HR E. pose proof HR as (-> & Hv & Hl). rewrite E. eexists; split; [reflexivity|].
    destruct (gc_numeric_inv _ _ _ _ _ E) as (col & ae & e1 & raws & w & En & Er & _ & ->).
    destruct (next_column_spec _ _ _ _ En) as (_ & Hv1 & Hlen & _).
    apply Rinv_push; [exact HR|cbn; congruence|].
    rewrite map_length, num_view_length, (numeric_raws_length _ _ _ _ _ Er). congruence.
  - intros a g g2 g' HR E. pose proof HR as (-> & Hv & Hl). rewrite E. eexists; split; [reflexivity|].
    destruct (gc_string_inv _ _ _ E) as (col & ae & e1 & vs & w & En & Er & ->).
    destruct (next_column_spec _ _ _ _ En) as (_ & Hv1 & Hlen & _).
    apply Rinv_push; [exact HR|cbn; congruence|].
    rewrite map_length, str_view_length, (map_res_length _ _ _ Er). congruence.
  - intros a b g g2 g' HR E. pose proof HR as (-> & Hv & Hl). rewrite E. eexists; split; [reflexivity|].
    destruct (gc_codeflag_inv _ _ _ _ E) as (col & ae & e1 & raws & w & En & Er & _ & ->).
    destruct (next_column_spec _ _ _ _ En) as (_ & Hv1 & Hlen & _).
    apply Rinv_push; [exact HR|cbn; congruence|].
    rewrite map_length, num_view_length, (map_res_length _ _ _ Er). congruence.
  - intros a g g2 g' HR E. pose proof HR as (-> & Hv & Hl). rewrite E. eexists; split; [reflexivity|].
    destruct (gc_constant_inv _ _ _ E) as (col & ae & e1 & En & ->).
    destruct (next_column_spec _ _ _ _ En) as (_ & Hv1 & Hlen & _).
    apply Rinv_push; [exact HR|congruence|]. rewrite repeat_length. congruence.
  - intros a g g2 z g' HR E. pose proof HR as (-> & Hv & Hl). rewrite E. eexists; split; [reflexivity|].
    destruct (gc_new_refval_inv _ _ _ _ E) as (col & e1 & w & En & _ & ->).
    destruct (next_column_spec _ _ _ _ En) as (_ & Hv1 & Hlen & _).
    apply Rinv_push; [exact HR|cbn; congruence|]. rewrite repeat_length. congruence.
  - intros g g2 n (-> & _) E. exact E.
  - intros a g g2 bm (-> & _) E. exact E.
Qed.
