(* PathGrammar.v — the documented grammar of data-query strings (docs/internals.rst,
   "Query the Template Data"; decision in DESIGN.md section 6, C15), written
   independently of the parser's state machine, twice:

   * [Query w p]  an inductive relation "the white-space-free string w is a query
                  and denotes the path p" (the specification);
   * [gparse w]   an LL(1) recursive-descent recogniser for the same grammar
                  (executable: used by the bounded sweep and by the check).

     query ::= '@' slice sep1 ID [slice] comp*         sep1 ::= '/' | '>'
             | sep1 ID [slice] comp*
             | ID0 [slice] comp*                       (separator '>' implied)
     comp  ::= sep ID [slice]                          sep ::= '/' | '.' | '>'
     slice ::= '[' INT ']' | '[' [INT] ':' [INT] ']' | '[' [INT] ':' [INT] ':' [INT] ']'
     ID    ::= one or more characters that are neither blank nor one of @ [ ] : / . >
     ID0   ::= an ID starting with a digit or an upper-case letter
     INT   ::= what Python's int() accepts (PathParser.py_int)

   Meaning: no '@' part = all subsets = slice(None,None,None); no slice = all
   occurrences; '[k]' = k for k >= 0, '[-1]' = slice(-1,None), '[-k]' = slice(-k,-k+1);
   two/three parts = Python's slice(a,b[,c]).  White space is removed beforehand. *)
From PBK Require Import Base PathParser.

Definition is_struct (c : char) : bool :=
  ((c =? ch_at) || (c =? ch_lb) || (c =? ch_rb) || (c =? ch_colon)
   || (c =? ch_slash) || (c =? ch_dot) || (c =? ch_gt))%N.
Definition idchar (c : char) : bool := negb (is_ws c) && negb (is_struct c).
Definition is_sep (c : char) : bool := ((c =? ch_slash) || (c =? ch_dot) || (c =? ch_gt))%N.
Definition is_sep1 (c : char) : bool := ((c =? ch_slash) || (c =? ch_gt))%N.
Definition id0_start (c : char) : bool := is_digit c || is_upper c.

(* the value of the index list of a slice *)
Definition slice_of_int (k : Z) : slc :=
  if (0 <=? k)%Z then SInt k
  else if (k =? -1)%Z then SSlice (Some k) None None
  else SSlice (Some k) (Some (k + 1)%Z) None.

(* ---- the relation ---------------------------------------------------------- *)
Definition IdStr (l : list char) : Prop := l <> [] /\ forallb idchar l = true.

(* an optional integer *)
Inductive OInt : list char -> option Z -> Prop :=
  | OI_none : OInt [] None
  | OI_some t k : forallb idchar t = true -> py_int t = Some k -> OInt t (Some k).

Inductive SliceStr : list char -> slc -> Prop :=
  | SS_1 t k : OInt t (Some k) ->
      SliceStr ([ch_lb] ++ t ++ [ch_rb]) (slice_of_int k)
  | SS_2 ta a tb b : OInt ta a -> OInt tb b ->
      SliceStr ([ch_lb] ++ ta ++ [ch_colon] ++ tb ++ [ch_rb]) (SSlice a b None)
  | SS_3 ta a tb b tc c : OInt ta a -> OInt tb b -> OInt tc c ->
      SliceStr ([ch_lb] ++ ta ++ [ch_colon] ++ tb ++ [ch_colon] ++ tc ++ [ch_rb]) (SSlice a b c).

Inductive OSlice : list char -> slc -> Prop :=
  | OS_none : OSlice [] slice_all
  | OS_some l s : SliceStr l s -> OSlice l s.

Inductive Comps : list char -> list comp -> Prop :=
  | C_nil : Comps [] []
  | C_cons sep id sl s rest cs :
      is_sep sep = true -> IdStr id -> OSlice sl s -> Comps rest cs ->
      Comps (sep :: id ++ sl ++ rest) (mkComp sep id s :: cs).

Inductive Query : list char -> path -> Prop :=
  | Q_subset sl s w c0 cs :
      SliceStr sl s -> Comps w (c0 :: cs) -> is_sep1 (c_sep c0) = true ->
      Query (ch_at :: sl ++ w) (mkPath (Some s) (c0 :: cs))
  | Q_sep w c0 cs :
      Comps w (c0 :: cs) -> is_sep1 (c_sep c0) = true ->
      Query w (mkPath (Some slice_all) (c0 :: cs))
  | Q_bare c w cs :
      id0_start c = true -> Comps (ch_gt :: c :: w) cs ->
      Query (c :: w) (mkPath (Some slice_all) cs).

(* ---- the recogniser -------------------------------------------------------- *)
Fixpoint span (f : char -> bool) (l : list char) : list char * list char :=
  match l with
  | [] => ([], [])
  | c :: r => if f c then let '(a, b) := span f r in (c :: a, b) else ([], l)
  end.

(* [INT] : the longest run of ID characters, empty or an integer *)
Definition g_oint (l : list char) : option (option Z * list char) :=
  let '(t, r) := span idchar l in
  match t with
  | [] => Some (None, r)
  | _ => match py_int t with Some k => Some (Some k, r) | None => None end
  end.

(* after '[' : the index list (1..3 entries, a single one is an integer) and the rest *)
Definition g_slice (l : list char) : option (list (option Z) * list char) :=
  match g_oint l with
  | None => None
  | Some (a, r) =>
    match r with
    | c :: r' =>
      if (c =? ch_rb)%N then (match a with Some _ => Some ([a], r') | None => None end)
      else if (c =? ch_colon)%N then
        match g_oint r' with
        | None => None
        | Some (b, r2) =>
          match r2 with
          | c2 :: r2' =>
            if (c2 =? ch_rb)%N then Some ([a; b], r2')
            else if (c2 =? ch_colon)%N then
              match g_oint r2' with
              | None => None
              | Some (c3, r3) =>
                match r3 with
                | c4 :: r3' => if (c4 =? ch_rb)%N then Some ([a; b; c3], r3') else None
                | [] => None
                end
              end
            else None
          | [] => None
          end
        end
      else None
    | [] => None
    end
  end.

Definition slice_of_elems (es : list (option Z)) : option slc :=
  match es with
  | [Some k] => Some (slice_of_int k)
  | [a; b] => Some (SSlice a b None)
  | [a; b; c] => Some (SSlice a b c)
  | _ => None
  end.

(* slice, after its '[' *)
Definition g_slice_val (l : list char) : option (slc * list char) :=
  match g_slice l with
  | Some (es, r') => match slice_of_elems es with Some s => Some (s, r') | None => None end
  | None => None
  end.

(* [slice] *)
Definition g_oslice (l : list char) : option (slc * list char) :=
  match l with
  | c :: r => if (c =? ch_lb)%N then g_slice_val r else Some (slice_all, l)
  | [] => Some (slice_all, [])
  end.

(* comp* ; every component consumes at least its separator, so fuel > length
   never runs out (PathProofs.g_comps_fuel) *)
Fixpoint g_comps (fuel : nat) (l : list char) : option (list comp) :=
  match l with
  | [] => Some []
  | c :: r =>
    match fuel with
    | O => None
    | S f =>
      if is_sep c then
        let '(id, r1) := span idchar r in
        match id with
        | [] => None
        | _ =>
          match g_oslice r1 with
          | None => None
          | Some (s, r2) =>
            match g_comps f r2 with
            | None => None
            | Some cs => Some (mkComp c id s :: cs)
            end
          end
        end
      else None
    end
  end.

Definition gparse (w : list char) : option path :=
  match w with
  | [] => None
  | c :: r =>
    if (c =? ch_at)%N then
      match r with
      | c1 :: r1 =>
        if (c1 =? ch_lb)%N then
          match g_slice_val r1 with
          | Some (s, r2) =>
            match r2 with
            | c2 :: _ =>
              if is_sep1 c2 then
                match g_comps (S (length r2)) r2 with
                | Some cs => Some (mkPath (Some s) cs)
                | None => None
                end
              else None
            | [] => None
            end
          | None => None
          end
        else None
      | [] => None
      end
    else if is_sep1 c then
      match g_comps (S (length w)) w with
      | Some cs => Some (mkPath (Some slice_all) cs)
      | None => None
      end
    else if id0_start c then
      match g_comps (S (S (length w))) (ch_gt :: w) with
      | Some cs => Some (mkPath (Some slice_all) cs)
      | None => None
      end
    else None
  end.

(* the grammar applied to a raw string: white space is ignored *)
Definition grammar (s : list char) : option path := gparse (strip_ws s).

(* ---- decidable equality of results, for the bounded sweeps ----------------- *)
Definition oz_eqb (a b : option Z) : bool :=
  match a, b with
  | None, None => true
  | Some x, Some y => (x =? y)%Z
  | _, _ => false
  end.
Definition slc_eqb (a b : slc) : bool :=
  match a, b with
  | SInt x, SInt y => (x =? y)%Z
  | SSlice a1 b1 c1, SSlice a2 b2 c2 => oz_eqb a1 a2 && oz_eqb b1 b2 && oz_eqb c1 c2
  | _, _ => false
  end.
Fixpoint chars_eqb (a b : list char) : bool :=
  match a, b with
  | [], [] => true
  | x :: a', y :: b' => (x =? y)%N && chars_eqb a' b'
  | _, _ => false
  end.
Definition comp_eqb (a b : comp) : bool :=
  (c_sep a =? c_sep b)%N && chars_eqb (c_id a) (c_id b) && slc_eqb (c_slice a) (c_slice b).
Fixpoint comps_eqb (a b : list comp) : bool :=
  match a, b with
  | [], [] => true
  | x :: a', y :: b' => comp_eqb x y && comps_eqb a' b'
  | _, _ => false
  end.
Definition path_eqb (a b : path) : bool :=
  (match p_subset a, p_subset b with
   | None, None => true
   | Some x, Some y => slc_eqb x y
   | _, _ => false
   end) && comps_eqb (p_comps a) (p_comps b).

(* "the parser's answer on s is exactly the grammar's": accepted with the same
   path, or rejected with the path-parsing error *)
Definition agrees (s : list char) : bool :=
  match parse s, grammar s with
  | Ok p, Some q => path_eqb p q
  | Err e, None => match e with EPathExpr => true | _ => false end
  | _, _ => false
  end.

(* printing an accepted path and parsing the printout gives the same path *)
Definition reparses (s : list char) : bool :=
  match parse s with
  | Ok p => match parse (to_string p) with Ok q => path_eqb p q | Err _ => false end
  | Err _ => true
  end.

(* all strings of length exactly n over an alphabet *)
Fixpoint strings (alphabet : list char) (n : nat) : list (list char) :=
  match n with
  | O => [[]]
  | S k => flat_map (fun w => map (fun c => c :: w) alphabet) (strings alphabet k)
  end.

(* @ [ ] : / . > - 0 1 A ' ' *)
Definition alphabet12 : list char := [64; 91; 93; 58; 47; 46; 62; 45; 48; 49; 65; 32]%N.
