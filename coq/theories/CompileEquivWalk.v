(* CompileEquivWalk.v — the pieces of the walker, compile-time (checking
   compiler) against interpreted run / compiled run. *)
From Coq Require Import ZifyBool ZifyNat ZifyN.
From PBK Require Import Base Descr Walk Coder Compile CompileChk CompileEquivBase CompileEquivInv.

Ltac unfold_consts :=
  unfold BITMAP_NA, BITMAP_INDICATOR, BITMAP_WAITING_FOR_BIT, BITMAP_BIT_COUNTING,
         QA_INFO_NA, QA_INFO_WAITING, QA_INFO_PROCESSING in *.

Ltac slia := rsimp; unfold_consts; lia.

Ltac invr_solve HR :=
  destruct HR; constructor; unfold_consts; rsimp; auto; try (intros; (congruence || lia)).

Ltac keeps := intros r; repeat split; reflexivity.

(* closes [Inv sC' (upd_r F sI) (upd_r G sE)] after a walker-level register update *)
Ltac inv_close Hc HR HN :=
  split; [exact Hc|split; [rsimp; invr_solve HR
                          |rsimp; intros X;
                           first [apply HN; exact X
                                 |apply NoC33_upd; try reflexivity; apply HN; exact X]]].

Section WalkEq.
Context {C : Type} (P : prims C) (nzf : bool).
Notation st := (ws (io C)).
Notation H := (io_handlers P).
Notation HC := (chk_handlers nzf).
Notation simc := (simc P).
Notation simc_at := (simc_at P).
Notation Inv := (Inv (C:=C)).

Lemma simc_at_pre_upd (f : regs -> regs) sC gC gI :
  keeps_refs f ->
  (StatInv (w_r sC) (ck_ndef (w_c sC)) ->
   StatInv (f (w_r sC)) (ck_ndef (w_c sC)) /\
   forall rI rE, InvR (w_r sC) (ck_ndef (w_c sC)) rI rE -> InvR (f (w_r sC)) (ck_ndef (w_c sC)) (f rI) rE) ->
  simc gC gI -> simc_at sC (gC (upd_r f sC)) (fun s => gI (upd_r f s)).
Proof.
  intros Hk H1 Hg.
  exact (simc_at_bind P sC (Ok (upd_r f sC)) gC (fun s => Ok (upd_r f s)) gI (simc_at_upd P f sC Hk H1) Hg).
Qed.

Lemma simc_at_post_upd (f : regs -> regs) sC resC gI :
  keeps_refs f ->
  (forall rC nd, StatInv rC nd -> StatInv (f rC) nd /\
     forall rI rE, InvR rC nd rI rE -> InvR (f rC) nd (f rI) rE) ->
  simc_at sC resC gI ->
  simc_at sC (bind resC (fun s => Ok (upd_r f s))) (fun s => bind (gI s) (fun s' => Ok (upd_r f s'))).
Proof.
  intros Hk H1 Hg. apply simc_at_bind; [exact Hg|].
  intros sC1. apply simc_at_upd; [exact Hk|]. apply H1.
Qed.

(* ---- recorded handler calls --------------------------------------------------- *)
Lemma numeric_simc sC dd a b c : simc_at sC (h_numeric HC dd a b c sC) (h_numeric H dd a b c).
Proof.
  cbn [chk_handlers h_numeric]. apply simc_at_emit; [reflexivity|].
  cbn [io_handlers h_numeric]. apply lift_agree. reflexivity.
Qed.

Lemma string_simc sC dd a : simc_at sC (h_string HC dd a sC) (h_string H dd a).
Proof.
  cbn [chk_handlers h_string]. apply simc_at_emit; [reflexivity|].
  cbn [io_handlers h_string]. apply lift_agree. reflexivity.
Qed.

Lemma codeflag_simc sC dd a b : simc_at sC (h_codeflag HC dd a b sC) (h_codeflag H dd a b).
Proof.
  cbn [chk_handlers h_codeflag]. apply simc_at_emit; [reflexivity|].
  cbn [io_handlers h_codeflag]. apply lift_agree. reflexivity.
Qed.

Lemma constant_simc sC dd a : simc_at sC (h_constant HC dd a sC) (h_constant H dd a).
Proof.
  cbn [chk_handlers h_constant]. apply simc_at_emit; [reflexivity|].
  cbn [io_handlers h_constant]. apply lift_agree. reflexivity.
Qed.

Lemma numeric_nr_simc sC dd a b c :
  refval_lookup (dd_id dd) (r_new_refvals (w_r sC)) <> None ->
  simc_at sC (h_numeric_new_refval HC dd a b c sC) (h_numeric_new_refval H dd a b c).
Proof.
  intros Hk. cbn [chk_handlers h_numeric_new_refval]. apply simc_at_emit; [reflexivity|].
  apply numeric_nr_agree. exact Hk.
Qed.

Lemma add_link_simc : simc (h_add_bitmap_link HC) (h_add_bitmap_link H).
Proof.
  intros sC. cbn [chk_handlers h_add_bitmap_link]. apply simc_at_emit; [reflexivity|apply add_link_agree].
Qed.

(* ---- process_associated_field / process_element_descriptor ------------------- *)
Lemma do_assoc_simc id : simc (do_assoc HC id) (do_assoc H id).
Proof.
  intros sC. unfold do_assoc at 1. unfold do_assoc_r. cbv zeta.
  eapply simc_at_extI; [|apply codeflag_simc].
  intros sI sE (_ & HR & _). unfold do_assoc, do_assoc_r. cbv zeta. rewrite (sa_assoc _ _ _ _ HR). reflexivity.
Qed.

Lemma elem_assoc_simc e : simc (elem_assoc HC e) (elem_assoc H e).
Proof.
  intros sC. unfold elem_assoc at 1. unfold elem_assoc_r.
  destruct (r_assoc (w_r sC)) as [|a l] eqn:Ea.
  - eapply simc_at_extI; [|apply simc_at_ret].
    intros sI sE (_ & HR & _). unfold elem_assoc, elem_assoc_r. rewrite (sa_assoc _ _ _ _ HR), Ea. reflexivity.
  - destruct (desc_X (e_id e) =? 31)%N eqn:EX.
    + eapply simc_at_extI; [|apply simc_at_ret].
      intros sI sE (_ & HR & _). unfold elem_assoc, elem_assoc_r. rewrite (sa_assoc _ _ _ _ HR), Ea, EX. reflexivity.
    + eapply simc_at_extI; [|apply do_assoc_simc].
      intros sI sE (_ & HR & _). unfold elem_assoc, elem_assoc_r. rewrite (sa_assoc _ _ _ _ HR), Ea, EX. reflexivity.
Qed.

Lemma elem_qa_simc e : simc (elem_qa HC e) (elem_qa H e).
Proof.
  intros sC. unfold elem_qa at 1. unfold elem_qa_r.
  destruct (desc_X (e_id e) =? 33)%N eqn:EX.
  - destruct (r_qa (w_r sC) =? QA_INFO_WAITING)%N eqn:E1.
    { eapply simc_at_extI.
      2:{ apply (simc_at_pre_upd (set_qa QA_INFO_PROCESSING) sC (h_add_bitmap_link HC) (h_add_bitmap_link H));
          [keeps|intros HS; split; [exact HS|intros rI rE HR; invr_solve HR]|apply add_link_simc]. }
      intros sI sE (_ & HR & _). unfold elem_qa, elem_qa_r. rewrite (sa_qa _ _ _ _ HR), EX, E1. reflexivity. }
    destruct (r_qa (w_r sC) =? QA_INFO_PROCESSING)%N eqn:E2.
    { eapply simc_at_extI; [|apply add_link_simc].
      intros sI sE (_ & HR & _). unfold elem_qa, elem_qa_r. rewrite (sa_qa _ _ _ _ HR), EX, E1, E2. reflexivity. }
    eapply simc_at_extI; [|apply simc_at_ret].
    intros sI sE (_ & HR & _). unfold elem_qa, elem_qa_r. rewrite (sa_qa _ _ _ _ HR), EX, E1, E2. reflexivity.
  - destruct (r_qa (w_r sC) =? QA_INFO_PROCESSING)%N eqn:E2.
    { eapply simc_at_extI.
      2:{ apply (simc_at_upd P (set_qa QA_INFO_NA) sC); [keeps|]. intros HS; split; [exact HS|intros rI rE HR; invr_solve HR]. }
      intros sI sE (_ & HR & _). unfold elem_qa, elem_qa_r. rewrite (sa_qa _ _ _ _ HR), EX, E2. reflexivity. }
    eapply simc_at_extI; [|apply simc_at_ret].
    intros sI sE (_ & HR & _). unfold elem_qa, elem_qa_r. rewrite (sa_qa _ _ _ _ HR), EX, E2. reflexivity.
Qed.

Lemma elem_body_simc dd e : dd_id dd = e_id e -> simc (elem_body HC dd e) (elem_body H dd e).
Proof.
  intros Hdd sC. unfold elem_body at 1. unfold elem_body_r. cbv zeta.
  destruct (kind_of_unit (e_unit e)) eqn:Ek.
  - eapply simc_at_extI; [|apply string_simc].
    intros sI sE (_ & HR & _). unfold elem_body, elem_body_r. cbv zeta. rewrite Ek, (sa_new_nbytes _ _ _ _ HR). reflexivity.
  - eapply simc_at_extI; [|apply codeflag_simc].
    intros sI sE (_ & HR & _). unfold elem_body, elem_body_r. rewrite Ek. reflexivity.
  - destruct (refval_lookup (e_id e) (r_new_refvals (w_r sC))) as [v|] eqn:El.
    + eapply simc_at_extI; [|apply numeric_nr_simc; rewrite Hdd, El; discriminate].
      intros sI sE (_ & HR & _). unfold elem_body, elem_body_r. cbv zeta.
      rewrite Ek, (sa_nbits_offset _ _ _ _ HR), (sa_scale_offset _ _ _ _ HR), (sa_bsr _ _ _ _ HR).
      destruct (refval_lookup (e_id e) (r_new_refvals (w_r sI))) eqn:ElI; [reflexivity|].
      exfalso. pose proof (lookup_keys _ _ _ (sa_keys _ _ _ _ HR) ElI) as X. congruence.
    + eapply simc_at_extI; [|apply numeric_simc].
      intros sI sE (_ & HR & _). unfold elem_body, elem_body_r. cbv zeta.
      rewrite Ek, (sa_nbits_offset _ _ _ _ HR), (sa_scale_offset _ _ _ _ HR), (sa_bsr _ _ _ _ HR).
      rewrite (lookup_keys _ _ _ (eq_sym (sa_keys _ _ _ _ HR)) El). reflexivity.
Qed.

Lemma do_element_simc dd e : dd_id dd = e_id e -> simc (do_element HC dd e) (do_element H dd e).
Proof.
  intros Hdd sC. unfold do_element.
  apply simc_at_bind; [apply elem_assoc_simc|]. intros sC1.
  apply simc_at_bind; [apply elem_qa_simc|]. apply elem_body_simc. exact Hdd.
Qed.

(* ---- process_bitmap_definition, with the compiler's n_031031 bookkeeping ------ *)
Lemma bitmap_def_simc id : simc (h_bitmap_def_wrap HC (bitmap_def_step HC id)) (bitmap_def_step H id).
Proof.
  intros sC sC' E HS. cbn [chk_handlers h_bitmap_def_wrap] in E. cbv zeta in E.
  unfold bitmap_def_step at 1 in E. unfold bitmap_def_step_r in E.
  destruct HS as [HS HL]. unfold BmInv in HS. unfold_consts.
  destruct (r_bm_state (w_r sC) =? 1)%N eqn:E1.
  { (* INDICATOR *)
    destruct (id =? 236000)%N eqn:Ei.
    { cbn [bind] in E. rsimp_in E. cbn [Z.eqb] in E. unfold cemit in E. injection E as <-.
      exists (SCons SReset SNil). split; [reflexivity|]. split; [split; [right; right; left; split; reflexivity|exact HL]|].
      intros sI sE (Hc & HR & HN). rewrite exec_stmts_one. cbn [exec_stmt].
      unfold bitmap_def_step, bitmap_def_step_r. rewrite (sa_bm_state _ _ _ _ HR). unfold_consts. rewrite E1, Ei.
      cbn [agree]. inv_close Hc HR HN. }
    destruct (id =? 237000)%N eqn:Ej.
    { cbn [bind] in E. rsimp_in E.
      destruct (r_n031031 (w_r sC) =? 0)%Z eqn:En.
      - unfold cemit in E. injection E as <-.
        exists (SCons SReset SNil). split; [reflexivity|]. split; [split; [left; reflexivity|exact HL]|].
        intros sI sE (Hc & HR & HN). rewrite exec_stmts_one. cbn [exec_stmt].
        unfold bitmap_def_step, bitmap_def_step_r. rewrite (sa_bm_state _ _ _ _ HR). unfold_consts. rewrite E1, Ei, Ej.
        cbn [agree]. inv_close Hc HR HN.
      - destruct (r_n031031 (w_r sC) =? r_n031031 (w_r sC) + 1)%Z eqn:En1; [lia|].
        rewrite Z.eqb_refl in E. injection E as <-.
        exists SNil. split; [symmetry; apply stmts_app_nil_r|]. split; [split; [left; reflexivity|exact HL]|].
        intros sI sE (Hc & HR & HN). cbn [exec_stmts].
        unfold bitmap_def_step, bitmap_def_step_r. rewrite (sa_bm_state _ _ _ _ HR). unfold_consts. rewrite E1, Ei, Ej.
        cbn [agree]. inv_close Hc HR HN. }
    cbn [bind] in E. rsimp_in E. cbn [Z.eqb] in E. unfold cemit in E. injection E as <-.
    exists (SCons SReset SNil). split; [reflexivity|]. split; [split; [right; right; left; split; reflexivity|exact HL]|].
    intros sI sE (Hc & HR & HN). rewrite exec_stmts_one. cbn [exec_stmt].
    unfold bitmap_def_step, bitmap_def_step_r. rewrite (sa_bm_state _ _ _ _ HR). unfold_consts. rewrite E1, Ei, Ej.
    cbn [agree]. inv_close Hc HR HN. }
  destruct (r_bm_state (w_r sC) =? 4)%N eqn:E4.
  { (* WAITING: the compile-time count is 0 *)
    assert (Hn : r_n031031 (w_r sC) = 0%Z) by lia.
    destruct (id =? 31031)%N eqn:Ei.
    { cbn [bind] in E. rsimp_in E. rewrite Hn in E. cbn [Z.add Z.eqb Pos.eqb] in E.
      unfold cemit in E. injection E as <-.
      exists (SCons SIncr SNil). split; [reflexivity|]. split; [split; [right; right; right; split; slia|exact HL]|].
      intros sI sE (Hc & HR & HN). rewrite exec_stmts_one. cbn [exec_stmt].
      unfold bitmap_def_step, bitmap_def_step_r. rewrite (sa_bm_state _ _ _ _ HR). unfold_consts. rewrite E1, E4, Ei.
      cbn [agree].
      assert (HW : r_n031031 (w_r sI) = 0%Z /\ r_n031031 (w_r sE) = 0%Z) by (apply (dy_wait _ _ _ _ HR); unfold_consts; lia).
      inv_close Hc HR HN. }
    cbn [bind] in E. rewrite Hn in E. cbn [Z.eqb] in E. unfold cemit in E. injection E as <-.
    exists (SCons SReset SNil). split; [reflexivity|]. split; [split; [right; right; left; split; [slia|exact Hn]|exact HL]|].
    intros sI sE (Hc & HR & HN). rewrite exec_stmts_one. cbn [exec_stmt].
    unfold bitmap_def_step, bitmap_def_step_r. rewrite (sa_bm_state _ _ _ _ HR). unfold_consts. rewrite E1, E4, Ei.
    cbn [agree].
    assert (HW : r_n031031 (w_r sI) = 0%Z /\ r_n031031 (w_r sE) = 0%Z) by (apply (dy_wait _ _ _ _ HR); unfold_consts; lia).
    inv_close Hc HR HN. }
  destruct (r_bm_state (w_r sC) =? 5)%N eqn:E5.
  { (* COUNTING: the compile-time count is at least 1 *)
    assert (Hn : (1 <= r_n031031 (w_r sC))%Z) by lia.
    destruct (id =? 31031)%N eqn:Ei.
    { cbn [bind] in E. rsimp_in E.
      destruct (r_n031031 (w_r sC) + 1 =? 0)%Z eqn:En0; [lia|]. rewrite Z.eqb_refl in E.
      unfold cemit in E. injection E as <-.
      exists (SCons SIncr SNil). split; [reflexivity|]. split; [split; [right; right; right; split; slia|exact HL]|].
      intros sI sE (Hc & HR & HN). rewrite exec_stmts_one. cbn [exec_stmt].
      unfold bitmap_def_step, bitmap_def_step_r. rewrite (sa_bm_state _ _ _ _ HR). unfold_consts. rewrite E1, E4, E5, Ei.
      cbn [agree].
      assert (HW : r_n031031 (w_r sE) = r_n031031 (w_r sI)) by (apply (dy_count _ _ _ _ HR); unfold_consts; lia).
      inv_close Hc HR HN. }
    cbn [chk_handlers h_define_bitmap] in E. unfold cemit at 1 in E. cbn [bind] in E. rsimp_in E.
    destruct (r_n031031 (w_r sC) =? 0)%Z eqn:En0; [lia|].
    destruct (r_n031031 (w_r sC) =? r_n031031 (w_r sC) + 1)%Z eqn:En1; [lia|].
    rewrite Z.eqb_refl in E. injection E as <-.
    exists (SCons (SDefineBitmap (r_reuse (w_r sC))) SNil). split; [reflexivity|]. split; [split; [left; reflexivity|exact HL]|].
    intros sI sE HI. pose proof HI as (Hc & HR & HN). rewrite exec_stmts_one. cbn [exec_stmt].
    unfold bitmap_def_step, bitmap_def_step_r. rewrite (sa_bm_state _ _ _ _ HR). unfold_consts. rewrite E1, E4, E5, Ei.
    rewrite (sa_reuse _ _ _ _ HR).
    assert (HD : agree (Inv (cemit_st (SDefineBitmap (r_reuse (w_r sC))) sC))
                       (h_define_bitmap H (r_reuse (w_r sC)) sI) (h_define_bitmap H (r_reuse (w_r sC)) sE)).
    { apply define_bitmap_agree; [unfold_consts; lia|exact HI]. }
    destruct (h_define_bitmap H (r_reuse (w_r sC)) sI) as [sI1|e1], (h_define_bitmap H (r_reuse (w_r sC)) sE) as [sE1|e2];
      cbn [agree bind] in HD |- *; try contradiction; [|exact HD].
    destruct HD as (Hc1 & HR1 & HN1). inv_close Hc1 HR1 HN1. }
  (* not in a definition: the step does nothing *)
  cbn [bind] in E.
  assert (Hb : r_bm_state (w_r sC) = 0%N) by lia.
  destruct (r_n031031 (w_r sC) =? 0)%Z eqn:En.
  - unfold cemit in E. injection E as <-.
    exists (SCons SReset SNil). split; [reflexivity|]. split; [split; [left; exact Hb|exact HL]|].
    intros sI sE (Hc & HR & HN). rewrite exec_stmts_one. cbn [exec_stmt].
    unfold bitmap_def_step, bitmap_def_step_r. rewrite (sa_bm_state _ _ _ _ HR). unfold_consts. rewrite E1, E4, E5.
    cbn [agree]. inv_close Hc HR HN.
  - destruct (r_n031031 (w_r sC) =? r_n031031 (w_r sC) + 1)%Z eqn:En1; [lia|].
    rewrite Z.eqb_refl in E. injection E as <-.
    exists SNil. split; [symmetry; apply stmts_app_nil_r|]. split; [split; [left; exact Hb|exact HL]|].
    intros sI sE (Hc & HR & HN). cbn [exec_stmts].
    unfold bitmap_def_step, bitmap_def_step_r. rewrite (sa_bm_state _ _ _ _ HR). unfold_consts. rewrite E1, E4, E5.
    cbn [agree]. split; [exact Hc|split; [exact HR|exact HN]].
Qed.

End WalkEq.
