(* EncodeCG.v — the COMPRESSED encoder of EncodeC.v run together with a ghost
   (the compressed analogue of RoundTrip.encode_ghost).  Next to every column it
   writes, it records the column a reader of those bits obtains, one value per
   subset, in closed form:
     numeric    (raw + reference)/10^scale of the integer written, missing for a
                missing entry (for a one-bit element whose column is missing
                throughout: the value read from the bit 1 — a one-bit field has
                no missing pattern, known finding D18);
     code/flag  the integer written, missing for a missing entry;
     string     the entry cut / blank-padded to the field, 0xFF.. for missing;
     203YYY, constants (222000 ...)  the value itself, once per subset.
   It additionally refuses (EOther) the columns that lie outside the domain of
   the column round-trip theorems of ColumnProofs.v:
     - an element wider than 64 bits or a value equal to the all-ones pattern of
       its element ([col_dom_num]; one-bit elements: [col_dom_bit1]);
     - a character field of more than 63 octets or an "octet" above 255
       ([col_dom_str]);
     - a code/flag value that the decoder's second look (descriptor.nbits)
       would turn into missing;
   and, as RoundTrip.encode_ghost, the inputs on which encoder and decoder
   disagree about the STRUCTURE: a replication factor or bitmap that reads back
   differently from the ghost columns.
   Whenever it succeeds it writes the same bits as EncodeC.encode_compressed
   (RoundTripC.encode_compressed_ghost_is_encode) and DecodeC.decode_compressed
   reads exactly the ghost (RoundTripC.decode_encode_compressed).
   Model only (executable, extracted); the proofs are in RoundTripC.v. *)
From PBK Require Import Base Bits Descr Walk Coder Float53 Decode Encode Column DecodeC EncodeC.

Record gcstate := mkGC { gce : estate; gch : list (list value) }.

Definition gc_push (col : list value) (g : gcstate) (e' : estate) : gcstate :=
  mkGC e' (append_col col (gch g)).

(* ---- executable column domains --------------------------------------------- *)
Definition col_in_bit1 (v : option Z) : bool :=
  match v with None => true | Some x => (0 <=? x)%Z && (x <=? 1)%Z end.

(* a one-bit column: values 0/1; missing entries allowed as long as the flag is
   consistent (a column missing throughout has all_equal = true) *)
Definition col_dom_bit1 (all_equal : bool) (raws : list (option Z)) : bool :=
  col_flag_ok all_equal raws && forallb col_in_bit1 raws.

Definition col_dom_any (w : Z) (all_equal : bool) (raws : list (option Z)) : bool :=
  col_dom_num w all_equal raws || ((w =? 1)%Z && col_dom_bit1 all_equal raws).

(* what a reader obtains from the column *)
Definition col_all_none (raws : list (option Z)) : bool := forallb opt_is_none raws.

Definition num_view (w : Z) (raws : list (option Z)) : list (option N) :=
  if (w =? 1)%Z && col_all_none raws then repeat (Some 1%N) (length raws) else raw_view raws.

(* the code/flag reader looks at a present value a second time: equal to the
   all-ones pattern of descriptor.nbits (> 1) means missing *)
Definition cf_recheck_ok (dnbits : Z) (col : list (option N)) : bool :=
  (dnbits <=? 64)%Z &&
  forallb (fun v => match v with
                    | None => true
                    | Some x => negb ((1 <? dnbits)%Z && (x =? 2 ^ Z.to_N dnbits - 1)%N)
                    end) col.

Definition num_value (scale refval : Z) (o : option N) : value :=
  match o with None => VNone | Some raw => numeric_value raw scale refval end.
Definition cf_value (o : option N) : value :=
  match o with None => VNone | Some raw => VInt (Z.of_N raw) end.

(* ---- the primitives ----------------------------------------------------------- *)
Definition numeric_raws (scale refval : Z) (col : list value) (all_equal : bool)
  : result (list (option Z)) :=
  if all_equal
  then match col with
       | VNone :: _ => Ok (map (fun _ => None) col)
       | v :: _ => let* x := scaled_int v scale refval in Ok (map (fun _ => Some x) col)
       | [] => Ok []
       end
  else map_res (fun v => match v with
                         | VNone => Ok None
                         | _ => let* x := scaled_int v scale refval in Ok (Some x)
                         end) col.

Definition codeflag_raws (col : list value) : result (list (option Z)) :=
  map_res (fun v => match v with
                    | VNone => Ok None
                    | VInt z => Ok (Some z)
                    | VDyad m ex => Ok (Some (trunc (m, ex)))
                    | _ => Err EType
                    end) col.

Definition string_vals (col : list value) : result (list (option (list byte))) :=
  map_res (fun v => match v with
                    | VNone => Ok None
                    | VBytes b => Ok (Some b)
                    | _ => Err EType
                    end) col.

Definition gc_numeric (nbits scale refval : Z) (g : gcstate) : result gcstate :=
  let* (p, e1) := next_column (gce g) in
  let '(col, all_equal) := p in
  let* raws := numeric_raws scale refval col all_equal in
  if negb (col_dom_any nbits all_equal raws) then Err EOther else
  let* w := enc_col_num nbits all_equal raws (e_w e1) in
  Ok (gc_push (map (num_value scale refval) (num_view nbits raws)) g (with_w e1 w)).

Definition gc_string (nbytes : Z) (g : gcstate) : result gcstate :=
  let* (p, e1) := next_column (gce g) in
  let '(col, all_equal) := p in
  let* vs := string_vals col in
  if negb (col_dom_str nbytes all_equal vs) then Err EOther else
  let* w := enc_col_str nbytes all_equal vs (e_w e1) in
  Ok (gc_push (map VBytes (str_view nbytes vs)) g (with_w e1 w)).

Definition gc_codeflag (nbits dnbits : Z) (g : gcstate) : result gcstate :=
  let* (p, e1) := next_column (gce g) in
  let '(col, all_equal) := p in
  let* raws := codeflag_raws col in
  if negb (col_dom_any nbits all_equal raws && cf_recheck_ok dnbits (num_view nbits raws))
  then Err EOther else
  let* w := enc_col_codeflag nbits all_equal raws (e_w e1) in
  Ok (gc_push (map cf_value (num_view nbits raws)) g (with_w e1 w)).

Definition gc_new_refval (nbits : Z) (g : gcstate) : result (Z * gcstate) :=
  let* (p, e1) := next_column (gce g) in
  let '(col, all_equal) := p in
  match col with
  | VInt z :: _ =>
      let* w := enc_col_refval nbits all_equal (Some z) (e_w e1) in
      Ok (z, gc_push (repeat (VInt z) (length col)) g (with_w e1 w))
  | VNone :: _ => Err EAssert
  | _ :: _ => if all_equal then Err EType else Err EAssert
  | [] => Err EIndex
  end.

Definition gc_constant (z : Z) (g : gcstate) : result gcstate :=
  let* (p, e1) := next_column (gce g) in
  let '(col, all_equal) := p in
  match col with
  | v :: _ => if all_equal && value_eq_int v z
              then Ok (gc_push (repeat (VInt z) (length col)) g e1) else Err EAssert
  | [] => Err EAssert
  end.

(* Decoder.get_value_for_delayed_replication_factor / the bitmap, on the ghost *)
Definition factor_of_cols (vals : list (list value)) : result N :=
  let lasts := map last_of vals in
  if existsb (fun o => match o with None => true | Some _ => false end) lasts then Err EIndex else
  let vs := map (fun o => match o with Some v => v | None => VNone end) lasts in
  let* _ := assert_equal_present vs in
  match vs with
  | [] => Err EIndex
  | v :: _ => factor_of_value v
  end.

Definition bitmap_of_cols (n : Z) (vals : list (list value)) : result (list bool) :=
  match vals with
  | [] => Err EIndex
  | l :: _ => Ok (map value_is_zero (last_n n l))
  end.

Definition gc_factor (g : gcstate) : result N :=
  let* n := encc_factor (gce g) in
  let* n' := factor_of_cols (gch g) in
  if (n =? n')%N then Ok n else Err EOther.

Definition gc_bitmap (k : Z) (g : gcstate) : result (list bool) :=
  let* bm := encc_bitmap k (gce g) in
  let* bm' := bitmap_of_cols k (gch g) in
  if list_eq_dec Bool.bool_dec bm bm' then Ok bm else Err EOther.

Definition gc_prims : prims gcstate :=
  mkPrims gcstate gc_numeric gc_string gc_codeflag gc_new_refval gc_constant gc_factor gc_bitmap.

(* the compressed encoder with its ghost: descriptors/links, the bits, and what a
   reader gets (one list per subset) *)
Definition encode_compressed_ghost (T : descs) (vals : list (list value))
  : result (list subset_out * writer * list (list value)) :=
  let* (outs, g) := run_compressed gc_prims T (length vals)
                      (mkGC (mkE [] vals 0 0) (repeat [] (length vals))) in
  Ok (outs, e_w (gce g), gch g).

(* ============================================================================
   The STRICT ghost, for the transparency theorem (RoundTripC/TransparentC):
   the same encoder, refusing in addition the three situations in which the
   compressed and the uncompressed form of the same values legitimately read
   back differently:
     (a) a one-bit element with a missing entry in some but not all subsets
         (known finding D18: uncompressed, the missing entry reads back as 1);
     (b) an "all equal" numeric column whose entries are equal as numbers but
         not identical as objects (3 and 3.0): the compressed encoder scales
         values[0] only, the uncompressed one every entry;
     (c) a bitmap that is not the same in every subset: the compressed coder
         takes it from the first subset.
   ============================================================================ *)
Definition value_seqb (a b : value) : bool :=
  match a, b with
  | VNone, VNone => true
  | VInt x, VInt y => (x =? y)%Z
  | VDec m s, VDec m' s' => (m =? m')%Z && (s =? s')%Z
  | VDyad m e, VDyad m' e' => (m =? m')%Z && (e =? e')%Z
  | VBytes x, VBytes y => col_bytes_eqb x y
  | _, _ => false
  end.

Definition all_same (all_equal : bool) (col : list value) : bool :=
  if all_equal then match col with v0 :: _ => forallb (value_seqb v0) col | [] => true end else true.

Definition onebit_ok (w : Z) (raws : list (option Z)) : bool :=
  negb ((w =? 1)%Z && existsb opt_is_none raws && negb (col_all_none raws)).

Definition gcs_numeric (nbits scale refval : Z) (g : gcstate) : result gcstate :=
  let* (p, _) := next_column (gce g) in
  let '(col, all_equal) := p in
  let* raws := numeric_raws scale refval col all_equal in
  if negb (all_same all_equal col && onebit_ok nbits raws) then Err EOther
  else gc_numeric nbits scale refval g.

Definition gcs_codeflag (nbits dnbits : Z) (g : gcstate) : result gcstate :=
  let* (p, _) := next_column (gce g) in
  let '(col, all_equal) := p in
  let* raws := codeflag_raws col in
  if negb (onebit_ok nbits raws) then Err EOther else gc_codeflag nbits dnbits g.

Definition bools_eqb (a b : list bool) : bool :=
  if list_eq_dec Bool.bool_dec a b then true else false.

Definition gcs_bitmap (k : Z) (g : gcstate) : result (list bool) :=
  let* bm := gc_bitmap k g in
  if forallb (fun l => bools_eqb (map value_is_zero (last_n k l)) bm) (gch g) then Ok bm else Err EOther.

Definition gcs_prims : prims gcstate :=
  mkPrims gcstate gcs_numeric gc_string gcs_codeflag gc_new_refval gc_constant gc_factor gcs_bitmap.

Definition encode_compressed_ghost_strict (T : descs) (vals : list (list value))
  : result (list subset_out * writer * list (list value)) :=
  let* (outs, g) := run_compressed gcs_prims T (length vals)
                      (mkGC (mkE [] vals 0 0) (repeat [] (length vals))) in
  Ok (outs, e_w (gce g), gch g).
