(* PathSweep6b.v — C15: print-and-reparse sweep for length <= 6 (split from PathSweep6.v
   so that the two slow vm_compute runs build in parallel). *)
From PBK Require Import Base PathParser PathGrammar PathProofs.

Lemma sweep_reparses_6 : forallb (fun k => forallb reparses (strings alphabet12 k)) (seq 0 7) = true.
Proof. vm_compute. reflexivity. Qed.

Theorem parse_to_string_upto6 : forall s, (length s <= 6)%nat ->
  (forall c, In c s -> In c alphabet12) -> reparses s = true.
Proof. exact (sweep_lift reparses 6 sweep_reparses_6). Qed.
