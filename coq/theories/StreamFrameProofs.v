(* StreamFrameProofs.v — the hypotheses of the scanner theorems (Stream.v:
   full_ok, info_ok, filt_ok) PROVED for the concrete message decoder of
   Frame.v on every message the encoder produces (C11 end to end). *)
From PBK Require Import Base Bits BitsProofs Frame FrameProofs FrameRoundtrip MdQuery MdQueryProofs
  FramePrefix FramePrefixEnc Stream StreamProofs StreamFrame.
From Coq Require Import ZifyBool ZifyNat ZifyN.

(* ------------------------------------------------------------------------ *)
(* attributes no later section sets are left alone by the decoder            *)
(* ------------------------------------------------------------------------ *)
Lemma has_param_cons n p ps :
  has_param n (p :: ps) = pname_beq (p_name p) n || has_param n ps.
Proof. reflexivity. Qed.

Lemma decode_params_keeps dd n all ps : has_param n ps = false ->
  forall start env props r env' props' r',
  decode_params dd all ps start env props r = Ok (env', props', r') ->
  prop_get n props' = prop_get n props.
Proof.
  induction ps as [|p ps IH]; intros Hn start env props r env' props' r'; cbn [decode_params].
  - intros E. injection E as _ <- _. reflexivity.
  - rewrite has_param_cons in Hn. apply orb_false_iff in Hn as [Hp Hps].
    intros H. apply bind_ok in H as ([v r1] & _ & H). apply bind_ok in H as (u & _ & H).
    rewrite (IH Hps _ _ _ _ _ _ _ H). unfold add_prop. destruct (p_prop p); [|reflexivity].
    cbn [prop_get]. rewrite Hp. reflexivity.
Qed.

Lemma decode_section_keeps dd n c props r sec props' r' :
  has_param n (s_params c) = false ->
  decode_section dd c props r = Ok (sec, props', r') -> prop_get n props' = prop_get n props.
Proof.
  intros Hn H. unfold decode_section in H.
  apply bind_ok in H as ([[env props1] r1] & Hp & H). apply bind_ok in H as (r2 & _ & H).
  injection H as _ <- _. eapply decode_params_keeps; eassumption.
Qed.

Lemma has_param_take_until_data n ps : has_param n ps = false -> has_param n (take_until_data ps) = false.
Proof.
  induction ps as [|p ps IH]; [reflexivity|]. rewrite has_param_cons. intros H.
  apply orb_false_iff in H as [Hp Hps]. cbn [take_until_data]. destruct (is_data p); [reflexivity|].
  rewrite has_param_cons, Hp, (IH Hps). reflexivity.
Qed.

Lemma has_param_transform n info ign c :
  has_param n (s_params c) = false -> has_param n (s_params (transform info ign c)) = false.
Proof.
  intros H. unfold transform.
  assert (H1 : has_param n (s_params (if info then info_configuration c else c)) = false).
  { destruct info; [|exact H]. unfold info_configuration. destruct (existsb is_data (s_params c)); [|exact H].
    cbn [s_params]. apply has_param_take_until_data, H. }
  destruct ign; [|exact H1]. unfold ignore_value_expectation. cbn [s_params].
  revert H1. generalize (s_params (if info then info_configuration c else c)). intros ps.
  induction ps as [|p ps IH]; [reflexivity|]. cbn [map]. rewrite !has_param_cons. cbn [p_name]. intros H1.
  apply orb_false_iff in H1 as [-> H1]. rewrite (IH H1). reflexivity.
Qed.

Lemma decode_sections_keeps dd n info ign idxs :
  (forall c0, In c0 definitions -> In (s_index c0) idxs -> has_param n (s_params c0) = false) ->
  forall props secs r secs' props' r',
  decode_sections dd definitions info ign idxs props secs r = Ok (secs', props', r') ->
  prop_get n props' = prop_get n props.
Proof.
  induction idxs as [|i idxs IH]; intros Hn props secs r secs' props' r'; cbn [decode_sections]; [discriminate|].
  assert (Hn' : forall c0, In c0 definitions -> In (s_index c0) idxs -> has_param n (s_params c0) = false)
    by (intros c0 Hc Hi; apply Hn; [exact Hc|right; exact Hi]).
  intros H. apply bind_ok in H as (oc & Hc & H). destruct oc as [c|].
  - apply bind_ok in H as ([[sec props1] r1] & Hs & H).
    destruct (configure_index _ _ _ _ _ Hc) as (_ & c0 & Hin & Hi0 & ->).
    assert (Hk : prop_get n props1 = prop_get n props).
    { eapply decode_section_keeps; [|exact Hs]. apply has_param_transform, Hn; [exact Hin|left; symmetry; exact Hi0]. }
    destruct (s_end _).
    + injection H as _ <- _. exact Hk.
    + rewrite (IH Hn' _ _ _ _ _ _ H). exact Hk.
  - exact (IH Hn' _ _ _ _ _ _ H).
Qed.

(* ------------------------------------------------------------------------ *)
(* bufr_message.length.value of a decoded message is the 24-bit field at     *)
(* octets 4..6 of the input                                                  *)
(* ------------------------------------------------------------------------ *)
Lemma configure_0 info : configure_section definitions [] 0 info false = Ok (Some section0).
Proof. destruct info; reflexivity. Qed.

Lemma decoded_length dd info s m :
  decode_message dd None info false s = Ok m ->
  exists v rest, read_uint 24 (skipn 32 (bits_of_bytes s)) = Ok (v, rest) /\
                 prop_get Nlength (m_props m) = Some (PUint (Z.of_N v)).
Proof.
  unfold decode_message, decode_message_with. cbn [bind]. change (skipn 0 s) with s. intros H.
  apply bind_ok in H as ([[secs props] r'] & Hs & H). apply ok_inj in H. subst m. cbn [m_props].
  unfold section_indices in Hs. rewrite decode_sections_cons1, configure_0 in Hs. cbn [bind] in Hs.
  apply bind_ok in Hs as ([[sec0 props1] r1] & H0 & Hs). change (s_end section0) with false in Hs. cbv iota in Hs.
  assert (Hk : prop_get Nlength props = prop_get Nlength props1).
  { eapply decode_sections_keeps; [|exact Hs]. intros c0 Hc Hi. apply definitions_length_owner; [exact Hc|].
    intros E. rewrite E in Hi. cbn in Hi. intuition discriminate. }
  rewrite Hk. clear Hs Hk.
  unfold decode_section in H0. apply bind_ok in H0 as ([[env props2] r2] & Hp & H0).
  change (has_param Nsection_length (s_params section0)) with false in H0. cbn [bind] in H0.
  injection H0 as _ <- _.
  cbn [section0 s_params decode_params p_type p_nbits] in Hp.
  change (32 =? 0)%Z with false in Hp. change (24 =? 0)%Z with false in Hp. change (8 =? 0)%Z with false in Hp.
  cbv iota in Hp.
  apply bind_ok in Hp as ([v1 ra] & H1 & Hp). apply bind_ok in Hp as (u1 & _ & Hp).
  apply bind_ok in Hp as ([v2 rb] & H2 & Hp). apply bind_ok in Hp as (u2 & _ & Hp).
  apply bind_ok in Hp as ([v3 rc] & H3 & Hp). apply bind_ok in Hp as (u3 & _ & Hp).
  injection Hp as _ <- _.
  unfold read_typed in H1. apply bind_ok in H1 as ([l rx] & Hb & H1). injection H1 as <- <-.
  unfold read_bytes in Hb. change (32 / 8 <? 0)%Z with false in Hb. cbv iota in Hb.
  apply bind_ok in Hb as ([b ry] & Ht & Hb). injection Hb as _ <-.
  apply take_bits_ok in Ht as [Er Lb]. change (8 * Z.to_nat (32 / 8))%nat with 32%nat in Lb.
  unfold read_typed in H2. apply bind_ok in H2 as ([v rz] & Hu & H2). injection H2 as <- <-.
  unfold read_typed in H3. apply bind_ok in H3 as ([w rw] & _ & H3). injection H3 as <- _.
  exists v, rz. rewrite Er, (skipn_app_exact 32 b ry Lb). split; [exact Hu|].
  unfold add_prop. cbn [p_prop p_name prop_get].
  change (pname_beq Nedition Nlength) with false. change (pname_beq Nlength Nlength) with true. reflexivity.
Qed.

Lemma decode_sig_none dd g info ign s : find_sig g s = Some 0%nat ->
  decode_message dd (Some g) info ign s = decode_message dd None info ign s.
Proof. intros H. unfold decode_message, decode_message_with. rewrite H. reflexivity. Qed.

Lemma starts_with_split g : forall s, starts_with g s = true -> exists b, s = g ++ b.
Proof.
  induction g as [|a g IH]; intros s H; [exists s; reflexivity|].
  destruct s as [|x s]; [discriminate|]. cbn [starts_with] in H. apply andb_true_iff in H as [H1 H2].
  apply N.eqb_eq in H1. subst x. destruct (IH _ H2) as (b & ->). exists b. reflexivity.
Qed.

Lemma find_sig_0_starts g s : find_sig g s = Some 0%nat -> starts_with g s = true.
Proof.
  destruct s as [|x s]; cbn [find_sig]; destruct (starts_with g _); try reflexivity; try discriminate.
  destruct (find_sig g s); discriminate.
Qed.

(* the declared total length read back by ANY successful decode of the message *)
Lemma encoded_declared dd : forall ign json m info m',
  encode_message ign json = Ok m ->
  decode_message dd None info false (m_bytes m) = Ok m' ->
  prop_get Nlength (m_props m') = Some (PUint (Z.of_nat (length (m_bytes m)))).
Proof.
  intros ign json m info m' Henc Hdec.
  destruct (decoded_length _ _ _ _ Hdec) as (v & rest & Hr & Hp).
  destruct (total_length_exact _ _ _ Henc) as (len & rest' & _ & _ & _ & Hl & Hr' & _).
  rewrite Hr' in Hr. injection Hr as <- _. rewrite Hp. f_equal. f_equal. lia.
Qed.

(* ------------------------------------------------------------------------ *)
(* H1-H3 for the concrete decoder, on every message the encoder produces     *)
(* ------------------------------------------------------------------------ *)
Section DischargeDec.
Variable dd : list (pname * pvalue) -> reader -> result (bits * reader).
Hypothesis dd_prefix : forall p r b r', dd p r = Ok (b, r') -> r = b ++ r'.
Hypothesis dd_suffix : forall p r b r' s, dd p r = Ok (b, r') -> dd p (r ++ s) = Ok (b, r' ++ s).
Hypothesis dd_cuts : forall p, cuts (dd p).

(* the encoder's output, decoded without signature search (as the scanner calls
   the decoder): one and the same message record whatever follows *)
Lemma encoded_full_decode : forall ign json m,
  encode_message ign json = Ok m ->
  Forall sec_fits (m_sections m) -> Forall desc_fill_ok (m_sections m) -> data_ok dd [] (m_sections m) ->
  find_sig sig_BUFR (m_bytes m) = Some 0%nat /\
  exists m', (forall t, decode_message dd None false false (m_bytes m ++ t) = Ok m') /\
    decode_message dd (Some sig_BUFR) false false (m_bytes m) = Ok m' /\
    m_bytes m' = m_bytes m /\ m_props m' = props_after (m_sections m) [].
Proof.
  intros ign json m Henc Hfits Hdfs Hdat.
  destruct (frame_roundtrip dd ign json m [] Henc Hfits Hdfs Hdat) as (m' & Hdec & Hb & _ & Hp).
  rewrite app_nil_r in Hdec.
  destruct (encoded_decodes dd dd_prefix dd_suffix _ _ _ Henc Hfits Hdfs Hdat) as (m'' & Hdec' & _ & _ & Hsi & _).
  assert (Hf : find_sig sig_BUFR (m_bytes m) = Some 0%nat).
  { unfold sig_index in Hsi. destruct (find_sig sig_BUFR (m_bytes m)) as [i|] eqn:Ef; [subst i; reflexivity|].
    unfold decode_message, decode_message_with in Hdec. rewrite Ef in Hdec. discriminate. }
  split; [exact Hf|]. exists m'. split; [|auto].
  pose proof Hdec as Hn. rewrite (decode_sig_none _ _ _ _ _ Hf) in Hn.
  destruct (decode_span dd dd_prefix dd_suffix _ _ _ _ _ Hn) as [Hall _]. exact Hall.
Qed.

(* the metadata-only decode of the encoder's output, without signature search *)
Lemma encoded_info_decode : forall ign json m,
  encode_message ign json = Ok m ->
  Forall sec_fits (m_sections m) -> Forall desc_fill_ok (m_sections m) -> data_ok dd [] (m_sections m) ->
  exists mi, (forall t, decode_message dd None true false (m_bytes m ++ t) = Ok mi) /\
    (forall t, decode_message dd None true false (firstn (length (m_bytes m) - 4) (m_bytes m) ++ t) = Ok mi) /\
    length (m_bytes mi) = (length (m_bytes m) - 4)%nat.
Proof.
  intros ign json m Henc Hfits Hdfs Hdat.
  destruct (encoded_full_decode _ _ _ Henc Hfits Hdfs Hdat) as (Hf & _).
  destruct (encoded_info_prefix dd dd_prefix dd_suffix dd_cuts _ _ _ Henc Hfits Hdfs Hdat) as (mi & Hi & Hn & Hk).
  destruct (encoded_decodes dd dd_prefix dd_suffix _ _ _ Henc Hfits Hdfs Hdat) as (_ & _ & _ & _ & _ & H12).
  exists mi. rewrite (decode_sig_none _ _ _ _ _ Hf) in Hi.
  destruct (decode_span dd dd_prefix dd_suffix _ _ _ _ _ Hi) as [Hall (bf & af & Hs & Hbits & Hbf)]. subst bf.
  split; [exact Hall|]. split.
  - destruct (Hk (length (m_bytes m) - 4)%nat) as [Hge _]. specialize (Hge (le_n _)).
    assert (Hf' : find_sig sig_BUFR (firstn (length (m_bytes m) - 4) (m_bytes m)) = Some 0%nat).
    { apply find_sig_starts. apply find_sig_0_starts in Hf.
      assert (Hk4 : (4 <= length (m_bytes m) - 4)%nat) by lia.
      revert Hk4. generalize (length (m_bytes m) - 4)%nat. intros k Hk4.
      destruct (starts_with_split _ _ Hf) as (b & Eb). rewrite Eb.
      rewrite firstn_app. rewrite (@firstn_all2 _ k sig_BUFR) by exact Hk4.
      apply starts_with_prefix. }
    rewrite (decode_sig_none _ _ _ _ _ Hf') in Hge.
    destruct (decode_span dd dd_prefix dd_suffix _ _ _ _ _ Hge) as [Hall' _]. exact Hall'.
  - lia.
Qed.

End DischargeDec.

Section Discharge.
Variable dd : list (pname * pvalue) -> reader -> result (bits * reader).
Hypothesis dd_prefix : forall p r b r', dd p r = Ok (b, r') -> r = b ++ r'.
Hypothesis dd_suffix : forall p r b r' s, dd p r = Ok (b, r') -> dd p (r ++ s) = Ok (b, r' ++ s).
Hypothesis dd_cuts : forall p, cuts (dd p).
Variable view : message -> list N.
Variable tdp : msginfo -> result unit.

(* H1 + H2 (full mode): suffix independent, consumes exactly the message, hook quiet *)
Theorem encoded_full_ok : forall ign json m,
  encode_message ign json = Ok m ->
  Forall sec_fits (m_sections m) -> Forall desc_fill_ok (m_sections m) -> data_ok dd [] (m_sections m) ->
  quiet_props (props_after (m_sections m) []) = true ->
  full_ok (frame_process dd view false) (frame_hook tdp) (m_bytes m).
Proof.
  intros ign json m Henc Hfits Hdfs Hdat Hq.
  destruct (encoded_full_decode dd dd_prefix dd_suffix _ _ _ Henc Hfits Hdfs Hdat) as (_ & m' & Hall & _ & Hb & Hp).
  pose proof (Hall []) as H0. rewrite app_nil_r in H0.
  pose proof (encoded_declared dd _ _ _ _ _ Henc H0) as Hlen.
  exists (MsgInfo (length (m_bytes m)) (length (m_bytes m)) (meta_of view m')). split; [|split; [reflexivity|]].
  - intros t. unfold frame_process. rewrite (Hall t). cbn [bind]. unfold msginfo_of. rewrite Hlen, Hb.
    f_equal. f_equal. lia.
  - unfold frame_hook. cbn [mi_meta]. unfold meta_of. rewrite Hp. unfold quiet_props in Hq.
    destruct (tabledef_keys _) as [[dc ns]|]; [|discriminate]. apply negb_true_iff in Hq. rewrite Hq. reflexivity.
Qed.

(* H3 (metadata-only mode): suffix independent, declared length = actual length *)
Theorem encoded_info_ok : forall ign json m,
  encode_message ign json = Ok m ->
  Forall sec_fits (m_sections m) -> Forall desc_fill_ok (m_sections m) -> data_ok dd [] (m_sections m) ->
  info_ok (frame_process dd view true) (m_bytes m).
Proof.
  intros ign json m Henc Hfits Hdfs Hdat.
  destruct (encoded_info_decode dd dd_prefix dd_suffix dd_cuts _ _ _ Henc Hfits Hdfs Hdat) as (mi & Hall & _ & Hc).
  pose proof (Hall []) as H0. rewrite app_nil_r in H0.
  pose proof (encoded_declared dd _ _ _ _ _ Henc H0) as Hlen.
  exists (MsgInfo (length (m_bytes mi)) (length (m_bytes m)) (meta_of view mi)). split; [|reflexivity].
  intros t. unfold frame_process. rewrite (Hall t). cbn [bind]. unfold msginfo_of. rewrite Hlen.
  f_equal. f_equal. lia.
Qed.

End Discharge.

(* ------------------------------------------------------------------------ *)
(* the last four octets of a well-formed encoded message are '7777'          *)
(* ------------------------------------------------------------------------ *)
Lemma encoded_ends_7777 ign json m :
  encode_message ign json = Ok m -> Forall sec_fits (m_sections m) ->
  skipn (length (m_bytes m) - 4) (m_bytes m) = sig_7777.
Proof.
  intros Henc Hfits.
  destruct (starts_BUFR_ends_7777 _ _ _ Henc) as (s0 & mid & s5 & l0 & l5 & Hsecs & _ & Hl5 & _ & _ & _ & Hlast).
  apply Hlast. clear Hlast.
  destruct (encode_message_inv (fun _ r => Ok ([], r)) _ _ _ Henc)
    as (l & len & ed & json' & e & props & secs_rest & Hinv). cbv zeta in Hinv.
  destruct Hinv as (Hs & _ & _ & _ & Hsec).
  pose proof (encode_sections_ok ign definitions [1;2;3;4;5;6]%N definitions_sl_first _ _ _ _ _ _ _ Hs)
    as (e' & new & _ & Enew & _ & _ & _ & _ & e0 & c & vs & props_k & sec & new0 & _ & _ & Hc & Hend & Hlen & Hes & Hnew).
  apply app_inv_head in Enew. subst secs_rest. subst new.
  pose proof (definitions_end c Hc Hend) as Ec. subst c.
  destruct (encode_section5 _ _ _ _ _ _ _ (eq_sym Hlen) Hes) as (l' & -> & _ & _ & Hv).
  destruct (encode_section_whole _ _ _ _ _ _ _ _ (eq_refl : sl_first (s_params section5) = true) Hes)
    as (_ & _ & _ & _ & _ & Hpar).
  assert (Etl : new0 ++ [sec] = mid ++ [s5]).
  { rewrite Hsecs in Hsec. exact (eq_sym (f_equal (@tl _) Hsec)). }
  apply app_inj_tail in Etl as [_ <-].
  rewrite Hv in Hl5. cbn [prop_get] in Hl5. change (pname_beq Nstop_signature Nstop_signature) with true in Hl5.
  injection Hl5 as <-.
  rewrite Hsec in Hfits. rewrite Forall_forall in Hfits.
  specialize (Hfits sec ltac:(right; apply in_or_app; right; left; reflexivity)).
  unfold sec_fits in Hfits. rewrite Hpar, Hv in Hfits. cbn [map snd section5 s_params fits_layout] in Hfits.
  change (fixed_param (mkP Nstop_signature 32 TBytes (Some [55;55;55;55]%N) false)) with true in Hfits. cbv iota in Hfits.
  apply andb_true_iff in Hfits as [Hfits _]. unfold fit_fixed in Hfits. cbn [p_type p_expected] in Hfits.
  apply andb_true_iff in Hfits as [_ Hfits]. apply bytes_eqb_eq in Hfits. exact Hfits.
Qed.

Section Discharge2.
Variable dd : list (pname * pvalue) -> reader -> result (bits * reader).
Hypothesis dd_prefix : forall p r b r', dd p r = Ok (b, r') -> r = b ++ r'.
Hypothesis dd_suffix : forall p r b r' s, dd p r = Ok (b, r') -> dd p (r ++ s) = Ok (b, r' ++ s).
Hypothesis dd_cuts : forall p, cuts (dd p).
Variable view : message -> list N.
Variable tdp : msginfo -> result unit.
Variable filt : msginfo -> result bool.

(* the filter's verdict on the metadata-only decode of a byte string *)
Definition verdict (s : list byte) : option bool :=
  match frame_process dd view true s with
  | Ok mi => match filt mi with Ok b => Some b | Err _ => None end
  | Err _ => None
  end.

(* with a filter: the verdict is taken on the metadata-only message, which is
   the same whatever follows; a matching message is then decoded in full; a
   non-matching one is advanced over by sections 0..4, and what is left of it
   ('7777') holds no 'B' *)
Theorem encoded_filt_ok : forall ign json m io b,
  encode_message ign json = Ok m ->
  Forall sec_fits (m_sections m) -> Forall desc_fill_ok (m_sections m) -> data_ok dd [] (m_sections m) ->
  verdict (m_bytes m) = Some b ->
  (io = false -> b = true -> quiet_props (props_after (m_sections m) []) = true) ->
  filt_ok (frame_process dd view false) (frame_process dd view true) filt (frame_hook tdp) io (m_bytes m) b.
Proof.
  intros ign json m io b Henc Hfits Hdfs Hdat Hv Hq.
  destruct (encoded_info_decode dd dd_prefix dd_suffix dd_cuts _ _ _ Henc Hfits Hdfs Hdat) as (mi & Hall & _ & Hc).
  pose proof (Hall []) as H0. rewrite app_nil_r in H0.
  pose proof (encoded_declared dd _ _ _ _ _ Henc H0) as Hlen.
  assert (Hp : forall t, frame_process dd view true (m_bytes m ++ t) =
                         Ok (MsgInfo (length (m_bytes mi)) (length (m_bytes m)) (meta_of view mi))).
  { intros t. unfold frame_process. rewrite (Hall t). cbn [bind]. unfold msginfo_of. rewrite Hlen.
    f_equal. f_equal. lia. }
  exists (MsgInfo (length (m_bytes mi)) (length (m_bytes m)) (meta_of view mi)). split; [exact Hp|].
  unfold verdict in Hv. specialize (Hp []). rewrite app_nil_r in Hp. rewrite Hp in Hv.
  destruct (filt _) as [b'|] eqn:Ef; [|discriminate]. injection Hv as ->. split; [reflexivity|].
  destruct io; [reflexivity|]. destruct b.
  - apply (encoded_full_ok dd dd_prefix dd_suffix view tdp ign json m Henc Hfits Hdfs Hdat). apply Hq; reflexivity.
  - cbn [mi_consumed]. rewrite Hc. split; [lia|].
    rewrite (encoded_ends_7777 _ _ _ Henc Hfits). cbn. intuition discriminate.
Qed.
End Discharge2.

(* ------------------------------------------------------------------------ *)
(* executable well-formedness conditions, streams of encoded messages        *)
(* ------------------------------------------------------------------------ *)
Lemma nosigb_sound s : nosigb s = true -> nosig s.
Proof. unfold nosigb. destruct (find_from Stream.sig s 0) eqn:E; [discriminate|]. intros _. apply nosig_dec, E. Qed.

(* the hypotheses of C04_frame_roundtrip, executable *)
Definition msg_wfb (dd : list (pname * pvalue) -> reader -> result (bits * reader)) (m : message) : bool :=
  forallb sec_fitsb (m_sections m) && forallb desc_fill_okb (m_sections m) && data_okb dd [] (m_sections m).

(* not a table-definition message: data_category <> 11 or n_subsets = 0
   (read off the values of sections 1 and 3) *)
Definition msg_quietb (m : message) : bool := quiet_props (props_after (m_sections m) []).

(* an item of a stream: the encoder's inputs (ignore_declared_length, the
   message as nested values) and the separator bytes that follow the message *)
Definition enc_item := (bool * list (list pvalue) * list byte)%type.
Definition item_msg (it : enc_item) : result message := encode_message (fst (fst it)) (snd (fst it)).
Definition item_bytes (it : enc_item) : list byte :=
  match item_msg it with Ok m => m_bytes m | Err _ => [] end.
Definition stream_of (items : list enc_item) : list (list byte * list byte) :=
  map (fun it => (item_bytes it, snd it)) items.

(* the item encodes, the message is well formed, (in full mode) it is not a
   table-definition message, the separator holds no 'BUFR' *)
Definition item_okb (dd : list (pname * pvalue) -> reader -> result (bits * reader)) (io : bool)
    (it : enc_item) : bool :=
  match item_msg it with
  | Ok m => msg_wfb dd m && (io || msg_quietb m)
  | Err _ => false
  end && nosigb (snd it).

Lemma map_fst_stream_of items : map fst (stream_of items) = map item_bytes items.
Proof. unfold stream_of. rewrite map_map. reflexivity. Qed.

Lemma stream_ok_of (P : list byte -> Prop) (ok : enc_item -> bool) items :
  (forall it, ok it = true -> starts_sig (item_bytes it) /\ nosig (snd it) /\ P (item_bytes it)) ->
  forallb ok items = true -> stream_ok P (stream_of items).
Proof.
  intros H Hall. unfold stream_ok, stream_of. rewrite Forall_map. apply Forall_forall. intros it Hin.
  rewrite forallb_forall in Hall. cbn [fst snd]. apply H, Hall, Hin.
Qed.

Section EndToEnd.
Variable dd : list (pname * pvalue) -> reader -> result (bits * reader).
Hypothesis dd_prefix : forall p r b r', dd p r = Ok (b, r') -> r = b ++ r'.
Hypothesis dd_suffix : forall p r b r' s, dd p r = Ok (b, r') -> dd p (r ++ s) = Ok (b, r' ++ s).
Hypothesis dd_cuts : forall p, cuts (dd p).
Variable view : message -> list N.
Variable tdp : msginfo -> result unit.
Variable filt : msginfo -> result bool.

Lemma msg_wfb_sound m : msg_wfb dd m = true ->
  Forall sec_fits (m_sections m) /\ Forall desc_fill_ok (m_sections m) /\ data_ok dd [] (m_sections m).
Proof.
  unfold msg_wfb. intros H. apply andb_true_iff in H as [H H3]. apply andb_true_iff in H as [H1 H2].
  split; [apply sec_fitsb_sound, H1|]. split; [apply desc_fill_okb_all, H2|].
  apply (data_okb_sound dd dd_prefix dd_suffix), H3.
Qed.

Lemma encoded_starts_sig ign json m : encode_message ign json = Ok m -> msg_wfb dd m = true ->
  starts_sig (m_bytes m).
Proof.
  intros Henc Hwf. destruct (msg_wfb_sound _ Hwf) as (Hfits & Hdfs & Hdat).
  destruct (encoded_full_decode dd dd_prefix dd_suffix _ _ _ Henc Hfits Hdfs Hdat) as (Hf & _).
  apply find_sig_0_starts, starts_with_split in Hf. exact Hf.
Qed.

Lemma item_ok_valid io it : item_okb dd io it = true ->
  starts_sig (item_bytes it) /\ nosig (snd it) /\
  valid_msg (frame_process dd view false) (frame_process dd view true) (frame_hook tdp) io (item_bytes it).
Proof.
  unfold item_okb, item_bytes. intros H. apply andb_true_iff in H as [H Hsep].
  destruct (item_msg it) as [m|] eqn:Em; [|discriminate]. apply andb_true_iff in H as [Hwf Hq].
  destruct (msg_wfb_sound _ Hwf) as (Hfits & Hdfs & Hdat).
  split; [eapply encoded_starts_sig; eassumption|]. split; [apply nosigb_sound, Hsep|].
  destruct io; cbn [valid_msg].
  - eapply (encoded_info_ok dd dd_prefix dd_suffix dd_cuts view); eassumption.
  - eapply (encoded_full_ok dd dd_prefix dd_suffix view tdp); eassumption.
Qed.

(* C11 end to end: the concrete scanner on a stream of encoded messages and
   separators yields exactly the messages, in order, with their exact bytes *)
Theorem e2e_scan_exact : forall io coe sep0 items,
  nosigb sep0 = true -> forallb (item_okb dd io) items = true ->
  frame_generate dd view tdp filt io coe false (sep0 ++ assemble (stream_of items))
  = (map item_bytes items, None).
Proof.
  intros io coe sep0 items H0 Hall. unfold frame_generate.
  rewrite scan_exact; [rewrite map_fst_stream_of; reflexivity|apply nosigb_sound, H0|].
  eapply stream_ok_of; [|exact Hall]. apply item_ok_valid.
Qed.

Theorem e2e_concat_pieces : forall io coe sep0 items,
  nosigb sep0 = true -> forallb (item_okb dd io) items = true ->
  concat (fst (frame_generate dd view tdp filt io coe false (sep0 ++ assemble (stream_of items))))
  = concat (map item_bytes items).
Proof. intros. rewrite e2e_scan_exact by assumption. reflexivity. Qed.

(* with a filter expression *)
Definition matches (s : list byte) : bool :=
  match verdict dd view filt s with Some true => true | _ => false end.

(* as item_okb, and the filter evaluates (to either verdict) on the
   metadata-only message; only a MATCHING message is handed to the table hook *)
Definition item_filt_okb (io : bool) (it : enc_item) : bool :=
  match item_msg it with
  | Ok m => msg_wfb dd m &&
            match verdict dd view filt (m_bytes m) with
            | Some b => io || negb b || msg_quietb m
            | None => false
            end
  | Err _ => false
  end && nosigb (snd it).

Theorem e2e_scan_filter : forall io coe sep0 items,
  nosigb sep0 = true -> forallb (item_filt_okb io) items = true ->
  frame_generate dd view tdp filt io coe true (sep0 ++ assemble (stream_of items))
  = (filter matches (map item_bytes items), None).
Proof.
  intros io coe sep0 items H0 Hall. unfold frame_generate.
  rewrite (scan_filter _ _ _ _ io coe matches); [rewrite map_fst_stream_of; reflexivity|apply nosigb_sound, H0|].
  eapply stream_ok_of; [|exact Hall]. clear Hall H0. intros it H.
  unfold item_filt_okb, item_bytes in *. apply andb_true_iff in H as [H Hsep].
  destruct (item_msg it) as [m|] eqn:Em; [|discriminate]. apply andb_true_iff in H as [Hwf Hq].
  destruct (msg_wfb_sound _ Hwf) as (Hfits & Hdfs & Hdat).
  split; [eapply encoded_starts_sig; eassumption|]. split; [apply nosigb_sound, Hsep|].
  destruct (verdict dd view filt (m_bytes m)) as [b|] eqn:Ev; [|discriminate].
  assert (Em' : matches (m_bytes m) = b) by (unfold matches; rewrite Ev; destruct b; reflexivity).
  rewrite Em'.
  eapply (encoded_filt_ok dd dd_prefix dd_suffix dd_cuts view tdp filt); try eassumption.
  intros -> ->. exact Hq.
Qed.

End EndToEnd.
