(* TextFmtStrings.v — lemmas about the small string operations of TextFmt.v
   (startswith, split, join, splitlines, strip, rfind, rsplit, formatting widths). *)
From PBK Require Import Base TextFmt.
From PBK Require Script ScriptProofs.
From Coq Require Import ZifyBool ZifyNat ZifyN.

(* ---- startswith ---------------------------------------------------------------------- *)
Lemma prefixb_app p s : prefixb p (p ++ s) = true.
Proof. induction p as [|a p IH]; cbn [prefixb app]; [reflexivity|]. rewrite N.eqb_refl, IH. reflexivity. Qed.

Lemma prefixb_nil_r p : prefixb p [] = match p with [] => true | _ => false end.
Proof. destruct p; reflexivity. Qed.

Lemma prefixb_hd_neq a p b s : a <> b -> prefixb (a :: p) (b :: s) = false.
Proof. intros H. cbn [prefixb]. destruct (N.eqb_spec a b); [contradiction|reflexivity]. Qed.

(* only the first |p| characters matter *)
Lemma prefixb_app_irrel p : forall u v w, (length p <= length u)%nat -> prefixb p (u ++ v) = prefixb p (u ++ w).
Proof.
  induction p as [|a p IH]; intros u v w L; [reflexivity|].
  destruct u as [|b u]; cbn [length] in L; [lia|].
  cbn [app prefixb]. rewrite (IH u v w) by lia. reflexivity.
Qed.

Lemma prefixb_true p s : prefixb p s = true -> exists t, s = p ++ t.
Proof.
  revert s; induction p as [|a p IH]; intros s H; [exists s; reflexivity|].
  destruct s as [|b s]; cbn [prefixb] in H; [discriminate|].
  apply andb_true_iff in H as [E H]. apply N.eqb_eq in E as ->. destruct (IH _ H) as [t ->]. exists t. reflexivity.
Qed.

(* ---- occurs ---------------------------------------------------------------------------- *)
Lemma occurs_cons p c s : occurs p (c :: s) = prefixb p (c :: s) || occurs p s.
Proof. reflexivity. Qed.

Lemma occurs_false_prefix p s : occurs p s = false -> prefixb p s = false.
Proof. destruct s; cbn [occurs]; intros H; apply orb_false_iff in H as [H _]; exact H. Qed.

Lemma occurs_false_tl p c s : occurs p (c :: s) = false -> occurs p s = false.
Proof. rewrite occurs_cons. intros H; apply orb_false_iff in H as [_ H]; exact H. Qed.

(* ---- split -------------------------------------------------------------------------------- *)
Lemma split_go_skip sep x : forall cur b, split_go sep (length x) cur (x ++ b) = split_go sep 0 cur b.
Proof.
  induction x as [|c x IH]; intros cur b; [reflexivity|].
  cbn [length app split_go]. apply IH.
Qed.

Lemma split_go_none sep b : forall cur, occurs sep b = false -> split_go sep 0 cur b = [rev cur ++ b].
Proof.
  induction b as [|c b IH]; intros cur H; cbn [split_go].
  - rewrite app_nil_r. reflexivity.
  - rewrite (occurs_false_prefix _ _ H). rewrite IH by (eapply occurs_false_tl; exact H).
    cbn [rev]. rewrite <- app_assoc. reflexivity.
Qed.

(* the first separator of a ++ sep ++ b is the one written there when sep does not
   occur in a followed by all but the last character of sep *)
Lemma split_go_first sep a b : sep <> [] -> forall cur,
  occurs sep (a ++ removelast sep) = false ->
  split_go sep 0 cur (a ++ sep ++ b) = (rev cur ++ a) :: split_go sep 0 [] b.
Proof.
  intros Hsep. induction a as [|c a IH]; intros cur H.
  - cbn [app]. destruct sep as [|s0 sep']; [contradiction|].
    cbn [app split_go]. change (s0 :: sep' ++ b) with ((s0 :: sep') ++ b). rewrite prefixb_app.
    rewrite app_nil_r. f_equal. replace (length (s0 :: sep') - 1)%nat with (length sep') by (cbn [length]; lia). apply split_go_skip.
  - cbn [app split_go].
    assert (P : prefixb sep (c :: a ++ sep ++ b) = false).
    { pose proof (occurs_false_prefix _ _ H) as P0. cbn [app] in P0.
      rewrite <- P0.
      rewrite (app_removelast_last 0%N Hsep) at 2. rewrite <- app_assoc.
      change (c :: a ++ removelast sep ++ [last sep 0%N] ++ b) with ((c :: a) ++ removelast sep ++ ([last sep 0%N] ++ b)).
      rewrite app_assoc. change (c :: a ++ removelast sep) with ((c :: a) ++ removelast sep).
      rewrite <- (app_nil_r ((c :: a) ++ removelast sep)) at 2.
      apply prefixb_app_irrel. rewrite app_length. cbn [length].
      assert (length sep = S (length (removelast sep))).
      { rewrite (app_removelast_last 0%N Hsep) at 1. rewrite app_length. cbn. lia. }
      lia. }
    rewrite P. rewrite IH by (eapply occurs_false_tl; exact H).
    cbn [rev]. rewrite <- app_assoc. reflexivity.
Qed.

Lemma split_two sep a b : sep <> [] ->
  occurs sep (a ++ removelast sep) = false -> occurs sep b = false ->
  split_str sep (a ++ sep ++ b) = [a; b].
Proof.
  intros Hsep Ha Hb. unfold split_str. rewrite split_go_first by assumption.
  rewrite split_go_none by exact Hb. reflexivity.
Qed.

(* ---- join / split('\n') ------------------------------------------------------------------- *)
Definition no_nl (s : str) : bool := negb (memc 10%N s).

Lemma nolb_no_nl s : nolb s = true -> no_nl s = true.
Proof.
  unfold nolb, no_nl, memc. induction s as [|c s IH]; [reflexivity|].
  cbn [forallb existsb]. intros H. apply andb_true_iff in H as [Hc H]. specialize (IH H).
  apply negb_true_iff in IH. rewrite IH, orb_false_r. apply negb_true_iff.
  destruct (N.eqb_spec 10 c) as [<-|]; [discriminate Hc|reflexivity].
Qed.

Lemma join_cons sep l r : r <> [] -> join sep (l :: r) = l ++ sep ++ join sep r.
Proof. destruct r; [contradiction|reflexivity]. Qed.

Lemma occurs_nl_false s : no_nl s = true -> occurs NL s = false.
Proof.
  unfold no_nl, memc, NL. induction s as [|c s IH]; [reflexivity|].
  cbn [existsb]. intros H. apply negb_true_iff, orb_false_iff in H as [Hc H].
  rewrite occurs_cons. cbn [prefixb]. rewrite Hc. cbn [andb orb]. apply IH. apply negb_true_iff. exact H.
Qed.

Lemma split_join_nl ls : ls <> [] -> forallb no_nl ls = true -> split_str NL (join NL ls) = ls.
Proof.
  induction ls as [|l r IH]; [contradiction|]. intros _ H.
  cbn [forallb] in H. apply andb_true_iff in H as [Hl Hr].
  destruct r as [|l2 r2].
  - cbn [join]. unfold split_str. rewrite split_go_none by (apply occurs_nl_false; exact Hl). reflexivity.
  - rewrite join_cons by discriminate. unfold split_str.
    rewrite split_go_first; [|discriminate|cbn [NL removelast]; rewrite app_nil_r; apply occurs_nl_false; exact Hl].
    cbn [rev app]. f_equal. apply IH; [discriminate|exact Hr].
Qed.

(* ---- splitlines ------------------------------------------------------------------------------ *)
Lemma splitlines_aux_last l : forall cur, nolb l = true ->
  Script.splitlines_aux cur false l = match rev cur ++ l with [] => [] | x => [x] end.
Proof.
  induction l as [|a l IH]; intros cur H; cbn [Script.splitlines_aux].
  - rewrite app_nil_r. destruct cur as [|c cur]; [reflexivity|].
    cbn [rev]. destruct (rev cur ++ [c]) eqn:E; [destruct (rev cur); discriminate|reflexivity].
  - unfold nolb in H. cbn [forallb] in H. apply andb_true_iff in H as [Ha H]. apply negb_true_iff in Ha.
    cbn [andb]. rewrite Ha. rewrite IH by exact H. cbn [rev]. rewrite <- app_assoc. reflexivity.
Qed.

Lemma splitlines_join ls : forallb nolb ls = true -> last ls [0%N] <> [] ->
  splitlines (join NL ls) = ls.
Proof.
  unfold splitlines, Script.splitlines.
  induction ls as [|l r IH]; intros H Hlast; [reflexivity|].
  cbn [forallb] in H. apply andb_true_iff in H as [Hl Hr].
  destruct r as [|l2 r2].
  - cbn [join last] in *. rewrite splitlines_aux_last by exact Hl. cbn [rev app].
    destruct l; [contradiction|reflexivity].
  - rewrite join_cons by discriminate. cbn [NL app].
    rewrite ScriptProofs.splitlines_aux_line by exact Hl. cbn [rev app]. f_equal.
    apply IH; [exact Hr|exact Hlast].
Qed.

(* lines = text.splitlines()[1:] *)
Lemma splitlines_join_tl k ls : nolb k = true -> forallb nolb ls = true -> last ls [0%N] <> [] ->
  tl (splitlines (join NL (k :: ls))) = ls.
Proof.
  intros Hk H Hlast. destruct ls as [|l r].
  - cbn [join]. unfold splitlines, Script.splitlines. rewrite splitlines_aux_last by exact Hk.
    cbn [rev app]. destruct k; reflexivity.
  - rewrite splitlines_join; [reflexivity| |exact Hlast]. cbn [forallb]. rewrite Hk. exact H.
Qed.

(* ---- widths ----------------------------------------------------------------------------------- *)
Lemma fmt_trunc_pad_length w s : length (fmt_trunc_pad w s) = w.
Proof.
  unfold fmt_trunc_pad. rewrite app_length, repeat_length.
  pose proof (firstn_le_length w s). lia.
Qed.

Lemma fixed_width_length v w : length (fixed_width_repr_of_int v w) = w.
Proof.
  unfold fixed_width_repr_of_int. destruct (Nat.ltb_spec w (length (dec v))).
  - apply repeat_length.
  - rewrite app_length, repeat_length. lia.
Qed.

Lemma skipn_app_exact {A} (a b : list A) n : length a = n -> skipn n (a ++ b) = b.
Proof. intros <-. rewrite skipn_app, skipn_all, Nat.sub_diag. reflexivity. Qed.

Lemma dec_digits n : forallb ScriptProofs.is_digit (dec n) = true.
Proof. apply ScriptProofs.uint_bytes_digits. Qed.

Lemma dec_nonempty n : dec n <> [].
Proof.
  unfold dec, Script.dec_bytes. intros H.
  assert (E : Script.uint_bytes (N.to_uint n) = Script.uint_bytes Decimal.Nil) by exact H.
  apply ScriptProofs.uint_bytes_inj in E.
  pose proof (DecimalN.Unsigned.of_to n) as T. rewrite E in T. cbn in T.
  destruct n as [|p]; [cbv in E; discriminate|].
  pose proof (DecimalN.Unsigned.to_of (N.to_uint (N.pos p))) as U. rewrite E in U at 2. discriminate T.
Qed.

(* the first character of a fixed-width number is a blank, an asterisk or a digit *)
Definition fw_char (c : N) : bool := (c =? 32)%N || (c =? 42)%N || ScriptProofs.is_digit c.

Lemma fixed_width_chars v w : forallb fw_char (fixed_width_repr_of_int v w) = true.
Proof.
  unfold fixed_width_repr_of_int. destruct (w <? length (dec v))%nat.
  - apply forallb_forall. intros c Hc. apply repeat_spec in Hc as ->. reflexivity.
  - rewrite forallb_app. apply andb_true_iff. split.
    + apply forallb_forall. intros c Hc. apply repeat_spec in Hc as ->. reflexivity.
    + pose proof (dec_digits v) as D. rewrite forallb_forall in *. intros c Hc. unfold fw_char. rewrite (D c Hc).
      rewrite orb_true_r. reflexivity.
Qed.

(* ---- strip ------------------------------------------------------------------------------------- *)
Definition tight (s : str) : Prop :=
  match s with [] => False | c :: _ => Script.is_space c = false end /\ Script.is_space (last s 0%N) = false.

Lemma lstrip_tight s : tight s -> Script.lstrip s = s.
Proof. intros [H _]. destruct s as [|c t]; [reflexivity|]. cbn [Script.lstrip]. rewrite H. reflexivity. Qed.

Lemma rev_last_hd (s : str) : s <> [] -> exists t, rev s = last s 0%N :: t.
Proof.
  intros H. exists (rev (removelast s)).
  assert (E : rev (removelast s ++ [last s 0%N]) = last s 0%N :: rev (removelast s)) by (rewrite rev_app_distr; reflexivity).
  rewrite <- app_removelast_last in E by exact H. exact E.
Qed.

Lemma rstrip_tight s : tight s -> Script.rstrip s = s.
Proof.
  intros [H0 H]. unfold Script.rstrip, byte. destruct s as [|c t]; [reflexivity|].
  destruct (rev_last_hd (c :: t)) as [u E]; [discriminate|]. rewrite E. cbn [Script.lstrip]. rewrite H.
  rewrite <- E. apply rev_involutive.
Qed.

Lemma strip_tight s : tight s -> strip s = s.
Proof. intros H. unfold strip, Script.strip. rewrite lstrip_tight by exact H. apply rstrip_tight, H. Qed.

Lemma lstrip_spaces n s : Script.lstrip (repeat 32%N n ++ s) = Script.lstrip s.
Proof. induction n as [|n IH]; [reflexivity|]. cbn [repeat app Script.lstrip]. exact IH. Qed.

Lemma strip_spaces n s : strip (repeat 32%N n ++ s) = strip s.
Proof. unfold strip, Script.strip. rewrite lstrip_spaces. reflexivity. Qed.

Lemma last_app_ne {A} (a b : list A) d : b <> [] -> last (a ++ b) d = last b d.
Proof.
  intros H. induction a as [|x a IH]; [reflexivity|]. cbn [app].
  destruct (a ++ b) eqn:E; [destruct a; [contradiction|discriminate]|]. rewrite <- IH. reflexivity.
Qed.
