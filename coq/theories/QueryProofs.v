(* QueryProofs.v — facts about the query model (C16). *)
From PBK Require Import Base Descr Walk Wire PySlice PathParser Query.
From Coq Require Import ZifyBool ZifyNat ZifyN Sorted.

(* ---- subset selection ------------------------------------------------------- *)
Lemma subset_selector_none n cs : subset_indices n (mkPath None cs) = Ok (map Z.of_nat (seq 0 n)).
Proof. reflexivity. Qed.

Lemma subset_selector_int n k cs : subset_indices n (mkPath (Some (SInt k)) cs) = Ok [k].
Proof. reflexivity. Qed.

(* '@[a:b:c]' restricts the result to exactly range(n)[a:b:c] *)
Lemma subset_selector_slice n a b c cs :
  subset_indices n (mkPath (Some (SSlice a b c)) cs) =
  (let* l := py_range_slice n a b c in Ok (map Z.of_nat l)).
Proof. reflexivity. Qed.

(* a plain slice [:] of range(n) is range(n) *)
Lemma slice_indices_up fuel : forall i stop,
  (0 <= i <= stop)%Z -> (Z.to_nat (stop - i) <= fuel)%nat ->
  slice_indices fuel i stop 1 = map Z.of_nat (seq (Z.to_nat i) (Z.to_nat (stop - i))).
Proof.
  induction fuel as [|f IH]; intros i stop Hi Hf.
  - replace (Z.to_nat (stop - i)) with O by lia. reflexivity.
  - cbn [slice_indices]. destruct (Z.ltb_spec 0 1); [|lia].
    destruct (Z.ltb_spec i stop).
    + rewrite IH by lia. replace (Z.to_nat (stop - i)) with (S (Z.to_nat (stop - (i + 1)))) by lia.
      cbn [seq map]. f_equal; [lia|]. f_equal. f_equal. lia.
    + replace (Z.to_nat (stop - i)) with O by lia. reflexivity.
Qed.

(* ---- document order ------------------------------------------------------------ *)
Definition idx_sorted (l : list (nat * qn)) : Prop := Sorted (fun a b => (fst a <= fst b)%nat) l.

Lemma insert_sorted x l : idx_sorted l -> idx_sorted (insert_by_idx x l).
Proof.
  unfold idx_sorted. induction l as [|y r IH]; intros Hs; cbn [insert_by_idx].
  - constructor; constructor.
  - destruct (Nat.leb_spec (fst y) (fst x)).
    + inversion Hs as [|? ? Hr Hh]; subst. constructor; [apply IH; exact Hr|].
      destruct r as [|z r']; cbn [insert_by_idx].
      * constructor. exact H.
      * destruct (Nat.leb_spec (fst z) (fst x)); constructor; [|exact H].
        inversion Hh; subst. assumption.
    + constructor; [exact Hs|]. constructor. lia.
Qed.

(* selected matches are always returned in document order, whatever the slice
   (negative steps included): sorted(filtered_nodes, key=index) *)
Theorem sort_by_idx_sorted l : idx_sorted (sort_by_idx l).
Proof.
  unfold sort_by_idx.
  assert (G : forall l acc, idx_sorted acc -> idx_sorted (fold_left (fun a x => insert_by_idx x a) l acc)).
  { induction l0 as [|x l0 IH]; intros acc Ha; cbn [fold_left]; [exact Ha|]. apply IH, insert_sorted, Ha. }
  apply G. constructor.
Qed.

Lemma insert_perm x l : forall y, In y (insert_by_idx x l) <-> y = x \/ In y l.
Proof.
  induction l as [|z r IH]; intros y; cbn [insert_by_idx].
  - cbn. intuition congruence.
  - destruct (fst z <=? fst x)%nat; cbn [In]; [rewrite IH|]; intuition congruence.
Qed.

(* sorting neither loses nor invents nodes *)
Theorem sort_by_idx_in l y : In y (sort_by_idx l) <-> In y l.
Proof.
  unfold sort_by_idx.
  assert (G : forall l acc, In y (fold_left (fun a x => insert_by_idx x a) l acc) <-> In y l \/ In y acc).
  { induction l0 as [|x l0 IH]; intros acc; cbn [fold_left In]; [tauto|].
    rewrite IH, insert_perm. intuition congruence. }
  rewrite G. cbn. tauto.
Qed.

(* the values of a result: only value nodes can be queried *)
Lemma values_of_valueless fuel n : (forall i, n <> QV i) -> values_of (S fuel) (RNode n) = Err EQuery.
Proof. intros H. destruct n; cbn; try reflexivity. exfalso. apply (H idx). reflexivity. Qed.

Lemma values_of_value fuel i : values_of (S fuel) (RNode (QV i)) = Ok (VIdx i).
Proof. reflexivity. Qed.
