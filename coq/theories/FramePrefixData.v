(* FramePrefixData.v — the hypothesis [cuts] of FramePrefix.v discharged for the
   REAL template decoder model of uncompressed data (Decode.decode_uncompressed
   over the full template walk Walk.v, any template, any number of subsets):
   on a truncated stream it returns the same result when the bits it consumes
   fit, and fails with a library error (the bit-read error) otherwise.
   Instance 4 of the generic simulation theorem WalkSim.walk_sim_gen. *)
From PBK Require Import Base Bits BitsProofs Descr Walk Coder WalkSim CoderSim Decode DecodeProofs Frame FramePrefix.
From Coq Require Import ZifyBool ZifyNat ZifyN.

Lemma cuts_read_int w : cuts (read_int w).
Proof.
  unfold read_int.
  apply (cuts_bind read_bool (fun s r1 => let* (m, r2) := read_uint (w - 1) r1 in
                                          Ok ((if s then - Z.of_N m else Z.of_N m)%Z, r2))); [apply cuts_read_bool|].
  intros s. apply (cuts_map (read_uint (w - 1)) (fun m => (if s then - Z.of_N m else Z.of_N m)%Z)), cuts_read_uint.
Qed.

Lemma cuts_read_uint_or_none w : cuts (read_uint_or_none w).
Proof.
  unfold read_uint_or_none.
  apply (cuts_bind (read_uint w) (fun v r' =>
           if (1 <? w)%Z then
             if (64 <? w)%Z then Err EIndex
             else if (v =? missing_value (Z.to_N w))%N then Ok (None, r') else Ok (Some v, r')
           else Ok (Some v, r'))); [apply cuts_read_uint|].
  intros v. destruct (1 <? w)%Z; [|apply cuts_ret].
  destruct (64 <? w)%Z; [apply cuts_err|]. destruct (v =? missing_value (Z.to_N w))%N; apply cuts_ret.
Qed.

(* ------------------------------------------------------------------------ *)
(* the truncation simulation: side 1 reads R = r ++ t, side 2 reads r         *)
(* ------------------------------------------------------------------------ *)
Section CutSim.
Variable t : bits.

Definition Rcut (d1 d2 : dstate) : Prop :=
  d_r d1 = d_r d2 ++ t /\ d_vals d1 = d_vals d2 /\ d_cur d1 = d_cur d2.

Notation st := (ws (io dstate)).
Definition rd (s : st) : reader := d_r (io_c (w_c s)).
Notation R := (Rst (Rio Rcut)).

Lemma R_len s1 s2 : R s1 s2 -> (length t <= length (rd s1))%nat.
Proof. intros [_ (_ & _ & (Hr & _))]. unfold rd. rewrite Hr, app_length. lia. Qed.

(* the first side only consumes a prefix of its reader *)
Definition suff (f : st -> result st) : Prop :=
  forall s s', f s = Ok s' -> exists e, rd s = e ++ rd s'.

(* [cutf f1 f2]: if f1 succeeds on the full stream, f2 on the truncated one
   succeeds (related result) when what f1 left unread still contains the whole
   cut-off part t, and fails with a library error otherwise *)
Definition cutf (f1 f2 : st -> result st) : Prop :=
  suff f1 /\
  forall s1 s2 s1', R s1 s2 -> f1 s1 = Ok s1' ->
    if (length t <=? length (rd s1'))%nat then exists s2', f2 s2 = Ok s2' /\ R s1' s2'
    else lib_fail (f2 s2).

Lemma cut_ret : cutf (fun s => Ok s) (fun s => Ok s).
Proof.
  split.
  - intros s s' E. injection E as <-. exists []. reflexivity.
  - intros s1 s2 s1' HR E. injection E as <-. pose proof (R_len _ _ HR).
    destruct (Nat.leb_spec (length t) (length (rd s1))); [eauto|lia].
Qed.

Lemma cut_bind f1 f2 g1 g2 :
  cutf f1 f2 -> cutf g1 g2 -> cutf (fun s => bind (f1 s) g1) (fun s => bind (f2 s) g2).
Proof.
  intros [Sf Hf] [Sg Hg]. split.
  - intros s s' E. apply bind_ok in E as (m & E1 & E2).
    destruct (Sf _ _ E1) as (e1 & X1). destruct (Sg _ _ E2) as (e2 & X2).
    exists (e1 ++ e2). rewrite X1, X2, app_assoc. reflexivity.
  - intros s1 s2 s1' HR E. apply bind_ok in E as (m1 & E1 & E2).
    specialize (Hf _ _ _ HR E1).
    destruct (Nat.leb_spec (length t) (length (rd m1))) as [Hle|Hgt].
    + destruct Hf as (m2 & F2 & HRm). rewrite F2. cbn [bind]. exact (Hg _ _ _ HRm E2).
    + destruct (Sg _ _ E2) as (e2 & X2).
      assert (length (rd s1') <= length (rd m1))%nat by (rewrite X2, app_length; lia).
      destruct (Nat.leb_spec (length t) (length (rd s1'))); [lia|]. apply lib_fail_bind, Hf.
Qed.

Lemma cut_ext f1 f1' f2 f2' :
  (forall s, f1 s = f1' s) -> (forall s, f2 s = f2' s) -> cutf f1 f2 -> cutf f1' f2'.
Proof.
  intros X1 X2 [Sf Hf]. split.
  - intros s s' E. rewrite <- X1 in E. exact (Sf _ _ E).
  - intros s1 s2 s1' HR E. rewrite <- X1 in E. rewrite <- X2. exact (Hf _ _ _ HR E).
Qed.

(* handlers that leave the client alone: lock-step simulation is enough *)
Lemma cut_of_sim f1 f2 :
  (forall s s', f1 s = Ok s' -> rd s' = rd s) -> simf (Rio Rcut) f1 f2 -> cutf f1 f2.
Proof.
  intros Hrd Hs. split.
  - intros s s' E. exists []. rewrite (Hrd _ _ E). reflexivity.
  - intros s1 s2 s1' HR E. rewrite (Hrd _ _ E). pose proof (R_len _ _ HR).
    destruct (Nat.leb_spec (length t) (length (rd s1))); [|lia]. exact (Hs _ _ _ HR E).
Qed.

Lemma cut_upd (f : regs -> regs) : cutf (fun s => Ok (upd_r f s)) (fun s => Ok (upd_r f s)).
Proof.
  apply cut_of_sim; [|apply sim_upd]. intros s s' E. injection E as <-. reflexivity.
Qed.

Lemma cut_regs (F1 F2 : regs -> st -> result st) :
  (forall r, cutf (F1 r) (F2 r)) -> cutf (fun s => F1 (w_r s) s) (fun s => F2 (w_r s) s).
Proof.
  intros HF. split.
  - intros s s' E. exact (proj1 (HF (w_r s)) _ _ E).
  - intros s1 s2 s1' HR E. pose proof HR as [Hr _]. rewrite <- Hr.
    exact (proj2 (HF (w_r s1)) _ _ _ HR E).
Qed.

Lemma cut_err e f2 : cutf (fun _ => Err e) f2.
Proof. split; [intros s s' E|intros s1 s2 s1' _ E]; discriminate. Qed.

Lemma cut_iter n f1 f2 : cutf f1 f2 -> cutf (iter_res n f1) (iter_res n f2).
Proof. apply (c_iter cutf cut_ret cut_bind cut_ext). Qed.

(* ---- the primitives of the decoder ------------------------------------------ *)
Definition cutp (f1 f2 : dstate -> result dstate) : Prop :=
  (forall c c', f1 c = Ok c' -> exists e, d_r c = e ++ d_r c') /\
  forall c1 c2 c1', Rcut c1 c2 -> f1 c1 = Ok c1' ->
    if (length t <=? length (d_r c1'))%nat then exists c2', f2 c2 = Ok c2' /\ Rcut c1' c2'
    else lib_fail (f2 c2).

Lemma cut_lift dd f1 f2 : cutp f1 f2 -> cutf (lift dd f1) (lift dd f2).
Proof.
  intros [Sf Hf]. split.
  - intros s s' E. unfold lift in E. apply bind_ok in E as (c & E1 & E). injection E as <-.
    cbn in E1. destruct (Sf _ _ E1) as (e & X). exists e. exact X.
  - intros s1 s2 s1' [Hr (Hdd & Hl & Hc)] E. unfold lift in *.
    apply bind_ok in E as (c1' & E1 & E). injection E as <-. cbn in E1.
    specialize (Hf _ _ _ Hc E1). unfold rd. cbn [with_c push_dd w_c io_c] in *.
    destruct (length t <=? length (d_r c1'))%nat.
    + destruct Hf as (c2' & E2 & Hc'). rewrite E2. cbn [bind]. eexists; split; [reflexivity|].
      split; cbn; [exact Hr|]. repeat split; cbn; congruence || apply Hc'.
    + apply lib_fail_bind, Hf.
Qed.

(* a reader operation that cuts, followed by the recording of its value *)
Lemma cutp_of_cuts {A} (rdop : reader -> result (A * reader)) (g : A -> value) :
  cuts rdop ->
  cutp (fun d => let* (v, r') := rdop (d_r d) in Ok (d_append (g v) d r'))
       (fun d => let* (v, r') := rdop (d_r d) in Ok (d_append (g v) d r')).
Proof.
  intros Hc. split.
  - intros c c' E. apply bind_ok in E as ([v r'] & E1 & E). injection E as <-.
    destruct (Hc _ _ _ E1) as (e & X & _). exists e. exact X.
  - intros c1 c2 c1' HR E. pose proof HR as (Hr & Hv & Hcur).
    apply bind_ok in E as ([v r'] & E1 & E). injection E as <-. cbn [d_append d_r].
    destruct (Hc _ _ _ E1) as (e & X & K). specialize (K (length (d_r c2))).
    assert (Hf : firstn (length (d_r c2)) (d_r c1) = d_r c2) by (rewrite Hr; apply firstn_app_exact; reflexivity).
    rewrite Hf in K. destruct K as [Ka Kb].
    assert (L : (length (d_r c2) + length t = length e + length r')%nat)
      by (rewrite <- !app_length, <- Hr, <- X; reflexivity).
    destruct (Nat.leb_spec (length t) (length r')) as [Hle|Hgt].
    + rewrite Ka by lia. cbn [bind]. eexists; split; [reflexivity|].
      unfold Rcut, d_append. cbn [d_r d_vals d_cur]. rewrite Hv, Hcur. split; [|split; reflexivity].
      (* r' = firstn .. r' ++ t *)
      assert (Y : skipn (length e) (d_r c1) = r') by (rewrite X; apply skipn_app_exact; reflexivity).
      rewrite Hr in Y. rewrite skipn_app in Y.
      replace (length e - length (d_r c2))%nat with 0%nat in Y by lia. cbn [skipn] in Y.
      rewrite <- Y at 1. f_equal. rewrite <- Y.
      rewrite firstn_app, skipn_length.
      replace (length (d_r c2) - length e - (length (d_r c2) - length e))%nat with 0%nat by lia.
      cbn [firstn]. rewrite app_nil_r. symmetry. apply firstn_all2. rewrite skipn_length. lia.
    + apply lib_fail_bind, Kb. lia.
Qed.

Lemma cutp_numeric a b c : cutp (dec_numeric a b c) (dec_numeric a b c).
Proof.
  apply (cutp_of_cuts (read_uint_or_none a)
           (fun v => match v with None => VNone | Some raw => numeric_value raw b c end)), cuts_read_uint_or_none.
Qed.

Lemma cutp_string a : cutp (dec_string a) (dec_string a).
Proof. apply (cutp_of_cuts (read_bytes a) VBytes), cuts_read_bytes. Qed.

Lemma cutp_codeflag a b : cutp (dec_codeflag a b) (dec_codeflag a b).
Proof.
  apply (cutp_of_cuts (read_uint_or_none a)
           (fun v => match v with None => VNone | Some raw => VInt (Z.of_N raw) end)), cuts_read_uint_or_none.
Qed.

Lemma cutp_constant a : cutp (dec_constant a) (dec_constant a).
Proof.
  split.
  - intros c c' E. injection E as <-. exists []. reflexivity.
  - intros c1 c2 c1' HR E. injection E as <-. pose proof HR as (Hr & Hv & Hcur). cbn [d_append d_r].
    destruct (Nat.leb_spec (length t) (length (d_r c1))); [|rewrite Hr, app_length in *; lia].
    eexists; split; [reflexivity|]. unfold Rcut, d_append. cbn [d_r d_vals d_cur]. rewrite Hv, Hcur. auto.
Qed.

Lemma Rcut_cur_vals c1 c2 : Rcut c1 c2 -> cur_vals c1 = cur_vals c2.
Proof. intros (_ & Hv & Hc). unfold cur_vals. rewrite Hv, Hc. reflexivity. Qed.

(* ---- the walk ----------------------------------------------------------------- *)
Notation H := (io_handlers dec_prims).

Theorem dec_walk_cut :
  (forall d, cutf (walk H io_add_link d) (walk H io_add_link d)) /\
  (forall ms, cutf (walk_list H io_add_link ms) (walk_list H io_add_link ms)).
Proof.
  apply (walk_sim_gen H H io_add_link io_add_link cutf cut_ret cut_bind cut_ext cut_upd cut_regs cut_err);
    cbn [io_handlers h_numeric h_numeric_new_refval h_string h_codeflag h_new_refval
      h_constant h_define_bitmap h_mark_boundary h_recall_bitmap h_cancel_bitmap h_cancel_backrefs
      h_add_bitmap_link h_bitmap_def_wrap h_fixed h_delayed h_bitmapped
      dec_prims p_numeric p_string p_codeflag p_constant p_new_refval p_factor p_bitmap].
  - intros; apply cut_lift, cutp_numeric.
  - intros dd a b c.
    apply (cut_regs (fun r s => match refval_lookup (dd_id dd) (r_new_refvals r) with
                                | None => Err EKey | Some None => Err EType
                                | Some (Some v) => lift dd (dec_numeric a b (v * c)) s end)
                    (fun r s => match refval_lookup (dd_id dd) (r_new_refvals r) with
                                | None => Err EKey | Some None => Err EType
                                | Some (Some v) => lift dd (dec_numeric a b (v * c)) s end)).
    intros r. destruct (refval_lookup _ _) as [[v|]|]; try apply cut_err. apply cut_lift, cutp_numeric.
  - intros; apply cut_lift, cutp_string.
  - intros; apply cut_lift, cutp_codeflag.
  - (* new_refval *)
    intros dd a. split.
    + intros s s' E. apply bind_ok in E as ([z c'] & E1 & E). injection E as <-. cbn in E1.
      unfold dec_new_refval in E1. apply bind_ok in E1 as ([v r'] & E2 & E1). injection E1 as <- <-.
      destruct (cuts_read_int _ _ _ _ E2) as (e & X & _). exists e. exact X.
    + intros s1 s2 s1' [Hr (Hdd & Hl & Hc)] E.
      apply bind_ok in E as ([z c1'] & E1 & E). injection E as <-. cbn in E1.
      pose proof (cutp_of_cuts (read_int a) VInt (cuts_read_int a)) as [_ Hp].
      unfold dec_new_refval in E1. apply bind_ok in E1 as ([v r'] & E2 & E1). injection E1 as <- <-.
      specialize (Hp _ _ (d_append (VInt v) (io_c (w_c s1)) r') Hc). cbn beta in Hp. rewrite E2 in Hp.
      specialize (Hp eq_refl). unfold rd. cbn [upd_r with_c push_dd w_c io_c] in *.
      destruct (length t <=? length (d_r (d_append (VInt v) (io_c (w_c s1)) r')))%nat.
      * destruct Hp as (c2' & E3 & Hc'). unfold dec_new_refval.
        destruct (read_int a (d_r (io_c (w_c s2)))) as [[v2 r2]|] eqn:E4; [|discriminate].
        cbn [bind] in E3 |- *. injection E3 as <-.
        assert (v2 = v).
        { destruct Hc' as (_ & Hv' & _). unfold d_append in Hv'. cbn [d_vals] in Hv'.
          pose proof Hc as (_ & Hv0 & Hc0). rewrite Hv0, Hc0 in Hv'.
          unfold upd_nth in Hv'. apply app_inv_head in Hv'.
          destruct (skipn (d_cur (io_c (w_c s2))) (d_vals (io_c (w_c s2)))) as [|x l] eqn:Es.
          - (* no current list: the value is not recorded; read it off the streams instead *)
            clear Hv'. pose proof Hc as (Hr0 & _).
            destruct (cuts_read_int _ _ _ _ E2) as (e & X & K).
            specialize (K (length (d_r (io_c (w_c s2))))).
            assert (Hf : firstn (length (d_r (io_c (w_c s2)))) (d_r (io_c (w_c s1))) = d_r (io_c (w_c s2)))
              by (rewrite Hr0; apply firstn_app_exact; reflexivity).
            rewrite Hf in K. destruct K as [Ka Kb].
            destruct (Nat.le_gt_cases (length e) (length (d_r (io_c (w_c s2))))) as [Hle|Hgt].
            + rewrite Ka in E4 by exact Hle. injection E4 as <- _. reflexivity.
            + destruct (Kb Hgt) as (er & Er & _). rewrite Er in E4. discriminate.
          - injection Hv' as Hv'. apply app_inv_head in Hv'. injection Hv' as <-. reflexivity. }
        subst v2. eexists; split; [reflexivity|].
        split; cbn; [congruence|]. repeat split; cbn; congruence || apply Hc'.
      * unfold dec_new_refval. destruct Hp as (er & Ep & Hl'). 
        destruct (read_int a (d_r (io_c (w_c s2)))) as [[v2 r2]|e2] eqn:E4; [discriminate|].
        cbn [bind] in Ep |- *. exists e2. split; [reflexivity|]. injection Ep as ->. exact Hl'.
  - intros; apply cut_lift, cutp_constant.
  - (* define_bitmap: the client is only inspected *)
    intros reuse. apply cut_of_sim.
    + intros s s' E. apply bind_ok in E as (bm & _ & E). unfold build_bitmapped in E.
      apply bind_ok in E as (refs & _ & E). destruct (negb _); [discriminate|]. injection E as <-.
      destruct reuse; reflexivity.
    + intros s1 s2 s1' HR E. pose proof HR as [Hr (Hdd & Hl & Hc)]. rewrite <- Hr.
      apply bind_ok in E as (bm & E1 & E). unfold dec_bitmap in *. rewrite <- (Rcut_cur_vals _ _ Hc).
      rewrite E1. cbn [bind]. eapply sim_build_bitmapped; [|exact E].
      destruct reuse; [apply Rst_upd|]; exact HR.
  - (* mark boundary *)
    apply cut_of_sim; [intros s s' E; injection E as <-; reflexivity|].
    intros s1 s2 s1' HR E. injection E as <-. eexists; split; [reflexivity|].
    pose proof HR as [Hr (Hdd & Hl & Hc)]. unfold ndesc. rewrite <- Hdd. apply Rst_upd. exact HR.
  - apply cut_of_sim.
    + intros s s' E. destruct (r_bitmapped (w_r s)); [|discriminate]. injection E as <-. reflexivity.
    + intros s1 s2 s1' HR E. pose proof HR as [Hr _]. rewrite <- Hr.
      destruct (r_bitmapped (w_r s1)); [|discriminate]. injection E as <-.
      eexists; split; [reflexivity|apply Rst_upd; exact HR].
  - apply cut_upd.
  - apply cut_upd.
  - (* add_bitmap_link *)
    apply cut_of_sim.
    + intros s s' E. apply bind_ok in E as ([b r'] & _ & E). unfold io_add_link in E. injection E as <-. reflexivity.
    + intros s1 s2 s1' HR E. pose proof HR as [Hr (Hdd & Hl & Hc)]. rewrite <- Hr.
      destruct (next_bitmapped (w_r s1)) as [[b r']|]; cbn [bind] in E |- *; [|discriminate].
      unfold io_add_link in *. injection E as <-. eexists; split; [reflexivity|].
      unfold ndesc. cbn. split; cbn; [reflexivity|]. split; [|split]; cbn; [congruence|congruence|exact Hc].
  - intros f1 f2 Hf. exact Hf.
  - intros n f1 f2 Hf. apply cut_iter. exact Hf.
  - (* delayed replication: the factor is a decoded value, the same on both sides *)
    intros f1 f2 Hf. pose proof (fun n => cut_iter n _ _ Hf) as Hit. split.
    + intros s s' E. apply bind_ok in E as (n & _ & E). exact (proj1 (Hit n) _ _ E).
    + intros s1 s2 s1' HR E. pose proof HR as [Hr (Hdd & Hl & Hc)].
      apply bind_ok in E as (n & E1 & E). unfold dec_factor in *. rewrite <- (Rcut_cur_vals _ _ Hc).
      rewrite E1. cbn [bind]. exact (proj2 (Hit n) _ _ _ HR E).
  - intros id f1 f2 Hf. exact Hf.
  - (* io_add_link *)
    intros idx. apply cut_of_sim; [intros s s' E; unfold io_add_link in E; injection E as <-; reflexivity|].
    intros s1 s2 s1' [Hr (Hdd & Hl & Hc)] E. unfold io_add_link in *. injection E as <-.
    eexists; split; [reflexivity|]. unfold ndesc. cbn.
    split; cbn; [exact Hr|]. split; [|split]; cbn; [congruence|congruence|exact Hc].
Qed.

End CutSim.

(* ------------------------------------------------------------------------ *)
(* the loop over subsets and decode_uncompressed                             *)
(* ------------------------------------------------------------------------ *)
Lemma run_subsets_cut t T : forall n i c1 c2 acc outs c1',
  Rcut t c1 c2 -> run_subsets dec_prims T dec_switch i n c1 acc = Ok (outs, c1') ->
  (exists e, d_r c1 = e ++ d_r c1') /\
  if (length t <=? length (d_r c1'))%nat
  then exists c2', run_subsets dec_prims T dec_switch i n c2 acc = Ok (outs, c2') /\ Rcut t c1' c2'
  else lib_fail (run_subsets dec_prims T dec_switch i n c2 acc).
Proof.
  induction n as [|n IH]; intros i c1 c2 acc outs c1' HR E; cbn [run_subsets] in *.
  - injection E as <- <-. split; [exists []; reflexivity|].
    pose proof HR as (Hr & _). destruct (Nat.leb_spec (length t) (length (d_r c1))); [eauto|].
    rewrite Hr, app_length in *. lia.
  - unfold run_template in *. apply bind_ok in E as (s1 & E1 & E).
    destruct (dec_walk_cut t) as [_ Hw]. destruct (Hw T) as [Sw Cw].
    assert (HR0 : Rst (Rio (Rcut t)) (mkWs regs0 (mkIo [] [] (dec_switch i c1))) (mkWs regs0 (mkIo [] [] (dec_switch i c2)))).
    { split; cbn; [reflexivity|]. split; [reflexivity|]. split; [reflexivity|].
      destruct HR as (Hr & Hv & Hc). repeat split; cbn; assumption. }
    destruct (Sw _ _ E1) as (e1 & X1). unfold rd in X1. cbn in X1.
    specialize (Cw _ _ _ HR0 E1). unfold rd in Cw.
    destruct (Nat.leb_spec (length t) (length (d_r (io_c (w_c s1))))) as [Hle|Hgt].
    + destruct Cw as (s2 & E2 & [Hr2 (Hdd & Hl & Hc2)]).
      destruct (IH _ _ _ _ _ _ Hc2 E) as ((e2 & X2) & Hrest).
      split; [exists (e1 ++ e2); rewrite X1, X2, app_assoc; reflexivity|].
      rewrite E2. cbn [bind]. rewrite <- Hdd, <- Hl. exact Hrest.
    + (* the walk of this subset already ran out of bits *)
      assert (Hsuf : exists e2, d_r (io_c (w_c s1)) = e2 ++ d_r c1').
      { clear -E. revert E. generalize (io_c (w_c s1)) (acc ++ [mkSubsetOut (io_dd (w_c s1)) (io_links (w_c s1))]) (S i).
        induction n as [|n IHn]; intros c acc' j E; cbn [run_subsets] in E.
        - injection E as _ <-. exists []. reflexivity.
        - unfold run_template in E. apply bind_ok in E as (s & E1 & E).
          destruct (dec_walk_cut []) as [_ Hw]. destruct (proj1 (Hw T) _ _ E1) as (e1 & X1). unfold rd in X1. cbn in X1.
          destruct (IHn _ _ _ E) as (e2 & X2). exists (e1 ++ e2). rewrite X1, X2, app_assoc. reflexivity. }
      destruct Hsuf as (e2 & X2).
      split; [exists (e1 ++ e2); rewrite X1, X2, app_assoc; reflexivity|].
      destruct (Nat.leb_spec (length t) (length (d_r c1'))) as [Hle'|_].
      * exfalso. rewrite X2, app_length in Hgt. lia.
      * apply lib_fail_bind, Cw.
Qed.

(* Decode.decode_uncompressed cuts: any template, any number of subsets *)
Theorem decode_uncompressed_cuts T n :
  cuts (fun r => let* (ov, rest) := (let* (outs, vals, rest) := decode_uncompressed T n r in Ok (outs, vals, rest)) in
                 Ok (ov, rest)).
Proof.
  apply cuts_intro_le. intros R0 [outs vals] R' E.
  apply bind_ok in E as ([[o v] rest] & E & E'). injection E' as <- <- <-.
  apply bind_ok in E as ([[o' v'] rest'] & E & E'). injection E' as <- <- <-.
  unfold decode_uncompressed in E. apply bind_ok in E as ([o1 d] & E & E'). injection E' as <- <- <-.
  (* the prefix *)
  assert (HR0 : Rcut [] (mkD R0 (repeat [] n) 0) (mkD R0 (repeat [] n) 0)) by (repeat split; cbn; rewrite ?app_nil_r; reflexivity).
  destruct (run_subsets_cut [] T _ _ _ _ _ _ _ HR0 E) as ((e & X) & _). cbn [d_r] in X.
  exists e. split; [exact X|]. intros k Hk.
  set (t := skipn k R0). set (r := firstn k R0).
  assert (HR : Rcut t (mkD R0 (repeat [] n) 0) (mkD r (repeat [] n) 0)).
  { repeat split; cbn. unfold r, t. symmetry. apply firstn_skipn. }
  destruct (run_subsets_cut t T _ _ _ _ _ _ _ HR E) as (_ & C).
  assert (Lt : length t = (length R0 - k)%nat) by (unfold t; apply skipn_length).
  assert (LR : length R0 = (length e + length (d_r d))%nat) by (rewrite X, app_length; reflexivity).
  unfold decode_uncompressed. fold r. split.
  - intros Hle. destruct (Nat.leb_spec (length t) (length (d_r d))); [|lia].
    destruct C as (c2' & E2 & (Hr2 & Hv2 & _)). rewrite E2. cbn [bind]. rewrite <- Hv2.
    f_equal. f_equal.
    (* d_r d = d_r c2' ++ t, so d_r c2' is its first k - |e| bits *)
    rewrite Hr2. rewrite firstn_app.
    assert (L2 : length (d_r c2') = (k - length e)%nat).
    { apply (f_equal (@length bool)) in Hr2. rewrite app_length in Hr2. lia. }
    rewrite L2, Nat.sub_diag. cbn [firstn]. rewrite app_nil_r. symmetry. apply firstn_all2. lia.
  - intros Hlt. destruct (Nat.leb_spec (length t) (length (d_r d))); [lia|].
    apply lib_fail_bind, lib_fail_bind, lib_fail_bind. exact C.
Qed.

(* ------------------------------------------------------------------------ *)
(* the template decoder of the framing model, instantiated with the real      *)
(* uncompressed data decoder: the (expanded) template and the number of       *)
(* subsets are functions of the attributes decoded so far (sections 1 and 3;  *)
(* table lookup and expansion are outside the framing model)                  *)
(* ------------------------------------------------------------------------ *)
Definition dd_uncompressed (T_of : list (pname * pvalue) -> descs) (n_of : list (pname * pvalue) -> nat)
    (props : list (pname * pvalue)) (r : reader) : result (bits * reader) :=
  let* (outs, vals, rest) := decode_uncompressed (T_of props) (n_of props) r in
  Ok (firstn (length r - length rest) r, rest).

Lemma decode_uncompressed_reads_prefix T n r outs vals rest :
  decode_uncompressed T n r = Ok (outs, vals, rest) -> exists e, r = e ++ rest.
Proof.
  intros E.
  assert (E' : (let* (ov, rest0) := (let* (outs0, vals0, rest0) := decode_uncompressed T n r in Ok (outs0, vals0, rest0)) in
                Ok (ov, rest0)) = Ok ((outs, vals), rest)) by (rewrite E; reflexivity).
  destruct (decode_uncompressed_cuts T n _ _ _ E') as (e & X & _). exists e. exact X.
Qed.

Lemma dd_uncompressed_prefix T_of n_of : forall p r b r',
  dd_uncompressed T_of n_of p r = Ok (b, r') -> r = b ++ r'.
Proof.
  intros p r b r' E. unfold dd_uncompressed in E. apply bind_ok in E as ([[o v] rest] & E & E'). injection E' as <- <-.
  destruct (decode_uncompressed_reads_prefix _ _ _ _ _ _ E) as (e & X).
  rewrite X at 2 3. rewrite app_length. replace (length e + length rest - length rest)%nat with (length e) by lia.
  rewrite firstn_app_exact by reflexivity. exact X.
Qed.

Lemma dd_uncompressed_suffix T_of n_of : forall p r b r' s,
  dd_uncompressed T_of n_of p r = Ok (b, r') -> dd_uncompressed T_of n_of p (r ++ s) = Ok (b, r' ++ s).
Proof.
  intros p r b r' s E. unfold dd_uncompressed in *. apply bind_ok in E as ([[o v] rest] & E & E'). injection E' as <- <-.
  rewrite (decode_suffix_independent _ _ _ s _ _ _ E). cbn [bind].
  destruct (decode_uncompressed_reads_prefix _ _ _ _ _ _ E) as (e & X).
  f_equal. f_equal. rewrite !app_length.
  replace (length r + length s - (length rest + length s))%nat with (length r - length rest)%nat by lia.
  rewrite firstn_app. replace (length r - length rest - length r)%nat with 0%nat by lia.
  cbn [firstn]. rewrite app_nil_r. reflexivity.
Qed.

Lemma dd_uncompressed_cuts T_of n_of : forall p, cuts (dd_uncompressed T_of n_of p).
Proof.
  intros p. apply cuts_intro_le. intros R0 b R' E.
  unfold dd_uncompressed in E. apply bind_ok in E as ([[o v] rest] & E & E'). injection E' as <- <-.
  assert (E' : (let* (ov, rest0) := (let* (outs0, vals0, rest0) := decode_uncompressed (T_of p) (n_of p) R0 in Ok (outs0, vals0, rest0)) in
                Ok (ov, rest0)) = Ok ((o, v), rest)) by (rewrite E; reflexivity).
  destruct (decode_uncompressed_cuts _ _ _ _ _ E') as (e & X & K).
  exists e. split; [exact X|]. intros k Hk. specialize (K k). destruct K as [Ka Kb].
  assert (LR : length R0 = (length e + length rest)%nat) by (rewrite X, app_length; reflexivity).
  unfold dd_uncompressed. split.
  - intros Hle. specialize (Ka Hle).
    destruct (decode_uncompressed (T_of p) (n_of p) (firstn k R0)) as [[[o2 v2] rest2]|er]; [|discriminate].
    cbn [bind] in Ka |- *. injection Ka as <- <- ->. f_equal. f_equal.
    rewrite !firstn_length, Nat.min_l by exact Hk. rewrite Nat.min_l by lia.
    replace (k - (k - length e))%nat with (length e) by lia. replace (length R0 - length rest)%nat with (length e) by lia.
    rewrite firstn_firstn, Nat.min_l by exact Hle. reflexivity.
  - intros Hlt. destruct (Kb Hlt) as (er & Er & Hl).
    destruct (decode_uncompressed (T_of p) (n_of p) (firstn k R0)) as [[[o2 v2] rest2]|er2]; [discriminate|].
    cbn [bind] in Er |- *. injection Er as ->. exists er. auto.
Qed.

(* ------------------------------------------------------------------------ *)
(* the message-level theorems for the real uncompressed template decoder     *)
(* ------------------------------------------------------------------------ *)
From PBK Require Import FrameRoundtrip FramePrefixEnc.

Section Uncompressed.
Variable T_of : list (pname * pvalue) -> descs.
Variable n_of : list (pname * pvalue) -> nat.
Notation dd := (dd_uncompressed T_of n_of).

Theorem message_trailing_bytes_uncompressed : forall sig info ign s t m,
  decode_message dd sig info ign s = Ok m ->
  decode_message dd sig info ign (s ++ t) = Ok m.
Proof.
  intros sig info ign s t m H.
  apply (message_trailing_bytes dd (dd_uncompressed_prefix T_of n_of) (dd_uncompressed_suffix T_of n_of) _ _ _ _ t _ H).
Qed.

Theorem message_cut_uncompressed : forall sig info ign s m,
  decode_message dd sig info ign s = Ok m ->
  forall k,
    if holds_message sig s m k
    then decode_message dd sig info ign (firstn k s) = Ok m
    else lib_fail (decode_message dd sig info ign (firstn k s)).
Proof. exact (message_cut dd (dd_uncompressed_cuts T_of n_of)). Qed.

Theorem encoded_prefix_fails_uncompressed : forall ign json m k,
  encode_message ign json = Ok m ->
  forallb sec_fitsb (m_sections m) = true -> forallb desc_fill_okb (m_sections m) = true ->
  data_okb dd [] (m_sections m) = true ->
  (k < length (m_bytes m))%nat ->
  lib_fail (decode_message dd (Some sig_BUFR) false false (firstn k (m_bytes m))).
Proof.
  intros ign json m k Henc Hf Hd Hdat Hk.
  apply (encoded_prefix_fails dd (dd_uncompressed_prefix T_of n_of) (dd_uncompressed_suffix T_of n_of)
           (dd_uncompressed_cuts T_of n_of) ign json m k Henc);
    [apply sec_fitsb_sound, Hf|apply desc_fill_okb_all, Hd|
     apply (data_okb_sound dd (dd_uncompressed_prefix T_of n_of) (dd_uncompressed_suffix T_of n_of)), Hdat|exact Hk].
Qed.

Theorem encoded_info_prefix_uncompressed : forall ign json m,
  encode_message ign json = Ok m ->
  forallb sec_fitsb (m_sections m) = true -> forallb desc_fill_okb (m_sections m) = true ->
  data_okb dd [] (m_sections m) = true ->
  exists mi,
    decode_message dd (Some sig_BUFR) true false (m_bytes m) = Ok mi /\
    sections_nbits (m_sections mi) = (8 * (length (m_bytes m) - 4))%nat /\
    forall k,
      ((length (m_bytes m) - 4 <= k)%nat ->
         decode_message dd (Some sig_BUFR) true false (firstn k (m_bytes m)) = Ok mi) /\
      ((k < length (m_bytes m) - 4)%nat ->
         lib_fail (decode_message dd (Some sig_BUFR) true false (firstn k (m_bytes m)))).
Proof.
  intros ign json m Henc Hf Hd Hdat.
  apply (encoded_info_prefix dd (dd_uncompressed_prefix T_of n_of) (dd_uncompressed_suffix T_of n_of)
           (dd_uncompressed_cuts T_of n_of) ign json m Henc);
    [apply sec_fitsb_sound, Hf|apply desc_fill_okb_all, Hd|
     apply (data_okb_sound dd (dd_uncompressed_prefix T_of n_of) (dd_uncompressed_suffix T_of n_of)), Hdat].
Qed.
End Uncompressed.

(* ---- non-vacuity: a template with a delayed replication and a string, two subsets ---- *)
Definition exT : descs :=
  descs_of_list
    [DElem (mkElem 4001 [97]%N 0 0 12);
     DDelayed 101000 (DElem (mkElem 31001 [97]%N 0 0 8))
              (descs_of_list [DElem (mkElem 12001 [97]%N 1 0 12)]);
     DElem (mkElem 1015 UNITS_STRING 0 0 16)].
Definition exT_of (_ : list (pname * pvalue)) : descs := exT.
Definition exn_of (props : list (pname * pvalue)) : nat :=
  match prop_get Nn_subsets props with Some (PUint z) => Z.to_nat z | _ => O end.

(* subset 1: 2024, two repetitions (273.1, 280.5), "AB"; subset 2: 2025, none, "CD" *)
Definition ex_data : bits :=
  to_bits 12 2024 ++ to_bits 8 2 ++ to_bits 12 2731 ++ to_bits 12 2805 ++ to_bits 8 65 ++ to_bits 8 66 ++
  to_bits 12 2025 ++ to_bits 8 0 ++ to_bits 8 67 ++ to_bits 8 68.

Definition exu_json : list (list pvalue) :=
  [[PBytes sig_BUFR; PUint 0; PUint 4];
   [PUint 0; PUint 0; PUint 7; PUint 0; PUint 0; PBool false; PBin (zeros 7); PUint 2; PUint 0; PUint 0;
    PUint 33; PUint 0; PUint 2024; PUint 5; PUint 17; PUint 12; PUint 30; PUint 0];
   [PUint 0; PBin (zeros 8); PUint 2; PBool true; PBool false; PBin (zeros 6); PDescs [4001; 101000; 31001; 12001; 1015]];
   [PUint 0; PBin (zeros 8); PData ex_data];
   [PBytes sig_7777]]%Z.

Example uncompressed_truncation_nonvacuous :
  match encode_message true exu_json with
  | Ok m =>
      forallb sec_fitsb (m_sections m) && forallb desc_fill_okb (m_sections m) &&
      data_okb (dd_uncompressed exT_of exn_of) [] (m_sections m) &&
      is_ok (decode_message (dd_uncompressed exT_of exn_of) (Some sig_BUFR) false false (m_bytes m)) &&
      forallb (fun k => lib_failb (decode_message (dd_uncompressed exT_of exn_of) (Some sig_BUFR) false false
                                     (firstn k (m_bytes m))))
              (seq 0 (length (m_bytes m))) &&
      (50 <? length (m_bytes m))%nat
  | Err _ => false
  end = true.
Proof. vm_compute. reflexivity. Qed.
