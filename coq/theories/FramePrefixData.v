(* FramePrefixData.v — the hypothesis [cuts] of FramePrefix.v discharged for the
   REAL template decoder model of uncompressed data (Decode.decode_uncompressed
   over the full template walk Walk.v, any template, any number of subsets):
   on a truncated stream it returns the same result when the bits it consumes
   fit, and fails with a library error (the bit-read error) otherwise.
   Instance 4 of the generic simulation theorem WalkSim.walk_sim_gen. *)
From PBK Require Import Base Bits BitsProofs Descr Walk Coder WalkSim CoderSim Decode DecodeProofs Frame FramePrefix.
From Coq Require Import ZifyBool ZifyNat ZifyN.

Lemma cuts_read_int w : cuts (read_int w).
Proof.
  unfold read_int.
  apply (cuts_bind read_bool (fun s r1 => let* (m, r2) := read_uint (w - 1) r1 in
                                          Ok ((if s then - Z.of_N m else Z.of_N m)%Z, r2))); [apply cuts_read_bool|].
  intros s. apply (cuts_map (read_uint (w - 1)) (fun m => (if s then - Z.of_N m else Z.of_N m)%Z)), cuts_read_uint.
Qed.

Lemma cuts_read_uint_or_none w : cuts (read_uint_or_none w).
Proof.
  unfold read_uint_or_none.
  apply (cuts_bind (read_uint w) (fun v r' =>
           if (1 <? w)%Z then
             if (64 <? w)%Z then Err EIndex
             else if (v =? missing_value (Z.to_N w))%N then Ok (None, r') else Ok (Some v, r')
           else Ok (Some v, r'))); [apply cuts_read_uint|].
  intros v. destruct (1 <? w)%Z; [|apply cuts_ret].
  destruct (64 <? w)%Z; [apply cuts_err|]. destruct (v =? missing_value (Z.to_N w))%N; apply cuts_ret.
Qed.

(* ------------------------------------------------------------------------ *)
(* the truncation simulation: side 1 reads R = r ++ t, side 2 reads r         *)
(* ------------------------------------------------------------------------ *)
Section CutSim.
Variable t : bits.

Definition Rcut (d1 d2 : dstate) : Prop :=
  d_r d1 = d_r d2 ++ t /\ d_vals d1 = d_vals d2 /\ d_cur d1 = d_cur d2.

Notation st := (ws (io dstate)).
Definition rd (s : st) : reader := d_r (io_c (w_c s)).
Notation R := (Rst (Rio Rcut)).

Lemma R_len s1 s2 : R s1 s2 -> (length t <= length (rd s1))%nat.
Proof. intros [_ (_ & _ & (Hr & _))]. unfold rd. rewrite Hr, app_length. lia. Qed.

(* the first side only consumes a prefix of its reader *)
Definition suff (f : st -> result st) : Prop :=
  forall s s', f s = Ok s' -> exists e, rd s = e ++ rd s'.

(* [cutf f1 f2]: if f1 succeeds on the full stream, f2 on the truncated one
   succeeds (related result) when what f1 left unread still contains the whole
   cut-off part t, and fails with a library error otherwise *)
Definition cutf (f1 f2 : st -> result st) : Prop :=
  suff f1 /\
  forall s1 s2 s1', R s1 s2 -> f1 s1 = Ok s1' ->
    if (length t <=? length (rd s1'))%nat then exists s2', f2 s2 = Ok s2' /\ R s1' s2'
    else lib_fail (f2 s2).

Lemma cut_ret : cutf (fun s => Ok s) (fun s => Ok s).
Proof.
  split.
  - intros s s' E. injection E as <-. exists []. reflexivity.
  - intros s1 s2 s1' HR E. injection E as <-. pose proof (R_len _ _ HR).
    destruct (Nat.leb_spec (length t) (length (rd s1))); [eauto|lia].
Qed.

Lemma cut_bind f1 f2 g1 g2 :
  cutf f1 f2 -> cutf g1 g2 -> cutf (fun s => bind (f1 s) g1) (fun s => bind (f2 s) g2).
Proof.
  intros [Sf Hf] [Sg Hg]. split.
  - intros s s' E. apply bind_ok in E as (m & E1 & E2).
    destruct (Sf _ _ E1) as (e1 & X1). destruct (Sg _ _ E2) as (e2 & X2).
    exists (e1 ++ e2). rewrite X1, X2, app_assoc. reflexivity.
  - intros s1 s2 s1' HR E. apply bind_ok in E as (m1 & E1 & E2).
    specialize (Hf _ _ _ HR E1).
    destruct (Nat.leb_spec (length t) (length (rd m1))) as [Hle|Hgt].
    + destruct Hf as (m2 & F2 & HRm). rewrite F2. cbn [bind]. exact (Hg _ _ _ HRm E2).
    + destruct (Sg _ _ E2) as (e2 & X2).
      assert (length (rd s1') <= length (rd m1))%nat by (rewrite X2, app_length; lia).
      destruct (Nat.leb_spec (length t) (length (rd s1'))); [lia|]. apply lib_fail_bind, Hf.
Qed.

Lemma cut_ext f1 f1' f2 f2' :
  (forall s, f1 s = f1' s) -> (forall s, f2 s = f2' s) -> cutf f1 f2 -> cutf f1' f2'.
Proof.
  intros X1 X2 [Sf Hf]. split.
  - intros s s' E. rewrite <- X1 in E. exact (Sf _ _ E).
  - intros s1 s2 s1' HR E. rewrite <- X1 in E. rewrite <- X2. exact (Hf _ _ _ HR E).
Qed.

(* handlers that leave the client alone: lock-step simulation is enough *)
Lemma cut_of_sim f1 f2 :
  (forall s s', f1 s = Ok s' -> rd s' = rd s) -> simf (Rio Rcut) f1 f2 -> cutf f1 f2.
Proof.
  intros Hrd Hs. split.
  - intros s s' E. exists []. rewrite (Hrd _ _ E). reflexivity.
  - intros s1 s2 s1' HR E. rewrite (Hrd _ _ E). pose proof (R_len _ _ HR).
    destruct (Nat.leb_spec (length t) (length (rd s1))); [|lia]. exact (Hs _ _ _ HR E).
Qed.

Lemma cut_upd (f : regs -> regs) : cutf (fun s => Ok (upd_r f s)) (fun s => Ok (upd_r f s)).
Proof.
  apply cut_of_sim; [|apply sim_upd]. intros s s' E. injection E as <-. reflexivity.
Qed.

Lemma cut_regs (F1 F2 : regs -> st -> result st) :
  (forall r, cutf (F1 r) (F2 r)) -> cutf (fun s => F1 (w_r s) s) (fun s => F2 (w_r s) s).
Proof.
  intros HF. split.
  - intros s s' E. exact (proj1 (HF (w_r s)) _ _ E).
  - intros s1 s2 s1' HR E. pose proof HR as [Hr _]. rewrite <- Hr.
    exact (proj2 (HF (w_r s1)) _ _ _ HR E).
Qed.

Lemma cut_err e f2 : cutf (fun _ => Err e) f2.
Proof. split; [intros s s' E|intros s1 s2 s1' _ E]; discriminate. Qed.

Lemma cut_iter n f1 f2 : cutf f1 f2 -> cutf (iter_res n f1) (iter_res n f2).
Proof. apply (c_iter cutf cut_ret cut_bind cut_ext). Qed.

(* ---- the primitives of the decoder ------------------------------------------ *)
Definition cutp (f1 f2 : dstate -> result dstate) : Prop :=
  (forall c c', f1 c = Ok c' -> exists e, d_r c = e ++ d_r c') /\
  forall c1 c2 c1', Rcut c1 c2 -> f1 c1 = Ok c1' ->
    if (length t <=? length (d_r c1'))%nat then exists c2', f2 c2 = Ok c2' /\ Rcut c1' c2'
    else lib_fail (f2 c2).

Lemma cut_lift dd f1 f2 : cutp f1 f2 -> cutf (lift dd f1) (lift dd f2).
Proof.
  intros [Sf Hf]. split.
  - intros s s' E. unfold lift in E. apply bind_ok in E as (c & E1 & E). injection E as <-.
    cbn in E1. destruct (Sf _ _ E1) as (e & X). exists e. exact X.
  - intros s1 s2 s1' [Hr (Hdd & Hl & Hc)] E. unfold lift in *.
    apply bind_ok in E as (c1' & E1 & E). injection E as <-. cbn in E1.
    specialize (Hf _ _ _ Hc E1). unfold rd. cbn [with_c push_dd w_c io_c] in *.
    destruct (length t <=? length (d_r c1'))%nat.
    + destruct Hf as (c2' & E2 & Hc'). rewrite E2. cbn [bind]. eexists; split; [reflexivity|].
      split; cbn; [exact Hr|]. repeat split; cbn; congruence || apply Hc'.
    + apply lib_fail_bind, Hf.
Qed.

(* a reader operation that cuts, followed by the recording of its value *)
Lemma cutp_of_cuts {A} (rdop : reader -> result (A * reader)) (g : A -> value) :
  cuts rdop ->
  cutp (fun d => let* (v, r') := rdop (d_r d) in Ok (d_append (g v) d r'))
       (fun d => let* (v, r') := rdop (d_r d) in Ok (d_append (g v) d r')).
Proof.
  intros Hc. split.
  - intros c c' E. apply bind_ok in E as ([v r'] & E1 & E). injection E as <-.
    destruct (Hc _ _ _ E1) as (e & X & _). exists e. exact X.
  - intros c1 c2 c1' HR E. pose proof HR as (Hr & Hv & Hcur).
    apply bind_ok in E as ([v r'] & E1 & E). injection E as <-. cbn [d_append d_r].
    destruct (Hc _ _ _ E1) as (e & X & K). specialize (K (length (d_r c2))).
    assert (Hf : firstn (length (d_r c2)) (d_r c1) = d_r c2) by (rewrite Hr; apply firstn_app_exact; reflexivity).
    rewrite Hf in K. destruct K as [Ka Kb].
    assert (L : (length (d_r c2) + length t = length e + length r')%nat)
      by (rewrite <- !app_length, <- Hr, <- X; reflexivity).
    destruct (Nat.leb_spec (length t) (length r')) as [Hle|Hgt].
    + rewrite Ka by lia. cbn [bind]. eexists; split; [reflexivity|].
      unfold Rcut, d_append. cbn [d_r d_vals d_cur]. rewrite Hv, Hcur. split; [|split; reflexivity].
      (* r' = firstn .. r' ++ t *)
      assert (Y : skipn (length e) (d_r c1) = r') by (rewrite X; apply skipn_app_exact; reflexivity).
      rewrite Hr in Y. rewrite skipn_app in Y.
      replace (length e - length (d_r c2))%nat with 0%nat in Y by lia. cbn [skipn] in Y.
      rewrite <- Y at 1. f_equal. rewrite <- Y.
      rewrite firstn_app, skipn_length.
      replace (length (d_r c2) - length e - (length (d_r c2) - length e))%nat with 0%nat by lia.
      cbn [firstn]. rewrite app_nil_r. symmetry. apply firstn_all2. rewrite skipn_length. lia.
    + apply lib_fail_bind, Kb. lia.
Qed.

Lemma cutp_numeric a b c : cutp (dec_numeric a b c) (dec_numeric a b c).
Proof.
  apply (cutp_of_cuts (read_uint_or_none a)
           (fun v => match v with None => VNone | Some raw => numeric_value raw b c end)), cuts_read_uint_or_none.
Qed.

Lemma cutp_string a : cutp (dec_string a) (dec_string a).
Proof. apply (cutp_of_cuts (read_bytes a) VBytes), cuts_read_bytes. Qed.

Lemma cutp_codeflag a b : cutp (dec_codeflag a b) (dec_codeflag a b).
Proof.
  apply (cutp_of_cuts (read_uint_or_none a)
           (fun v => match v with None => VNone | Some raw => VInt (Z.of_N raw) end)), cuts_read_uint_or_none.
Qed.

Lemma cutp_constant a : cutp (dec_constant a) (dec_constant a).
Proof.
  split.
  - intros c c' E. injection E as <-. exists []. reflexivity.
  - intros c1 c2 c1' HR E. injection E as <-. pose proof HR as (Hr & Hv & Hcur). cbn [d_append d_r].
    destruct (Nat.leb_spec (length t) (length (d_r c1))); [|rewrite Hr, app_length in *; lia].
    eexists; split; [reflexivity|]. unfold Rcut, d_append. cbn [d_r d_vals d_cur]. rewrite Hv, Hcur. auto.
Qed.

Lemma Rcut_cur_vals c1 c2 : Rcut c1 c2 -> cur_vals c1 = cur_vals c2.
Proof. intros (_ & Hv & Hc). unfold cur_vals. rewrite Hv, Hc. reflexivity. Qed.

(* ---- the walk ----------------------------------------------------------------- *)
Notation H := (io_handlers dec_prims).

Theorem dec_walk_cut :
  (forall d, cutf (walk H io_add_link d) (walk H io_add_link d)) /\
  (forall ms, cutf (walk_list H io_add_link ms) (walk_list H io_add_link ms)).
Proof.
  apply (walk_sim_gen H H io_add_link io_add_link cutf cut_ret cut_bind cut_ext cut_upd cut_regs cut_err);
    cbn [io_handlers h_numeric h_numeric_new_refval h_string h_codeflag h_new_refval
      h_constant h_define_bitmap h_mark_boundary h_recall_bitmap h_cancel_bitmap h_cancel_backrefs
      h_add_bitmap_link h_bitmap_def_wrap h_fixed h_delayed h_bitmapped
      dec_prims p_numeric p_string p_codeflag p_constant p_new_refval p_factor p_bitmap].
  - intros; apply cut_lift, cutp_numeric.
  - intros dd a b c.
    apply (cut_regs (fun r s => match refval_lookup (dd_id dd) (r_new_refvals r) with
                                | None => Err EKey | Some None => Err EType
                                | Some (Some v) => lift dd (dec_numeric a b (v * c)) s end)
                    (fun r s => match refval_lookup (dd_id dd) (r_new_refvals r) with
                                | None => Err EKey | Some None => Err EType
                                | Some (Some v) => lift dd (dec_numeric a b (v * c)) s end)).
    intros r. destruct (refval_lookup _ _) as [[v|]|]; try apply cut_err. apply cut_lift, cutp_numeric.
  - intros; apply cut_lift, cutp_string.
  - intros; apply cut_lift, cutp_codeflag.
  - (* new_refval *)
    intros dd a. split.
    + intros s s' E. apply bind_ok in E as ([z c'] & E1 & E). injection E as <-. cbn in E1.
      unfold dec_new_refval in E1. apply bind_ok in E1 as ([v r'] & E2 & E1). injection E1 as <- <-.
      destruct (cuts_read_int _ _ _ _ E2) as (e & X & _). exists e. exact X.
    + intros s1 s2 s1' [Hr (Hdd & Hl & Hc)] E.
      apply bind_ok in E as ([z c1'] & E1 & E). injection E as <-. cbn in E1.
      pose proof (cutp_of_cuts (read_int a) VInt (cuts_read_int a)) as [_ Hp].
      unfold dec_new_refval in E1. apply bind_ok in E1 as ([v r'] & E2 & E1). injection E1 as <- <-.
      specialize (Hp _ _ (d_append (VInt v) (io_c (w_c s1)) r') Hc). cbn beta in Hp. rewrite E2 in Hp.
      specialize (Hp eq_refl). unfold rd. cbn [upd_r with_c push_dd w_c io_c] in *.
      destruct (length t <=? length (d_r (d_append (VInt v) (io_c (w_c s1)) r')))%nat.
      * destruct Hp as (c2' & E3 & Hc'). unfold dec_new_refval.
        destruct (read_int a (d_r (io_c (w_c s2)))) as [[v2 r2]|] eqn:E4; [|discriminate].
        cbn [bind] in E3 |- *. injection E3 as <-.
        assert (v2 = v).
        { destruct Hc' as (_ & Hv' & _). unfold d_append in Hv'. cbn [d_vals] in Hv'.
          pose proof Hc as (_ & Hv0 & Hc0). rewrite Hv0, Hc0 in Hv'.
          unfold upd_nth in Hv'. apply app_inv_head in Hv'.
          destruct (skipn (d_cur (io_c (w_c s2))) (d_vals (io_c (w_c s2)))) as [|x l] eqn:Es.
          - (* no current list: the value is not recorded; read it off the streams instead *)
            clear Hv'. pose proof Hc as (Hr0 & _).
            destruct (cuts_read_int _ _ _ _ E2) as (e & X & K).
            specialize (K (length (d_r (io_c (w_c s2))))).
            assert (Hf : firstn (length (d_r (io_c (w_c s2)))) (d_r (io_c (w_c s1))) = d_r (io_c (w_c s2)))
              by (rewrite Hr0; apply firstn_app_exact; reflexivity).
            rewrite Hf in K. destruct K as [Ka Kb].
            destruct (Nat.le_gt_cases (length e) (length (d_r (io_c (w_c s2))))) as [Hle|Hgt].
            + rewrite Ka in E4 by exact Hle. injection E4 as <- _. reflexivity.
            + destruct (Kb Hgt) as (er & Er & _). rewrite Er in E4. discriminate.
          - injection Hv' as Hv'. apply app_inv_head in Hv'. injection Hv' as <-. reflexivity. }
        subst v2. eexists; split; [reflexivity|].
        split; cbn; [congruence|]. repeat split; cbn; congruence || apply Hc'.
      * unfold dec_new_refval. destruct Hp as (er & Ep & Hl'). 
        destruct (read_int a (d_r (io_c (w_c s2)))) as [[v2 r2]|e2] eqn:E4; [discriminate|].
        cbn [bind] in Ep |- *. exists e2. split; [reflexivity|]. injection Ep as ->. exact Hl'.
  - intros; apply cut_lift, cutp_constant.
  - (* define_bitmap: the client is only inspected *)
    intros reuse. apply cut_of_sim.
    + intros s s' E. apply bind_ok in E as (bm & _ & E). unfold build_bitmapped in E.
      apply bind_ok in E as (refs & _ & E). destruct (negb _); [discriminate|]. injection E as <-.
      destruct reuse; reflexivity.
    + intros s1 s2 s1' HR E. pose proof HR as [Hr (Hdd & Hl & Hc)]. rewrite <- Hr.
      apply bind_ok in E as (bm & E1 & E). unfold dec_bitmap in *. rewrite <- (Rcut_cur_vals _ _ Hc).
      rewrite E1. cbn [bind]. eapply sim_build_bitmapped; [|exact E].
      destruct reuse; [apply Rst_upd|]; exact HR.
  - (* mark boundary *)
    apply cut_of_sim; [intros s s' E; injection E as <-; reflexivity|].
    intros s1 s2 s1' HR E. injection E as <-. eexists; split; [reflexivity|].
    pose proof HR as [Hr (Hdd & Hl & Hc)]. unfold ndesc. rewrite <- Hdd. apply Rst_upd. exact HR.
  - apply cut_of_sim.
    + intros s s' E. destruct (r_bitmapped (w_r s)); [|discriminate]. injection E as <-. reflexivity.
    + intros s1 s2 s1' HR E. pose proof HR as [Hr _]. rewrite <- Hr.
      destruct (r_bitmapped (w_r s1)); [|discriminate]. injection E as <-.
      eexists; split; [reflexivity|apply Rst_upd; exact HR].
  - apply cut_upd.
  - apply cut_upd.
  - (* add_bitmap_link *)
    apply cut_of_sim.
    + intros s s' E. apply bind_ok in E as ([b r'] & _ & E). unfold io_add_link in E. injection E as <-. reflexivity.
    + intros s1 s2 s1' HR E. pose proof HR as [Hr (Hdd & Hl & Hc)]. rewrite <- Hr.
      destruct (next_bitmapped (w_r s1)) as [[b r']|]; cbn [bind] in E |- *; [|discriminate].
      unfold io_add_link in *. injection E as <-. eexists; split; [reflexivity|].
      unfold ndesc. cbn. split; cbn; [reflexivity|]. split; [|split]; cbn; [congruence|congruence|exact Hc].
  - intros f1 f2 Hf. exact Hf.
  - intros n f1 f2 Hf. apply cut_iter. exact Hf.
  - (* delayed replication: the factor is a decoded value, the same on both sides *)
    intros f1 f2 Hf. pose proof (fun n => cut_iter n _ _ Hf) as Hit. split.
    + intros s s' E. apply bind_ok in E as (n & _ & E). exact (proj1 (Hit n) _ _ E).
    + intros s1 s2 s1' HR E. pose proof HR as [Hr (Hdd & Hl & Hc)].
      apply bind_ok in E as (n & E1 & E). unfold dec_factor in *. rewrite <- (Rcut_cur_vals _ _ Hc).
      rewrite E1. cbn [bind]. exact (proj2 (Hit n) _ _ _ HR E).
  - intros id f1 f2 Hf. exact Hf.
  - (* io_add_link *)
    intros idx. apply cut_of_sim; [intros s s' E; unfold io_add_link in E; injection E as <-; reflexivity|].
    intros s1 s2 s1' [Hr (Hdd & Hl & Hc)] E. unfold io_add_link in *. injection E as <-.
    eexists; split; [reflexivity|]. unfold ndesc. cbn.
    split; cbn; [exact Hr|]. split; [|split]; cbn; [congruence|congruence|exact Hc].
Qed.

End CutSim.
