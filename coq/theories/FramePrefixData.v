(* FramePrefixData.v — the hypothesis [cuts] of FramePrefix.v discharged for the
   REAL template decoder models: Decode.decode_uncompressed and
   DecodeC.decode_compressed over the full template walk Walk.v (any template,
   any number of subsets).  On a truncated stream the decoder returns the same
   result when the bits it consumes fit, and fails with a library error (the
   bit-read error of the first read past the end) otherwise.
   Instance 4 of the generic simulation theorem WalkSim.walk_sim_gen. *)
From PBK Require Import Base Bits BitsProofs Descr Walk Coder WalkSim CoderSim Decode DecodeProofs
  Column DecodeC RoundTripC Frame FramePrefix.
From Coq Require Import ZifyBool ZifyNat ZifyN.

(* ---- more reader operations that cut ------------------------------------------ *)
Lemma cuts_read_int w : cuts (read_int w).
Proof.
  unfold read_int.
  apply (cuts_bind read_bool (fun s r1 => let* (m, r2) := read_uint (w - 1) r1 in
                                          Ok ((if s then - Z.of_N m else Z.of_N m)%Z, r2))); [apply cuts_read_bool|].
  intros s. apply (cuts_map (read_uint (w - 1)) (fun m => (if s then - Z.of_N m else Z.of_N m)%Z)), cuts_read_uint.
Qed.

Lemma cuts_read_uint_or_none w : cuts (read_uint_or_none w).
Proof.
  unfold read_uint_or_none.
  apply (cuts_bind (read_uint w) (fun v r' =>
           if (1 <? w)%Z then
             if (64 <? w)%Z then Err EIndex
             else if (v =? missing_value (Z.to_N w))%N then Ok (None, r') else Ok (Some v, r')
           else Ok (Some v, r'))); [apply cuts_read_uint|].
  intros v. destruct (1 <? w)%Z; [|apply cuts_ret].
  destruct (64 <? w)%Z; [apply cuts_err|]. destruct (v =? missing_value (Z.to_N w))%N; apply cuts_ret.
Qed.

(* the column codec of compressed data *)
Lemma cuts_dec_incs_num wd mn : forall n, cuts (dec_incs_num wd mn n).
Proof.
  induction n as [|n IH]; cbn [dec_incs_num]; [apply (cuts_ret (@nil (option N)))|].
  apply (cuts_bind (read_uint_or_none (Z.of_N wd)) (fun d r1 =>
           let v := match onebit_rule wd d with None => None | Some x => Some (mn + x)%N end in
           let* (vs, r2) := dec_incs_num wd mn n r1 in Ok (v :: vs, r2))); [apply cuts_read_uint_or_none|].
  intros d. cbv zeta.
  apply (cuts_map (dec_incs_num wd mn n)
           (fun vs => match onebit_rule wd d with None => None | Some x => Some (mn + x)%N end :: vs)), IH.
Qed.

Lemma cuts_dec_col_num w n : cuts (dec_col_num w n).
Proof.
  unfold dec_col_num.
  apply (cuts_bind (read_uint_or_none w) (fun mn r1 =>
           let* (nd, r2) := read_uint NBITS_FOR_NBITS_DIFF r1 in
           match mn with
           | None => if (nd =? 0)%N then Ok (repeat None n, r2) else Err EBadColumn
           | Some m => if (nd =? 0)%N then Ok (repeat (Some m) n, r2) else dec_incs_num nd m n r2
           end)); [apply cuts_read_uint_or_none|].
  intros mn.
  apply (cuts_bind (read_uint NBITS_FOR_NBITS_DIFF) (fun nd r2 =>
           match mn with
           | None => if (nd =? 0)%N then Ok (repeat None n, r2) else Err EBadColumn
           | Some m => if (nd =? 0)%N then Ok (repeat (Some m) n, r2) else dec_incs_num nd m n r2
           end)); [apply cuts_read_uint|].
  intros nd. destruct mn as [m|]; destruct (nd =? 0)%N;
    [apply (cuts_ret (repeat (Some m) n))|apply cuts_dec_incs_num|apply (cuts_ret (repeat (@None N) n))|apply cuts_err].
Qed.

Lemma cuts_dec_incs_codeflag wd dn mn : forall n, cuts (dec_incs_codeflag wd dn mn n).
Proof.
  induction n as [|n IH]; cbn [dec_incs_codeflag]; [apply (cuts_ret (@nil (option N)))|].
  apply (cuts_bind (read_uint_or_none (Z.of_N wd)) (fun d r1 =>
           let* v := match onebit_rule wd d with
                     | None => Ok None
                     | Some x => codeflag_recheck dn (mn + x)%N
                     end in
           let* (vs, r2) := dec_incs_codeflag wd dn mn n r1 in Ok (v :: vs, r2))); [apply cuts_read_uint_or_none|].
  intros d.
  destruct (match onebit_rule wd d with None => Ok None | Some x => codeflag_recheck dn (mn + x)%N end) as [v|e];
    cbn [bind]; [|apply cuts_err].
  apply (cuts_map (dec_incs_codeflag wd dn mn n) (fun vs => v :: vs)), IH.
Qed.

Lemma cuts_dec_col_codeflag w dn n : cuts (dec_col_codeflag w dn n).
Proof.
  unfold dec_col_codeflag.
  apply (cuts_bind (read_uint_or_none w) (fun mn r1 =>
           let* (nd, r2) := read_uint NBITS_FOR_NBITS_DIFF r1 in
           if opt_is_none mn || (nd =? 0)%N then
             if (nd =? 0)%N then Ok (repeat mn n, r2) else Err EBadColumn
           else match mn with
                | Some m => dec_incs_codeflag nd dn m n r2
                | None => Err EBadColumn
                end)); [apply cuts_read_uint_or_none|].
  intros mn.
  apply (cuts_bind (read_uint NBITS_FOR_NBITS_DIFF) (fun nd r2 =>
           if opt_is_none mn || (nd =? 0)%N then
             if (nd =? 0)%N then Ok (repeat mn n, r2) else Err EBadColumn
           else match mn with
                | Some m => dec_incs_codeflag nd dn m n r2
                | None => Err EBadColumn
                end)); [apply cuts_read_uint|].
  intros nd. destruct (opt_is_none mn || (nd =? 0)%N).
  - destruct (nd =? 0)%N; [apply (cuts_ret (repeat mn n))|apply cuts_err].
  - destruct mn; [apply cuts_dec_incs_codeflag|apply cuts_err].
Qed.

Lemma cuts_dec_incs_str nd mn : forall n, cuts (dec_incs_str nd mn n).
Proof.
  induction n as [|n IH]; cbn [dec_incs_str]; [apply (cuts_ret (@nil (list byte)))|].
  apply (cuts_bind (read_bytes nd) (fun d r1 =>
           let* (vs, r2) := dec_incs_str nd mn n r1 in Ok ((mn ++ d) :: vs, r2))); [apply cuts_read_bytes|].
  intros d. apply (cuts_map (dec_incs_str nd mn n) (fun vs => (mn ++ d) :: vs)), IH.
Qed.

Lemma cuts_dec_col_str nb n : cuts (dec_col_str nb n).
Proof.
  unfold dec_col_str.
  apply (cuts_bind (read_bytes nb) (fun mn r1 =>
           let* (nd, r2) := read_uint NBITS_FOR_NBITS_DIFF r1 in
           let mn' := if negb (nd =? 0)%N && str_min_is_blank nb mn then [] else mn in
           if (nd =? 0)%N then Ok (repeat mn' n, r2) else dec_incs_str (Z.of_N nd) mn' n r2)); [apply cuts_read_bytes|].
  intros mn.
  apply (cuts_bind (read_uint NBITS_FOR_NBITS_DIFF) (fun nd r2 =>
           let mn' := if negb (nd =? 0)%N && str_min_is_blank nb mn then [] else mn in
           if (nd =? 0)%N then Ok (repeat mn' n, r2) else dec_incs_str (Z.of_N nd) mn' n r2)); [apply cuts_read_uint|].
  intros nd. cbv zeta. destruct (nd =? 0)%N; [|apply cuts_dec_incs_str].
  apply (cuts_ret (repeat (if negb true && str_min_is_blank nb mn then [] else mn) n)).
Qed.

Lemma cuts_dec_col_refval w n : cuts (dec_col_refval w n).
Proof.
  unfold dec_col_refval.
  apply (cuts_bind (read_int w) (fun mn r1 =>
           let* (nd, r2) := read_uint NBITS_FOR_NBITS_DIFF r1 in
           if (nd =? 0)%N then Ok (mn, r2) else Err EBadColumn)); [apply cuts_read_int|].
  intros mn.
  apply (cuts_bind (read_uint NBITS_FOR_NBITS_DIFF) (fun nd r2 =>
           if (nd =? 0)%N then Ok (mn, r2) else Err EBadColumn)); [apply cuts_read_uint|].
  intros nd. destruct (nd =? 0)%N; [apply cuts_ret|apply cuts_err].
Qed.

(* ------------------------------------------------------------------------ *)
(* the truncation simulation: side 1 reads R = r ++ t, side 2 reads r         *)
(* ------------------------------------------------------------------------ *)
Section CutSim.
Variable t : bits.

Definition Rcut (d1 d2 : dstate) : Prop :=
  d_r d1 = d_r d2 ++ t /\ d_vals d1 = d_vals d2 /\ d_cur d1 = d_cur d2.

Notation st := (ws (io dstate)).
Definition rd (s : st) : reader := d_r (io_c (w_c s)).
Notation R := (Rst (Rio Rcut)).

Lemma R_len s1 s2 : R s1 s2 -> (length t <= length (rd s1))%nat.
Proof. intros [_ (_ & _ & (Hr & _))]. unfold rd. rewrite Hr, app_length. lia. Qed.

(* the first side only consumes a prefix of its reader *)
Definition suff (f : st -> result st) : Prop :=
  forall s s', f s = Ok s' -> exists e, rd s = e ++ rd s'.

(* [cutf f1 f2]: if f1 succeeds on the full stream, f2 on the truncated one
   succeeds (related result) when what f1 left unread still contains the whole
   cut-off part t, and fails with a library error otherwise *)
Definition cutf (f1 f2 : st -> result st) : Prop :=
  suff f1 /\
  forall s1 s2 s1', R s1 s2 -> f1 s1 = Ok s1' ->
    if (length t <=? length (rd s1'))%nat then exists s2', f2 s2 = Ok s2' /\ R s1' s2'
    else lib_fail (f2 s2).

Lemma cut_ret : cutf (fun s => Ok s) (fun s => Ok s).
Proof.
  split.
  - intros s s' E. injection E as <-. exists []. reflexivity.
  - intros s1 s2 s1' HR E. injection E as <-. pose proof (R_len _ _ HR).
    destruct (Nat.leb_spec (length t) (length (rd s1))); [eauto|lia].
Qed.

Lemma cut_bind f1 f2 g1 g2 :
  cutf f1 f2 -> cutf g1 g2 -> cutf (fun s => bind (f1 s) g1) (fun s => bind (f2 s) g2).
Proof.
  intros [Sf Hf] [Sg Hg]. split.
  - intros s s' E. apply bind_ok in E as (m & E1 & E2).
    destruct (Sf _ _ E1) as (e1 & X1). destruct (Sg _ _ E2) as (e2 & X2).
    exists (e1 ++ e2). rewrite X1, X2, app_assoc. reflexivity.
  - intros s1 s2 s1' HR E. apply bind_ok in E as (m1 & E1 & E2).
    specialize (Hf _ _ _ HR E1).
    destruct (Nat.leb_spec (length t) (length (rd m1))) as [Hle|Hgt].
    + destruct Hf as (m2 & F2 & HRm). rewrite F2. cbn [bind]. exact (Hg _ _ _ HRm E2).
    + destruct (Sg _ _ E2) as (e2 & X2).
      assert (length (rd s1') <= length (rd m1))%nat by (rewrite X2, app_length; lia).
      destruct (Nat.leb_spec (length t) (length (rd s1'))); [lia|]. apply lib_fail_bind, Hf.
Qed.

Lemma cut_ext f1 f1' f2 f2' :
  (forall s, f1 s = f1' s) -> (forall s, f2 s = f2' s) -> cutf f1 f2 -> cutf f1' f2'.
Proof.
  intros X1 X2 [Sf Hf]. split.
  - intros s s' E. rewrite <- X1 in E. exact (Sf _ _ E).
  - intros s1 s2 s1' HR E. rewrite <- X1 in E. rewrite <- X2. exact (Hf _ _ _ HR E).
Qed.

(* handlers that leave the client alone: lock-step simulation is enough *)
Lemma cut_of_sim f1 f2 :
  (forall s s', f1 s = Ok s' -> rd s' = rd s) -> simf (Rio Rcut) f1 f2 -> cutf f1 f2.
Proof.
  intros Hrd Hs. split.
  - intros s s' E. exists []. rewrite (Hrd _ _ E). reflexivity.
  - intros s1 s2 s1' HR E. rewrite (Hrd _ _ E). pose proof (R_len _ _ HR).
    destruct (Nat.leb_spec (length t) (length (rd s1))); [|lia]. exact (Hs _ _ _ HR E).
Qed.

Lemma cut_upd (f : regs -> regs) : cutf (fun s => Ok (upd_r f s)) (fun s => Ok (upd_r f s)).
Proof.
  apply cut_of_sim; [|apply sim_upd]. intros s s' E. injection E as <-. reflexivity.
Qed.

Lemma cut_regs (F1 F2 : regs -> st -> result st) :
  (forall r, cutf (F1 r) (F2 r)) -> cutf (fun s => F1 (w_r s) s) (fun s => F2 (w_r s) s).
Proof.
  intros HF. split.
  - intros s s' E. exact (proj1 (HF (w_r s)) _ _ E).
  - intros s1 s2 s1' HR E. pose proof HR as [Hr _]. rewrite <- Hr.
    exact (proj2 (HF (w_r s1)) _ _ _ HR E).
Qed.

Lemma cut_err e f2 : cutf (fun _ => Err e) f2.
Proof. split; [intros s s' E|intros s1 s2 s1' _ E]; discriminate. Qed.

Lemma cut_iter n f1 f2 : cutf f1 f2 -> cutf (iter_res n f1) (iter_res n f2).
Proof. apply (c_iter cutf cut_ret cut_bind cut_ext). Qed.

(* ---- primitives ------------------------------------------------------------- *)
Definition cutp (f1 f2 : dstate -> result dstate) : Prop :=
  (forall c c', f1 c = Ok c' -> exists e, d_r c = e ++ d_r c') /\
  forall c1 c2 c1', Rcut c1 c2 -> f1 c1 = Ok c1' ->
    if (length t <=? length (d_r c1'))%nat then exists c2', f2 c2 = Ok c2' /\ Rcut c1' c2'
    else lib_fail (f2 c2).

(* the same for the primitive that also returns the value it read *)
Definition cutnr (f1 f2 : dstate -> result (Z * dstate)) : Prop :=
  (forall c z c', f1 c = Ok (z, c') -> exists e, d_r c = e ++ d_r c') /\
  forall c1 c2 z c1', Rcut c1 c2 -> f1 c1 = Ok (z, c1') ->
    if (length t <=? length (d_r c1'))%nat then exists c2', f2 c2 = Ok (z, c2') /\ Rcut c1' c2'
    else lib_fail (f2 c2).

(* one read on the two streams *)
Lemma cut_read {A} (rdop : reader -> result (A * reader)) : cuts rdop ->
  forall r1 r2 v r1', r1 = r2 ++ t -> rdop r1 = Ok (v, r1') ->
  (exists e, r1 = e ++ r1') /\
  if (length t <=? length r1')%nat then exists r2', rdop r2 = Ok (v, r2') /\ r1' = r2' ++ t
  else lib_fail (rdop r2).
Proof.
  intros Hc r1 r2 v r1' Hr E. destruct (Hc _ _ _ E) as (e & X & K). split; [eauto|].
  specialize (K (length r2)).
  assert (Hf : firstn (length r2) r1 = r2) by (rewrite Hr; apply firstn_app_exact; reflexivity).
  rewrite Hf in K. destruct K as [Ka Kb].
  assert (L : (length r2 + length t = length e + length r1')%nat)
    by (rewrite <- !app_length, <- Hr, <- X; reflexivity).
  destruct (Nat.leb_spec (length t) (length r1')) as [Hle|Hgt].
  - rewrite Ka by lia. eexists; split; [reflexivity|].
    assert (Y : skipn (length e) r1 = r1') by (rewrite X; apply skipn_app_exact; reflexivity).
    rewrite Hr, skipn_app in Y. replace (length e - length r2)%nat with 0%nat in Y by lia. cbn [skipn] in Y.
    rewrite <- Y at 1. f_equal. rewrite <- Y.
    rewrite firstn_app, skipn_length.
    replace (length r2 - length e - (length r2 - length e))%nat with 0%nat by lia.
    cbn [firstn]. rewrite app_nil_r. symmetry. apply firstn_all2. rewrite skipn_length. lia.
  - apply Kb. lia.
Qed.

(* a primitive = one read (possibly parametrised by something both sides agree
   on, e.g. the number of subsets) followed by recording the result *)
Lemma cutp_read {A K} (key : dstate -> K) (rdop : K -> reader -> result (A * reader))
    (push : A -> dstate -> reader -> dstate) :
  (forall k, cuts (rdop k)) ->
  (forall d1 d2, Rcut d1 d2 -> key d1 = key d2) ->
  (forall v d r', d_r (push v d r') = r') ->
  (forall v d1 d2 r', Rcut d1 d2 -> Rcut (push v d1 (r' ++ t)) (push v d2 r')) ->
  cutp (fun d => let* (v, r') := rdop (key d) (d_r d) in Ok (push v d r'))
       (fun d => let* (v, r') := rdop (key d) (d_r d) in Ok (push v d r')).
Proof.
  intros Hc Hkey Hpr Hpush. split.
  - intros c c' E. apply bind_ok in E as ([v r'] & E1 & E). injection E as <-.
    destruct (Hc _ _ _ _ E1) as (e & X & _). rewrite Hpr. eauto.
  - intros c1 c2 c1' HR E. pose proof HR as (Hr & _).
    apply bind_ok in E as ([v r'] & E1 & E). injection E as <-. rewrite Hpr.
    destruct (cut_read _ (Hc (key c1)) _ _ _ _ Hr E1) as (_ & C). rewrite <- (Hkey _ _ HR).
    destruct (length t <=? length r')%nat.
    + destruct C as (r2' & E2 & ->). rewrite E2. cbn [bind]. eexists; split; [reflexivity|]. apply Hpush, HR.
    + apply lib_fail_bind, C.
Qed.

Lemma cutnr_read {K} (key : dstate -> K) (rdop : K -> reader -> result (Z * reader))
    (push : Z -> dstate -> reader -> dstate) :
  (forall k, cuts (rdop k)) ->
  (forall d1 d2, Rcut d1 d2 -> key d1 = key d2) ->
  (forall v d r', d_r (push v d r') = r') ->
  (forall v d1 d2 r', Rcut d1 d2 -> Rcut (push v d1 (r' ++ t)) (push v d2 r')) ->
  cutnr (fun d => let* (v, r') := rdop (key d) (d_r d) in Ok (v, push v d r'))
        (fun d => let* (v, r') := rdop (key d) (d_r d) in Ok (v, push v d r')).
Proof.
  intros Hc Hkey Hpr Hpush. split.
  - intros c z c' E. apply bind_ok in E as ([v r'] & E1 & E). injection E as <- <-.
    destruct (Hc _ _ _ _ E1) as (e & X & _). rewrite Hpr. eauto.
  - intros c1 c2 z c1' HR E. pose proof HR as (Hr & _).
    apply bind_ok in E as ([v r'] & E1 & E). injection E as <- <-. rewrite Hpr.
    destruct (cut_read _ (Hc (key c1)) _ _ _ _ Hr E1) as (_ & C). rewrite <- (Hkey _ _ HR).
    destruct (length t <=? length r')%nat.
    + destruct C as (r2' & E2 & ->). rewrite E2. cbn [bind]. eexists; split; [reflexivity|]. apply Hpush, HR.
    + apply lib_fail_bind, C.
Qed.

(* a primitive that reads nothing *)
Lemma cutp_noread (push : dstate -> dstate) :
  (forall d, d_r (push d) = d_r d) ->
  (forall d1 d2, Rcut d1 d2 -> Rcut (push d1) (push d2)) ->
  cutp (fun d => Ok (push d)) (fun d => Ok (push d)).
Proof.
  intros Hpr Hpush. split.
  - intros c c' E. injection E as <-. exists []. rewrite Hpr. reflexivity.
  - intros c1 c2 c1' HR E. injection E as <-. pose proof HR as (Hr & _). rewrite Hpr.
    destruct (Nat.leb_spec (length t) (length (d_r c1))); [|rewrite Hr, app_length in *; lia].
    eexists; split; [reflexivity|]. apply Hpush, HR.
Qed.

Lemma cut_lift dd f1 f2 : cutp f1 f2 -> cutf (lift dd f1) (lift dd f2).
Proof.
  intros [Sf Hf]. split.
  - intros s s' E. unfold lift in E. apply bind_ok in E as (c & E1 & E). injection E as <-.
    cbn in E1. destruct (Sf _ _ E1) as (e & X). exists e. exact X.
  - intros s1 s2 s1' [Hr (Hdd & Hl & Hc)] E. unfold lift in *.
    apply bind_ok in E as (c1' & E1 & E). injection E as <-. cbn in E1.
    specialize (Hf _ _ _ Hc E1). unfold rd. cbn [with_c push_dd w_c io_c] in *.
    destruct (length t <=? length (d_r c1'))%nat.
    + destruct Hf as (c2' & E2 & Hc'). rewrite E2. cbn [bind]. eexists; split; [reflexivity|].
      split; cbn; [exact Hr|]. split; [|split]; cbn; [congruence|congruence|exact Hc'].
    + apply lib_fail_bind, Hf.
Qed.

(* ---- the walk, for any primitives that cut ------------------------------------ *)
Section Prims.
Variable P : prims dstate.
Hypothesis Pnumeric : forall a b c, cutp (p_numeric P a b c) (p_numeric P a b c).
Hypothesis Pstring : forall a, cutp (p_string P a) (p_string P a).
Hypothesis Pcodeflag : forall a b, cutp (p_codeflag P a b) (p_codeflag P a b).
Hypothesis Pconstant : forall a, cutp (p_constant P a) (p_constant P a).
Hypothesis Pnew_refval : forall a, cutnr (p_new_refval P a) (p_new_refval P a).
Hypothesis Pfactor : forall c1 c2, Rcut c1 c2 -> p_factor P c1 = p_factor P c2.
Hypothesis Pbitmap : forall a c1 c2, Rcut c1 c2 -> p_bitmap P a c1 = p_bitmap P a c2.

Notation H := (io_handlers P).

Theorem io_walk_cut :
  (forall d, cutf (walk H io_add_link d) (walk H io_add_link d)) /\
  (forall ms, cutf (walk_list H io_add_link ms) (walk_list H io_add_link ms)).
Proof.
  apply (walk_sim_gen H H io_add_link io_add_link cutf cut_ret cut_bind cut_ext cut_upd cut_regs cut_err);
    cbn [io_handlers h_numeric h_numeric_new_refval h_string h_codeflag h_new_refval
      h_constant h_define_bitmap h_mark_boundary h_recall_bitmap h_cancel_bitmap h_cancel_backrefs
      h_add_bitmap_link h_bitmap_def_wrap h_fixed h_delayed h_bitmapped].
  - intros; apply cut_lift, Pnumeric.
  - intros dd a b c.
    apply (cut_regs (fun r s => match refval_lookup (dd_id dd) (r_new_refvals r) with
                                | None => Err EKey | Some None => Err EType
                                | Some (Some v) => lift dd (p_numeric P a b (v * c)) s end)
                    (fun r s => match refval_lookup (dd_id dd) (r_new_refvals r) with
                                | None => Err EKey | Some None => Err EType
                                | Some (Some v) => lift dd (p_numeric P a b (v * c)) s end)).
    intros r. destruct (refval_lookup _ _) as [[v|]|]; try apply cut_err. apply cut_lift, Pnumeric.
  - intros; apply cut_lift, Pstring.
  - intros; apply cut_lift, Pcodeflag.
  - (* new_refval *)
    intros dd a. destruct (Pnew_refval a) as [Sn Hn]. split.
    + intros s s' E. apply bind_ok in E as ([z c'] & E1 & E). injection E as <-. cbn in E1.
      destruct (Sn _ _ _ E1) as (e & X). exists e. exact X.
    + intros s1 s2 s1' [Hr (Hdd & Hl & Hc)] E.
      apply bind_ok in E as ([z c1'] & E1 & E). injection E as <-. cbn in E1.
      specialize (Hn _ _ _ _ Hc E1). unfold rd. cbn [upd_r with_c push_dd w_c io_c] in *.
      destruct (length t <=? length (d_r c1'))%nat.
      * destruct Hn as (c2' & E2 & Hc'). rewrite E2. cbn [bind]. eexists; split; [reflexivity|].
        split; cbn; [congruence|]. split; [|split]; cbn; [congruence|congruence|exact Hc'].
      * apply lib_fail_bind, Hn.
  - intros; apply cut_lift, Pconstant.
  - (* define_bitmap: the client is only inspected *)
    intros reuse. apply cut_of_sim.
    + intros s s' E. apply bind_ok in E as (bm & _ & E). unfold build_bitmapped in E.
      apply bind_ok in E as (refs & _ & E). destruct (negb _); [discriminate|]. injection E as <-.
      destruct reuse; reflexivity.
    + intros s1 s2 s1' HR E. pose proof HR as [Hr (Hdd & Hl & Hc)]. rewrite <- Hr.
      apply bind_ok in E as (bm & E1 & E). rewrite <- (Pbitmap _ _ _ Hc).
      rewrite E1. cbn [bind]. eapply sim_build_bitmapped; [|exact E].
      destruct reuse; [apply Rst_upd|]; exact HR.
  - (* mark boundary *)
    apply cut_of_sim; [intros s s' E; injection E as <-; reflexivity|].
    intros s1 s2 s1' HR E. injection E as <-. eexists; split; [reflexivity|].
    pose proof HR as [Hr (Hdd & Hl & Hc)]. unfold ndesc. rewrite <- Hdd. apply Rst_upd. exact HR.
  - apply cut_of_sim.
    + intros s s' E. destruct (r_bitmapped (w_r s)); [|discriminate]. injection E as <-. reflexivity.
    + intros s1 s2 s1' HR E. pose proof HR as [Hr _]. rewrite <- Hr.
      destruct (r_bitmapped (w_r s1)); [|discriminate]. injection E as <-.
      eexists; split; [reflexivity|apply Rst_upd; exact HR].
  - apply cut_upd.
  - apply cut_upd.
  - (* add_bitmap_link *)
    apply cut_of_sim.
    + intros s s' E. apply bind_ok in E as ([b r'] & _ & E). unfold io_add_link in E. injection E as <-. reflexivity.
    + intros s1 s2 s1' HR E. pose proof HR as [Hr (Hdd & Hl & Hc)]. rewrite <- Hr.
      destruct (next_bitmapped (w_r s1)) as [[b r']|]; cbn [bind] in E |- *; [|discriminate].
      unfold io_add_link in *. injection E as <-. eexists; split; [reflexivity|].
      unfold ndesc. cbn. split; cbn; [reflexivity|]. split; [|split]; cbn; [congruence|congruence|exact Hc].
  - intros f1 f2 Hf. exact Hf.
  - intros n f1 f2 Hf. apply cut_iter. exact Hf.
  - (* delayed replication: the factor is a decoded value, the same on both sides *)
    intros f1 f2 Hf. pose proof (fun n => cut_iter n _ _ Hf) as Hit. split.
    + intros s s' E. apply bind_ok in E as (n & _ & E). exact (proj1 (Hit n) _ _ E).
    + intros s1 s2 s1' HR E. pose proof HR as [Hr (Hdd & Hl & Hc)].
      apply bind_ok in E as (n & E1 & E). rewrite <- (Pfactor _ _ Hc).
      rewrite E1. cbn [bind]. exact (proj2 (Hit n) _ _ _ HR E).
  - intros id f1 f2 Hf. exact Hf.
  - (* io_add_link *)
    intros idx. apply cut_of_sim; [intros s s' E; unfold io_add_link in E; injection E as <-; reflexivity|].
    intros s1 s2 s1' [Hr (Hdd & Hl & Hc)] E. unfold io_add_link in *. injection E as <-.
    eexists; split; [reflexivity|]. unfold ndesc. cbn.
    split; cbn; [exact Hr|]. split; [|split]; cbn; [congruence|congruence|exact Hc].
Qed.
End Prims.

(* ---- instance: the uncompressed primitives (Decode.v) -------------------------- *)
Lemma Rcut_append v d1 d2 r' : Rcut d1 d2 -> Rcut (d_append v d1 (r' ++ t)) (d_append v d2 r').
Proof. intros (Hr & Hv & Hc). unfold Rcut, d_append. cbn [d_r d_vals d_cur]. rewrite Hv, Hc. auto. Qed.

Lemma Rcut_cur_vals c1 c2 : Rcut c1 c2 -> cur_vals c1 = cur_vals c2.
Proof. intros (_ & Hv & Hc). unfold cur_vals. rewrite Hv, Hc. reflexivity. Qed.

Theorem dec_walk_cut :
  forall ms, cutf (walk_list (io_handlers dec_prims) io_add_link ms) (walk_list (io_handlers dec_prims) io_add_link ms).
Proof.
  apply io_walk_cut; cbn [dec_prims p_numeric p_string p_codeflag p_constant p_new_refval p_factor p_bitmap].
  - intros a b c.
    apply (cutp_read (fun _ => tt) (fun _ => read_uint_or_none a)
             (fun v d r' => d_append (match v with None => VNone | Some raw => numeric_value raw b c end) d r'));
      [intros; apply cuts_read_uint_or_none|reflexivity|reflexivity|intros; apply Rcut_append; assumption].
  - intros a.
    apply (cutp_read (fun _ => tt) (fun _ => read_bytes a) (fun v d r' => d_append (VBytes v) d r'));
      [intros; apply cuts_read_bytes|reflexivity|reflexivity|intros; apply Rcut_append; assumption].
  - intros a b.
    apply (cutp_read (fun _ => tt) (fun _ => read_uint_or_none a)
             (fun v d r' => d_append (match v with None => VNone | Some raw => VInt (Z.of_N raw) end) d r'));
      [intros; apply cuts_read_uint_or_none|reflexivity|reflexivity|intros; apply Rcut_append; assumption].
  - intros a. apply (cutp_noread (fun d => d_append (VInt a) d (d_r d))); [reflexivity|].
    intros d1 d2 HR. pose proof HR as (Hr & _). rewrite Hr. apply Rcut_append, HR.
  - intros a.
    apply (cutnr_read (fun _ => tt) (fun _ => read_int a) (fun v d r' => d_append (VInt v) d r'));
      [intros; apply cuts_read_int|reflexivity|reflexivity|intros; apply Rcut_append; assumption].
  - intros c1 c2 HR. unfold dec_factor. rewrite (Rcut_cur_vals _ _ HR). reflexivity.
  - intros a c1 c2 HR. unfold dec_bitmap. rewrite (Rcut_cur_vals _ _ HR). reflexivity.
Qed.

(* ---- instance: the compressed primitives (DecodeC.v) --------------------------- *)
Lemma Rcut_push col d1 d2 r' : Rcut d1 d2 -> Rcut (dc_push col d1 (r' ++ t)) (dc_push col d2 r').
Proof. intros (Hr & Hv & Hc). unfold Rcut, dc_push. cbn [d_r d_vals d_cur]. rewrite Hv, Hc. auto. Qed.

Lemma Rcut_nsub d1 d2 : Rcut d1 d2 -> nsub d1 = nsub d2.
Proof. intros (_ & Hv & _). unfold nsub. rewrite Hv. reflexivity. Qed.

Theorem decc_walk_cut :
  forall ms, cutf (walk_list (io_handlers decc_prims) io_add_link ms) (walk_list (io_handlers decc_prims) io_add_link ms).
Proof.
  apply io_walk_cut; cbn [decc_prims p_numeric p_string p_codeflag p_constant p_new_refval p_factor p_bitmap].
  - intros a b c.
    apply (cutp_read nsub (fun n => dec_col_num a n)
             (fun col d r' => dc_push (map (fun o => match o with None => VNone | Some raw => numeric_value raw b c end) col) d r'));
      [intros; apply cuts_dec_col_num|apply Rcut_nsub|reflexivity|intros; apply Rcut_push; assumption].
  - intros a.
    apply (cutp_read nsub (fun n => dec_col_str a n) (fun col d r' => dc_push (map VBytes col) d r'));
      [intros; apply cuts_dec_col_str|apply Rcut_nsub|reflexivity|intros; apply Rcut_push; assumption].
  - intros a b.
    apply (cutp_read nsub (fun n => dec_col_codeflag a b n)
             (fun col d r' => dc_push (map (fun o => match o with None => VNone | Some raw => VInt (Z.of_N raw) end) col) d r'));
      [intros; apply cuts_dec_col_codeflag|apply Rcut_nsub|reflexivity|intros; apply Rcut_push; assumption].
  - intros a. apply (cutp_noread (fun d => dc_push (repeat (VInt a) (nsub d)) d (d_r d))); [reflexivity|].
    intros d1 d2 HR. pose proof HR as (Hr & _). rewrite Hr, (Rcut_nsub _ _ HR). apply Rcut_push, HR.
  - intros a.
    apply (cutnr_read nsub (fun n => dec_col_refval a n) (fun z d r' => dc_push (repeat (VInt z) (nsub d)) d r'));
      [intros; apply cuts_dec_col_refval|apply Rcut_nsub|reflexivity|].
    intros v d1 d2 r' HR. rewrite (Rcut_nsub _ _ HR). apply Rcut_push, HR.
  - intros c1 c2 (_ & Hv & _). rewrite !decc_factor_cols, Hv. reflexivity.
  - intros a c1 c2 (_ & Hv & _). rewrite !decc_bitmap_cols, Hv. reflexivity.
Qed.

End CutSim.

(* ------------------------------------------------------------------------ *)
(* the loop over subsets; decode_uncompressed and decode_compressed cut       *)
(* ------------------------------------------------------------------------ *)
Lemma run_subsets_suffix T : forall n i c acc outs c',
  run_subsets dec_prims T dec_switch i n c acc = Ok (outs, c') -> exists e, d_r c = e ++ d_r c'.
Proof.
  induction n as [|n IH]; intros i c acc outs c' E; cbn [run_subsets] in E.
  - injection E as _ <-. exists []. reflexivity.
  - unfold run_template in E. apply bind_ok in E as (s & E1 & E).
    destruct (proj1 (dec_walk_cut [] T) _ _ E1) as (e1 & X1). unfold rd in X1. cbn in X1.
    destruct (IH _ _ _ _ _ E) as (e2 & X2). exists (e1 ++ e2). rewrite X1, X2, app_assoc. reflexivity.
Qed.

Lemma run_subsets_cut t T : forall n i c1 c2 acc outs c1',
  Rcut t c1 c2 -> run_subsets dec_prims T dec_switch i n c1 acc = Ok (outs, c1') ->
  if (length t <=? length (d_r c1'))%nat
  then exists c2', run_subsets dec_prims T dec_switch i n c2 acc = Ok (outs, c2') /\ Rcut t c1' c2'
  else lib_fail (run_subsets dec_prims T dec_switch i n c2 acc).
Proof.
  induction n as [|n IH]; intros i c1 c2 acc outs c1' HR E; cbn [run_subsets] in *.
  - injection E as <- <-. pose proof HR as (Hr & _).
    destruct (Nat.leb_spec (length t) (length (d_r c1))); [eauto|]. rewrite Hr, app_length in *. lia.
  - unfold run_template in *. apply bind_ok in E as (s1 & E1 & E).
    destruct (dec_walk_cut t T) as [_ Cw].
    assert (HR0 : Rst (Rio (Rcut t)) (mkWs regs0 (mkIo [] [] (dec_switch i c1))) (mkWs regs0 (mkIo [] [] (dec_switch i c2)))).
    { split; cbn; [reflexivity|]. split; [reflexivity|]. split; [reflexivity|].
      destruct HR as (Hr & Hv & Hc). repeat split; cbn; assumption. }
    specialize (Cw _ _ _ HR0 E1). unfold rd in Cw.
    destruct (Nat.leb_spec (length t) (length (d_r (io_c (w_c s1))))) as [Hle|Hgt].
    + destruct Cw as (s2 & E2 & [Hr2 (Hdd & Hl & Hc2)]).
      rewrite E2. cbn [bind]. rewrite <- Hdd, <- Hl. exact (IH _ _ _ _ _ _ Hc2 E).
    + (* the walk of this subset already ran out of bits *)
      destruct (run_subsets_suffix _ _ _ _ _ _ _ E) as (e2 & X2).
      destruct (Nat.leb_spec (length t) (length (d_r c1'))) as [Hle'|_].
      * exfalso. rewrite X2, app_length in Hgt. lia.
      * apply lib_fail_bind, Cw.
Qed.

(* from the "two streams" form back to [cuts] *)
Lemma cuts_of_two_streams {A} (f : reader -> result (A * reader)) :
  (forall R a R', f R = Ok (a, R') -> exists e, R = e ++ R') ->
  (forall t r a R', f (r ++ t) = Ok (a, R') ->
     if (length t <=? length R')%nat then exists r', f r = Ok (a, r') /\ R' = r' ++ t else lib_fail (f r)) ->
  cuts f.
Proof.
  intros Hs Hc. apply cuts_intro_le. intros R0 a R' E. destruct (Hs _ _ _ E) as (e & X). exists e. split; [exact X|].
  intros k Hk. pose proof E as E0. rewrite <- (firstn_skipn k R0) in E. specialize (Hc _ _ _ _ E).
  assert (LR : length R0 = (length e + length R')%nat) by (rewrite X, app_length; reflexivity).
  rewrite skipn_length in Hc. split.
  - intros Hle. destruct (Nat.leb_spec (length R0 - k) (length R')); [|lia].
    destruct Hc as (r' & E2 & Hr'). rewrite E2. f_equal. f_equal.
    rewrite Hr', firstn_app.
    assert (L2 : length r' = (k - length e)%nat).
    { apply (f_equal (@length bool)) in Hr'. rewrite app_length, skipn_length in Hr'. lia. }
    rewrite L2, Nat.sub_diag. cbn [firstn]. rewrite app_nil_r. symmetry. apply firstn_all2. lia.
  - intros Hlt. destruct (Nat.leb_spec (length R0 - k) (length R')); [lia|]. exact Hc.
Qed.

(* C12, data level: the uncompressed template decoder cuts — any template, any
   number of subsets *)
Theorem decode_uncompressed_cuts T n : cuts (decode_uncompressed T n).
Proof.
  apply cuts_of_two_streams.
  - intros R0 [outs vals] R' E. unfold decode_uncompressed in E.
    apply bind_ok in E as ([o d] & E & E'). injection E' as <- <- <-.
    exact (run_subsets_suffix _ _ _ _ _ _ _ E).
  - intros t r [outs vals] R' E. unfold decode_uncompressed in *.
    apply bind_ok in E as ([o d] & E & E'). injection E' as <- <- <-.
    assert (HR : Rcut t (mkD (r ++ t) (repeat [] n) 0) (mkD r (repeat [] n) 0)) by (repeat split).
    pose proof (run_subsets_cut t T _ _ _ _ _ _ _ HR E) as C.
    destruct (length t <=? length (d_r d))%nat.
    + destruct C as (c2' & E2 & (Hr2 & Hv2 & _)). rewrite E2. cbn [bind]. rewrite <- Hv2. eauto.
    + apply lib_fail_bind, C.
Qed.

(* ... and so does the compressed one *)
Theorem decode_compressed_cuts T n : cuts (decode_compressed T n).
Proof.
  apply cuts_of_two_streams.
  - intros R0 [outs vals] R' E. unfold decode_compressed, run_compressed, run_template in E.
    apply bind_ok in E as ([o d] & E & E'). injection E' as <- <- <-.
    apply bind_ok in E as (s1 & E1 & E). injection E as <- <-.
    destruct (proj1 (decc_walk_cut [] T) _ _ E1) as (e & X). unfold rd in X. cbn in X. eauto.
  - intros t r [outs vals] R' E. unfold decode_compressed, run_compressed, run_template in *.
    apply bind_ok in E as ([o d] & E & E'). injection E' as <- <- <-.
    apply bind_ok in E as (s1 & E1 & E). injection E as <- <-.
    assert (HR0 : Rst (Rio (Rcut t)) (mkWs regs0 (mkIo [] [] (mkD (r ++ t) (repeat [] n) 0)))
                                     (mkWs regs0 (mkIo [] [] (mkD r (repeat [] n) 0)))).
    { split; cbn; [reflexivity|]. repeat split. }
    pose proof (proj2 (decc_walk_cut t T) _ _ _ HR0 E1) as C. unfold rd in C.
    destruct (length t <=? length (d_r (io_c (w_c s1))))%nat.
    + destruct C as (s2 & E2 & [Hr2 (Hdd & Hl & (Hr & Hv & _))]). rewrite E2. cbn [bind].
      rewrite <- Hdd, <- Hl, <- Hv. eauto.
    + apply lib_fail_bind, lib_fail_bind, C.
Qed.

(* ------------------------------------------------------------------------ *)
(* the template decoder of the framing model, instantiated with the real      *)
(* data decoders.  The (expanded) template, the number of subsets and the     *)
(* compression flag are functions of the attributes decoded so far (sections  *)
(* 1 and 3; table lookup and expansion are outside the framing model, hence   *)
(* arbitrary functions).  What is returned is the bits consumed.              *)
(* ------------------------------------------------------------------------ *)
Definition consumed {X} (dec : reader -> result (X * reader)) (r : reader) : result (bits * reader) :=
  let* (x, rest) := dec r in Ok (firstn (length r - length rest) r, rest).

Section Consumed.
Context {X : Type} (dec : reader -> result (X * reader)).
Hypothesis dec_cuts : cuts dec.
Hypothesis dec_suffix : forall r x rest s, dec r = Ok (x, rest) -> dec (r ++ s) = Ok (x, rest ++ s).

Lemma consumed_prefix r b r' : consumed dec r = Ok (b, r') -> r = b ++ r'.
Proof.
  unfold consumed. intros E. apply bind_ok in E as ([x rest] & E & E'). injection E' as <- <-.
  destruct (dec_cuts _ _ _ E) as (e & X0 & _).
  rewrite X0 at 2 3. rewrite app_length. replace (length e + length rest - length rest)%nat with (length e) by lia.
  rewrite firstn_app_exact by reflexivity. exact X0.
Qed.

Lemma consumed_suffix r b r' s : consumed dec r = Ok (b, r') -> consumed dec (r ++ s) = Ok (b, r' ++ s).
Proof.
  unfold consumed. intros E. apply bind_ok in E as ([x rest] & E & E'). injection E' as <- <-.
  rewrite (dec_suffix _ _ _ s E). cbn [bind]. destruct (dec_cuts _ _ _ E) as (e & X0 & _).
  f_equal. f_equal. rewrite !app_length.
  replace (length r + length s - (length rest + length s))%nat with (length r - length rest)%nat by lia.
  rewrite firstn_app. replace (length r - length rest - length r)%nat with 0%nat by lia.
  cbn [firstn]. rewrite app_nil_r. reflexivity.
Qed.

Lemma consumed_cuts : cuts (consumed dec).
Proof.
  apply cuts_intro_le. intros R0 b R' E. unfold consumed in E.
  apply bind_ok in E as ([x rest] & E & E'). injection E' as <- <-.
  destruct (dec_cuts _ _ _ E) as (e & X0 & K). exists e. split; [exact X0|].
  intros k Hk. destruct (K k) as [Ka Kb].
  assert (LR : length R0 = (length e + length rest)%nat) by (rewrite X0, app_length; reflexivity).
  unfold consumed. split.
  - intros Hle. rewrite (Ka Hle). cbn [bind]. f_equal. f_equal.
    rewrite !firstn_length, Nat.min_l by exact Hk. rewrite Nat.min_l by lia.
    replace (k - (k - length e))%nat with (length e) by lia. replace (length R0 - length rest)%nat with (length e) by lia.
    rewrite firstn_firstn, Nat.min_l by exact Hle. reflexivity.
  - intros Hlt. apply lib_fail_bind, Kb, Hlt.
Qed.
End Consumed.

Definition dd_template (T_of : list (pname * pvalue) -> descs) (n_of : list (pname * pvalue) -> nat)
    (c_of : list (pname * pvalue) -> bool) (props : list (pname * pvalue)) : reader -> result (bits * reader) :=
  consumed (if c_of props then decode_compressed (T_of props) (n_of props)
            else decode_uncompressed (T_of props) (n_of props)).

Section Template.
Variables (T_of : list (pname * pvalue) -> descs) (n_of : list (pname * pvalue) -> nat)
          (c_of : list (pname * pvalue) -> bool).
Notation dd := (dd_template T_of n_of c_of).

Lemma dd_template_dec_cuts p :
  cuts (if c_of p then decode_compressed (T_of p) (n_of p) else decode_uncompressed (T_of p) (n_of p)).
Proof. destruct (c_of p); [apply decode_compressed_cuts|apply decode_uncompressed_cuts]. Qed.

Lemma dd_template_dec_suffix p : forall r x rest s,
  (if c_of p then decode_compressed (T_of p) (n_of p) else decode_uncompressed (T_of p) (n_of p)) r = Ok (x, rest) ->
  (if c_of p then decode_compressed (T_of p) (n_of p) else decode_uncompressed (T_of p) (n_of p)) (r ++ s) = Ok (x, rest ++ s).
Proof.
  intros r [o v] rest s. destruct (c_of p);
    [apply decode_compressed_suffix_independent|apply decode_suffix_independent].
Qed.

Lemma dd_template_prefix : forall p r b r', dd p r = Ok (b, r') -> r = b ++ r'.
Proof. intros p r b r' E. exact (consumed_prefix _ (dd_template_dec_cuts p) (dd_template_dec_suffix p) _ _ _ E). Qed.

Lemma dd_template_suffix : forall p r b r' s, dd p r = Ok (b, r') -> dd p (r ++ s) = Ok (b, r' ++ s).
Proof. intros p r b r' s E. exact (consumed_suffix _ (dd_template_dec_cuts p) (dd_template_dec_suffix p) _ _ _ s E). Qed.

Lemma dd_template_cuts : forall p, cuts (dd p).
Proof. intros p. exact (consumed_cuts _ (dd_template_dec_cuts p) (dd_template_dec_suffix p)). Qed.
End Template.

(* ------------------------------------------------------------------------ *)
(* the message-level theorems for the real template decoders: no hypothesis   *)
(* about the template decoder is left                                         *)
(* ------------------------------------------------------------------------ *)
From PBK Require Import FrameRoundtrip FramePrefixEnc.

Section RealDecoder.
Variables (T_of : list (pname * pvalue) -> descs) (n_of : list (pname * pvalue) -> nat)
          (c_of : list (pname * pvalue) -> bool).
Notation dd := (dd_template T_of n_of c_of).

Theorem message_trailing_bytes_template : forall sig info ign s t m,
  decode_message dd sig info ign s = Ok m ->
  decode_message dd sig info ign (s ++ t) = Ok m.
Proof.
  intros sig info ign s t m H.
  apply (message_trailing_bytes dd (dd_template_prefix T_of n_of c_of) (dd_template_suffix T_of n_of c_of) _ _ _ _ t _ H).
Qed.

Theorem message_cut_template : forall sig info ign s m,
  decode_message dd sig info ign s = Ok m ->
  forall k,
    if holds_message sig s m k
    then decode_message dd sig info ign (firstn k s) = Ok m
    else lib_fail (decode_message dd sig info ign (firstn k s)).
Proof. exact (message_cut dd (dd_template_cuts T_of n_of c_of)). Qed.

Theorem encoded_prefix_fails_template : forall ign json m k,
  encode_message ign json = Ok m ->
  forallb sec_fitsb (m_sections m) = true -> forallb desc_fill_okb (m_sections m) = true ->
  data_okb dd [] (m_sections m) = true ->
  (k < length (m_bytes m))%nat ->
  lib_fail (decode_message dd (Some sig_BUFR) false false (firstn k (m_bytes m))).
Proof.
  intros ign json m k Henc Hf Hd Hdat Hk.
  apply (encoded_prefix_fails dd (dd_template_prefix T_of n_of c_of) (dd_template_suffix T_of n_of c_of)
           (dd_template_cuts T_of n_of c_of) ign json m k Henc);
    [apply sec_fitsb_sound, Hf|apply desc_fill_okb_all, Hd|
     apply (data_okb_sound dd (dd_template_prefix T_of n_of c_of) (dd_template_suffix T_of n_of c_of)), Hdat|exact Hk].
Qed.

Theorem encoded_info_prefix_template : forall ign json m,
  encode_message ign json = Ok m ->
  forallb sec_fitsb (m_sections m) = true -> forallb desc_fill_okb (m_sections m) = true ->
  data_okb dd [] (m_sections m) = true ->
  exists mi,
    decode_message dd (Some sig_BUFR) true false (m_bytes m) = Ok mi /\
    sections_nbits (m_sections mi) = (8 * (length (m_bytes m) - 4))%nat /\
    forall k,
      ((length (m_bytes m) - 4 <= k)%nat ->
         decode_message dd (Some sig_BUFR) true false (firstn k (m_bytes m)) = Ok mi) /\
      ((k < length (m_bytes m) - 4)%nat ->
         lib_fail (decode_message dd (Some sig_BUFR) true false (firstn k (m_bytes m)))).
Proof.
  intros ign json m Henc Hf Hd Hdat.
  apply (encoded_info_prefix dd (dd_template_prefix T_of n_of c_of) (dd_template_suffix T_of n_of c_of)
           (dd_template_cuts T_of n_of c_of) ign json m Henc);
    [apply sec_fitsb_sound, Hf|apply desc_fill_okb_all, Hd|
     apply (data_okb_sound dd (dd_template_prefix T_of n_of c_of) (dd_template_suffix T_of n_of c_of)), Hdat].
Qed.
End RealDecoder.

(* ---- non-vacuity ------------------------------------------------------------- *)
(* a template with a numeric element, a delayed replication (factor 031001) of a
   scaled element, and a string *)
Definition exT : descs :=
  descs_of_list
    [DElem (mkElem 4001 [97]%N 0 0 12);
     DDelayed 101000 (DElem (mkElem 31001 [97]%N 0 0 8))
              (descs_of_list [DElem (mkElem 12001 [97]%N 1 0 12)]);
     DElem (mkElem 1015 UNITS_STRING 0 0 16)].
Definition exT_of (_ : list (pname * pvalue)) : descs := exT.
Definition exn_of (props : list (pname * pvalue)) : nat :=
  match prop_get Nn_subsets props with Some (PUint z) => Z.to_nat z | _ => O end.
Definition exc_of (props : list (pname * pvalue)) : bool :=
  match prop_get Nis_compressed props with Some (PBool b) => b | _ => false end.

(* uncompressed, two subsets: (2024, two repetitions 273.1 280.5, "AB"), (2025, none, "CD") *)
Definition ex_data : bits :=
  to_bits 12 2024 ++ to_bits 8 2 ++ to_bits 12 2731 ++ to_bits 12 2805 ++ to_bits 8 65 ++ to_bits 8 66 ++
  to_bits 12 2025 ++ to_bits 8 0 ++ to_bits 8 67 ++ to_bits 8 68.

(* compressed, two subsets: year 2024/2025 (min 2024, 1-bit increments... width 2: 0, 1),
   factor 1 for both (no increments), temperature 2731/2733 (min 2731, width 2: 0, 2),
   string "AB" for both (no increments) *)
Definition ex_data_c : bits :=
  to_bits 12 2024 ++ to_bits 6 2 ++ to_bits 2 0 ++ to_bits 2 1 ++
  to_bits 8 1 ++ to_bits 6 0 ++
  to_bits 12 2731 ++ to_bits 6 2 ++ to_bits 2 0 ++ to_bits 2 2 ++
  to_bits 8 65 ++ to_bits 8 66 ++ to_bits 6 0.

Definition exu_json (compressed : bool) (data : bits) : list (list pvalue) :=
  [[PBytes sig_BUFR; PUint 0; PUint 4];
   [PUint 0; PUint 0; PUint 7; PUint 0; PUint 0; PBool false; PBin (zeros 7); PUint 2; PUint 0; PUint 0;
    PUint 33; PUint 0; PUint 2024; PUint 5; PUint 17; PUint 12; PUint 30; PUint 0];
   [PUint 0; PBin (zeros 8); PUint 2; PBool true; PBool compressed; PBin (zeros 6);
    PDescs [4001; 101000; 31001; 12001; 1015]];
   [PUint 0; PBin (zeros 8); PData data];
   [PBytes sig_7777]]%Z.

Definition ex_real_check (json : list (list pvalue)) : bool :=
  let dd := dd_template exT_of exn_of exc_of in
  match encode_message true json with
  | Ok m =>
      forallb sec_fitsb (m_sections m) && forallb desc_fill_okb (m_sections m) &&
      data_okb dd [] (m_sections m) &&
      is_ok (decode_message dd (Some sig_BUFR) false false (m_bytes m)) &&
      forallb (fun k => lib_failb (decode_message dd (Some sig_BUFR) false false (firstn k (m_bytes m))))
              (seq 0 (length (m_bytes m))) &&
      forallb (fun k => lib_failb (decode_message dd (Some sig_BUFR) true false (firstn k (m_bytes m))))
              (seq 0 (length (m_bytes m) - 4)) &&
      forallb (fun k => is_ok (decode_message dd (Some sig_BUFR) true false (firstn k (m_bytes m))))
              (seq (length (m_bytes m) - 4) 5) &&
      (45 <? length (m_bytes m))%nat
  | Err _ => false
  end.

Example real_truncation_nonvacuous :
  ex_real_check (exu_json false ex_data) = true /\ ex_real_check (exu_json true ex_data_c) = true.
Proof. split; vm_compute; reflexivity. Qed.
