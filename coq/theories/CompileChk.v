(* CompileChk.v — the executable side condition [ok_c08] of the compilation
   theorem (C08): the template compiler of Compile.v run with CHECKING handlers.
   The checking compiler records exactly what [comp_handlers] records and fails
   (Err EOther) where the equivalence "compiled = interpreted" is not provable:

     - a marker operator (22[2345]255 / 232255) while a 204YYY is in force (D14),
       while the 222000 status is "processing" (D27) or "waiting" with a class 33
       element among the possible back references, or after a 203000 that
       cancelled a 203YYY definition (D5);
     - a replication whose body does not leave the compile-time registers as it
       found them, unless compiling the body a second time, from the registers
       the first pass left, records the same statements and then leaves the
       registers alone (the "101NNN 031031" and "101NNN 033007" loops), and the
       replication count is known to be at least 1 (fixed replications with
       YYY >= 1; delayed replications only under [nzf], "no zero factor": D19).

   Model only; the theorems are in CompileEquiv.v. *)
From PBK Require Import Base Descr Walk Coder Compile.

(* ---- decidable equality of statements -------------------------------------- *)
Definition list_eqb {A} (eqb : A -> A -> bool) : list A -> list A -> bool :=
  fix go (a b : list A) : bool :=
    match a, b with
    | [], [] => true
    | x :: a', y :: b' => eqb x y && go a' b'
    | _, _ => false
    end.

Definition elem_eqb (a b : elem) : bool :=
  (e_id a =? e_id b)%N && list_eqb N.eqb (e_unit a) (e_unit b) &&
  (e_scale a =? e_scale b)%Z && (e_refval a =? e_refval b)%Z && (e_nbits a =? e_nbits b)%Z.

Definition ddesc_eqb (a b : ddesc) : bool :=
  match a, b with
  | DDElem x, DDElem y => elem_eqb x y
  | DDAssoc i n, DDAssoc j m => (i =? j)%N && (n =? m)%Z
  | DDSkipped i n, DDSkipped j m => (i =? j)%N && (n =? m)%Z
  | DDMarker x i, DDMarker y j => elem_eqb x y && (i =? j)%N
  | DDOper i, DDOper j => (i =? j)%N
  | _, _ => false
  end.

Definition bsr_eqb (a b : bsrmod) : bool :=
  (bsr_nbits a =? bsr_nbits b)%Z && (bsr_scale a =? bsr_scale b)%Z && (bsr_factor a =? bsr_factor b)%Z.

Definition sprops_eqb (a b : sprops) : bool :=
  (sp_new_nbytes a =? sp_new_nbytes b)%Z && (sp_nbits_offset a =? sp_nbits_offset b)%Z &&
  (sp_scale_offset a =? sp_scale_offset b)%Z && bsr_eqb (sp_bsr a) (sp_bsr b).

Definition loopn_eqb (a b : loopn) : bool :=
  match a, b with
  | LFixed n, LFixed m => (n =? m)%N
  | LDynamic, LDynamic => true
  | _, _ => false
  end.

Fixpoint stmt_eqb (x y : stmt) {struct x} : bool :=
  match x, y with
  | SNumeric d a b c, SNumeric d' a' b' c' => ddesc_eqb d d' && (a =? a')%Z && (b =? b')%Z && (c =? c')%Z
  | SNumericNR d a b c, SNumericNR d' a' b' c' => ddesc_eqb d d' && (a =? a')%Z && (b =? b')%Z && (c =? c')%Z
  | SString d a, SString d' a' => ddesc_eqb d d' && (a =? a')%Z
  | SCodeflag d a b, SCodeflag d' a' b' => ddesc_eqb d d' && (a =? a')%Z && (b =? b')%Z
  | SNewRefval d a, SNewRefval d' a' => ddesc_eqb d d' && (a =? a')%Z
  | SConstant d a, SConstant d' a' => ddesc_eqb d d' && (a =? a')%Z
  | SDefineBitmap r, SDefineBitmap r' => Bool.eqb r r'
  | SBitmapped i p, SBitmapped i' p' => (i =? i')%N && sprops_eqb p p'
  | SMark, SMark | SRecall, SRecall | SCancelBitmap, SCancelBitmap
  | SCancelBackrefs, SCancelBackrefs | SAddLink, SAddLink | SReset, SReset | SIncr, SIncr => true
  | SLoop n b, SLoop n' b' => loopn_eqb n n' && stmts_eqb b b'
  | _, _ => false
  end
with stmts_eqb (x y : stmts) {struct x} : bool :=
  match x, y with
  | SNil, SNil => true
  | SCons a r, SCons a' r' => stmt_eqb a a' && stmts_eqb r r'
  | _, _ => false
  end.

(* ---- the compile-time registers compared exactly ---------------------------- *)
Definition keys (r : regs) : list N := map fst (r_new_refvals r).

Definition strict_eqb (a b : regs) : bool :=
  (r_nbits_offset a =? r_nbits_offset b)%Z && (r_scale_offset a =? r_scale_offset b)%Z &&
  (r_nbits_new_refval a =? r_nbits_new_refval b)%Z &&
  list_eqb N.eqb (keys a) (keys b) &&
  list_eqb Z.eqb (r_assoc a) (r_assoc b) &&
  (r_nbits_skipped a =? r_nbits_skipped b)%Z && bsr_eqb (r_bsr a) (r_bsr b) &&
  (r_new_nbytes a =? r_new_nbytes b)%Z && (r_dnp a =? r_dnp b)%Z &&
  (r_qa a =? r_qa b)%N && (r_bm_state a =? r_bm_state b)%N && Bool.eqb (r_reuse a) (r_reuse b).

(* ---- the checking compiler ---------------------------------------------------- *)
(* [ck_ndef]: how many times a new reference value has been defined so far; the
   compile-time dictionary is shorter than that exactly when a 203000 cancelled
   a definition ("dirty"): from then on the run-time dictionary of a compiled run
   (which never replays 203000) holds more than the interpreter's. *)
(* [ck_c33]: a plain element descriptor of class 33 may have been processed so far
   (then a back reference may point at one; while it is false, the bitmapped
   element of a marker operator cannot be of class 33). *)
Record cks := mkCk { ck_code : stmts; ck_ndef : nat; ck_c33 : bool }.

Definition dd_c33 (d : ddesc) : bool :=
  match d with DDElem e => (desc_X (e_id e) =? 33)%N | _ => false end.

Definition stmt_c33 (x : stmt) : bool :=
  match x with
  | SNumeric dd _ _ _ | SNumericNR dd _ _ _ | SString dd _ | SCodeflag dd _ _
  | SNewRefval dd _ | SConstant dd _ => dd_c33 dd
  | _ => false
  end.

Definition dirty_of (r : regs) (nd : nat) : bool := negb (length (r_new_refvals r) =? nd)%nat.
Definition dirty (s : ws cks) : bool := dirty_of (w_r s) (ck_ndef (w_c s)).

Definition cemit_st (x : stmt) (s : ws cks) : ws cks :=
  mkWs (w_r s) (mkCk (stmts_snoc (ck_code (w_c s)) x) (ck_ndef (w_c s))
                     (if stmt_c33 x then true else ck_c33 (w_c s))).
Definition cemit (x : stmt) (s : ws cks) : result (ws cks) := Ok (cemit_st x s).

Definition seq_eqb (a b : ws cks) : bool :=
  strict_eqb (w_r a) (w_r b) && Bool.eqb (dirty a) (dirty b) && Bool.eqb (ck_c33 (w_c a)) (ck_c33 (w_c b)).

Definition fresh (s : ws cks) : ws cks := mkWs (w_r s) (mkCk SNil (ck_ndef (w_c s)) (ck_c33 (w_c s))).

Definition chk_loop1 (allow2 : bool) (ln : loopn) (body : ws cks -> result (ws cks)) (s : ws cks)
  : result (ws cks) :=
  let* s1 := body (fresh s) in
  let done := Ok (mkWs (w_r s1) (mkCk (stmts_snoc (ck_code (w_c s)) (SLoop ln (ck_code (w_c s1))))
                                      (ck_ndef (w_c s1)) (ck_c33 (w_c s1)))) in
  if seq_eqb s s1 then done
  else if allow2 then
    let* s2 := body (fresh s1) in
    if seq_eqb s1 s2 && stmts_eqb (ck_code (w_c s1)) (ck_code (w_c s2)) then done else Err EOther
  else Err EOther.

(* the class 33 flag is monotone: the body is compiled once to learn whether it sets
   the flag, then checked (again) with the flag every pass may start from *)
Definition set_c33 (b : bool) (s : ws cks) : ws cks :=
  mkWs (w_r s) (mkCk (ck_code (w_c s)) (ck_ndef (w_c s)) b).

Definition chk_loop (allow2 : bool) (ln : loopn) (body : ws cks -> result (ws cks)) (s : ws cks)
  : result (ws cks) :=
  let* s1 := body (fresh s) in
  chk_loop1 allow2 ln body (set_c33 (ck_c33 (w_c s) || ck_c33 (w_c s1)) s).

Definition chk_handlers (nzf : bool) : handlers cks := {|
  h_numeric := fun dd a b c => cemit (SNumeric dd a b c);
  h_numeric_new_refval := fun dd a b c => cemit (SNumericNR dd a b c);
  h_string := fun dd a => cemit (SString dd a);
  h_codeflag := fun dd a b => cemit (SCodeflag dd a b);
  h_new_refval := fun dd a s =>
    Ok (mkWs (set_new_refvals (refval_set (dd_id dd) None (r_new_refvals (w_r s))) (w_r s))
             (mkCk (stmts_snoc (ck_code (w_c s)) (SNewRefval dd a)) (S (ck_ndef (w_c s)))
                   (if dd_c33 dd then true else ck_c33 (w_c s))));
  h_constant := fun dd v => cemit (SConstant dd v);
  h_define_bitmap := fun reuse => cemit (SDefineBitmap reuse);
  h_mark_boundary := cemit SMark;
  h_recall_bitmap := cemit SRecall;
  h_cancel_bitmap := cemit SCancelBitmap;
  h_cancel_backrefs := cemit SCancelBackrefs;
  h_add_bitmap_link := cemit SAddLink;
  h_bitmap_def_wrap := fun f s =>
    let n0 := r_n031031 (w_r s) in
    let* s1 := f s in
    let n1 := r_n031031 (w_r s1) in
    if (n1 =? 0)%Z then cemit SReset s1
    else if (n1 =? n0 + 1)%Z then cemit SIncr s1
    else if (n1 =? n0)%Z then Ok s1
    else Err ELib;
  h_fixed := fun n body => chk_loop (negb (n =? 0)%N) (LFixed n) body;
  h_delayed := fun body => chk_loop nzf LDynamic body;
  h_bitmapped := fun id _ s =>
    let r := w_r s in
    match r_assoc r with
    | [] =>
        if ((r_qa r =? QA_INFO_NA)%N || ((r_qa r =? QA_INFO_WAITING)%N && negb (ck_c33 (w_c s))))
           && negb (dirty s) then
          cemit (SBitmapped id (mkProps (r_new_nbytes r) (r_nbits_offset r) (r_scale_offset r) (r_bsr r))) s
        else Err EOther
    | _ :: _ => Err EOther
    end
|}.

Definition chk_add_link (idx : N) (s : ws cks) : result (ws cks) := Ok s.

(* [c33] : may the start state already hold a decoded class 33 element descriptor? *)
Definition chk_run (nzf c33 : bool) (T : descs) : result (ws cks) :=
  walk_list (chk_handlers nzf) chk_add_link T (mkWs regs0 (mkCk SNil 0 c33)).

(* the side condition of the theorem, for a start state without decoded class 33
   element descriptors (in particular the empty list of a fresh subset);
   [ok_c08_nz] additionally accepts delayed replications whose body changes the
   compile-time registers in the repeatable way, for coders whose replication
   factors are never 0; [ok_c08_any] is the condition for an arbitrary start state *)
Definition ok_c08 (T : descs) : bool := is_ok (chk_run false false T).
Definition ok_c08_nz (T : descs) : bool := is_ok (chk_run true false T).
Definition ok_c08_any (T : descs) : bool := is_ok (chk_run false true T).

(* a primitive family that refuses a replication factor 0 *)
Definition nz_prims {C} (P : prims C) : prims C :=
  mkPrims C (p_numeric P) (p_string P) (p_codeflag P) (p_new_refval P) (p_constant P)
    (fun c => let* n := p_factor P c in if (n =? 0)%N then Err ELib else Ok n)
    (p_bitmap P).
