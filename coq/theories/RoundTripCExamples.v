(* RoundTripCExamples.v — non-vacuity of the compressed round-trip theorems: a
   template with a numeric, a code-table, a character and a one-bit flag element,
   201YYY, a delayed and a fixed replication, three subsets with missing entries,
   equal columns and differing columns; computed by vm_compute. *)
From PBK Require Import Base Bits Descr Walk Coder Decode Encode RoundTrip Column DecodeC EncodeC EncodeCG RoundTripC.

Definition exc_num (id : N) (sc rf nb : Z) := mkElem id [75]%N sc rf nb.          (* unit "K" *)
Definition exc_code (id : N) (nb : Z) := mkElem id UNITS_CODE_TABLE 0 0 nb.
Definition exc_flag (id : N) (nb : Z) := mkElem id UNITS_FLAG_TABLE 0 0 nb.
Definition exc_str (id : N) (nb : Z) := mkElem id UNITS_STRING 0 0 nb.

Definition exc_T : descs :=
  DCons (DElem (exc_num 12001 1 0 12))
  (DCons (DElem (exc_code 20003 4))
  (DCons (DElem (exc_str 1015 32))
  (DCons (DOper 201130)
  (DCons (DElem (exc_num 7004 (-1) 0 14))
  (DCons (DOper 201000)
  (DCons (DDelayed 102000 (DElem (exc_num 31001 0 0 8))
            (DCons (DElem (exc_num 10004 0 (-5) 10)) (DCons (DElem (exc_flag 8001 1)) DNil)))
  (DCons (DFixed 101002 (DCons (DElem (exc_num 11001 0 0 9)) DNil)) DNil))))))).

Definition exc_vals : list (list value) :=
  [[VInt 273; VInt 3; VBytes [65;66]%N; VInt 5000; VInt 2; VInt 7; VInt 1; VInt 9; VInt 0; VInt 10; VInt 20];
   [VInt 280; VNone; VBytes [65;66;67;68;69]%N; VInt 5000; VInt 2; VInt 7; VNone; VInt 9; VInt 1; VNone; VInt 21];
   [VNone; VInt 14; VNone; VInt 5000; VInt 2; VNone; VInt 0; VInt 100; VInt 0; VNone; VInt 20]].

(* what a reader obtains: quantised numbers, cut / padded strings, missing entries *)
Definition exc_ghost : list (list value) :=
  [[VDec 2730 1; VInt 3; VBytes [65;66;32;32]%N; VDec 500 (-1); VInt 2; VInt 7; VInt 1; VInt 9; VInt 0; VInt 10; VInt 20];
   [VDec 2800 1; VNone; VBytes [65;66;67;68]%N; VDec 500 (-1); VInt 2; VInt 7; VNone; VInt 9; VInt 1; VNone; VInt 21];
   [VNone; VInt 14; VBytes [255;255;255;255]%N; VDec 500 (-1); VInt 2; VNone; VInt 0; VInt 100; VInt 0; VNone; VInt 20]].

Example exc_ghost_accepts :
  exists outs w, encode_compressed_ghost exc_T exc_vals = Ok (outs, w, exc_ghost) /\
                 length w = 358%nat /\ length outs = 3%nat.
Proof. eexists; eexists; split; [vm_compute; reflexivity|split; reflexivity]. Qed.

(* the theorem applied to the example (with three further bits after the data) *)
Example exc_decodes :
  exists outs w, encode_compressed_ghost exc_T exc_vals = Ok (outs, w, exc_ghost) /\
                 decode_compressed exc_T 3 (w ++ [true; false; true]) = Ok (outs, exc_ghost, [true; false; true]).
Proof.
  destruct exc_ghost_accepts as (outs & w & E & _). exists outs, w. split; [exact E|].
  apply (decode_encode_compressed exc_T exc_vals). exact E.
Qed.

Example exc_decode_direct :
  exists outs w, encode_compressed exc_T exc_vals = Ok (outs, w) /\
                 decode_compressed exc_T 3 w = Ok (outs, exc_ghost, []).
Proof. eexists; eexists; split; vm_compute; reflexivity. Qed.

(* the column domains: ordinary widths, one-bit columns with a missing entry, and
   the one-bit column that is missing throughout (read back as 1: D18) *)
Example exc_col_dom :
  col_dom_any 12 false [Some 2730; Some 2800; None]%Z = true /\
  col_dom_any 1 false [Some 1; None; Some 0]%Z = true /\
  col_dom_any 1 true [None; None]%Z = true /\
  num_view 1 [None; None] = [Some 1; Some 1]%N /\
  col_dom_any 4 false [Some 15; Some 3]%Z = false.
Proof. repeat split. Qed.

(* ---- transparency (TransparentC.v) ------------------------------------------------ *)
(* the same values with the one-bit flag present in every subset: accepted by the
   STRICT compressed ghost and by the uncompressed ghost *)
Definition exc_vals_t : list (list value) :=
  [[VInt 273; VInt 3; VBytes [65;66]%N; VInt 5000; VInt 2; VInt 7; VInt 1; VInt 9; VInt 0; VInt 10; VInt 20];
   [VInt 280; VNone; VBytes [65;66;67;68;69]%N; VInt 5000; VInt 2; VInt 7; VInt 1; VInt 9; VInt 1; VNone; VInt 21];
   [VNone; VInt 14; VNone; VInt 5000; VInt 2; VNone; VInt 0; VInt 100; VInt 0; VNone; VInt 20]].
Definition exc_ghost_t : list (list value) :=
  [[VDec 2730 1; VInt 3; VBytes [65;66;32;32]%N; VDec 500 (-1); VInt 2; VInt 7; VInt 1; VInt 9; VInt 0; VInt 10; VInt 20];
   [VDec 2800 1; VNone; VBytes [65;66;67;68]%N; VDec 500 (-1); VInt 2; VInt 7; VInt 1; VInt 9; VInt 1; VNone; VInt 21];
   [VNone; VInt 14; VBytes [255;255;255;255]%N; VDec 500 (-1); VInt 2; VNone; VInt 0; VInt 100; VInt 0; VNone; VInt 20]].

Example exc_both_accept :
  exists outs w w',
    encode_compressed_ghost_strict exc_T exc_vals_t = Ok (outs, w, exc_ghost_t) /\
    encode_ghost exc_T exc_vals_t = Ok (outs, w', exc_ghost_t) /\
    length w = 358%nat /\ length w' = 336%nat.
Proof.
  eexists; eexists; eexists. split; [vm_compute; reflexivity|].
  split; [vm_compute; reflexivity|]. split; reflexivity.
Qed.

(* D18 at template level: with the flag (one bit) missing in the second subset only,
   both plain ghost encoders accept, and the two readers disagree on that entry:
   missing compressed, 1 uncompressed.  The strict ghost refuses this input. *)
Example exc_onebit_not_transparent :
  exists outs w g w' g',
    encode_compressed_ghost exc_T exc_vals = Ok (outs, w, g) /\
    encode_ghost exc_T exc_vals = Ok (outs, w', g') /\
    nth 6 (nth 1 g []) VNone = VNone /\ nth 6 (nth 1 g' []) VNone = VInt 1 /\
    encode_compressed_ghost_strict exc_T exc_vals = Err EOther.
Proof.
  eexists; eexists; eexists; eexists; eexists.
  split; [vm_compute; reflexivity|]. split; [vm_compute; reflexivity|].
  split; [reflexivity|]. split; [reflexivity|]. vm_compute. reflexivity.
Qed.

Theorem onebit_template_refuted :
  exists T vals outs w g w' g',
    encode_compressed_ghost T vals = Ok (outs, w, g) /\
    encode_ghost T vals = Ok (outs, w', g') /\ g <> g'.
Proof.
  destruct exc_onebit_not_transparent as (outs & w & g & w' & g' & E1 & E2 & H1 & H2 & _).
  exists exc_T, exc_vals, outs, w, g, w', g'. split; [exact E1|]. split; [exact E2|].
  intros ->. rewrite H1 in H2. discriminate.
Qed.
