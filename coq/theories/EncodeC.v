(* EncodeC.v — Encoder's primitives for COMPRESSED data (encoder.py
   process_*_compressed) over the column codec of Column.v. *)
From PBK Require Import Base Bits Descr Walk Coder Float53 Decode Encode Column DecodeC.

(* _next_compressed_values_and_status_from_all_subsets: the idx_value-th value of
   every subset (IndexError when a subset is too short), idx_value += 1 *)
Fixpoint column_at (i : nat) (vals : list (list value)) : result (list value) :=
  match vals with
  | [] => Ok []
  | l :: r =>
      match nth_error l i with
      | None => Err EIndex
      | Some v => let* c := column_at i r in Ok (v :: c)
      end
  end.

Definition next_column (e : estate) : result (list value * bool * estate) :=
  let* col := column_at (e_idx e) (e_vals e) in
  match col with
  | [] => Err EIndex                        (* values[0] *)
  | v0 :: _ =>
      Ok (col, forallb (value_eqb v0) col, mkE (e_w e) (e_vals e) (S (e_idx e)) (e_cur e))
  end.

Fixpoint map_res {A B} (f : A -> result B) (l : list A) : result (list B) :=
  match l with
  | [] => Ok []
  | x :: r => let* y := f x in let* ys := map_res f r in Ok (y :: ys)
  end.

Definition encc_numeric (nbits scale refval : Z) (e : estate) : result estate :=
  let* (p, e1) := next_column e in
  let '(col, all_equal) := p in
  let* raws := (if all_equal
                then (* only values[0] is scaled *)
                  match col with
                  | VNone :: _ => Ok (map (fun _ => None) col)
                  | v :: _ => let* x := scaled_int v scale refval in Ok (map (fun _ => Some x) col)
                  | [] => Ok []
                  end
                else map_res (fun v => match v with
                                       | VNone => Ok None
                                       | _ => let* x := scaled_int v scale refval in Ok (Some x)
                                       end) col) in
  let* w := enc_col_num nbits all_equal raws (e_w e1) in Ok (with_w e1 w).

Definition encc_string (nbytes : Z) (e : estate) : result estate :=
  let* (p, e1) := next_column e in
  let '(col, all_equal) := p in
  let* vs := map_res (fun v => match v with
                               | VNone => Ok None
                               | VBytes b => Ok (Some b)
                               | _ => Err EType
                               end) col in
  let* w := enc_col_str nbytes all_equal vs (e_w e1) in Ok (with_w e1 w).

Definition encc_codeflag (nbits dnbits : Z) (e : estate) : result estate :=
  let* (p, e1) := next_column e in
  let '(col, all_equal) := p in
  let* raws := map_res (fun v => match v with
                                 | VNone => Ok None
                                 | VInt z => Ok (Some z)
                                 | VDyad m ex => Ok (Some (trunc (m, ex)))
                                 | _ => Err EType
                                 end) col in
  let* w := enc_col_codeflag nbits all_equal raws (e_w e1) in Ok (with_w e1 w).

Definition encc_new_refval (nbits : Z) (e : estate) : result (Z * estate) :=
  let* (p, e1) := next_column e in
  let '(col, all_equal) := p in
  match col with
  | VInt z :: _ =>
      let* w := enc_col_refval nbits all_equal (Some z) (e_w e1) in Ok (z, with_w e1 w)
  | VNone :: _ =>
      let* w := enc_col_refval nbits all_equal None (e_w e1) in Err EAssert
  | _ :: _ => if all_equal then Err EType else Err EAssert
  | [] => Err EIndex
  end.

Definition encc_constant (z : Z) (e : estate) : result estate :=
  let* (p, e1) := next_column e in
  let '(col, all_equal) := p in
  match col with
  | v :: _ => if all_equal && value_eq_int v z then Ok e1 else Err EAssert
  | [] => Err EAssert
  end.

(* get_value_for_delayed_replication_factor(idx_value - 1), compressed *)
Definition encc_factor (e : estate) : result N :=
  match e_idx e with
  | O => Err EOther            (* index -1: the last value of each subset; never generated *)
  | S k =>
      let* col := column_at k (e_vals e) in
      let* _ := assert_equal_present col in
      match col with [] => Err EIndex | v :: _ => factor_of_value v end
  end.

Definition encc_bitmap (n : Z) (e : estate) : result (list bool) :=
  let i := e_idx e in
  let k := Z.to_nat n in
  match e_vals e with
  | [] => Err EIndex
  | l :: _ => if (i <? k)%nat then Err EOther else Ok (map value_is_zero (firstn k (skipn (i - k) l)))
  end.

Definition encc_prims : prims estate :=
  mkPrims estate encc_numeric encc_string encc_codeflag encc_new_refval encc_constant encc_factor encc_bitmap.

Definition encode_compressed (T : descs) (vals : list (list value))
  : result (list subset_out * writer) :=
  let* (outs, e) := run_compressed encc_prims T (length vals) (mkE [] vals 0 0) in
  Ok (outs, e_w e).
